import TLVerif.Packet.ScriptLemmas
/-!
The stream reader applied to the plaintext a step history produces (`read_steps`), the schedule derived from a
flat script (`sched_steps`), and the two assembled round-trip statements at the level of the whole-stream reader.
-/
namespace TLVerif.Packet
open TLVerif.Facts.Packet

variable (e : Env)

def NoEnc (ms : List ModeOp) : Prop := ∀ m ∈ ms, m.isEnc = false
def NoEncSteps (ss : List Step) : Prop := ∀ s ∈ ss, NoEnc s.modes

theorem wMode_mode (w : WState) (m : ModeOp) : (wMode w m).mode = mApply w.mode m := by cases m <;> rfl
theorem wModes_mode (w : WState) (ms : List ModeOp) : (wModes w ms).mode = ms.foldl mApply w.mode := by
  induction ms generalizing w with
  | nil => rfl
  | cons m ms ih => simp only [wModes, List.foldl_cons] at ih ⊢; rw [ih, wMode_mode]

theorem applyModeOps_noenc {σ : Type} (ops : SrcOps σ) (st : RState) (s : σ) (ms : List ModeOp) (h : NoEnc ms) :
    applyModeOps ops st s ms = some ({ st with mode := ms.foldl mApply st.mode }, s) := by
  induction ms generalizing st with
  | nil => rfl
  | cons m ms ih =>
    have hm := h m (by simp)
    have hr : NoEnc ms := fun x hx => h x (by simp [hx])
    cases m with
    | setProto v => simp only [applyModeOps, applyModeOp]; rw [ih _ hr]; rfl
    | setCrcC => simp only [applyModeOps, applyModeOp]; rw [ih _ hr]; rfl
    | encrypt k iv => simp [ModeOp.isEnc] at hm

theorem applyModeOps_append {σ : Type} (ops : SrcOps σ) (st : RState) (s : σ) (a b : List ModeOp) :
    applyModeOps ops st s (a ++ b) =
      match applyModeOps ops st s a with
      | none => none
      | some r => applyModeOps ops r.1 r.2 b := by
  induction a generalizing st s with
  | nil => rfl
  | cons m a ih =>
    simp only [List.cons_append, applyModeOps]
    cases applyModeOp ops st s m with
    | none => rfl
    | some r => exact ih _ _

/-- one iteration of the reading loop on a well-formed frame -/
theorem readLoop_step (sched : Nat → List ModeOp) (f n : Nat) (m m' : Mode) (src : Bytes) (j tip : Nat)
    (body rest : Bytes)
    (h : applyModeOps (pureSrc e) ⟨n, m⟩ src (sched n) = some (⟨n, m'⟩, padWords j ++ (frame e m' n tip body ++ rest)))
    (hp : PktOK ⟨n, m'⟩ tip body) (hj : j ≤ 3) (hj0 : n = 0 → j = 0) :
    readLoop (pureSrc e) e sched (f + 1) ⟨n, m⟩ src =
      (evOf tip body :: (readLoop (pureSrc e) e sched f ⟨n + 1, m'⟩ rest).1,
       (readLoop (pureSrc e) e sched f ⟨n + 1, m'⟩ rest).2) := by
  simp only [readLoop, h]
  have := readPacket_frame e ⟨n, m'⟩ j tip body rest hp hj hj0
  simp only at this
  rw [this]

theorem wStep_n (w : WState) (s : Step) : (wStep e w s).n = w.n + 1 := by
  unfold wStep; split <;> simp [wFlush, wWrite, wModes_n]

theorem wStep_mode (w : WState) (s : Step) : (wStep e w s).mode = (wModes w s.modes).mode := by
  unfold wStep; split <;> simp [wFlush, wWrite]

theorem jStep_le (w : WState) (s : Step) (hm : ModesOK w s.modes) (hi : EInv w) : jStep e w s ≤ 3 := by
  unfold jStep
  split
  · have := padOf_bound _ (EInv_wWrite e _ s.tip s.body (EInv_wModes w s.modes hm hi)); omega
  · omega

/-- **The stream reader on a step history** (no encryption switch inside): it delivers exactly the packets, and
continues on whatever follows. -/
theorem read_steps (sched : Nat → List ModeOp) (ss : List Step) :
    ∀ (w : WState) (j : Nat) (tail : Bytes) (f : Nat), EInv w → StepsOK e w ss → NoEncSteps ss →
      j ≤ 3 → (w.n = 0 → j = 0) → (∀ i (h : i < ss.length), sched (w.n + i) = ss[i].modes) →
      readLoop (pureSrc e) e sched (ss.length + f) ⟨w.n, w.mode⟩ (padWords j ++ (stepsBytes e w ss ++ tail)) =
        (ss.map stepEv ++
          (readLoop (pureSrc e) e sched f ⟨(wSteps e w ss).n, (wSteps e w ss).mode⟩ (padWords (jSteps e w j ss) ++ tail)).1,
         (readLoop (pureSrc e) e sched f ⟨(wSteps e w ss).n, (wSteps e w ss).mode⟩ (padWords (jSteps e w j ss) ++ tail)).2) := by
  induction ss with
  | nil =>
    intro w j tail f _ _ _ _ _ _
    simp [stepsBytes, wSteps, jSteps]
  | cons s ss ih =>
    intro w j tail f hi hok hne hj hj0 hs
    obtain ⟨hm, hp, hrest⟩ := hok
    have hne_s : NoEnc s.modes := hne s (by simp)
    have hs0 : sched w.n = s.modes := by have := hs 0 (by simp); simpa using this
    have hmode : (wModes w s.modes).mode = s.modes.foldl mApply w.mode := wModes_mode w s.modes
    have h1 : applyModeOps (pureSrc e) ⟨w.n, w.mode⟩ (padWords j ++ (stepsBytes e w (s :: ss) ++ tail)) (sched w.n) =
        some (⟨w.n, (wModes w s.modes).mode⟩,
          padWords j ++ (frame e (wModes w s.modes).mode w.n s.tip s.body ++
            (padWords (jStep e w s) ++ (stepsBytes e (wStep e w s) ss ++ tail)))) := by
      rw [hs0, applyModeOps_noenc _ _ _ _ hne_s, ← hmode]
      simp [stepsBytes, stepBytes, List.append_assoc]
    have hlen : (s :: ss).length + f = (ss.length + f) + 1 := by simp; omega
    rw [hlen, readLoop_step e sched _ w.n w.mode _ _ j s.tip s.body _ h1 hp hj hj0]
    have ih' := ih (wStep e w s) (jStep e w s) tail f (EInv_wStep e w s hm hi) hrest
      (fun x hx => hne x (by simp [hx])) (jStep_le e w s hm hi) (by rw [wStep_n]; omega)
      (by
        intro i h
        have := hs (i + 1) (by simp; omega)
        rw [wStep_n]
        simpa [Nat.add_assoc, Nat.add_comm 1 i] using this)
    rw [wStep_n, wStep_mode] at ih'
    rw [ih']
    simp [wSteps, jSteps, stepEv]

/-! ### the schedule derived from a flat script -/

theorem schedOfOps_append (a b : List Op) (w : WState) (k : Nat) :
    schedOfOps e (a ++ b) w k =
      schedOfOps e a w k ++ (match runW e a w with | none => [] | some w1 => schedOfOps e b w1 k) := by
  induction a generalizing w with
  | nil => simp [schedOfOps, runW]
  | cons op a ih =>
    simp only [List.cons_append, schedOfOps, runW]
    cases stepW e w op <;> simp [ih, List.append_assoc]

theorem schedOfOps_modes (w : WState) (ms : List ModeOp) (k : Nat) (h : ModesOK w ms) :
    schedOfOps e (ms.map .mode) w k = if w.n = k then ms else [] := by
  induction ms generalizing w with
  | nil => simp [schedOfOps]
  | cons m ms ih =>
    simp only [List.map_cons, schedOfOps, stepW, wApplyMode_ok w m h.1]
    rw [ih _ h.2, wMode_n]
    split <;> simp

theorem schedOfOps_flushes (w : WState) (c : Nat) (k : Nat) : schedOfOps e (List.replicate c .flush) w k = [] := by
  induction c generalizing w with
  | zero => rfl
  | succ c ih =>
    simp only [List.replicate_succ, schedOfOps]
    cases stepW e w .flush <;> simp [ih]

theorem schedOfOps_step (w : WState) (s : Step) (rest : List Op) (k : Nat) (hm : ModesOK w s.modes)
    (hp : PktOK ⟨w.n, (wModes w s.modes).mode⟩ s.tip s.body) (hi : EInv w) :
    schedOfOps e (s.ops ++ rest) w k = (if w.n = k then s.modes else []) ++ schedOfOps e rest (wStep e w s) k := by
  rw [schedOfOps_append, runW_step e w s hm hp hi]
  congr 1
  unfold Step.ops
  rw [schedOfOps_append, schedOfOps_modes e w s.modes k hm, runW_modes e w s.modes hm]
  simp only [schedOfOps]
  cases stepW e (wModes w s.modes) (.write s.flush s.tip s.body) <;> simp [schedOfOps_flushes]

theorem sched_steps (w : WState) (ss : List Step) (hok : StepsOK e w ss) (hi : EInv w) :
    (∀ i (h : i < ss.length), schedOfOps e (flat ss) w (w.n + i) = ss[i].modes) ∧
    (∀ k, k < w.n ∨ w.n + ss.length ≤ k → schedOfOps e (flat ss) w k = []) := by
  induction ss generalizing w with
  | nil => simp [flat, schedOfOps]
  | cons s ss ih =>
    obtain ⟨hm, hp, hrest⟩ := hok
    obtain ⟨ih1, ih2⟩ := ih (wStep e w s) hrest (EInv_wStep e w s hm hi)
    have hfl : flat (s :: ss) = s.ops ++ flat ss := by simp [flat]
    rw [hfl]
    constructor
    · intro i h
      rw [schedOfOps_step e w s _ _ hm hp hi]
      cases i with
      | zero =>
        simp only [Nat.add_zero, if_true, List.getElem_cons_zero]
        rw [ih2 _ (by rw [wStep_n]; omega)]
        simp
      | succ i =>
        rw [if_neg (by omega)]
        have := ih1 i (by simp at h; omega)
        rw [wStep_n] at this
        simp only [List.nil_append, List.getElem_cons_succ]
        rw [← this]
        congr 1
        omega
    · intro k hk
      rw [schedOfOps_step e w s _ _ hm hp hi]
      rw [if_neg (by simp at hk; omega)]
      rw [ih2 k (by rw [wStep_n]; simp at hk; omega)]
      rfl

/-! ### bookkeeping over histories -/

theorem wSteps_append (w : WState) (a b : List Step) : wSteps e w (a ++ b) = wSteps e (wSteps e w a) b := by
  induction a generalizing w with
  | nil => rfl
  | cons s a ih => simp only [List.cons_append, wSteps]; exact ih _

theorem stepsBytes_append (w : WState) (a b : List Step) :
    stepsBytes e w (a ++ b) = stepsBytes e w a ++ stepsBytes e (wSteps e w a) b := by
  induction a generalizing w with
  | nil => rfl
  | cons s a ih => simp only [List.cons_append, stepsBytes, wSteps, ih, List.append_assoc]

theorem StepsOK_append (w : WState) (a b : List Step) :
    StepsOK e w (a ++ b) ↔ StepsOK e w a ∧ StepsOK e (wSteps e w a) b := by
  induction a generalizing w with
  | nil => simp [StepsOK, wSteps]
  | cons s a ih => simp only [List.cons_append, StepsOK, wSteps, ih, and_assoc]

theorem wSteps_n (w : WState) (ss : List Step) : (wSteps e w ss).n = w.n + ss.length := by
  induction ss generalizing w with
  | nil => rfl
  | cons s ss ih => simp only [wSteps, ih, wStep_n, List.length_cons]; omega

theorem ModesOK_append (w : WState) (a b : List ModeOp) :
    ModesOK w (a ++ b) ↔ ModesOK w a ∧ ModesOK (wModes w a) b := by
  induction a generalizing w with
  | nil => simp [ModesOK, wModes]
  | cons m a ih => simp only [List.cons_append, ModesOK, wModes, List.foldl_cons, and_assoc] at ih ⊢; rw [ih]

theorem wModes_pending (w : WState) (ms : List ModeOp) : (wModes w ms).pending = w.pending := by
  induction ms generalizing w with
  | nil => rfl
  | cons m ms ih => simp only [wModes, List.foldl_cons] at ih ⊢; rw [ih, wMode_pending]

theorem wModes_out (w : WState) (ms : List ModeOp) : (wModes w ms).out = w.out := by
  induction ms generalizing w with
  | nil => rfl
  | cons m ms ih => simp only [wModes, List.foldl_cons] at ih ⊢; rw [ih, wMode_out]

/-- the part of the writer state that decides how the stream is encrypted -/
def WState.key (w : WState) : Bool × Option (Bytes × Bytes) × Nat := (w.mode.enc, w.cipher, w.encStart)

theorem wModes_key (w : WState) (ms : List ModeOp) (h : NoEnc ms) : (wModes w ms).key = w.key := by
  induction ms generalizing w with
  | nil => rfl
  | cons m ms ih =>
    have hm := h m (by simp)
    simp only [wModes, List.foldl_cons] at ih ⊢
    rw [ih _ (fun x hx => h x (by simp [hx]))]
    cases m with
    | setProto v => rfl
    | setCrcC => rfl
    | encrypt k iv => simp [ModeOp.isEnc] at hm

theorem wStep_key (w : WState) (s : Step) (h : NoEnc s.modes) : (wStep e w s).key = w.key := by
  have := wModes_key w s.modes h
  unfold wStep
  split <;> simpa [WState.key, wFlush, wWrite] using this

theorem wSteps_key (w : WState) (ss : List Step) (h : NoEncSteps ss) : (wSteps e w ss).key = w.key := by
  induction ss generalizing w with
  | nil => rfl
  | cons s ss ih =>
    simp only [wSteps]
    rw [ih _ (fun x hx => h x (by simp [hx])), wStep_key e w s (h s (by simp))]

theorem padOf_noenc (w : WState) (h : w.mode.enc = false) : padOf w = 0 := by
  unfold padOf cryptoPadding; simp [h]

theorem jSteps_noenc (w : WState) (ss : List Step) (h : NoEncSteps ss) (he : w.mode.enc = false) :
    jSteps e w 0 ss = 0 := by
  suffices ∀ j, j = 0 → jSteps e w j ss = 0 from this 0 rfl
  induction ss generalizing w with
  | nil => intro j hj; exact hj
  | cons s ss ih =>
    intro j _
    simp only [jSteps]
    have hk := wStep_key e w s (h s (by simp))
    have hk' := wModes_key w s.modes (h s (by simp))
    apply ih _ (fun x hx => h x (by simp [hx]))
    · have : (wStep e w s).key.1 = w.key.1 := by rw [hk]
      simpa [WState.key, he] using this
    · unfold jStep
      split
      · rw [padOf_noenc]
        have : (wModes w s.modes).key.1 = w.key.1 := by rw [hk']
        simp only [WState.key] at this
        simp [wWrite, this, he]
      · rfl

theorem padOf_wFlush (w : WState) (hi : EInv w) : padOf (wFlush w) = 0 := by
  have hb := block_eq
  unfold padOf cryptoPadding
  split
  · rename_i he
    have := wFlush_aligned w hi he
    rw [hb] at this ⊢
    omega
  · rfl

/-- either no padding follows the last packet yet, or the stream is already block aligned -/
theorem jSteps_or (w : WState) (j : Nat) (ss : List Step) (hok : StepsOK e w ss) (hi : EInv w)
    (h0 : j = 0 ∨ padOf w = 0) (hj : j ≤ 3) :
    (jSteps e w j ss = 0 ∨ padOf (wSteps e w ss) = 0) ∧ jSteps e w j ss ≤ 3 := by
  induction ss generalizing w j with
  | nil => exact ⟨h0, hj⟩
  | cons s ss ih =>
    obtain ⟨hm, hp, hrest⟩ := hok
    simp only [jSteps, wSteps]
    apply ih _ _ hrest (EInv_wStep e w s hm hi) _ (jStep_le e w s hm hi)
    unfold jStep wStep
    split
    · right; exact padOf_wFlush _ (EInv_wWrite e _ s.tip s.body (EInv_wModes w s.modes hm hi))
    · left; rfl

/-- only crypto padding is left: the loop ends with a clean EOF -/
theorem readLoop_end (sched : Nat → List ModeOp) (f n : Nat) (m : Mode) (a b : Nat) (hs : sched n = [])
    (hab : a = 0 ∨ b = 0) (ha : a ≤ 3) (hb : b ≤ 3) (hn : n = 0 → a = 0 ∧ b = 0) :
    readLoop (pureSrc e) e sched (f + 1) ⟨n, m⟩ (padWords a ++ padWords b) = ([], some .eof) := by
  simp only [readLoop, hs, applyModeOps]
  have : padWords a ++ padWords b = padWords (a + b) := by
    rcases hab with h | h <;> subst h <;> simp [padWords]
  rw [this, readPacket_end e ⟨n, m⟩ (a + b) (by omega) (by intro h0; have := hn h0; omega)]

/-- the final `Flush` of a history -/
theorem final_flush (w : WState) (ss : List Step) (hok : StepsOK e w ss) (hi : EInv w) :
    finalW e (flat ss) w = some (wFlush (wSteps e w ss)) ∧
    (wFlush (wSteps e w ss)).out = w.L ++ stepsBytes e w ss ++ padWords (padOf (wSteps e w ss) / 4) := by
  obtain ⟨h1, h2, h3⟩ := runW_steps e w ss hok hi
  constructor
  · unfold finalW; rw [h1]; exact flush_ok _ h3
  · have := wFlush_L _ h3
    rw [h2] at this
    rw [← this]
    simp [WState.L, wFlush]

/-! ### round trip at the level of the whole-stream reader -/

/-- a fresh connection end with injected counters and modes -/
def freshW (n0 : Nat) (m0 : Mode) : WState := { n := n0, mode := m0 }

theorem EInv_fresh (n0 : Nat) (m0 : Mode) (h : m0.enc = false) : EInv (freshW n0 m0) := by
  intro he; simp [freshW, h] at he

/-- **Unencrypted histories.** -/
theorem roundtrip_plain_pure (n0 : Nat) (m0 : Mode) (hm0 : m0.enc = false) (ss : List Step)
    (hok : StepsOK e (freshW n0 m0) ss) (hne : NoEncSteps ss) (f : Nat) :
    ∃ wf, finalW e (flat ss) (freshW n0 m0) = some wf ∧ wf.wire e = stepsBytes e (freshW n0 m0) ss ∧
      readLoop (pureSrc e) e (schedOfOps e (flat ss) (freshW n0 m0)) (ss.length + (f + 1)) ⟨n0, m0⟩ (wf.wire e) =
        (ss.map stepEv, some .eof) := by
  have hi := EInv_fresh n0 m0 hm0
  obtain ⟨hf1, hf2⟩ := final_flush e _ ss hok hi
  obtain ⟨hs1, hs2⟩ := sched_steps e _ ss hok hi
  have hkey := wSteps_key e (freshW n0 m0) ss hne
  have henc : (wSteps e (freshW n0 m0) ss).mode.enc = false := by
    have : (wSteps e (freshW n0 m0) ss).key.1 = (freshW n0 m0).key.1 := by rw [hkey]
    simpa [WState.key, freshW, hm0] using this
  have hciph : (wFlush (wSteps e (freshW n0 m0) ss)).cipher = none := by
    have : (wSteps e (freshW n0 m0) ss).key.2.1 = (freshW n0 m0).key.2.1 := by rw [hkey]
    simpa [WState.key, freshW, wFlush] using this
  have hwire : (wFlush (wSteps e (freshW n0 m0) ss)).wire e = stepsBytes e (freshW n0 m0) ss := by
    unfold WState.wire
    rw [hciph, hf2, padOf_noenc _ henc]
    simp [WState.L, freshW, padWords]
  refine ⟨_, hf1, hwire, ?_⟩
  rw [hwire]
  have h := read_steps e (schedOfOps e (flat ss) (freshW n0 m0)) ss (freshW n0 m0) 0 [] (f + 1) hi hok hne
    (by omega) (fun _ => rfl) hs1
  simp only [padWords, List.replicate_zero, List.flatten_nil, List.nil_append, List.append_nil] at h
  have hfr : (⟨(freshW n0 m0).n, (freshW n0 m0).mode⟩ : RState) = ⟨n0, m0⟩ := rfl
  rw [hfr] at h
  rw [h, jSteps_noenc e _ ss hne hm0]
  have hend := readLoop_end e (schedOfOps e (flat ss) (freshW n0 m0)) f (wSteps e (freshW n0 m0) ss).n
    (wSteps e (freshW n0 m0) ss).mode 0 0
    (hs2 _ (by right; rw [wSteps_n]; simp [freshW])) (Or.inl rfl) (by omega) (by omega) (fun _ => ⟨rfl, rfl⟩)
  simp only [padWords, List.replicate_zero, List.flatten_nil, List.append_nil] at hend
  simp only [List.flatten_nil, List.replicate_zero]
  rw [hend]
  simp

/-- the step that turns encryption on: its mode changes are `ms1 ++ [encrypt k iv] ++ ms2` -/
structure EncStep where
  ms1 : List ModeOp
  key : Bytes
  iv : Bytes
  ms2 : List ModeOp
  flush : Bool := true
  tip : Nat
  body : Bytes
  extra : Nat := 0

def EncStep.step (s : EncStep) : Step :=
  { modes := s.ms1 ++ (.encrypt s.key s.iv :: s.ms2), flush := s.flush, tip := s.tip, body := s.body, extra := s.extra }

theorem applyModeOps_enc (st : RState) (src : Bytes) (s : EncStep) (h1 : NoEnc s.ms1) (h2 : NoEnc s.ms2)
    (he : st.mode.enc = false) :
    applyModeOps (pureSrc e) st src s.step.modes =
      some ({ st with mode := s.step.modes.foldl mApply st.mode }, cbcDec e s.key s.iv src) := by
  unfold EncStep.step
  simp only
  rw [applyModeOps_append, applyModeOps_noenc _ _ _ _ h1]
  simp only [applyModeOps, applyModeOp]
  have : (List.foldl mApply st.mode s.ms1).enc = false := by
    have := wModes_key { mode := st.mode } s.ms1 h1
    have h3 : (wModes { mode := st.mode } s.ms1).key.1 = (({ mode := st.mode } : WState)).key.1 := by rw [this]
    simp only [WState.key, wModes_mode] at h3
    rw [h3, he]
  simp only [this, Bool.false_eq_true, if_false]
  rw [applyModeOps_noenc _ _ _ _ h2]
  simp [pureSrc, List.foldl_append, mApply]

/-- the plaintext that is CBC-encrypted: everything from the packet of `es` on, with the final padding -/
def encTail (w0 : WState) (pre : List Step) (es : EncStep) (post : List Step) : Bytes :=
  stepBytes e (wSteps e w0 pre) es.step ++ stepsBytes e (wStep e (wSteps e w0 pre) es.step) post ++
    padWords (padOf (wSteps e (wStep e (wSteps e w0 pre) es.step) post) / 4)

/-- **Histories with the encryption switch.** `pre` is written and read in the clear, then both ends switch to
AES-CBC just before the packet of `es`, then `post`. The wire is the clear prefix followed by the CBC encryption
of the rest; the whole-stream reader, which decrypts the remaining stream when it switches, gets all packets. -/
theorem roundtrip_enc_pure (he : e.CipherOK) (n0 : Nat) (m0 : Mode) (hm0 : m0.enc = false)
    (pre : List Step) (es : EncStep) (post : List Step)
    (hok : StepsOK e (freshW n0 m0) (pre ++ es.step :: post))
    (hpre : NoEncSteps pre) (h1 : NoEnc es.ms1) (h2 : NoEnc es.ms2) (hpost : NoEncSteps post) (f : Nat) :
    ∃ wf, finalW e (flat (pre ++ es.step :: post)) (freshW n0 m0) = some wf ∧
      (wf.wire e = stepsBytes e (freshW n0 m0) pre ++ cbcEnc e es.key es.iv (encTail e (freshW n0 m0) pre es post) ∧
        (encTail e (freshW n0 m0) pre es post).length % blockSize = 0) ∧
      readLoop (pureSrc e) e (schedOfOps e (flat (pre ++ es.step :: post)) (freshW n0 m0))
          (pre.length + ((post.length + (f + 1)) + 1)) ⟨n0, m0⟩ (wf.wire e) =
        ((pre ++ es.step :: post).map stepEv, some .eof) := by
  let w0 := freshW n0 m0
  let all := pre ++ es.step :: post
  have hi := EInv_fresh n0 m0 hm0
  obtain ⟨hf1, hf2⟩ := final_flush e w0 all hok hi
  obtain ⟨hs1, hs2⟩ := sched_steps e w0 all hok hi
  -- split the history
  have hok' := (StepsOK_append e w0 pre (es.step :: post)).1 hok
  obtain ⟨hokpre, hokrest⟩ := hok'
  obtain ⟨hmes, hpes, hokpost⟩ := hokrest
  let wp := wSteps e w0 pre
  let we := wStep e wp es.step
  let wS := wSteps e we post
  have hwS : wSteps e w0 all = wS := by
    show wSteps e w0 (pre ++ es.step :: post) = _
    rw [wSteps_append]; rfl
  obtain ⟨_, hLp, hip⟩ := runW_steps e w0 pre hokpre hi
  have hie := EInv_wStep e wp es.step hmes hip
  obtain ⟨_, hLS, hiS⟩ := runW_steps e we post hokpost hie
  -- state before the switch: clear, nothing pending
  have hkp := wSteps_key e w0 pre hpre
  have hencp : wp.mode.enc = false := by
    have : wp.key.1 = w0.key.1 := by rw [hkp]
    simpa [WState.key, w0, freshW, hm0] using this
  have hmo := (ModesOK_append wp es.ms1 (.encrypt es.key es.iv :: es.ms2)).1 hmes
  obtain ⟨_, hmenc, _⟩ := hmo
  obtain ⟨_, hpend, hivlen⟩ := hmenc
  rw [wModes_pending] at hpend
  -- keys after the switch
  have hkey_e : we.key = (true, some (es.key, es.iv), wp.out.length) := by
    have hk1 := wModes_key wp es.ms1 h1
    have hk2 := wModes_key (wEncrypt (wModes wp es.ms1) es.key es.iv) es.ms2 h2
    have : (wModes wp es.step.modes) = wModes (wEncrypt (wModes wp es.ms1) es.key es.iv) es.ms2 := by
      simp [EncStep.step, wModes, List.foldl_append, wMode]
    have hk : (wModes wp es.step.modes).key = (true, some (es.key, es.iv), wp.out.length) := by
      rw [this, hk2]
      simp [WState.key, wEncrypt, wModes_out]
    show (wStep e wp es.step).key = _
    unfold wStep
    split <;> simpa [WState.key, wFlush, wWrite] using hk
  have hkey_S : wS.key = (true, some (es.key, es.iv), wp.out.length) := by
    rw [← hkey_e]; exact wSteps_key e we post hpost
  have hencS : wS.mode.enc = true := by have := congrArg (·.1) hkey_S; simpa [WState.key] using this
  have hciphS : wS.cipher = some (es.key, es.iv) := by have := congrArg (·.2.1) hkey_S; simpa [WState.key] using this
  have hesS : wS.encStart = wp.out.length := by have := congrArg (·.2.2) hkey_S; simpa [WState.key] using this
  -- the plaintext after the switch
  let P := stepBytes e wp es.step ++ stepsBytes e we post ++ padWords (padOf wS / 4)
  have hout : (wFlush wS).out = wp.out ++ P := by
    have hLe := wStep_L e wp es.step hmes hip
    have := wFlush_L wS hiS
    simp only [WState.L, wFlush, List.append_nil] at this
    show (wFlush wS).out = _
    simp only [wFlush]
    rw [this]
    show wS.L ++ _ = _
    rw [hLS]
    show we.L ++ _ ++ _ = _
    rw [hLe]
    simp only [WState.L, hpend, List.append_nil, P, List.append_assoc]
  have hPlen : P.length % blockSize = 0 := by
    have := wFlush_aligned wS hiS hencS
    rw [hout] at this
    simp only [wFlush, List.length_append, List.length_nil, hesS] at this
    have hb := block_eq
    rw [hb] at this ⊢
    omega
  have hwire : (wFlush wS).wire e = stepsBytes e w0 pre ++ cbcEnc e es.key es.iv P := by
    unfold WState.wire
    have hc : (wFlush wS).cipher = some (es.key, es.iv) := hciphS
    have hes : (wFlush wS).encStart = wp.out.length := hesS
    rw [hc]
    simp only [hes, hout]
    rw [List.take_left' rfl, List.drop_left' rfl]
    have : wp.out = stepsBytes e w0 pre := by
      have h : wp.out ++ wp.pending = w0.out ++ w0.pending ++ stepsBytes e w0 pre := hLp
      rw [hpend] at h
      simpa [w0, freshW] using h
    rw [this]
  rw [hwS] at hf1
  refine ⟨_, hf1, ⟨hwire, hPlen⟩, ?_⟩
  rw [hwire]
  -- read the clear part
  have hpre_read := read_steps e (schedOfOps e (flat all) w0) pre w0 0 (cbcEnc e es.key es.iv P)
    ((post.length + (f + 1)) + 1) hi hokpre hpre (by omega) (fun _ => rfl)
    (by
      intro i h
      have := hs1 i (by simp [all]; omega)
      rw [this]
      simp [all, List.getElem_append_left h])
  simp only [padWords, List.replicate_zero, List.flatten_nil, List.nil_append] at hpre_read
  have hfr : (⟨w0.n, w0.mode⟩ : RState) = ⟨n0, m0⟩ := rfl
  rw [hfr] at hpre_read
  show readLoop (pureSrc e) e (schedOfOps e (flat all) w0) _ _ _ = _
  rw [hpre_read, jSteps_noenc e _ pre hpre hm0]
  simp only [List.replicate_zero, List.flatten_nil, List.nil_append]
  -- the switch and the first encrypted packet
  have hsched_e : schedOfOps e (flat all) w0 wp.n = es.step.modes := by
    have := hs1 pre.length (by simp [all])
    rw [show wp.n = w0.n + pre.length from wSteps_n e w0 pre, this]
    simp [all]
  have hdec : cbcDec e es.key es.iv (cbcEnc e es.key es.iv P) = P := cbcDec_cbcEnc e es.key he es.iv P hivlen hPlen
  have hmode_e : (wModes wp es.step.modes).mode = es.step.modes.foldl mApply wp.mode := wModes_mode wp es.step.modes
  have happ : applyModeOps (pureSrc e) ⟨wp.n, wp.mode⟩ (cbcEnc e es.key es.iv P) (schedOfOps e (flat all) w0 wp.n) =
      some (⟨wp.n, (wModes wp es.step.modes).mode⟩,
        padWords 0 ++ (frame e (wModes wp es.step.modes).mode wp.n es.tip es.body ++
          (padWords (jStep e wp es.step) ++ (stepsBytes e we post ++ padWords (padOf wS / 4))))) := by
    rw [hsched_e, applyModeOps_enc e _ _ es h1 h2 hencp, hdec, ← hmode_e]
    simp [P, stepBytes, padWords, List.append_assoc, EncStep.step]
  have hstep := readLoop_step e (schedOfOps e (flat all) w0) (post.length + (f + 1)) wp.n wp.mode
    (wModes wp es.step.modes).mode _ 0 es.tip es.body _ happ hpes (by omega) (fun _ => rfl)
  rw [hstep]
  -- the rest, encrypted
  have hwe_n : we.n = wp.n + 1 := wStep_n e wp es.step
  have hwe_m : we.mode = (wModes wp es.step.modes).mode := wStep_mode e wp es.step
  have hpost_read := read_steps e (schedOfOps e (flat all) w0) post we (jStep e wp es.step)
    (padWords (padOf wS / 4)) (f + 1) hie hokpost hpost (jStep_le e wp es.step hmes hip) (by rw [hwe_n]; omega)
    (by
      intro i h
      have := hs1 (pre.length + 1 + i) (by
        show _ < (pre ++ es.step :: post).length
        rw [List.length_append, List.length_cons]; omega)
      rw [hwe_n, show wp.n = w0.n + pre.length from wSteps_n e w0 pre]
      rw [show w0.n + pre.length + 1 + i = w0.n + (pre.length + 1 + i) by omega, this]
      congr 1
      have hlt : pre.length + 1 + i < (pre ++ es.step :: post).length := by
        rw [List.length_append, List.length_cons]; omega
      show (pre ++ es.step :: post)[pre.length + 1 + i]'hlt = post[i]
      rw [List.getElem_append_right (by omega)]
      simp [show pre.length + 1 + i - pre.length = i + 1 by omega])
  rw [hwe_n, hwe_m] at hpost_read
  rw [hpost_read]
  -- the end
  obtain ⟨hjor, hjle⟩ := jSteps_or e we (jStep e wp es.step) post hokpost hie
    (by
      show jStep e wp es.step = 0 ∨ padOf (wStep e wp es.step) = 0
      unfold jStep wStep
      split
      · right; exact padOf_wFlush _ (EInv_wWrite e _ es.tip es.body (EInv_wModes wp es.step.modes hmes hip))
      · left; rfl)
    (jStep_le e wp es.step hmes hip)
  have hpb := padOf_bound wS hiS
  have hend := readLoop_end e (schedOfOps e (flat all) w0) f wS.n wS.mode (jSteps e we (jStep e wp es.step) post)
    (padOf wS / 4)
    (hs2 _ (by
      right
      show w0.n + all.length ≤ wS.n
      rw [show wS.n = we.n + post.length from wSteps_n e we post, hwe_n,
        show wp.n = w0.n + pre.length from wSteps_n e w0 pre]
      simp [all]; omega))
    (by rcases hjor with h | h
        · left; exact h
        · right; show padOf wS / 4 = 0; rw [h])
    hjle (by omega)
    (by intro h0
        exfalso
        have : wS.n = we.n + post.length := wSteps_n e we post
        omega)
  rw [hend]
  simp [all, stepEv, EncStep.step]

end TLVerif.Packet
