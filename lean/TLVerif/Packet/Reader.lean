import TLVerif.Packet.Basic
/-!
Model of the reading half of `pkg/rpc/packetconn.go` (`readPacketHeaderUnlockedImpl`,
`ReadPacketHeaderUnlocked`, `ReadPacketBodyUnlocked`) written once, over an abstract byte source
(`SrcOps`: what `io.ReadFull(pc.r, …)`, `readFullOrMagic(pc.r, …)` and `pc.r.encrypt` do), and two sources:

* `pureSrc` — the source is the whole remaining (already decrypted) byte stream;
* `chunkSrc` — the model of `cryptoReader` over a connection that delivers the stream in arbitrary chunks
  (`net.Pipe` semantics: one `Read` returns at most one chunk), decrypting whole blocks as they arrive.

`ReaderLemmas.lean` proves that the second refines the first (for every chunking).
-/
namespace TLVerif.Packet
open TLVerif.Facts.Packet

/-- result of reading exactly `k` bytes -/
inductive RF (σ : Type) where
  | ok (bs : Bytes) (s : σ)
  | short (got : Nat)          -- the connection ended after `got < k` bytes
  | magic                      -- `readFullOrMagic` saw a memcached command (first packet only)

structure SrcOps (σ : Type) where
  readFull : Nat → σ → RF σ
  readFirst : σ → RF σ                 -- `readFullOrMagic(pc.r, headerReadBuf[:12], memcachedCommands)`
  encrypt : Bytes → Bytes → σ → σ      -- `cryptoReader.encrypt(cipher.NewCBCDecrypter(key, iv))`

inductive RErr where
  | eof      -- io.EOF (clean end on a packet boundary; also a memcached command)
  | ueof     -- io.ErrUnexpectedEOF
  | pad      -- excessive_padding
  | size     -- out_of_range_packet_size
  | size4    -- bad_packet_size
  | ntype    -- bad_nonce_packet_type
  | htype    -- bad_handshake_packet_type
  | seq      -- seqnum mismatch
  | bpad     -- bad_body_padding_contents
  | crc      -- crc_mismatch
  | other    -- pong errors
  | panic    -- `cryptoReader.encrypt` called twice ("changing encryption on the fly is not supported")
  deriving DecidableEq, Repr

def RErr.name : RErr → String
  | .eof => "eof" | .ueof => "ueof" | .pad => "pad" | .size => "size" | .size4 => "size4" | .ntype => "ntype"
  | .htype => "htype" | .seq => "seq" | .bpad => "bpad" | .crc => "crc" | .other => "other" | .panic => "panic"

structure RState where
  n : Nat := 0                  -- packets read; `readSeqNum = n + startSeqNum`
  mode : Mode := {}
  deriving DecidableEq, Repr

/-- what one `readPacketWithMagic` call delivers -/
inductive Ev where
  | packet (tip : Nat) (body : Bytes)
  | ping (id : Bytes)              -- builtin: a pong with this id is queued and written by `ReadPacket`
  deriving DecidableEq, Repr

/-- bytes of an ASCII string constant (the memcached commands are ASCII: `magics_ascii` in `FrameLemmas`) -/
def bytesOfAscii (s : String) : Bytes := s.toList.map (fun c => UInt8.ofNat c.toNat)

/-- `memcachedCommands` -/
def magics : List Bytes :=
  [bytesOfAscii memcachedStatsReqRN, bytesOfAscii memcachedStatsReqN, bytesOfAscii memcachedGetStatsReq,
   bytesOfAscii memcachedVersionReq]

/-- the checks of `readPacketHeaderUnlockedImpl` after the 12 header bytes are in, in source order -/
def checkHeader (st : RState) (len seq tip : Nat) : Option RErr :=
  if len < packetOverhead ∨ len > maxPacketLen then some .size
  else if st.mode.proto = 0 ∧ len % 4 ≠ 0 then some .size4
  else if (st.n : Int) + startSeqNum < 0 ∧ st.n = 0 ∧ tip ≠ packetTypeRPCNonce then some .ntype
  else if (st.n : Int) + startSeqNum < 0 ∧ (st.n : Int) + startSeqNum = startSeqNum + 1 ∧ tip ≠ packetTypeRPCHandshake then some .htype
  else if (st.n : Int) + startSeqNum < 0 ∧ len > maxNonceHandshakeLen then some .size
  else if seq ≠ seqWord st.n then some .seq
  else none

/-- parsed header: the 12 bytes (kept for the CRC), length, type -/
structure Hdr where
  bytes : Bytes
  len : Nat
  tip : Nat

def finishHeader (st : RState) (h12 : Bytes) : Except RErr Hdr :=
  let len := word h12
  let seq := word (h12.drop 4)
  let tip := word (h12.drop 8)
  match checkHeader st len seq tip with
  | some er => .error er
  | none => .ok ⟨h12, len, tip⟩

/-- the padding-skipping loop: `left` = `blockSize/4 - i` -/
def padLoop {σ : Type} (ops : SrcOps σ) (st : RState) : Nat → σ → Except RErr (Hdr × σ)
  | 0, _ => .error .pad
  | left + 1, s =>
    match ops.readFull 4 s with
    | .short got => .error (if got = 0 then .eof else .ueof)
    | .magic => .error .other
    | .ok w s1 =>
      if word w = padVal then padLoop ops st left s1
      else
        match ops.readFull 8 s1 with
        | .short _ => .error .ueof
        | .magic => .error .other
        | .ok r s2 =>
          match finishHeader st (w ++ r) with
          | .error er => .error er
          | .ok h => .ok (h, s2)

/-- `readPacketHeaderUnlockedImpl` -/
def readHeader {σ : Type} (ops : SrcOps σ) (st : RState) (s : σ) : Except RErr (Hdr × σ) :=
  if st.n = 0 then
    match ops.readFirst s with
    | .short got => .error (if got = 0 then .eof else .ueof)
    | .magic => .error .eof
    | .ok h12 s1 =>
      match finishHeader st h12 with
      | .error er => .error er
      | .ok h => .ok (h, s1)
  else padLoop ops st (blockSize / 4) s

/-- `ReadPacketBodyUnlocked` -/
def readBody {σ : Type} (ops : SrcOps σ) (e : Env) (st : RState) (h : Hdr) (s : σ) : Except RErr (Bytes × σ) :=
  let bodySize := h.len - packetOverhead
  let align := alignOf st.mode h.len
  match ops.readFull (bodySize + 4 + align) s with
  | .short _ => .error .ueof
  | .magic => .error .other
  | .ok b s1 =>
    let body := b.take bodySize
    if ((b.drop (bodySize + 4)).all (· == 0)) = false then .error .bpad
    else if word (b.drop bodySize) ≠ e.crc st.mode (h.bytes ++ body) then .error .crc
    else .ok (body, s1)

/-- one `readPacketWithMagic` call (no read timeout, so no ping is ever sent by the reader and every pong is
unexpected) -/
def readPacket {σ : Type} (ops : SrcOps σ) (e : Env) (st : RState) (s : σ) : Except RErr (Ev × RState × σ) :=
  match readHeader ops st s with
  | .error er => .error er
  | .ok (h, s1) =>
    let st1 := { st with n := st.n + 1 }
    if h.tip = rpcPingTag then
      if h.len ≠ packetOverhead + 8 then .error .size
      else match readBody ops e st h s1 with
        | .error er => .error er
        | .ok (body, s2) => .ok (.ping body, st1, s2)
    else if h.tip = rpcPongTag then
      if h.len ≠ packetOverhead + 8 then .error .other
      else match readBody ops e st h s1 with
        | .error er => .error er
        | .ok _ => .error .other
    else match readBody ops e st h s1 with
      | .error er => .error er
      | .ok (body, s2) => .ok (.packet h.tip body, st1, s2)

/-- what the handshake logic does to the connection between two reads -/
inductive ModeOp where
  | setProto (v : Nat)
  | setCrcC
  | encrypt (key iv : Bytes)
  deriving DecidableEq, Repr

def applyModeOp {σ : Type} (ops : SrcOps σ) (st : RState) (s : σ) : ModeOp → Option (RState × σ)
  | .setProto v => some ({ st with mode := { st.mode with proto := v } }, s)
  | .setCrcC => some ({ st with mode := { st.mode with crcC := true } }, s)
  | .encrypt k iv =>
    if st.mode.enc then none   -- Go panics
    else some ({ st with mode := { st.mode with enc := true } }, ops.encrypt k iv s)

def applyModeOps {σ : Type} (ops : SrcOps σ) (st : RState) (s : σ) : List ModeOp → Option (RState × σ)
  | [] => some (st, s)
  | o :: os =>
    match applyModeOp ops st s o with
    | none => none
    | some r => applyModeOps ops r.1 r.2 os

/-- The reading loop of a connection owner: apply the mode changes scheduled for the current packet count
(`sched k` = what the handshake logic does once `k` packets have been read), then `ReadPacket`; until the first
error (the end of the stream is the error `eof`). `none` as final error = `fuel` exhausted. -/
def readLoop {σ : Type} (ops : SrcOps σ) (e : Env) (sched : Nat → List ModeOp) : Nat → RState → σ → List Ev × Option RErr
  | 0, _, _ => ([], none)
  | fuel + 1, st, s =>
    match applyModeOps ops st s (sched st.n) with
    | none => ([], some .panic)
    | some r =>
      match readPacket ops e r.1 r.2 with
      | .error er => ([], some er)
      | .ok (ev, st1, s1) =>
        let rest := readLoop ops e sched fuel st1 s1
        (ev :: rest.1, rest.2)

/-! ### the pure source: the remaining decrypted stream -/

def pureSrc (e : Env) : SrcOps Bytes where
  readFull k t := if k ≤ t.length then .ok (t.take k) (t.drop k) else .short t.length
  readFirst t := if 12 ≤ t.length then .ok (t.take 12) (t.drop 12) else .short t.length
  encrypt k iv t := cbcDec e k iv t

/-! ### the chunked source: `cryptoReader` over a connection delivering chunks -/

structure CSrc where
  plain : Bytes := []                     -- decrypted, not yet consumed (`buf[begin:end]`)
  raw : Bytes := []                       -- received, not yet decrypted (`buf[end:]`, shorter than a block)
  cipher : Option (Bytes × Bytes) := none -- read key and current chaining value
  chunks : List Bytes := []               -- what the connection will still deliver, one chunk per `Read`

/-- decrypt the whole blocks of `raw` -/
def CSrc.crypt (e : Env) (s : CSrc) : CSrc :=
  match s.cipher with
  | none => { s with plain := s.plain ++ s.raw, raw := [] }
  | some (k, iv) =>
    let nb := s.raw.length / blockSize
    { s with plain := s.plain ++ cbcDecN e k nb iv s.raw,
             raw := s.raw.drop (nb * blockSize),
             cipher := some (k, nextIv nb iv s.raw) }

/-- one underlying `Read` delivering chunk `c` -/
def CSrc.feed (e : Env) (s : CSrc) (c : Bytes) : CSrc := CSrc.crypt e { s with raw := s.raw ++ c }

def chunkReadFull (e : Env) (k : Nat) (s : CSrc) : List Bytes → RF CSrc
  | [] => if k ≤ s.plain.length then .ok (s.plain.take k) { s with plain := s.plain.drop k, chunks := [] }
          else .short s.plain.length
  | c :: cs =>
    if k ≤ s.plain.length then .ok (s.plain.take k) { s with plain := s.plain.drop k, chunks := c :: cs }
    else chunkReadFull e k (CSrc.feed e s c) cs

/-- `readFullOrMagic`: after every `Read` the bytes obtained so far are compared with the memcached commands -/
def chunkReadFirst (e : Env) (s : CSrc) : List Bytes → RF CSrc
  | [] => if s.plain.take 12 ∈ magics ∧ s.plain ≠ [] then .magic
          else if 12 ≤ s.plain.length then .ok (s.plain.take 12) { s with plain := s.plain.drop 12, chunks := [] }
          else .short s.plain.length
  | c :: cs =>
    if s.plain.take 12 ∈ magics ∧ s.plain ≠ [] then .magic
    else if 12 ≤ s.plain.length then .ok (s.plain.take 12) { s with plain := s.plain.drop 12, chunks := c :: cs }
    else chunkReadFirst e (CSrc.feed e s c) cs

def chunkSrc (e : Env) : SrcOps CSrc where
  readFull k s := chunkReadFull e k s s.chunks
  readFirst s := chunkReadFirst e s s.chunks
  encrypt k iv s := CSrc.crypt e { s with raw := s.plain ++ s.raw, plain := [], cipher := some (k, iv) }

/-- the remaining decrypted stream a chunked source stands for -/
def CSrc.T (e : Env) (s : CSrc) : Bytes :=
  match s.cipher with
  | none => s.plain ++ s.raw ++ s.chunks.flatten
  | some (k, iv) => s.plain ++ cbcDec e k iv (s.raw ++ s.chunks.flatten)

end TLVerif.Packet
