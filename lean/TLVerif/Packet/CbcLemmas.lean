import TLVerif.Packet.BasicLemmas
/-! CBC chaining over the abstract block map: streaming (prefix) behaviour and the inverse law. -/
namespace TLVerif.Packet
open TLVerif.Facts.Packet

variable (e : Env) (k : Bytes)

theorem block_pos : 0 < blockSize := by decide

theorem cbcDecN_append_right (n : Nat) (iv c x : Bytes) (h : n * blockSize ≤ c.length) :
    cbcDecN e k n iv (c ++ x) = cbcDecN e k n iv c := by
  induction n generalizing iv c with
  | zero => rfl
  | succ n ih =>
    have hB : blockSize ≤ c.length := by
      have : (n + 1) * blockSize = n * blockSize + blockSize := Nat.succ_mul n blockSize
      omega
    simp only [cbcDecN]
    rw [List.take_append_of_le_length hB, List.drop_append_of_le_length hB]
    rw [ih]
    rw [List.length_drop]
    have : (n + 1) * blockSize = n * blockSize + blockSize := Nat.succ_mul n blockSize
    omega

theorem nextIv_append_right (n : Nat) (iv c x : Bytes) (h : n * blockSize ≤ c.length) :
    nextIv n iv (c ++ x) = nextIv n iv c := by
  induction n generalizing iv c with
  | zero => rfl
  | succ n ih =>
    have hs : (n + 1) * blockSize = n * blockSize + blockSize := Nat.succ_mul n blockSize
    have hB : blockSize ≤ c.length := by omega
    simp only [nextIv]
    rw [List.take_append_of_le_length hB, List.drop_append_of_le_length hB]
    rw [ih]
    rw [List.length_drop]
    omega

theorem cbcDecN_add (a b : Nat) (iv c : Bytes) :
    cbcDecN e k (a + b) iv c = cbcDecN e k a iv c ++ cbcDecN e k b (nextIv a iv c) (c.drop (a * blockSize)) := by
  induction a generalizing iv c with
  | zero => simp [cbcDecN, nextIv]
  | succ a ih =>
    have : a + 1 + b = (a + b) + 1 := by omega
    rw [this]
    simp only [cbcDecN, nextIv]
    rw [ih, List.append_assoc, List.drop_drop]
    have : blockSize + a * blockSize = (a + 1) * blockSize := by rw [Nat.succ_mul]; omega
    rw [this]

theorem cbcDecN_length (n : Nat) (iv c : Bytes) (hd : ∀ b, (e.dec k b).length = blockSize)
    (hiv : iv.length = blockSize) (hc : n * blockSize ≤ c.length) :
    (cbcDecN e k n iv c).length = n * blockSize := by
  induction n generalizing iv c with
  | zero => simp [cbcDecN]
  | succ n ih =>
    have hs : (n + 1) * blockSize = n * blockSize + blockSize := Nat.succ_mul n blockSize
    have hB : blockSize ≤ c.length := by omega
    simp only [cbcDecN, List.length_append, xorB, List.length_zipWith, hd, hiv, Nat.min_self]
    rw [ih]
    · omega
    · simp [List.length_take]; omega
    · rw [List.length_drop]; omega

/-- streaming: decrypting `raw ++ rest` = decrypting the whole blocks of `raw` now, and the remainder later
with the chaining value left by those blocks. -/
theorem cbcDec_stream (iv raw rest : Bytes) :
    cbcDec e k iv (raw ++ rest) =
      cbcDecN e k (raw.length / blockSize) iv raw ++
      cbcDec e k (nextIv (raw.length / blockSize) iv raw) (raw.drop (raw.length / blockSize * blockSize) ++ rest) := by
  have hB := block_pos
  have hle : raw.length / blockSize * blockSize ≤ raw.length := Nat.div_mul_le_self _ _
  unfold cbcDec
  have hm : (raw ++ rest).length / blockSize =
      raw.length / blockSize + (raw.drop (raw.length / blockSize * blockSize) ++ rest).length / blockSize := by
    simp only [List.length_append, List.length_drop]
    have h1 : raw.length + rest.length = (raw.length - raw.length / blockSize * blockSize + rest.length) + blockSize * (raw.length / blockSize) := by
      have hc : blockSize * (raw.length / blockSize) = raw.length / blockSize * blockSize := Nat.mul_comm _ _
      omega
    rw [h1, Nat.add_mul_div_left _ _ hB]; omega
  rw [hm, cbcDecN_add]
  rw [cbcDecN_append_right e k _ iv raw rest hle, nextIv_append_right _ iv raw rest hle]
  rw [List.drop_append_of_le_length hle]

theorem xorB_xorB (a b : Bytes) (h : a.length = b.length) : xorB (xorB a b) b = a := by
  induction a generalizing b with
  | nil => cases b <;> simp [xorB]
  | cons x xs ih =>
    cases b with
    | nil => simp at h
    | cons y ys =>
      simp only [xorB, List.zipWith_cons_cons, List.cons.injEq]
      constructor
      · rw [UInt8.xor_assoc]; simp
      · exact ih ys (by simpa using h)

theorem xorB_length (a b : Bytes) : (xorB a b).length = min a.length b.length := by
  simp [xorB]

/-- What the round-trip theorems need from the cipher: `dec` inverts `enc` on blocks; both keep the block size. -/
structure Env.CipherOK (e : Env) : Prop where
  dec_enc : ∀ k b, b.length = blockSize → e.dec k (e.enc k b) = b
  enc_len : ∀ k b, (e.enc k b).length = blockSize

theorem cbcEncN_length (he : e.CipherOK) (n : Nat) (iv p : Bytes) : (cbcEncN e k n iv p).length = n * blockSize := by
  induction n generalizing iv p with
  | zero => simp [cbcEncN]
  | succ n ih =>
    simp only [cbcEncN, List.length_append, he.enc_len, ih]
    rw [Nat.succ_mul]; omega

theorem cbcDecN_cbcEncN (he : e.CipherOK) (n : Nat) (iv p : Bytes) (hiv : iv.length = blockSize)
    (hp : n * blockSize ≤ p.length) :
    cbcDecN e k n iv (cbcEncN e k n iv p) = p.take (n * blockSize) := by
  induction n generalizing iv p with
  | zero => simp [cbcDecN]
  | succ n ih =>
    have hs : (n + 1) * blockSize = n * blockSize + blockSize := Nat.succ_mul n blockSize
    have hB : blockSize ≤ p.length := by omega
    simp only [cbcEncN, cbcDecN]
    have hl : (e.enc k (xorB (List.take blockSize p) iv)).length = blockSize := he.enc_len _ _
    rw [List.take_append_of_le_length (by omega), List.drop_append_of_le_length (by omega)]
    rw [List.take_of_length_le (by omega), List.drop_of_length_le (by omega), List.nil_append]
    rw [he.dec_enc]
    · rw [xorB_xorB]
      · rw [ih _ _ hl (by rw [List.length_drop]; omega)]
        rw [hs, Nat.add_comm (n * blockSize) blockSize, List.take_add]
      · simp [List.length_take]; omega
    · rw [xorB_length]; simp [List.length_take]; omega

/-- whole-block plaintext survives CBC encryption + decryption with the same key and IV -/
theorem cbcDec_cbcEnc (he : e.CipherOK) (iv p : Bytes) (hiv : iv.length = blockSize) (hp : p.length % blockSize = 0) :
    cbcDec e k iv (cbcEnc e k iv p) = p := by
  unfold cbcDec cbcEnc
  rw [cbcEncN_length e k he]
  rw [Nat.mul_div_cancel _ block_pos]
  rw [cbcDecN_cbcEncN e k he _ _ _ hiv (Nat.div_mul_le_self _ _)]
  apply List.take_of_length_le
  have := Nat.div_add_mod p.length blockSize
  rw [Nat.mul_comm] at this
  omega

end TLVerif.Packet
