import TLVerif.Packet.Reader
import TLVerif.Packet.CbcLemmas
/-!
Refinement: the reader over the chunked `cryptoReader` model computes exactly what the reader over the whole
(decrypted) remaining stream computes — for every chunking.  First a generic simulation lemma for the reader
functions over two related byte sources, then the instance `chunkSrc` ~ `pureSrc`.
-/
namespace TLVerif.Packet
open TLVerif.Facts.Packet

section generic
variable {σ₁ σ₂ : Type}

def RFRel (R : σ₁ → σ₂ → Prop) : RF σ₁ → RF σ₂ → Prop
  | .ok b s, .ok b' t => b = b' ∧ R s t
  | .short g, .short g' => g = g'
  | .magic, .magic => True
  | _, _ => False

def ExRel {α : Type} (R : σ₁ → σ₂ → Prop) : Except RErr (α × σ₁) → Except RErr (α × σ₂) → Prop
  | .error a, .error b => a = b
  | .ok (x, s), .ok (y, t) => x = y ∧ R s t
  | _, _ => False

def PkRel (R : σ₁ → σ₂ → Prop) : Except RErr (Ev × RState × σ₁) → Except RErr (Ev × RState × σ₂) → Prop
  | .error a, .error b => a = b
  | .ok (x, st, s), .ok (y, st', t) => x = y ∧ st = st' ∧ R s t
  | _, _ => False

/-- two sources are related by `R`; `Q` is the side condition under which `readFirst` agrees -/
structure Sim (o₁ : SrcOps σ₁) (o₂ : SrcOps σ₂) (R : σ₁ → σ₂ → Prop) (Q : σ₂ → Prop) : Prop where
  readFull : ∀ k s t, R s t → RFRel R (o₁.readFull k s) (o₂.readFull k t)
  readFirst : ∀ s t, R s t → Q t → RFRel R (o₁.readFirst s) (o₂.readFirst t)

variable {o₁ : SrcOps σ₁} {o₂ : SrcOps σ₂} {R : σ₁ → σ₂ → Prop} {Q : σ₂ → Prop}

theorem padLoop_sim (H : Sim o₁ o₂ R Q) (st : RState) (left : Nat) (s : σ₁) (t : σ₂) (hR : R s t) :
    ExRel R (padLoop o₁ st left s) (padLoop o₂ st left t) := by
  induction left generalizing s t with
  | zero => simp [padLoop, ExRel]
  | succ left ih =>
    have h := H.readFull 4 s t hR
    simp only [padLoop]
    cases h1 : o₁.readFull 4 s <;> cases h2 : o₂.readFull 4 t <;> rw [h1, h2] at h <;> simp only [RFRel] at h
    · obtain ⟨hb, hR1⟩ := h
      subst hb
      simp only
      split
      · exact ih _ _ hR1
      · rename_i bs s1 t1 _
        have h' := H.readFull 8 s1 t1 hR1
        cases h3 : o₁.readFull 8 s1 <;> cases h4 : o₂.readFull 8 t1 <;> rw [h3, h4] at h' <;> simp only [RFRel] at h'
        · obtain ⟨hb, hR2⟩ := h'
          subst hb
          simp only
          cases finishHeader st (bs ++ _) <;> simp [ExRel, hR2]
        · simp [ExRel]
        · simp [ExRel]
    · subst h; simp [ExRel]
    · simp [ExRel]

theorem readHeader_sim (H : Sim o₁ o₂ R Q) (st : RState) (s : σ₁) (t : σ₂) (hR : R s t) (hQ : st.n = 0 → Q t) :
    ExRel R (readHeader o₁ st s) (readHeader o₂ st t) := by
  unfold readHeader
  split
  · rename_i h0
    have h := H.readFirst s t hR (hQ h0)
    cases h1 : o₁.readFirst s <;> cases h2 : o₂.readFirst t <;> rw [h1, h2] at h <;> simp only [RFRel] at h
    · obtain ⟨hb, hR1⟩ := h
      subst hb
      simp only
      cases finishHeader st _ <;> simp [ExRel, hR1]
    · subst h; simp [ExRel]
    · simp [ExRel]
  · exact padLoop_sim H st _ s t hR

theorem readBody_sim (H : Sim o₁ o₂ R Q) (e : Env) (st : RState) (h : Hdr) (s : σ₁) (t : σ₂) (hR : R s t) :
    ExRel R (readBody o₁ e st h s) (readBody o₂ e st h t) := by
  unfold readBody
  have hh := H.readFull (h.len - packetOverhead + 4 + alignOf st.mode h.len) s t hR
  simp only
  cases h1 : o₁.readFull (h.len - packetOverhead + 4 + alignOf st.mode h.len) s <;>
    cases h2 : o₂.readFull (h.len - packetOverhead + 4 + alignOf st.mode h.len) t <;>
    rw [h1, h2] at hh <;> simp only [RFRel] at hh
  · obtain ⟨hb, hR1⟩ := hh
    subst hb
    simp only
    split
    · simp [ExRel]
    · split
      · simp [ExRel]
      · simp [ExRel, hR1]
  · simp [ExRel]
  · simp [ExRel]

theorem readPacket_sim (H : Sim o₁ o₂ R Q) (e : Env) (st : RState) (s : σ₁) (t : σ₂) (hR : R s t) (hQ : st.n = 0 → Q t) :
    PkRel R (readPacket o₁ e st s) (readPacket o₂ e st t) := by
  unfold readPacket
  have hh := readHeader_sim H st s t hR hQ
  rcases h1 : readHeader o₁ st s with a | ⟨x, s1⟩ <;> rcases h2 : readHeader o₂ st t with b | ⟨y, t1⟩ <;>
    rw [h1, h2] at hh <;> simp only [ExRel] at hh
  · subst hh; simp [PkRel]
  · obtain ⟨hxy, hR1⟩ := hh
    subst hxy
    have hb := readBody_sim H e st x s1 t1 hR1
    simp only
    rcases h3 : readBody o₁ e st x s1 with a | ⟨b1, s2⟩ <;> rcases h4 : readBody o₂ e st x t1 with b | ⟨b2, t2⟩ <;>
      rw [h3, h4] at hb <;> simp only [ExRel] at hb
    · subst hb
      split
      · split <;> simp [PkRel]
      · split
        · split <;> simp [PkRel]
        · simp [PkRel]
    · obtain ⟨hbb, hR2⟩ := hb
      subst hbb
      split
      · split <;> simp [PkRel, hR2]
      · split
        · split <;> simp [PkRel]
        · simp [PkRel, hR2]

end generic

/-! ### `chunkSrc` refines `pureSrc` -/

variable (e : Env)

/-- buffer invariant of the `cryptoReader` model -/
def CSrc.inv (s : CSrc) : Prop :=
  match s.cipher with
  | none => s.raw = []
  | some _ => s.raw.length < blockSize

/-- `T` with the not-yet-delivered chunks given explicitly -/
def CSrc.T' (s : CSrc) (cs : List Bytes) : Bytes := CSrc.T e { s with chunks := cs }

theorem CSrc.T'_self (s : CSrc) : CSrc.T' e s s.chunks = CSrc.T e s := rfl

theorem crypt_T (s : CSrc) : CSrc.T e (CSrc.crypt e s) = CSrc.T e s := by
  unfold CSrc.crypt CSrc.T
  cases hc : s.cipher with
  | none => simp
  | some p =>
    obtain ⟨k, iv⟩ := p
    simp only [List.append_assoc]
    rw [cbcDec_stream e k iv s.raw s.chunks.flatten]

theorem crypt_inv (s : CSrc) : CSrc.inv (CSrc.crypt e s) := by
  unfold CSrc.crypt CSrc.inv
  cases hc : s.cipher with
  | none => simp
  | some p =>
    obtain ⟨k, iv⟩ := p
    simp only [List.length_drop]
    have := Nat.mod_lt s.raw.length block_pos
    have h2 := Nat.div_add_mod s.raw.length blockSize
    rw [Nat.mul_comm] at h2
    omega

theorem crypt_cipher_none (s : CSrc) (h : s.cipher = none) : (CSrc.crypt e s).cipher = none := by
  unfold CSrc.crypt; rw [h]

theorem feed_T (s : CSrc) (c : Bytes) (cs : List Bytes) :
    CSrc.T' e (CSrc.feed e s c) cs = CSrc.T' e s (c :: cs) := by
  unfold CSrc.T' CSrc.feed
  have h := crypt_T e { s with raw := s.raw ++ c, chunks := cs }
  have h2 : CSrc.T e { CSrc.crypt e { s with raw := s.raw ++ c } with chunks := cs } =
      CSrc.T e (CSrc.crypt e { s with raw := s.raw ++ c, chunks := cs }) := by
    unfold CSrc.crypt CSrc.T
    cases s.cipher with
    | none => rfl
    | some p => rfl
  rw [h2, h]
  unfold CSrc.T
  cases s.cipher with
  | none => simp
  | some p => simp

theorem feed_inv (s : CSrc) (c : Bytes) : CSrc.inv (CSrc.feed e s c) := crypt_inv e _

/-- with no chunk left the remaining stream is exactly the decrypted buffer -/
theorem T'_nil (s : CSrc) (hi : s.inv) : CSrc.T' e s [] = s.plain := by
  unfold CSrc.T' CSrc.T
  unfold CSrc.inv at hi
  cases hc : s.cipher with
  | none => rw [hc] at hi; simp [hi]
  | some p =>
    obtain ⟨k, iv⟩ := p
    rw [hc] at hi
    simp only [List.flatten_nil, List.append_nil]
    unfold cbcDec
    rw [Nat.div_eq_of_lt hi]
    simp [cbcDecN]

theorem plain_prefix (s : CSrc) (cs : List Bytes) : ∃ x, CSrc.T' e s cs = s.plain ++ x := by
  unfold CSrc.T' CSrc.T
  cases s.cipher with
  | none => exact ⟨s.raw ++ cs.flatten, by simp⟩
  | some p => exact ⟨_, rfl⟩

/-- relation between a chunked source and the stream it stands for -/
def CRel (s : CSrc) (t : Bytes) : Prop := s.inv ∧ CSrc.T e s = t

theorem T_set_plain (s : CSrc) (cs : List Bytes) (p x : Bytes) (h : CSrc.T' e s cs = s.plain ++ x) :
    CSrc.T e { s with plain := p, chunks := cs } = p ++ x := by
  unfold CSrc.T' CSrc.T at h
  unfold CSrc.T
  cases hc : s.cipher with
  | none => rw [hc] at h; simp only at h ⊢; rw [List.append_assoc] at h ⊢; rw [List.append_cancel_left h]
  | some q => rw [hc] at h; simp only at h ⊢; rw [List.append_cancel_left h]

theorem chunkReadFull_sim (k : Nat) (cs : List Bytes) (s : CSrc) (hi : s.inv) :
    RFRel (CRel e) (chunkReadFull e k s cs) ((pureSrc e).readFull k (CSrc.T' e s cs)) := by
  induction cs generalizing s with
  | nil =>
    rw [T'_nil e s hi]
    simp only [chunkReadFull, pureSrc]
    split
    · refine ⟨rfl, ?_, ?_⟩
      · exact hi
      · have := T_set_plain e s [] (s.plain.drop k) [] (by rw [T'_nil e s hi]; simp)
        simpa using this
    · rfl
  | cons c cs ih =>
    obtain ⟨x, hx⟩ := plain_prefix e s (c :: cs)
    simp only [chunkReadFull]
    split
    · rename_i hk
      simp only [pureSrc]
      rw [if_pos (by rw [hx, List.length_append]; omega)]
      refine ⟨?_, ?_, ?_⟩
      · rw [hx, List.take_append_of_le_length hk]
      · exact hi
      · rw [T_set_plain e s (c :: cs) (s.plain.drop k) x hx, hx, List.drop_append_of_le_length hk]
    · rw [← feed_T]
      exact ih _ (feed_inv e s c)

/-- no memcached command is a prefix of the stream -/
def NoMagic (t : Bytes) : Prop := ∀ m ∈ magics, ¬ m <+: t

theorem not_magic_of_prefix (t p : Bytes) (hn : NoMagic t) (hp : p <+: t) : ¬ (p.take 12 ∈ magics ∧ p ≠ []) := by
  intro ⟨hm, _⟩
  apply hn _ hm
  exact List.IsPrefix.trans (List.take_prefix 12 p) hp

theorem chunkReadFirst_sim (cs : List Bytes) (s : CSrc) (hi : s.inv) (hn : NoMagic (CSrc.T' e s cs)) :
    RFRel (CRel e) (chunkReadFirst e s cs) ((pureSrc e).readFirst (CSrc.T' e s cs)) := by
  induction cs generalizing s with
  | nil =>
    have hnm := not_magic_of_prefix _ s.plain hn (by rw [T'_nil e s hi]; exact List.prefix_refl _)
    rw [T'_nil e s hi]
    simp only [chunkReadFirst, pureSrc]
    rw [if_neg hnm]
    split
    · refine ⟨rfl, hi, ?_⟩
      have := T_set_plain e s [] (s.plain.drop 12) [] (by rw [T'_nil e s hi]; simp)
      simpa using this
    · rfl
  | cons c cs ih =>
    obtain ⟨x, hx⟩ := plain_prefix e s (c :: cs)
    have hnm := not_magic_of_prefix _ s.plain hn (by rw [hx]; exact List.prefix_append _ _)
    simp only [chunkReadFirst]
    rw [if_neg hnm]
    split
    · rename_i hk
      simp only [pureSrc]
      rw [if_pos (by rw [hx, List.length_append]; omega)]
      refine ⟨?_, hi, ?_⟩
      · rw [hx, List.take_append_of_le_length hk]
      · rw [T_set_plain e s (c :: cs) (s.plain.drop 12) x hx, hx, List.drop_append_of_le_length hk]
    · rw [← feed_T] at hn ⊢
      exact ih _ (feed_inv e s c) hn

theorem chunk_sim : Sim (chunkSrc e) (pureSrc e) (CRel e) NoMagic where
  readFull k s t hR := by
    obtain ⟨hi, hT⟩ := hR
    subst hT
    exact chunkReadFull_sim e k s.chunks s hi
  readFirst s t hR hQ := by
    obtain ⟨hi, hT⟩ := hR
    subst hT
    exact chunkReadFirst_sim e s.chunks s hi hQ

/-- `cryptoReader.encrypt` on a not yet encrypted reader = decrypting the remaining stream -/
theorem encrypt_sim (k iv : Bytes) (s : CSrc) (t : Bytes) (hR : CRel e s t) (hc : s.cipher = none) :
    CRel e ((chunkSrc e).encrypt k iv s) ((pureSrc e).encrypt k iv t) := by
  obtain ⟨hi, hT⟩ := hR
  subst hT
  simp only [chunkSrc, pureSrc]
  refine ⟨crypt_inv e _, ?_⟩
  rw [crypt_T]
  unfold CSrc.inv at hi
  rw [hc] at hi
  unfold CSrc.T
  simp [hc, hi]

/-- the coupling between reader state and chunked source kept by `readAll` -/
def CRel' (st : RState) (s : CSrc) (t : Bytes) : Prop := CRel e s t ∧ (st.mode.enc = false → s.cipher = none)

theorem chunk_cipher_readFull (k : Nat) (cs : List Bytes) (s : CSrc) :
    ∀ b s', chunkReadFull e k s cs = .ok b s' → (s.cipher = none → s'.cipher = none) := by
  induction cs generalizing s with
  | nil =>
    intro b s' h hc
    simp only [chunkReadFull] at h
    split at h
    · cases h; exact hc
    · cases h
  | cons c cs ih =>
    intro b s' h hc
    simp only [chunkReadFull] at h
    split at h
    · cases h; exact hc
    · exact ih _ b s' h (crypt_cipher_none e _ hc)

theorem chunk_cipher_readFirst (cs : List Bytes) (s : CSrc) :
    ∀ b s', chunkReadFirst e s cs = .ok b s' → (s.cipher = none → s'.cipher = none) := by
  induction cs generalizing s with
  | nil =>
    intro b s' h hc
    simp only [chunkReadFirst] at h
    split at h
    · cases h
    · split at h
      · cases h; exact hc
      · cases h
  | cons c cs ih =>
    intro b s' h hc
    simp only [chunkReadFirst] at h
    split at h
    · cases h
    · split at h
      · cases h; exact hc
      · exact ih _ b s' h (crypt_cipher_none e _ hc)

end TLVerif.Packet

namespace TLVerif.Packet
open TLVerif.Facts.Packet
variable (e : Env)

/-- `CRel` plus: while the connection is not encrypted (`b = false`) the source has no cipher -/
def CRelB (b : Bool) (s : CSrc) (t : Bytes) : Prop := CRel e s t ∧ (b = false → s.cipher = none)

theorem chunk_sim_b (b : Bool) : Sim (chunkSrc e) (pureSrc e) (CRelB e b) NoMagic where
  readFull k s t hR := by
    have h := (chunk_sim e).readFull k s t hR.1
    have hc := chunk_cipher_readFull e k s.chunks s
    simp only [chunkSrc] at h hc ⊢
    cases h1 : chunkReadFull e k s s.chunks <;> cases h2 : (pureSrc e).readFull k t <;>
      rw [h1, h2] at h <;> simp only [RFRel] at h ⊢
    · exact ⟨h.1, h.2, fun hb => hc _ _ h1 (hR.2 hb)⟩
    · exact h
  readFirst s t hR hQ := by
    have h := (chunk_sim e).readFirst s t hR.1 hQ
    have hc := chunk_cipher_readFirst e s.chunks s
    simp only [chunkSrc] at h hc ⊢
    cases h1 : chunkReadFirst e s s.chunks <;> cases h2 : (pureSrc e).readFirst t <;>
      rw [h1, h2] at h <;> simp only [RFRel] at h ⊢
    · exact ⟨h.1, h.2, fun hb => hc _ _ h1 (hR.2 hb)⟩
    · exact h

def ModeRel : Option (RState × CSrc) → Option (RState × Bytes) → Prop
  | none, none => True
  | some (st1, s1), some (st2, t1) => st1 = st2 ∧ CRelB e st1.mode.enc s1 t1
  | _, _ => False

theorem applyModeOp_sim (o : ModeOp) (st : RState) (s : CSrc) (t : Bytes) (hR : CRelB e st.mode.enc s t) :
    ModeRel e (applyModeOp (chunkSrc e) st s o) (applyModeOp (pureSrc e) st t o) := by
  cases o with
  | setProto v => exact ⟨rfl, hR⟩
  | setCrcC => exact ⟨rfl, hR⟩
  | encrypt k iv =>
    simp only [applyModeOp]
    cases hb : st.mode.enc with
    | true => simp [ModeRel]
    | false =>
      simp only [Bool.false_eq_true, if_false, ModeRel, true_and]
      exact ⟨encrypt_sim e k iv s t hR.1 (hR.2 hb), fun h => by simp at h⟩

theorem applyModeOps_sim (l : List ModeOp) (st : RState) (s : CSrc) (t : Bytes) (hR : CRelB e st.mode.enc s t) :
    ModeRel e (applyModeOps (chunkSrc e) st s l) (applyModeOps (pureSrc e) st t l) := by
  induction l generalizing st s t with
  | nil => exact ⟨rfl, hR⟩
  | cons o os ih =>
    have h := applyModeOp_sim e o st s t hR
    simp only [applyModeOps]
    rcases h1 : applyModeOp (chunkSrc e) st s o with _ | ⟨st1, s1⟩ <;>
      rcases h2 : applyModeOp (pureSrc e) st t o with _ | ⟨st2, t1⟩ <;>
      rw [h1, h2] at h <;> simp only [ModeRel] at h
    · trivial
    · obtain ⟨hst, hR1⟩ := h
      subst hst
      exact ih st1 s1 t1 hR1

/-- mode changes do not touch the packet counter -/
theorem applyModeOps_n {σ : Type} (ops : SrcOps σ) (l : List ModeOp) (a : RState) (x : σ) (b : RState) (y : σ)
    (h : applyModeOps ops a x l = some (b, y)) : b.n = a.n := by
  induction l generalizing a x with
  | nil => simp [applyModeOps] at h; rw [h.1]
  | cons o os ihl =>
    simp only [applyModeOps] at h
    cases o with
    | setProto v => simp only [applyModeOp] at h; (have := ihl _ _ h; simpa using this)
    | setCrcC => simp only [applyModeOp] at h; (have := ihl _ _ h; simpa using this)
    | encrypt k iv =>
      simp only [applyModeOp] at h
      split at h
      · cases h
      · rename_i r hr
        split at hr
        · cases hr
        · cases hr; (have := ihl _ _ h; simpa using this)

theorem readPacket_state {σ : Type} (ops : SrcOps σ) (st st1 : RState) (s s1 : σ) (ev : Ev)
    (h1 : readPacket ops e st s = .ok (ev, st1, s1)) : st1 = { st with n := st.n + 1 } := by
  unfold readPacket at h1
  split at h1
  · cases h1
  · split at h1
    · split at h1
      · cases h1
      · split at h1 <;> cases h1; rfl
    · split at h1
      · split at h1
        · cases h1
        · split at h1 <;> cases h1
      · split at h1 <;> cases h1; rfl

/-- **Refinement.** Reading from the chunked, decrypting-as-it-arrives source gives exactly what reading from
the whole remaining stream gives. -/
theorem readLoop_chunk_eq_pure (sched : Nat → List ModeOp) (fuel : Nat) (st : RState) (s : CSrc) (t : Bytes)
    (hR : CRelB e st.mode.enc s t)
    (hQ : st.n = 0 → ∀ r, applyModeOps (pureSrc e) st t (sched st.n) = some r → NoMagic r.2) :
    readLoop (chunkSrc e) e sched fuel st s = readLoop (pureSrc e) e sched fuel st t := by
  induction fuel generalizing st s t with
  | zero => rfl
  | succ fuel ih =>
    simp only [readLoop]
    have hm := applyModeOps_sim e (sched st.n) st s t hR
    rcases h3 : applyModeOps (chunkSrc e) st s (sched st.n) with _ | ⟨st3, s3⟩ <;>
      rcases h4 : applyModeOps (pureSrc e) st t (sched st.n) with _ | ⟨st4, t3⟩ <;>
      rw [h3, h4] at hm <;> simp only [ModeRel] at hm
    · obtain ⟨hst, hR3⟩ := hm
      subst hst
      simp only
      have hn3 := applyModeOps_n (chunkSrc e) _ _ _ _ _ h3
      have hq : st3.n = 0 → NoMagic t3 := fun h0 => hQ (by omega) _ h4
      have h := readPacket_sim (chunk_sim_b e st3.mode.enc) e st3 s3 t3 hR3 hq
      rcases h1 : readPacket (chunkSrc e) e st3 s3 with a | ⟨ev, st1, s1⟩ <;>
        rcases h2 : readPacket (pureSrc e) e st3 t3 with b | ⟨ev', st2, t1⟩ <;>
        rw [h1, h2] at h <;> simp only [PkRel] at h
      · subst h; rfl
      · obtain ⟨hev, hst, hR1⟩ := h
        subst hev hst
        have hs1 := readPacket_state e _ _ _ _ _ _ h1
        simp only
        rw [ih st1 s1 t1 (by rw [hs1]; exact hR1) (by rw [hs1]; simp)]

end TLVerif.Packet
