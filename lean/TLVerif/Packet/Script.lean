import TLVerif.Packet.Reader
/-!
Writer-side connection histories ("scripts"): the operations the owner of a `PacketConn` performs on its
writing half, interleaved with the mode changes the handshake logic applies to *both* halves.
The reading end applies a mode change when it has read as many packets as the writer had written when it
made the change (`schedOfOps`).
-/
namespace TLVerif.Packet
open TLVerif.Facts.Packet

inductive Op where
  | write (flush : Bool) (tip : Nat) (body : Bytes)   -- WritePacket / WritePacket2 (flush) or WritePacketNoFlush
  | flush                                             -- Flush
  | mode (m : ModeOp)
  | raw (b : Bytes)                                   -- test hook: Flush, then `b` straight into the cryptoWriter
  deriving Repr

/-- writer half of a mode change; `none` = Go panics (`cryptoWriter.encrypt` twice) -/
def wApplyMode (w : WState) : ModeOp → Option WState
  | .setProto v => some { w with mode := { w.mode with proto := v } }
  | .setCrcC => some { w with mode := { w.mode with crcC := true } }
  | .encrypt k iv => if w.mode.enc then none else some (wEncrypt w k iv)

inductive WRes where
  | ok (w : WState)
  | werr (er : WErr)      -- the call returned an error, nothing was written
  | dead                  -- outside the model (flush beyond the padding constant, double encryption)

def stepW (e : Env) (w : WState) : Op → WRes
  | .write fl tip body =>
    match writeNoFlush e w tip body with
    | .error er => .werr er
    | .ok w1 =>
      if fl then match flush w1 with
        | none => .dead
        | some w2 => .ok w2
      else .ok w1
  | .flush => match flush w with
    | none => .dead
    | some w2 => .ok w2
  | .mode m => match wApplyMode w m with
    | none => .dead
    | some w2 => .ok w2
  | .raw b => match flush w with
    | none => .dead
    | some w2 => .ok { w2 with out := w2.out ++ b }

/-- run a script; a failed write leaves the connection usable; `none` = outside the model -/
def runW (e : Env) : List Op → WState → Option WState
  | [], w => some w
  | op :: ops, w =>
    match stepW e w op with
    | .ok w1 => runW e ops w1
    | .werr _ => runW e ops w
    | .dead => none

/-- run a script and flush -/
def finalW (e : Env) (ops : List Op) (w : WState) : Option WState :=
  match runW e ops w with
  | none => none
  | some w1 => flush w1

/-- the mode changes made while exactly `k` packets had been written -/
def schedOfOps (e : Env) : List Op → WState → Nat → List ModeOp
  | [], _, _ => []
  | op :: ops, w, k =>
    let here := match op with
      | .mode m => if w.n = k then [m] else []
      | _ => []
    match stepW e w op with
    | .ok w1 => here ++ schedOfOps e ops w1 k
    | .werr _ => here ++ schedOfOps e ops w k
    | .dead => here

end TLVerif.Packet
