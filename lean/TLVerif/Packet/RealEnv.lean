import TLVerif.Packet.Crc
import TLVerif.Packet.Aes
/-! The executable environment of the model driver: bitwise CRC-32 with both polynomials, AES-256. -/
namespace TLVerif.Packet

def realEnv : Env where
  crcI := crc32 polyIEEE
  crcC := crc32 polyCastagnoli
  enc k b := Aes.encBlock (Aes.expand k) b
  dec k b := Aes.decBlock (Aes.expand k) b

end TLVerif.Packet
