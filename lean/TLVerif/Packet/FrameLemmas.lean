import TLVerif.Packet.ReaderLemmas
/-! The reader over the whole stream, applied to what the writer produces: one frame, padding, end of stream. -/
namespace TLVerif.Packet
open TLVerif.Facts.Packet

variable (e : Env)

/-- `j` crypto padding words (`04 00 00 00`) -/
def padWords (j : Nat) : Bytes := (List.replicate j (le32 padVal)).flatten

/-- a packet the reading side accepts and delivers in state `st` -/
def PktOK (st : RState) (tip : Nat) (body : Bytes) : Prop :=
  body.length ≤ maxPacketLen - packetOverhead ∧ tip < 4294967296 ∧
  (st.mode.proto = 0 → body.length % 4 = 0) ∧
  (st.n = 0 → tip = packetTypeRPCNonce) ∧ (st.n = 1 → tip = packetTypeRPCHandshake) ∧
  (st.n < 2 → body.length + packetOverhead ≤ maxNonceHandshakeLen) ∧
  tip ≠ rpcPongTag ∧ (tip = rpcPingTag → body.length = 8)

instance (st : RState) (tip : Nat) (body : Bytes) : Decidable (PktOK st tip body) := by
  unfold PktOK; infer_instance

/-- what `readPacketWithMagic` reports for an accepted packet -/
def evOf (tip : Nat) (body : Bytes) : Ev := if tip = rpcPingTag then .ping body else .packet tip body

theorem pure_readFull_append (a rest : Bytes) (k : Nat) (hk : a.length = k) :
    (pureSrc e).readFull k (a ++ rest) = .ok a rest := by
  subst hk
  simp [pureSrc]

theorem pure_readFirst_append (a rest : Bytes) (hk : a.length = 12) :
    (pureSrc e).readFirst (a ++ rest) = .ok a rest := by
  simp only [pureSrc, List.length_append, hk]
  rw [if_pos (by omega)]
  rw [← hk]
  simp

theorem seqWord_lt (n : Nat) : seqWord n < 4294967296 := by
  unfold seqWord
  have := startSeq_eq
  omega

@[simp] theorem header_length (n tip blen : Nat) : (header n tip blen).length = 12 := rfl

theorem crc_lt (m : Mode) (d : Bytes) : e.crc m d < 4294967296 := by
  unfold Env.crc
  split <;> exact UInt32.toNat_lt _

theorem checkHeader_ok (st : RState) (tip : Nat) (body : Bytes) (h : PktOK st tip body) :
    checkHeader st (body.length + packetOverhead) (seqWord st.n) tip = none := by
  obtain ⟨h1, _, h3, h4, h5, h6, _, _⟩ := h
  have ho := overhead_eq; have hm := maxLen_eq; have hs := startSeq_eq; have hh := maxHs_eq
  unfold checkHeader
  rw [if_neg (by omega), if_neg (by intro ⟨a, b⟩; have := h3 a; omega),
      if_neg (by intro ⟨_, b, c⟩; exact c (h4 b)),
      if_neg (by intro ⟨_, b, c⟩; exact c (h5 (by omega))),
      if_neg (by intro ⟨a, b⟩; have := h6 (by omega); omega),
      if_neg (by simp)]

theorem finishHeader_header (st : RState) (tip : Nat) (body : Bytes) (h : PktOK st tip body) :
    finishHeader st (header st.n tip body.length) = .ok ⟨header st.n tip body.length, body.length + packetOverhead, tip⟩ := by
  have ho := overhead_eq; have hm := maxLen_eq
  have hw1 : word (header st.n tip body.length) = body.length + packetOverhead := by
    unfold header
    rw [List.append_assoc, word_le32]
    have := h.1
    omega
  have hw2 : word ((header st.n tip body.length).drop 4) = seqWord st.n := by
    have : (header st.n tip body.length).drop 4 = le32 (seqWord st.n) ++ le32 tip := by
      simp [header, le32]
    rw [this, word_le32]
    have := seqWord_lt st.n
    omega
  have hw3 : word ((header st.n tip body.length).drop 8) = tip := by
    have : (header st.n tip body.length).drop 8 = le32 tip ++ [] := by
      simp [header, le32]
    rw [this, word_le32]
    have := h.2.1
    omega
  unfold finishHeader
  simp only [hw1, hw2, hw3]
  rw [checkHeader_ok st tip body h]

theorem padWords_succ (j : Nat) : padWords (j + 1) = le32 padVal ++ padWords j := by
  simp [padWords, List.replicate_succ]

theorem padLoop_pads (st : RState) (left j : Nat) (x : Bytes) :
    padLoop (pureSrc e) st (left + j) (padWords j ++ x) = padLoop (pureSrc e) st left x := by
  induction j with
  | zero => simp [padWords]
  | succ j ih =>
    rw [← Nat.add_assoc, padWords_succ, List.append_assoc]
    simp only [padLoop]
    rw [pure_readFull_append e (le32 padVal) _ 4 rfl]
    simp only
    rw [if_pos (by have := word_le32 padVal []; rw [List.append_nil] at this; rw [this]; rfl)]
    exact ih

theorem frame_split (m : Mode) (n tip : Nat) (body rest : Bytes) :
    frame e m n tip body ++ rest =
      le32 (body.length + packetOverhead) ++ ((le32 (seqWord n) ++ le32 tip) ++
        ((body ++ le32 (e.crc m (header n tip body.length ++ body)) ++ zeros (alignOf m body.length)) ++ rest)) := by
  simp [frame, header, List.append_assoc]

theorem padLoop_frame (st : RState) (left : Nat) (tip : Nat) (body rest : Bytes) (h : PktOK st tip body) :
    padLoop (pureSrc e) st (left + 1) (frame e st.mode st.n tip body ++ rest) =
      .ok (⟨header st.n tip body.length, body.length + packetOverhead, tip⟩,
           (body ++ le32 (e.crc st.mode (header st.n tip body.length ++ body)) ++ zeros (alignOf st.mode body.length)) ++ rest) := by
  have ho := overhead_eq; have hm := maxLen_eq; have hp := padVal_eq
  rw [frame_split]
  simp only [padLoop]
  rw [pure_readFull_append e _ _ 4 rfl]
  simp only
  rw [if_neg (by rw [← List.append_nil (le32 _), word_le32]; have := h.1; omega)]
  rw [pure_readFull_append e _ _ 8 rfl]
  simp only
  have : le32 (body.length + packetOverhead) ++ (le32 (seqWord st.n) ++ le32 tip) = header st.n tip body.length := by
    simp [header]
  rw [this, finishHeader_header st tip body h]

theorem readHeader_frame (st : RState) (j : Nat) (tip : Nat) (body rest : Bytes) (h : PktOK st tip body)
    (hj : j ≤ 3) (hj0 : st.n = 0 → j = 0) :
    readHeader (pureSrc e) st (padWords j ++ (frame e st.mode st.n tip body ++ rest)) =
      .ok (⟨header st.n tip body.length, body.length + packetOverhead, tip⟩,
           (body ++ le32 (e.crc st.mode (header st.n tip body.length ++ body)) ++ zeros (alignOf st.mode body.length)) ++ rest) := by
  unfold readHeader
  split
  · rename_i h0
    rw [hj0 h0]
    simp only [padWords, List.replicate_zero, List.flatten_nil, List.nil_append]
    have : frame e st.mode st.n tip body ++ rest = header st.n tip body.length ++
        ((body ++ le32 (e.crc st.mode (header st.n tip body.length ++ body)) ++ zeros (alignOf st.mode body.length)) ++ rest) := by
      simp [frame, List.append_assoc]
    rw [this, pure_readFirst_append e _ _ rfl]
    simp only
    rw [finishHeader_header st tip body h]
  · have hb : blockSize / 4 = (3 - j + 1) + j := by have := block_eq; omega
    rw [hb, padLoop_pads, padLoop_frame e st _ tip body rest h]

theorem all_zero_zeros (n : Nat) : (zeros n).all (· == 0) = true := by
  simp [zeros]

theorem alignOf_eq (m : Mode) (l : Nat) : alignOf m (l + packetOverhead) = alignOf m l := by
  have := overhead_eq
  unfold alignOf
  split
  · omega
  · rfl

theorem readBody_frame (st : RState) (tip : Nat) (body rest : Bytes) :
    readBody (pureSrc e) e st ⟨header st.n tip body.length, body.length + packetOverhead, tip⟩
      ((body ++ le32 (e.crc st.mode (header st.n tip body.length ++ body)) ++ zeros (alignOf st.mode body.length)) ++ rest) =
      .ok (body, rest) := by
  unfold readBody
  simp only [Nat.add_sub_cancel, alignOf_eq]
  rw [pure_readFull_append e _ _ _ (by simp [zeros]; omega)]
  simp only
  have h1 : (body ++ le32 (e.crc st.mode (header st.n tip body.length ++ body)) ++ zeros (alignOf st.mode body.length)).take body.length = body := by
    rw [List.append_assoc, List.take_left']
    rfl
  have h2 : (body ++ le32 (e.crc st.mode (header st.n tip body.length ++ body)) ++ zeros (alignOf st.mode body.length)).drop (body.length + 4) = zeros (alignOf st.mode body.length) := by
    rw [List.drop_left']
    simp
  have h3 : (body ++ le32 (e.crc st.mode (header st.n tip body.length ++ body)) ++ zeros (alignOf st.mode body.length)).drop body.length =
      le32 (e.crc st.mode (header st.n tip body.length ++ body)) ++ zeros (alignOf st.mode body.length) := by
    rw [List.append_assoc, List.drop_left']
    rfl
  rw [h1, h2, h3, all_zero_zeros]
  simp only [Bool.true_eq_false, if_false]
  rw [word_le32, Nat.mod_eq_of_lt (crc_lt e _ _)]
  simp

/-- **One frame.** After at most three padding words (none before the very first packet) the reader accepts
the writer's frame, delivers exactly its type and body, and leaves exactly the rest of the stream. -/
theorem readPacket_frame (st : RState) (j : Nat) (tip : Nat) (body rest : Bytes) (h : PktOK st tip body)
    (hj : j ≤ 3) (hj0 : st.n = 0 → j = 0) :
    readPacket (pureSrc e) e st (padWords j ++ (frame e st.mode st.n tip body ++ rest)) =
      .ok (evOf tip body, { st with n := st.n + 1 }, rest) := by
  unfold readPacket
  rw [readHeader_frame e st j tip body rest h hj hj0]
  simp only
  rw [readBody_frame]
  have ho := overhead_eq
  unfold evOf
  split
  · rename_i hp
    rw [if_neg (by have := h.2.2.2.2.2.2.2 hp; omega)]
  · rw [if_neg h.2.2.2.2.2.2.1]

/-- **End of stream.** Only padding left: clean `io.EOF`. -/
theorem readHeader_end (st : RState) (j : Nat) (hj : j ≤ 3) (hj0 : st.n = 0 → j = 0) :
    readHeader (pureSrc e) st (padWords j) = .error .eof := by
  unfold readHeader
  split
  · rename_i h0
    rw [hj0 h0]
    simp [padWords, pureSrc]
  · have hb : blockSize / 4 = (3 - j + 1) + j := by have := block_eq; omega
    have := padLoop_pads e st (3 - j + 1) j []
    rw [List.append_nil] at this
    rw [hb, this]
    simp [padLoop, pureSrc]

theorem readPacket_end (st : RState) (j : Nat) (hj : j ≤ 3) (hj0 : st.n = 0 → j = 0) :
    readPacket (pureSrc e) e st (padWords j) = .error .eof := by
  unfold readPacket
  rw [readHeader_end e st j hj hj0]

end TLVerif.Packet
