import TLVerif.Packet.ConnLemmas
/-!
Inverse direction: whatever the stream reader accepts is a canonical frame (`readPacket_accepts`), hence — under
the CRC hypothesis — a frame with one byte changed after the length word is never accepted (`flip_rejected`).
-/
namespace TLVerif.Packet
open TLVerif.Facts.Packet

variable (e : Env)

theorem byteOf_eq {n : Nat} {x : UInt8} (h : n % 256 = x.toNat) : byteOf n = x := by
  apply UInt8.toNat_inj.mp
  rw [byteOf_toNat]; exact h

theorem le32_u32of (a b c d : UInt8) : le32 (u32of a b c d) = [a, b, c, d] := by
  have ha := a.toNat_lt; have hb := b.toNat_lt; have hc := c.toNat_lt; have hd := d.toNat_lt
  unfold le32 u32of
  rw [byteOf_eq (x := a) (by omega), byteOf_eq (x := b) (by omega), byteOf_eq (x := c) (by omega),
      byteOf_eq (x := d) (by omega)]

theorem len4 (w : Bytes) (h : w.length = 4) : ∃ a b c d, w = [a, b, c, d] := by
  match w, h with
  | [a, b, c, d], _ => exact ⟨a, b, c, d, rfl⟩

theorem le32_word (w : Bytes) (h : w.length = 4) : le32 (word w) = w := by
  obtain ⟨a, b, c, d, rfl⟩ := len4 w h
  exact le32_u32of a b c d

theorem word_append (w x : Bytes) (h : w.length = 4) : word (w ++ x) = word w := by
  obtain ⟨a, b, c, d, rfl⟩ := len4 w h
  rfl

theorem word_lt (w : Bytes) : word w < 4294967296 := by
  unfold word
  split
  · rename_i a b c d _
    have ha := a.toNat_lt; have hb := b.toNat_lt; have hc := c.toNat_lt; have hd := d.toNat_lt
    unfold u32of; omega
  · omega

theorem pure_readFull_inv (k : Nat) (t b s : Bytes) (h : (pureSrc e).readFull k t = .ok b s) :
    t = b ++ s ∧ b.length = k := by
  simp only [pureSrc] at h
  split at h
  · cases h
    exact ⟨(List.take_append_drop k t).symm, by rw [List.length_take]; omega⟩
  · cases h

theorem pure_readFirst_inv (t b s : Bytes) (h : (pureSrc e).readFirst t = .ok b s) :
    t = b ++ s ∧ b.length = 12 := by
  simp only [pureSrc] at h
  split at h
  · cases h
    exact ⟨(List.take_append_drop 12 t).symm, by rw [List.length_take]; omega⟩
  · cases h

/-- a 12-byte header is the serialisation of its three words -/
theorem h12_words (h12 : Bytes) (h : h12.length = 12) :
    h12 = le32 (word h12) ++ le32 (word (h12.drop 4)) ++ le32 (word (h12.drop 8)) := by
  have h1 : (h12.take 4).length = 4 := by rw [List.length_take]; omega
  have h2 : ((h12.drop 4).take 4).length = 4 := by rw [List.length_take, List.length_drop]; omega
  have h3 : (h12.drop 8).length = 4 := by rw [List.length_drop]; omega
  have e1 : h12 = h12.take 4 ++ ((h12.drop 4).take 4 ++ h12.drop 8) := by
    have := List.take_append_drop 4 h12
    have t2 := List.take_append_drop 4 (h12.drop 4)
    rw [List.drop_drop] at t2
    rw [t2]; exact this.symm
  have w1 : word h12 = word (h12.take 4) := by
    conv => lhs; rw [e1]
    exact word_append _ _ h1
  have w2 : word (h12.drop 4) = word ((h12.drop 4).take 4) := by
    have t2 := List.take_append_drop 4 (h12.drop 4)
    conv => lhs; rw [← t2]
    exact word_append _ _ h2
  rw [w1, w2, le32_word _ h1, le32_word _ h2, le32_word _ h3, List.append_assoc]
  exact e1

theorem padLoop_inv (st : RState) (left : Nat) (t : Bytes) (h : Hdr) (rest : Bytes)
    (hr : padLoop (pureSrc e) st left t = .ok (h, rest)) :
    ∃ j h12, j < left ∧ t = padWords j ++ (h12 ++ rest) ∧ h12.length = 12 ∧ finishHeader st h12 = .ok h := by
  induction left generalizing t with
  | zero => simp [padLoop] at hr
  | succ left ih =>
    simp only [padLoop] at hr
    split at hr
    · cases hr
    · cases hr
    · rename_i w s1 hw
      obtain ⟨ht, hwl⟩ := pure_readFull_inv e 4 t w s1 hw
      split at hr
      · rename_i hpad
        obtain ⟨j, h12, hj, hs1, hl, hf⟩ := ih s1 hr
        refine ⟨j + 1, h12, by omega, ?_, hl, hf⟩
        rw [ht, hs1, padWords_succ, ← hpad, le32_word w hwl, List.append_assoc]
      · split at hr
        · cases hr
        · cases hr
        · rename_i r s2 hr8
          obtain ⟨ht2, hrl⟩ := pure_readFull_inv e 8 s1 r s2 hr8
          split at hr
          · cases hr
          · rename_i hh hfin
            cases hr
            refine ⟨0, w ++ r, by omega, ?_, by simp [hwl, hrl], hfin⟩
            rw [ht, ht2]; simp [padWords]

theorem readHeader_inv (st : RState) (t : Bytes) (h : Hdr) (rest : Bytes)
    (hr : readHeader (pureSrc e) st t = .ok (h, rest)) :
    ∃ j h12, j ≤ 3 ∧ (st.n = 0 → j = 0) ∧ t = padWords j ++ (h12 ++ rest) ∧ h12.length = 12 ∧
      finishHeader st h12 = .ok h := by
  unfold readHeader at hr
  split at hr
  · split at hr
    · cases hr
    · cases hr
    · rename_i h12 s1 hf
      obtain ⟨ht, hl⟩ := pure_readFirst_inv e t h12 s1 hf
      split at hr
      · cases hr
      · rename_i hh hfin
        cases hr
        exact ⟨0, h12, by omega, fun _ => rfl, by rw [ht]; simp [padWords], hl, hfin⟩
  · rename_i hn
    obtain ⟨j, h12, hj, ht, hl, hf⟩ := padLoop_inv e st _ t h rest hr
    have := block_eq
    exact ⟨j, h12, by omega, fun h0 => absurd h0 hn, ht, hl, hf⟩

theorem eq_zeros_of_all (l : Bytes) (h : l.all (· == 0) = true) : l = zeros l.length := by
  induction l with
  | nil => rfl
  | cons x xs ih =>
    simp only [List.all_cons, Bool.and_eq_true, beq_iff_eq] at h
    simp only [zeros, List.length_cons, List.replicate_succ, List.cons.injEq]
    exact ⟨h.1, ih h.2⟩

theorem readBody_inv (st : RState) (h : Hdr) (s body rest : Bytes) (hlen : packetOverhead ≤ h.len)
    (hr : readBody (pureSrc e) e st h s = .ok (body, rest)) :
    s = body ++ le32 (e.crc st.mode (h.bytes ++ body)) ++ zeros (alignOf st.mode h.len) ++ rest ∧
      body.length = h.len - packetOverhead := by
  unfold readBody at hr
  simp only at hr
  split at hr
  · cases hr
  · cases hr
  · rename_i b s1 hb
    obtain ⟨hs, hbl⟩ := pure_readFull_inv e _ s b s1 hb
    split at hr
    · cases hr
    · rename_i hz
      split at hr
      · cases hr
      · rename_i hc
        cases hr
        have hz' : (b.drop (h.len - packetOverhead + 4)).all (· == 0) = true := by
          cases hx : (b.drop (h.len - packetOverhead + 4)).all (· == 0) with
          | true => rfl
          | false => exact absurd hx hz
        have hzz := eq_zeros_of_all _ hz'
        rw [List.length_drop, hbl] at hzz
        have hal : h.len - packetOverhead + 4 + alignOf st.mode h.len - (h.len - packetOverhead + 4) = alignOf st.mode h.len := by omega
        rw [hal] at hzz
        have hc4 : ((b.drop (h.len - packetOverhead)).take 4).length = 4 := by
          rw [List.length_take, List.length_drop]; omega
        have hsplit : b = b.take (h.len - packetOverhead) ++ ((b.drop (h.len - packetOverhead)).take 4 ++
            b.drop (h.len - packetOverhead + 4)) := by
          have t1 := List.take_append_drop (h.len - packetOverhead) b
          have t2 := List.take_append_drop 4 (b.drop (h.len - packetOverhead))
          rw [List.drop_drop] at t2
          rw [t2]; exact t1.symm
        have hw : word (b.drop (h.len - packetOverhead)) = word ((b.drop (h.len - packetOverhead)).take 4) := by
          have t2 := List.take_append_drop 4 (b.drop (h.len - packetOverhead))
          conv => lhs; rw [← t2]
          exact word_append _ _ hc4
        have hcrc : (b.drop (h.len - packetOverhead)).take 4 = le32 (e.crc st.mode (h.bytes ++ b.take (h.len - packetOverhead))) := by
          have := le32_word _ hc4
          rw [← hw] at this
          rw [← this]
          congr 1
          exact Decidable.of_not_not hc
        constructor
        · rw [hs]
          conv => lhs; rw [hsplit, hcrc, hzz]
          simp [List.append_assoc]
        · rw [List.length_take]; omega

theorem finishHeader_inv (st : RState) (h12 : Bytes) (h : Hdr) (hf : finishHeader st h12 = .ok h) :
    h = ⟨h12, word h12, word (h12.drop 8)⟩ ∧ checkHeader st (word h12) (word (h12.drop 4)) (word (h12.drop 8)) = none := by
  unfold finishHeader at hf
  simp only at hf
  split at hf
  · cases hf
  · rename_i hc
    cases hf
    exact ⟨rfl, hc⟩

theorem checkHeader_inv (st : RState) (len seq tip : Nat) (h : checkHeader st len seq tip = none) :
    packetOverhead ≤ len ∧ len ≤ maxPacketLen ∧ (st.mode.proto = 0 → len % 4 = 0) ∧
    (st.n = 0 → tip = packetTypeRPCNonce) ∧ (st.n = 1 → tip = packetTypeRPCHandshake) ∧
    (st.n < 2 → len ≤ maxNonceHandshakeLen) ∧ seq = seqWord st.n := by
  have hs := startSeq_eq
  unfold checkHeader at h
  split at h
  · cases h
  · rename_i h1
    split at h
    · cases h
    · rename_i h2
      split at h
      · cases h
      · rename_i h3
        split at h
        · cases h
        · rename_i h4
          split at h
          · cases h
          · rename_i h5
            split at h
            · cases h
            · rename_i h6
              refine ⟨by omega, by omega, ?_, ?_, ?_, ?_, ?_⟩
              · intro hp; exact Decidable.of_not_not (fun hn => h2 ⟨hp, hn⟩)
              · intro h0; exact Decidable.of_not_not (fun hn => h3 ⟨by omega, h0, hn⟩)
              · intro h0; exact Decidable.of_not_not (fun hn => h4 ⟨by omega, by omega, hn⟩)
              · intro h0; exact Nat.le_of_not_gt (fun hn => h5 ⟨by omega, hn⟩)
              · exact Decidable.of_not_not h6

/-- **The reader accepts only canonical frames.** Whatever `readPacket` accepts from a stream is: at most three
padding words (none for the very first packet), then exactly the writer's frame for the delivered type and body in
the reader's current state — right length word, the expected sequence number, the CRC of header and body under the
current table, zero alignment — then the unread rest. -/
theorem readPacket_accepts (st : RState) (t : Bytes) (ev : Ev) (st1 : RState) (rest : Bytes)
    (hr : readPacket (pureSrc e) e st t = .ok (ev, st1, rest)) :
    ∃ j tip body, j ≤ 3 ∧ (st.n = 0 → j = 0) ∧ t = padWords j ++ (frame e st.mode st.n tip body ++ rest) ∧
      ev = evOf tip body ∧ st1 = { st with n := st.n + 1 } ∧ PktOK st tip body := by
  have ho := overhead_eq
  unfold readPacket at hr
  split at hr
  · cases hr
  · rename_i h s1 hh
    obtain ⟨j, h12, hj, hj0, ht, hl, hf⟩ := readHeader_inv e st t h s1 hh
    obtain ⟨hhd, hck⟩ := finishHeader_inv st h12 h hf
    obtain ⟨c1, c2, c3, c4, c5, c6, c7⟩ := checkHeader_inv st _ _ _ hck
    have hlen : h.len = word h12 := by rw [hhd]
    have htip : h.tip = word (h12.drop 8) := by rw [hhd]
    have hbytes : h.bytes = h12 := by rw [hhd]
    -- common conclusion once the body has been read
    have key : ∀ body s2, readBody (pureSrc e) e st h s1 = .ok (body, s2) → h.tip ≠ rpcPongTag →
        (h.tip = rpcPingTag → h.len = packetOverhead + 8) →
        t = padWords j ++ (frame e st.mode st.n h.tip body ++ s2) ∧ PktOK st h.tip body := by
      intro body s2 hb hpong hping
      obtain ⟨hs1, hbl⟩ := readBody_inv e st h s1 body s2 (by rw [hlen]; exact c1) hb
      have hblen : body.length + packetOverhead = word h12 := by rw [hbl, hlen]; omega
      constructor
      · rw [ht, hs1]
        congr 1
        have hw := h12_words h12 hl
        unfold frame header
        rw [hblen, htip, ← c7, ← hw, hbytes]
        have : alignOf st.mode h.len = alignOf st.mode body.length := by
          rw [hlen, ← hblen, alignOf_eq]
        rw [this]
        simp [List.append_assoc]
      · refine ⟨by omega, by rw [htip]; exact word_lt _, ?_, by rw [htip]; exact c4, by rw [htip]; exact c5, ?_, hpong, ?_⟩
        · intro hp; have := c3 hp; omega
        · intro hn; have := c6 hn; omega
        · intro hp; have := hping hp; omega
    simp only at hr
    split at hr
    · rename_i hping
      split at hr
      · cases hr
      · rename_i hl8
        split at hr
        · cases hr
        · rename_i body s2 hb
          cases hr
          have hne : rpcPingTag ≠ rpcPongTag := by decide
          obtain ⟨k1, k2⟩ := key body rest hb (by rw [hping]; exact hne) (fun _ => Decidable.of_not_not hl8)
          exact ⟨j, h.tip, body, hj, hj0, k1, by simp [evOf, hping], rfl, k2⟩
    · rename_i hnping
      split at hr
      · split at hr
        · cases hr
        · split at hr <;> cases hr
      · rename_i hnpong
        split at hr
        · cases hr
        · rename_i body s2 hb
          cases hr
          obtain ⟨k1, k2⟩ := key body rest hb hnpong (fun hp => absurd hp hnping)
          exact ⟨j, h.tip, body, hj, hj0, k1, by simp [evOf, hnping], rfl, k2⟩

/-- What corruption detection needs from the checksum: changing one byte of the checksummed data changes the
checksum (true of every CRC with a 32-bit register: a burst of at most 8 bits is never a multiple of the
generator; here a hypothesis about the abstract function, sampled on the real tables by the correspondence run). -/
structure Env.CrcDetects (e : Env) : Prop where
  flip : ∀ (m : Mode) (X : Bytes) (i : Nat) (y : UInt8) (h : i < X.length), y ≠ X[i] → e.crc m (X.set i y) ≠ e.crc m X

theorem set_ne (l : Bytes) (i : Nat) (y : UInt8) (h : i < l.length) (hy : y ≠ l[i]) : l.set i y ≠ l := by
  intro h2
  have := List.getElem_set_self (l := l) (i := i) (a := y) (by simpa using h)
  simp [h2] at this
  exact hy this.symm

theorem frame_assoc (m : Mode) (n tip : Nat) (body : Bytes) :
    frame e m n tip body = (header n tip body.length ++ body) ++
      (le32 (e.crc m (header n tip body.length ++ body)) ++ zeros (alignOf m body.length)) := by
  simp [frame, List.append_assoc]

theorem frame_length (m : Mode) (n tip : Nat) (body : Bytes) :
    (frame e m n tip body).length = 12 + body.length + 4 + alignOf m body.length := by
  simp [frame, zeros]; omega

theorem frame_take4 (m : Mode) (n tip : Nat) (body rest : Bytes) :
    (frame e m n tip body ++ rest).take 4 = le32 (body.length + packetOverhead) := by
  simp [frame, header, le32]

/-- **A flipped byte is never accepted.** Take the writer's frame for any packet, change any single byte after the
length word, append anything: the stream reader reports an error (it does not deliver a packet). -/
theorem flip_rejected (hc : e.CrcDetects) (st : RState) (tip : Nat) (body rest : Bytes) (i : Nat) (y : UInt8)
    (hlen : body.length ≤ maxPacketLen - packetOverhead) (hi4 : 4 ≤ i)
    (hi : i < (frame e st.mode st.n tip body).length) (hy : y ≠ (frame e st.mode st.n tip body)[i]) :
    ∃ er, readPacket (pureSrc e) e st ((frame e st.mode st.n tip body).set i y ++ rest) = .error er := by
  have ho := overhead_eq; have hm := maxLen_eq; have hp := padVal_eq
  cases hr : readPacket (pureSrc e) e st ((frame e st.mode st.n tip body).set i y ++ rest) with
  | error er => exact ⟨er, rfl⟩
  | ok r =>
    exfalso
    obtain ⟨ev, st1, rest'⟩ := r
    obtain ⟨j, tip', body', hj, _, ht, _, _, hok'⟩ := readPacket_accepts e st _ ev st1 rest' hr
    have hFl := frame_length e st.mode st.n tip body
    -- the length word is untouched
    have ht4 : ((frame e st.mode st.n tip body).set i y ++ rest).take 4 = le32 (body.length + packetOverhead) := by
      rw [List.take_append_of_le_length (by rw [List.length_set]; omega), List.take_set_of_le hi4]
      have := frame_take4 e st.mode st.n tip body []
      rw [List.append_nil] at this
      exact this
    cases j with
    | succ j' =>
      rw [ht, padWords_succ] at ht4
      have : (le32 padVal ++ padWords j' ++ (frame e st.mode st.n tip' body' ++ rest')).take 4 = le32 padVal := by
        simp [le32]
      rw [this] at ht4
      have := le32_inj (by omega) (by omega) ht4
      omega
    | zero =>
      simp only [padWords, List.replicate_zero, List.flatten_nil, List.nil_append] at ht
      have ht4' := ht4
      rw [ht, frame_take4] at ht4'
      have hb' := hok'.1
      have hleq : body'.length = body.length := by
        have := le32_inj (by omega) (by omega) ht4'
        omega
      have hFl' := frame_length e st.mode st.n tip' body'
      obtain ⟨hF, _⟩ := List.append_inj ht (by rw [List.length_set, hFl, hFl', hleq])
      -- split both frames into checksummed part and trailer
      rw [frame_assoc e st.mode st.n tip body, frame_assoc e st.mode st.n tip' body', List.set_append] at hF
      have hXl : (header st.n tip body.length ++ body).length = 12 + body.length := by simp
      have hXl' : (header st.n tip' body'.length ++ body').length = 12 + body.length := by simp [hleq]
      split at hF
      · rename_i hlt
        obtain ⟨hX, hT⟩ := List.append_inj hF (by rw [List.length_set, hXl, hXl'])
        have hC := (List.append_inj hT (by simp)).1
        have hcrc := le32_inj (crc_lt e _ _) (crc_lt e _ _) hC
        have hy' : y ≠ (header st.n tip body.length ++ body)[i] := by
          intro h
          apply hy
          rw [h]
          simp only [frame_assoc e st.mode st.n tip body]
          rw [List.getElem_append_left hlt]
        rw [← hX] at hcrc
        exact hc.flip st.mode _ i y hlt hy' hcrc.symm
      · rename_i hge
        obtain ⟨hX, hT⟩ := List.append_inj hF (by rw [hXl, hXl'])
        rw [← hX, hleq] at hT
        have hk : i - (header st.n tip body.length ++ body).length <
            (le32 (e.crc st.mode (header st.n tip body.length ++ body)) ++ zeros (alignOf st.mode body.length)).length := by
          simp only [List.length_append, le32_length, zeros, List.length_replicate] at hXl ⊢
          omega
        refine set_ne _ _ y hk ?_ hT
        intro h
        apply hy
        rw [h]
        simp only [frame_assoc e st.mode st.n tip body]
        rw [List.getElem_append_right (Nat.le_of_not_lt hge)]

theorem jStep_noenc (w : WState) (s : Step) (hn : NoEnc s.modes) (he : w.mode.enc = false) : jStep e w s = 0 := by
  unfold jStep
  split
  · rw [padOf_noenc]
    have hk := wModes_key w s.modes hn
    have : (wModes w s.modes).key.1 = w.key.1 := by rw [hk]
    simp only [WState.key] at this
    simp [wWrite, this, he]
  · rfl

/-- **Corruption of an unencrypted connection is detected at the corrupted packet.** History `A ++ s :: B` without
encryption; one byte of the frame of `s` after its length word is changed on the wire. For every segmentation of
the corrupted wire bytes the reading loop delivers exactly the packets of `A` (intact, in order) and then stops
with an error: the corrupted packet is not delivered, nor anything after it. -/
theorem corrupt_detected_chunks (hc : e.CrcDetects) (n0 : Nat) (m0 : Mode) (hm0 : m0.enc = false)
    (A : List Step) (s : Step) (B : List Step)
    (hok : StepsOK e (freshW n0 m0) (A ++ s :: B)) (hne : NoEncSteps (A ++ s :: B)) (hpos : n0 + A.length ≠ 0)
    (i : Nat) (y : UInt8) (hi4 : 4 ≤ i)
    (hi : i < (frame e (wModes (wSteps e (freshW n0 m0) A) s.modes).mode (wSteps e (freshW n0 m0) A).n s.tip s.body).length)
    (hy : y ≠ (frame e (wModes (wSteps e (freshW n0 m0) A) s.modes).mode (wSteps e (freshW n0 m0) A).n s.tip s.body)[i]) :
    ∃ wf, finalW e (flat (A ++ s :: B)) (freshW n0 m0) = some wf ∧
      ∃ er, ∀ (cs : List Bytes) (f : Nat),
        cs.flatten = (wf.wire e).set ((stepsBytes e (freshW n0 m0) A).length + i) y →
        readLoop (chunkSrc e) e (schedOfOps e (flat (A ++ s :: B)) (freshW n0 m0)) (A.length + (f + 1)) ⟨n0, m0⟩
            { chunks := cs } = (A.map stepEv, some er) := by
  obtain ⟨wf, hf, hw, _⟩ := roundtrip_plain_pure e n0 m0 hm0 (A ++ s :: B) hok hne 0
  have hi0 := EInv_fresh n0 m0 hm0
  obtain ⟨hs1, hs2⟩ := sched_steps e _ _ hok hi0
  obtain ⟨hokA, hms, hps, hokB⟩ := (StepsOK_append e (freshW n0 m0) A (s :: B)).1 hok
  have hneA : NoEncSteps A := fun x hx => hne x (by simp [hx])
  have hnes : NoEnc s.modes := hne s (by simp)
  let wA := wSteps e (freshW n0 m0) A
  have hencA : wA.mode.enc = false := by
    have hk := wSteps_key e (freshW n0 m0) A hneA
    have : wA.key.1 = (freshW n0 m0).key.1 := by rw [hk]
    simpa [WState.key, freshW, hm0] using this
  let F := frame e (wModes wA s.modes).mode wA.n s.tip s.body
  let R := stepsBytes e (wStep e wA s) B
  have hwire : wf.wire e = stepsBytes e (freshW n0 m0) A ++ (F ++ R) := by
    rw [hw, stepsBytes_append]
    show _ ++ stepsBytes e wA (s :: B) = _
    have := stepsBytes_head e wA s B []
    simp only [List.append_nil] at this
    rw [this, jStep_noenc e wA s hnes hencA]
    simp [padWords, F, R]
  have hset : (wf.wire e).set ((stepsBytes e (freshW n0 m0) A).length + i) y =
      stepsBytes e (freshW n0 m0) A ++ (F.set i y ++ R) := by
    rw [hwire, List.set_append, if_neg (by omega), Nat.add_sub_cancel_left, List.set_append, if_pos hi]
  -- the state in which the corrupted frame is read
  let st' : RState := ⟨wA.n, (wModes wA s.modes).mode⟩
  obtain ⟨er, her⟩ := flip_rejected e hc st' s.tip s.body R i y hps.1 hi4 hi hy
  refine ⟨wf, hf, er, ?_⟩
  intro cs f hcs
  rw [hset] at hcs
  have hsA : ∀ (k : Nat) (h : k < A.length),
      schedOfOps e (flat (A ++ s :: B)) (freshW n0 m0) ((freshW n0 m0).n + k) = A[k].modes := by
    intro k h
    rw [hs1 k (by simp; omega)]
    simp [List.getElem_append_left h]
  have hss : schedOfOps e (flat (A ++ s :: B)) (freshW n0 m0) wA.n = s.modes := by
    have := hs1 A.length (by simp)
    rw [show wA.n = (freshW n0 m0).n + A.length from wSteps_n e _ A, this]
    simp
  rw [readLoop_chunk_eq_pure e _ _ ⟨n0, m0⟩ _ _ (CRelB_init e cs _) ?_, hcs]
  · have hA := read_steps e (schedOfOps e (flat (A ++ s :: B)) (freshW n0 m0)) A (freshW n0 m0) 0 (F.set i y ++ R)
      (f + 1) hi0 hokA hneA (by omega) (fun _ => rfl) hsA
    simp only [padWords, List.replicate_zero, List.flatten_nil, List.nil_append] at hA
    have hfr : (⟨(freshW n0 m0).n, (freshW n0 m0).mode⟩ : RState) = ⟨n0, m0⟩ := rfl
    rw [hfr] at hA
    rw [hA, jSteps_noenc e _ A hneA hm0]
    simp only [List.replicate_zero, List.flatten_nil, List.nil_append]
    have hX : readLoop (pureSrc e) e (schedOfOps e (flat (A ++ s :: B)) (freshW n0 m0)) (f + 1) ⟨wA.n, wA.mode⟩
        (F.set i y ++ R) = ([], some er) := by
      simp only [readLoop, hss, applyModeOps_noenc _ _ _ _ hnes]
      rw [← wModes_mode wA s.modes]
      have : readPacket (pureSrc e) e ⟨wA.n, (wModes wA s.modes).mode⟩ (F.set i y ++ R) = .error er := her
      rw [this]
    rw [hX]
    simp
  · intro h0 r hr
    rw [hcs] at hr
    cases A with
    | nil => exact absurd (by simpa using h0) hpos
    | cons a A' =>
      have hs0 : schedOfOps e (flat ((a :: A') ++ s :: B)) (freshW n0 m0) n0 = a.modes := by
        have := hsA 0 (by simp); simpa [freshW] using this
      simp only at hr
      rw [hs0, applyModeOps_noenc _ _ _ _ (hneA a (by simp))] at hr
      simp only [Option.some.injEq] at hr
      rw [← hr]
      simp only
      rw [stepsBytes_head]
      exact NoMagic_frame e _ _ _ _ _ (pkt_small _ _ _ hokA.2.1 (by simpa [freshW] using h0))

end TLVerif.Packet
