import TLVerif.Packet.Basic
/-!
Executable AES-256 block cipher (FIPS-197), the instance of `Env.enc`/`Env.dec` used by the model driver so
that the encrypted wire bytes can be compared with `crypto/aes` + `crypto/cipher` byte for byte.
No theorem depends on this file (the theorems are stated for an arbitrary block map with the inverse law as a
hypothesis); its agreement with the Go library is *sampled* by the correspondence run.  Out-of-range lookups
are impossible (indices are bytes / fixed permutations); `getD` is used to stay total.
-/
namespace TLVerif.Packet.Aes

def sbox : Array UInt8 := #[99, 124, 119, 123, 242, 107, 111, 197, 48, 1, 103, 43, 254, 215, 171, 118, 202, 130, 201, 125, 250, 89, 71, 240, 173, 212, 162, 175, 156, 164, 114, 192, 183, 253, 147, 38, 54, 63, 247, 204, 52, 165, 229, 241, 113, 216, 49, 21, 4, 199, 35, 195, 24, 150, 5, 154, 7, 18, 128, 226, 235, 39, 178, 117, 9, 131, 44, 26, 27, 110, 90, 160, 82, 59, 214, 179, 41, 227, 47, 132, 83, 209, 0, 237, 32, 252, 177, 91, 106, 203, 190, 57, 74, 76, 88, 207, 208, 239, 170, 251, 67, 77, 51, 133, 69, 249, 2, 127, 80, 60, 159, 168, 81, 163, 64, 143, 146, 157, 56, 245, 188, 182, 218, 33, 16, 255, 243, 210, 205, 12, 19, 236, 95, 151, 68, 23, 196, 167, 126, 61, 100, 93, 25, 115, 96, 129, 79, 220, 34, 42, 144, 136, 70, 238, 184, 20, 222, 94, 11, 219, 224, 50, 58, 10, 73, 6, 36, 92, 194, 211, 172, 98, 145, 149, 228, 121, 231, 200, 55, 109, 141, 213, 78, 169, 108, 86, 244, 234, 101, 122, 174, 8, 186, 120, 37, 46, 28, 166, 180, 198, 232, 221, 116, 31, 75, 189, 139, 138, 112, 62, 181, 102, 72, 3, 246, 14, 97, 53, 87, 185, 134, 193, 29, 158, 225, 248, 152, 17, 105, 217, 142, 148, 155, 30, 135, 233, 206, 85, 40, 223, 140, 161, 137, 13, 191, 230, 66, 104, 65, 153, 45, 15, 176, 84, 187, 22]
def isbox : Array UInt8 := #[82, 9, 106, 213, 48, 54, 165, 56, 191, 64, 163, 158, 129, 243, 215, 251, 124, 227, 57, 130, 155, 47, 255, 135, 52, 142, 67, 68, 196, 222, 233, 203, 84, 123, 148, 50, 166, 194, 35, 61, 238, 76, 149, 11, 66, 250, 195, 78, 8, 46, 161, 102, 40, 217, 36, 178, 118, 91, 162, 73, 109, 139, 209, 37, 114, 248, 246, 100, 134, 104, 152, 22, 212, 164, 92, 204, 93, 101, 182, 146, 108, 112, 72, 80, 253, 237, 185, 218, 94, 21, 70, 87, 167, 141, 157, 132, 144, 216, 171, 0, 140, 188, 211, 10, 247, 228, 88, 5, 184, 179, 69, 6, 208, 44, 30, 143, 202, 63, 15, 2, 193, 175, 189, 3, 1, 19, 138, 107, 58, 145, 17, 65, 79, 103, 220, 234, 151, 242, 207, 206, 240, 180, 230, 115, 150, 172, 116, 34, 231, 173, 53, 133, 226, 249, 55, 232, 28, 117, 223, 110, 71, 241, 26, 113, 29, 41, 197, 137, 111, 183, 98, 14, 170, 24, 190, 27, 252, 86, 62, 75, 198, 210, 121, 32, 154, 219, 192, 254, 120, 205, 90, 244, 31, 221, 168, 51, 136, 7, 199, 49, 177, 18, 16, 89, 39, 128, 236, 95, 96, 81, 127, 169, 25, 181, 74, 13, 45, 229, 122, 159, 147, 201, 156, 239, 160, 224, 59, 77, 174, 42, 245, 176, 200, 235, 187, 60, 131, 83, 153, 97, 23, 43, 4, 126, 186, 119, 214, 38, 225, 105, 20, 99, 85, 33, 12, 125]

def sub (b : UInt8) : UInt8 := sbox.getD b.toNat 0
def isub (b : UInt8) : UInt8 := isbox.getD b.toNat 0

def xtime (a : UInt8) : UInt8 := if a &&& 0x80 = 0 then a <<< 1 else (a <<< 1) ^^^ 0x1b

def gmul (a b : UInt8) : UInt8 :=
  let a2 := xtime a; let a4 := xtime a2; let a8 := xtime a4
  (if b &&& 1 = 0 then 0 else a) ^^^ (if b &&& 2 = 0 then 0 else a2) ^^^
  (if b &&& 4 = 0 then 0 else a4) ^^^ (if b &&& 8 = 0 then 0 else a8)

abbrev Word := UInt8 × UInt8 × UInt8 × UInt8

def wxor (a b : Word) : Word := (a.1 ^^^ b.1, a.2.1 ^^^ b.2.1, a.2.2.1 ^^^ b.2.2.1, a.2.2.2 ^^^ b.2.2.2)
def subWord (a : Word) : Word := (sub a.1, sub a.2.1, sub a.2.2.1, sub a.2.2.2)
def rotWord (a : Word) : Word := (a.2.1, a.2.2.1, a.2.2.2, a.1)

def wordsOfKey : List UInt8 → List Word
  | a :: b :: c :: d :: t => (a, b, c, d) :: wordsOfKey t
  | _ => []

/-- key expansion for Nk = 8 (60 words); `ws` is kept reversed-free as an array -/
def expand (key : List UInt8) : Array Word := Id.run do
  let mut w : Array Word := (wordsOfKey key).toArray
  let mut rcon : UInt8 := 1
  for i in [8:60] do
    let prev := w.getD (i - 1) (0, 0, 0, 0)
    let mut t := prev
    if i % 8 = 0 then
      let r := subWord (rotWord prev)
      t := (r.1 ^^^ rcon, r.2.1, r.2.2.1, r.2.2.2)
      rcon := xtime rcon
    else if i % 8 = 4 then
      t := subWord prev
    w := w.push (wxor (w.getD (i - 8) (0, 0, 0, 0)) t)
  return w

def roundKey (w : Array Word) (r : Nat) : List UInt8 :=
  (List.range 4).flatMap fun c =>
    let x := w.getD (4 * r + c) (0, 0, 0, 0)
    [x.1, x.2.1, x.2.2.1, x.2.2.2]

def addKey (st k : List UInt8) : List UInt8 := List.zipWith (· ^^^ ·) st k

def permute (p : List Nat) (st : Array UInt8) : Array UInt8 := (p.map fun j => st.getD j 0).toArray

def shiftRows (st : List UInt8) : List UInt8 :=
  (permute [0, 5, 10, 15, 4, 9, 14, 3, 8, 13, 2, 7, 12, 1, 6, 11] st.toArray).toList
def invShiftRows (st : List UInt8) : List UInt8 :=
  (permute [0, 13, 10, 7, 4, 1, 14, 11, 8, 5, 2, 15, 12, 9, 6, 3] st.toArray).toList

def mixColumns : List UInt8 → List UInt8
  | a :: b :: c :: d :: t =>
    (gmul a 2 ^^^ gmul b 3 ^^^ c ^^^ d) :: (a ^^^ gmul b 2 ^^^ gmul c 3 ^^^ d) ::
    (a ^^^ b ^^^ gmul c 2 ^^^ gmul d 3) :: (gmul a 3 ^^^ b ^^^ c ^^^ gmul d 2) :: mixColumns t
  | _ => []

def invMixColumns : List UInt8 → List UInt8
  | a :: b :: c :: d :: t =>
    (gmul a 14 ^^^ gmul b 11 ^^^ gmul c 13 ^^^ gmul d 9) :: (gmul a 9 ^^^ gmul b 14 ^^^ gmul c 11 ^^^ gmul d 13) ::
    (gmul a 13 ^^^ gmul b 9 ^^^ gmul c 14 ^^^ gmul d 11) :: (gmul a 11 ^^^ gmul b 13 ^^^ gmul c 9 ^^^ gmul d 14) ::
    invMixColumns t
  | _ => []

def encRounds (w : Array Word) : Nat → Nat → List UInt8 → List UInt8
  | 0, _, st => st
  | left + 1, r, st =>
    let s1 := shiftRows (st.map sub)
    if left = 0 then addKey s1 (roundKey w r)
    else encRounds w left (r + 1) (addKey (mixColumns s1) (roundKey w r))

def decRounds (w : Array Word) : Nat → Nat → List UInt8 → List UInt8
  | 0, _, st => st
  | left + 1, r, st =>
    let s1 := addKey ((invShiftRows st).map isub) (roundKey w r)
    if left = 0 then s1 else decRounds w left (r - 1) (invMixColumns s1)

/-- AES-256 encryption of one 16-byte block with an expanded key -/
def encBlock (w : Array Word) (b : List UInt8) : List UInt8 := encRounds w 14 1 (addKey b (roundKey w 0))
def decBlock (w : Array Word) (b : List UInt8) : List UInt8 := decRounds w 14 13 (addKey b (roundKey w 14))

end TLVerif.Packet.Aes
