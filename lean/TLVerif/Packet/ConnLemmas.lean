import TLVerif.Packet.RoundtripLemmas
/-!
Connection-level statements over the chunked `cryptoReader` model: chunk invariance and the two round-trip
theorems for every segmentation of the wire bytes.
-/
namespace TLVerif.Packet
open TLVerif.Facts.Packet

variable (e : Env)

theorem magics_eq : magics = [[115, 116, 97, 116, 115, 13, 10], [115, 116, 97, 116, 115, 10],
    [103, 101, 116, 32, 115, 116, 97, 116, 115, 13, 10], [118, 101, 114, 115, 105, 111, 110, 13, 10]] := by decide

/-- the memcached commands are ASCII, so their bytes are their characters -/
theorem magics_ascii : ∀ s ∈ [memcachedStatsReqRN, memcachedStatsReqN, memcachedGetStatsReq, memcachedVersionReq],
    ∀ c ∈ s.toList, c.toNat < 128 := by decide

theorem NoMagic_nil : NoMagic [] := by
  intro m hm hp
  rw [magics_eq] at hm
  have : m = [] := List.prefix_nil.mp hp
  subst this
  simp at hm

/-- a stream whose third byte is zero does not start with a memcached command -/
theorem NoMagic_third_zero (a b : UInt8) (r : Bytes) : NoMagic (a :: b :: 0 :: r) := by
  intro m hm hp
  rw [magics_eq] at hm
  simp only [List.mem_cons, List.not_mem_nil, or_false] at hm
  rcases hm with h | h | h | h <;> subst h <;> simp [List.cons_prefix_cons] at hp

theorem NoMagic_frame (m : Mode) (n tip : Nat) (body rest : Bytes) (h : body.length + packetOverhead < 65536) :
    NoMagic (frame e m n tip body ++ rest) := by
  have : ∃ a b r, frame e m n tip body ++ rest = a :: b :: 0 :: r := by
    refine ⟨byteOf (body.length + packetOverhead), byteOf ((body.length + packetOverhead) / 256), ?_, ?_⟩
    · exact byteOf ((body.length + packetOverhead) / 16777216) :: (le32 (seqWord n) ++ le32 tip ++ body ++
        le32 (e.crc m (header n tip body.length ++ body)) ++ zeros (alignOf m body.length) ++ rest)
    · have h0 : byteOf ((body.length + packetOverhead) / 65536) = 0 := by
        rw [Nat.div_eq_of_lt h]; rfl
      simp [frame, header, le32, h0]
  obtain ⟨a, b, r, hr⟩ := this
  rw [hr]
  exact NoMagic_third_zero a b r

/-- the relation holds initially: nothing buffered, no cipher, all chunks still to come -/
theorem CRelB_init (cs : List Bytes) (b : Bool) : CRelB e b { chunks := cs } cs.flatten := by
  refine ⟨⟨rfl, ?_⟩, fun _ => rfl⟩
  simp [CSrc.T]

/-- **Chunk invariance.** What the reading loop returns depends only on the concatenation of the delivered
chunks (for streams that do not start with a memcached command when nothing has been read yet). -/
theorem chunk_invariant (sched : Nat → List ModeOp) (fuel : Nat) (st : RState) (cs₁ cs₂ : List Bytes)
    (hcs : cs₁.flatten = cs₂.flatten)
    (hQ : st.n = 0 → ∀ r, applyModeOps (pureSrc e) st cs₁.flatten (sched st.n) = some r → NoMagic r.2) :
    readLoop (chunkSrc e) e sched fuel st { chunks := cs₁ } = readLoop (chunkSrc e) e sched fuel st { chunks := cs₂ } := by
  rw [readLoop_chunk_eq_pure e sched fuel st _ _ (CRelB_init e cs₁ _) hQ,
      readLoop_chunk_eq_pure e sched fuel st _ _ (CRelB_init e cs₂ _) (by rw [← hcs]; exact hQ), hcs]

theorem stepsBytes_head (w : WState) (s : Step) (ss : List Step) (tail : Bytes) :
    stepsBytes e w (s :: ss) ++ tail =
      frame e (wModes w s.modes).mode w.n s.tip s.body ++ (padWords (jStep e w s) ++ (stepsBytes e (wStep e w s) ss ++ tail)) := by
  simp [stepsBytes, stepBytes, List.append_assoc]

theorem pkt_small (st : RState) (tip : Nat) (body : Bytes) (h : PktOK st tip body) (h0 : st.n = 0) :
    body.length + packetOverhead < 65536 := by
  have := h.2.2.2.2.2.1 (by omega)
  have := maxHs_eq
  omega

/-- **Round trip, unencrypted, every segmentation.** -/
theorem roundtrip_plain_chunks (n0 : Nat) (m0 : Mode) (hm0 : m0.enc = false) (ss : List Step)
    (hok : StepsOK e (freshW n0 m0) ss) (hne : NoEncSteps ss) (f : Nat) :
    ∃ wf, finalW e (flat ss) (freshW n0 m0) = some wf ∧
      ∀ cs : List Bytes, cs.flatten = wf.wire e →
        readLoop (chunkSrc e) e (schedOfOps e (flat ss) (freshW n0 m0)) (ss.length + (f + 1)) ⟨n0, m0⟩ { chunks := cs } =
          (ss.map stepEv, some .eof) := by
  obtain ⟨wf, h1, hw, h3⟩ := roundtrip_plain_pure e n0 m0 hm0 ss hok hne f
  refine ⟨wf, h1, ?_⟩
  intro cs hcs
  have hi := EInv_fresh n0 m0 hm0
  obtain ⟨hs1, hs2⟩ := sched_steps e _ ss hok hi
  rw [readLoop_chunk_eq_pure e _ _ ⟨n0, m0⟩ _ _ (CRelB_init e cs _) ?_, hcs, h3]
  intro h0 r hr
  rw [hcs, hw] at hr
  cases ss with
  | nil =>
    have : schedOfOps e (flat []) (freshW n0 m0) n0 = [] := hs2 n0 (by right; simp [freshW])
    simp only at hr
    rw [this] at hr
    simp only [applyModeOps, Option.some.injEq] at hr
    rw [← hr]
    exact NoMagic_nil
  | cons s ss =>
    have hs0 : schedOfOps e (flat (s :: ss)) (freshW n0 m0) n0 = s.modes := by
      have := hs1 0 (by simp); simpa [freshW] using this
    simp only at hr
    rw [hs0, applyModeOps_noenc _ _ _ _ (hne s (by simp))] at hr
    simp only [Option.some.injEq] at hr
    rw [← hr]
    simp only
    have := stepsBytes_head e (freshW n0 m0) s ss []
    rw [List.append_nil] at this
    rw [this]
    exact NoMagic_frame e _ _ _ _ _ (pkt_small _ _ _ hok.2.1 (by simpa [freshW] using h0))

/-- **Round trip with the AES-CBC switch, every segmentation of the (partly encrypted) wire bytes.** -/
theorem roundtrip_enc_chunks (he : e.CipherOK) (n0 : Nat) (m0 : Mode) (hm0 : m0.enc = false)
    (pre : List Step) (es : EncStep) (post : List Step)
    (hok : StepsOK e (freshW n0 m0) (pre ++ es.step :: post))
    (hpre : NoEncSteps pre) (h1 : NoEnc es.ms1) (h2 : NoEnc es.ms2) (hpost : NoEncSteps post) (f : Nat) :
    ∃ wf, finalW e (flat (pre ++ es.step :: post)) (freshW n0 m0) = some wf ∧
      wf.wire e = stepsBytes e (freshW n0 m0) pre ++ cbcEnc e es.key es.iv (encTail e (freshW n0 m0) pre es post) ∧
      ∀ cs : List Bytes, cs.flatten = wf.wire e →
        readLoop (chunkSrc e) e (schedOfOps e (flat (pre ++ es.step :: post)) (freshW n0 m0))
            (pre.length + ((post.length + (f + 1)) + 1)) ⟨n0, m0⟩ { chunks := cs } =
          ((pre ++ es.step :: post).map stepEv, some .eof) := by
  obtain ⟨wf, hf, ⟨hw, hPlen⟩, h3⟩ := roundtrip_enc_pure e he n0 m0 hm0 pre es post hok hpre h1 h2 hpost f
  refine ⟨wf, hf, hw, ?_⟩
  intro cs hcs
  have hi := EInv_fresh n0 m0 hm0
  obtain ⟨hs1, hs2⟩ := sched_steps e _ _ hok hi
  rw [readLoop_chunk_eq_pure e _ _ ⟨n0, m0⟩ _ _ (CRelB_init e cs _) ?_, hcs, h3]
  intro h0 r hr
  rw [hcs, hw] at hr
  have hok' := (StepsOK_append e (freshW n0 m0) pre (es.step :: post)).1 hok
  cases pre with
  | nil =>
    have hs0 : schedOfOps e (flat ([] ++ es.step :: post)) (freshW n0 m0) n0 = es.step.modes := by
      have := hs1 0 (by simp); simpa [freshW] using this
    simp only at hr
    obtain ⟨_, hmenc, _⟩ := (ModesOK_append (freshW n0 m0) es.ms1 (.encrypt es.key es.iv :: es.ms2)).1 hok'.2.1
    rw [hs0, applyModeOps_enc e _ _ es h1 h2 hm0] at hr
    simp only [Option.some.injEq] at hr
    rw [← hr]
    simp only [stepsBytes, List.nil_append]
    rw [cbcDec_cbcEnc e es.key he es.iv _ hmenc.2.2 hPlen]
    unfold encTail
    simp only [wSteps, stepBytes, List.append_assoc]
    exact NoMagic_frame e _ _ _ _ _ (pkt_small _ _ _ hok'.2.2.1 (by simpa [freshW, wSteps] using h0))
  | cons s pre =>
    have hs0 : schedOfOps e (flat ((s :: pre) ++ es.step :: post)) (freshW n0 m0) n0 = s.modes := by
      have := hs1 0 (by simp); simpa [freshW] using this
    simp only at hr
    rw [hs0, applyModeOps_noenc _ _ _ _ (hpre s (by simp))] at hr
    simp only [Option.some.injEq] at hr
    rw [← hr]
    simp only
    rw [stepsBytes_head]
    exact NoMagic_frame e _ _ _ _ _ (pkt_small _ _ _ hok'.1.2.1 (by simpa [freshW] using h0))

end TLVerif.Packet
