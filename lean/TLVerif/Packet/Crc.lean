import TLVerif.Packet.Basic
/-!
Executable bitwise CRC-32 (reflected, init and final xor `0xFFFFFFFF`), parametrised by the reflected
polynomial: `0xEDB88320` is `crc32.IEEETable`, `0x82F63B78` is `crc32.MakeTable(crc32.Castagnoli)`.
`crc32.Update(crc32.Update(0, t, a), t, b) = crc32.Update(0, t, a ++ b)` is the library's contract (modelled).
-/
namespace TLVerif.Packet

def crcBit (poly c : UInt32) : UInt32 := if c &&& 1 = 1 then (c >>> 1) ^^^ poly else c >>> 1

def crcByte (poly c : UInt32) (b : UInt8) : UInt32 :=
  let c := c ^^^ b.toUInt32
  crcBit poly (crcBit poly (crcBit poly (crcBit poly (crcBit poly (crcBit poly (crcBit poly (crcBit poly c)))))))

def crcRaw (poly c : UInt32) (d : Bytes) : UInt32 := d.foldl (crcByte poly) c

def crc32 (poly : UInt32) (d : Bytes) : UInt32 := crcRaw poly 0xFFFFFFFF d ^^^ 0xFFFFFFFF

def polyIEEE : UInt32 := 0xEDB88320
def polyCastagnoli : UInt32 := 0x82F63B78

end TLVerif.Packet
