import TLVerif.Packet.Basic
/-! Helper lemmas about the byte-level functions of `Basic.lean`. -/
namespace TLVerif.Packet
open TLVerif.Facts.Packet

theorem overhead_eq : packetOverhead = 16 := rfl
theorem maxLen_eq : maxPacketLen = 16777215 := rfl
theorem maxHs_eq : maxNonceHandshakeLen = 1023 := rfl
theorem block_eq : blockSize = 16 := rfl
theorem padVal_eq : padVal = 4 := rfl
theorem startSeq_eq : startSeqNum = -2 := rfl

@[simp] theorem byteOf_toNat (n : Nat) : (byteOf n).toNat = n % 256 := by
  simp [byteOf]

@[simp] theorem le32_length (n : Nat) : (le32 n).length = 4 := rfl

theorem word_le32 (n : Nat) (rest : Bytes) : word (le32 n ++ rest) = n % 4294967296 := by
  simp only [le32, word, u32of, List.cons_append, List.nil_append, byteOf_toNat]
  omega

theorem le32_inj {a b : Nat} (ha : a < 4294967296) (hb : b < 4294967296) (h : le32 a = le32 b) : a = b := by
  have h1 := word_le32 a []
  have h2 := word_le32 b []
  rw [h] at h1
  omega

end TLVerif.Packet
