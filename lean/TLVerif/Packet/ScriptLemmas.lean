import TLVerif.Packet.Script
import TLVerif.Packet.FrameLemmas
/-!
Connection histories made of *steps* (mode changes, one packet, flushes): what the writer model does on them
(total "spec" functions `wStep`, `stepBytes`, proved equal to the model functions `runW`/`flush`/`writeNoFlush`)
and what the stream reader does on the produced bytes (`read_steps`).
-/
namespace TLVerif.Packet
open TLVerif.Facts.Packet

variable (e : Env)

/-- one packet of a history: the mode changes made just before it (by both ends), how it is written, and how
many further `Flush` calls follow -/
structure Step where
  modes : List ModeOp := []
  flush : Bool := true
  tip : Nat
  body : Bytes
  extra : Nat := 0

def Step.ops (s : Step) : List Op :=
  s.modes.map .mode ++ (.write s.flush s.tip s.body :: List.replicate s.extra .flush)

def flat (ss : List Step) : List Op := ss.flatMap Step.ops

def ModeOp.isEnc : ModeOp → Bool
  | .encrypt _ _ => true
  | _ => false

def mApply (m : Mode) : ModeOp → Mode
  | .setProto v => { m with proto := v }
  | .setCrcC => { m with crcC := true }
  | .encrypt _ _ => { m with enc := true }

def wMode (w : WState) : ModeOp → WState
  | .setProto v => { w with mode := { w.mode with proto := v } }
  | .setCrcC => { w with mode := { w.mode with crcC := true } }
  | .encrypt k iv => wEncrypt w k iv

def wModes (w : WState) (ms : List ModeOp) : WState := ms.foldl wMode w

def wWrite (w : WState) (tip : Nat) (body : Bytes) : WState :=
  { w with n := w.n + 1, out := w.out ++ (w.pending ++ header w.n tip body.length ++ body),
           pending := le32 (e.crc w.mode (header w.n tip body.length ++ body)) ++ zeros (alignOf w.mode body.length) }

def padOf (w : WState) : Nat := cryptoPadding w w.pending.length

def wFlush (w : WState) : WState :=
  { w with out := w.out ++ (w.pending ++ padPattern.take (padOf w)), pending := [] }

def Step.flushes (s : Step) : Bool := s.flush || decide (0 < s.extra)

def wStep (w : WState) (s : Step) : WState :=
  let w2 := wWrite e (wModes w s.modes) s.tip s.body
  if s.flushes then wFlush w2 else w2

/-- crypto padding words following the packet of step `s` -/
def jStep (w : WState) (s : Step) : Nat :=
  if s.flushes then padOf (wWrite e (wModes w s.modes) s.tip s.body) / 4 else 0

def stepBytes (w : WState) (s : Step) : Bytes :=
  frame e (wModes w s.modes).mode w.n s.tip s.body ++ padWords (jStep e w s)

def wSteps (w : WState) : List Step → WState
  | [] => w
  | s :: ss => wSteps (wStep e w s) ss

def stepsBytes (w : WState) : List Step → Bytes
  | [] => []
  | s :: ss => stepBytes e w s ++ stepsBytes (wStep e w s) ss

def jSteps (w : WState) (j : Nat) : List Step → Nat
  | [] => j
  | s :: ss => jSteps (wStep e w s) (jStep e w s) ss

def stepEv (s : Step) : Ev := evOf s.tip s.body

/-- the logical plaintext stream written so far, including the CRC still waiting in `headerWriteBuf` -/
def WState.L (w : WState) : Bytes := w.out ++ w.pending

/-- alignment invariant of the encrypted writer -/
def EInv (w : WState) : Prop :=
  w.mode.enc = true → w.encStart ≤ w.out.length ∧ (w.out.length - w.encStart + w.pending.length) % 4 = 0

/-- a mode change is admissible in writer state `w`: encryption is turned on at most once and only when nothing is
waiting in `headerWriteBuf` (every `WritePacket` of the handshake flushes) -/
def ModeOK (w : WState) : ModeOp → Prop
  | .encrypt _ iv => w.mode.enc = false ∧ w.pending = [] ∧ iv.length = blockSize
  | _ => True

def ModesOK : WState → List ModeOp → Prop
  | _, [] => True
  | w, m :: ms => ModeOK w m ∧ ModesOK (wMode w m) ms

def StepsOK : WState → List Step → Prop
  | _, [] => True
  | w, s :: ss =>
    ModesOK w s.modes ∧ PktOK ⟨w.n, (wModes w s.modes).mode⟩ s.tip s.body ∧ StepsOK (wStep e w s) ss

/-! ### writer: spec functions = model functions -/

theorem wMode_n (w : WState) (m : ModeOp) : (wMode w m).n = w.n := by cases m <;> rfl
theorem wModes_n (w : WState) (ms : List ModeOp) : (wModes w ms).n = w.n := by
  induction ms generalizing w with
  | nil => rfl
  | cons m ms ih => simp only [wModes, List.foldl_cons] at ih ⊢; rw [ih, wMode_n]

theorem wMode_L (w : WState) (m : ModeOp) : (wMode w m).L = w.L := by cases m <;> rfl
theorem wModes_L (w : WState) (ms : List ModeOp) : (wModes w ms).L = w.L := by
  induction ms generalizing w with
  | nil => rfl
  | cons m ms ih => simp only [wModes, List.foldl_cons] at ih ⊢; rw [ih, wMode_L]

theorem wMode_pending (w : WState) (m : ModeOp) : (wMode w m).pending = w.pending := by cases m <;> rfl
theorem wMode_out (w : WState) (m : ModeOp) : (wMode w m).out = w.out := by cases m <;> rfl

theorem wApplyMode_ok (w : WState) (m : ModeOp) (h : ModeOK w m) : wApplyMode w m = some (wMode w m) := by
  cases m with
  | setProto v => rfl
  | setCrcC => rfl
  | encrypt k iv => simp only [wApplyMode, h.1, Bool.false_eq_true, if_false]; rfl

theorem EInv_wMode (w : WState) (m : ModeOp) (h : ModeOK w m) (hi : EInv w) : EInv (wMode w m) := by
  cases m with
  | setProto v => exact hi
  | setCrcC => exact hi
  | encrypt k iv =>
    intro _
    simp only [wMode, wEncrypt, h.2.1, List.length_nil]
    omega

theorem runW_append (a b : List Op) (w : WState) :
    runW e (a ++ b) w = match runW e a w with | none => none | some w1 => runW e b w1 := by
  induction a generalizing w with
  | nil => rfl
  | cons op a ih =>
    simp only [List.cons_append, runW]
    cases stepW e w op <;> simp only [ih]

theorem runW_modes (w : WState) (ms : List ModeOp) (h : ModesOK w ms) :
    runW e (ms.map .mode) w = some (wModes w ms) := by
  induction ms generalizing w with
  | nil => rfl
  | cons m ms ih =>
    simp only [List.map_cons, runW, stepW, wApplyMode_ok w m h.1, wModes, List.foldl_cons]
    exact ih _ h.2

theorem EInv_wModes (w : WState) (ms : List ModeOp) (h : ModesOK w ms) (hi : EInv w) : EInv (wModes w ms) := by
  induction ms generalizing w with
  | nil => exact hi
  | cons m ms ih => exact ih _ h.2 (EInv_wMode w m h.1 hi)

theorem writeNoFlush_ok (w : WState) (tip : Nat) (body : Bytes)
    (h1 : body.length ≤ maxPacketLen - packetOverhead) (h2 : w.mode.proto = 0 → body.length % 4 = 0) :
    writeNoFlush e w tip body = .ok (wWrite e w tip body) := by
  unfold writeNoFlush checkBodyLen
  rw [if_neg (by omega), if_neg (by intro ⟨a, b⟩; exact b (h2 a))]
  rfl

theorem wWrite_L (w : WState) (tip : Nat) (body : Bytes) :
    (wWrite e w tip body).L = w.L ++ frame e w.mode w.n tip body := by
  simp [WState.L, wWrite, frame, List.append_assoc]

theorem align_mod (m : Mode) (l : Nat) (h : m.enc = true) : (l + alignOf m l) % 4 = 0 := by
  unfold alignOf; rw [if_pos h]; omega

theorem EInv_wWrite (w : WState) (tip : Nat) (body : Bytes) (hi : EInv w) : EInv (wWrite e w tip body) := by
  intro he
  have he' : w.mode.enc = true := he
  obtain ⟨h1, h2⟩ := hi he'
  have ha := align_mod w.mode body.length he'
  simp only [wWrite, List.length_append, header_length, le32_length, zeros, List.length_replicate]
  constructor
  · omega
  · omega

theorem padOf_bound (w : WState) (hi : EInv w) : padOf w ≤ 12 ∧ padOf w % 4 = 0 := by
  have hb := block_eq
  unfold padOf cryptoPadding
  split
  · rename_i he
    obtain ⟨_, h2⟩ := hi he
    rw [hb]
    omega
  · omega

theorem take_padPattern (p : Nat) (h1 : p ≤ 12) (h2 : p % 4 = 0) : padPattern.take p = padWords (p / 4) := by
  have : p = 0 ∨ p = 4 ∨ p = 8 ∨ p = 12 := by omega
  rcases this with h | h | h | h <;> subst h <;> rfl

theorem flush_ok (w : WState) (hi : EInv w) : flush w = some (wFlush w) := by
  have := padOf_bound w hi
  unfold flush
  have hl : padPattern.length = 12 := rfl
  simp only [hl]
  rw [if_neg (by unfold padOf at this; omega)]
  rfl

theorem wFlush_L (w : WState) (hi : EInv w) : (wFlush w).L = w.L ++ padWords (padOf w / 4) := by
  have := padOf_bound w hi
  simp [WState.L, wFlush, take_padPattern _ this.1 this.2, List.append_assoc]

theorem EInv_wFlush (w : WState) (hi : EInv w) : EInv (wFlush w) := by
  intro he
  have he' : w.mode.enc = true := he
  obtain ⟨h1, h2⟩ := hi he'
  have hb := block_eq
  have hp := padOf_bound w hi
  have hlen : (padPattern.take (padOf w)).length = padOf w := by
    rw [List.length_take]; have : padPattern.length = 12 := rfl; omega
  simp only [wFlush, List.length_append, hlen, List.length_nil]
  constructor
  · omega
  · omega

/-- after a flush the encrypted stream is block aligned -/
theorem wFlush_aligned (w : WState) (hi : EInv w) (he : w.mode.enc = true) :
    ((wFlush w).out.length - (wFlush w).encStart + (wFlush w).pending.length) % blockSize = 0 := by
  obtain ⟨h1, h2⟩ := hi he
  have hb := block_eq
  have hp := padOf_bound w hi
  have hlen : (padPattern.take (padOf w)).length = padOf w := by
    rw [List.length_take]; have : padPattern.length = 12 := rfl; omega
  simp only [wFlush, List.length_append, hlen, List.length_nil]
  have : padOf w = (blockSize - (w.out.length - w.encStart + w.pending.length) % blockSize) % blockSize := by
    unfold padOf cryptoPadding; rw [if_pos he]
  rw [hb] at this ⊢
  omega

theorem wFlush_idem (w : WState) (hi : EInv w) : wFlush (wFlush w) = wFlush w := by
  have h0 : padOf (wFlush w) = 0 := by
    have hb := block_eq
    unfold padOf cryptoPadding
    split
    · rename_i he
      have := wFlush_aligned w hi he
      rw [hb] at this ⊢
      omega
    · rfl
  unfold wFlush at h0 ⊢
  simp only at h0 ⊢
  rw [h0]
  simp

theorem runW_flushes (w : WState) (k : Nat) (hi : EInv w) :
    runW e (List.replicate k .flush) (wFlush w) = some (wFlush w) := by
  induction k with
  | zero => rfl
  | succ k ih =>
    simp only [List.replicate_succ, runW, stepW]
    rw [flush_ok _ (EInv_wFlush w hi), wFlush_idem w hi]
    exact ih

theorem runW_step (w : WState) (s : Step) (hm : ModesOK w s.modes)
    (hp : PktOK ⟨w.n, (wModes w s.modes).mode⟩ s.tip s.body) (hi : EInv w) :
    runW e s.ops w = some (wStep e w s) := by
  unfold Step.ops
  rw [runW_append, runW_modes e w s.modes hm]
  simp only [runW, stepW]
  have hi1 := EInv_wModes w s.modes hm hi
  rw [writeNoFlush_ok e _ _ _ hp.1 hp.2.2.1]
  have hi2 := EInv_wWrite e _ s.tip s.body hi1
  simp only
  unfold wStep Step.flushes
  cases hf : s.flush with
  | true =>
    simp only [if_true, Bool.true_or]
    rw [flush_ok _ hi2]
    simp only
    exact runW_flushes e _ _ hi2
  | false =>
    simp only [Bool.false_eq_true, if_false, Bool.false_or]
    cases hx : s.extra with
    | zero => simp [runW]
    | succ k =>
      simp only [List.replicate_succ, runW, stepW]
      rw [flush_ok _ hi2]
      simp only [Nat.zero_lt_succ, decide_true, if_true]
      exact runW_flushes e _ _ hi2

theorem EInv_wStep (w : WState) (s : Step) (hm : ModesOK w s.modes) (hi : EInv w) : EInv (wStep e w s) := by
  have hi2 := EInv_wWrite e _ s.tip s.body (EInv_wModes w s.modes hm hi)
  unfold wStep
  split
  · exact EInv_wFlush _ hi2
  · exact hi2

theorem wStep_L (w : WState) (s : Step) (hm : ModesOK w s.modes) (hi : EInv w) :
    (wStep e w s).L = w.L ++ stepBytes e w s := by
  have hi2 := EInv_wWrite e _ s.tip s.body (EInv_wModes w s.modes hm hi)
  unfold wStep stepBytes jStep
  split
  · rw [wFlush_L _ hi2, wWrite_L, wModes_L, wModes_n, List.append_assoc]
  · rw [wWrite_L, wModes_L, wModes_n]; simp [padWords]

theorem runW_steps (w : WState) (ss : List Step) (hok : StepsOK e w ss) (hi : EInv w) :
    runW e (flat ss) w = some (wSteps e w ss) ∧ (wSteps e w ss).L = w.L ++ stepsBytes e w ss ∧ EInv (wSteps e w ss) := by
  induction ss generalizing w with
  | nil => simp [flat, runW, wSteps, stepsBytes, hi]
  | cons s ss ih =>
    obtain ⟨hm, hp, hrest⟩ := hok
    have hi' := EInv_wStep e w s hm hi
    obtain ⟨h1, h2, h3⟩ := ih (wStep e w s) hrest hi'
    refine ⟨?_, ?_, h3⟩
    · simp only [flat, List.flatMap_cons] at h1 ⊢
      rw [runW_append, runW_step e w s hm hp hi]
      exact h1
    · simp only [wSteps, stepsBytes]
      rw [h2, wStep_L e w s hm hi, List.append_assoc]

end TLVerif.Packet
