import TLVerif.Util.Hex
import TLVerif.Packet.Reader
import TLVerif.Packet.Crc
import TLVerif.Packet.Aes
/-!
Line-protocol handler of the `packet` family.  One line = one whole connection history:

`packet.conn <n0>:<proto>:<crcC> <script> <chunks> <corrupt> <rbuf> <wbuf>`

* `<n0>:<proto>:<crcC>` — injected initial state of both ends (packets already exchanged, protocol version, CRC table);
* `<script>` — `,`-separated writer-side history: `w:<type>:<body>` WritePacket, `n:<type>:<body>` WritePacketNoFlush,
  `2:<type>:<b1>:<b2>` WritePacket2, `f` Flush, `v<k>` set protocol version, `c` switch to CRC32-C,
  `e:<key>:<iv>` turn AES-CBC on (both ends; same key/iv for both directions); a final Flush is implied;
  the mode changes are applied by the reader when it has read as many packets as the writer had written;
* `<chunks>` — sizes (cycled) in which the wire bytes are delivered to the reader;
* `<corrupt>` — `-`, `x<offset>:<xor>` (one wire byte changed) or `t<len>` (wire truncated);
* `<rbuf> <wbuf>` — buffer sizes of the implementation (the model is independent of them).

Result: `wire=<hex> w=<failed writes> r=<packets read…,e:<final error>> pong=<bytes the reader wrote back>`.
-/
namespace TLVerif.Packet
open TLVerif.Util TLVerif.Facts.Packet

/-- the executable environment: bitwise CRC-32 with both polynomials, AES-256 -/
def realEnv : Env where
  crcI := crc32 polyIEEE
  crcC := crc32 polyCastagnoli
  enc k b := Aes.encBlock (Aes.expand k) b
  dec k b := Aes.decBlock (Aes.expand k) b

inductive SOp where
  | write (flush : Bool) (tip : Nat) (body : Bytes)
  | flush
  | mode (m : ModeOp)

def hexNat? (s : String) : Option Nat :=
  s.toList.foldl (fun acc c => match acc, hexVal c with
    | some a, some d => some (a * 16 + d)
    | _, _ => none) (some 0)

def parseSOp (s : String) : Option SOp :=
  match s.splitOn ":" with
  | ["w", t, b] => match hexNat? t, bytesOfHex b with
    | some t, some b => some (.write true t b) | _, _ => none
  | ["n", t, b] => match hexNat? t, bytesOfHex b with
    | some t, some b => some (.write false t b) | _, _ => none
  | ["2", t, b1, b2] => match hexNat? t, bytesOfHex b1, bytesOfHex b2 with
    | some t, some b1, some b2 => some (.write true t (b1 ++ b2)) | _, _, _ => none
  | ["f"] => some .flush
  | ["c"] => some (.mode .setCrcC)
  | ["e", k, iv] => match bytesOfHex k, bytesOfHex iv with
    | some k, some iv => if k.length = 32 ∧ iv.length = 16 then some (.mode (.encrypt k iv)) else none
    | _, _ => none
  | [v] => if v.startsWith "v" then (v.drop 1).toString.toNat?.map (fun k => .mode (.setProto k)) else none
  | _ => none

def parseAll {α β : Type} (f : α → Option β) : List α → Option (List β)
  | [] => some []
  | a :: as => match f a, parseAll f as with
    | some b, some bs => some (b :: bs)
    | _, _ => none

def wApplyMode (w : WState) : ModeOp → WState
  | .setProto v => { w with mode := { w.mode with proto := v } }
  | .setCrcC => { w with mode := { w.mode with crcC := true } }
  | .encrypt k iv => wEncrypt w k iv

structure WRun where
  w : WState
  errs : List String := []             -- failed write ops `<index>:<err>`
  sched : List (Nat × ModeOp) := []     -- (packets written before the op, op)
  dead : Bool := false                 -- flush beyond the model (never happens)

def WErr.name : WErr → String
  | .tooLarge => "large" | .size4 => "size4"

def runWriter (e : Env) : List SOp → Nat → WRun → WRun
  | [], _, r => r
  | op :: ops, i, r =>
    let r1 : WRun := match op with
      | .write fl tip body =>
        match writeNoFlush e r.w tip body with
        | .error er => { r with errs := r.errs ++ [s!"{i}:{er.name}"] }
        | .ok w1 =>
          if fl then match flush w1 with
            | none => { r with w := w1, dead := true }
            | some w2 => { r with w := w2 }
          else { r with w := w1 }
      | .flush => match flush r.w with
        | none => { r with dead := true }
        | some w2 => { r with w := w2 }
      | .mode m => { r with w := wApplyMode r.w m, sched := r.sched ++ [(r.w.n, m)] }
    runWriter e ops (i + 1) r1

def schedOf (l : List (Nat × ModeOp)) (k : Nat) : List ModeOp := (l.filter (·.1 == k)).map (·.2)

def chunkBy : Nat → List Nat → List Nat → Bytes → List Bytes
  | 0, _, _, _ => []
  | _ + 1, _, _, [] => []
  | fuel + 1, all, [], bs => match all with
    | [] => [bs]
    | _ => chunkBy fuel all all bs
  | fuel + 1, all, c :: cs, bs => bs.take c :: chunkBy fuel all cs (bs.drop c)

def corrupt (c : String) (wire : Bytes) : Option Bytes :=
  if c == "-" then some wire
  else if c.startsWith "t" then (c.drop 1).toString.toNat?.map (fun n => wire.take n)
  else if c.startsWith "x" then
    match (c.drop 1).toString.splitOn ":" with
    | [o, x] => match o.toNat?, hexNat? x with
      | some o, some x => some (wire.take o ++ (match wire.drop o with
          | [] => []
          | b :: t => (b ^^^ UInt8.ofNat x) :: t))
      | _, _ => none
    | _ => none
  else none

def tipHex (t : Nat) : String :=
  String.ofList ((List.range 8).reverse.map fun i => hexDigit ((t / 16 ^ i) % 16))

def evStr : Ev → String
  | .packet t b => s!"p:{tipHex t}:{hexOfBytes b}"
  | .ping id => s!"g:{hexOfBytes id}"

/-- the pong packets the reading end writes back (`ReadPacket` → `WritePacketBuiltin`) -/
def pongs (e : Env) (sched : Nat → List ModeOp) : List Ev → Nat → WState → WState
  | [], _, w => w
  | ev :: evs, n, w =>
    let w1 := match ev with
      | .ping id => match writeNoFlush e w rpcPongTag id with
        | .error _ => w
        | .ok w1 => (flush w1).getD w1
      | _ => w
    pongs e sched evs (n + 1) ((sched (n + 1)).foldl wApplyMode w1)

def conn (st script chunks cor : String) : String :=
  match st.splitOn ":" with
  | [n0, pr, cc] =>
    match n0.toNat?, pr.toNat?, cc.toNat?, parseAll parseSOp (if script == "-" then [] else script.splitOn ","),
          parseAll String.toNat? (chunks.splitOn ",") with
    | some n0, some pr, some cc, some ops, some sizes =>
      if sizes.any (· == 0) then "bad-op" else
      let e := realEnv
      let mode : Mode := { proto := pr, crcC := cc != 0, enc := false }
      let wr := runWriter e ops 0 { w := { n := n0, mode := mode } }
      match flush wr.w with
      | none => "beyond-model"
      | some wf =>
        if wr.dead then "beyond-model" else
        let wire := wf.wire e
        match corrupt cor wire with
        | none => "bad-op"
        | some wire' =>
          let sched := schedOf wr.sched
          let cs := chunkBy (2 * wire'.length + 2) sizes sizes wire'
          let src0 : CSrc := { chunks := cs }
          let r0 := applyModeOps (chunkSrc e) { n := n0, mode := mode } src0 (sched n0)
          let res := readAll (chunkSrc e) e sched (wire'.length + 2) r0.1 r0.2
          let pw := pongs e sched res.1 n0 ((sched n0).foldl wApplyMode { n := n0, mode := mode })
          let evs := (res.1.filter (fun ev => match ev with | .packet _ _ => true | _ => false)).map evStr ++ [match res.2 with | some er => "e:" ++ er.name | none => "e:fuel"]
          let werrs := if wr.errs.isEmpty then "-" else ",".intercalate wr.errs
          s!"wire={hexOfBytes wire} w={werrs} r={",".intercalate evs} pong={hexOfBytes (pw.wire e)}"
    | _, _, _, _, _ => "bad-op"
  | _ => "bad-op"

def handle (op : String) (args : List String) : String :=
  match op, args with
  | "conn", [st, script, chunks, cor, _rb, _wb] => conn st script chunks cor
  | _, _ => "bad-op"

end TLVerif.Packet
