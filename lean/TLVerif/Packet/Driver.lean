import TLVerif.Util.Hex
import TLVerif.Packet.Script
import TLVerif.Packet.RealEnv
/-!
Line-protocol handler of the `packet` family.  One line = one whole connection history:

`packet.conn <n0>:<proto>:<crcC> <script> <chunks> <corrupt> <rbuf> <wbuf>`

* `<n0>:<proto>:<crcC>` — injected initial state of both ends (packets already exchanged, protocol version, CRC table);
* `<script>` — `,`-separated writer-side history: `w:<type>:<body>` WritePacket, `n:<type>:<body>` WritePacketNoFlush,
  `2:<type>:<b1>:<b2>` WritePacket2, `f` Flush, `v<k>` set protocol version, `c` switch to CRC32-C,
  `e:<key>:<iv>` turn AES-CBC on (both ends; same key/iv for both directions); a final Flush is implied;
  the mode changes are applied by the reader when it has read as many packets as the writer had written;
* `<chunks>` — sizes (cycled) in which the wire bytes are delivered to the reader;
* `<corrupt>` — `-`, `x<offset>:<xor>` (one wire byte changed) or `t<len>` (wire truncated);
* `<rbuf> <wbuf>` — buffer sizes of the implementation (the model is independent of them).

`packet.read <n0>:<proto>:<crcC> <mode ops> <stream> <chunks> <rbuf> <claim>` (reader only; `<claim>` is for the oracle),
`packet.wlen <proto> <len>`, `packet.hs <seed> <enc> <proto> <client packets> <server packets> <chunk> <corrupt>`.

Result: `ok wire=<hex> w=<failed writes> r=<packets read…,e:<final error>> pong=<bytes the reader wrote back>`.
-/
namespace TLVerif.Packet
open TLVerif.Util TLVerif.Facts.Packet

def hexNat? (s : String) : Option Nat :=
  s.toList.foldl (fun acc c => match acc, hexVal c with
    | some a, some d => some (a * 16 + d)
    | _, _ => none) (some 0)

def parseSOp (s : String) : Option Op :=
  match s.splitOn ":" with
  | ["w", t, b] => match hexNat? t, bytesOfHex b with
    | some t, some b => some (.write true t b) | _, _ => none
  | ["n", t, b] => match hexNat? t, bytesOfHex b with
    | some t, some b => some (.write false t b) | _, _ => none
  | ["2", t, b1, b2] => match hexNat? t, bytesOfHex b1, bytesOfHex b2 with
    | some t, some b1, some b2 => some (.write true t (b1 ++ b2)) | _, _, _ => none
  | ["r", b] => (bytesOfHex b).map .raw
  | ["f"] => some .flush
  | ["c"] => some (.mode .setCrcC)
  | ["e", k, iv] => match bytesOfHex k, bytesOfHex iv with
    | some k, some iv => if k.length = 32 ∧ iv.length = 16 then some (.mode (.encrypt k iv)) else none
    | _, _ => none
  | [v] => if v.startsWith "v" then (v.drop 1).toString.toNat?.map (fun k => .mode (.setProto k)) else none
  | _ => none

def parseAll {α β : Type} (f : α → Option β) : List α → Option (List β)
  | [] => some []
  | a :: as => match f a, parseAll f as with
    | some b, some bs => some (b :: bs)
    | _, _ => none

def WErr.name : WErr → String
  | .tooLarge => "large" | .size4 => "size4"

/-- indices and kinds of the failed writes (the model of the run itself is `runW`) -/
def writeErrs (e : Env) : List Op → Nat → WState → List String
  | [], _, _ => []
  | op :: ops, i, w =>
    match stepW e w op with
    | .ok w1 => writeErrs e ops (i + 1) w1
    | .werr er => s!"{i}:{er.name}" :: writeErrs e ops (i + 1) w
    | .dead => []

def chunkBy : Nat → List Nat → List Nat → Bytes → List Bytes
  | 0, _, _, _ => []
  | _ + 1, _, _, [] => []
  | fuel + 1, all, [], bs => match all with
    | [] => [bs]
    | _ => chunkBy fuel all all bs
  | fuel + 1, all, c :: cs, bs => bs.take c :: chunkBy fuel all cs (bs.drop c)

def corrupt (c : String) (wire : Bytes) : Option Bytes :=
  if c == "-" then some wire
  else if c.startsWith "t" then (c.drop 1).toString.toNat?.map (fun n => wire.take n)
  else if c.startsWith "x" then
    match (c.drop 1).toString.splitOn ":" with
    | [o, x] => match o.toNat?, hexNat? x with
      | some o, some x => some (wire.take o ++ (match wire.drop o with
          | [] => []
          | b :: t => (b ^^^ UInt8.ofNat x) :: t))
      | _, _ => none
    | _ => none
  else none

def tipHex (t : Nat) : String :=
  String.ofList ((List.range 8).reverse.map fun i => hexDigit ((t / 16 ^ i) % 16))

def evStr : Ev → String
  | .packet t b => s!"p:{tipHex t}:{hexOfBytes b}"
  | .ping id => s!"g:{hexOfBytes id}"

/-- the pong packets the reading end writes back (`ReadPacket` → `WritePacketBuiltin`): its own writer, subject
to the same scheduled mode changes -/
def pongs (e : Env) (sched : Nat → List ModeOp) : List Ev → Nat → WState → WState
  | [], _, w => w
  | ev :: evs, n, w =>
    let w0 := (sched n).foldl (fun w m => (wApplyMode w m).getD w) w
    let w1 := match ev with
      | .ping id => match writeNoFlush e w0 rpcPongTag id with
        | .error _ => w0
        | .ok w1 => (flush w1).getD w1
      | _ => w0
    pongs e sched evs (n + 1) w1

def showRes (e : Env) (sched : Nat → List ModeOp) (n0 : Nat) (mode : Mode) (res : List Ev × Option RErr) : String :=
  let pw := pongs e sched res.1 n0 { n := n0, mode := mode }
  let evs := (res.1.filter (fun ev => match ev with | .packet _ _ => true | _ => false)).map evStr ++
    [match res.2 with | some er => "e:" ++ er.name | none => "e:fuel"]
  s!"r={",".intercalate evs} pong={hexOfBytes (pw.wire e)}"

def parseStart (st : String) : Option (Nat × Mode) :=
  match st.splitOn ":" with
  | [n0, pr, cc] => match n0.toNat?, pr.toNat?, cc.toNat? with
    | some n0, some pr, some cc => some (n0, { proto := pr, crcC := cc != 0, enc := false })
    | _, _, _ => none
  | _ => none

def conn (st script chunks cor : String) : String :=
  match parseStart st, parseAll parseSOp (if script == "-" then [] else script.splitOn ","),
        parseAll String.toNat? (chunks.splitOn ",") with
  | some (n0, mode), some ops, some sizes =>
    if sizes.any (· == 0) then "bad-op" else
    let e := realEnv
    let w0 : WState := { n := n0, mode := mode }
    match finalW e ops w0 with
    | none => "beyond-model"
    | some wf =>
      let wire := wf.wire e
      match corrupt cor wire with
      | none => "bad-op"
      | some wire' =>
        let sched := schedOfOps e ops w0
        let cs := chunkBy (2 * wire'.length + 2) sizes sizes wire'
        let res := readLoop (chunkSrc e) e sched (wire'.length + 2) { n := n0, mode := mode } { chunks := cs }
        let errs := writeErrs e ops 0 w0
        let werrs := if errs.isEmpty then "-" else ",".intercalate errs
        s!"ok wire={hexOfBytes wire} w={werrs} {showRes e sched n0 mode res}"
  | _, _, _ => "bad-op"

/-- reader only, on an arbitrary stream: `<n0>:<proto>:<crcC> <mode ops|-> <stream> <chunks>` -/
def readOnly (st modes stream chunks : String) : String :=
  match parseStart st, parseAll parseSOp (if modes == "-" then [] else modes.splitOn ","), bytesOfHex stream,
        parseAll String.toNat? (chunks.splitOn ",") with
  | some (n0, mode), some ops, some wire, some sizes =>
    if sizes.any (· == 0) then "bad-op" else
    let e := realEnv
    let ms := ops.filterMap (fun o => match o with | .mode m => some m | _ => none)
    if ms.length ≠ ops.length then "bad-op" else
    let sched := fun k => if k = n0 then ms else []
    let cs := chunkBy (2 * wire.length + 2) sizes sizes wire
    let res := readLoop (chunkSrc e) e sched (wire.length + 2) { n := n0, mode := mode } { chunks := cs }
    "ok " ++ showRes e sched n0 mode res
  | _, _, _, _ => "bad-op"

/-- `WritePacketHeaderUnlocked` length validation -/
def wlen (proto len : String) : String :=
  match proto.toNat?, len.toNat? with
  | some p, some l =>
    match checkBodyLen { proto := p } l with
    | some er => "err " ++ er.name
    | none => "ok"
  | _, _ => "bad-op"

/-- packets of one direction after the real handshake: `<type>:<body>,…` -/
def parsePkts (s : String) : Option (List (Nat × Bytes)) :=
  if s == "-" then some [] else
  parseAll (fun x => match x.splitOn ":" with
    | [t, b] => match hexNat? t, bytesOfHex b with
      | some t, some b => some (t, b)
      | _, _ => none
    | _ => none) (s.splitOn ",")

/-- one direction after the handshake: every packet with `WritePacket` until the first refused one; then the
plaintext stream, the index of the refused write, and what the peer reads from it -/
def hsDir (e : Env) (mode : Mode) (ps : List (Nat × Bytes)) : String × String × String :=
  let w0 : WState := { n := 2, mode := mode, cipher := if mode.enc then some ([], []) else none }
  let rec go (i : Nat) (w : WState) : List (Nat × Bytes) → WState × String
    | [] => (w, "-")
    | (t, b) :: rest =>
      match stepW e w (.write true t b) with
      | .ok w1 => go (i + 1) w1 rest
      | .werr er => (w, s!"{i}:{er.name}")
      | .dead => (w, s!"{i}:dead")
  let r := go 0 w0 ps
  let plain := r.1.out
  let res := readLoop (pureSrc e) e (fun _ => []) (plain.length + 2) { n := 2, mode := mode } plain
  let evs := (res.1.filter (fun ev => match ev with | .packet _ _ => true | _ => false)).map evStr ++
    [match res.2 with | some er => "e:" ++ er.name | none => "e:fuel"]
  (hexOfBytes plain, r.2, ",".intercalate evs)

/-- the connection after the real `HandshakeClient`/`HandshakeServer`: negotiated modes and both directions -/
def hsOp (enc proto cpk spk cor : String) : String :=
  match proto.toNat?, parsePkts cpk, parsePkts spk with
  | some pr, some cp, some sp =>
    if enc != "0" && enc != "1" then "bad-op" else
    let mode : Mode := { proto := min pr 2, crcC := true, enc := enc == "1" }
    let head := s!"ok enc={enc} proto={mode.proto} crcc=1"
    if cor != "-" then head ++ " corrupted" else
    let c := hsDir realEnv mode cp
    let s := hsDir realEnv mode sp
    s!"{head} c2s={c.1} s2c={s.1} cw={c.2.1} sw={s.2.1} sr={c.2.2} cr={s.2.2}"
  | _, _, _ => "bad-op"

def handle (op : String) (args : List String) : String :=
  match op, args with
  | "conn", [st, script, chunks, cor, _rb, _wb] => conn st script chunks cor
  | "read", [st, modes, stream, chunks, _rb, _claim] => readOnly st modes stream chunks
  | "read", [st, modes, stream, chunks, _rb] => readOnly st modes stream chunks
  | "wlen", [p, l] => wlen p l
  | "hs", [_seed, enc, proto, cpk, spk, _chunk, cor] => hsOp enc proto cpk spk cor
  | _, _ => "bad-op"

end TLVerif.Packet
