import TLVerif.Packet.RealEnv
import TLVerif.Packet.AcceptLemmas
/-!
The executable bitwise CRC-32 of `Crc.lean` (both polynomials) satisfies the hypothesis `Env.CrcDetects`:
one step of the shift register is injective because the reflected polynomial has its top bit set, hence a byte
step is injective in the state and in the byte, hence a changed byte changes the final register.
So for the driver's environment `realEnv` the corruption theorem holds without any hypothesis on the checksum.
-/
namespace TLVerif.Packet

theorem crcBit_bv (poly c : UInt32) :
    (crcBit poly c).toBitVec = if c.toBitVec.getLsbD 0 then (c.toBitVec >>> 1) ^^^ poly.toBitVec else c.toBitVec >>> 1 := by
  unfold crcBit
  have h1 : (c &&& 1 = 1) ↔ c.toBitVec.getLsbD 0 = true := by
    rw [← UInt32.toBitVec_inj]
    simp only [UInt32.toBitVec_and]
    constructor
    · intro h
      have := congrArg (fun v => BitVec.getLsbD v 0) h
      simpa using this
    · intro h
      apply BitVec.eq_of_getLsbD_eq
      intro i hi
      simp only [BitVec.getLsbD_and]
      by_cases h0 : i = 0
      · subst h0; simp [h]
      · simp [h0]
  by_cases h : c &&& 1 = 1
  · rw [if_pos h, if_pos (h1.mp h)]; simp
  · rw [if_neg h, if_neg (fun hh => h (h1.mpr hh))]; simp

/-- bit `i` of one CRC step -/
theorem crcBit_getLsbD (poly c : UInt32) (i : Nat) (hi : i < 32) :
    (crcBit poly c).toBitVec.getLsbD i =
      ((if i = 31 then false else c.toBitVec.getLsbD (i + 1)) ^^ (c.toBitVec.getLsbD 0 && poly.toBitVec.getLsbD i)) := by
  rw [crcBit_bv]
  have hsh : (c.toBitVec >>> 1).getLsbD i = (if i = 31 then false else c.toBitVec.getLsbD (i + 1)) := by
    rw [BitVec.getLsbD_ushiftRight]
    by_cases h31 : i = 31
    · subst h31; simp
    · rw [if_neg h31, Nat.add_comm]
  cases hc : c.toBitVec.getLsbD 0 with
  | true =>
    rw [if_pos rfl, BitVec.getLsbD_xor, hsh, Bool.true_and]
  | false =>
    rw [if_neg (by simp), hsh, Bool.false_and, Bool.xor_false]

theorem crcBit_inj (poly : UInt32) (hp : poly.toBitVec.getLsbD 31 = true) (a b : UInt32)
    (h : crcBit poly a = crcBit poly b) : a = b := by
  have hb : ∀ i, i < 32 → (crcBit poly a).toBitVec.getLsbD i = (crcBit poly b).toBitVec.getLsbD i := by
    intro i _; rw [h]
  have h0 : a.toBitVec.getLsbD 0 = b.toBitVec.getLsbD 0 := by
    have := hb 31 (by omega)
    rw [crcBit_getLsbD _ _ _ (by omega), crcBit_getLsbD _ _ _ (by omega), hp, if_pos rfl, Bool.and_true, Bool.and_true,
      Bool.false_xor, if_pos rfl, Bool.false_xor] at this
    exact this
  apply UInt32.toBitVec_inj.mp
  apply BitVec.eq_of_getLsbD_eq
  intro i hi
  cases i with
  | zero => exact h0
  | succ j =>
    have := hb j (by omega)
    rw [crcBit_getLsbD _ _ _ (by omega), crcBit_getLsbD _ _ _ (by omega)] at this
    rw [if_neg (by omega), if_neg (by omega), h0] at this
    generalize a.toBitVec.getLsbD (j + 1) = x at this ⊢
    generalize b.toBitVec.getLsbD (j + 1) = y at this ⊢
    generalize (b.toBitVec.getLsbD 0 && poly.toBitVec.getLsbD j) = z at this
    cases x <;> cases y <;> cases z <;> simp_all

theorem u32_xor_left_cancel (a b c : UInt32) (h : a ^^^ b = a ^^^ c) : b = c := by
  have : a ^^^ (a ^^^ b) = a ^^^ (a ^^^ c) := by rw [h]
  simpa [← UInt32.xor_assoc] using this

theorem u32_xor_right_cancel (a b c : UInt32) (h : b ^^^ a = c ^^^ a) : b = c := by
  rw [UInt32.xor_comm b a, UInt32.xor_comm c a] at h
  exact u32_xor_left_cancel a b c h

theorem toUInt32_inj (x y : UInt8) (h : x.toUInt32 = y.toUInt32) : x = y := by
  have := congrArg UInt32.toNat h
  simp only [UInt8.toNat_toUInt32] at this
  exact UInt8.toNat_inj.mp this

theorem crcByte_inj_state (poly : UInt32) (hp : poly.toBitVec.getLsbD 31 = true) (b : UInt8) (c1 c2 : UInt32)
    (h : crcByte poly c1 b = crcByte poly c2 b) : c1 = c2 := by
  unfold crcByte at h
  have i := crcBit_inj poly hp
  exact u32_xor_right_cancel _ _ _ (i _ _ (i _ _ (i _ _ (i _ _ (i _ _ (i _ _ (i _ _ (i _ _ h))))))))

theorem crcByte_inj_byte (poly : UInt32) (hp : poly.toBitVec.getLsbD 31 = true) (c : UInt32) (x y : UInt8)
    (h : crcByte poly c x = crcByte poly c y) : x = y := by
  unfold crcByte at h
  have i := crcBit_inj poly hp
  exact toUInt32_inj _ _ (u32_xor_left_cancel _ _ _ (i _ _ (i _ _ (i _ _ (i _ _ (i _ _ (i _ _ (i _ _ (i _ _ h)))))))))

theorem crcRaw_inj (poly : UInt32) (hp : poly.toBitVec.getLsbD 31 = true) (B : Bytes) (c1 c2 : UInt32)
    (h : crcRaw poly c1 B = crcRaw poly c2 B) : c1 = c2 := by
  induction B generalizing c1 c2 with
  | nil => exact h
  | cons b B ih =>
    simp only [crcRaw, List.foldl_cons] at h ih
    exact crcByte_inj_state poly hp b _ _ (ih _ _ h)

/-- the executable CRC-32 detects every single-byte change -/
theorem crc32_flip (poly : UInt32) (hp : poly.toBitVec.getLsbD 31 = true) (X : Bytes) (i : Nat) (y : UInt8)
    (h : i < X.length) (hy : y ≠ X[i]) : crc32 poly (X.set i y) ≠ crc32 poly X := by
  intro heq
  have hX : X = X.take i ++ X[i] :: X.drop (i + 1) := by
    rw [List.getElem_cons_drop h, List.take_append_drop]
  have hX' : X.set i y = X.take i ++ y :: X.drop (i + 1) := List.set_eq_take_append_cons_drop .. |>.trans (by simp [h])
  unfold crc32 at heq
  have hr := u32_xor_right_cancel _ _ _ heq
  rw [hX'] at hr
  conv at hr => rhs; rw [hX]
  simp only [crcRaw, List.foldl_append, List.foldl_cons] at hr
  have := crcRaw_inj poly hp (X.drop (i + 1)) _ _ hr
  exact hy (crcByte_inj_byte poly hp _ _ _ this)

theorem polyIEEE_top : polyIEEE.toBitVec.getLsbD 31 = true := by decide
theorem polyC_top : polyCastagnoli.toBitVec.getLsbD 31 = true := by decide

/-- the driver's environment satisfies the checksum hypothesis of `corrupt_detected_partial` -/
theorem real_crc_detects : realEnv.CrcDetects where
  flip m X i y h hy := by
    unfold Env.crc realEnv
    intro heq
    cases hm : m.crcC <;> simp only [hm, Bool.false_eq_true, if_false, if_true] at heq
    · exact crc32_flip polyIEEE polyIEEE_top X i y h hy (UInt32.toNat_inj.mp heq)
    · exact crc32_flip polyCastagnoli polyC_top X i y h hy (UInt32.toNat_inj.mp heq)

end TLVerif.Packet
