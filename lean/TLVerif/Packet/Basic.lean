import TLVerif.Generated.PacketFacts
/-!
Model of the framing layer of `pkg/rpc/packetconn.go` (writer half) and of the byte-level helpers.

* byte strings are `List UInt8`; 32-bit words are `Nat` (always reduced `% 2^32` when serialised);
* `pc.writeSeqNum`/`pc.readSeqNum` (int64, starting at `startSeqNum`) are modelled by the *count* `n` of
  packets written/read so far: the Go value is `n + startSeqNum`, the word on the wire `uint32(n + startSeqNum)`;
* the two CRC tables (`crc32.IEEETable`, `castagnoliTable`) and the block cipher are *parameters* (`Env`);
  the theorems state what they need from them as explicit hypotheses, the driver instantiates them with
  executable bitwise CRC-32 and AES-256 (files `Crc.lean`, `Aes.lean`);
* constants come from the regenerated facts file.
-/
namespace TLVerif.Packet
open TLVerif.Facts.Packet

abbrev Bytes := List UInt8

def byteOf (n : Nat) : UInt8 := UInt8.ofNat n

/-- `basictl.NatWrite` / `binary.LittleEndian.AppendUint32` of `uint32(n)`. -/
def le32 (n : Nat) : Bytes := [byteOf n, byteOf (n / 256), byteOf (n / 65536), byteOf (n / 16777216)]

def u32of (a b c d : UInt8) : Nat := a.toNat + 256 * b.toNat + 65536 * c.toNat + 16777216 * d.toNat

/-- `binary.LittleEndian.Uint32(bs[:4])` (0 when shorter: never used that way). -/
def word (bs : Bytes) : Nat :=
  match bs with
  | a :: b :: c :: d :: _ => u32of a b c d
  | _ => 0

def zeros (n : Nat) : Bytes := List.replicate n 0

/-- What the model needs from `hash/crc32`, `crypto/aes`: two checksum functions and a keyed block map. -/
structure Env where
  crcI : Bytes → UInt32              -- crc32.Update(0, crc32.IEEETable, ·)
  crcC : Bytes → UInt32              -- crc32.Update(0, castagnoliTable, ·)
  enc : Bytes → Bytes → Bytes        -- key → 16-byte block → 16-byte block   (cipher.Block.Encrypt)
  dec : Bytes → Bytes → Bytes        -- key → 16-byte block → 16-byte block   (cipher.Block.Decrypt)

/-- The per-connection switches changed by the handshake logic: `pc.protocolVersion`, `pc.table`,
`pc.w.isEncrypted()`. -/
structure Mode where
  proto : Nat := 0
  crcC : Bool := false
  enc : Bool := false
  deriving DecidableEq, Repr

def Env.crc (e : Env) (m : Mode) (d : Bytes) : Nat := (if m.crcC then e.crcC d else e.crcI d).toNat

/-- `uint32(pc.writeSeqNum)` after `n` packets. -/
def seqWord (n : Nat) : Nat := Int.toNat (((n : Int) + startSeqNum) % 4294967296)

/-- `int(-uint(l) & 3)` when encrypted, else 0. -/
def alignOf (m : Mode) (l : Nat) : Nat := if m.enc then (4 - l % 4) % 4 else 0

/-- the three header words written by `WritePacketHeaderUnlocked` -/
def header (n tip blen : Nat) : Bytes := le32 (blen + packetOverhead) ++ le32 (seqWord n) ++ le32 tip

/-- one whole packet as it appears in the (plaintext) stream: header, body, CRC of header+body, zero alignment -/
def frame (e : Env) (m : Mode) (n tip : Nat) (body : Bytes) : Bytes :=
  header n tip body.length ++ body ++ le32 (e.crc m (header n tip body.length ++ body)) ++ zeros (alignOf m body.length)

/-- the constant `padding` of `FlushUnlocked` -/
def padPattern : Bytes := le32 padVal ++ le32 padVal ++ le32 padVal

/-! ### CBC over the abstract block map -/

def xorB (a b : Bytes) : Bytes := List.zipWith (· ^^^ ·) a b

/-- `cipher.NewCBCEncrypter(..).CryptBlocks` over `n` whole blocks. -/
def cbcEncN (e : Env) (k : Bytes) : Nat → Bytes → Bytes → Bytes
  | 0, _, _ => []
  | n + 1, iv, p =>
    let c := e.enc k (xorB (p.take blockSize) iv)
    c ++ cbcEncN e k n c (p.drop blockSize)

/-- `cipher.NewCBCDecrypter(..).CryptBlocks` over `n` whole blocks. -/
def cbcDecN (e : Env) (k : Bytes) : Nat → Bytes → Bytes → Bytes
  | 0, _, _ => []
  | n + 1, iv, c =>
    xorB (e.dec k (c.take blockSize)) iv ++ cbcDecN e k n (c.take blockSize) (c.drop blockSize)

/-- the chaining value after `n` blocks of ciphertext `c` -/
def nextIv : Nat → Bytes → Bytes → Bytes
  | 0, iv, _ => iv
  | n + 1, _, c => nextIv n (c.take blockSize) (c.drop blockSize)

/-- whole blocks only; a trailing partial block stays buffered -/
def cbcEnc (e : Env) (k iv p : Bytes) : Bytes := cbcEncN e k (p.length / blockSize) iv p
def cbcDec (e : Env) (k iv c : Bytes) : Bytes := cbcDecN e k (c.length / blockSize) iv c

/-! ### writer -/

structure WState where
  n : Nat := 0                          -- packets written; `writeSeqNum = n + startSeqNum`
  mode : Mode := {}
  out : Bytes := []                     -- every byte handed to the cryptoWriter so far (plaintext)
  encStart : Nat := 0                   -- offset in `out` where encryption starts (meaningful when `cipher` is set)
  cipher : Option (Bytes × Bytes) := none  -- write key, write IV
  pending : Bytes := []                 -- `headerWriteBuf`: CRC (+alignment) of the previous packet, not yet written

inductive WErr where
  | tooLarge      -- validBodyLen
  | size4         -- protocol version 0 and body length not a multiple of 4
  deriving DecidableEq, Repr

/-- the two length checks at the top of `WritePacketHeaderUnlocked` -/
def checkBodyLen (m : Mode) (l : Nat) : Option WErr :=
  if l > maxPacketLen - packetOverhead then some .tooLarge
  else if m.proto = 0 ∧ l % 4 ≠ 0 then some .size4
  else none

/-- `WritePacketNoFlushUnlocked` (= header, body, trailer). `WritePacket2` and the Header/Body/Trailer triple
write the same bytes for the concatenated body. -/
def writeNoFlush (e : Env) (w : WState) (tip : Nat) (body : Bytes) : Except WErr WState :=
  match checkBodyLen w.mode body.length with
  | some er => .error er
  | none =>
    let h := header w.n tip body.length
    .ok { w with n := w.n + 1, out := w.out ++ (w.pending ++ h ++ body),
                 pending := le32 (e.crc w.mode (h ++ body)) ++ zeros (alignOf w.mode body.length) }

/-- `cryptoWriter.Padding(afterNext)` -/
def cryptoPadding (w : WState) (afterNext : Nat) : Nat :=
  if w.mode.enc then (blockSize - (w.out.length - w.encStart + afterNext) % blockSize) % blockSize else 0

/-- `FlushUnlocked`; `none` = the Go code would reslice `headerWriteBuf` beyond the 12 padding bytes
(never happens: theorem `flush_total`). -/
def flush (w : WState) : Option WState :=
  let pad := cryptoPadding w w.pending.length
  if pad > padPattern.length then none
  else some { w with out := w.out ++ (w.pending ++ padPattern.take pad), pending := [] }

/-- `WritePacket` -/
def writePacket (e : Env) (w : WState) (tip : Nat) (body : Bytes) : Except WErr (Option WState) :=
  match writeNoFlush e w tip body with
  | .error er => .error er
  | .ok w1 => .ok (flush w1)

/-- `pc.encrypt` (writer half): `cryptoWriter.encrypt` records `encStart = len(w.buf)`. Because every
`WritePacket` ends with a flush and unencrypted flushes write everything, `len(w.buf)` bytes are exactly the
bytes of `out` not yet on the wire; the model keeps `out` whole and remembers the offset. -/
def wEncrypt (w : WState) (key iv : Bytes) : WState :=
  { w with mode := { w.mode with enc := true }, encStart := w.out.length, cipher := some (key, iv) }

/-- the bytes that reach the connection once everything is flushed -/
def WState.wire (e : Env) (w : WState) : Bytes :=
  match w.cipher with
  | none => w.out
  | some (k, iv) => w.out.take w.encStart ++ cbcEnc e k iv (w.out.drop w.encStart)

end TLVerif.Packet
