import TLVerif.Codec.TL2Lemmas
/-!
Part 2 of the TL2 lemmas: reading back what the writer emitted (`tl2_roundtrip_gen`).

`Good d fuel ty zie v` describes the values the theorem covers (explicit, syntax-directed):
numbers in range, no float `-0.0` where the writer tests `x != 0`, struct values shaped like the type with absent
optional fields `none`, presence-only (`bit`) fields holding their canonical value, dictionaries normalised,
array lengths below 2^63, every encoded object shorter than 2^63 bytes (Go `int`), and **no `bit` reached through an
alias, a `Maybe` or an array** (the excluded part is where the generated code itself does not round trip / does not
compile, see `Props/C03.lean`).
-/
namespace TLVerif.Codec
open TLVerif.Prim

/-! ### bit arithmetic of mask bytes -/

theorem testBit_low_add (j q : Nat) (p : Bool) :
    testBit ((if p then 2 ^ j else 0) + 2 ^ (j + 1) * q) j = p := by
  unfold testBit
  have h2 : 2 ^ (j + 1) * q = 2 ^ j * (2 * q) := by rw [Nat.pow_succ, Nat.mul_assoc]
  rw [h2]
  cases p with
  | true =>
    simp only [if_true]
    have : (2 ^ j + 2 ^ j * (2 * q)) / 2 ^ j = 1 + 2 * q := by
      rw [Nat.add_mul_div_left _ _ (Nat.pow_pos (by decide)), Nat.div_self (Nat.pow_pos (by decide))]
    rw [this]; simp
  | false =>
    simp only [Bool.false_eq_true, if_false, Nat.zero_add]
    rw [Nat.mul_div_cancel_left _ (Nat.pow_pos (by decide))]
    simp

theorem testBit_high_add (j e q : Nat) (p : Bool) :
    testBit ((if p then 2 ^ j else 0) + 2 ^ (j + 1) * q) (j + 1 + e) = testBit (2 ^ (j + 1) * q) (j + 1 + e) := by
  unfold testBit
  have hp : 0 < 2 ^ (j + 1) := Nat.pow_pos (by decide)
  have hpow : 2 ^ (j + 1 + e) = 2 ^ (j + 1) * 2 ^ e := Nat.pow_add 2 (j + 1) e
  have e1 : ((if p then 2 ^ j else 0) + 2 ^ (j + 1) * q) / 2 ^ (j + 1 + e) = q / 2 ^ e := by
    rw [hpow, ← Nat.div_div_eq_div_mul, Nat.add_mul_div_left _ _ hp]
    have : (if p then 2 ^ j else 0) / 2 ^ (j + 1) = 0 := by
      apply Nat.div_eq_of_lt
      cases p <;> simp [Nat.pow_succ] <;> omega
    rw [this, Nat.zero_add]
  have e2 : (2 ^ (j + 1) * q) / 2 ^ (j + 1 + e) = q / 2 ^ e := by
    rw [hpow, ← Nat.div_div_eq_div_mul, Nat.mul_div_cancel_left _ hp]
  rw [e1, e2]

theorem testBit_byteOf (m k : Nat) (hk : k < 8) : testBit (byteOf m).toNat k = testBit m k := by
  unfold testBit byteOf
  have : (UInt8.ofNat m).toNat = m % 256 := by simp
  rw [this]
  have h256 : 256 = 2 ^ k * 2 ^ (8 - k) := by
    have : k + (8 - k) = 8 := by omega
    rw [← Nat.pow_add, this]
  have : m % 256 / 2 ^ k % 2 = m / 2 ^ k % 2 := by
    rw [h256, Nat.mod_mul_right_div_self]
    have h2 : 2 ∣ 2 ^ (8 - k) := by
      obtain ⟨t, ht⟩ : ∃ t, 8 - k = t + 1 := ⟨8 - k - 1, by omega⟩
      rw [ht, Nat.pow_succ]; exact Nat.dvd_mul_left _ _
    exact Nat.mod_mod_of_dvd _ h2
  rw [this]

/-- mask bits contributed from field `i` on are multiples of the bit of field `i` -/
theorem bodyLoop_div : ∀ (rs : List (Option Bytes)) (i : Nat),
    ((i + 1) % 8 = 0 → (bodyLoop i rs).1 = 0) ∧ ∃ q, (bodyLoop i rs).1 = 2 ^ ((i + 1) % 8) * q := by
  intro rs
  induction rs with
  | nil => intro i; exact ⟨fun _ => rfl, 0, rfl⟩
  | cons r rs ih =>
    intro i
    rw [bodyLoop_cons]
    by_cases hb : ((i + 1) % 8 == 0) = true
    · rw [if_pos hb]
      exact ⟨fun _ => rfl, 0, rfl⟩
    · rw [if_neg hb]
      have hb' : (i + 1) % 8 ≠ 0 := by simpa using hb
      refine ⟨fun h => absurd h hb', ?_⟩
      obtain ⟨h0, q, hq⟩ := ih (i + 1)
      show ∃ q', fieldBit i r.isSome + (bodyLoop (i + 1) rs).1 = 2 ^ ((i + 1) % 8) * q'
      by_cases hn : (i + 1 + 1) % 8 = 0
      · rw [h0 hn]
        refine ⟨if r.isSome then 1 else 0, ?_⟩
        unfold fieldBit; cases r.isSome <;> simp
      · have hj : (i + 1 + 1) % 8 = (i + 1) % 8 + 1 := by omega
        rw [hq, hj, Nat.pow_succ]
        refine ⟨(if r.isSome then 1 else 0) + 2 * q, ?_⟩
        unfold fieldBit
        cases r.isSome <;> simp [Nat.mul_add, Nat.mul_assoc]

/-- the mask bits of the fields after `i` are a multiple of twice the bit of field `i` -/
theorem bodyLoop_next_div (rs : List (Option Bytes)) (i : Nat) :
    ∃ q, (bodyLoop (i + 1) rs).1 = 2 ^ ((i + 1) % 8 + 1) * q := by
  obtain ⟨h0, q, hq⟩ := bodyLoop_div rs (i + 1)
  by_cases hn : (i + 1 + 1) % 8 = 0
  · exact ⟨0, by rw [h0 hn]; rfl⟩
  · have hj : (i + 1 + 1) % 8 = (i + 1) % 8 + 1 := by omega
    exact ⟨q, by rw [hq, hj]⟩

theorem fieldBit_eq (i : Nat) (p : Bool) : fieldBit i p = if p then 2 ^ ((i + 1) % 8) else 0 := rfl

/-! ### one struct body -/

/-- what the struct-level lemmas need of the codecs of the field types (the induction hypothesis of the main theorem) -/
structure FieldCodecs (good : Nat → Bool → Val → Prop) (enc : Enc) (rd : Rd2) (z : Nat → Val) : Prop where
  rt : ∀ ty zie c x r, good ty zie x → enc ty zie x = .ok r →
        (∀ b, r = some b → ∀ rest, rd ty c (b ++ rest) = .ok (x, rest)) ∧ (r = none → x = z ty)
  present : ∀ ty x r, enc ty false x = .ok r → r.isSome = true

/-- admissible value of one field -/
def FieldSpec (good : Nat → Bool → Val → Prop) (z : Nat → Val) (plainTrue isTrue : Nat → Bool) (f : Field) (v : Option Val) : Prop :=
  (f.mask.isSome = true → f.tl2bit.isSome = true) ∧ (isTrue f.ty = true → plainTrue f.ty = true) ∧
  (if f.omitted then v = none
   else if f.isBit then f.tl2bit.isSome = true ∧ (v = none ∨ v = some (z f.ty))
   else if plainTrue f.ty then f.tl2bit.isSome = false ∧ v = some (z f.ty)
   else if f.tl2bit.isSome then (match v with | none => True | some x => good f.ty false x)
   else (match v with | some x => good f.ty true x | none => False))

def GoodFields (good : Nat → Bool → Val → Prop) (z : Nat → Val) (plainTrue isTrue : Nat → Bool) :
    List Field → List (Option Val) → Prop
  | [], [] => True
  | f :: fs, v :: vs => FieldSpec good z plainTrue isTrue f v ∧ GoodFields good z plainTrue isTrue fs vs
  | _, _ => False

section body
variable {good : Nat → Bool → Val → Prop} {enc : Enc} {rd : Rd2} {z : Nat → Val}
variable {skip : Nat → Bool → Bytes → Except CErr Bytes} {plainTrue isTrue : Nat → Bool}

/-- reading one field back: with the presence bit the writer set and the bytes it emitted in front of `tail` -/
theorem field_roundtrip (H : FieldCodecs good enc rd z)
    (HT : ∀ ty r, plainTrue ty = true → enc ty true (z ty) = .ok r → r = none)
    (Hpt : ∀ ty, plainTrue ty = true → isTrue ty = true)
    (f : Field) (v : Option Val) (r : Option Bytes)
    (hs : FieldSpec good z plainTrue isTrue f v) (he : encField enc f v = .ok r) (tail : Bytes) :
    readField rd skip z isTrue f r.isSome (optBytes r ++ tail) = .ok (v, tail) := by
  obtain ⟨hmask, htrue, hs⟩ := hs
  unfold encField at he
  unfold readField
  by_cases ho : f.omitted = true
  · -- omitted field: never written
    simp only [ho, if_true] at he hs
    cases he; subst hs
    by_cases hb : f.isBit = true
    · simp [hb, optBytes]
    · simp [hb, ho, optBytes]
  · simp only [ho, Bool.false_eq_true, if_false] at he hs
    by_cases hb : f.isBit = true
    · -- presence-only field
      simp only [hb, if_true] at hs
      obtain ⟨htb, hv⟩ := hs
      simp only [htb, if_true] at he
      rcases hv with hv | hv
      · subst hv; cases he; simp [hb, optBytes]
      · subst hv; simp only [hb, if_true] at he; cases he; simp [hb, htb, optBytes]
    · simp only [hb, Bool.false_eq_true, if_false] at hs
      by_cases hp : plainTrue f.ty = true
      · -- field of an empty struct type without presence bit: never written, always holds the zero value
        simp only [hp, if_true] at hs
        obtain ⟨htb, hv⟩ := hs
        subst hv
        simp only [htb, Bool.false_eq_true, if_false] at he
        have hr := HT _ _ hp he
        subst hr
        have hm : f.mask.isSome = false := by
          cases hh : f.mask.isSome with
          | false => rfl
          | true => rw [hmask hh] at htb; exact absurd htb (by decide)
        simp [hb, ho, Hpt _ hp, optBytes, fieldOptional, htb, hm]
      · simp only [hp, Bool.false_eq_true, if_false] at hs
        have hnt : isTrue f.ty = false := by
          cases hh : isTrue f.ty with
          | false => rfl
          | true => exact absurd (htrue hh) hp
        by_cases htb : f.tl2bit.isSome = true
        · simp only [htb, if_true] at he hs
          cases v with
          | none =>
            cases he
            simp [hb, ho, hnt, optBytes, fieldOptional, htb]
          | some x =>
            simp only [hb, Bool.false_eq_true, if_false] at he
            simp only [] at hs
            have hps := H.present _ _ _ he
            cases r with
            | none => simp at hps
            | some b =>
              have := (H.rt _ _ f.mask.isNone _ _ hs he).1 b rfl tail
              simp [hb, ho, hnt, optBytes, this]
        · simp only [htb, Bool.false_eq_true, if_false] at he hs
          have htb' : f.tl2bit.isSome = false := by simpa using htb
          have hm : f.mask.isSome = false := by
            cases hh : f.mask.isSome with
            | false => rfl
            | true => exact absurd (hmask hh) htb
          cases v with
          | none => exact absurd hs (by simp)
          | some x =>
            simp only [] at he hs
            cases r with
            | none =>
              have := (H.rt _ _ f.mask.isNone _ _ hs he).2 rfl
              subst this
              simp [hb, ho, hnt, optBytes, fieldOptional, htb', hm]
            | some b =>
              have := (H.rt _ _ f.mask.isNone _ _ hs he).1 b rfl tail
              simp [hb, ho, hnt, optBytes, this]

/-- the reader's current mask byte agrees with the mask bits the writer accumulated from field `i` on -/
def BlockAgree (i : Nat) (block : UInt8) (m : Nat) : Prop :=
  (i + 1) % 8 ≠ 0 → ∀ k, (i + 1) % 8 ≤ k → k < 8 → testBit block.toNat k = testBit m k

theorem nextBlock_spec (i : Nat) (block : UInt8) (r : Option Bytes) (rs : List (Option Bytes))
    (hA : BlockAgree i block (bodyLoop i (r :: rs)).1) :
    ∃ block1, nextBlock i block (bodyLoop i (r :: rs)).2 = (block1, optBytes r ++ (bodyLoop (i + 1) rs).2) ∧
      ∀ k, (i + 1) % 8 ≤ k → k < 8 →
        testBit block1.toNat k = testBit (fieldBit i r.isSome + (bodyLoop (i + 1) rs).1) k := by
  unfold nextBlock
  rw [bodyLoop_cons] at hA ⊢
  by_cases hb : ((i + 1) % 8 == 0) = true
  · rw [if_pos hb, if_pos hb]
    by_cases hc : (fieldBit i r.isSome + (bodyLoop (i + 1) rs).1 == 0 &&
        (optBytes r ++ (bodyLoop (i + 1) rs).2).isEmpty) = true
    · rw [if_pos hc]
      simp only [Bool.and_eq_true, beq_iff_eq, List.isEmpty_iff] at hc
      refine ⟨0, ?_, ?_⟩
      · simp only [hc.2]
      · intro k _ _; rw [hc.1]; rfl
    · rw [if_neg hc]
      exact ⟨byteOf (fieldBit i r.isSome + (bodyLoop (i + 1) rs).1), rfl, fun k _ hk => testBit_byteOf _ k hk⟩
  · rw [if_neg hb, if_neg hb]
    rw [if_neg hb] at hA
    have hb' : (i + 1) % 8 ≠ 0 := by simpa using hb
    exact ⟨block, rfl, fun k h1 h2 => hA hb' k h1 h2⟩

theorem fields_roundtrip (H : FieldCodecs good enc rd z)
    (HT : ∀ ty r, plainTrue ty = true → enc ty true (z ty) = .ok r → r = none)
    (Hpt : ∀ ty, plainTrue ty = true → isTrue ty = true) :
    ∀ (fs : List Field) (vs : List (Option Val)) (rs : List (Option Bytes)),
      GoodFields good z plainTrue isTrue fs vs → encFieldsWith enc fs vs = .ok rs →
      ∀ (i : Nat) (block : UInt8), BlockAgree i block (bodyLoop i rs).1 →
        readFields2With rd skip z isTrue i block fs (bodyLoop i rs).2 = .ok vs := by
  intro fs
  induction fs with
  | nil =>
    intro vs rs hg he i block _
    cases vs with
    | nil => rfl
    | cons _ _ => exact absurd hg (by simp [GoodFields])
  | cons f fs ih =>
    intro vs rs hg he i block hA
    cases vs with
    | nil => exact absurd hg (by simp [GoodFields])
    | cons v vs =>
      obtain ⟨hs, hg'⟩ := hg
      simp only [encFieldsWith] at he
      cases hf : encField enc f v with
      | error e => rw [hf] at he; cases he
      | ok r =>
        rw [hf] at he
        cases hfs : encFieldsWith enc fs vs with
        | error e => rw [hfs] at he; cases he
        | ok rs' =>
          rw [hfs] at he
          cases he
          obtain ⟨block1, hnb, hbits⟩ := nextBlock_spec i block r rs' hA
          obtain ⟨q, hq⟩ := bodyLoop_next_div rs' i
          have hbit : testBit block1.toNat ((i + 1) % 8) = r.isSome := by
            rw [hbits _ (Nat.le_refl _) (Nat.mod_lt _ (by decide)), hq, fieldBit_eq]
            exact testBit_low_add _ _ _
          have hA' : BlockAgree (i + 1) block1 (bodyLoop (i + 1) rs').1 := by
            intro hne k h1 h2
            have hj : (i + 1 + 1) % 8 = (i + 1) % 8 + 1 := by omega
            obtain ⟨e, he⟩ : ∃ e, k = (i + 1) % 8 + 1 + e := ⟨k - ((i + 1) % 8 + 1), by omega⟩
            rw [hbits k (by omega) h2, hq, fieldBit_eq, he]
            exact testBit_high_add _ _ _ _
          simp only [readFields2With]
          rw [hnb]
          simp only []
          rw [hbit, field_roundtrip H HT Hpt f v r hs hf]
          simp only []
          rw [ih vs rs' hg' hfs (i + 1) block1 hA']

/-- a field the writer left out holds the value `Reset` gives it -/
theorem field_absent (H : FieldCodecs good enc rd z)
    (f : Field) (v : Option Val)
    (hs : FieldSpec good z plainTrue isTrue f v) (he : encField enc f v = .ok none) :
    v = if fieldOptional f || f.omitted then none else some (z f.ty) := by
  obtain ⟨hmask, _, hs⟩ := hs
  unfold encField at he
  by_cases ho : f.omitted = true
  · simp only [ho, if_true] at hs
    subst hs; simp [ho]
  · simp only [ho, Bool.false_eq_true, if_false] at he hs
    by_cases hb : f.isBit = true
    · simp only [hb, if_true] at hs
      obtain ⟨htb, hv⟩ := hs
      simp only [htb, if_true] at he
      rcases hv with hv | hv
      · subst hv; simp [fieldOptional, htb]
      · subst hv; simp only [hb, if_true] at he; cases he
    · simp only [hb, Bool.false_eq_true, if_false] at hs
      by_cases hp : plainTrue f.ty = true
      · simp only [hp, if_true] at hs
        obtain ⟨htb, hv⟩ := hs
        subst hv
        have hm : f.mask.isSome = false := by
          cases hh : f.mask.isSome with
          | false => rfl
          | true => rw [hmask hh] at htb; exact absurd htb (by decide)
        simp [fieldOptional, htb, hm, ho]
      · simp only [hp, Bool.false_eq_true, if_false] at hs
        by_cases htb : f.tl2bit.isSome = true
        · simp only [htb, if_true] at he hs
          cases v with
          | none => simp [fieldOptional, htb]
          | some x =>
            simp only [hb, Bool.false_eq_true, if_false] at he
            have := H.present _ _ _ he
            simp at this
        · simp only [htb, Bool.false_eq_true, if_false] at he hs
          have htb' : f.tl2bit.isSome = false := by simpa using htb
          have hm : f.mask.isSome = false := by
            cases hh : f.mask.isSome with
            | false => rfl
            | true => exact absurd (hmask hh) htb
          cases v with
          | none => exact absurd hs (by simp)
          | some x =>
            simp only [] at he hs
            have := (H.rt _ _ true _ _ hs he).2 rfl
            subst this
            simp [fieldOptional, htb', hm, ho]

/-- a body without any presence bit: every field holds its zero / absent value -/
theorem fields_all_absent (H : FieldCodecs good enc rd z) :
    ∀ (fs : List Field) (vs : List (Option Val)) (rs : List (Option Bytes)),
      GoodFields good z plainTrue isTrue fs vs → encFieldsWith enc fs vs = .ok rs → anyPresent rs = false →
      vs = zeroFieldsWith z fs := by
  intro fs
  induction fs with
  | nil =>
    intro vs rs hg _ _
    cases vs with
    | nil => rfl
    | cons _ _ => exact absurd hg (by simp [GoodFields])
  | cons f fs ih =>
    intro vs rs hg he ha
    cases vs with
    | nil => exact absurd hg (by simp [GoodFields])
    | cons v vs =>
      obtain ⟨hs, hg'⟩ := hg
      simp only [encFieldsWith] at he
      cases hf : encField enc f v with
      | error e => rw [hf] at he; cases he
      | ok r =>
        rw [hf] at he
        cases hfs : encFieldsWith enc fs vs with
        | error e => rw [hfs] at he; cases he
        | ok rs' =>
          rw [hfs] at he
          cases he
          simp only [anyPresent, List.any_cons, Bool.or_eq_false_iff] at ha
          have hr : r = none := by cases r <;> simp_all
          subst hr
          have htl := ih vs rs' hg' hfs (by simpa [anyPresent] using ha.2)
          rw [field_absent H f v hs hf, htl]
          rfl

theorem bodyTL2_eq (ui : Nat) (rs : List (Option Bytes)) :
    bodyTL2 ui rs =
      if ui == 0 then
        (if (bodyLoop 0 rs).1 == 0 && (bodyLoop 0 rs).2.isEmpty then [] else byteOf (bodyLoop 0 rs).1 :: (bodyLoop 0 rs).2)
      else byteOf (1 + (bodyLoop 0 rs).1) :: (tl2WriteSize ui ++ (bodyLoop 0 rs).2) := by
  unfold bodyTL2; rfl

/-- the whole body of an object: first mask byte, variant index, fields -/
theorem body_roundtrip (H : FieldCodecs good enc rd z)
    (HT : ∀ ty r, plainTrue ty = true → enc ty true (z ty) = .ok r → r = none)
    (Hpt : ∀ ty, plainTrue ty = true → isTrue ty = true)
    (ui : Nat) (hui : ui < 2 ^ 63) (fs : List Field) (vs : List (Option Val)) (rs : List (Option Bytes))
    (hg : GoodFields good z plainTrue isTrue fs vs) (he : encFieldsWith enc fs vs = .ok rs)
    (hne : bodyTL2 ui rs ≠ []) :
    ∃ block cur1, readHead (bodyTL2 ui rs) = .ok (block, ui, cur1) ∧ (block.toNat % 2 == 1) = (ui != 0) ∧
      readFields2With rd skip z isTrue 0 block fs cur1 = .ok vs := by
  obtain ⟨q, hq⟩ := (bodyLoop_div rs 0).2
  have hq' : (bodyLoop 0 rs).1 = 2 ^ (0 + 1) * q := hq
  have hrd := fields_roundtrip (skip := skip) H HT Hpt fs vs rs hg he 0
  rw [bodyTL2_eq] at hne ⊢
  by_cases hu : (ui == 0) = true
  · have hu0 : ui = 0 := by simpa using hu
    rw [if_pos hu] at hne ⊢
    by_cases hc : ((bodyLoop 0 rs).1 == 0 && (bodyLoop 0 rs).2.isEmpty) = true
    · rw [if_pos hc] at hne; exact absurd rfl hne
    · rw [if_neg hc]
      refine ⟨byteOf (bodyLoop 0 rs).1, (bodyLoop 0 rs).2, ?_, ?_, ?_⟩
      · -- bit 0 clear: no variant index
        have hb0 : testBit (byteOf (bodyLoop 0 rs).1).toNat 0 = false := by
          rw [testBit_byteOf _ 0 (by decide), hq']
          have := testBit_low_add 0 q false
          simpa using this
        have hodd : ((byteOf (bodyLoop 0 rs).1).toNat % 2 == 1) = false := by
          simpa [testBit] using hb0
        simp only [readHead, readByte, hodd, hu0]
        rfl
      · have hb0 : testBit (byteOf (bodyLoop 0 rs).1).toNat 0 = false := by
          rw [testBit_byteOf _ 0 (by decide), hq']
          have := testBit_low_add 0 q false
          simpa using this
        have hodd : ((byteOf (bodyLoop 0 rs).1).toNat % 2 == 1) = false := by
          simpa [testBit] using hb0
        rw [hodd, hu0]; rfl
      · exact hrd _ (fun _ k _ hk => testBit_byteOf _ k hk)
  · rw [if_neg hu]
    have hu0 : ui ≠ 0 := by simpa using hu
    refine ⟨byteOf (1 + (bodyLoop 0 rs).1), (bodyLoop 0 rs).2, ?_, ?_, ?_⟩
    · have hb0 : testBit (byteOf (1 + (bodyLoop 0 rs).1)).toNat 0 = true := by
        rw [testBit_byteOf _ 0 (by decide), hq']
        have := testBit_low_add 0 q true
        simpa using this
      have hodd : ((byteOf (1 + (bodyLoop 0 rs).1)).toNat % 2 == 1) = true := by
        simpa [testBit] using hb0
      simp only [readHead, readByte, hodd, if_true, parseSize]
      rw [tl2_size_roundtrip ui _ hui]
      rfl
    · have hb0 : testBit (byteOf (1 + (bodyLoop 0 rs).1)).toNat 0 = true := by
        rw [testBit_byteOf _ 0 (by decide), hq']
        have := testBit_low_add 0 q true
        simpa using this
      have hodd : ((byteOf (1 + (bodyLoop 0 rs).1)).toNat % 2 == 1) = true := by
        simpa [testBit] using hb0
      rw [hodd]; simp [hu0]
    · refine hrd _ (fun _ k h1 hk => ?_)
      rw [testBit_byteOf _ k hk, hq']
      obtain ⟨e, he'⟩ : ∃ e, k = 0 + 1 + e := ⟨k - 1, by omega⟩
      rw [he']
      have := testBit_high_add 0 e q true
      simpa using this

/-- an empty body: no variant index and no field present -/
theorem body_empty (ui : Nat) (rs : List (Option Bytes)) (h : bodyTL2 ui rs = []) :
    ui = 0 ∧ anyPresent rs = false := by
  rw [bodyTL2_eq] at h
  by_cases hu : (ui == 0) = true
  · rw [if_pos hu] at h
    refine ⟨by simpa using hu, ?_⟩
    cases ha : anyPresent rs with
    | false => rfl
    | true =>
      rw [cond_used _ _ (bodyLoop_present rs 0 ha)] at h
      simp at h
  · rw [if_neg hu] at h; simp at h

end body

/-! ### object framing -/

theorem sliceBody_obj (body rest : Bytes) (h : body.length < 2 ^ 63) :
    sliceBody (tl2WriteSize body.length ++ (body ++ rest)) = .ok (body, rest) := by
  unfold sliceBody parseSize
  rw [tl2_size_roundtrip _ _ h]
  simp [liftP]

theorem sliceBody_zero (rest : Bytes) : sliceBody (0 :: rest) = .ok ([], rest) := by
  have hw : tl2WriteSize 0 = [0] := by
    have hmm := mediumMarker_eq
    unfold tl2WriteSize; rw [if_pos (by omega)]; rfl
  have := sliceBody_obj [] rest (by simp)
  rw [List.length_nil, hw] at this
  exact this

end TLVerif.Codec
