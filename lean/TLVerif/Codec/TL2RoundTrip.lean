import TLVerif.Codec.TL2Lemmas
/-!
Part 2 of the TL2 lemmas: reading back what the writer emitted (`tl2_roundtrip_gen`).

`Good d fuel ty zie v` describes the values the theorem covers (explicit, syntax-directed):
numbers in range, struct values shaped like the type with absent
optional fields `none`, presence-only (`bit`) fields holding their canonical value, dictionaries normalised,
array lengths below 2^63, every encoded object shorter than 2^63 bytes (Go `int`), and **no `bit` reached through an
alias, a `Maybe` or an array** (the excluded part is where the generated code itself does not round trip / does not
compile, see `Props/C03.lean`).
-/
namespace TLVerif.Codec
open TLVerif.Prim

/-! ### bit arithmetic of mask bytes -/

theorem testBit_low_add (j q : Nat) (p : Bool) :
    testBit ((if p then 2 ^ j else 0) + 2 ^ (j + 1) * q) j = p := by
  unfold testBit
  have h2 : 2 ^ (j + 1) * q = 2 ^ j * (2 * q) := by rw [Nat.pow_succ, Nat.mul_assoc]
  rw [h2]
  cases p with
  | true =>
    simp only [if_true]
    have : (2 ^ j + 2 ^ j * (2 * q)) / 2 ^ j = 1 + 2 * q := by
      rw [Nat.add_mul_div_left _ _ (Nat.pow_pos (by decide)), Nat.div_self (Nat.pow_pos (by decide))]
    rw [this]; simp
  | false =>
    simp only [Bool.false_eq_true, if_false, Nat.zero_add]
    rw [Nat.mul_div_cancel_left _ (Nat.pow_pos (by decide))]
    simp

theorem testBit_high_add (j e q : Nat) (p : Bool) :
    testBit ((if p then 2 ^ j else 0) + 2 ^ (j + 1) * q) (j + 1 + e) = testBit (2 ^ (j + 1) * q) (j + 1 + e) := by
  unfold testBit
  have hp : 0 < 2 ^ (j + 1) := Nat.pow_pos (by decide)
  have hpow : 2 ^ (j + 1 + e) = 2 ^ (j + 1) * 2 ^ e := Nat.pow_add 2 (j + 1) e
  have e1 : ((if p then 2 ^ j else 0) + 2 ^ (j + 1) * q) / 2 ^ (j + 1 + e) = q / 2 ^ e := by
    rw [hpow, ← Nat.div_div_eq_div_mul, Nat.add_mul_div_left _ _ hp]
    have : (if p then 2 ^ j else 0) / 2 ^ (j + 1) = 0 := by
      apply Nat.div_eq_of_lt
      cases p <;> simp [Nat.pow_succ] <;> omega
    rw [this, Nat.zero_add]
  have e2 : (2 ^ (j + 1) * q) / 2 ^ (j + 1 + e) = q / 2 ^ e := by
    rw [hpow, ← Nat.div_div_eq_div_mul, Nat.mul_div_cancel_left _ hp]
  rw [e1, e2]

theorem testBit_byteOf (m k : Nat) (hk : k < 8) : testBit (byteOf m).toNat k = testBit m k := by
  unfold testBit byteOf
  have : (UInt8.ofNat m).toNat = m % 256 := by simp
  rw [this]
  have h256 : 256 = 2 ^ k * 2 ^ (8 - k) := by
    have : k + (8 - k) = 8 := by omega
    rw [← Nat.pow_add, this]
  have : m % 256 / 2 ^ k % 2 = m / 2 ^ k % 2 := by
    rw [h256, Nat.mod_mul_right_div_self]
    have h2 : 2 ∣ 2 ^ (8 - k) := by
      obtain ⟨t, ht⟩ : ∃ t, 8 - k = t + 1 := ⟨8 - k - 1, by omega⟩
      rw [ht, Nat.pow_succ]; exact Nat.dvd_mul_left _ _
    exact Nat.mod_mod_of_dvd _ h2
  rw [this]

/-- mask bits contributed from field `i` on are multiples of the bit of field `i` -/
theorem bodyLoop_div : ∀ (rs : List (Option Bytes)) (i : Nat),
    ((i + 1) % 8 = 0 → (bodyLoop i rs).1 = 0) ∧ ∃ q, (bodyLoop i rs).1 = 2 ^ ((i + 1) % 8) * q := by
  intro rs
  induction rs with
  | nil => intro i; exact ⟨fun _ => rfl, 0, rfl⟩
  | cons r rs ih =>
    intro i
    rw [bodyLoop_cons]
    by_cases hb : ((i + 1) % 8 == 0) = true
    · rw [if_pos hb]
      exact ⟨fun _ => rfl, 0, rfl⟩
    · rw [if_neg hb]
      have hb' : (i + 1) % 8 ≠ 0 := by simpa using hb
      refine ⟨fun h => absurd h hb', ?_⟩
      obtain ⟨h0, q, hq⟩ := ih (i + 1)
      show ∃ q', fieldBit i r.isSome + (bodyLoop (i + 1) rs).1 = 2 ^ ((i + 1) % 8) * q'
      by_cases hn : (i + 1 + 1) % 8 = 0
      · rw [h0 hn]
        refine ⟨if r.isSome then 1 else 0, ?_⟩
        unfold fieldBit; cases r.isSome <;> simp
      · have hj : (i + 1 + 1) % 8 = (i + 1) % 8 + 1 := by omega
        rw [hq, hj, Nat.pow_succ]
        refine ⟨(if r.isSome then 1 else 0) + 2 * q, ?_⟩
        unfold fieldBit
        cases r.isSome <;> simp [Nat.mul_add, Nat.mul_assoc]

/-- the mask bits of the fields after `i` are a multiple of twice the bit of field `i` -/
theorem bodyLoop_next_div (rs : List (Option Bytes)) (i : Nat) :
    ∃ q, (bodyLoop (i + 1) rs).1 = 2 ^ ((i + 1) % 8 + 1) * q := by
  obtain ⟨h0, q, hq⟩ := bodyLoop_div rs (i + 1)
  by_cases hn : (i + 1 + 1) % 8 = 0
  · exact ⟨0, by rw [h0 hn]; rfl⟩
  · have hj : (i + 1 + 1) % 8 = (i + 1) % 8 + 1 := by omega
    exact ⟨q, by rw [hq, hj]⟩

theorem fieldBit_eq (i : Nat) (p : Bool) : fieldBit i p = if p then 2 ^ ((i + 1) % 8) else 0 := rfl

/-! ### one struct body -/

/-- what the struct-level lemmas need of the codecs of the field types (the induction hypothesis of the main theorem) -/
structure FieldCodecs (good : Nat → Bool → Val → Prop) (enc : Enc) (rd : Rd2) (z : Nat → Val) : Prop where
  rt : ∀ ty zie c x r, good ty zie x → enc ty zie x = .ok r →
        (∀ b, r = some b → b ≠ [] ∧ ∀ rest, rd ty c (b ++ rest) = .ok (x, rest)) ∧ (r = none → x = z ty)
  present : ∀ ty x r, enc ty false x = .ok r → r.isSome = true

/-- admissible value of one field -/
def FieldSpec (good : Nat → Bool → Val → Prop) (z : Nat → Val) (plainTrue isTrue : Nat → Bool) (f : Field) (v : Option Val) : Prop :=
  (f.mask.isSome = true → f.tl2bit.isSome = true) ∧ (isTrue f.ty = true → plainTrue f.ty = true) ∧
  (if f.omitted then v = none
   else if f.isBit then f.tl2bit.isSome = true ∧ (v = none ∨ v = some (z f.ty))
   else if plainTrue f.ty then f.tl2bit.isSome = false ∧ v = some (z f.ty) ∧ good f.ty true (z f.ty)
   else if f.tl2bit.isSome then (match v with | none => True | some x => good f.ty false x)
   else (match v with | some x => good f.ty true x | none => False))

def GoodFields (good : Nat → Bool → Val → Prop) (z : Nat → Val) (plainTrue isTrue : Nat → Bool) :
    List Field → List (Option Val) → Prop
  | [], [] => True
  | f :: fs, v :: vs => FieldSpec good z plainTrue isTrue f v ∧ GoodFields good z plainTrue isTrue fs vs
  | _, _ => False

section body
variable {good : Nat → Bool → Val → Prop} {enc : Enc} {rd : Rd2} {z : Nat → Val}
variable {skip : Nat → Bool → Bytes → Except CErr Bytes} {plainTrue isTrue : Nat → Bool}

/-- reading one field back: with the presence bit the writer set and the bytes it emitted in front of `tail` -/
theorem field_roundtrip (H : FieldCodecs good enc rd z)
    (HT : ∀ ty r, plainTrue ty = true → enc ty true (z ty) = .ok r → r = none)
    (Hpt : ∀ ty, plainTrue ty = true → isTrue ty = true)
    (f : Field) (v : Option Val) (r : Option Bytes)
    (hs : FieldSpec good z plainTrue isTrue f v) (he : encField enc f v = .ok r) (tail : Bytes) :
    readField rd skip z isTrue f r.isSome (optBytes r ++ tail) = .ok (v, tail) := by
  obtain ⟨hmask, htrue, hs⟩ := hs
  unfold encField at he
  unfold readField
  by_cases ho : f.omitted = true
  · -- omitted field: never written
    simp only [ho, if_true] at he hs
    cases he; subst hs
    by_cases hb : f.isBit = true
    · simp [hb, optBytes]
    · simp [hb, ho, optBytes]
  · simp only [ho, Bool.false_eq_true, if_false] at he hs
    by_cases hb : f.isBit = true
    · -- presence-only field
      simp only [hb, if_true] at hs
      obtain ⟨htb, hv⟩ := hs
      simp only [htb, if_true] at he
      rcases hv with hv | hv
      · subst hv; cases he; simp [hb, optBytes]
      · subst hv; simp only [hb, if_true] at he; cases he; simp [hb, htb, optBytes]
    · simp only [hb, Bool.false_eq_true, if_false] at hs
      by_cases hp : plainTrue f.ty = true
      · -- field of an empty struct type without presence bit: never written, always holds the zero value
        simp only [hp, if_true] at hs
        obtain ⟨htb, hv, _⟩ := hs
        subst hv
        simp only [htb, Bool.false_eq_true, if_false] at he
        have hr := HT _ _ hp he
        subst hr
        have hm : f.mask.isSome = false := by
          cases hh : f.mask.isSome with
          | false => rfl
          | true => rw [hmask hh] at htb; exact absurd htb (by decide)
        simp [hb, ho, Hpt _ hp, optBytes, fieldOptional, htb, hm]
      · simp only [hp, Bool.false_eq_true, if_false] at hs
        have hnt : isTrue f.ty = false := by
          cases hh : isTrue f.ty with
          | false => rfl
          | true => exact absurd (htrue hh) hp
        by_cases htb : f.tl2bit.isSome = true
        · simp only [htb, if_true] at he hs
          cases v with
          | none =>
            cases he
            simp [hb, ho, hnt, optBytes, fieldOptional, htb]
          | some x =>
            simp only [hb, Bool.false_eq_true, if_false] at he
            simp only [] at hs
            have hps := H.present _ _ _ he
            cases r with
            | none => simp at hps
            | some b =>
              have := ((H.rt _ _ f.mask.isNone _ _ hs he).1 b rfl).2 tail
              simp [hb, ho, hnt, optBytes, this]
        · simp only [htb, Bool.false_eq_true, if_false] at he hs
          have htb' : f.tl2bit.isSome = false := by simpa using htb
          have hm : f.mask.isSome = false := by
            cases hh : f.mask.isSome with
            | false => rfl
            | true => exact absurd (hmask hh) htb
          cases v with
          | none => exact absurd hs (by simp)
          | some x =>
            simp only [] at he hs
            cases r with
            | none =>
              have := (H.rt _ _ f.mask.isNone _ _ hs he).2 rfl
              subst this
              simp [hb, ho, hnt, optBytes, fieldOptional, htb', hm]
            | some b =>
              have := ((H.rt _ _ f.mask.isNone _ _ hs he).1 b rfl).2 tail
              simp [hb, ho, hnt, optBytes, this]

/-- the reader's current mask byte agrees with the mask bits the writer accumulated from field `i` on -/
def BlockAgree (i : Nat) (block : UInt8) (m : Nat) : Prop :=
  (i + 1) % 8 ≠ 0 → ∀ k, (i + 1) % 8 ≤ k → k < 8 → testBit block.toNat k = testBit m k

theorem nextBlock_spec (i : Nat) (block : UInt8) (r : Option Bytes) (rs : List (Option Bytes))
    (hA : BlockAgree i block (bodyLoop i (r :: rs)).1) :
    ∃ block1, nextBlock i block (bodyLoop i (r :: rs)).2 = (block1, optBytes r ++ (bodyLoop (i + 1) rs).2) ∧
      ∀ k, (i + 1) % 8 ≤ k → k < 8 →
        testBit block1.toNat k = testBit (fieldBit i r.isSome + (bodyLoop (i + 1) rs).1) k := by
  unfold nextBlock
  rw [bodyLoop_cons] at hA ⊢
  by_cases hb : ((i + 1) % 8 == 0) = true
  · rw [if_pos hb, if_pos hb]
    by_cases hc : (fieldBit i r.isSome + (bodyLoop (i + 1) rs).1 == 0 &&
        (optBytes r ++ (bodyLoop (i + 1) rs).2).isEmpty) = true
    · rw [if_pos hc]
      simp only [Bool.and_eq_true, beq_iff_eq, List.isEmpty_iff] at hc
      refine ⟨0, ?_, ?_⟩
      · simp only [hc.2]
      · intro k _ _; rw [hc.1]; rfl
    · rw [if_neg hc]
      exact ⟨byteOf (fieldBit i r.isSome + (bodyLoop (i + 1) rs).1), rfl, fun k _ hk => testBit_byteOf _ k hk⟩
  · rw [if_neg hb, if_neg hb]
    rw [if_neg hb] at hA
    have hb' : (i + 1) % 8 ≠ 0 := by simpa using hb
    exact ⟨block, rfl, fun k h1 h2 => hA hb' k h1 h2⟩

/-- Reading the fields `fs` back from a body that was written for `fs` **followed by any further fields** (`ss` are the
per-field results of the appended fields): the older reader recovers its own fields whatever a newer writer appended —
unknown presence bits in the last mask byte, further mask bytes and field bytes are never looked at. -/
theorem fields_roundtrip_ext (H : FieldCodecs good enc rd z)
    (HT : ∀ ty r, plainTrue ty = true → enc ty true (z ty) = .ok r → r = none)
    (Hpt : ∀ ty, plainTrue ty = true → isTrue ty = true) (ss : List (Option Bytes)) :
    ∀ (fs : List Field) (vs : List (Option Val)) (rs : List (Option Bytes)),
      GoodFields good z plainTrue isTrue fs vs → encFieldsWith enc fs vs = .ok rs →
      ∀ (i : Nat) (block : UInt8), BlockAgree i block (bodyLoop i (rs ++ ss)).1 →
        readFields2With rd skip z isTrue i block fs (bodyLoop i (rs ++ ss)).2 = .ok vs := by
  intro fs
  induction fs with
  | nil =>
    intro vs rs hg he i block _
    cases vs with
    | nil => rfl
    | cons _ _ => exact absurd hg (by simp [GoodFields])
  | cons f fs ih =>
    intro vs rs hg he i block hA
    cases vs with
    | nil => exact absurd hg (by simp [GoodFields])
    | cons v vs =>
      obtain ⟨hs, hg'⟩ := hg
      simp only [encFieldsWith] at he
      cases hf : encField enc f v with
      | error e => rw [hf] at he; cases he
      | ok r =>
        rw [hf] at he
        cases hfs : encFieldsWith enc fs vs with
        | error e => rw [hfs] at he; cases he
        | ok rs' =>
          rw [hfs] at he
          cases he
          rw [List.cons_append] at hA ⊢
          obtain ⟨block1, hnb, hbits⟩ := nextBlock_spec i block r (rs' ++ ss) hA
          obtain ⟨q, hq⟩ := bodyLoop_next_div (rs' ++ ss) i
          have hbit : testBit block1.toNat ((i + 1) % 8) = r.isSome := by
            rw [hbits _ (Nat.le_refl _) (Nat.mod_lt _ (by decide)), hq, fieldBit_eq]
            exact testBit_low_add _ _ _
          have hA' : BlockAgree (i + 1) block1 (bodyLoop (i + 1) (rs' ++ ss)).1 := by
            intro hne k h1 h2
            have hj : (i + 1 + 1) % 8 = (i + 1) % 8 + 1 := by omega
            obtain ⟨e, he⟩ : ∃ e, k = (i + 1) % 8 + 1 + e := ⟨k - ((i + 1) % 8 + 1), by omega⟩
            rw [hbits k (by omega) h2, hq, fieldBit_eq, he]
            exact testBit_high_add _ _ _ _
          simp only [readFields2With]
          rw [hnb]
          simp only []
          rw [hbit, field_roundtrip H HT Hpt f v r hs hf]
          simp only []
          rw [ih vs rs' hg' hfs (i + 1) block1 hA']

theorem fields_roundtrip (H : FieldCodecs good enc rd z)
    (HT : ∀ ty r, plainTrue ty = true → enc ty true (z ty) = .ok r → r = none)
    (Hpt : ∀ ty, plainTrue ty = true → isTrue ty = true) :
    ∀ (fs : List Field) (vs : List (Option Val)) (rs : List (Option Bytes)),
      GoodFields good z plainTrue isTrue fs vs → encFieldsWith enc fs vs = .ok rs →
      ∀ (i : Nat) (block : UInt8), BlockAgree i block (bodyLoop i rs).1 →
        readFields2With rd skip z isTrue i block fs (bodyLoop i rs).2 = .ok vs := by
  intro fs vs rs hg he i block hA
  have := fields_roundtrip_ext (skip := skip) H HT Hpt [] fs vs rs hg he i block (by rw [List.append_nil]; exact hA)
  rw [List.append_nil] at this
  exact this

/-- a field the writer left out holds the value `Reset` gives it -/
theorem field_absent (H : FieldCodecs good enc rd z)
    (f : Field) (v : Option Val)
    (hs : FieldSpec good z plainTrue isTrue f v) (he : encField enc f v = .ok none) :
    v = if fieldOptional f || f.omitted then none else some (z f.ty) := by
  obtain ⟨hmask, _, hs⟩ := hs
  unfold encField at he
  by_cases ho : f.omitted = true
  · simp only [ho, if_true] at hs
    subst hs; simp [ho]
  · simp only [ho, Bool.false_eq_true, if_false] at he hs
    by_cases hb : f.isBit = true
    · simp only [hb, if_true] at hs
      obtain ⟨htb, hv⟩ := hs
      simp only [htb, if_true] at he
      rcases hv with hv | hv
      · subst hv; simp [fieldOptional, htb]
      · subst hv; simp only [hb, if_true] at he; cases he
    · simp only [hb, Bool.false_eq_true, if_false] at hs
      by_cases hp : plainTrue f.ty = true
      · simp only [hp, if_true] at hs
        obtain ⟨htb, hv, _⟩ := hs
        subst hv
        have hm : f.mask.isSome = false := by
          cases hh : f.mask.isSome with
          | false => rfl
          | true => rw [hmask hh] at htb; exact absurd htb (by decide)
        simp [fieldOptional, htb, hm, ho]
      · simp only [hp, Bool.false_eq_true, if_false] at hs
        by_cases htb : f.tl2bit.isSome = true
        · simp only [htb, if_true] at he hs
          cases v with
          | none => simp [fieldOptional, htb]
          | some x =>
            simp only [hb, Bool.false_eq_true, if_false] at he
            have := H.present _ _ _ he
            simp at this
        · simp only [htb, Bool.false_eq_true, if_false] at he hs
          have htb' : f.tl2bit.isSome = false := by simpa using htb
          have hm : f.mask.isSome = false := by
            cases hh : f.mask.isSome with
            | false => rfl
            | true => exact absurd (hmask hh) htb
          cases v with
          | none => exact absurd hs (by simp)
          | some x =>
            simp only [] at he hs
            have := (H.rt _ _ true _ _ hs he).2 rfl
            subst this
            simp [fieldOptional, htb', hm, ho]

/-- a body without any presence bit: every field holds its zero / absent value -/
theorem fields_all_absent (H : FieldCodecs good enc rd z) :
    ∀ (fs : List Field) (vs : List (Option Val)) (rs : List (Option Bytes)),
      GoodFields good z plainTrue isTrue fs vs → encFieldsWith enc fs vs = .ok rs → anyPresent rs = false →
      vs = zeroFieldsWith z fs := by
  intro fs
  induction fs with
  | nil =>
    intro vs rs hg _ _
    cases vs with
    | nil => rfl
    | cons _ _ => exact absurd hg (by simp [GoodFields])
  | cons f fs ih =>
    intro vs rs hg he ha
    cases vs with
    | nil => exact absurd hg (by simp [GoodFields])
    | cons v vs =>
      obtain ⟨hs, hg'⟩ := hg
      simp only [encFieldsWith] at he
      cases hf : encField enc f v with
      | error e => rw [hf] at he; cases he
      | ok r =>
        rw [hf] at he
        cases hfs : encFieldsWith enc fs vs with
        | error e => rw [hfs] at he; cases he
        | ok rs' =>
          rw [hfs] at he
          cases he
          simp only [anyPresent, List.any_cons, Bool.or_eq_false_iff] at ha
          have hr : r = none := by cases r <;> simp_all
          subst hr
          have htl := ih vs rs' hg' hfs (by simpa [anyPresent] using ha.2)
          rw [field_absent H f v hs hf, htl]
          rfl

theorem bodyTL2_eq (ui : Nat) (rs : List (Option Bytes)) :
    bodyTL2 ui rs =
      if ui == 0 then
        (if (bodyLoop 0 rs).1 == 0 && (bodyLoop 0 rs).2.isEmpty then [] else byteOf (bodyLoop 0 rs).1 :: (bodyLoop 0 rs).2)
      else byteOf (1 + (bodyLoop 0 rs).1) :: (tl2WriteSize ui ++ (bodyLoop 0 rs).2) := by
  unfold bodyTL2; rfl

/-- the whole body of an object: first mask byte, variant index, fields -/
theorem body_roundtrip (H : FieldCodecs good enc rd z)
    (HT : ∀ ty r, plainTrue ty = true → enc ty true (z ty) = .ok r → r = none)
    (Hpt : ∀ ty, plainTrue ty = true → isTrue ty = true)
    (ui : Nat) (hui : ui < 2 ^ 63) (fs : List Field) (vs : List (Option Val)) (rs : List (Option Bytes))
    (hg : GoodFields good z plainTrue isTrue fs vs) (he : encFieldsWith enc fs vs = .ok rs)
    (hne : bodyTL2 ui rs ≠ []) :
    ∃ block cur1, readHead (bodyTL2 ui rs) = .ok (block, ui, cur1) ∧ (block.toNat % 2 == 1) = (ui != 0) ∧
      readFields2With rd skip z isTrue 0 block fs cur1 = .ok vs := by
  obtain ⟨q, hq⟩ := (bodyLoop_div rs 0).2
  have hq' : (bodyLoop 0 rs).1 = 2 ^ (0 + 1) * q := hq
  have hrd := fields_roundtrip (skip := skip) H HT Hpt fs vs rs hg he 0
  rw [bodyTL2_eq] at hne ⊢
  by_cases hu : (ui == 0) = true
  · have hu0 : ui = 0 := by simpa using hu
    rw [if_pos hu] at hne ⊢
    by_cases hc : ((bodyLoop 0 rs).1 == 0 && (bodyLoop 0 rs).2.isEmpty) = true
    · rw [if_pos hc] at hne; exact absurd rfl hne
    · rw [if_neg hc]
      refine ⟨byteOf (bodyLoop 0 rs).1, (bodyLoop 0 rs).2, ?_, ?_, ?_⟩
      · -- bit 0 clear: no variant index
        have hb0 : testBit (byteOf (bodyLoop 0 rs).1).toNat 0 = false := by
          rw [testBit_byteOf _ 0 (by decide), hq']
          have := testBit_low_add 0 q false
          simpa using this
        have hodd : ((byteOf (bodyLoop 0 rs).1).toNat % 2 == 1) = false := by
          simpa [testBit] using hb0
        simp only [readHead, readByte, hodd, hu0]
        rfl
      · have hb0 : testBit (byteOf (bodyLoop 0 rs).1).toNat 0 = false := by
          rw [testBit_byteOf _ 0 (by decide), hq']
          have := testBit_low_add 0 q false
          simpa using this
        have hodd : ((byteOf (bodyLoop 0 rs).1).toNat % 2 == 1) = false := by
          simpa [testBit] using hb0
        rw [hodd, hu0]; rfl
      · exact hrd _ (fun _ k _ hk => testBit_byteOf _ k hk)
  · rw [if_neg hu]
    have hu0 : ui ≠ 0 := by simpa using hu
    refine ⟨byteOf (1 + (bodyLoop 0 rs).1), (bodyLoop 0 rs).2, ?_, ?_, ?_⟩
    · have hb0 : testBit (byteOf (1 + (bodyLoop 0 rs).1)).toNat 0 = true := by
        rw [testBit_byteOf _ 0 (by decide), hq']
        have := testBit_low_add 0 q true
        simpa using this
      have hodd : ((byteOf (1 + (bodyLoop 0 rs).1)).toNat % 2 == 1) = true := by
        simpa [testBit] using hb0
      simp only [readHead, readByte, hodd, if_true, parseSize]
      rw [tl2_size_roundtrip ui _ hui]
      rfl
    · have hb0 : testBit (byteOf (1 + (bodyLoop 0 rs).1)).toNat 0 = true := by
        rw [testBit_byteOf _ 0 (by decide), hq']
        have := testBit_low_add 0 q true
        simpa using this
      have hodd : ((byteOf (1 + (bodyLoop 0 rs).1)).toNat % 2 == 1) = true := by
        simpa [testBit] using hb0
      rw [hodd]; simp [hu0]
    · refine hrd _ (fun _ k h1 hk => ?_)
      rw [testBit_byteOf _ k hk, hq']
      obtain ⟨e, he'⟩ : ∃ e, k = 0 + 1 + e := ⟨k - 1, by omega⟩
      rw [he']
      have := testBit_high_add 0 e q true
      simpa using this

/-- an empty body: no variant index and no field present -/
theorem body_empty (ui : Nat) (rs : List (Option Bytes)) (h : bodyTL2 ui rs = []) :
    ui = 0 ∧ anyPresent rs = false := by
  rw [bodyTL2_eq] at h
  by_cases hu : (ui == 0) = true
  · rw [if_pos hu] at h
    refine ⟨by simpa using hu, ?_⟩
    cases ha : anyPresent rs with
    | false => rfl
    | true =>
      rw [cond_used _ _ (bodyLoop_present rs 0 ha)] at h
      simp at h
  · rw [if_neg hu] at h; simp at h

end body

/-! ### object framing -/

theorem sliceBody_obj (body rest : Bytes) (h : body.length < 2 ^ 63) :
    sliceBody (tl2WriteSize body.length ++ (body ++ rest)) = .ok (body, rest) := by
  unfold sliceBody parseSize
  rw [tl2_size_roundtrip _ _ h]
  simp [liftP]

theorem sliceBody_zero (rest : Bytes) : sliceBody (0 :: rest) = .ok ([], rest) := by
  have hw : tl2WriteSize 0 = [0] := by
    have hmm := mediumMarker_eq
    unfold tl2WriteSize; rw [if_pos (by omega)]; rfl
  have := sliceBody_obj [] rest (by simp)
  rw [List.length_nil, hw] at this
  exact this

/-! ### arrays, and: without the empty optimisation something is always written -/

theorem elems_roundtrip {good : Nat → Bool → Val → Prop} {enc : Enc} {rd : Rd2} {z : Nat → Val}
    (H : FieldCodecs good enc rd z) (ty : Nat) :
    ∀ (es : List Val) (c : Bytes), (∀ e ∈ es, good ty false e) → encElemsWith enc ty es = .ok c →
      es.length ≤ c.length ∧ ∀ rest, readElems2With rd ty es.length (c ++ rest) = .ok (es, rest) := by
  intro es
  induction es with
  | nil =>
    intro c _ he
    simp only [encElemsWith] at he
    cases he
    exact ⟨Nat.le_refl _, fun rest => rfl⟩
  | cons e es ih =>
    intro c hg he
    simp only [encElemsWith] at he
    cases h1 : enc ty false e with
    | error _ => rw [h1] at he; cases he
    | ok r =>
      rw [h1] at he
      cases h2 : encElemsWith enc ty es with
      | error _ => rw [h2] at he; cases he
      | ok c' =>
        rw [h2] at he
        cases he
        have hp := H.present _ _ _ h1
        cases r with
        | none => simp at hp
        | some b =>
          have h3 := (H.rt ty false false e _ (hg e (List.mem_cons_self ..)) h1).1 b rfl
          have hne := h3.1
          have hrd := h3.2
          obtain ⟨hl, hrs⟩ := ih c' (fun e' he' => hg e' (List.mem_cons_of_mem _ he')) h2
          refine ⟨?_, fun rest => ?_⟩
          · simp only [optBytes, List.length_cons, List.length_append]
            have : 0 < b.length := List.length_pos_iff.mpr hne
            omega
          · simp only [optBytes, List.length_cons, readElems2With, List.append_assoc]
            rw [hrd]
            simp only []
            rw [hrs]

theorem objTL2_false_some (body : Bytes) : (objTL2 false body).isSome = true := by
  unfold objTL2; split <;> rfl

/-- without the empty optimisation something is always written -/
theorem enc_false_some (d : Desc) : ∀ (fuel ty : Nat) (v : Val) (r : Option Bytes),
    encTL2 d fuel ty false v = .ok r → r.isSome = true := by
  intro fuel
  induction fuel with
  | zero => intro ty v r h; cases h
  | succ fuel ih =>
    intro ty v r h
    unfold encTL2 at h
    cases hty : d.get? ty with
    | none => rw [hty] at h; cases h
    | some inst =>
      rw [hty] at h
      cases inst with
      | prim k =>
        simp only [encPrim] at h
        cases hp : primTL2 k v with
        | error e => rw [hp] at h; cases h
        | ok b => rw [hp] at h; cases h; rfl
      | struct s =>
        simp only [] at h
        by_cases hal : ((s.isAlias || s.isUnwrap) && !s.isUnionElement) = true
        · simp only [hal, if_true] at h
          split at h
          · exact ih _ _ _ h
          · cases h
        · simp only [hal, Bool.false_eq_true, if_false] at h
          cases v with
          | struct fs =>
            simp only [] at h
            cases hf : encFieldsWith (encTL2 d fuel) s.fields fs with
            | error e => rw [hf] at h; cases h
            | ok rs => rw [hf] at h; cases h; exact objTL2_false_some _
          | _ => cases h
      | union u =>
        simp only [] at h
        cases v with
        | union i x =>
          simp only [] at h
          cases hv : u.variants[i]? with
          | none => rw [hv] at h; cases h
          | some p =>
            obtain ⟨vi, nm⟩ := p
            rw [hv] at h
            simp only [] at h
            by_cases hm : (u.isMaybe && i != 0) = true
            · simp only [hm, if_true] at h
              split at h
              · split at h
                · rename_i f hf
                  cases he : encTL2 d fuel f.ty true _ with
                  | error e => rw [he] at h; cases h
                  | ok r' => rw [he] at h; cases h; exact objTL2_false_some _
                · cases h
              · cases h
            · simp only [hm, Bool.false_eq_true, if_false] at h
              exact ih _ _ _ h
        | _ => cases h
      | array a =>
        simp only [] at h
        cases v with
        | arr es =>
          simp only [] at h
          split at h
          · cases h
          · split at h
            · cases h; rfl
            · split at h
              · cases h
              · cases h; rfl
        | _ => cases h
      | dict a =>
        simp only [] at h
        cases v with
        | arr es =>
          simp only [] at h
          split at h
          · cases h; rfl
          · split at h
            · cases h
            · cases h; rfl
        | _ => cases h

/-! ### primitives -/

theorem byteOf_toNat (n : Nat) : (byteOf n).toNat = n % 256 := by simp [byteOf]

private theorem readU32_u32le (n : Nat) (h : n < 2 ^ 32) (rest : Bytes) : readU32 (u32le n ++ rest) = .ok (n, rest) := by
  simp only [u32le, List.cons_append, List.nil_append, readU32, byteOf_toNat]
  have : n % 256 + (((n >>> 8) % 256) <<< 8) + (((n >>> 16) % 256) <<< 16) + (((n >>> 24) % 256) <<< 24) = n := by
    simp only [Nat.shiftRight_eq_div_pow, Nat.shiftLeft_eq, Nat.reducePow] at *; omega
  rw [this]

private theorem readU64_u64le (n : Nat) (h : n < 2 ^ 64) (rest : Bytes) : readU64 (u64le n ++ rest) = .ok (n, rest) := by
  have hlo : readU32 (u32le n ++ (u32le (n >>> 32) ++ rest)) = .ok (n % 2 ^ 32, u32le (n >>> 32) ++ rest) := by
    simp only [u32le, List.cons_append, List.nil_append, readU32, byteOf_toNat]
    have : n % 256 + (((n >>> 8) % 256) <<< 8) + (((n >>> 16) % 256) <<< 16) + (((n >>> 24) % 256) <<< 24) = n % 2 ^ 32 := by
      simp only [Nat.shiftRight_eq_div_pow, Nat.shiftLeft_eq, Nat.reducePow] at *; omega
    rw [this]
  have hhi : readU32 (u32le (n >>> 32) ++ rest) = .ok (n >>> 32, rest) :=
    readU32_u32le _ (by simp only [Nat.shiftRight_eq_div_pow, Nat.reducePow] at *; omega) rest
  unfold readU64 u64le
  rw [List.append_assoc, hlo]
  simp only [hhi]
  have : n % 2 ^ 32 + ((n >>> 32) <<< 32) = n := by
    simp only [Nat.shiftRight_eq_div_pow, Nat.shiftLeft_eq, Nat.reducePow] at *; omega
  rw [this]

/-- primitive values covered by the round-trip theorem: numbers in range (floats are raw bit patterns, every pattern is
covered, `-0.0` and NaNs included); `bit` never occurs as a value of its own.  The flag `zie` is not used any more (it
excluded `-0.0` in empty-test positions while the generated code lost it); it is kept so that `Good` keeps its shape. -/
def goodPrim : PrimK → Bool → Val → Bool
  | .u32, _, .nat n => decide (n < 2 ^ 32)
  | .i32, _, .nat n => decide (n < 2 ^ 32)
  | .f32, _, .nat n => decide (n < 2 ^ 32)
  | .u64, _, .nat n => decide (n < 2 ^ 64)
  | .i64, _, .nat n => decide (n < 2 ^ 64)
  | .f64, _, .nat n => decide (n < 2 ^ 64)
  | .byte, _, .nat n => decide (n < 256)
  | .str, _, .str _ => true
  | .bool _ _, _, .bool _ => true
  | _, _, _ => false

theorem encPrim_eq (k : PrimK) (zie : Bool) (v : Val) (b : Bytes) (h : primTL2 k v = .ok b) :
    encPrim k zie v = .ok (if zie && primEmpty k v then none else some b) := by
  unfold encPrim; rw [h]

theorem num32_rt (k : PrimK) (hk : k = .u32 ∨ k = .i32 ∨ k = .f32) (zie c : Bool) (n : Nat) (r : Option Bytes)
    (hn : n < 2 ^ 32) (hz : zie = true → primEmpty k (.nat n) = true → n = 0)
    (he : encPrim k zie (.nat n) = .ok r) :
    (∀ b, r = some b → b ≠ [] ∧ ∀ rest, readPrim2 k c (b ++ rest) = .ok (.nat n, rest)) ∧ (r = none → Val.nat n = zeroPrim k) := by
  have hp : primTL2 k (.nat n) = .ok (u32le n) := by rcases hk with h | h | h <;> subst h <;> rfl
  rw [encPrim_eq _ _ _ _ hp] at he
  cases he
  constructor
  · intro b hb
    have : b = u32le n := by
      by_cases hc : (zie && primEmpty k (.nat n)) = true
      · simp [hc] at hb
      · simp [hc] at hb; exact hb.symm
    subst this
    refine ⟨by simp [u32le], fun rest => ?_⟩
    have : readPrim2 k c (u32le n ++ rest) = (readU32 (u32le n ++ rest)).map (fun (n, r) => (.nat n, r)) := by
      rcases hk with h | h | h <;> subst h <;> rfl
    rw [this, readU32_u32le n hn]; rfl
  · intro hr
    by_cases hc : (zie && primEmpty k (.nat n)) = true
    · simp only [Bool.and_eq_true] at hc
      have := hz hc.1 hc.2
      subst this
      rcases hk with h | h | h <;> subst h <;> rfl
    · simp [hc] at hr

theorem num64_rt (k : PrimK) (hk : k = .u64 ∨ k = .i64 ∨ k = .f64) (zie c : Bool) (n : Nat) (r : Option Bytes)
    (hn : n < 2 ^ 64) (hz : zie = true → primEmpty k (.nat n) = true → n = 0)
    (he : encPrim k zie (.nat n) = .ok r) :
    (∀ b, r = some b → b ≠ [] ∧ ∀ rest, readPrim2 k c (b ++ rest) = .ok (.nat n, rest)) ∧ (r = none → Val.nat n = zeroPrim k) := by
  have hp : primTL2 k (.nat n) = .ok (u64le n) := by rcases hk with h | h | h <;> subst h <;> rfl
  rw [encPrim_eq _ _ _ _ hp] at he
  cases he
  constructor
  · intro b hb
    have : b = u64le n := by
      by_cases hc : (zie && primEmpty k (.nat n)) = true
      · simp [hc] at hb
      · simp [hc] at hb; exact hb.symm
    subst this
    refine ⟨by simp [u64le, u32le], fun rest => ?_⟩
    have : readPrim2 k c (u64le n ++ rest) = (readU64 (u64le n ++ rest)).map (fun (n, r) => (.nat n, r)) := by
      rcases hk with h | h | h <;> subst h <;> rfl
    rw [this, readU64_u64le n hn]; rfl
  · intro hr
    by_cases hc : (zie && primEmpty k (.nat n)) = true
    · simp only [Bool.and_eq_true] at hc
      have := hz hc.1 hc.2
      subst this
      rcases hk with h | h | h <;> subst h <;> rfl
    · simp [hc] at hr

theorem prim_roundtrip (k : PrimK) (zie c : Bool) (v : Val) (r : Option Bytes)
    (hg : goodPrim k zie v = true) (he : encPrim k zie v = .ok r) (hlen : (optBytes r).length < 2 ^ 63) :
    (∀ b, r = some b → b ≠ [] ∧ ∀ rest, readPrim2 k c (b ++ rest) = .ok (v, rest)) ∧ (r = none → v = zeroPrim k) := by
  cases k with
  | u32 =>
    cases v <;> simp only [goodPrim, decide_eq_true_eq] at hg <;> try exact absurd hg (by decide)
    exact num32_rt .u32 (Or.inl rfl) zie c _ r hg (fun _ h => by simpa [primEmpty] using h) he
  | i32 =>
    cases v <;> simp only [goodPrim, decide_eq_true_eq] at hg <;> try exact absurd hg (by decide)
    exact num32_rt .i32 (Or.inr (Or.inl rfl)) zie c _ r hg (fun _ h => by simpa [primEmpty] using h) he
  | f32 =>
    cases v <;> simp only [goodPrim, decide_eq_true_eq] at hg <;> try exact absurd hg (by decide)
    exact num32_rt .f32 (Or.inr (Or.inr rfl)) zie c _ r hg (fun _ h => by simpa [primEmpty] using h) he
  | u64 =>
    cases v <;> simp only [goodPrim, decide_eq_true_eq] at hg <;> try exact absurd hg (by decide)
    exact num64_rt .u64 (Or.inl rfl) zie c _ r hg (fun _ h => by simpa [primEmpty] using h) he
  | i64 =>
    cases v <;> simp only [goodPrim, decide_eq_true_eq] at hg <;> try exact absurd hg (by decide)
    exact num64_rt .i64 (Or.inr (Or.inl rfl)) zie c _ r hg (fun _ h => by simpa [primEmpty] using h) he
  | f64 =>
    cases v <;> simp only [goodPrim, decide_eq_true_eq] at hg <;> try exact absurd hg (by decide)
    exact num64_rt .f64 (Or.inr (Or.inr rfl)) zie c _ r hg (fun _ h => by simpa [primEmpty] using h) he
  | byte =>
    cases v <;> simp only [goodPrim, decide_eq_true_eq] at hg <;> try exact absurd hg (by decide)
    rename_i n
    rw [encPrim_eq _ _ _ [byteOf n] rfl] at he
    cases he
    constructor
    · intro b hb
      have : b = [byteOf n] := by
        by_cases hc : (zie && primEmpty .byte (.nat n)) = true
        · simp [hc] at hb
        · simp [hc] at hb; exact hb.symm
      subst this
      refine ⟨by simp, fun rest => ?_⟩
      simp [readPrim2, readByte, Except.map]; omega
    · intro hr
      by_cases hc : (zie && primEmpty .byte (.nat n)) = true
      · simp only [Bool.and_eq_true, primEmpty, beq_iff_eq] at hc
        rw [hc.2]; rfl
      · simp [hc] at hr
  | bit => cases v <;> exact absurd hg (by simp [goodPrim])
  | str =>
    cases v <;> simp only [goodPrim] at hg <;> try exact absurd hg (by decide)
    rename_i s
    rw [encPrim_eq _ _ _ (stringWriteTL2 s) rfl] at he
    cases he
    constructor
    · intro b hb
      have hb' : b = stringWriteTL2 s := by
        by_cases hc : (zie && primEmpty .str (.str s)) = true
        · simp [hc] at hb
        · simp [hc] at hb; exact hb.symm
      subst hb'
      have hl : s.length < 2 ^ 63 := by
        rw [hb] at hlen
        simp only [optBytes, stringWriteTL2, List.length_append] at hlen
        omega
      refine ⟨?_, fun rest => ?_⟩
      · have hpos : 0 < (tl2WriteSize s.length).length := by rw [← tl2_calc_eq_len]; unfold tl2CalculateSize; split <;> (try split) <;> omega
        intro h0
        rw [stringWriteTL2] at h0
        have h1 := congrArg List.length h0
        simp only [List.length_append, List.length_nil] at h1; omega
      · simp only [readPrim2]
        rw [string_tl2_roundtrip s rest hl]; rfl
    · intro hr
      by_cases hc : (zie && primEmpty .str (.str s)) = true
      · simp only [Bool.and_eq_true, primEmpty, List.isEmpty_iff] at hc
        rw [hc.2]; rfl
      · simp [hc] at hr
  | bool ft tt =>
    cases v <;> simp only [goodPrim] at hg <;> try exact absurd hg (by decide)
    rename_i b0
    rw [encPrim_eq _ _ _ [if b0 then 1 else 0] rfl] at he
    cases he
    constructor
    · intro b hb
      have : b = [if b0 then 1 else 0] := by
        by_cases hc : (zie && primEmpty (.bool ft tt) (.bool b0)) = true
        · simp [hc] at hb
        · simp [hc] at hb; exact hb.symm
      subst this
      refine ⟨by simp, fun rest => ?_⟩
      cases b0 <;> simp [readPrim2, readByte, Except.map]
    · intro hr
      by_cases hc : (zie && primEmpty (.bool ft tt) (.bool b0)) = true
      · simp only [Bool.and_eq_true, primEmpty, Bool.not_eq_true'] at hc
        rw [hc.2]; rfl
      · simp [hc] at hr


/-! ### the values covered, and the main theorem -/

/-- a struct type without fields that is written as a plain (never present) field: `true`, `x.empty = ;` -/
def isPlainTrue (d : Desc) (ty : Nat) : Bool :=
  match d.get? ty with
  | some (.struct s) => s.fields.isEmpty && !s.isUnionElement && !(s.isAlias || s.isUnwrap)
  | _ => false

/-- the values covered by the round-trip theorem (see the header of this file) -/
def Good (d : Desc) : Nat → Nat → Bool → Val → Prop
  | 0, _, _, _ => False
  | fuel + 1, ty, zie, v =>
    (∀ r, encTL2 d (fuel + 1) ty zie v = .ok r → (optBytes r).length < 2 ^ 63) ∧
    (match d.get? ty with
    | none => False
    | some (.prim k) => goodPrim k zie v = true
    | some (.struct s) =>
      if (s.isAlias || s.isUnwrap) && !s.isUnionElement then
        match s.fields, v with
        | [f], .struct [some x] => (fieldOptional f || f.omitted) = false ∧ Good d fuel f.ty zie x
        | _, _ => False
      else
        structUI s < 2 ^ 63 ∧
        (match v with
        | .struct vs => GoodFields (Good d fuel) (zeroVal d fuel) (isPlainTrue d) (isTrueTy d) s.fields vs
        | _ => False)
    | some (.union u) =>
      match v with
      | .union i x =>
        match u.variants[i]? with
        | some (vi, _) =>
          (match d.get? vi with
           | some (.struct vs) => vs.isUnionElement = true ∧ vs.unionIndex = i ∧ (u.isMaybe = true → i = 0 → vs.fields = [])
           | _ => False) ∧
          (if u.isMaybe && i != 0 then
            i < 2 ^ 63 ∧
            (match d.get? vi, x with
            | some (.struct vs), .struct [some y] => (match vs.fields with | [f] => Good d fuel f.ty true y | _ => False)
            | _, _ => False)
          else Good d fuel vi zie x)
        | none => False
      | _ => False
    | some (.array a) =>
      match v with
      | .arr es =>
        es.length < 2 ^ 63 ∧ ((a.isTuple && !a.dynamic) = true → es.length = a.count) ∧ isBitTy d a.elem.ty = false ∧
          ∀ e ∈ es, Good d fuel a.elem.ty false e
      | _ => False
    | some (.dict a) =>
      match v with
      | .arr es =>
        es.length < 2 ^ 63 ∧ (∃ k, dictKeyPrim d a = some k ∧ dictNormalize k es = es) ∧
          ∀ e ∈ es, Good d fuel a.elem.ty false e
      | _ => False)

theorem isPlainTrue_isTrue (d : Desc) (ty : Nat) (h : isPlainTrue d ty = true) : isTrueTy d ty = true := by
  unfold isPlainTrue at h; unfold isTrueTy
  split at h
  · rename_i s hs
    rw [hs]; simp only [Bool.and_eq_true] at h; exact h.1.1
  · cases h

theorem bodyTL2_nil : bodyTL2 0 [] = [] := by rw [bodyTL2_eq]; rfl

theorem plainTrue_enc (d : Desc) (fuel ty : Nat) (r : Option Bytes) (hp : isPlainTrue d ty = true)
    (he : encTL2 d fuel ty true (zeroVal d fuel ty) = .ok r) : r = none := by
  cases fuel with
  | zero => cases he
  | succ fuel =>
    unfold isPlainTrue at hp
    split at hp
    · rename_i s hs
      simp only [Bool.and_eq_true, List.isEmpty_iff, Bool.not_eq_true'] at hp
      obtain ⟨⟨hf, hu⟩, ha⟩ := hp
      unfold encTL2 zeroVal at he
      rw [hs] at he
      simp only [] at he
      have hal : ((s.isAlias || s.isUnwrap) && !s.isUnionElement) = false := by rw [ha]; rfl
      rw [hal, hf] at he
      simp only [Bool.false_eq_true, if_false, zeroFieldsWith, encFieldsWith, structUI, hu] at he
      rw [bodyTL2_nil] at he
      cases he; rfl
    · cases hp

/-- reading back a struct-shaped object -/
theorem struct_roundtrip (d : Desc) (fuel : Nat)
    (HC : FieldCodecs (Good d fuel) (encTL2 d fuel) (readTL2 d fuel) (zeroVal d fuel))
    (fields : List Field) (ui : Nat) (hui : ui < 2 ^ 63) (vs : List (Option Val)) (rs : List (Option Bytes)) (zie : Bool)
    (hg : GoodFields (Good d fuel) (zeroVal d fuel) (isPlainTrue d) (isTrueTy d) fields vs)
    (he : encFieldsWith (encTL2 d fuel) fields vs = .ok rs)
    (hlen : (optBytes (objTL2 zie (bodyTL2 ui rs))).length < 2 ^ 63) :
    (∀ b, objTL2 zie (bodyTL2 ui rs) = some b → b ≠ [] ∧ ∀ rest,
        readStructObj (readTL2 d fuel) (skipTL2 d fuel) (zeroVal d fuel) (isTrueTy d) fields ui (b ++ rest) = .ok (vs, rest)) ∧
    (objTL2 zie (bodyTL2 ui rs) = none → vs = zeroFieldsWith (zeroVal d fuel) fields) := by
  by_cases hb : bodyTL2 ui rs = []
  · obtain ⟨hu0, ha⟩ := body_empty ui rs hb
    have hz := fields_all_absent HC fields vs rs hg he ha
    rw [hb]
    refine ⟨fun b hbb => ?_, fun _ => hz⟩
    cases zie with
    | true => simp [objTL2] at hbb
    | false =>
      simp only [objTL2, List.isEmpty_nil, if_true, Bool.false_eq_true, if_false, Option.some.injEq] at hbb
      subst hbb
      refine ⟨by simp, fun rest => ?_⟩
      simp only [readStructObj, List.cons_append, List.nil_append, sliceBody_zero, List.isEmpty_nil, if_true, hz]
  · have hne : (bodyTL2 ui rs).isEmpty = false := by
      cases hh : bodyTL2 ui rs with
      | nil => exact absurd hh hb
      | cons _ _ => rfl
    have hobj : objTL2 zie (bodyTL2 ui rs) = some (tl2WriteSize (bodyTL2 ui rs).length ++ bodyTL2 ui rs) := by
      unfold objTL2; rw [hne]; rfl
    rw [hobj] at hlen ⊢
    simp only [optBytes, List.length_append] at hlen
    refine ⟨fun b hbb => ?_, fun h => by cases h⟩
    cases hbb
    refine ⟨by
      intro h0
      have := congrArg List.length h0
      simp only [List.length_append, List.length_nil] at this
      have : (bodyTL2 ui rs).length = 0 := by omega
      exact hb (List.length_eq_zero_iff.mp this), fun rest => ?_⟩
    obtain ⟨block, cur1, hh, hodd, hfs⟩ := body_roundtrip (skip := skipTL2 d fuel) HC
      (fun ty r => plainTrue_enc d fuel ty r) (isPlainTrue_isTrue d) ui hui fields vs rs hg he hb
    simp only [readStructObj, List.append_assoc]
    rw [sliceBody_obj _ _ (by omega)]
    simp only [hne, Bool.false_eq_true, if_false, hh, hfs]
    simp

/-- the pieces of `struct_roundtrip`, for readers that look at the head themselves (unions) -/
theorem obj_components (d : Desc) (fuel : Nat)
    (HC : FieldCodecs (Good d fuel) (encTL2 d fuel) (readTL2 d fuel) (zeroVal d fuel))
    (fields : List Field) (ui : Nat) (hui : ui < 2 ^ 63) (vs : List (Option Val)) (rs : List (Option Bytes)) (zie : Bool)
    (hg : GoodFields (Good d fuel) (zeroVal d fuel) (isPlainTrue d) (isTrueTy d) fields vs)
    (he : encFieldsWith (encTL2 d fuel) fields vs = .ok rs)
    (hlen : (optBytes (objTL2 zie (bodyTL2 ui rs))).length < 2 ^ 63) :
    (bodyTL2 ui rs = [] → ui = 0 ∧ vs = zeroFieldsWith (zeroVal d fuel) fields ∧
        objTL2 zie (bodyTL2 ui rs) = (if zie then none else some [0])) ∧
    (bodyTL2 ui rs ≠ [] → ∃ block cur1,
        objTL2 zie (bodyTL2 ui rs) = some (tl2WriteSize (bodyTL2 ui rs).length ++ bodyTL2 ui rs) ∧
        (bodyTL2 ui rs).length < 2 ^ 63 ∧ (bodyTL2 ui rs).isEmpty = false ∧
        readHead (bodyTL2 ui rs) = .ok (block, ui, cur1) ∧
        readFields2With (readTL2 d fuel) (skipTL2 d fuel) (zeroVal d fuel) (isTrueTy d) 0 block fields cur1 = .ok vs) := by
  constructor
  · intro hb
    obtain ⟨hu0, ha⟩ := body_empty ui rs hb
    refine ⟨hu0, fields_all_absent HC fields vs rs hg he ha, ?_⟩
    rw [hb]; rfl
  · intro hb
    have hne : (bodyTL2 ui rs).isEmpty = false := by
      cases hh : bodyTL2 ui rs with
      | nil => exact absurd hh hb
      | cons _ _ => rfl
    have hobj : objTL2 zie (bodyTL2 ui rs) = some (tl2WriteSize (bodyTL2 ui rs).length ++ bodyTL2 ui rs) := by
      unfold objTL2; rw [hne]; rfl
    rw [hobj] at hlen
    simp only [optBytes, List.length_append] at hlen
    obtain ⟨block, cur1, hh, _, hfs⟩ := body_roundtrip (skip := skipTL2 d fuel) HC
      (fun ty r => plainTrue_enc d fuel ty r) (isPlainTrue_isTrue d) ui hui fields vs rs hg he hb
    exact ⟨block, cur1, hobj, by omega, hne, hh, hfs⟩

theorem bodyTL2_single (i : Nat) (hi : i ≠ 0) (r : Option Bytes) :
    bodyTL2 i [r] = byteOf (1 + fieldBit 0 r.isSome) :: (tl2WriteSize i ++ optBytes r) := by
  rw [bodyTL2_eq]
  have : (i == 0) = false := by simpa using hi
  rw [this]
  simp [bodyLoop]

theorem readHead_maybe (i : Nat) (hi : i < 2 ^ 63) (p : Bool) (tail : Bytes) :
    readHead (byteOf (1 + fieldBit 0 p) :: (tl2WriteSize i ++ tail)) = .ok (byteOf (1 + fieldBit 0 p), i, tail) ∧
      testBit (byteOf (1 + fieldBit 0 p)).toNat 1 = p := by
  cases p with
  | true =>
    have h3 : byteOf (1 + fieldBit 0 true) = 3 := rfl
    rw [h3]
    refine ⟨?_, rfl⟩
    have : ((3 : UInt8).toNat % 2 == 1) = true := rfl
    simp only [readHead, readByte, this, if_true, parseSize]
    rw [tl2_size_roundtrip i _ hi]; rfl
  | false =>
    have h1 : byteOf (1 + fieldBit 0 false) = 1 := rfl
    rw [h1]
    refine ⟨?_, rfl⟩
    have : ((1 : UInt8).toNat % 2 == 1) = true := rfl
    simp only [readHead, readByte, this, if_true, parseSize]
    rw [tl2_size_roundtrip i _ hi]; rfl

/-- round trip at one fuel level -/
def RT (d : Desc) (fuel : Nat) : Prop :=
  ∀ ty zie c v r, Good d fuel ty zie v → encTL2 d fuel ty zie v = .ok r →
    (∀ b, r = some b → b ≠ [] ∧ ∀ rest, readTL2 d fuel ty c (b ++ rest) = .ok (v, rest)) ∧
    (r = none → v = zeroVal d fuel ty)

theorem zeroVal_succ (d : Desc) (fuel ty : Nat) :
    zeroVal d (fuel + 1) ty =
      match d.get? ty with
      | none => .struct []
      | some (.prim k) => zeroPrim k
      | some (.struct s) => .struct (zeroFieldsWith (zeroVal d fuel) s.fields)
      | some (.union u) =>
        (match u.variants with
        | (vi, _) :: _ => .union 0 (zeroVal d fuel vi)
        | [] => .union 0 (.struct []))
      | some (.array a) =>
        if a.isTuple && !a.dynamic then .arr (List.replicate a.count (zeroVal d fuel a.elem.ty)) else .arr []
      | some (.dict _) => .arr [] := by
  cases h : d.get? ty with
  | none => simp [zeroVal, h]
  | some i =>
    cases i with
    | union u =>
      simp only [zeroVal, h]
      generalize u.variants = l
      cases l with
      | nil => rfl
      | cons p t => cases p; rfl
    | _ => simp [zeroVal, h]

theorem padTo_self (n : Nat) (z : Val) (vs : List Val) (h : vs.length = n) : padTo n z vs = vs := by
  unfold padTo; rw [h, Nat.sub_self]; simp

theorem tl2_roundtrip_gen (d : Desc) : ∀ fuel, RT d fuel := by
  intro fuel
  induction fuel using Nat.strongRecOn with
  | _ fuel ih =>
    cases fuel with
    | zero => intro ty zie c v r hg; exact absurd hg (by simp [Good])
    | succ fuel =>
      have HC : FieldCodecs (Good d fuel) (encTL2 d fuel) (readTL2 d fuel) (zeroVal d fuel) :=
        ⟨ih fuel (Nat.lt_succ_self _), enc_false_some d fuel⟩
      intro ty zie c v r hg he
      unfold Good at hg
      obtain ⟨hlen, hg⟩ := hg
      have hl := hlen r he
      unfold encTL2 at he
      unfold readTL2
      have hz := zeroVal_succ d fuel ty
      cases hty : d.get? ty with
      | none => rw [hty] at hg; exact absurd hg (by simp)
      | some inst =>
        rw [hty] at hg he hz
        try simp only [] at hz
        rw [hz]
        cases inst with
        | prim k => exact prim_roundtrip k zie c v r hg he hl
        | struct s =>
          simp only [] at hg he ⊢
          by_cases hal : ((s.isAlias || s.isUnwrap) && !s.isUnionElement) = true
          · simp only [hal, if_true] at hg he ⊢
            split at hg
            · rename_i f x hfs
              rw [hfs] at he ⊢
              simp only [] at he ⊢
              obtain ⟨hopt, hg⟩ := hg
              obtain ⟨h1, h2⟩ := ih fuel (Nat.lt_succ_self _) f.ty zie (s.isUnwrap && c) x r hg he
              refine ⟨fun b hb => ⟨(h1 b hb).1, fun rest => ?_⟩, fun hn => ?_⟩
              · rw [(h1 b hb).2 rest]
              · rw [h2 hn]; simp [zeroFieldsWith, hopt]
            · exact absurd hg (by simp)
          · simp only [hal, Bool.false_eq_true, if_false] at hg he ⊢
            obtain ⟨hui, hg⟩ := hg
            cases v with
            | struct vs =>
              simp only [] at hg he
              cases hf : encFieldsWith (encTL2 d fuel) s.fields vs with
              | error e => rw [hf] at he; cases he
              | ok rs =>
                rw [hf] at he
                cases he
                obtain ⟨h1, h2⟩ := struct_roundtrip d fuel HC s.fields (structUI s) hui vs rs zie hg hf hl
                refine ⟨fun b hb => ⟨(h1 b hb).1, fun rest => ?_⟩, fun hn => ?_⟩
                · rw [(h1 b hb).2 rest]
                · rw [h2 hn]
            | _ => exact absurd hg (by simp)
        | union u =>
          simp only [] at hg he ⊢
          cases v with
          | union i x =>
            simp only [] at hg he
            cases hv : u.variants[i]? with
            | none => rw [hv] at hg; exact absurd hg (by simp)
            | some p =>
              obtain ⟨vi, nm⟩ := p
              rw [hv] at hg he
              simp only [] at hg he
              obtain ⟨hvar, hg⟩ := hg
              cases hvi : d.get? vi with
              | none => rw [hvi] at hvar; exact absurd hvar (by simp)
              | some vinst =>
                rw [hvi] at hvar
                cases vinst with
                | struct vs =>
                  simp only [] at hvar
                  obtain ⟨hue, hidx, hmb0⟩ := hvar
                  -- the zero value of the union
                  have hzero : i = 0 → (match u.variants with
                      | (vi, _) :: _ => Val.union 0 (zeroVal d fuel vi)
                      | [] => Val.union 0 (.struct [])) = Val.union 0 (zeroVal d fuel vi) := by
                    intro hi0
                    subst hi0
                    cases huv : u.variants with
                    | nil => rw [huv] at hv; simp at hv
                    | cons p0 t =>
                      rw [huv] at hv
                      simp only [List.getElem?_cons_zero, Option.some.injEq] at hv
                      subst hv; rfl
                  by_cases hm : (u.isMaybe && i != 0) = true
                  · -- Maybe holding a value
                    simp only [hm, if_true, hvi] at hg he
                    obtain ⟨hi63, hg⟩ := hg
                    have hi0 : i ≠ 0 := by
                      simp only [Bool.and_eq_true, bne_iff_ne, ne_eq] at hm; exact hm.2
                    have hmaybe : u.isMaybe = true := by
                      simp only [Bool.and_eq_true] at hm; exact hm.1
                    cases x with
                    | struct xs =>
                      cases xs with
                      | nil => exact absurd hg (by simp)
                      | cons o t =>
                        cases o with
                        | none => exact absurd hg (by simp)
                        | some y =>
                          cases t with
                          | cons _ _ => exact absurd hg (by simp)
                          | nil =>
                            simp only [] at hg he
                            cases hflds : vs.fields with
                            | nil => rw [hflds] at hg; exact absurd hg (by simp)
                            | cons f ft =>
                              cases ft with
                              | cons _ _ => rw [hflds] at hg; exact absurd hg (by simp)
                              | nil =>
                                rw [hflds] at hg he
                                simp only [] at hg he
                                cases hey : encTL2 d fuel f.ty true y with
                                | error e => rw [hey] at he; cases he
                                | ok r' =>
                                  rw [hey] at he
                                  cases he
                                  obtain ⟨h1, h2⟩ := ih fuel (Nat.lt_succ_self _) f.ty true false y r' hg hey
                                  have hbody := bodyTL2_single i hi0 r'
                                  have hbne : bodyTL2 i [r'] ≠ [] := by rw [hbody]; simp
                                  have hbe : (bodyTL2 i [r']).isEmpty = false := by rw [hbody]; rfl
                                  have hobj : objTL2 zie (bodyTL2 i [r']) = some (tl2WriteSize (bodyTL2 i [r']).length ++ bodyTL2 i [r']) := by
                                    unfold objTL2; rw [hbe]; rfl
                                  rw [hobj] at hl ⊢
                                  simp only [optBytes, List.length_append] at hl
                                  refine ⟨fun b hb => ?_, fun hn => by cases hn⟩
                                  cases hb
                                  refine ⟨by
                                    intro h0
                                    have h3 := congrArg List.length h0
                                    simp only [List.length_append, List.length_nil] at h3
                                    have : (bodyTL2 i [r']).length = 0 := by omega
                                    exact hbne (List.length_eq_zero_iff.mp this), fun rest => ?_⟩
                                  rw [List.append_assoc, sliceBody_obj _ _ (by omega)]
                                  simp only [hbe, Bool.false_eq_true, if_false]
                                  rw [hbody]
                                  obtain ⟨hh, hbit⟩ := readHead_maybe i hi63 r'.isSome (optBytes r')
                                  rw [hh]
                                  have hi0' : (i == 0) = false := by simpa using hi0
                                  simp only [hv, hvi, hmaybe, if_true, hflds, hbit, hi0', Bool.false_eq_true, if_false]
                                  cases r' with
                                  | none =>
                                    simp only [Option.isSome_none, Bool.false_eq_true, if_false]
                                    rw [h2 rfl]
                                  | some b' =>
                                    simp only [Option.isSome_some, if_true, optBytes]
                                    have := (h1 b' rfl).2 []
                                    rw [List.append_nil] at this
                                    rw [this]
                    | _ => exact absurd hg (by simp)
                  · -- ordinary variant: the variant struct is written as an object with its index
                    simp only [hm, Bool.false_eq_true, if_false] at hg he
                    cases fuel with
                    | zero => exact absurd hg (by simp [Good])
                    | succ fuel' =>
                      have HC' : FieldCodecs (Good d fuel') (encTL2 d fuel') (readTL2 d fuel') (zeroVal d fuel') :=
                        ⟨ih fuel' (by omega), enc_false_some d fuel'⟩
                      unfold Good at hg
                      obtain ⟨hlen', hg⟩ := hg
                      have hl' := hlen' r he
                      unfold encTL2 at he
                      rw [hvi] at hg he
                      simp only [] at hg he
                      have hal : ((vs.isAlias || vs.isUnwrap) && !vs.isUnionElement) = false := by rw [hue]; simp
                      rw [hal] at hg he
                      simp only [Bool.false_eq_true, if_false] at hg he
                      obtain ⟨hui, hg⟩ := hg
                      have hsu : structUI vs = i := by unfold structUI; rw [hue]; exact hidx
                      rw [hsu] at hui he
                      cases x with
                      | struct xs =>
                        simp only [] at hg he
                        cases hf : encFieldsWith (encTL2 d fuel') vs.fields xs with
                        | error e => rw [hf] at he; cases he
                        | ok rs =>
                          rw [hf] at he
                          cases he
                          obtain ⟨hA, hB⟩ := obj_components d fuel' HC' vs.fields i hui xs rs zie hg hf hl'
                          have hzv : zeroVal d (fuel' + 1) vi = .struct (zeroFieldsWith (zeroVal d fuel') vs.fields) := by
                            unfold zeroVal; rw [hvi]
                          by_cases hbe : bodyTL2 i rs = []
                          · obtain ⟨hi0, hxs, hobj⟩ := hA hbe
                            rw [hobj]
                            have hz2 := hzero hi0
                            refine ⟨fun b hb => ?_, fun hn => ?_⟩
                            · cases zie with
                              | true => simp at hb
                              | false =>
                                simp only [Bool.false_eq_true, if_false, Option.some.injEq] at hb
                                subst hb
                                refine ⟨by simp, fun rest => ?_⟩
                                simp only [List.cons_append, List.nil_append, sliceBody_zero, List.isEmpty_nil, if_true]
                                rw [hz2, hzv, hxs, hi0]
                            · rw [hz2, hzv, hxs, hi0]
                          · obtain ⟨block, cur1, hobj, hlen63, hne, hh, hfs⟩ := hB hbe
                            rw [hobj]
                            refine ⟨fun b hb => ?_, fun hn => by cases hn⟩
                            cases hb
                            refine ⟨by
                              intro h0
                              have h3 := congrArg List.length h0
                              simp only [List.length_append, List.length_nil] at h3
                              have : (bodyTL2 i rs).length = 0 := by omega
                              exact hbe (List.length_eq_zero_iff.mp this), fun rest => ?_⟩
                            rw [List.append_assoc, sliceBody_obj _ _ hlen63]
                            simp only [hne, Bool.false_eq_true, if_false, hh, hv, hvi]
                            have hnm : u.isMaybe = false := by
                              cases hmm : u.isMaybe with
                              | false => rfl
                              | true =>
                                -- a Maybe's first variant has no fields, so its body is empty
                                have hi0 : i = 0 := by
                                  cases hi : (i != 0) with
                                  | false => simpa using hi
                                  | true => rw [hmm, hi] at hm; exact absurd rfl hm
                                have hf0 := hmb0 hmm hi0
                                rw [hf0] at hf
                                cases xs with
                                | nil =>
                                  simp only [encFieldsWith] at hf
                                  cases hf
                                  rw [hi0] at hbe
                                  exact absurd bodyTL2_nil hbe
                                | cons _ _ => simp [encFieldsWith] at hf
                            simp only [hnm, Bool.false_eq_true, if_false, hfs]
                      | _ => exact absurd hg (by simp)
                | _ => exact absurd hvar (by simp)
          | _ => exact absurd hg (by simp)
        | array a =>
          simp only [] at hg he ⊢
          cases v with
          | arr es =>
            simp only [] at hg he
            obtain ⟨hn63, hfix, hnb, hge⟩ := hg
            have hc1 : (a.isTuple && !a.dynamic && decide (es.length ≠ a.count)) = false := by
              cases hfx : (a.isTuple && !a.dynamic) with
              | false => rfl
              | true => simp [hfix hfx]
            rw [hc1] at he
            simp only [Bool.false_eq_true, if_false, hnb] at he
            cases es with
            | nil =>
              simp only [List.isEmpty_nil, if_true] at he
              cases he
              refine ⟨fun b hb => ?_, fun hn => ?_⟩
              · cases zie with
                | true => simp at hb
                | false =>
                  simp only [Bool.false_eq_true, if_false, Option.some.injEq] at hb
                  subst hb
                  refine ⟨by simp, fun rest => ?_⟩
                  simp only [List.cons_append, List.nil_append, sliceBody_zero, List.isEmpty_nil, if_true, hnb]
                  cases hfx : (a.isTuple && !a.dynamic) with
                  | true =>
                    have hc0 : a.count = 0 := (hfix hfx).symm
                    simp [readElems2With, padTo, hc0]
                  | false => simp [readElems2With]
              · cases hfx : (a.isTuple && !a.dynamic) with
                | true =>
                  have hc0 : a.count = 0 := (hfix hfx).symm
                  simp [hc0]
                | false => simp
            | cons e es' =>
              simp only [List.isEmpty_cons, Bool.false_eq_true, if_false] at he
              cases hce : encElemsWith (encTL2 d fuel) a.elem.ty (e :: es') with
              | error e => rw [hce] at he; cases he
              | ok cbytes =>
                rw [hce] at he
                cases he
                obtain ⟨hle, hrd⟩ := elems_roundtrip HC a.elem.ty (e :: es') cbytes hge hce
                simp only [optBytes, List.length_append] at hl
                refine ⟨fun b hb => ?_, fun hn => by cases hn⟩
                cases hb
                refine ⟨by
                  intro h0
                  have h1 := congrArg List.length h0
                  simp only [List.length_append, List.length_nil, List.length_cons] at h1 hle
                  omega, fun rest => ?_⟩
                rw [List.append_assoc, sliceBody_obj _ _ (by simp only [List.length_append]; omega)]
                have hne : (tl2WriteSize (e :: es').length ++ cbytes).isEmpty = false := by
                  cases hh : tl2WriteSize (e :: es').length ++ cbytes with
                  | nil =>
                    have := congrArg List.length hh
                    simp only [List.length_append, List.length_nil, List.length_cons] at this hle
                    omega
                  | cons _ _ => rfl
                simp only [hne, Bool.false_eq_true, if_false, parseSize]
                rw [tl2_size_roundtrip _ _ hn63]
                simp only [liftP, hnb]
                have hrd0 := hrd []
                rw [List.append_nil] at hrd0
                cases hfx : (a.isTuple && !a.dynamic) with
                | true =>
                  have hcnt : (e :: es').length = a.count := hfix hfx
                  simp only [if_true, Bool.false_eq_true, if_false]
                  rw [← hcnt, Nat.min_self, hrd0]
                  simp only []
                  rw [padTo_self _ _ _ rfl]
                | false =>
                  simp only [Bool.false_eq_true, if_false]
                  have : ¬ ((e :: es').length > cbytes.length) := by omega
                  simp only [this, if_false, hrd0]
          | _ => exact absurd hg (by simp)
        | dict a =>
          simp only [] at hg he ⊢
          cases v with
          | arr es =>
            simp only [] at hg he
            obtain ⟨hn63, ⟨k, hk, hnorm⟩, hge⟩ := hg
            cases es with
            | nil =>
              simp only [List.isEmpty_nil, if_true] at he
              cases he
              refine ⟨fun b hb => ?_, fun hn => rfl⟩
              cases zie with
              | true => simp at hb
              | false =>
                simp only [Bool.false_eq_true, if_false, Option.some.injEq] at hb
                subst hb
                refine ⟨by simp, fun rest => ?_⟩
                simp only [List.cons_append, List.nil_append, sliceBody_zero, List.isEmpty_nil, if_true, hk]
                simp [readElems2With, dictNormalize]
            | cons e es' =>
              simp only [List.isEmpty_cons, Bool.false_eq_true, if_false] at he
              cases hce : encElemsWith (encTL2 d fuel) a.elem.ty (e :: es') with
              | error e => rw [hce] at he; cases he
              | ok cbytes =>
                rw [hce] at he
                cases he
                obtain ⟨hle, hrd⟩ := elems_roundtrip HC a.elem.ty (e :: es') cbytes hge hce
                simp only [optBytes, List.length_append] at hl
                refine ⟨fun b hb => ?_, fun hn => by cases hn⟩
                cases hb
                refine ⟨by
                  intro h0
                  have h1 := congrArg List.length h0
                  simp only [List.length_append, List.length_nil, List.length_cons] at h1 hle
                  omega, fun rest => ?_⟩
                rw [List.append_assoc, sliceBody_obj _ _ (by simp only [List.length_append]; omega)]
                have hne : (tl2WriteSize (e :: es').length ++ cbytes).isEmpty = false := by
                  cases hh : tl2WriteSize (e :: es').length ++ cbytes with
                  | nil =>
                    have := congrArg List.length hh
                    simp only [List.length_append, List.length_nil, List.length_cons] at this hle
                    omega
                  | cons _ _ => rfl
                simp only [hne, Bool.false_eq_true, if_false, parseSize]
                rw [tl2_size_roundtrip _ _ hn63]
                simp only [liftP]
                have hrd0 := hrd []
                rw [List.append_nil] at hrd0
                have : ¬ ((e :: es').length > cbytes.length) := by omega
                simp only [this, if_false, hk, hrd0, hnorm]
          | _ => exact absurd hg (by simp)

/-! ### the writer is total on the covered values -/

theorem goodPrim_enc (k : PrimK) (zie : Bool) (v : Val) (h : goodPrim k zie v = true) :
    ∃ r, encPrim k zie v = .ok r := by
  cases k <;> cases v <;> (try exact ⟨_, encPrim_eq _ _ _ _ rfl⟩) <;> exact absurd h (by simp [goodPrim])

section total
variable {good : Nat → Bool → Val → Prop} {enc : Enc} {z : Nat → Val} {plainTrue isTrue : Nat → Bool}

theorem encField_ok (E : ∀ ty zie x, good ty zie x → ∃ r, enc ty zie x = .ok r)
    (f : Field) (v : Option Val) (hs : FieldSpec good z plainTrue isTrue f v) :
    ∃ r, encField enc f v = .ok r := by
  obtain ⟨_, _, hs⟩ := hs
  unfold encField
  by_cases ho : f.omitted = true
  · simp only [ho, if_true]; exact ⟨_, rfl⟩
  · simp only [ho, Bool.false_eq_true, if_false] at hs ⊢
    by_cases hb : f.isBit = true
    · simp only [hb, if_true] at hs
      obtain ⟨htb, hv⟩ := hs
      simp only [htb, if_true]
      rcases hv with hv | hv <;> subst hv
      · exact ⟨_, rfl⟩
      · simp only [hb, if_true]; exact ⟨_, rfl⟩
    · simp only [hb, Bool.false_eq_true, if_false] at hs
      by_cases hp : plainTrue f.ty = true
      · simp only [hp, if_true] at hs
        obtain ⟨htb, hv, hgz⟩ := hs
        subst hv
        simp only [htb, Bool.false_eq_true, if_false]
        exact E _ _ _ hgz
      · simp only [hp, Bool.false_eq_true, if_false] at hs
        by_cases htb : f.tl2bit.isSome = true
        · simp only [htb, if_true] at hs ⊢
          cases v with
          | none => exact ⟨_, rfl⟩
          | some x => simp only [hb, Bool.false_eq_true, if_false]; exact E _ _ _ hs
        · simp only [htb, Bool.false_eq_true, if_false] at hs ⊢
          cases v with
          | none => exact absurd hs (by simp)
          | some x => exact E _ _ _ hs

theorem encFields_ok (E : ∀ ty zie x, good ty zie x → ∃ r, enc ty zie x = .ok r) :
    ∀ (fs : List Field) (vs : List (Option Val)), GoodFields good z plainTrue isTrue fs vs →
      ∃ rs, encFieldsWith enc fs vs = .ok rs := by
  intro fs
  induction fs with
  | nil =>
    intro vs hg
    cases vs with
    | nil => exact ⟨_, rfl⟩
    | cons _ _ => exact absurd hg (by simp [GoodFields])
  | cons f fs ih =>
    intro vs hg
    cases vs with
    | nil => exact absurd hg (by simp [GoodFields])
    | cons v vs =>
      obtain ⟨hs, hg'⟩ := hg
      obtain ⟨r, hr⟩ := encField_ok E f v hs
      obtain ⟨rs, hrs⟩ := ih vs hg'
      exact ⟨r :: rs, by simp only [encFieldsWith, hr, hrs]⟩

theorem encElems_ok (E : ∀ ty zie x, good ty zie x → ∃ r, enc ty zie x = .ok r) (ty : Nat) :
    ∀ (es : List Val), (∀ e ∈ es, good ty false e) → ∃ c, encElemsWith enc ty es = .ok c := by
  intro es
  induction es with
  | nil => intro _; exact ⟨_, rfl⟩
  | cons e es ih =>
    intro hg
    obtain ⟨r, hr⟩ := E ty false e (hg e (List.mem_cons_self ..))
    obtain ⟨c, hc⟩ := ih (fun e' he' => hg e' (List.mem_cons_of_mem _ he'))
    exact ⟨optBytes r ++ c, by simp only [encElemsWith, hr, hc]⟩

end total

/-- **the writer is total** on the covered values (no shape / descriptor / fuel error) -/
theorem good_enc_ok (d : Desc) : ∀ (fuel ty : Nat) (zie : Bool) (v : Val),
    Good d fuel ty zie v → ∃ r, encTL2 d fuel ty zie v = .ok r := by
  intro fuel
  induction fuel with
  | zero => intro ty zie v hg; exact absurd hg (by simp [Good])
  | succ fuel ih =>
    intro ty zie v hg
    unfold Good at hg
    obtain ⟨hlen, hg⟩ := hg
    unfold encTL2
    cases hty : d.get? ty with
    | none => rw [hty] at hg; exact absurd hg (by simp)
    | some inst =>
      rw [hty] at hg
      cases inst with
      | prim k => exact goodPrim_enc k zie v hg
      | struct s =>
        simp only [] at hg ⊢
        by_cases hal : ((s.isAlias || s.isUnwrap) && !s.isUnionElement) = true
        · simp only [hal, if_true] at hg ⊢
          split at hg
          · rename_i f x hfs
            rw [hfs]
            exact ih _ _ _ hg.2
          · exact absurd hg (by simp)
        · simp only [hal, Bool.false_eq_true, if_false] at hg ⊢
          obtain ⟨_, hg⟩ := hg
          cases v with
          | struct vs =>
            simp only [] at hg ⊢
            obtain ⟨rs, hrs⟩ := encFields_ok ih s.fields vs hg
            rw [hrs]; exact ⟨_, rfl⟩
          | _ => exact absurd hg (by simp)
      | union u =>
        simp only [] at hg ⊢
        cases v with
        | union i x =>
          simp only [] at hg ⊢
          cases hv : u.variants[i]? with
          | none => rw [hv] at hg; exact absurd hg (by simp)
          | some p =>
            obtain ⟨vi, nm⟩ := p
            rw [hv] at hg
            simp only [] at hg ⊢
            obtain ⟨_, hg⟩ := hg
            by_cases hm : (u.isMaybe && i != 0) = true
            · simp only [hm, if_true] at hg ⊢
              obtain ⟨_, hg⟩ := hg
              cases hvi : d.get? vi with
              | none => rw [hvi] at hg; exact absurd hg (by simp)
              | some vinst =>
                rw [hvi] at hg
                cases vinst with
                | struct vs =>
                  cases x with
                  | struct xs =>
                    cases xs with
                    | nil => exact absurd hg (by simp)
                    | cons o t =>
                      cases o with
                      | none => exact absurd hg (by simp)
                      | some y =>
                        cases t with
                        | cons _ _ => exact absurd hg (by simp)
                        | nil =>
                          simp only [] at hg ⊢
                          cases hflds : vs.fields with
                          | nil => rw [hflds] at hg; exact absurd hg (by simp)
                          | cons f ft =>
                            cases ft with
                            | cons _ _ => rw [hflds] at hg; exact absurd hg (by simp)
                            | nil =>
                              rw [hflds] at hg
                              simp only [] at hg ⊢
                              obtain ⟨r, hr⟩ := ih _ _ _ hg
                              rw [hr]; exact ⟨_, rfl⟩
                  | _ => exact absurd hg (by simp)
                | _ => exact absurd hg (by simp)
            · simp only [hm, Bool.false_eq_true, if_false] at hg ⊢
              exact ih _ _ _ hg
        | _ => exact absurd hg (by simp)
      | array a =>
        simp only [] at hg ⊢
        cases v with
        | arr es =>
          simp only [] at hg ⊢
          obtain ⟨_, hfix, hnb, hge⟩ := hg
          have hc1 : (a.isTuple && !a.dynamic && decide (es.length ≠ a.count)) = false := by
            cases hfx : (a.isTuple && !a.dynamic) with
            | false => rfl
            | true => simp [hfix hfx]
          rw [hc1]
          simp only [Bool.false_eq_true, if_false, hnb]
          split
          · exact ⟨_, rfl⟩
          · obtain ⟨c, hc⟩ := encElems_ok ih a.elem.ty es hge
            rw [hc]; exact ⟨_, rfl⟩
        | _ => exact absurd hg (by simp)
      | dict a =>
        simp only [] at hg ⊢
        cases v with
        | arr es =>
          simp only [] at hg ⊢
          obtain ⟨_, _, hge⟩ := hg
          split
          · exact ⟨_, rfl⟩
          · obtain ⟨c, hc⟩ := encElems_ok ih a.elem.ty es hge
            rw [hc]; exact ⟨_, rfl⟩
        | _ => exact absurd hg (by simp)

end TLVerif.Codec
