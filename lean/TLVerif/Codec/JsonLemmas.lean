import TLVerif.Codec.JsonTextLemmas
/-! Lemmas about `writeJson` / `readJson` used by `Props/C05.lean` and `Props/C06.lean`. -/
namespace TLVerif.Codec
open TLVerif.Prim

/-! ### every tree the writer produces has well-formed number tokens -/

theorem writePrimJ_wf (k : PrimK) (v : Val) (j : Json) (h : writePrimJ k v = .ok j) : j.Wf := by
  unfold writePrimJ at h
  split at h
  all_goals first
    | (cases h; simp only [Json.Wf]; first | exact natText_isNumber _ | exact intText_isNumber _ _)
    | (split at h <;> cases h <;> simp only [Json.Wf] <;> first | exact floatText_isNumber _ _ | trivial)
    | (cases h; split <;> simp [Json.Wf, WfMembers])
    | (cases h; simp [Json.Wf])
    | cases h

def WjWf (wj : Wj) : Prop := ∀ ty na x j, wj ty na x = .ok j → j.Wf

theorem writeElemsJ_wf (wj : Wj) (hw : WjWf wj) (f : Field) (na : List Nat) :
    ∀ (vs : List Val) (js : List Json), writeElemsJ wj f na vs = .ok js → WfList js := by
  intro vs
  induction vs with
  | nil => intro js h; simp [writeElemsJ] at h; cases h; trivial
  | cons v vs ih =>
    intro js h
    unfold writeElemsJ at h
    split at h
    · cases h
    · rename_i j hj
      split at h
      · cases h
      · rename_i js' hjs
        cases h
        exact ⟨hw _ _ _ _ hj, ih _ hjs⟩

theorem writeFieldsJ_wf (d : Desc) (fuel : Nat) (wj : Wj) (hw : WjWf wj) (s : StructD) (params : List Nat) (all : List (Option Val)) :
    ∀ (fs : List Field) (vs : List (Option Val)) (kvs : List (Bytes × Json)),
      writeFieldsJ d fuel wj s params all fs vs = .ok kvs → WfMembers kvs := by
  intro fs
  induction fs with
  | nil =>
    intro vs kvs h
    cases vs with
    | nil => simp [writeFieldsJ] at h; cases h; trivial
    | cons _ _ => simp [writeFieldsJ] at h
  | cons f fs ih =>
    intro vs kvs h
    cases vs with
    | nil => simp [writeFieldsJ] at h
    | cons v vs =>
      unfold writeFieldsJ at h
      split at h
      · cases h
      · rename_i rest hrest
        have hr := ih _ _ hrest
        split at h
        · cases h; exact hr
        · split at h
          · split at h
            · cases h; split
              · exact ⟨trivial, hr⟩
              · exact hr
            · split at h
              · cases h; exact hr
              · split at h
                · split at h
                  · cases h; exact hr
                  · split at h
                    · cases h
                    · split at h
                      · cases h
                      · rename_i j hj; cases h; exact ⟨hw _ _ _ _ hj, hr⟩
                · split at h
                  · cases h
                  · split at h
                    · split at h
                      · cases h; exact hr
                      · split at h
                        · cases h
                        · cases h; exact hr
                    · split at h
                      · cases h
                      · rename_i j hj; cases h; exact ⟨hw _ _ _ _ hj, hr⟩
          · cases h

theorem writeDictJ_wf (d : Desc) (wj : Wj) (hw : WjWf wj) (kf vf : Field) (kna vna : List Nat) :
    ∀ (es : List Val) (kvs : List (Bytes × Json)), writeDictJ d wj kf vf kna vna es = .ok kvs → WfMembers kvs := by
  intro es
  induction es with
  | nil => intro kvs h; simp [writeDictJ] at h; cases h; trivial
  | cons e es ih =>
    intro kvs h
    unfold writeDictJ at h
    split at h
    · rename_i heq; cases heq
    · rename_i k v es' heq
      cases heq
      simp only [] at h
      split at h
      · rename_i kb jv rest _ hjv hrest
        cases h
        exact ⟨hw _ _ _ _ hjv, ih _ hrest⟩
      all_goals cases h
    · cases h

theorem writeJson_wf (d : Desc) : ∀ fuel, WjWf (writeJson d fuel) := by
  intro fuel
  induction fuel with
  | zero => intro ty na x j h; simp [writeJson] at h
  | succ fuel ih =>
    intro ty na x j h
    unfold writeJson at h
    split at h
    · cases h
    · exact writePrimJ_wf _ _ _ h
    · -- struct
      split at h
      · split at h
        · split at h
          · split at h
            · exact ih _ _ _ _ h
            · cases h
          · cases h
        · cases hf : writeFieldsJ d fuel (writeJson d fuel) _ na _ _ _ with
          | error e => rw [hf] at h; cases h
          | ok kvs =>
            rw [hf] at h
            cases h
            simp only [Json.Wf]
            exact writeFieldsJ_wf d fuel _ ih _ _ _ _ _ _ hf
      · cases h
    · -- union
      split at h
      · split at h
        · split at h
          · split at h
            · cases h; simp [Json.Wf, WfMembers]
            · split at h
              · split at h
                · split at h
                  · cases h
                  · split at h
                    · cases h; simp [Json.Wf, WfMembers]
                    · split at h
                      · cases h
                      · rename_i j' hj'; cases h
                        simp only [Json.Wf, WfMembers]
                        exact ⟨trivial, ih _ _ _ _ hj', trivial⟩
                · cases h
              · cases h
          · simp only [] at h
            split at h
            · cases h; trivial
            · split at h
              · cases h; simp [Json.Wf, WfMembers]
              · split at h
                · cases h; simp [Json.Wf, WfMembers]
                · split at h
                  · cases h
                  · rename_i j' hj'; cases h
                    simp only [Json.Wf, WfMembers]
                    exact ⟨trivial, ih _ _ _ _ hj', trivial⟩
        · cases h
        · cases h
      · cases h
    · -- array
      split at h
      · split at h
        · split at h
          · cases h
          · split at h
            · cases h
            · cases hf : writeElemsJ (writeJson d fuel) _ _ _ with
              | error e => rw [hf] at h; cases h
              | ok js => rw [hf] at h; cases h; simp only [Json.Wf]; exact writeElemsJ_wf _ ih _ _ _ _ hf
        · cases hf : writeElemsJ (writeJson d fuel) _ _ _ with
          | error e => rw [hf] at h; cases h
          | ok js => rw [hf] at h; cases h; simp only [Json.Wf]; exact writeElemsJ_wf _ ih _ _ _ _ hf
      · cases h
      · cases h
    · -- dict
      split at h
      · split at h
        · split at h
          · cases hf : writeDictJ d (writeJson d fuel) _ _ _ _ _ with
            | error e => rw [hf] at h; cases h
            | ok kvs => rw [hf] at h; cases h; simp only [Json.Wf]; exact writeDictJ_wf d _ ih _ _ _ _ _ _ hf
          · cases h
        · cases h
      · cases h
      · cases h

/-! ### head readers: Maybe table, union forms -/

/-! ### Maybe: the six-row table of `Json2ReadMaybe` -/

theorem maybeHead_empty : readMaybeHead (some (.obj [])) = .ok (false, none) := by rfl
theorem maybeHead_value (v : Json) : readMaybeHead (some (.obj [(kValue, v)])) = .ok (true, some v) := by rfl
theorem maybeHead_okTrue : readMaybeHead (some (.obj [(kOk, .bool true)])) = .ok (true, none) := by rfl
theorem maybeHead_okTrue_value (v : Json) :
    readMaybeHead (some (.obj [(kOk, .bool true), (kValue, v)])) = .ok (true, some v) := by rfl
theorem maybeHead_value_okTrue (v : Json) :
    readMaybeHead (some (.obj [(kValue, v), (kOk, .bool true)])) = .ok (true, some v) := by rfl
theorem maybeHead_okFalse : readMaybeHead (some (.obj [(kOk, .bool false)])) = .ok (false, none) := by rfl
theorem maybeHead_okFalse_value (v : Json) :
    readMaybeHead (some (.obj [(kOk, .bool false), (kValue, v)])) = .error .rej := by rfl
theorem maybeHead_value_okFalse (v : Json) :
    readMaybeHead (some (.obj [(kValue, v), (kOk, .bool false)])) = .error .rej := by rfl
theorem maybeHead_nil : readMaybeHead none = .ok (false, none) := by rfl

theorem unionHead_string (t : Bytes) : readUnionHead (some (.str t)) = .ok (t, none) := by rfl
theorem unionHead_object (t : Bytes) : readUnionHead (some (.obj [(kType, .str t)])) = .ok (t, none) := by rfl
theorem unionHead_object_value (t : Bytes) (v : Json) :
    readUnionHead (some (.obj [(kType, .str t), (kValue, v)])) = .ok (t, some v) := by rfl
theorem unionHead_value_first (t : Bytes) (v : Json) :
    readUnionHead (some (.obj [(kValue, v), (kType, .str t)])) = .ok (t, some v) := by rfl

/-! ### readJson depends on the head only -/

theorem readJson_union_congr (d : Desc) (lg : Bool) (pk : Bytes → Option Json) (fuel ty : Nat) (params : List Nat)
    (u : UnionD) (hd : d.get? ty = some (.union u)) (hm : u.isMaybe = false) (j j' : Option Json)
    (hh : readUnionHead j = readUnionHead j') :
    readJson d lg pk (fuel + 1) ty params j = readJson d lg pk (fuel + 1) ty params j' := by
  unfold readJson
  simp only [hd, hm, hh]
  split <;> simp

theorem readJson_maybe_congr (d : Desc) (lg : Bool) (pk : Bytes → Option Json) (fuel ty : Nat) (params : List Nat)
    (u : UnionD) (hd : d.get? ty = some (.union u)) (hm : u.isMaybe = true) (j j' : Option Json)
    (hh : readMaybeHead j = readMaybeHead j') :
    readJson d lg pk (fuel + 1) ty params j = readJson d lg pk (fuel + 1) ty params j' := by
  unfold readJson
  simp only [hd, hm, hh]
  split <;> simp

theorem readJson_maybe_rej (d : Desc) (lg : Bool) (pk : Bytes → Option Json) (fuel ty : Nat) (params vparams : List Nat)
    (u : UnionD) (hd : d.get? ty = some (.union u)) (hm : u.isMaybe = true)
    (hp : natArgVals [] params u.elemNatArgs = some vparams) (j : Option Json)
    (hh : readMaybeHead j = .error .rej) :
    readJson d lg pk (fuel + 1) ty params j = .error .rej := by
  unfold readJson
  simp only [hd, hm, hh, hp]
  rfl

theorem readJson_struct_nil (d : Desc) (lg : Bool) (pk : Bytes → Option Json) (fuel ty : Nat) (params : List Nat)
    (s : StructD) (hd : d.get? ty = some (.struct s)) (ht : (s.isTypedef || s.isUnwrap) = false) :
    readJson d lg pk (fuel + 1) ty params none = readJson d lg pk (fuel + 1) ty params (some (.obj [])) := by
  unfold readJson
  simp only [hd, ht]
  rfl

/-! ### unknown / duplicate keys -/

theorem keysOk_false_of_unknown (s : StructD) (kvs : List (Bytes × Json)) (kv : Bytes × Json) (hm : kv ∈ kvs)
    (hu : findField s kv.1 s.fields 0 = none) : keysOk s kvs = false := by
  unfold keysOk
  rw [List.all_eq_false]
  exact ⟨kv, hm, by simp [hu]⟩

theorem keysOk_false_of_dup (s : StructD) (kvs : List (Bytes × Json)) (kv : Bytes × Json) (hm : kv ∈ kvs)
    (hc : countKey kv.1 kvs ≠ 1) : keysOk s kvs = false := by
  unfold keysOk
  rw [List.all_eq_false]
  refine ⟨kv, hm, ?_⟩
  simp [hc]

theorem readStructJ_rej_of_keys (d : Desc) (fuel : Nat) (rj : Rj) (s : StructD) (params : List Nat) (kvs : List (Bytes × Json))
    (h : keysOk s kvs = false) : readStructJ d fuel rj s params kvs = .error .rej := by
  unfold readStructJ
  simp [h]

theorem readJson_struct_obj (d : Desc) (lg : Bool) (pk : Bytes → Option Json) (fuel ty : Nat) (params : List Nat)
    (s : StructD) (hd : d.get? ty = some (.struct s)) (ht : (s.isTypedef || s.isUnwrap) = false) (kvs : List (Bytes × Json)) :
    readJson d lg pk (fuel + 1) ty params (some (.obj kvs)) = readStructJ d fuel (readJson d lg pk fuel) s params kvs := by
  conv => lhs; unfold readJson
  simp [hd, ht]

/-- a string twice in an object: `countKey` ≥ 2 -/
theorem countKey_dup (k : Bytes) (a b c : List (Bytes × Json)) (j1 j2 : Json) :
    countKey k (a ++ (k, j1) :: b ++ (k, j2) :: c) ≠ 1 := by
  have happ : ∀ (x y : List (Bytes × Json)), countKey k (x ++ y) = countKey k x + countKey k y := by
    intro x y
    induction x with
    | nil => simp [countKey]
    | cons h t ih => obtain ⟨hk, hj⟩ := h; simp only [List.cons_append, countKey, ih]; omega
  have h1 : countKey k ((k, j1) :: b) = 1 + countKey k b := by simp [countKey]
  have h2 : countKey k ((k, j2) :: c) = 1 + countKey k c := by simp [countKey]
  rw [happ, happ, h2]
  rw [show (k, j1) :: b = [(k, j1)] ++ b from rfl, happ]
  simp [countKey]
  omega

/-! ### tuples, dictionaries, numbers as strings -/

/-- tuples: the number of elements must equal the size parameter / constant -/
theorem readJson_tuple_len (d : Desc) (lg : Bool) (pk : Bytes → Option Json) (fuel ty : Nat) (params na : List Nat)
    (a : ArrayD) (hd : d.get? ty = some (.array a)) (ht : a.isTuple = true) (n : Nat)
    (hn : (if a.dynamic then params[0]? else some a.count) = some n)
    (hna : natArgVals [] params a.elem.natArgs = some na) (es : List Json) (hl : es.length ≠ n) :
    readJson d lg pk (fuel + 1) ty params (some (.arr es)) = .error .rej := by
  conv => lhs; unfold readJson
  simp [hd, ht, hna, hn, hl]

/-- an absent tuple (Go `in == nil`) is accepted only for size 0 -/
theorem readJson_tuple_nil (d : Desc) (lg : Bool) (pk : Bytes → Option Json) (fuel ty : Nat) (params na : List Nat)
    (a : ArrayD) (hd : d.get? ty = some (.array a)) (ht : a.isTuple = true) (n : Nat)
    (hn : (if a.dynamic then params[0]? else some a.count) = some n)
    (hna : natArgVals [] params a.elem.natArgs = some na) (hl : n ≠ 0) :
    readJson d lg pk (fuel + 1) ty params none = .error .rej := by
  conv => lhs; unfold readJson
  have : (0 : Nat) ≠ n := fun h => hl h.symm
  simp [hd, ht, hna, hn, this]

/-- a dictionary instance is read from a JSON object only; the "array of pairs" spelling is rejected by the generated code -/
theorem readJson_dict_pairs_rejected (d : Desc) (lg : Bool) (pk : Bytes → Option Json) (fuel ty : Nat) (params : List Nat)
    (a : ArrayD) (hd : d.get? ty = some (.dict a)) (es : List Json) :
    readJson d lg pk (fuel + 1) ty params (some (.arr es)) = .error .rej ∨
    readJson d lg pk (fuel + 1) ty params (some (.arr es)) = .error .desc := by
  conv => lhs; unfold readJson
  conv => rhs; lhs; unfold readJson
  simp only [hd]
  split
  · split
    · split <;> simp
    · simp
  · simp

/-- numbers may be given as strings holding the same decimal text -/
theorem charsOfBytes_ascii (t : List Char) (h : ∀ c ∈ t, c.toNat < 256) :
    charsOfBytes (t.map (fun c => byteOf c.toNat)) = t := by
  induction t with
  | nil => rfl
  | cons c cs ih =>
    have hc := h c (by simp)
    simp only [charsOfBytes, List.map_cons, List.map_map] at *
    rw [ih (fun x hx => h x (by simp [hx]))]
    congr 1
    simp only [byteOf]
    have : (UInt8.ofNat c.toNat).toNat = c.toNat := by simp; omega
    rw [this]
    exact Char.ofNat_toNat c

theorem int_number_as_string (signed : Bool) (bits : Nat) (t : List Char) (h : ∀ c ∈ t, c.toNat < 256) :
    readIntJ signed bits (some (.str (t.map (fun c => byteOf c.toNat)))) = readIntJ signed bits (some (.num t)) := by
  simp only [readIntJ, charsOfBytes_ascii t h]

theorem float_number_as_string (f : FloatFmt) (t : List Char) (h : ∀ c ∈ t, c.toNat < 256) :
    readFloatJ f (some (.str (t.map (fun c => byteOf c.toNat)))) = readFloatJ f (some (.num t)) := by
  simp only [readFloatJ, charsOfBytes_ascii t h]

/-! ### mask propagation: steps -/

theorem testBit_eq (n b : Nat) : testBit n b = Nat.testBit n b := by
  unfold testBit
  rw [Nat.testBit_eq_decide_div_mod_eq]
  by_cases h : n / 2 ^ b % 2 = 1 <;> simp [h]

theorem testBit_setBit (n bit b : Nat) : testBit (setBit n bit) b = (testBit n b || decide (bit = b)) := by
  simp only [testBit_eq, setBit, Nat.testBit_or, Nat.testBit_two_pow]

theorem testBit_setBit_self (n bit : Nat) : testBit (setBit n bit) bit = true := by
  simp [testBit_setBit]

/-- one step of the recursive propagation: a field under a local mask sets its bit in the mask field and continues with
that mask field (which may itself be masked) -/
theorem propagateMask_local_step (s : StructD) (params : List Nat) (fuel : Nat) (cur anc : Field) (vals : List (Option Val))
    (a bit : Nat) (hm : cur.mask = some (.field a, bit)) (ha : s.fields[a]? = some anc) :
    propagateMask s params (fuel + 1) cur vals = propagateMask s params fuel anc (setNatField vals a bit) := by
  conv => lhs; unfold propagateMask
  simp [hm, ha]

/-- at an external (nat parameter) or constant mask the bit must already be set — for types generated without TL2 -/
theorem propagateMask_external_zero_rejected (s : StructD) (params : List Nat) (fuel : Nat) (cur : Field) (vals : List (Option Val))
    (m : NatArg) (bit mv : Nat) (hm : cur.mask = some (m, bit)) (hext : ∀ a, m ≠ .field a) (ht : s.hasTL2 = false)
    (hv : natArgVal vals params m = some mv) (hb : testBit mv bit = false) :
    propagateMask s params (fuel + 1) cur vals = .error .rej := by
  conv => lhs; unfold propagateMask
  cases m with
  | field a => exact absurd rfl (hext a)
  | num n => simp [hm, ht, hv, hb]
  | param i => simp [hm, ht, hv, hb]

theorem propagateMask_external_ok (s : StructD) (params : List Nat) (fuel : Nat) (cur : Field) (vals : List (Option Val))
    (m : NatArg) (bit mv : Nat) (hm : cur.mask = some (m, bit)) (hext : ∀ a, m ≠ .field a)
    (hv : natArgVal vals params m = some mv) (hb : s.hasTL2 = true ∨ testBit mv bit = true) :
    propagateMask s params (fuel + 1) cur vals = .ok vals := by
  conv => lhs; unfold propagateMask
  cases m with
  | field a => exact absurd rfl (hext a)
  | num n => rcases hb with hb | hb <;> simp [hm, hv, hb]
  | param i => rcases hb with hb | hb <;> simp [hm, hv, hb]

/-! ### mask propagation: bits only get set -/


/-- value of a local `#` field as the mask tests see it -/
def natOf (vals : List (Option Val)) (i : Nat) : Option Nat := natArgVal vals [] (.field i)

theorem natArgVal_field (vals : List (Option Val)) (params : List Nat) (i : Nat) :
    natArgVal vals params (.field i) = natOf vals i := rfl

theorem natOf_setNatField_self (vals : List (Option Val)) (a bit n : Nat) (h : natOf vals a = some n) :
    natOf (setNatField vals a bit) a = some (setBit n bit) := by
  unfold natOf natArgVal at h
  unfold natOf natArgVal setNatField
  cases hv : vals[a]? with
  | none => simp [hv] at h
  | some o =>
    have hlt : a < vals.length := by
      have := List.getElem?_eq_some_iff.mp hv
      exact this.1
    cases o with
    | none =>
      simp [hv] at h; subst h
      simp [hlt]
    | some v =>
      cases v <;> simp [hv] at h
      subst h
      simp [hlt]

theorem natOf_setNatField_other (vals : List (Option Val)) (a bit i : Nat) (h : i ≠ a) :
    natOf (setNatField vals a bit) i = natOf vals i := by
  unfold natOf natArgVal setNatField
  have hne : ¬ a = i := fun e => h e.symm
  cases hv : vals[a]? with
  | none => rfl
  | some o =>
    cases o with
    | none => simp [hne]
    | some v => cases v <;> simp [hne]

/-- bits only get set: whatever bit a local mask field had before a `setNatField`, it still has -/
theorem setNatField_mono (vals : List (Option Val)) (a bit i m b : Nat) (h : natOf vals i = some m) (hb : testBit m b = true) :
    ∃ m', natOf (setNatField vals a bit) i = some m' ∧ testBit m' b = true := by
  by_cases hia : i = a
  · subst hia
    exact ⟨setBit m bit, natOf_setNatField_self vals i bit m h, by simp [testBit_setBit, hb]⟩
  · exact ⟨m, by rw [natOf_setNatField_other vals a bit i hia]; exact h, hb⟩

theorem propagateMask_mono (s : StructD) (params : List Nat) :
    ∀ (fuel : Nat) (cur : Field) (vals vals' : List (Option Val)), propagateMask s params fuel cur vals = .ok vals' →
      ∀ i m b, natOf vals i = some m → testBit m b = true → ∃ m', natOf vals' i = some m' ∧ testBit m' b = true := by
  intro fuel
  induction fuel with
  | zero => intro cur vals vals' h i m b hm hb; simp [propagateMask] at h; subst h; exact ⟨m, hm, hb⟩
  | succ fuel ih =>
    intro cur vals vals' h i m b hm hb
    unfold propagateMask at h
    split at h
    · cases h; exact ⟨m, hm, hb⟩
    · split at h
      · rename_i anc _
        obtain ⟨m1, hm1, hb1⟩ := setNatField_mono vals _ _ i m b hm hb
        exact ih anc _ _ h i m1 b hm1 hb1
      · cases h
    · split at h
      · cases h; exact ⟨m, hm, hb⟩
      · split at h
        · split at h
          · cases h; exact ⟨m, hm, hb⟩
          · cases h
        · cases h

/-- **masked_field_sets_local_bits**: after the propagation started for a field under local mask `a`, bit `bit`, that bit is set
in the mask field (and, by `propagateMask_local_step`, the same happened recursively for the mask field's own mask). -/
theorem propagateMask_sets_bit (s : StructD) (params : List Nat) (fuel : Nat) (cur anc : Field) (vals vals' : List (Option Val))
    (a bit n : Nat) (hm : cur.mask = some (.field a, bit)) (ha : s.fields[a]? = some anc) (hn : natOf vals a = some n)
    (h : propagateMask s params (fuel + 1) cur vals = .ok vals') :
    ∃ m', natOf vals' a = some m' ∧ testBit m' bit = true := by
  unfold propagateMask at h
  simp [hm, ha] at h
  exact propagateMask_mono s params fuel anc _ _ h a (setBit n bit) bit (natOf_setNatField_self vals a bit n hn)
    (by simp [testBit_setBit])

/-! ### true-typed fields given as false -/

/-- what the first pass records for a true-typed field given as a JSON boolean -/
theorem rsPass1_bit_slot (d : Desc) (fuel : Nat) (rj : Rj) (s : StructD) (kvs : List (Bytes × Json)) :
    ∀ (fs : List Field) (slots : List Slot) (vals : List (Option Val)), rsPass1 d fuel rj s kvs fs = .ok (slots, vals) →
      ∀ f ∈ fs, f.isBit = true → ∀ b, memberOf s f kvs = some (.bool b) →
        ∃ sl ∈ slots, sl.f = f ∧ sl.presented = true ∧ sl.trueVal = b := by
  intro fs
  induction fs with
  | nil => intro slots vals _ f hf; cases hf
  | cons g gs ih =>
    intro slots vals h f hf hbit b hmem
    unfold rsPass1 at h
    split at h
    · cases h
    · rename_i slots' vals' hrec
      have hcase : f = g ∨ f ∈ gs := by simpa using hf
      -- the head slot
      by_cases hg : g.isBit = true
      · simp only [hg, if_true] at h
        rcases hcase with rfl | hin
        · rw [hmem] at h
          simp at h
          obtain ⟨h1, _⟩ := h
          subst h1
          exact ⟨{ f := f, j := some (Json.bool b), presented := true, trueVal := b }, by simp, rfl, rfl, rfl⟩
        · split at h
          · cases h
            obtain ⟨sl, hsl, hp⟩ := ih _ _ hrec f hin hbit b hmem
            exact ⟨sl, by simp [hsl], hp⟩
          · cases h
            obtain ⟨sl, hsl, hp⟩ := ih _ _ hrec f hin hbit b hmem
            exact ⟨sl, by simp [hsl], hp⟩
          · cases h
      · have hin : f ∈ gs := by
          rcases hcase with rfl | hin
          · exact absurd hbit hg
          · exact hin
        obtain ⟨sl, hsl, hp⟩ := ih _ _ hrec f hin hbit b hmem
        have hg' : g.isBit = false := by simpa using hg
        simp only [hg', Bool.false_eq_true, if_false] at h
        split at h
        · split at h
          · split at h
            · cases h
            · cases h; exact ⟨sl, by simp [hsl], hp⟩
          · split at h
            · cases h; exact ⟨sl, by simp [hsl], hp⟩
            · split at h
              · cases h
              · cases h; exact ⟨sl, by simp [hsl], hp⟩
        · cases h; exact ⟨sl, by simp [hsl], hp⟩

theorem rsBadFalse_of_slot (s : StructD) (params : List Nat) (vals1 : List (Option Val)) (slots : List Slot)
    (ht : s.hasTL2 = false) (sl : Slot) (hin : sl ∈ slots) (hb : sl.f.isBit = true) (hp : sl.presented = true)
    (hv : sl.trueVal = false) (hm : presentOr sl.f vals1 params = true) : rsBadFalse s params vals1 slots = true := by
  unfold rsBadFalse
  simp only [ht, Bool.not_false, Bool.true_and, List.any_eq_true]
  exact ⟨sl, hin, by simp [hb, hp, hv, hm]⟩

/-- **true_false_with_bit_set_rejected** (types without TL2): a true-typed field given as `false` while, after all masks have
their final values, its mask bit is set, makes the struct reader fail. -/
theorem readStructJ_true_false_rejected (d : Desc) (fuel : Nat) (rj : Rj) (s : StructD) (params : List Nat)
    (kvs : List (Bytes × Json)) (slots : List Slot) (vals0 vals1 : List (Option Val))
    (h1 : rsPass1 d fuel rj s kvs s.fields = .ok (slots, vals0)) (h2 : rsProp s params slots vals0 = .ok vals1)
    (ht : s.hasTL2 = false) (f : Field) (hf : f ∈ s.fields) (hb : f.isBit = true)
    (hmem : memberOf s f kvs = some (.bool false)) (hm : presentOr f vals1 params = true) :
    readStructJ d fuel rj s params kvs = .error .rej := by
  obtain ⟨sl, hin, hsf, hp, hv⟩ := rsPass1_bit_slot d fuel rj s kvs s.fields slots vals0 h1 f hf hb false hmem
  have hbad := rsBadFalse_of_slot s params vals1 slots ht sl hin (by rw [hsf]; exact hb) hp hv (by rw [hsf]; exact hm)
  unfold readStructJ
  by_cases hk : keysOk s kvs = true
  · simp [hk, h1, h2, hbad]
  · simp [hk]

/-! ### omitted members, typedefs -/

/-- empty JSON value of a primitive (what the writer omits) -/
def emptyPrimJ : PrimK → Json
  | .str => .str []
  | .bool _ _ => .bool false
  | _ => .num ['0']

/-- **omitted_is_empty**, primitives: an absent member (Go `in == nil`) reads as the empty value -/
theorem readPrimJ_nil_eq_empty (k : PrimK) (hk : k ≠ .bit) : readPrimJ k none = readPrimJ k (some (emptyPrimJ k)) := by
  cases k <;> first | rfl | exact absurd rfl hk

/-- typedef / unwrapped wrappers read exactly like their only field -/
theorem readJson_typedef (d : Desc) (lg : Bool) (pk : Bytes → Option Json) (fuel ty : Nat) (params na : List Nat)
    (s : StructD) (f : Field) (hd : d.get? ty = some (.struct s)) (ht : (s.isTypedef || s.isUnwrap) = true) (hf : s.fields = [f])
    (hna : natArgVals [] params f.natArgs = some na) (j : Option Json) :
    readJson d lg pk (fuel + 1) ty params j = (readJson d lg pk fuel f.ty na j).map (fun x => .struct [some x]) := by
  conv => lhs; unfold readJson
  simp [hd, ht, hf, hna]

end TLVerif.Codec
