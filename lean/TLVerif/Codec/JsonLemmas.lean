import TLVerif.Codec.JsonTextLemmas
/-! Lemmas about `writeJson` / `readJson` used by `Props/C05.lean` and `Props/C06.lean`. -/
namespace TLVerif.Codec
open TLVerif.Prim

/-! ### every tree the writer produces has well-formed number tokens -/

theorem writePrimJ_wf (k : PrimK) (v : Val) (j : Json) (h : writePrimJ k v = .ok j) : j.Wf := by
  unfold writePrimJ at h
  split at h
  all_goals first
    | (cases h; simp only [Json.Wf]; first | exact natText_isNumber _ | exact intText_isNumber _ _)
    | (split at h <;> cases h <;> simp only [Json.Wf] <;> first | exact floatText_isNumber _ _ | trivial)
    | (cases h; split <;> simp [Json.Wf, WfMembers])
    | (cases h; simp [Json.Wf])
    | cases h

def WjWf (wj : Wj) : Prop := ∀ ty na x j, wj ty na x = .ok j → j.Wf

theorem writeElemsJ_wf (wj : Wj) (hw : WjWf wj) (f : Field) (na : List Nat) :
    ∀ (vs : List Val) (js : List Json), writeElemsJ wj f na vs = .ok js → WfList js := by
  intro vs
  induction vs with
  | nil => intro js h; simp [writeElemsJ] at h; cases h; trivial
  | cons v vs ih =>
    intro js h
    unfold writeElemsJ at h
    split at h
    · cases h
    · rename_i j hj
      split at h
      · cases h
      · rename_i js' hjs
        cases h
        exact ⟨hw _ _ _ _ hj, ih _ hjs⟩

theorem writeFieldsJ_wf (d : Desc) (fuel : Nat) (wj : Wj) (hw : WjWf wj) (s : StructD) (params : List Nat) (all : List (Option Val)) :
    ∀ (fs : List Field) (vs : List (Option Val)) (kvs : List (Bytes × Json)),
      writeFieldsJ d fuel wj s params all fs vs = .ok kvs → WfMembers kvs := by
  intro fs
  induction fs with
  | nil =>
    intro vs kvs h
    cases vs with
    | nil => simp [writeFieldsJ] at h; cases h; trivial
    | cons _ _ => simp [writeFieldsJ] at h
  | cons f fs ih =>
    intro vs kvs h
    cases vs with
    | nil => simp [writeFieldsJ] at h
    | cons v vs =>
      unfold writeFieldsJ at h
      split at h
      · cases h
      · rename_i rest hrest
        have hr := ih _ _ hrest
        split at h
        · cases h; exact hr
        · split at h
          · split at h
            · cases h; split
              · exact ⟨trivial, hr⟩
              · exact hr
            · split at h
              · cases h; exact hr
              · split at h
                · split at h
                  · cases h; exact hr
                  · split at h
                    · cases h
                    · split at h
                      · cases h
                      · rename_i j hj; cases h; exact ⟨hw _ _ _ _ hj, hr⟩
                · split at h
                  · cases h
                  · split at h
                    · split at h
                      · cases h; exact hr
                      · split at h
                        · cases h
                        · cases h; exact hr
                    · split at h
                      · cases h
                      · rename_i j hj; cases h; exact ⟨hw _ _ _ _ hj, hr⟩
          · cases h

theorem writeDictJ_wf (d : Desc) (wj : Wj) (hw : WjWf wj) (kf vf : Field) (kna vna : List Nat) :
    ∀ (es : List Val) (kvs : List (Bytes × Json)), writeDictJ d wj kf vf kna vna es = .ok kvs → WfMembers kvs := by
  intro es
  induction es with
  | nil => intro kvs h; simp [writeDictJ] at h; cases h; trivial
  | cons e es ih =>
    intro kvs h
    unfold writeDictJ at h
    split at h
    · rename_i heq; cases heq
    · rename_i k v es' heq
      cases heq
      simp only [] at h
      split at h
      · rename_i kb jv rest _ hjv hrest
        cases h
        exact ⟨hw _ _ _ _ hjv, ih _ hrest⟩
      all_goals cases h
    · cases h

theorem writeJson_wf (d : Desc) : ∀ fuel, WjWf (writeJson d fuel) := by
  intro fuel
  induction fuel with
  | zero => intro ty na x j h; simp [writeJson] at h
  | succ fuel ih =>
    intro ty na x j h
    unfold writeJson at h
    split at h
    · cases h
    · exact writePrimJ_wf _ _ _ h
    · -- struct
      split at h
      · split at h
        · split at h
          · split at h
            · exact ih _ _ _ _ h
            · cases h
          · cases h
        · cases hf : writeFieldsJ d fuel (writeJson d fuel) _ na _ _ _ with
          | error e => rw [hf] at h; cases h
          | ok kvs =>
            rw [hf] at h
            cases h
            simp only [Json.Wf]
            exact writeFieldsJ_wf d fuel _ ih _ _ _ _ _ _ hf
      · cases h
    · -- union
      split at h
      · split at h
        · split at h
          · split at h
            · cases h; simp [Json.Wf, WfMembers]
            · split at h
              · split at h
                · split at h
                  · cases h
                  · split at h
                    · cases h; simp [Json.Wf, WfMembers]
                    · split at h
                      · cases h
                      · rename_i j' hj'; cases h
                        simp only [Json.Wf, WfMembers]
                        exact ⟨trivial, ih _ _ _ _ hj', trivial⟩
                · cases h
              · cases h
          · simp only [] at h
            split at h
            · cases h; trivial
            · split at h
              · cases h; simp [Json.Wf, WfMembers]
              · split at h
                · cases h; simp [Json.Wf, WfMembers]
                · split at h
                  · cases h
                  · rename_i j' hj'; cases h
                    simp only [Json.Wf, WfMembers]
                    exact ⟨trivial, ih _ _ _ _ hj', trivial⟩
        · cases h
        · cases h
      · cases h
    · -- array
      split at h
      · split at h
        · split at h
          · cases h
          · split at h
            · cases h
            · cases hf : writeElemsJ (writeJson d fuel) _ _ _ with
              | error e => rw [hf] at h; cases h
              | ok js => rw [hf] at h; cases h; simp only [Json.Wf]; exact writeElemsJ_wf _ ih _ _ _ _ hf
        · cases hf : writeElemsJ (writeJson d fuel) _ _ _ with
          | error e => rw [hf] at h; cases h
          | ok js => rw [hf] at h; cases h; simp only [Json.Wf]; exact writeElemsJ_wf _ ih _ _ _ _ hf
      · cases h
      · cases h
    · -- dict
      split at h
      · split at h
        · split at h
          · cases hf : writeDictJ d (writeJson d fuel) _ _ _ _ _ with
            | error e => rw [hf] at h; cases h
            | ok kvs => rw [hf] at h; cases h; simp only [Json.Wf]; exact writeDictJ_wf d _ ih _ _ _ _ _ _ hf
          · cases h
        · cases h
      · cases h
      · cases h

/-! ### head readers: Maybe table, union forms -/

/-! ### Maybe: the six-row table of `Json2ReadMaybe` -/

theorem maybeHead_empty : readMaybeHead (some (.obj [])) = .ok (false, none) := by rfl
theorem maybeHead_value (v : Json) : readMaybeHead (some (.obj [(kValue, v)])) = .ok (true, some v) := by rfl
theorem maybeHead_okTrue : readMaybeHead (some (.obj [(kOk, .bool true)])) = .ok (true, none) := by rfl
theorem maybeHead_okTrue_value (v : Json) :
    readMaybeHead (some (.obj [(kOk, .bool true), (kValue, v)])) = .ok (true, some v) := by rfl
theorem maybeHead_value_okTrue (v : Json) :
    readMaybeHead (some (.obj [(kValue, v), (kOk, .bool true)])) = .ok (true, some v) := by rfl
theorem maybeHead_okFalse : readMaybeHead (some (.obj [(kOk, .bool false)])) = .ok (false, none) := by rfl
theorem maybeHead_okFalse_value (v : Json) :
    readMaybeHead (some (.obj [(kOk, .bool false), (kValue, v)])) = .error .rej := by rfl
theorem maybeHead_value_okFalse (v : Json) :
    readMaybeHead (some (.obj [(kValue, v), (kOk, .bool false)])) = .error .rej := by rfl
theorem maybeHead_nil : readMaybeHead none = .ok (false, none) := by rfl

theorem unionHead_string (t : Bytes) : readUnionHead (some (.str t)) = .ok (t, none) := by rfl
theorem unionHead_object (t : Bytes) : readUnionHead (some (.obj [(kType, .str t)])) = .ok (t, none) := by rfl
theorem unionHead_object_value (t : Bytes) (v : Json) :
    readUnionHead (some (.obj [(kType, .str t), (kValue, v)])) = .ok (t, some v) := by rfl
theorem unionHead_value_first (t : Bytes) (v : Json) :
    readUnionHead (some (.obj [(kValue, v), (kType, .str t)])) = .ok (t, some v) := by rfl

/-! ### readJson depends on the head only -/

theorem readJson_union_congr (d : Desc) (lg : Bool) (pk : Bytes → Option Json) (fuel ty : Nat) (params : List Nat)
    (u : UnionD) (hd : d.get? ty = some (.union u)) (hm : u.isMaybe = false) (j j' : Option Json)
    (hh : readUnionHead j = readUnionHead j') :
    readJson d lg pk (fuel + 1) ty params j = readJson d lg pk (fuel + 1) ty params j' := by
  unfold readJson
  simp only [hd, hm, hh]
  split <;> simp

theorem readJson_maybe_congr (d : Desc) (lg : Bool) (pk : Bytes → Option Json) (fuel ty : Nat) (params : List Nat)
    (u : UnionD) (hd : d.get? ty = some (.union u)) (hm : u.isMaybe = true) (j j' : Option Json)
    (hh : readMaybeHead j = readMaybeHead j') :
    readJson d lg pk (fuel + 1) ty params j = readJson d lg pk (fuel + 1) ty params j' := by
  unfold readJson
  simp only [hd, hm, hh]
  split <;> simp

theorem readJson_maybe_rej (d : Desc) (lg : Bool) (pk : Bytes → Option Json) (fuel ty : Nat) (params vparams : List Nat)
    (u : UnionD) (hd : d.get? ty = some (.union u)) (hm : u.isMaybe = true)
    (hp : natArgVals [] params u.elemNatArgs = some vparams) (j : Option Json)
    (hh : readMaybeHead j = .error .rej) :
    readJson d lg pk (fuel + 1) ty params j = .error .rej := by
  unfold readJson
  simp only [hd, hm, hh, hp]
  rfl

theorem readJson_struct_nil (d : Desc) (lg : Bool) (pk : Bytes → Option Json) (fuel ty : Nat) (params : List Nat)
    (s : StructD) (hd : d.get? ty = some (.struct s)) (ht : (s.isTypedef || s.isUnwrap) = false) :
    readJson d lg pk (fuel + 1) ty params none = readJson d lg pk (fuel + 1) ty params (some (.obj [])) := by
  unfold readJson
  simp only [hd, ht]
  rfl

/-! ### unknown / duplicate keys -/

theorem keysOk_false_of_unknown (s : StructD) (kvs : List (Bytes × Json)) (kv : Bytes × Json) (hm : kv ∈ kvs)
    (hu : findField s kv.1 s.fields 0 = none) : keysOk s kvs = false := by
  unfold keysOk
  rw [List.all_eq_false]
  exact ⟨kv, hm, by simp [hu]⟩

theorem keysOk_false_of_dup (s : StructD) (kvs : List (Bytes × Json)) (kv : Bytes × Json) (hm : kv ∈ kvs)
    (hc : countKey kv.1 kvs ≠ 1) : keysOk s kvs = false := by
  unfold keysOk
  rw [List.all_eq_false]
  refine ⟨kv, hm, ?_⟩
  simp [hc]

theorem readStructJ_rej_of_keys (d : Desc) (fuel : Nat) (rj : Rj) (s : StructD) (params : List Nat) (kvs : List (Bytes × Json))
    (h : keysOk s kvs = false) : readStructJ d fuel rj s params kvs = .error .rej := by
  unfold readStructJ
  simp [h]

theorem readJson_struct_obj (d : Desc) (lg : Bool) (pk : Bytes → Option Json) (fuel ty : Nat) (params : List Nat)
    (s : StructD) (hd : d.get? ty = some (.struct s)) (ht : (s.isTypedef || s.isUnwrap) = false) (kvs : List (Bytes × Json)) :
    readJson d lg pk (fuel + 1) ty params (some (.obj kvs)) = readStructJ d fuel (readJson d lg pk fuel) s params kvs := by
  conv => lhs; unfold readJson
  simp [hd, ht]

/-- a string twice in an object: `countKey` ≥ 2 -/
theorem countKey_dup (k : Bytes) (a b c : List (Bytes × Json)) (j1 j2 : Json) :
    countKey k (a ++ (k, j1) :: b ++ (k, j2) :: c) ≠ 1 := by
  have happ : ∀ (x y : List (Bytes × Json)), countKey k (x ++ y) = countKey k x + countKey k y := by
    intro x y
    induction x with
    | nil => simp [countKey]
    | cons h t ih => obtain ⟨hk, hj⟩ := h; simp only [List.cons_append, countKey, ih]; omega
  have h1 : countKey k ((k, j1) :: b) = 1 + countKey k b := by simp [countKey]
  have h2 : countKey k ((k, j2) :: c) = 1 + countKey k c := by simp [countKey]
  rw [happ, happ, h2]
  rw [show (k, j1) :: b = [(k, j1)] ++ b from rfl, happ]
  simp [countKey]
  omega

/-! ### tuples, dictionaries, numbers as strings -/

/-- tuples: the number of elements must equal the size parameter / constant -/
theorem readJson_tuple_len (d : Desc) (lg : Bool) (pk : Bytes → Option Json) (fuel ty : Nat) (params na : List Nat)
    (a : ArrayD) (hd : d.get? ty = some (.array a)) (ht : a.isTuple = true) (n : Nat)
    (hn : (if a.dynamic then params[0]? else some a.count) = some n)
    (hna : natArgVals [] params a.elem.natArgs = some na) (es : List Json) (hl : es.length ≠ n) :
    readJson d lg pk (fuel + 1) ty params (some (.arr es)) = .error .rej := by
  conv => lhs; unfold readJson
  simp [hd, ht, hna, hn, hl]

/-- an absent tuple (Go `in == nil`) is accepted only for size 0 -/
theorem readJson_tuple_nil (d : Desc) (lg : Bool) (pk : Bytes → Option Json) (fuel ty : Nat) (params na : List Nat)
    (a : ArrayD) (hd : d.get? ty = some (.array a)) (ht : a.isTuple = true) (n : Nat)
    (hn : (if a.dynamic then params[0]? else some a.count) = some n)
    (hna : natArgVals [] params a.elem.natArgs = some na) (hl : n ≠ 0) :
    readJson d lg pk (fuel + 1) ty params none = .error .rej := by
  conv => lhs; unfold readJson
  have : (0 : Nat) ≠ n := fun h => hl h.symm
  simp [hd, ht, hna, hn, this]

/-- a dictionary instance is read from a JSON object only; the "array of pairs" spelling is rejected by the generated code -/
theorem readJson_dict_pairs_rejected (d : Desc) (lg : Bool) (pk : Bytes → Option Json) (fuel ty : Nat) (params : List Nat)
    (a : ArrayD) (hd : d.get? ty = some (.dict a)) (es : List Json) :
    readJson d lg pk (fuel + 1) ty params (some (.arr es)) = .error .rej ∨
    readJson d lg pk (fuel + 1) ty params (some (.arr es)) = .error .desc := by
  conv => lhs; unfold readJson
  conv => rhs; lhs; unfold readJson
  simp only [hd]
  split
  · split
    · split <;> simp
    · simp
  · simp

/-- numbers may be given as strings holding the same decimal text -/
theorem charsOfBytes_ascii (t : List Char) (h : ∀ c ∈ t, c.toNat < 256) :
    charsOfBytes (t.map (fun c => byteOf c.toNat)) = t := by
  induction t with
  | nil => rfl
  | cons c cs ih =>
    have hc := h c (by simp)
    simp only [charsOfBytes, List.map_cons, List.map_map] at *
    rw [ih (fun x hx => h x (by simp [hx]))]
    congr 1
    simp only [byteOf]
    have : (UInt8.ofNat c.toNat).toNat = c.toNat := by simp; omega
    rw [this]
    exact Char.ofNat_toNat c

theorem int_number_as_string (signed : Bool) (bits : Nat) (t : List Char) (h : ∀ c ∈ t, c.toNat < 256) :
    readIntJ signed bits (some (.str (t.map (fun c => byteOf c.toNat)))) = readIntJ signed bits (some (.num t)) := by
  simp only [readIntJ, charsOfBytes_ascii t h]

theorem float_number_as_string (f : FloatFmt) (t : List Char) (h : ∀ c ∈ t, c.toNat < 256) :
    readFloatJ f (some (.str (t.map (fun c => byteOf c.toNat)))) = readFloatJ f (some (.num t)) := by
  simp only [readFloatJ, charsOfBytes_ascii t h]

/-! ### mask propagation: steps -/

theorem testBit_eq (n b : Nat) : testBit n b = Nat.testBit n b := by
  unfold testBit
  rw [Nat.testBit_eq_decide_div_mod_eq]
  by_cases h : n / 2 ^ b % 2 = 1 <;> simp [h]

theorem testBit_setBit (n bit b : Nat) : testBit (setBit n bit) b = (testBit n b || decide (bit = b)) := by
  simp only [testBit_eq, setBit, Nat.testBit_or, Nat.testBit_two_pow]

theorem testBit_setBit_self (n bit : Nat) : testBit (setBit n bit) bit = true := by
  simp [testBit_setBit]

/-- one step of the recursive propagation: a field under a local mask sets its bit in the mask field and continues with
that mask field (which may itself be masked) -/
theorem propagateMask_local_step (s : StructD) (params : List Nat) (fuel : Nat) (cur anc : Field) (vals : List (Option Val))
    (a bit : Nat) (hm : cur.mask = some (.field a, bit)) (ha : s.fields[a]? = some anc) :
    propagateMask s params (fuel + 1) cur vals = propagateMask s params fuel anc (setNatField vals a bit) := by
  conv => lhs; unfold propagateMask
  simp [hm, ha]

/-- at an external (nat parameter) or constant mask the bit must already be set — for types generated without TL2 -/
theorem propagateMask_external_zero_rejected (s : StructD) (params : List Nat) (fuel : Nat) (cur : Field) (vals : List (Option Val))
    (m : NatArg) (bit mv : Nat) (hm : cur.mask = some (m, bit)) (hext : ∀ a, m ≠ .field a) (ht : s.hasTL2 = false)
    (hv : natArgVal vals params m = some mv) (hb : testBit mv bit = false) :
    propagateMask s params (fuel + 1) cur vals = .error .rej := by
  conv => lhs; unfold propagateMask
  cases m with
  | field a => exact absurd rfl (hext a)
  | num n => simp [hm, ht, hv, hb]
  | param i => simp [hm, ht, hv, hb]

theorem propagateMask_external_ok (s : StructD) (params : List Nat) (fuel : Nat) (cur : Field) (vals : List (Option Val))
    (m : NatArg) (bit mv : Nat) (hm : cur.mask = some (m, bit)) (hext : ∀ a, m ≠ .field a)
    (hv : natArgVal vals params m = some mv) (hb : s.hasTL2 = true ∨ testBit mv bit = true) :
    propagateMask s params (fuel + 1) cur vals = .ok vals := by
  conv => lhs; unfold propagateMask
  cases m with
  | field a => exact absurd rfl (hext a)
  | num n => rcases hb with hb | hb <;> simp [hm, hv, hb]
  | param i => rcases hb with hb | hb <;> simp [hm, hv, hb]

/-! ### mask propagation: bits only get set -/


/-- value of a local `#` field as the mask tests see it -/
def natOf (vals : List (Option Val)) (i : Nat) : Option Nat := natArgVal vals [] (.field i)

theorem natArgVal_field (vals : List (Option Val)) (params : List Nat) (i : Nat) :
    natArgVal vals params (.field i) = natOf vals i := rfl

theorem natOf_setNatField_self (vals : List (Option Val)) (a bit n : Nat) (h : natOf vals a = some n) :
    natOf (setNatField vals a bit) a = some (setBit n bit) := by
  unfold natOf natArgVal at h
  unfold natOf natArgVal setNatField
  cases hv : vals[a]? with
  | none => simp [hv] at h
  | some o =>
    have hlt : a < vals.length := by
      have := List.getElem?_eq_some_iff.mp hv
      exact this.1
    cases o with
    | none =>
      simp [hv] at h; subst h
      simp [hlt]
    | some v =>
      cases v <;> simp [hv] at h
      subst h
      simp [hlt]

theorem natOf_setNatField_other (vals : List (Option Val)) (a bit i : Nat) (h : i ≠ a) :
    natOf (setNatField vals a bit) i = natOf vals i := by
  unfold natOf natArgVal setNatField
  have hne : ¬ a = i := fun e => h e.symm
  cases hv : vals[a]? with
  | none => rfl
  | some o =>
    cases o with
    | none => simp [hne]
    | some v => cases v <;> simp [hne]

/-- bits only get set: whatever bit a local mask field had before a `setNatField`, it still has -/
theorem setNatField_mono (vals : List (Option Val)) (a bit i m b : Nat) (h : natOf vals i = some m) (hb : testBit m b = true) :
    ∃ m', natOf (setNatField vals a bit) i = some m' ∧ testBit m' b = true := by
  by_cases hia : i = a
  · subst hia
    exact ⟨setBit m bit, natOf_setNatField_self vals i bit m h, by simp [testBit_setBit, hb]⟩
  · exact ⟨m, by rw [natOf_setNatField_other vals a bit i hia]; exact h, hb⟩

theorem propagateMask_mono (s : StructD) (params : List Nat) :
    ∀ (fuel : Nat) (cur : Field) (vals vals' : List (Option Val)), propagateMask s params fuel cur vals = .ok vals' →
      ∀ i m b, natOf vals i = some m → testBit m b = true → ∃ m', natOf vals' i = some m' ∧ testBit m' b = true := by
  intro fuel
  induction fuel with
  | zero => intro cur vals vals' h i m b hm hb; simp [propagateMask] at h; subst h; exact ⟨m, hm, hb⟩
  | succ fuel ih =>
    intro cur vals vals' h i m b hm hb
    unfold propagateMask at h
    split at h
    · cases h; exact ⟨m, hm, hb⟩
    · split at h
      · rename_i anc _
        obtain ⟨m1, hm1, hb1⟩ := setNatField_mono vals _ _ i m b hm hb
        exact ih anc _ _ h i m1 b hm1 hb1
      · cases h
    · split at h
      · cases h; exact ⟨m, hm, hb⟩
      · split at h
        · split at h
          · cases h; exact ⟨m, hm, hb⟩
          · cases h
        · cases h

/-- **masked_field_sets_local_bits**: after the propagation started for a field under local mask `a`, bit `bit`, that bit is set
in the mask field (and, by `propagateMask_local_step`, the same happened recursively for the mask field's own mask). -/
theorem propagateMask_sets_bit (s : StructD) (params : List Nat) (fuel : Nat) (cur anc : Field) (vals vals' : List (Option Val))
    (a bit n : Nat) (hm : cur.mask = some (.field a, bit)) (ha : s.fields[a]? = some anc) (hn : natOf vals a = some n)
    (h : propagateMask s params (fuel + 1) cur vals = .ok vals') :
    ∃ m', natOf vals' a = some m' ∧ testBit m' bit = true := by
  unfold propagateMask at h
  simp [hm, ha] at h
  exact propagateMask_mono s params fuel anc _ _ h a (setBit n bit) bit (natOf_setNatField_self vals a bit n hn)
    (by simp [testBit_setBit])

/-! ### true-typed fields given as false -/

/-- what the first pass records for a true-typed field given as a JSON boolean -/
theorem rsPass1_bit_slot (d : Desc) (fuel : Nat) (rj : Rj) (s : StructD) (kvs : List (Bytes × Json)) :
    ∀ (fs : List Field) (slots : List Slot) (vals : List (Option Val)), rsPass1 d fuel rj s kvs fs = .ok (slots, vals) →
      ∀ f ∈ fs, f.isBit = true → ∀ b, memberOf s f kvs = some (.bool b) →
        ∃ sl ∈ slots, sl.f = f ∧ sl.presented = true ∧ sl.trueVal = b := by
  intro fs
  induction fs with
  | nil => intro slots vals _ f hf; cases hf
  | cons g gs ih =>
    intro slots vals h f hf hbit b hmem
    unfold rsPass1 at h
    split at h
    · cases h
    · rename_i slots' vals' hrec
      have hcase : f = g ∨ f ∈ gs := by simpa using hf
      -- the head slot
      by_cases hg : g.isBit = true
      · simp only [hg, if_true] at h
        rcases hcase with rfl | hin
        · rw [hmem] at h
          simp at h
          obtain ⟨h1, _⟩ := h
          subst h1
          exact ⟨{ f := f, j := some (Json.bool b), presented := true, trueVal := b }, by simp, rfl, rfl, rfl⟩
        · split at h
          · cases h
            obtain ⟨sl, hsl, hp⟩ := ih _ _ hrec f hin hbit b hmem
            exact ⟨sl, by simp [hsl], hp⟩
          · cases h
            obtain ⟨sl, hsl, hp⟩ := ih _ _ hrec f hin hbit b hmem
            exact ⟨sl, by simp [hsl], hp⟩
          · cases h
      · have hin : f ∈ gs := by
          rcases hcase with rfl | hin
          · exact absurd hbit hg
          · exact hin
        obtain ⟨sl, hsl, hp⟩ := ih _ _ hrec f hin hbit b hmem
        have hg' : g.isBit = false := by simpa using hg
        simp only [hg', Bool.false_eq_true, if_false] at h
        split at h
        · split at h
          · split at h
            · cases h
            · cases h; exact ⟨sl, by simp [hsl], hp⟩
          · split at h
            · cases h; exact ⟨sl, by simp [hsl], hp⟩
            · split at h
              · cases h
              · cases h; exact ⟨sl, by simp [hsl], hp⟩
        · cases h; exact ⟨sl, by simp [hsl], hp⟩

theorem rsBadFalse_of_slot (s : StructD) (params : List Nat) (vals1 : List (Option Val)) (slots : List Slot)
    (ht : s.hasTL2 = false) (sl : Slot) (hin : sl ∈ slots) (hb : sl.f.isBit = true) (hp : sl.presented = true)
    (hv : sl.trueVal = false) (hm : presentOr sl.f vals1 params = true) : rsBadFalse s params vals1 slots = true := by
  unfold rsBadFalse
  simp only [ht, Bool.not_false, Bool.true_and, List.any_eq_true]
  exact ⟨sl, hin, by simp [hb, hp, hv, hm]⟩

/-- **true_false_with_bit_set_rejected** (types without TL2): a true-typed field given as `false` while, after all masks have
their final values, its mask bit is set, makes the struct reader fail. -/
theorem readStructJ_true_false_rejected (d : Desc) (fuel : Nat) (rj : Rj) (s : StructD) (params : List Nat)
    (kvs : List (Bytes × Json)) (slots : List Slot) (vals0 vals1 : List (Option Val))
    (h1 : rsPass1 d fuel rj s kvs s.fields = .ok (slots, vals0)) (h2 : rsProp s params slots vals0 = .ok vals1)
    (ht : s.hasTL2 = false) (f : Field) (hf : f ∈ s.fields) (hb : f.isBit = true)
    (hmem : memberOf s f kvs = some (.bool false)) (hm : presentOr f vals1 params = true) :
    readStructJ d fuel rj s params kvs = .error .rej := by
  obtain ⟨sl, hin, hsf, hp, hv⟩ := rsPass1_bit_slot d fuel rj s kvs s.fields slots vals0 h1 f hf hb false hmem
  have hbad := rsBadFalse_of_slot s params vals1 slots ht sl hin (by rw [hsf]; exact hb) hp hv (by rw [hsf]; exact hm)
  unfold readStructJ
  by_cases hk : keysOk s kvs = true
  · simp [hk, h1, h2, hbad]
  · simp [hk]

/-! ### omitted members, typedefs -/

/-- empty JSON value of a primitive (what the writer omits) -/
def emptyPrimJ : PrimK → Json
  | .str => .str []
  | .bool _ _ => .bool false
  | _ => .num ['0']

/-- **omitted_is_empty**, primitives: an absent member (Go `in == nil`) reads as the empty value -/
theorem readPrimJ_nil_eq_empty (k : PrimK) (hk : k ≠ .bit) : readPrimJ k none = readPrimJ k (some (emptyPrimJ k)) := by
  cases k <;> first | rfl | exact absurd rfl hk

/-- typedef / unwrapped wrappers read exactly like their only field -/
theorem readJson_typedef (d : Desc) (lg : Bool) (pk : Bytes → Option Json) (fuel ty : Nat) (params na : List Nat)
    (s : StructD) (f : Field) (hd : d.get? ty = some (.struct s)) (ht : (s.isTypedef || s.isUnwrap) = true) (hf : s.fields = [f])
    (hna : natArgVals [] params f.natArgs = some na) (j : Option Json) :
    readJson d lg pk (fuel + 1) ty params j = (readJson d lg pk fuel f.ty na j).map (fun x => .struct [some x]) := by
  conv => lhs; unfold readJson
  simp [hd, ht, hf, hna]

/-! ### decimal integer text parses back -/

def AllLt10 (ds : List Nat) : Prop := ∀ d ∈ ds, d < 10

theorem foldl_digits_init (ds : List Nat) : ∀ a, ds.foldl (fun a d => a * 10 + d) a = a * 10 ^ ds.length + ds.foldl (fun a d => a * 10 + d) 0 := by
  induction ds with
  | nil => intro a; simp
  | cons d ds ih =>
    intro a
    simp only [List.foldl_cons, List.length_cons]
    rw [ih (a * 10 + d), ih (0 * 10 + d)]
    simp only [Nat.zero_mul, Nat.zero_add, Nat.pow_succ]
    rw [Nat.add_mul, Nat.mul_assoc, Nat.mul_comm 10 (10 ^ ds.length)]
    omega

theorem digitsToNat_cons (d : Nat) (ds : List Nat) : digitsToNat (d :: ds) = d * 10 ^ ds.length + digitsToNat ds := by
  unfold digitsToNat
  simp only [List.foldl_cons]
  rw [foldl_digits_init]
  simp

theorem digitsAux_spec : ∀ (fuel n : Nat) (acc : List Nat), n < fuel → AllLt10 acc →
    AllLt10 (digitsAux fuel n acc) ∧ digitsToNat (digitsAux fuel n acc) = n * 10 ^ acc.length + digitsToNat acc := by
  intro fuel
  induction fuel with
  | zero => intro n acc h; omega
  | succ fuel ih =>
    intro n acc h hacc
    unfold digitsAux
    by_cases hn : n < 10
    · rw [if_pos hn]
      refine ⟨?_, digitsToNat_cons n acc⟩
      intro d hd
      rcases List.mem_cons.mp hd with rfl | hd
      · exact hn
      · exact hacc d hd
    · rw [if_neg hn]
      have hlt : n / 10 < fuel := by omega
      have hacc' : AllLt10 (n % 10 :: acc) := by
        intro d hd
        rcases List.mem_cons.mp hd with rfl | hd
        · omega
        · exact hacc d hd
      obtain ⟨h1, h2⟩ := ih (n / 10) (n % 10 :: acc) hlt hacc'
      refine ⟨h1, ?_⟩
      rw [h2, digitsToNat_cons]
      simp only [List.length_cons, Nat.pow_succ]
      have := Nat.div_add_mod n 10
      calc n / 10 * (10 ^ acc.length * 10) + (n % 10 * 10 ^ acc.length + digitsToNat acc)
          = (10 * (n / 10) + n % 10) * 10 ^ acc.length + digitsToNat acc := by
            rw [Nat.add_mul, Nat.mul_comm (10 ^ acc.length) 10, ← Nat.mul_assoc, Nat.mul_comm (n / 10) 10]; omega
        _ = n * 10 ^ acc.length + digitsToNat acc := by rw [this]

theorem digitsOf_spec (n : Nat) : AllLt10 (digitsOf n) ∧ digitsToNat (digitsOf n) = n := by
  have := digitsAux_spec (n + 1) n [] (by omega) (by intro d hd; cases hd)
  unfold digitsOf
  refine ⟨this.1, ?_⟩
  rw [this.2]
  simp [digitsToNat]

theorem dropZeros_spec (ds : List Nat) (h : AllLt10 ds) : AllLt10 (dropZeros ds) ∧ digitsToNat (dropZeros ds) = digitsToNat ds := by
  induction ds with
  | nil => exact ⟨h, rfl⟩
  | cons d ds ih =>
    have hd : d < 10 := h d (by simp)
    have hds : AllLt10 ds := fun x hx => h x (by simp [hx])
    unfold dropZeros
    by_cases hz : (d % 10 == 0) = true
    · rw [if_pos hz]
      have hd0 : d = 0 := by
        have : d % 10 = 0 := by simpa using hz
        omega
      obtain ⟨h1, h2⟩ := ih hds
      refine ⟨h1, ?_⟩
      rw [h2, digitsToNat_cons, hd0]
      simp
    · rw [if_neg hz]
      exact ⟨h, rfl⟩

theorem digitChar_val (d : Nat) (h : d < 10) : (digitChar d).toNat - 48 = d := by
  have : d = 0 ∨ d = 1 ∨ d = 2 ∨ d = 3 ∨ d = 4 ∨ d = 5 ∨ d = 6 ∨ d = 7 ∨ d = 8 ∨ d = 9 := by omega
  rcases this with rfl | rfl | rfl | rfl | rfl | rfl | rfl | rfl | rfl | rfl <;> rfl

theorem digitsVal_map (ds : List Nat) (h : AllLt10 ds) : ∀ acc, digitsVal (ds.map digitChar) acc = some (ds.foldl (fun a d => a * 10 + d) acc) := by
  induction ds with
  | nil => intro acc; rfl
  | cons d ds ih =>
    intro acc
    have hd : d < 10 := h d (by simp)
    simp only [List.map_cons, digitsVal, isDigit_digitChar, if_true, List.foldl_cons]
    rw [digitChar_val d hd]
    exact ih (fun x hx => h x (by simp [hx])) _

theorem parseDigits_intPartText (ds : List Nat) (h : AllLt10 ds) : parseDigits (intPartText ds) = some (digitsToNat ds) := by
  obtain ⟨h1, h2⟩ := dropZeros_spec ds h
  unfold intPartText
  split
  · rename_i he
    rw [he] at h2
    rw [← h2]
    rfl
  · rename_i ds' hne
    cases hds : dropZeros ds with
    | nil => exact absurd hds (by simpa using hne)
    | cons d r =>
      simp only [List.map_cons, parseDigits]
      have := digitsVal_map (d :: r) (by rw [← hds]; exact h1) 0
      simp only [List.map_cons] at this
      rw [this, ← h2, hds]
      rfl

/-- decimal text of a natural number parses back to it -/
theorem parseDigits_natText (n : Nat) : parseDigits (natText n) = some n := by
  obtain ⟨h1, h2⟩ := digitsOf_spec n
  unfold natText
  rw [parseDigits_intPartText _ h1, h2]

theorem natText_head_digit (n : Nat) : ∃ c cs, natText n = c :: cs ∧ isDigit c = true := by
  have h := intPartText_isIntPart (digitsOf n)
  unfold natText
  generalize intPartText (digitsOf n) = t at h
  cases h with
  | zero => exact ⟨'0', [], rfl, by decide⟩
  | nz c cs hc _ _ => exact ⟨c, cs, rfl, hc⟩

/-- **unsigned integers round-trip through their JSON number text** -/
theorem parseUintText_natText (bits n : Nat) (h : n < 2 ^ bits) : parseUintText bits (natText n) = some n := by
  unfold parseUintText
  rw [parseDigits_natText]
  simp [h]

/-- **signed integers (two's complement patterns) round-trip through their JSON number text** -/
theorem parseIntText_intText (bits n : Nat) (hb : 0 < bits) (h : n < 2 ^ bits) : parseIntText bits (intText bits n) = some n := by
  have hpow : 2 ^ bits = 2 * 2 ^ (bits - 1) := by
    cases bits with
    | zero => omega
    | succ k => simp [Nat.pow_succ, Nat.mul_comm]
  have hmod : n % 2 ^ bits = n := Nat.mod_eq_of_lt h
  unfold intText
  rw [hmod]
  by_cases hs : n < 2 ^ (bits - 1)
  · rw [if_pos hs]
    obtain ⟨c, cs, hc, hd⟩ := natText_head_digit n
    have hne1 : c ≠ '-' := by intro e; subst e; revert hd; decide
    have hne2 : c ≠ '+' := by intro e; subst e; revert hd; decide
    unfold parseIntText
    rw [hc]
    split
    · rename_i heq; cases heq; exact absurd rfl hne1
    · rename_i heq; cases heq; exact absurd rfl hne2
    · rw [← hc, parseDigits_natText]
      simp [hs]
  · rw [if_neg hs]
    unfold parseIntText
    simp only [parseDigits_natText]
    have hle : 2 ^ bits - n ≤ 2 ^ (bits - 1) := by omega
    simp only [hle, if_true]
    congr 1
    have : 2 ^ bits - (2 ^ bits - n) = n := by omega
    rw [this, hmod]

/-! ### base64 -/

theorem b64_facts : ∀ n, n < 64 → b64Val (b64Char n) = some n ∧ b64Char n ≠ 10 ∧ b64Char n ≠ 13 ∧ b64Char n ≠ 61 := by
  decide

theorem byteOf_toNat (a : UInt8) : byteOf a.toNat = a := by simp [byteOf]

theorem base64_quads_roundtrip : ∀ s : Bytes, base64DecodeQuads (base64Encode s) = some s ∧ (∀ x ∈ base64Encode s, x ≠ 10 ∧ x ≠ 13) := by
  intro s
  induction s using base64Encode.induct with
  | case1 a b c r ih =>
    have ha := a.toNat_lt; have hb := b.toNat_lt; have hc := c.toNat_lt
    simp only [base64Encode]
    have f1 := b64_facts ((a.toNat * 65536 + b.toNat * 256 + c.toNat) / 262144) (by omega)
    have f2 := b64_facts ((a.toNat * 65536 + b.toNat * 256 + c.toNat) / 4096 % 64) (by omega)
    have f3 := b64_facts ((a.toNat * 65536 + b.toNat * 256 + c.toNat) / 64 % 64) (by omega)
    have f4 := b64_facts ((a.toNat * 65536 + b.toNat * 256 + c.toNat) % 64) (by omega)
    constructor
    · simp only [base64DecodeQuads]
      have h61 : (b64Char ((a.toNat * 65536 + b.toNat * 256 + c.toNat) % 64) == 61) = false := by simpa using f4.2.2.2
      rw [h61]
      simp only [Bool.false_eq_true, if_false, f1.1, f2.1, f3.1, f4.1, ih.1]
      congr 1
      have e1 : ((((a.toNat * 65536 + b.toNat * 256 + c.toNat) / 262144 * 64 + (a.toNat * 65536 + b.toNat * 256 + c.toNat) / 4096 % 64) * 64 + (a.toNat * 65536 + b.toNat * 256 + c.toNat) / 64 % 64) * 64 + (a.toNat * 65536 + b.toNat * 256 + c.toNat) % 64) = a.toNat * 65536 + b.toNat * 256 + c.toNat := by omega
      rw [e1]
      have e2 : (a.toNat * 65536 + b.toNat * 256 + c.toNat) / 65536 = a.toNat := by omega
      have e3 : (a.toNat * 65536 + b.toNat * 256 + c.toNat) / 256 % 256 = b.toNat := by omega
      have e4 : (a.toNat * 65536 + b.toNat * 256 + c.toNat) % 256 = c.toNat := by omega
      rw [e2, e3, e4, byteOf_toNat, byteOf_toNat, byteOf_toNat]
    · intro x hx
      simp only [List.mem_cons] at hx
      rcases hx with rfl | rfl | rfl | rfl | hx
      · exact ⟨f1.2.1, f1.2.2.1⟩
      · exact ⟨f2.2.1, f2.2.2.1⟩
      · exact ⟨f3.2.1, f3.2.2.1⟩
      · exact ⟨f4.2.1, f4.2.2.1⟩
      · exact ih.2 x hx
  | case2 a b =>
    have ha := a.toNat_lt; have hb := b.toNat_lt
    simp only [base64Encode]
    have f1 := b64_facts ((a.toNat * 65536 + b.toNat * 256) / 262144) (by omega)
    have f2 := b64_facts ((a.toNat * 65536 + b.toNat * 256) / 4096 % 64) (by omega)
    have f3 := b64_facts ((a.toNat * 65536 + b.toNat * 256) / 64 % 64) (by omega)
    constructor
    · simp only [base64DecodeQuads]
      have h61 : (b64Char ((a.toNat * 65536 + b.toNat * 256) / 64 % 64) == 61) = false := by simpa using f3.2.2.2
      simp only [beq_self_eq_true, if_true, List.isEmpty_nil, Bool.not_true, Bool.false_eq_true, if_false, h61, f1.1, f2.1, f3.1]
      congr 1
      have e2 : (((a.toNat * 65536 + b.toNat * 256) / 262144 * 64 + (a.toNat * 65536 + b.toNat * 256) / 4096 % 64) * 64 + (a.toNat * 65536 + b.toNat * 256) / 64 % 64) / 1024 = a.toNat := by omega
      have e3 : (((a.toNat * 65536 + b.toNat * 256) / 262144 * 64 + (a.toNat * 65536 + b.toNat * 256) / 4096 % 64) * 64 + (a.toNat * 65536 + b.toNat * 256) / 64 % 64) / 4 % 256 = b.toNat := by omega
      rw [e2, e3, byteOf_toNat, byteOf_toNat]
    · intro x hx
      simp only [List.mem_cons, List.not_mem_nil, or_false] at hx
      rcases hx with rfl | rfl | rfl | rfl
      · exact ⟨f1.2.1, f1.2.2.1⟩
      · exact ⟨f2.2.1, f2.2.2.1⟩
      · exact ⟨f3.2.1, f3.2.2.1⟩
      · decide
  | case3 a =>
    have ha := a.toNat_lt
    simp only [base64Encode]
    have f1 := b64_facts ((a.toNat * 65536) / 262144) (by omega)
    have f2 := b64_facts ((a.toNat * 65536) / 4096 % 64) (by omega)
    constructor
    · simp only [base64DecodeQuads]
      simp only [beq_self_eq_true, if_true, List.isEmpty_nil, Bool.not_true, Bool.false_eq_true, if_false, f1.1, f2.1]
      congr 1
      have e2 : ((a.toNat * 65536) / 262144 * 64 + (a.toNat * 65536) / 4096 % 64) / 16 = a.toNat := by omega
      rw [e2, byteOf_toNat]
    · intro x hx
      simp only [List.mem_cons, List.not_mem_nil, or_false] at hx
      rcases hx with rfl | rfl | rfl | rfl
      · exact ⟨f1.2.1, f1.2.2.1⟩
      · exact ⟨f2.2.1, f2.2.2.1⟩
      · decide
      · decide
  | case4 => exact ⟨rfl, by intro x hx; cases hx⟩

/-- **base64 round trip**: what the writer emits for a non-UTF-8 string decodes to the original bytes -/
theorem base64_roundtrip (s : Bytes) : base64Decode (base64Encode s) = some s := by
  obtain ⟨h1, h2⟩ := base64_quads_roundtrip s
  unfold base64Decode
  have : (base64Encode s).filter (fun b => b != 10 && b != 13) = base64Encode s := by
    apply List.filter_eq_self.mpr
    intro x hx
    have := h2 x hx
    simp [this.1, this.2]
  rw [this, h1]

/-! ### primitive round trips -/

theorem readString_roundtrip (s : Bytes) : ∃ j, writePrimJ .str (.str s) = .ok j ∧ readPrimJ .str (some j) = .ok (.str s) := by
  by_cases h : utf8Valid s = true
  · exact ⟨.str s, by simp [writePrimJ, h], rfl⟩
  · refine ⟨.obj [(kBase64, .str (base64Encode s))], by simp [writePrimJ, h], ?_⟩
    simp only [readPrimJ, readStringJ]
    simp [base64_roundtrip]

theorem readUint_roundtrip (k : PrimK) (bits : Nat) (hk : (k = .u32 ∧ bits = 32) ∨ (k = .u64 ∧ bits = 64) ∨ (k = .byte ∧ bits = 8))
    (n : Nat) (h : n < 2 ^ bits) : ∃ j, writePrimJ k (.nat n) = .ok j ∧ readPrimJ k (some j) = .ok (.nat n) := by
  rcases hk with ⟨rfl, rfl⟩ | ⟨rfl, rfl⟩ | ⟨rfl, rfl⟩
  · refine ⟨.num (natText (n % 2 ^ 32)), rfl, ?_⟩
    simp only [readPrimJ, readIntJ, Nat.mod_eq_of_lt h]
    rw [if_neg (by simp), parseUintText_natText 32 n h]
  · refine ⟨.num (natText (n % 2 ^ 64)), rfl, ?_⟩
    simp only [readPrimJ, readIntJ, Nat.mod_eq_of_lt h]
    rw [if_neg (by simp), parseUintText_natText 64 n h]
  · refine ⟨.num (natText (n % 256)), rfl, ?_⟩
    have h' : n < 256 := h
    simp only [readPrimJ, readIntJ, Nat.mod_eq_of_lt h']
    rw [if_neg (by simp), parseUintText_natText 8 n h]

theorem readInt_roundtrip (k : PrimK) (bits : Nat) (hk : (k = .i32 ∧ bits = 32) ∨ (k = .i64 ∧ bits = 64))
    (n : Nat) (h : n < 2 ^ bits) : ∃ j, writePrimJ k (.nat n) = .ok j ∧ readPrimJ k (some j) = .ok (.nat n) := by
  rcases hk with ⟨rfl, rfl⟩ | ⟨rfl, rfl⟩
  · refine ⟨.num (intText 32 n), rfl, ?_⟩
    simp only [readPrimJ, readIntJ]
    rw [if_pos True.intro, parseIntText_intText 32 n (by omega) h]
  · refine ⟨.num (intText 64 n), rfl, ?_⟩
    simp only [readPrimJ, readIntJ]
    rw [if_pos True.intro, parseIntText_intText 64 n (by omega) h]

/-! ### struct congruence -/



inductive ListRel {α β : Type} (R : α → β → Prop) : List α → List β → Prop
  | nil : ListRel R [] []
  | cons {a b as bs} : R a b → ListRel R as bs → ListRel R (a :: as) (b :: bs)

/-- two members are interchangeable for field `f` under reader `rj` -/
def MemRel (rj : Rj) (f : Field) (j j' : Option Json) : Prop :=
  (f.isBit = true → j = j') ∧ j.isSome = j'.isSome ∧ ∀ na, rj f.ty na j = rj f.ty na j'

def SlotRel (rj : Rj) (a b : Slot) : Prop :=
  a.f = b.f ∧ a.presented = b.presented ∧ a.trueVal = b.trueVal ∧ (∀ na, rj a.f.ty na a.j = rj a.f.ty na b.j)

def Pass1Rel (rj : Rj) : Except CErr (List Slot × List (Option Val)) → Except CErr (List Slot × List (Option Val)) → Prop
  | .error e, .error e' => e = e'
  | .ok (sl, v), .ok (sl', v') => v = v' ∧ ListRel (SlotRel rj) sl sl'
  | _, _ => False

theorem rsPass1_rel (d : Desc) (fuel : Nat) (rj : Rj) (s : StructD) (kvs kvs' : List (Bytes × Json)) :
    ∀ fs : List Field, (∀ f ∈ fs, MemRel rj f (memberOf s f kvs) (memberOf s f kvs')) →
      Pass1Rel rj (rsPass1 d fuel rj s kvs fs) (rsPass1 d fuel rj s kvs' fs) := by
  intro fs
  induction fs with
  | nil => intro _; exact ⟨rfl, .nil⟩
  | cons f fs ih =>
    intro h
    have hf := h f (by simp)
    have ih' := ih (fun g hg => h g (by simp [hg]))
    unfold rsPass1
    cases h1 : rsPass1 d fuel rj s kvs fs with
    | error e =>
      cases h2 : rsPass1 d fuel rj s kvs' fs with
      | error e' => rw [h1, h2] at ih'; exact ih'
      | ok p => rw [h1, h2] at ih'; exact ih'.elim
    | ok p =>
      obtain ⟨slots, vals⟩ := p
      cases h2 : rsPass1 d fuel rj s kvs' fs with
      | error e' => rw [h1, h2] at ih'; exact ih'.elim
      | ok p' =>
        obtain ⟨slots', vals'⟩ := p'
        rw [h1, h2] at ih'
        obtain ⟨hv, hs⟩ := ih'
        subst hv
        obtain ⟨hbit, hsome, hrj⟩ := hf
        simp only []
        by_cases hb : f.isBit = true
        · have := hbit hb
          rw [← this]
          simp only [hb, if_true]
          cases hm : memberOf s f kvs with
          | none => exact ⟨rfl, .cons ⟨rfl, rfl, rfl, fun _ => rfl⟩ hs⟩
          | some jv =>
            cases jv with
            | bool b => exact ⟨rfl, .cons ⟨rfl, rfl, rfl, fun _ => rfl⟩ hs⟩
            | null => rfl
            | num t => rfl
            | str t => rfl
            | arr t => rfl
            | obj t => rfl
        · have hb' : f.isBit = false := by simpa using hb
          simp only [hb', Bool.false_eq_true, if_false]
          by_cases hn : f.natArgs.isEmpty = true
          · simp only [hn, if_true]
            cases hm : memberOf s f kvs with
            | none =>
              have hm' : memberOf s f kvs' = none := by
                rw [hm] at hsome
                cases hx : memberOf s f kvs' with
                | none => rfl
                | some _ => rw [hx] at hsome; simp at hsome
              rw [hm']
              simp only []
              split
              · exact ⟨rfl, .cons ⟨rfl, rfl, rfl, fun _ => rfl⟩ hs⟩
              · cases jzeroVal d fuel f.ty with
                | error e => rfl
                | ok z => exact ⟨rfl, .cons ⟨rfl, rfl, rfl, fun _ => rfl⟩ hs⟩
            | some jv =>
              cases hx : memberOf s f kvs' with
              | none => rw [hm, hx] at hsome; simp at hsome
              | some jv' =>
                simp only []
                have hr := hrj []
                rw [hm, hx] at hr
                rw [hr]
                cases rj f.ty [] (some jv') with
                | error e => rfl
                | ok v => exact ⟨rfl, .cons ⟨rfl, rfl, rfl, fun na => by have := hrj na; rw [hm, hx] at this; exact this⟩ hs⟩
          · have hn' : f.natArgs.isEmpty = false := by simpa using hn
            simp only [hn', Bool.false_eq_true, if_false]
            exact ⟨rfl, .cons ⟨rfl, hsome, rfl, hrj⟩ hs⟩

theorem rsTl2Set_rel (rj : Rj) (params : List Nat) (vals : List (Option Val)) (sl sl' : List Slot) (h : ListRel (SlotRel rj) sl sl') :
    rsTl2Set params vals sl = rsTl2Set params vals sl' := by
  unfold rsTl2Set
  induction h with
  | nil => rfl
  | cons hab _ ih =>
    obtain ⟨hf, hp, ht, _⟩ := hab
    simp only [List.map_cons, hf, hp, ht, ih]

theorem rsProp_rel (rj : Rj) (s : StructD) (params : List Nat) (sl sl' : List Slot) (h : ListRel (SlotRel rj) sl sl') :
    ∀ vals, rsProp s params sl vals = rsProp s params sl' vals := by
  induction h with
  | nil => intro vals; rfl
  | @cons a b as bs hab _ ih =>
    intro vals
    obtain ⟨hf, hp, ht, _⟩ := hab
    have e : rsProp s params as = rsProp s params bs := funext ih
    simp only [rsProp, Slot.implies, hf, hp, ht, e]
    rfl

theorem rsBadFalse_rel (rj : Rj) (s : StructD) (params : List Nat) (vals : List (Option Val)) (sl sl' : List Slot)
    (h : ListRel (SlotRel rj) sl sl') : rsBadFalse s params vals sl = rsBadFalse s params vals sl' := by
  unfold rsBadFalse
  congr 1
  induction h with
  | nil => rfl
  | cons hab _ ih =>
    obtain ⟨hf, hp, ht, _⟩ := hab
    simp only [List.any_cons, hf, hp, ht, ih]

theorem rsFin_rel (d : Desc) (fuel : Nat) (rj : Rj) (s : StructD) (params : List Nat) (vals1 : List (Option Val))
    (sl sl' : List Slot) (h : ListRel (SlotRel rj) sl sl') :
    ∀ ts vs, rsFin d fuel rj s params vals1 sl ts vs = rsFin d fuel rj s params vals1 sl' ts vs := by
  induction h with
  | nil => intro ts vs; rfl
  | cons hab _ ih =>
    intro ts vs
    obtain ⟨hf, hp, ht, hr⟩ := hab
    cases ts with
    | nil => rfl
    | cons t ts =>
      cases vs with
      | nil => rfl
      | cons v vs =>
        simp only [rsFin, ih ts vs, ← hf, hp]
        cases rsFin d fuel rj s params vals1 _ ts vs with
        | error e => rfl
        | ok rest =>
          simp only []
          split
          · rfl
          · cases natArgVals vals1 params _ with
            | none => rfl
            | some na => simp only [hr na]

/-- **struct congruence**: the struct reader sees its members only through the field readers -/
theorem readStructJ_congr (d : Desc) (fuel : Nat) (rj : Rj) (s : StructD) (params : List Nat) (kvs kvs' : List (Bytes × Json))
    (hk : keysOk s kvs = keysOk s kvs') (hm : ∀ f ∈ s.fields, MemRel rj f (memberOf s f kvs) (memberOf s f kvs')) :
    readStructJ d fuel rj s params kvs = readStructJ d fuel rj s params kvs' := by
  have hp := rsPass1_rel d fuel rj s kvs kvs' s.fields hm
  unfold readStructJ
  rw [hk]
  split
  · rfl
  · cases h1 : rsPass1 d fuel rj s kvs s.fields with
    | error e =>
      cases h2 : rsPass1 d fuel rj s kvs' s.fields with
      | error e' => rw [h1, h2] at hp; simp only [Pass1Rel] at hp; rw [hp]
      | ok p => rw [h1, h2] at hp; exact hp.elim
    | ok p =>
      obtain ⟨slots, vals⟩ := p
      cases h2 : rsPass1 d fuel rj s kvs' s.fields with
      | error e' => rw [h1, h2] at hp; exact hp.elim
      | ok p' =>
        obtain ⟨slots', vals'⟩ := p'
        rw [h1, h2] at hp
        obtain ⟨hv, hs⟩ := hp
        subst hv
        simp only []
        rw [rsProp_rel rj s params slots slots' hs vals]
        cases rsProp s params slots' vals with
        | error e => rfl
        | ok vals1 =>
          simp only []
          rw [rsBadFalse_rel rj s params vals1 slots slots' hs, rsTl2Set_rel rj params vals slots slots' hs,
              rsFin_rel d fuel rj s params vals1 slots slots' hs]


/-! ### keys only -/

def countK (k : Bytes) : List Bytes → Nat
  | [] => 0
  | x :: r => (if x == k then 1 else 0) + countK k r

theorem countKey_eq (k : Bytes) (kvs : List (Bytes × Json)) : countKey k kvs = countK k (kvs.map Prod.fst) := by
  induction kvs with
  | nil => rfl
  | cons h t ih => obtain ⟨x, j⟩ := h; simp only [countKey, List.map_cons, countK, ih]

theorem keysOk_keys (s : StructD) (kvs kvs' : List (Bytes × Json)) (h : kvs.map Prod.fst = kvs'.map Prod.fst) :
    keysOk s kvs = keysOk s kvs' := by
  have e : ∀ l : List (Bytes × Json), keysOk s l = (l.map Prod.fst).all (fun k => (findField s k s.fields 0).isSome && countK k (l.map Prod.fst) == 1) := by
    intro l
    unfold keysOk
    rw [List.all_map]
    congr 1
    funext kv
    simp only [Function.comp, countKey_eq]
  rw [e kvs, e kvs', h]

theorem lookupKey_replace (key k : Bytes) (v v' : Json) (b : List (Bytes × Json)) :
    ∀ a : List (Bytes × Json),
      lookupKey key (a ++ (k, v) :: b) = lookupKey key (a ++ (k, v') :: b) ∨
      (k = key ∧ lookupKey key (a ++ (k, v) :: b) = some v ∧ lookupKey key (a ++ (k, v') :: b) = some v') := by
  intro a
  induction a with
  | nil =>
    simp only [List.nil_append, lookupKey]
    by_cases h : (k == key) = true
    · right; simp only [h, if_true]; exact ⟨by simpa using h, trivial, trivial⟩
    · left; simp [h]
  | cons x xs ih =>
    obtain ⟨xk, xj⟩ := x
    simp only [List.cons_append, lookupKey]
    by_cases h : (xk == key) = true
    · left; simp only [h, if_true]
    · simp only [h]; exact ih

theorem memRel_refl (rj : Rj) (f : Field) (j : Option Json) : MemRel rj f j j := ⟨fun _ => rfl, rfl, fun _ => rfl⟩

/-- replacing the value of one member by a value the field readers cannot tell apart does not change the result -/
theorem readStructJ_member_congr (d : Desc) (fuel : Nat) (rj : Rj) (s : StructD) (params : List Nat)
    (a b : List (Bytes × Json)) (k : Bytes) (v v' : Json)
    (H : ∀ f ∈ s.fields, strBytes f.name = k → f.isBit = false ∧ ∀ na, rj f.ty na (some v) = rj f.ty na (some v')) :
    readStructJ d fuel rj s params (a ++ (k, v) :: b) = readStructJ d fuel rj s params (a ++ (k, v') :: b) := by
  apply readStructJ_congr
  · exact keysOk_keys s _ _ (by simp)
  · intro f hf
    unfold memberOf
    split
    · exact memRel_refl rj f none
    · rcases lookupKey_replace (strBytes f.name) k v v' b a with h | ⟨hk, h1, h2⟩
      · rw [h]; exact memRel_refl rj f _
      · rw [h1, h2]
        obtain ⟨hb, hr⟩ := H f hf hk.symm
        refine ⟨fun hbit => ?_, rfl, hr⟩
        rw [hb] at hbit
        exact absurd hbit (by simp)

/-! ### struct congruence, generalised: explicit empty value for an absent plain field -/




/-- an unmasked, independent, non-bit field: its `presented` flag influences nothing but the value read in the first pass -/
def Field.plain (f : Field) : Prop := f.isBit = false ∧ f.mask = none ∧ f.tl2bit = none ∧ f.natArgs.isEmpty = true

def SlotRel2 (rj : Rj) (a b : Slot) : Prop :=
  a.f = b.f ∧ a.trueVal = b.trueVal ∧
    ((a.presented = b.presented ∧ ∀ na, rj a.f.ty na a.j = rj a.f.ty na b.j) ∨ a.f.plain)

def MemRel2 (d : Desc) (fuel : Nat) (rj : Rj) (s : StructD) (f : Field) (j j' : Option Json) : Prop :=
  MemRel rj f j j' ∨
  (f.plain ∧ fieldOmitted s f = false ∧ j = none ∧ ∃ ej, j' = some ej ∧ rj f.ty [] (some ej) = jzeroVal d fuel f.ty)

def Pass1Rel2 (rj : Rj) : Except CErr (List Slot × List (Option Val)) → Except CErr (List Slot × List (Option Val)) → Prop
  | .error e, .error e' => e = e'
  | .ok (sl, v), .ok (sl', v') => v = v' ∧ ListRel (SlotRel2 rj) sl sl'
  | _, _ => False

theorem slotRel2_of_slotRel {rj : Rj} {a b : Slot} (h : SlotRel rj a b) : SlotRel2 rj a b :=
  ⟨h.1, h.2.2.1, Or.inl ⟨h.2.1, h.2.2.2⟩⟩

theorem rsPass1_step_rel (d : Desc) (fuel : Nat) (rj : Rj) (s : StructD) (kvs kvs' : List (Bytes × Json)) (f : Field) (fs : List Field)
    (hf : MemRel rj f (memberOf s f kvs) (memberOf s f kvs'))
    (ih : Pass1Rel2 rj (rsPass1 d fuel rj s kvs fs) (rsPass1 d fuel rj s kvs' fs)) :
    Pass1Rel2 rj (rsPass1 d fuel rj s kvs (f :: fs)) (rsPass1 d fuel rj s kvs' (f :: fs)) := by
  unfold rsPass1
  cases h1 : rsPass1 d fuel rj s kvs fs with
  | error e =>
    cases h2 : rsPass1 d fuel rj s kvs' fs with
    | error e' => rw [h1, h2] at ih; exact ih
    | ok p => rw [h1, h2] at ih; exact ih.elim
  | ok p =>
    obtain ⟨slots, vals⟩ := p
    cases h2 : rsPass1 d fuel rj s kvs' fs with
    | error e' => rw [h1, h2] at ih; exact ih.elim
    | ok p' =>
      obtain ⟨slots', vals'⟩ := p'
      rw [h1, h2] at ih
      obtain ⟨hv, hs⟩ := ih
      subst hv
      obtain ⟨hbit, hsome, hrj⟩ := hf
      simp only []
      by_cases hb : f.isBit = true
      · have := hbit hb
        rw [← this]
        simp only [hb, if_true]
        cases hm : memberOf s f kvs with
        | none => exact ⟨rfl, .cons ⟨rfl, rfl, Or.inl ⟨rfl, fun _ => rfl⟩⟩ hs⟩
        | some jv =>
          cases jv with
          | bool b => exact ⟨rfl, .cons ⟨rfl, rfl, Or.inl ⟨rfl, fun _ => rfl⟩⟩ hs⟩
          | null => rfl
          | num t => rfl
          | str t => rfl
          | arr t => rfl
          | obj t => rfl
      · have hb' : f.isBit = false := by simpa using hb
        simp only [hb', Bool.false_eq_true, if_false]
        by_cases hn : f.natArgs.isEmpty = true
        · simp only [hn, if_true]
          cases hm : memberOf s f kvs with
          | none =>
            have hm' : memberOf s f kvs' = none := by
              rw [hm] at hsome
              cases hx : memberOf s f kvs' with
              | none => rfl
              | some _ => rw [hx] at hsome; simp at hsome
            rw [hm']
            simp only []
            split
            · exact ⟨rfl, .cons ⟨rfl, rfl, Or.inl ⟨rfl, fun _ => rfl⟩⟩ hs⟩
            · cases jzeroVal d fuel f.ty with
              | error e => rfl
              | ok z => exact ⟨rfl, .cons ⟨rfl, rfl, Or.inl ⟨rfl, fun _ => rfl⟩⟩ hs⟩
          | some jv =>
            cases hx : memberOf s f kvs' with
            | none => rw [hm, hx] at hsome; simp at hsome
            | some jv' =>
              simp only []
              have hr := hrj []
              rw [hm, hx] at hr
              rw [hr]
              cases rj f.ty [] (some jv') with
              | error e => rfl
              | ok v => exact ⟨rfl, .cons ⟨rfl, rfl, Or.inl ⟨rfl, fun na => by have := hrj na; rw [hm, hx] at this; exact this⟩⟩ hs⟩
        · have hn' : f.natArgs.isEmpty = false := by simpa using hn
          simp only [hn', Bool.false_eq_true, if_false]
          exact ⟨rfl, .cons ⟨rfl, rfl, Or.inl ⟨hsome, hrj⟩⟩ hs⟩

theorem rsPass1_step_plain (d : Desc) (fuel : Nat) (rj : Rj) (s : StructD) (kvs kvs' : List (Bytes × Json)) (f : Field) (fs : List Field)
    (hp : f.plain) (ho : fieldOmitted s f = false) (hj : memberOf s f kvs = none) (ej : Json) (hj' : memberOf s f kvs' = some ej)
    (hz : rj f.ty [] (some ej) = jzeroVal d fuel f.ty)
    (ih : Pass1Rel2 rj (rsPass1 d fuel rj s kvs fs) (rsPass1 d fuel rj s kvs' fs)) :
    Pass1Rel2 rj (rsPass1 d fuel rj s kvs (f :: fs)) (rsPass1 d fuel rj s kvs' (f :: fs)) := by
  obtain ⟨hb, hmask, htl2, hn⟩ := hp
  unfold rsPass1
  cases h1 : rsPass1 d fuel rj s kvs fs with
  | error e =>
    cases h2 : rsPass1 d fuel rj s kvs' fs with
    | error e' => rw [h1, h2] at ih; exact ih
    | ok p => rw [h1, h2] at ih; exact ih.elim
  | ok p =>
    obtain ⟨slots, vals⟩ := p
    cases h2 : rsPass1 d fuel rj s kvs' fs with
    | error e' => rw [h1, h2] at ih; exact ih.elim
    | ok p' =>
      obtain ⟨slots', vals'⟩ := p'
      rw [h1, h2] at ih
      obtain ⟨hv, hs⟩ := ih
      subst hv
      simp only [hb, Bool.false_eq_true, if_false, hn, if_true, hj, hj', ho, hz]
      cases jzeroVal d fuel f.ty with
      | error e => rfl
      | ok z => exact ⟨rfl, .cons ⟨rfl, rfl, Or.inr ⟨hb, hmask, htl2, hn⟩⟩ hs⟩

theorem rsPass1_rel2 (d : Desc) (fuel : Nat) (rj : Rj) (s : StructD) (kvs kvs' : List (Bytes × Json)) :
    ∀ fs : List Field, (∀ f ∈ fs, MemRel2 d fuel rj s f (memberOf s f kvs) (memberOf s f kvs')) →
      Pass1Rel2 rj (rsPass1 d fuel rj s kvs fs) (rsPass1 d fuel rj s kvs' fs) := by
  intro fs
  induction fs with
  | nil => intro _; exact ⟨rfl, .nil⟩
  | cons f fs ih =>
    intro h
    have ih' := ih (fun g hg => h g (by simp [hg]))
    rcases h f (by simp) with hm | ⟨hp, ho, hj, ej, hj', hz⟩
    · exact rsPass1_step_rel d fuel rj s kvs kvs' f fs hm ih'
    · exact rsPass1_step_plain d fuel rj s kvs kvs' f fs hp ho hj ej hj' hz ih'


theorem rsProp_rel2 (rj : Rj) (s : StructD) (params : List Nat) (sl sl' : List Slot) (h : ListRel (SlotRel2 rj) sl sl') :
    ∀ vals, rsProp s params sl vals = rsProp s params sl' vals := by
  induction h with
  | nil => intro vals; rfl
  | @cons a b as bs hab _ ih =>
    intro vals
    obtain ⟨hf, ht, hor⟩ := hab
    have e : rsProp s params as = rsProp s params bs := funext ih
    rcases hor with ⟨hp, _⟩ | ⟨_, hmask, _, _⟩
    · simp only [rsProp, Slot.implies, hf, hp, ht, e]
      rfl
    · have hmask' : b.f.mask = none := by rw [← hf]; exact hmask
      simp only [rsProp, Slot.implies, hmask, hmask', Option.isSome_none, Bool.false_and, Bool.false_eq_true, if_false, e]

theorem rsBadFalse_rel2 (rj : Rj) (s : StructD) (params : List Nat) (vals : List (Option Val)) (sl sl' : List Slot)
    (h : ListRel (SlotRel2 rj) sl sl') : rsBadFalse s params vals sl = rsBadFalse s params vals sl' := by
  unfold rsBadFalse
  congr 1
  induction h with
  | nil => rfl
  | @cons a b as bs hab _ ih =>
    obtain ⟨hf, ht, hor⟩ := hab
    rcases hor with ⟨hp, _⟩ | ⟨hbit, _, _, _⟩
    · simp only [List.any_cons, hf, hp, ht, ih]
    · have hbit' : b.f.isBit = false := by rw [← hf]; exact hbit
      simp only [List.any_cons, hbit, hbit', Bool.false_and, Bool.false_or, ih]

theorem rsFin_rel2 (d : Desc) (fuel : Nat) (rj : Rj) (s : StructD) (params : List Nat) (vals0 vals1 : List (Option Val))
    (sl sl' : List Slot) (h : ListRel (SlotRel2 rj) sl sl') :
    ∀ vs, rsFin d fuel rj s params vals1 sl (rsTl2Set params vals0 sl) vs = rsFin d fuel rj s params vals1 sl' (rsTl2Set params vals0 sl') vs := by
  induction h with
  | nil => intro vs; rfl
  | @cons a b as bs hab _ ih =>
    intro vs
    obtain ⟨hf, ht, hor⟩ := hab
    cases vs with
    | nil => simp [rsTl2Set, rsFin]
    | cons v vs =>
      have ih' := ih vs
      unfold rsTl2Set at ih' ⊢
      simp only [List.map_cons, rsFin, ih']
      cases rsFin d fuel rj s params vals1 bs _ vs with
      | error e => rfl
      | ok rest =>
        simp only []
        rcases hor with ⟨hp, hr⟩ | ⟨hbit, hmask, htl2, hn⟩
        · simp only [← hf, hp, ht]
          split
          · rfl
          · cases natArgVals vals1 params a.f.natArgs with
            | none => rfl
            | some na => simp only [hr na]
        · have hbit' : b.f.isBit = false := by rw [← hf]; exact hbit
          have hmask' : b.f.mask = none := by rw [← hf]; exact hmask
          have htl2' : b.f.tl2bit = none := by rw [← hf]; exact htl2
          have hn' : b.f.natArgs.isEmpty = true := by rw [← hf]; exact hn
          simp only [hbit, hbit', hmask, hmask', htl2, htl2', hn, hn', ← hf, Option.isSome_none, Bool.false_eq_true, if_false, if_true,
            Bool.false_and]

/-- struct reader congruence, generalised: members may also differ by an explicit empty value for an absent plain field -/
theorem readStructJ_congr2 (d : Desc) (fuel : Nat) (rj : Rj) (s : StructD) (params : List Nat) (kvs kvs' : List (Bytes × Json))
    (hk : keysOk s kvs = keysOk s kvs') (hm : ∀ f ∈ s.fields, MemRel2 d fuel rj s f (memberOf s f kvs) (memberOf s f kvs')) :
    readStructJ d fuel rj s params kvs = readStructJ d fuel rj s params kvs' := by
  have hp := rsPass1_rel2 d fuel rj s kvs kvs' s.fields hm
  unfold readStructJ
  rw [hk]
  split
  · rfl
  · cases h1 : rsPass1 d fuel rj s kvs s.fields with
    | error e =>
      cases h2 : rsPass1 d fuel rj s kvs' s.fields with
      | error e' => rw [h1, h2] at hp; simp only [Pass1Rel2] at hp; rw [hp]
      | ok p => rw [h1, h2] at hp; exact hp.elim
    | ok p =>
      obtain ⟨slots, vals⟩ := p
      cases h2 : rsPass1 d fuel rj s kvs' s.fields with
      | error e' => rw [h1, h2] at hp; exact hp.elim
      | ok p' =>
        obtain ⟨slots', vals'⟩ := p'
        rw [h1, h2] at hp
        obtain ⟨hv, hs⟩ := hp
        subst hv
        simp only []
        rw [rsProp_rel2 rj s params slots slots' hs vals]
        cases rsProp s params slots' vals with
        | error e => rfl
        | ok vals1 =>
          simp only []
          rw [rsBadFalse_rel2 rj s params vals1 slots slots' hs, rsFin_rel2 d fuel rj s params vals vals1 slots slots' hs]


theorem countKey_append (k : Bytes) (x y : List (Bytes × Json)) : countKey k (x ++ y) = countKey k x + countKey k y := by
  induction x with
  | nil => simp [countKey]
  | cons h t ih => obtain ⟨hk, hj⟩ := h; simp only [List.cons_append, countKey, ih]; omega

theorem countKey_pos_of_mem (kvs : List (Bytes × Json)) (kv : Bytes × Json) (h : kv ∈ kvs) : 1 ≤ countKey kv.1 kvs := by
  induction kvs with
  | nil => cases h
  | cons x xs ih =>
    obtain ⟨xk, xj⟩ := x
    rcases List.mem_cons.mp h with rfl | h
    · simp [countKey]
    · have := ih h
      simp only [countKey]; omega

theorem lookupKey_append_single (key k : Bytes) (ej : Json) (kvs : List (Bytes × Json)) :
    lookupKey key (kvs ++ [(k, ej)]) = (match lookupKey key kvs with | some j => some j | none => if k == key then some ej else none) := by
  induction kvs with
  | nil => simp [lookupKey]
  | cons x xs ih =>
    obtain ⟨xk, xj⟩ := x
    simp only [List.cons_append, lookupKey]
    by_cases h : (xk == key) = true
    · simp [h]
    · simp only [h]; exact ih

theorem all_congr_mem {α} (l : List α) (p q : α → Bool) (h : ∀ x ∈ l, p x = q x) : l.all p = l.all q := by
  induction l with
  | nil => rfl
  | cons x xs ih =>
    simp only [List.all_cons, h x (by simp), ih (fun y hy => h y (by simp [hy]))]

theorem keysOk_append_fresh (s : StructD) (kvs : List (Bytes × Json)) (k : Bytes) (ej : Json)
    (hc : countKey k kvs = 0) (hfield : (findField s k s.fields 0).isSome = true) :
    keysOk s (kvs ++ [(k, ej)]) = keysOk s kvs := by
  unfold keysOk
  rw [List.all_append]
  have h1 : (kvs.all fun kv => (findField s kv.1 s.fields 0).isSome && countKey kv.1 (kvs ++ [(k, ej)]) == 1) =
      (kvs.all fun kv => (findField s kv.1 s.fields 0).isSome && countKey kv.1 kvs == 1) := by
    apply all_congr_mem
    intro kv hkv
    have hne : (k == kv.1) = false := by
      cases hkk : (k == kv.1) with
      | false => rfl
      | true =>
        have : k = kv.1 := by simpa using hkk
        have := countKey_pos_of_mem kvs kv hkv
        rw [← ‹k = kv.1›] at this
        omega
    rw [countKey_append]
    simp [countKey, hne]
  rw [h1]
  simp [countKey_append, countKey, hc, hfield]

/-- **omitted_is_empty** at struct level: a member holding the explicit empty value of an absent plain field (unmasked, no nat
arguments, not true-typed) can be added without changing what the struct reader returns -/
theorem readStructJ_omitted_empty (d : Desc) (fuel : Nat) (rj : Rj) (s : StructD) (params : List Nat) (kvs : List (Bytes × Json))
    (k : Bytes) (ej : Json) (hc : countKey k kvs = 0)
    (hfield : (findField s k s.fields 0).isSome = true)
    (H : ∀ f ∈ s.fields, strBytes f.name = k → fieldOmitted s f = false → f.plain ∧ rj f.ty [] (some ej) = jzeroVal d fuel f.ty) :
    readStructJ d fuel rj s params kvs = readStructJ d fuel rj s params (kvs ++ [(k, ej)]) := by
  apply readStructJ_congr2
  · exact (keysOk_append_fresh s kvs k ej hc hfield).symm
  · intro f hf
    unfold memberOf
    by_cases ho : fieldOmitted s f = true
    · simp only [ho, if_true]; exact Or.inl (memRel_refl rj f none)
    · have ho' : fieldOmitted s f = false := by simpa using ho
      simp only [ho', Bool.false_eq_true, if_false]
      rw [lookupKey_append_single]
      cases hlk : lookupKey (strBytes f.name) kvs with
      | some j => exact Or.inl (memRel_refl rj f _)
      | none =>
        simp only []
        by_cases hk : (k == strBytes f.name) = true
        · simp only [hk, if_true]
          have hk' : strBytes f.name = k := by simpa using (beq_iff_eq.mp hk).symm
          obtain ⟨hp, hz⟩ := H f hf hk' ho'
          exact Or.inr ⟨hp, ho', rfl, ej, rfl, hz⟩
        · simp only [hk]; exact Or.inl (memRel_refl rj f none)

end TLVerif.Codec
