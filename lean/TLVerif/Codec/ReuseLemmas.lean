import TLVerif.Codec.Reuse
/-! Lemmas about the memory-level reuse model: the observation of a read into ANY old storage is the fresh read. -/
namespace TLVerif.Codec.Reuse
open TLVerif.Prim TLVerif.Codec

/-! ### `abs` on lists -/

theorem absList_eq_map (ms : List Mem) : absList ms = ms.map abs := by
  induction ms with
  | nil => rfl
  | cons m r ih => simp [absList, ih]

theorem absFields_append (a b : List (Bool × Mem)) : absFields (a ++ b) = absFields a ++ absFields b := by
  induction a with
  | nil => rfl
  | cons x r ih => obtain ⟨p, m⟩ := x; simp [absFields, ih]

theorem absFields_getElem? (fs : List (Bool × Mem)) (i : Nat) :
    (absFields fs)[i]? = fs[i]?.map (fun pm => if pm.1 then some (abs pm.2) else none) := by
  induction fs generalizing i with
  | nil => simp [absFields]
  | cons x r ih =>
    obtain ⟨p, m⟩ := x
    cases i with
    | zero => simp [absFields]
    | succ i => simp [absFields, ih]

theorem absNth_setPad (l : List Mem) (i : Nat) (m : Mem) : absNth (setPad l i m) i = abs m := by
  induction i generalizing l with
  | zero => cases l <;> simp [setPad, absNth]
  | succ i ih => cases l <;> simp [setPad, absNth, ih]

theorem abs_eq_nat {m : Mem} {n : Nat} : abs m = .nat n ↔ m = .nat n := by
  cases m <;> simp [abs]

/-! ### nat arguments are read from storage -/

/-- every masked-out cell that holds a number holds 0: what the `else { Reset }` branch establishes -/
def hiddenZero (fs : List (Bool × Mem)) : Prop := ∀ n, (false, Mem.nat n) ∈ fs → n = 0

theorem hiddenZero_nil : hiddenZero [] := by intro n h; cases h

theorem hiddenZero_snoc_true {fs : List (Bool × Mem)} (h : hiddenZero fs) (m : Mem) : hiddenZero (fs ++ [(true, m)]) := by
  intro n hn
  rcases List.mem_append.mp hn with h1 | h1
  · exact h n h1
  · simp at h1

theorem hiddenZero_snoc_false {fs : List (Bool × Mem)} (h : hiddenZero fs) (m : Mem) (hm : ∀ n, m = .nat n → n = 0) :
    hiddenZero (fs ++ [(false, m)]) := by
  intro n hn
  rcases List.mem_append.mp hn with h1 | h1
  · exact h n h1
  · simp at h1; exact hm n h1.symm

theorem natArgValM_eq {fs : List (Bool × Mem)} (h : hiddenZero fs) (params : List Nat) (a : NatArg) :
    natArgValM fs params a = natArgVal (absFields fs) params a := by
  cases a with
  | num n => rfl
  | param i => rfl
  | field i =>
    simp only [natArgValM, natArgVal, absFields_getElem?]
    cases hi : fs[i]? with
    | none => simp
    | some pm =>
      obtain ⟨p, m⟩ := pm
      have hmem : (p, m) ∈ fs := List.mem_of_getElem? hi
      cases p with
      | true =>
        cases m <;> simp [abs]
      | false =>
        cases m with
        | nat n => have := h n hmem; subst this; simp
        | _ => simp

theorem natArgValsM_eq {fs : List (Bool × Mem)} (h : hiddenZero fs) (params : List Nat) (as : List NatArg) :
    natArgValsM fs params as = natArgVals (absFields fs) params as := by
  induction as with
  | nil => rfl
  | cons a r ih => simp only [natArgValsM, natArgVals, natArgValM_eq h, ih]

theorem fieldPresentM_eq {fs : List (Bool × Mem)} (h : hiddenZero fs) (params : List Nat) (f : Field) :
    fieldPresentM f fs params = fieldPresent f (absFields fs) params := by
  unfold fieldPresentM fieldPresent
  cases f.mask with
  | none => rfl
  | some ab => obtain ⟨a, b⟩ := ab; simp only [natArgValM_eq h]

/-! ### loops -/

def obsF : List (Bool × Mem) × Except CErr Bytes → Except CErr (List (Option Val) × Bytes)
  | (fs, .ok bs) => .ok (absFields fs, bs)
  | (_, .error e) => .error e

def obsE : List Mem × Except CErr Bytes → Except CErr (List Val × Bytes)
  | (ms, .ok bs) => .ok (absList ms, bs)
  | (_, .error e) => .error e

def obsD : List Val × Except CErr Bytes → Except CErr (List Val × Bytes)
  | (es, .ok bs) => .ok (es, bs)
  | (_, .error e) => .error e

theorem readFieldsInto_obs (rd : RdM) (rs : RsM) (rdv : Rd) (params : List Nat)
    (hrd : ∀ ty bare na o bs, obs (rd ty bare na o bs) = rdv ty bare na bs)
    (hrs : ∀ ty o n, rs ty o = .nat n → n = 0) :
    ∀ (fs : List Field) (done todo : List (Bool × Mem)) (bs : Bytes), hiddenZero done →
      obsF (readFieldsInto rd rs params fs done todo bs) = readFieldsWith rdv params fs (absFields done) bs := by
  intro fs
  induction fs with
  | nil => intro done todo bs _; rfl
  | cons f fs ih =>
    intro done todo bs hz
    rw [readFieldsInto, readFieldsWith]
    simp only [fieldPresentM_eq hz, natArgValsM_eq hz]
    cases hp : fieldPresent f (absFields done) params with
    | none => rfl
    | some p =>
      cases hn : natArgVals (absFields done) params f.natArgs with
      | none => cases p <;> rfl
      | some na =>
        cases p with
        | false =>
          simp only []
          rw [ih _ _ _ (hiddenZero_snoc_false hz _ (hrs _ _)), absFields_append]
          rfl
        | true =>
          simp only []
          have h1 := hrd f.ty f.bare na ((todo.head?.map (·.2)).getD .nil) bs
          cases hr : rd f.ty f.bare na ((todo.head?.map (·.2)).getD .nil) bs with
          | mk m r =>
            rw [hr] at h1
            cases r with
            | error e => simp only [obs] at h1; rw [← h1]; rfl
            | ok bs' =>
              simp only [obs] at h1
              rw [← h1]
              simp only []
              rw [ih _ _ _ (hiddenZero_snoc_true hz _), absFields_append]
              rfl

theorem readElemsInto_obs (rd : RdM) (rdv : Rd) (f : Field) (na : List Nat)
    (hrd : ∀ ty bare na o bs, obs (rd ty bare na o bs) = rdv ty bare na bs) :
    ∀ (todo : List Mem) (bs : Bytes),
      obsE (readElemsInto rd f na todo bs) = readElemsWith rdv f na todo.length bs := by
  intro todo
  induction todo with
  | nil => intro bs; rfl
  | cons o os ih =>
    intro bs
    rw [readElemsInto, List.length_cons, readElemsWith]
    have h1 := hrd f.ty f.bare na o bs
    cases hr : rd f.ty f.bare na o bs with
    | mk m r =>
      rw [hr] at h1
      cases r with
      | error e => simp only [obs] at h1; rw [← h1]; rfl
      | ok bs' =>
        simp only [obs] at h1
        rw [← h1]
        simp only []
        have h2 := ih bs'
        cases hr2 : readElemsInto rd f na os bs' with
        | mk ms r2 =>
          rw [hr2] at h2
          cases r2 with
          | error e => simp only [obsE] at h2; rw [← h2]; rfl
          | ok bs'' => simp only [obsE] at h2; rw [← h2]; simp [obsE, absList]

theorem readDictInto_obs (rd : RdM) (rdv : Rd) (f : Field) (na : List Nat) (k : PrimK)
    (hrd : ∀ ty bare na o bs, obs (rd ty bare na o bs) = rdv ty bare na bs) :
    ∀ (n : Nat) (acc : List Val) (bs : Bytes),
      obsD (readDictInto rd f na k n acc bs) =
        (readElemsWith rdv f na n bs).map (fun p => (p.1.foldl (fun a e => dictInsert k e a) acc, p.2)) := by
  intro n
  induction n with
  | zero => intro acc bs; rfl
  | succ n ih =>
    intro acc bs
    rw [readDictInto, readElemsWith]
    have h1 := hrd f.ty f.bare na .nil bs
    cases hr : rd f.ty f.bare na .nil bs with
    | mk m r =>
      rw [hr] at h1
      cases r with
      | error e => simp only [obs] at h1; rw [← h1]; rfl
      | ok bs' =>
        simp only [obs] at h1
        rw [← h1]
        simp only []
        rw [ih]
        cases readElemsWith rdv f na n bs' with
        | error e => rfl
        | ok p => rfl

/-! ### the reader -/

theorem abs_ofPrim_readPrim {k : PrimK} {bs : Bytes} {v : Val} {r : Bytes} (h : readPrim k bs = .ok (v, r)) :
    abs (Mem.ofPrim v) = v := by
  cases k <;> simp only [readPrim] at h
  case byte => cases bs <;> simp at h; obtain ⟨rfl, _⟩ := h; rfl
  case bit => simp at h; obtain ⟨rfl, _⟩ := h; rfl
  case str =>
    cases h1 : liftP (stringRead bs) with
    | error e => simp [h1, Except.map] at h
    | ok p => simp [h1, Except.map] at h; obtain ⟨rfl, _⟩ := h; rfl
  case bool f t =>
    cases h1 : readU32 bs with
    | error e => simp [h1] at h
    | ok p =>
      obtain ⟨tag, r'⟩ := p
      simp only [h1] at h
      by_cases c1 : tag = f
      · rw [if_pos c1] at h; simp at h; obtain ⟨rfl, _⟩ := h; rfl
      · by_cases c2 : tag = t
        · rw [if_neg c1, if_pos c2] at h; simp at h; obtain ⟨rfl, _⟩ := h; rfl
        · rw [if_neg c1, if_neg c2] at h; simp at h
  all_goals first
    | (cases h1 : readU32 bs with
       | error e => simp [h1, Except.map] at h
       | ok p => simp [h1, Except.map] at h; obtain ⟨rfl, _⟩ := h; rfl)
    | (cases h1 : readU64 bs with
       | error e => simp [h1, Except.map] at h
       | ok p => simp [h1, Except.map] at h; obtain ⟨rfl, _⟩ := h; rfl)

theorem freshMem_nat_zero (d : Desc) (fuel ty : Nat) (n : Nat) (h : freshMem d fuel ty = .nat n) : n = 0 := by
  cases fuel with
  | zero => simp [freshMem] at h
  | succ fuel =>
    simp only [freshMem] at h
    split at h
    · cases h
    · rename_i k _; cases k <;> simp [zeroPrimM] at h <;> exact h.symm
    · cases h
    · split at h <;> cases h
    · split at h <;> cases h
    · cases h

theorem resetMem_nat_zero (d : Desc) (fuel : Nat) (ty : Nat) (o : Mem) (n : Nat) (h : resetMem d fuel ty o = .nat n) : n = 0 := by
  cases fuel with
  | zero => simp [resetMem] at h
  | succ fuel =>
    simp only [resetMem] at h
    split at h
    · exact freshMem_nat_zero d _ ty n h
    · split at h
      · cases h
      · rename_i k _; cases k <;> simp [zeroPrimM] at h <;> exact h.symm
      · cases h
      · split at h <;> cases h
      · split at h <;> cases h
      · cases h

theorem padTake_length (n : Nat) (l : List Mem) : (padTake n l).length = n := by
  induction n generalizing l with
  | zero => rfl
  | succ n ih => cases l <;> simp [padTake, ih]

theorem reslice_length (old : Mem) (n : Nat) : (reslice old n).1.length = n := by
  unfold reslice
  simp only []
  split
  · simp
  · rename_i h; simp only [List.length_take]; omega

/-- the slice/array part of the reader, given the cells to read into -/
theorem vec_obs (cfg : Cfg) (d : Desc) (fuel : Nat)
    (ih : ∀ (ty : Nat) (bare : Bool) (params : List Nat) (old : Mem) (bs : Bytes),
      obs (readInto cfg d fuel ty bare params old bs) = readTL1 cfg d fuel ty bare params bs)
    (f : Field) (na : List Nat) (cells : List Mem) (stale : List Mem) (bs : Bytes) (n : Nat) (hl : cells.length = n) :
    obs (match readElemsInto (readInto cfg d fuel) f na cells bs with | (ms, r) => (Mem.vec ms stale, r)) =
      (readElemsWith (readTL1 cfg d fuel) f na n bs).map (fun p => (Val.arr p.1, p.2)) := by
  have he := readElemsInto_obs (readInto cfg d fuel) (readTL1 cfg d fuel) f na ih cells bs
  rw [hl] at he
  cases hr : readElemsInto (readInto cfg d fuel) f na cells bs with
  | mk ms r =>
    rw [hr] at he
    cases r with
    | error e => simp only [obsE] at he; rw [← he]; rfl
    | ok r => simp only [obsE] at he; rw [← he]; simp only [obs, abs, Except.map]

theorem readInto_obs (cfg : Cfg) (d : Desc) :
    ∀ (fuel ty : Nat) (bare : Bool) (params : List Nat) (old : Mem) (bs : Bytes),
      obs (readInto cfg d fuel ty bare params old bs) = readTL1 cfg d fuel ty bare params bs := by
  intro fuel
  induction fuel with
  | zero => intros; rfl
  | succ fuel ih =>
    intro ty bare params old bs
    simp only [readInto, readTL1]
    cases hg : d.get? ty with
    | none => rfl
    | some inst =>
      cases inst with
      | prim k =>
        simp only []
        cases hp : readPrim k bs with
        | error e => rfl
        | ok p => obtain ⟨v, r⟩ := p; simp only [obs, abs_ofPrim_readPrim hp]
      | struct s =>
        simp only []
        cases ht : (if bare then Except.ok bs else readExactTag s.tag bs : Except CErr Bytes) with
        | error e => rfl
        | ok bs1 =>
          simp only []
          have hf := readFieldsInto_obs (readInto cfg d fuel) (resetMem d fuel) (readTL1 cfg d fuel) params
            (ih) (resetMem_nat_zero d fuel) s.fields [] old.fields bs1 hiddenZero_nil
          cases hr : readFieldsInto (readInto cfg d fuel) (resetMem d fuel) params s.fields [] old.fields bs1 with
          | mk fs r =>
            rw [hr] at hf
            cases r with
            | error e => simp only [obsF] at hf; rw [show absFields [] = [] from rfl] at hf; rw [← hf]; rfl
            | ok r => simp only [obsF] at hf; rw [show absFields [] = [] from rfl] at hf; rw [← hf]; rfl
      | union u =>
        simp only []
        cases hu : readU32 bs with
        | error e => rfl
        | ok p =>
          obtain ⟨tag, bs1⟩ := p
          simp only []
          cases hv : findVariant d tag u.variants 0 with
          | none => rfl
          | some iv =>
            obtain ⟨i, vi⟩ := iv
            cases hn : natArgVals [] params u.elemNatArgs with
            | none => rfl
            | some na =>
              simp only []
              have h1 := ih vi true na (old.variants[i]?.getD .nil) bs1
              cases hr : readInto cfg d fuel vi true na (old.variants[i]?.getD .nil) bs1 with
              | mk m r =>
                rw [hr] at h1
                cases r with
                | error e => simp only [obs] at h1; rw [← h1]; rfl
                | ok r => simp only [obs] at h1; rw [← h1]; simp only [obs, abs, absNth_setPad]
      | array a =>
        simp only []
        cases hn : natArgVals [] params a.elem.natArgs with
        | none => rfl
        | some na =>
          simp only []
          by_cases ht : a.isTuple = true
          · rw [if_pos ht, if_pos ht]
            cases hc : (if a.dynamic = true then params[0]? else some a.count) with
            | none => rfl
            | some n =>
              simp only []
              by_cases hs : (a.dynamic && !sanityOk cfg bs n) = true
              · rw [if_pos hs, if_pos hs]; rfl
              · rw [if_neg hs, if_neg hs]
                exact vec_obs cfg d fuel ih a.elem na _ _ bs n (by split <;> simp [reslice_length, padTake_length])
          · rw [if_neg ht, if_neg ht]
            cases hu : readU32 bs with
            | error e => rfl
            | ok p =>
              obtain ⟨n, bs1⟩ := p
              simp only []
              by_cases hs : (!sanityOk cfg bs1 n) = true
              · rw [if_pos hs, if_pos hs]; rfl
              · rw [if_neg hs, if_neg hs]
                exact vec_obs cfg d fuel ih a.elem na _ _ bs1 n (reslice_length _ _)
      | dict a =>
        simp only []
        cases hn : natArgVals [] params a.elem.natArgs with
        | none => rfl
        | some na =>
          simp only []
          cases hu : readU32 bs with
          | error e => rfl
          | ok p =>
            obtain ⟨n, bs1⟩ := p
            simp only []
            by_cases hs : (!sanityOk cfg bs1 n) = true
            · rw [if_pos hs, if_pos hs]; rfl
            · rw [if_neg hs, if_neg hs]
              cases hk : dictKeyPrim d a with
              | none => rfl
              | some k =>
                simp only []
                have hd := readDictInto_obs (readInto cfg d fuel) (readTL1 cfg d fuel) a.elem na k ih n [] bs1
                cases hr : readDictInto (readInto cfg d fuel) a.elem na k n [] bs1 with
                | mk es r =>
                  rw [hr] at hd
                  cases hw : readElemsWith (readTL1 cfg d fuel) a.elem na n bs1 with
                  | error e =>
                    rw [hw] at hd
                    cases r with
                    | error e' => simp only [obsD, Except.map] at hd; cases hd; rfl
                    | ok r => simp [obsD, Except.map] at hd
                  | ok q =>
                    rw [hw] at hd
                    cases r with
                    | error e' => simp [obsD, Except.map] at hd
                    | ok r =>
                      simp only [obsD, Except.map] at hd
                      injection hd with hd
                      injection hd with h1 h2
                      subst h1 h2
                      rfl

/-! ### creation and Reset are the zero value -/

theorem absList_replicate (n : Nat) (m : Mem) : absList (List.replicate n m) = List.replicate n (abs m) := by
  induction n with
  | zero => rfl
  | succ n ih => simp [List.replicate_succ, absList, ih]

theorem abs_zeroPrimM (k : PrimK) : abs (zeroPrimM k) = Z.zeroPrim k := by
  cases k <;> rfl

theorem zeroFieldsWith_cons (z : Nat → Option Val) (f : Field) (fs : List Field) :
    Z.zeroFieldsWith z (f :: fs) =
      match Z.zeroFieldsWith z fs with
      | none => none
      | some rest =>
        if visibleAtZero f = false then some (none :: rest)
        else match z f.ty with
          | none => none
          | some v => some (some v :: rest) := by
  obtain ⟨nm, ty, bare, mask, tl2, isBit, na, om⟩ := f
  cases hr : Z.zeroFieldsWith z fs with
  | none => simp [Z.zeroFieldsWith, hr]
  | some rest =>
    cases mask with
    | none => cases tl2 <;> simp [Z.zeroFieldsWith, visibleAtZero, hr] <;> (cases z ty <;> rfl)
    | some ab =>
      obtain ⟨a, bit⟩ := ab
      cases a with
      | num n => cases ht : testBit n bit <;> simp [Z.zeroFieldsWith, visibleAtZero, hr, ht] <;> (cases z ty <;> rfl)
      | field i => simp [Z.zeroFieldsWith, visibleAtZero, hr]
      | param i => simp [Z.zeroFieldsWith, visibleAtZero, hr]

theorem freshFields_abs (z : Nat → Option Val) (fr : Nat → Mem)
    (h : ∀ ty v, z ty = some v → abs (fr ty) = v) :
    ∀ (fs : List Field) (l : List (Option Val)), Z.zeroFieldsWith z fs = some l → absFields (freshFieldsWith fr fs) = l := by
  intro fs
  induction fs with
  | nil => intro l hl; simp [Z.zeroFieldsWith] at hl; subst hl; rfl
  | cons f fs ih =>
    intro l hl
    rw [zeroFieldsWith_cons] at hl
    cases hr : Z.zeroFieldsWith z fs with
    | none => simp [hr] at hl
    | some rest =>
      simp only [hr] at hl
      simp only [freshFieldsWith]
      cases hv : visibleAtZero f with
      | false =>
        simp [hv] at hl; subst hl
        simp [absFields, ih rest hr]
      | true =>
        simp only [hv] at hl
        cases hz : z f.ty with
        | none => simp [hz] at hl
        | some v =>
          simp [hz] at hl; subst hl
          simp [absFields, ih rest hr, h _ _ hz]

theorem fresh_abs (d : Desc) : ∀ (fuel ty : Nat) (z : Val), Z.zeroVal d fuel ty = some z → abs (freshMem d fuel ty) = z := by
  intro fuel
  induction fuel with
  | zero => intro ty z h; simp [Z.zeroVal] at h
  | succ fuel ih =>
    intro ty z h
    simp only [Z.zeroVal] at h
    simp only [freshMem]
    cases hg : d.get? ty with
    | none => simp [hg] at h
    | some inst =>
      simp only [hg] at h
      cases inst with
      | prim k => simp only [] at h ⊢; cases h; exact abs_zeroPrimM k
      | struct s =>
        simp only [] at h ⊢
        cases hf : Z.zeroFieldsWith (Z.zeroVal d fuel) s.fields with
        | none => simp [hf] at h
        | some l =>
          simp [hf] at h; subst h
          simp only [abs, freshFields_abs _ _ (fun ty v hv => ih ty v hv) _ _ hf]
      | union u =>
        simp only [] at h ⊢
        cases hv : u.variants with
        | nil => simp [hv] at h
        | cons x rest =>
          obtain ⟨vi, nm⟩ := x
          simp only [hv] at h
          cases hz : Z.zeroVal d fuel vi with
          | none => simp [hz] at h
          | some zv => simp [hz] at h; subst h; simp only [abs, absNth, ih vi zv hz]
      | array a =>
        simp only [] at h ⊢
        by_cases hc : (a.isTuple && !a.dynamic) = true
        · rw [if_pos hc] at h ⊢
          cases hz : Z.zeroVal d fuel a.elem.ty with
          | none => simp [hz] at h
          | some zv => simp [hz] at h; subst h; simp only [abs, absList_replicate, ih _ _ hz]
        · rw [if_neg hc] at h ⊢
          cases h; rfl
      | dict a => simp only [] at h ⊢; cases h; rfl

theorem resetFields_abs (z : Nat → Option Val) (rs : Nat → Mem → Mem)
    (h : ∀ ty v o, z ty = some v → abs (rs ty o) = v) :
    ∀ (fs : List Field) (old : List (Bool × Mem)) (l : List (Option Val)),
      Z.zeroFieldsWith z fs = some l → absFields (resetFieldsWith rs fs old) = l := by
  intro fs
  induction fs with
  | nil => intro old l hl; simp [Z.zeroFieldsWith] at hl; subst hl; rfl
  | cons f fs ih =>
    intro old l hl
    rw [zeroFieldsWith_cons] at hl
    cases hr : Z.zeroFieldsWith z fs with
    | none => simp [hr] at hl
    | some rest =>
      simp only [hr] at hl
      simp only [resetFieldsWith]
      cases hv : visibleAtZero f with
      | false =>
        simp [hv] at hl; subst hl
        simp [absFields, ih _ rest hr]
      | true =>
        simp only [hv] at hl
        cases hz : z f.ty with
        | none => simp [hz] at hl
        | some v =>
          simp [hz] at hl; subst hl
          simp [absFields, ih _ rest hr, h _ _ _ hz]

theorem resetElems_abs (rs : Mem → Mem) (z : Val) (h : ∀ m, abs (rs m) = z) :
    ∀ l : List Mem, absList (resetElems rs l) = List.replicate l.length z := by
  intro l
  induction l with
  | nil => rfl
  | cons m r ih => simp [resetElems, absList, ih, h, List.replicate_succ]

theorem reset_abs (d : Desc) : ∀ (fuel ty : Nat) (old : Mem) (z : Val),
    Z.zeroVal d fuel ty = some z → abs (resetMem d fuel ty old) = z := by
  intro fuel
  induction fuel with
  | zero => intro ty old z h; simp [Z.zeroVal] at h
  | succ fuel ih =>
    intro ty old z h
    simp only [resetMem]
    by_cases hnil : old.isNil = true
    · rw [if_pos hnil]; exact fresh_abs d _ _ _ h
    · rw [if_neg hnil]
      simp only [Z.zeroVal] at h
      cases hg : d.get? ty with
      | none => simp [hg] at h
      | some inst =>
        simp only [hg] at h
        cases inst with
        | prim k => simp only [] at h ⊢; cases h; exact abs_zeroPrimM k
        | struct s =>
          simp only [] at h ⊢
          cases hf : Z.zeroFieldsWith (Z.zeroVal d fuel) s.fields with
          | none => simp [hf] at h
          | some l =>
            simp [hf] at h; subst h
            simp only [abs, resetFields_abs _ _ (fun ty v o hv => ih ty o v hv) _ _ _ hf]
        | union u =>
          simp only [] at h ⊢
          cases hv : u.variants with
          | nil => simp [hv] at h
          | cons x rest =>
            obtain ⟨vi, nm⟩ := x
            simp only [hv] at h
            cases hz : Z.zeroVal d fuel vi with
            | none => simp [hz] at h
            | some zv => simp [hz] at h; subst h; simp only [abs, absNth_setPad, ih vi _ zv hz]
        | array a =>
          simp only [] at h ⊢
          by_cases hc : (a.isTuple && !a.dynamic) = true
          · rw [if_pos hc] at h ⊢
            cases hz : Z.zeroVal d fuel a.elem.ty with
            | none => simp [hz] at h
            | some zv =>
              simp [hz] at h; subst h
              simp only [abs, resetElems_abs _ zv (fun m => ih _ m zv hz), padTake_length]
          · rw [if_neg hc] at h ⊢
            cases h; rfl
        | dict a => simp only [] at h ⊢; cases h; rfl

/-! ### the shape invariant -/

def natKind : PrimK → Bool
  | .str | .bool _ _ | .bit => false
  | _ => true

def boolKind : PrimK → Bool
  | .bool _ _ | .bit => true
  | _ => false

/-! which memory states are well-shaped for a type: Go's static typing of the object, with `nil` (never-written storage)
allowed everywhere and missing trailing variant storage read as `nil` -/
mutual
  def shaped (d : Desc) : Mem → Nat → Bool
    | .nil, _ => true
    | .nat _, ty => match d.get? ty with | some (.prim k) => natKind k | _ => false
    | .str _, ty => match d.get? ty with | some (.prim k) => k == .str | _ => false
    | .bool _, ty => match d.get? ty with | some (.prim k) => boolKind k | _ => false
    | .struct fs, ty => match d.get? ty with | some (.struct s) => shapedFields d fs s.fields | _ => false
    | .union i vs, ty =>
      match d.get? ty with
      | some (.union u) => decide (i < u.variants.length) && shapedVariants d vs u.variants
      | _ => false
    | .vec es st, ty =>
      match d.get? ty with
      | some (.array a) =>
        shapedList d es a.elem.ty && shapedList d st a.elem.ty && (!(a.isTuple && !a.dynamic) || es.length == a.count)
      | _ => false
    | .map _, ty => match d.get? ty with | some (.dict _) => true | _ => false
  def shapedFields (d : Desc) : List (Bool × Mem) → List Field → Bool
    | [], _ => true                       -- missing trailing storage is `nil`
    | (_, m) :: r, f :: fs => shaped d m f.ty && shapedFields d r fs
    | _ :: _, [] => false
  def shapedVariants (d : Desc) : List Mem → List (Nat × String) → Bool
    | [], _ => true
    | m :: r, (vi, _) :: vs => shaped d m vi && shapedVariants d r vs
    | _ :: _, [] => false
  def shapedList (d : Desc) : List Mem → Nat → Bool
    | [], _ => true
    | m :: r, ty => shaped d m ty && shapedList d r ty
end

theorem shapedList_iff (d : Desc) (l : List Mem) (ty : Nat) : shapedList d l ty = true ↔ ∀ m ∈ l, shaped d m ty = true := by
  induction l with
  | nil => simp [shapedList]
  | cons m r ih => simp [shapedList, ih]

theorem shaped_zeroPrimM (d : Desc) (ty : Nat) (k : PrimK) (h : d.get? ty = some (.prim k)) : shaped d (zeroPrimM k) ty = true := by
  cases k <;> simp [zeroPrimM, shaped, h, natKind, boolKind]

theorem shapedFields_fresh (d : Desc) (fr : Nat → Mem) (h : ∀ ty, shaped d (fr ty) ty = true) :
    ∀ fs : List Field, shapedFields d (freshFieldsWith fr fs) fs = true := by
  intro fs
  induction fs with
  | nil => rfl
  | cons f fs ih =>
    simp only [freshFieldsWith]
    split <;> simp [shapedFields, ih, h, shaped]

theorem shapedVariants_nils (d : Desc) (rest : List (Nat × String)) :
    shapedVariants d (rest.map (fun _ => Mem.nil)) rest = true := by
  induction rest with
  | nil => rfl
  | cons x r ih => obtain ⟨vi, nm⟩ := x; simp [shapedVariants, shaped, ih]

theorem fresh_shaped' (d : Desc) : ∀ fuel ty, shaped d (freshMem d fuel ty) ty = true := by
  intro fuel
  induction fuel with
  | zero => intro ty; rfl
  | succ fuel ih =>
    intro ty
    simp only [freshMem]
    cases hg : d.get? ty with
    | none => rfl
    | some inst =>
      cases inst with
      | prim k => exact shaped_zeroPrimM d ty k hg
      | struct s => simp only [shaped, hg]; exact shapedFields_fresh d _ (ih) _
      | union u =>
        simp only []
        cases hv : u.variants with
        | nil => rfl
        | cons x rest =>
          obtain ⟨vi, nm⟩ := x
          simp [shaped, hg, hv, shapedVariants, ih, shapedVariants_nils]
      | array a =>
        simp only []
        split
        · rename_i hc
          simp [shaped, hg, hc, shapedList, shapedList_iff, ih]
        · rename_i hc
          simp [shaped, hg, hc, shapedList]
      | dict a => simp [shaped, hg]

theorem shapedList_append (d : Desc) (a b : List Mem) (ty : Nat) :
    shapedList d (a ++ b) ty = (shapedList d a ty && shapedList d b ty) := by
  induction a with
  | nil => simp [shapedList]
  | cons m r ih => simp [shapedList, ih, Bool.and_assoc]

theorem shapedList_padTake (d : Desc) (n : Nat) (l : List Mem) (ty : Nat) (h : shapedList d l ty = true) :
    shapedList d (padTake n l) ty = true := by
  induction n generalizing l with
  | zero => rfl
  | succ n ih =>
    cases l with
    | nil => simp [padTake, shapedList, shaped, ih [] rfl]
    | cons m r => simp [shapedList] at h; simp [padTake, shapedList, h.1, ih r h.2]

theorem shapedList_resetElems (d : Desc) (rs : Mem → Mem) (ty : Nat) (h : ∀ m, shaped d m ty = true → shaped d (rs m) ty = true) :
    ∀ l, shapedList d l ty = true → shapedList d (resetElems rs l) ty = true := by
  intro l
  induction l with
  | nil => intro _; rfl
  | cons m r ih => intro hl; simp [shapedList] at hl; simp [resetElems, shapedList, h m hl.1, ih hl.2]

theorem resetElems_length (rs : Mem → Mem) (l : List Mem) : (resetElems rs l).length = l.length := by
  induction l with
  | nil => rfl
  | cons m r ih => simp [resetElems, ih]

theorem shapedFields_reset (d : Desc) (rs : Nat → Mem → Mem) (h : ∀ ty o, shaped d o ty = true → shaped d (rs ty o) ty = true) :
    ∀ (fs : List Field) (old : List (Bool × Mem)), shapedFields d old fs = true → shapedFields d (resetFieldsWith rs fs old) fs = true := by
  intro fs
  induction fs with
  | nil => intro old _; rfl
  | cons f fs ih =>
    intro old ho
    cases old with
    | nil => simp [resetFieldsWith, shapedFields, h f.ty .nil rfl, ih [] rfl]
    | cons x r =>
      obtain ⟨p, m⟩ := x
      simp [shapedFields] at ho
      simp [resetFieldsWith, shapedFields, h f.ty m ho.1, ih r ho.2]

theorem shapedVariants_setPad (d : Desc) : ∀ (i : Nat) (vs : List Mem) (variants : List (Nat × String)) (m : Mem) (vi : Nat) (nm : String),
    shapedVariants d vs variants = true → variants[i]? = some (vi, nm) → shaped d m vi = true →
    shapedVariants d (setPad vs i m) variants = true := by
  intro i
  induction i with
  | zero =>
    intro vs variants m vi nm hv hi hm
    cases variants with
    | nil => simp at hi
    | cons x rest =>
      simp at hi; subst hi
      cases vs with
      | nil => simp [setPad, shapedVariants, hm]
      | cons y r => simp [shapedVariants] at hv; simp [setPad, shapedVariants, hm, hv.2]
  | succ i ih =>
    intro vs variants m vi nm hv hi hm
    cases variants with
    | nil => simp at hi
    | cons x rest =>
      obtain ⟨xi, xn⟩ := x
      simp at hi
      cases vs with
      | nil => simp [setPad, shapedVariants, shaped, ih [] rest m vi nm rfl hi hm]
      | cons y r => simp [shapedVariants] at hv; simp [setPad, shapedVariants, hv.1, ih r rest m vi nm hv.2 hi hm]

theorem shapedVariants_get (d : Desc) : ∀ (i : Nat) (vs : List Mem) (variants : List (Nat × String)) (vi : Nat) (nm : String),
    shapedVariants d vs variants = true → variants[i]? = some (vi, nm) → shaped d (vs[i]?.getD .nil) vi = true := by
  intro i
  induction i with
  | zero =>
    intro vs variants vi nm hv hi
    cases variants with
    | nil => simp at hi
    | cons x rest =>
      simp at hi; subst hi
      cases vs with
      | nil => rfl
      | cons y r => simp [shapedVariants] at hv; simpa using hv.1
  | succ i ih =>
    intro vs variants vi nm hv hi
    cases variants with
    | nil => simp at hi
    | cons x rest =>
      obtain ⟨xi, xn⟩ := x
      simp at hi
      cases vs with
      | nil => rfl
      | cons y r => simp [shapedVariants] at hv; simpa using ih r rest vi nm hv.2 hi

/-- what `shaped` says about the parts the readers look at -/
theorem shaped_fields (d : Desc) (old : Mem) (ty : Nat) (s : StructD) (hg : d.get? ty = some (.struct s))
    (h : shaped d old ty = true) : shapedFields d old.fields s.fields = true := by
  cases old <;> simp_all [shaped, Mem.fields, shapedFields]

theorem shaped_variants (d : Desc) (old : Mem) (ty : Nat) (u : UnionD) (hg : d.get? ty = some (.union u))
    (h : shaped d old ty = true) : shapedVariants d old.variants u.variants = true := by
  cases old <;> simp_all [shaped, Mem.variants, shapedVariants]

theorem shaped_cells (d : Desc) (old : Mem) (ty : Nat) (a : ArrayD) (hg : d.get? ty = some (.array a))
    (h : shaped d old ty = true) : shapedList d old.elems a.elem.ty = true ∧ shapedList d old.stale a.elem.ty = true := by
  cases old <;> simp_all [shaped, Mem.elems, Mem.stale, shapedList]

theorem reset_shaped' (d : Desc) : ∀ (fuel ty : Nat) (old : Mem), shaped d old ty = true → shaped d (resetMem d fuel ty old) ty = true := by
  intro fuel
  induction fuel with
  | zero => intro ty old _; rfl
  | succ fuel ih =>
    intro ty old ho
    simp only [resetMem]
    split
    · exact fresh_shaped' d _ ty
    · cases hg : d.get? ty with
      | none => rfl
      | some inst =>
        cases inst with
        | prim k => exact shaped_zeroPrimM d ty k hg
        | struct s =>
          simp only [shaped, hg]
          exact shapedFields_reset d _ (fun ty o h => ih ty o h) _ _ (shaped_fields d old ty s hg ho)
        | union u =>
          simp only []
          cases hv : u.variants with
          | nil => rfl
          | cons x rest =>
            obtain ⟨vi, nm⟩ := x
            have hvs := shaped_variants d old ty u hg ho
            simp only [shaped, hg, hv, List.length_cons, Nat.zero_lt_succ, decide_true, Bool.true_and]
            rw [hv] at hvs
            refine shapedVariants_setPad d 0 _ _ _ vi nm hvs rfl (ih vi _ ?_)
            have := shapedVariants_get d 0 old.variants ((vi, nm) :: rest) vi nm hvs rfl
            simpa [List.head?_eq_getElem?] using this
        | array a =>
          simp only []
          obtain ⟨he, hs⟩ := shaped_cells d old ty a hg ho
          split
          · rename_i hc
            simp only [shaped, hg, hc]
            simp [shapedList_resetElems d _ _ (fun m h => ih _ m h) _ (shapedList_padTake d _ _ _ he), hs,
              resetElems_length, padTake_length]
          · rename_i hc
            simp [shaped, hg, hc, shapedList, shapedList_append, he, hs]
        | dict a => simp [shaped, hg]

theorem shaped_ofPrim (d : Desc) (ty : Nat) {k : PrimK} {bs : Bytes} {v : Val} {r : Bytes}
    (hg : d.get? ty = some (.prim k)) (h : readPrim k bs = .ok (v, r)) : shaped d (Mem.ofPrim v) ty = true := by
  cases k <;> simp only [readPrim] at h
  case byte => cases bs <;> simp at h; obtain ⟨rfl, _⟩ := h; simp [Mem.ofPrim, shaped, hg, natKind]
  case bit => simp at h; obtain ⟨rfl, _⟩ := h; simp [Mem.ofPrim, shaped, hg, boolKind]
  case str =>
    cases h1 : liftP (stringRead bs) with
    | error e => simp [h1, Except.map] at h
    | ok p => simp [h1, Except.map] at h; obtain ⟨rfl, _⟩ := h; simp [Mem.ofPrim, shaped, hg]
  case bool f t =>
    cases h1 : readU32 bs with
    | error e => simp [h1] at h
    | ok p =>
      obtain ⟨tag, r'⟩ := p
      simp only [h1] at h
      by_cases c1 : tag = f
      · rw [if_pos c1] at h; simp at h; obtain ⟨rfl, _⟩ := h; simp [Mem.ofPrim, shaped, hg, boolKind]
      · by_cases c2 : tag = t
        · rw [if_neg c1, if_pos c2] at h; simp at h; obtain ⟨rfl, _⟩ := h; simp [Mem.ofPrim, shaped, hg, boolKind]
        · rw [if_neg c1, if_neg c2] at h; simp at h
  all_goals first
    | (cases h1 : readU32 bs with
       | error e => simp [h1, Except.map] at h
       | ok p => simp [h1, Except.map] at h; obtain ⟨rfl, _⟩ := h; simp [Mem.ofPrim, shaped, hg, natKind])
    | (cases h1 : readU64 bs with
       | error e => simp [h1, Except.map] at h
       | ok p => simp [h1, Except.map] at h; obtain ⟨rfl, _⟩ := h; simp [Mem.ofPrim, shaped, hg, natKind])

theorem shapedFields_append_exact (d : Desc) : ∀ (done : List (Bool × Mem)) (dfs : List Field) (todo : List (Bool × Mem)) (fs : List Field),
    done.length = dfs.length → shapedFields d done dfs = true → shapedFields d todo fs = true →
    shapedFields d (done ++ todo) (dfs ++ fs) = true := by
  intro done
  induction done with
  | nil => intro dfs todo fs hl _ ht; cases dfs with
    | nil => simpa using ht
    | cons _ _ => simp at hl
  | cons x r ih =>
    intro dfs todo fs hl hd ht
    obtain ⟨p, m⟩ := x
    cases dfs with
    | nil => simp at hl
    | cons f dfs =>
      simp [shapedFields] at hd
      simp at hl
      simp [shapedFields, hd.1, ih dfs todo fs hl hd.2 ht]

theorem shapedFields_todo (d : Desc) (todo : List (Bool × Mem)) (f : Field) (fs : List Field)
    (h : shapedFields d todo (f :: fs) = true) :
    shaped d ((todo.head?.map (·.2)).getD .nil) f.ty = true ∧ shapedFields d todo.tail fs = true := by
  cases todo with
  | nil => exact ⟨rfl, rfl⟩
  | cons x r => obtain ⟨p, m⟩ := x; simp [shapedFields] at h; simpa using h

theorem readFieldsInto_shaped (d : Desc) (rd : RdM) (rs : RsM) (params : List Nat)
    (hrd : ∀ ty bare na o bs, shaped d o ty = true → shaped d (rd ty bare na o bs).1 ty = true)
    (hrs : ∀ ty o, shaped d o ty = true → shaped d (rs ty o) ty = true) :
    ∀ (fs dfs : List Field) (done todo : List (Bool × Mem)) (bs : Bytes),
      done.length = dfs.length → shapedFields d done dfs = true → shapedFields d todo fs = true →
      shapedFields d (readFieldsInto rd rs params fs done todo bs).1 (dfs ++ fs) = true := by
  intro fs
  induction fs with
  | nil => intro dfs done todo bs _ hd _; simpa [readFieldsInto] using hd
  | cons f fs ih =>
    intro dfs done todo bs hl hd ht
    obtain ⟨ho, htl⟩ := shapedFields_todo d todo f fs ht
    rw [readFieldsInto]
    have hdesc : shapedFields d (done ++ todo) (dfs ++ f :: fs) = true := shapedFields_append_exact d _ _ _ _ hl hd ht
    have hnext : ∀ (p : Bool) (m : Mem), shaped d m f.ty = true →
        (done ++ [(p, m)]).length = (dfs ++ [f]).length ∧ shapedFields d (done ++ [(p, m)]) (dfs ++ [f]) = true := by
      intro p m hm
      refine ⟨by simp [hl], shapedFields_append_exact d _ _ _ _ hl hd (by simp [shapedFields, hm])⟩
    cases fieldPresentM f done params with
    | none => exact hdesc
    | some p =>
      cases natArgValsM done params f.natArgs with
      | none => cases p <;> exact hdesc
      | some na =>
        cases p with
        | false =>
          simp only []
          obtain ⟨h1, h2⟩ := hnext false _ (hrs f.ty _ ho)
          have := ih (dfs ++ [f]) _ todo.tail bs h1 h2 htl
          simpa [List.append_assoc] using this
        | true =>
          simp only []
          have hm := hrd f.ty f.bare na _ bs ho
          cases hr : rd f.ty f.bare na ((todo.head?.map (·.2)).getD .nil) bs with
          | mk m r =>
            rw [hr] at hm
            cases r with
            | error e =>
              simp only []
              exact shapedFields_append_exact d _ _ _ _ hl hd (by simp [shapedFields, hm, htl])
            | ok bs' =>
              simp only []
              obtain ⟨h1, h2⟩ := hnext true m hm
              have := ih (dfs ++ [f]) _ todo.tail bs' h1 h2 htl
              simpa [List.append_assoc] using this

theorem readElemsInto_shaped (d : Desc) (rd : RdM) (f : Field) (na : List Nat)
    (hrd : ∀ ty bare na o bs, shaped d o ty = true → shaped d (rd ty bare na o bs).1 ty = true) :
    ∀ (cells : List Mem) (bs : Bytes), shapedList d cells f.ty = true →
      shapedList d (readElemsInto rd f na cells bs).1 f.ty = true ∧ (readElemsInto rd f na cells bs).1.length = cells.length := by
  intro cells
  induction cells with
  | nil => intro bs _; exact ⟨rfl, rfl⟩
  | cons o os ih =>
    intro bs hc
    simp [shapedList] at hc
    rw [readElemsInto]
    have hm := hrd f.ty f.bare na o bs hc.1
    cases hr : rd f.ty f.bare na o bs with
    | mk m r =>
      rw [hr] at hm
      cases r with
      | error e => simp [shapedList, hm, hc.2]
      | ok bs' =>
        simp only []
        obtain ⟨h1, h2⟩ := ih bs' hc.2
        cases hr2 : readElemsInto rd f na os bs' with
        | mk ms r2 => rw [hr2] at h1 h2; simp [shapedList, hm, h1, h2]

theorem findVariant_get (d : Desc) (tag : Nat) : ∀ (vs : List (Nat × String)) (start i vi : Nat),
    findVariant d tag vs start = some (i, vi) → start ≤ i ∧ ∃ nm, vs[i - start]? = some (vi, nm) := by
  intro vs
  induction vs with
  | nil => intro start i vi h; simp [findVariant] at h
  | cons x rest ih =>
    intro start i vi h
    obtain ⟨xi, xn⟩ := x
    simp only [findVariant] at h
    split at h
    · split at h
      · simp at h; obtain ⟨rfl, rfl⟩ := h; exact ⟨Nat.le_refl _, xn, by simp⟩
      · obtain ⟨h1, nm, h2⟩ := ih _ _ _ h
        refine ⟨by omega, nm, ?_⟩
        have : i - start = (i - (start + 1)) + 1 := by omega
        rw [this]; simpa using h2
    · obtain ⟨h1, nm, h2⟩ := ih _ _ _ h
      refine ⟨by omega, nm, ?_⟩
      have : i - start = (i - (start + 1)) + 1 := by omega
      rw [this]; simpa using h2

theorem shapedList_replicate_nil (d : Desc) (n ty : Nat) : shapedList d (List.replicate n Mem.nil) ty = true := by
  induction n with
  | zero => rfl
  | succ n ih => simp [List.replicate_succ, shapedList, shaped, ih]

theorem shapedList_take_drop (d : Desc) (l : List Mem) (n ty : Nat) (h : shapedList d l ty = true) :
    shapedList d (l.take n) ty = true ∧ shapedList d (l.drop n) ty = true := by
  rw [shapedList_iff] at h
  constructor <;> rw [shapedList_iff] <;> intro m hm
  · exact h m (List.mem_of_mem_take hm)
  · exact h m (List.mem_of_mem_drop hm)

theorem reslice_shaped (d : Desc) (old : Mem) (n ty : Nat)
    (he : shapedList d old.elems ty = true) (hs : shapedList d old.stale ty = true) :
    shapedList d (reslice old n).1 ty = true ∧ shapedList d (reslice old n).2 ty = true := by
  unfold reslice
  simp only []
  split
  · exact ⟨shapedList_replicate_nil d n ty, rfl⟩
  · exact shapedList_take_drop d _ n ty (by rw [shapedList_append, he, hs]; rfl)

/-- the slice/array part of the reader leaves a shaped cell behind -/
theorem vec_shaped (d : Desc) (ty : Nat) (a : ArrayD) (hg : d.get? ty = some (.array a)) (rd : RdM)
    (hrd : ∀ ty bare na o bs, shaped d o ty = true → shaped d (rd ty bare na o bs).1 ty = true)
    (na : List Nat) (cells stale : List Mem) (bs : Bytes)
    (hc : shapedList d cells a.elem.ty = true) (hs : shapedList d stale a.elem.ty = true)
    (hn : (a.isTuple && !a.dynamic) = true → cells.length = a.count) :
    shaped d (match readElemsInto rd a.elem na cells bs with | (ms, r) => (Mem.vec ms stale, r)).1 ty = true := by
  obtain ⟨h1, h2⟩ := readElemsInto_shaped d rd a.elem na hrd cells bs hc
  cases hr : readElemsInto rd a.elem na cells bs with
  | mk ms r =>
    rw [hr] at h1 h2
    simp only [shaped, hg, h1, hs, Bool.true_and]
    by_cases hf : (a.isTuple && !a.dynamic) = true
    · simp [hf, h2, hn hf]
    · simp [hf]

theorem read_into_shaped' (cfg : Cfg) (d : Desc) : ∀ (fuel ty : Nat) (bare : Bool) (params : List Nat) (old : Mem) (bs : Bytes),
    shaped d old ty = true → shaped d (readInto cfg d fuel ty bare params old bs).1 ty = true := by
  intro fuel
  induction fuel with
  | zero => intro ty bare params old bs ho; exact ho
  | succ fuel ih =>
    intro ty bare params old bs ho
    simp only [readInto]
    cases hg : d.get? ty with
    | none => exact ho
    | some inst =>
      cases inst with
      | prim k =>
        simp only []
        cases hp : readPrim k bs with
        | error e => exact ho
        | ok p => obtain ⟨v, r⟩ := p; exact shaped_ofPrim d ty hg hp
      | struct s =>
        simp only []
        cases (if bare then Except.ok bs else readExactTag s.tag bs : Except CErr Bytes) with
        | error e => exact ho
        | ok bs1 =>
          simp only []
          have hf := readFieldsInto_shaped d (readInto cfg d fuel) (resetMem d fuel) params
            (fun ty bare na o bs h => ih ty bare na o bs h) (fun ty o h => reset_shaped' d fuel ty o h)
            s.fields [] [] old.fields bs1 rfl rfl (shaped_fields d old ty s hg ho)
          cases hr : readFieldsInto (readInto cfg d fuel) (resetMem d fuel) params s.fields [] old.fields bs1 with
          | mk fs r => rw [hr] at hf; simpa [shaped, hg] using hf
      | union u =>
        simp only []
        cases readU32 bs with
        | error e => exact ho
        | ok p =>
          obtain ⟨tag, bs1⟩ := p
          simp only []
          cases hv : findVariant d tag u.variants 0 with
          | none => exact ho
          | some iv =>
            obtain ⟨i, vi⟩ := iv
            cases natArgVals [] params u.elemNatArgs with
            | none => exact ho
            | some na =>
              simp only []
              obtain ⟨_, nm, hi⟩ := findVariant_get d tag u.variants 0 i vi hv
              simp only [Nat.sub_zero] at hi
              have hvs := shaped_variants d old ty u hg ho
              have hm := ih vi true na _ bs1 (shapedVariants_get d i old.variants u.variants vi nm hvs hi)
              cases hr : readInto cfg d fuel vi true na (old.variants[i]?.getD .nil) bs1 with
              | mk m r =>
                rw [hr] at hm
                have hlt : i < u.variants.length := by
                  rcases Nat.lt_or_ge i u.variants.length with h | h
                  · exact h
                  · rw [List.getElem?_eq_none h] at hi; cases hi
                simp only [shaped, hg, hlt, decide_true, Bool.true_and]
                exact shapedVariants_setPad d i _ _ m vi nm hvs hi hm
      | array a =>
        simp only []
        obtain ⟨he, hs⟩ := shaped_cells d old ty a hg ho
        cases natArgVals [] params a.elem.natArgs with
        | none => exact ho
        | some na =>
          simp only []
          by_cases ht : a.isTuple = true
          · rw [if_pos ht]
            cases hc : (if a.dynamic = true then params[0]? else some a.count) with
            | none => exact ho
            | some n =>
              simp only []
              by_cases hsan : (a.dynamic && !sanityOk cfg bs n) = true
              · rw [if_pos hsan]; exact ho
              · rw [if_neg hsan]
                by_cases hd : a.dynamic = true
                · simp only [hd, if_true]
                  obtain ⟨h1, h2⟩ := reslice_shaped d old n a.elem.ty he hs
                  exact vec_shaped d ty a hg _ (fun ty bare na o bs h => ih ty bare na o bs h) na _ _ bs h1 h2
                    (by simp [hd])
                · have hd' : a.dynamic = false := by simpa using hd
                  simp only [hd', Bool.false_eq_true, if_false] at hc ⊢
                  have hn : n = a.count := by simpa using hc.symm
                  exact vec_shaped d ty a hg _ (fun ty bare na o bs h => ih ty bare na o bs h) na _ _ bs
                    (shapedList_padTake d _ _ _ he) hs (by intro _; rw [padTake_length, hn])
          · rw [if_neg ht]
            cases readU32 bs with
            | error e => exact ho
            | ok p =>
              obtain ⟨n, bs1⟩ := p
              simp only []
              by_cases hsan : (!sanityOk cfg bs1 n) = true
              · rw [if_pos hsan]; exact ho
              · rw [if_neg hsan]
                obtain ⟨h1, h2⟩ := reslice_shaped d old n a.elem.ty he hs
                exact vec_shaped d ty a hg _ (fun ty bare na o bs h => ih ty bare na o bs h) na _ _ bs1 h1 h2
                  (by simp [ht])
      | dict a =>
        simp only []
        cases natArgVals [] params a.elem.natArgs with
        | none => exact ho
        | some na =>
          simp only []
          cases readU32 bs with
          | error e => exact ho
          | ok p =>
            obtain ⟨n, bs1⟩ := p
            simp only []
            by_cases hsan : (!sanityOk cfg bs1 n) = true
            · rw [if_pos hsan]; exact ho
            · rw [if_neg hsan]
              cases dictKeyPrim d a with
              | none => exact ho
              | some k =>
                simp only []
                cases readDictInto (readInto cfg d fuel) a.elem na k n [] bs1 with
                | mk es r => simp [shaped, hg]

end TLVerif.Codec.Reuse
