import TLVerif.Codec.TL1
/-!
Decidable predicates on descriptors and values used as hypotheses of the TL1 codec theorems
(`Props/C01.lean`, `Props/C02.lean`, `Props/CodecTL1Extra.lean`).  Core Lean only, executable: the
integrator can evaluate them on every exported descriptor (T3 certificate) through the driver.
-/
namespace TLVerif.Codec
open TLVerif.Prim

def Inst.isDict : Inst → Bool
  | .dict _ => true
  | _ => false

def Inst.isBitPrim : Inst → Bool
  | .prim .bit => true
  | _ => false

def Inst.nparams : Inst → Nat
  | .prim _ => 0
  | .struct s => s.nparams
  | .union u => u.nparams
  | .array a => a.nparams
  | .dict a => a.nparams

/-! ### instance sets closed under references

Guards are stated on a set `S` of instance indices (a `Nat → Bool` certificate, e.g. `d.reach ty` or `fun _ => true`)
that is closed under type references: a dictionary or a zero-size element somewhere in a schema does not
spoil the theorems for the types that cannot reach it. -/

def Inst.refs : Inst → List Nat
  | .prim _ => []
  | .struct s => s.fields.map (·.ty)
  | .union u => u.variants.map (·.1)
  | .array a => [a.elem.ty]
  | .dict a => [a.elem.ty]

/-- every instance in `S` references only instances in `S` -/
def Desc.closed (d : Desc) (S : Nat → Bool) : Bool :=
  (List.range d.insts.size).all fun i =>
    !S i || match d.get? i with | some inst => inst.refs.all S | none => true

/-- the local condition `p` holds for every instance in `S` -/
def Desc.allOn (d : Desc) (S : Nat → Bool) (p : Inst → Bool) : Bool :=
  (List.range d.insts.size).all fun i =>
    !S i || match d.get? i with | some inst => p inst | none => true

/-- candidate certificate: instances reachable from `ty` (unverified helper; `Desc.closed` is what the theorems use) -/
def Desc.reachList (d : Desc) (ty : Nat) : List Nat :=
  (List.range (d.insts.size + 1)).foldl (fun acc _ =>
    acc.foldl (fun acc i =>
      match d.get? i with
      | some inst => inst.refs.foldl (fun acc r => if acc.contains r then acc else acc ++ [r]) acc
      | none => acc) acc) [ty]

def Desc.reach (d : Desc) (ty : Nat) : Nat → Bool := fun i => (d.reachList ty).contains i

/-- the whole descriptor -/
def allInsts : Nat → Bool := fun _ => true

/-- no map-backed dictionary instance -/
def Desc.noDict (d : Desc) : Bool := d.insts.toList.all (fun i => !i.isDict)

/-- no TL2-only `bit` primitive instance (the TL1 writer of the model refuses it: `writePrim .bit _ = .error .shape`) -/
def Desc.noBit (d : Desc) : Bool := d.insts.toList.all (fun i => !i.isBitPrim)

/-! ### descriptor conditions needed by the round trip -/

/-- a `.field i` reference made by field number `j` points to an earlier field -/
def NatArg.refsLt (j : Nat) : NatArg → Bool
  | .field i => decide (i < j)
  | _ => true

def Field.refsLt (j : Nat) (f : Field) : Bool :=
  (match f.mask with | none => true | some (a, _) => a.refsLt j) && f.natArgs.all (NatArg.refsLt j)

def fieldsRefsOk : Nat → List Field → Bool
  | _, [] => true
  | j, f :: fs => f.refsLt j && fieldsRefsOk (j + 1) fs

/-- every variant is a struct whose 32-bit tag selects exactly this variant (tags pairwise distinct) -/
def unionOk (d : Desc) (u : UnionD) : Bool :=
  (List.range u.variants.length).all fun i =>
    match u.variants[i]? with
    | some (vi, _) =>
      match d.get? vi with
      | some (.struct s) => decide (s.tag < 4294967296) && (findVariant d s.tag u.variants 0 == some (i, vi))
      | _ => false
    | none => false

def Inst.rtOk (d : Desc) : Inst → Bool
  | .prim (.bool f t) => decide (f < 4294967296) && decide (t < 4294967296)
  | .prim _ => true
  | .struct s => decide (s.tag < 4294967296) && fieldsRefsOk 0 s.fields
  | .union u => unionOk d u
  | .array _ => true
  | .dict _ => true

/-- tags fit in 32 bits, masks / nat arguments refer to earlier fields, union tags select their variant -/
def Desc.rtOk (d : Desc) : Bool := d.insts.toList.all (Inst.rtOk d)

/-! ### values "as a reader produces them" -/

def normalPrim : PrimK → Val → Bool
  | .u32, .nat n | .i32, .nat n | .f32, .nat n => decide (n < 4294967296)
  | .u64, .nat n | .i64, .nat n | .f64, .nat n => decide (n < 18446744073709551616)
  | .byte, .nat n => decide (n < 256)
  | .str, .str _ => true
  | .bool f t, .bool b => !b || f != t
  | _, _ => false

abbrev Nm := Nat → Bool → List Nat → Val → Bool

/-- a masked field holds a value iff its mask bit is set (in the value of the mask as stored in `all`) -/
def normalFieldsWith (nm : Nm) (params : List Nat) (all : List (Option Val)) :
    List Field → List (Option Val) → Bool
  | [], [] => true
  | f :: fs, v :: vs =>
    match fieldPresent f all params, natArgVals all params f.natArgs with
    | some true, some na =>
      (match v with | some x => nm f.ty f.bare na x | none => false) && normalFieldsWith nm params all fs vs
    | some false, some _ => v.isNone && normalFieldsWith nm params all fs vs
    | _, _ => false
  | _, _ => false

/-- strictly sorted by key (every earlier key is smaller than every later one) -/
def dictSorted (k : PrimK) : List Val → Bool
  | [] => true
  | e :: es =>
    es.all (fun x => keyLt k (elemKey e) (elemKey x) && !keyLt k (elemKey x) (elemKey e)) && dictSorted k es

/-- `Normal`: integers in range of their type, a masked field is `some` iff its mask bit is set,
union index in range, dictionary elements strictly sorted by key. -/
def normalTL1 (d : Desc) : Nat → Nm
  | 0 => fun _ _ _ _ => false
  | fuel + 1 => fun ty _bare params v =>
    match d.get? ty, v with
    | some (.prim k), v => normalPrim k v
    | some (.struct s), .struct fs => normalFieldsWith (normalTL1 d fuel) params fs s.fields fs
    | some (.union u), .union i x =>
      match u.variants[i]?, natArgVals [] params u.elemNatArgs with
      | some (vi, _), some na => normalTL1 d fuel vi true na x
      | _, _ => false
    | some (.array a), .arr es =>
      match natArgVals [] params a.elem.natArgs with
      | some na => es.all (normalTL1 d fuel a.elem.ty a.elem.bare na)
      | none => false
    | some (.dict a), .arr es =>
      match natArgVals [] params a.elem.natArgs, dictKeyPrim d a with
      | some na, some k => es.all (normalTL1 d fuel a.elem.ty a.elem.bare na) && dictSorted k es
      | _, _ => false
    | _, _ => false

/-! ### minimal encoded size (for `CheckLengthSanity`) -/

def minSizePrim : PrimK → Nat
  | .u32 | .i32 | .f32 | .str | .bool _ _ => 4
  | .u64 | .i64 | .f64 => 8
  | .byte => 1
  | .bit => 0

def minFields (ms : Nat → Bool → Nat) : List Field → Nat
  | [] => 0
  | f :: fs => (if f.mask.isNone then ms f.ty f.bare else 0) + minFields ms fs

def allStructs (d : Desc) (vs : List (Nat × String)) : Bool :=
  vs.all (fun p => match d.get? p.1 with | some (.struct _) => true | _ => false)

/-- a lower bound (fuel-bounded, hence possibly 0) of the number of bytes any successful `writeTL1` emits -/
def minSize (d : Desc) : Nat → Nat → Bool → Nat
  | 0 => fun _ _ => 0
  | fuel + 1 => fun ty bare =>
    match d.get? ty with
    | none => 0
    | some (.prim k) => minSizePrim k
    | some (.struct s) => (if bare then 0 else 4) + minFields (minSize d fuel) s.fields
    | some (.union u) => if allStructs d u.variants then 4 else 0
    | some (.array a) =>
      if a.isTuple then (if a.dynamic then 0 else a.count * minSize d fuel a.elem.ty a.elem.bare) else 4
    | some (.dict _) => 4

def Inst.elemMin4 (d : Desc) : Inst → Bool
  | .array a => (a.isTuple && !a.dynamic) || decide (4 ≤ minSize d d.insts.size a.elem.ty a.elem.bare)
  | .dict a => decide (4 ≤ minSize d d.insts.size a.elem.ty a.elem.bare)
  | _ => true

/-- every element type of a vector / dynamic tuple / dictionary encodes to at least 4 bytes -/
def Desc.elemMin4 (d : Desc) : Bool := d.insts.toList.all (Inst.elemMin4 d)

/-! ### productivity: every cycle of type references that consumes no input is broken (rank certificate) -/

def rkAt (rk : List Nat) (i : Nat) : Nat := (rk[i]?).getD 0

/-- rank of a call: a *boxed* struct reads its 4-byte tag before anything else, so it needs no rank -/
def rkOf (d : Desc) (rk : List Nat) (ty : Nat) (bare : Bool) : Nat :=
  match bare, d.get? ty with
  | false, some (.struct _) => 0
  | _, _ => rkAt rk ty

/-- a successful read of this type consumes at least one byte -/
def Desc.consumes (d : Desc) (ty : Nat) (bare : Bool) : Bool :=
  match d.get? ty with
  | some (.prim .bit) => false
  | some (.prim _) => true
  | some (.struct _) => !bare
  | some (.union _) => true
  | some (.array a) => !a.isTuple
  | some (.dict _) => true
  | none => false

/-- fields of a bare struct read before anything was surely consumed (`g = false`) must go to a smaller rank;
after an unmasked consuming field (e.g. the `fields_mask:#` itself) the remaining fields are guarded -/
def fieldsProductive (d : Desc) (rk : List Nat) (r : Nat) : Bool → List Field → Bool
  | _, [] => true
  | g, f :: fs =>
    (g || decide (rkOf d rk f.ty f.bare < r)) &&
    fieldsProductive d rk r (g || (f.mask.isNone && d.consumes f.ty f.bare)) fs

/-- references followed before any input is consumed (leading fields of a bare struct, tuple elements) go to a
strictly smaller rank; unions, vectors and dictionaries read 4 bytes first and are unconstrained -/
def Inst.productive (d : Desc) (rk : List Nat) (i : Nat) : Inst → Bool
  | .struct s => fieldsProductive d rk (rkAt rk i) false s.fields
  | .array a => !a.isTuple || decide (rkOf d rk a.elem.ty a.elem.bare < rkAt rk i)
  | _ => true

/-- `rk` is a rank certificate for `d` (one rank per instance, each ≤ number of instances) -/
def Desc.productive (d : Desc) (rk : List Nat) : Bool :=
  rk.all (fun r => decide (r ≤ d.insts.size)) &&
  (List.range d.insts.size).all (fun i => match d.get? i with | some inst => inst.productive d rk i | none => true)

/-- one relaxation round of the rank computation -/
def Desc.rankStep (d : Desc) (rk : List Nat) : List Nat :=
  (List.range d.insts.size).map fun i =>
    match d.get? i with
    | some (.struct s) =>
      (s.fields.foldl (fun (p : Nat × Bool) f =>
        ((if p.2 then p.1 else max p.1 (rkOf d rk f.ty f.bare + 1)), p.2 || (f.mask.isNone && d.consumes f.ty f.bare))) (0, false)).1
    | some (.array a) => if a.isTuple then rkOf d rk a.elem.ty a.elem.bare + 1 else 0
    | _ => 0

/-- candidate rank certificate (longest chain of input-free references), unverified: the theorems take any
`rk` with `d.productive rk = true`; on a descriptor with an input-free cycle the candidate fails the check -/
def Desc.computeRanks (d : Desc) : List Nat :=
  (List.range (d.insts.size + 1)).foldl (fun rk _ => d.rankStep rk) (List.replicate d.insts.size 0)

/-- fuel that always suffices for an input of `len` bytes -/
def fuelFor (d : Desc) (len : Nat) : Nat := (len + 1) * (d.insts.size + 1)

/-! ### well-formedness: everything the reader looks up exists (no `.error .desc`) -/

def isNumPrim : PrimK → Bool
  | .u32 | .i32 | .f32 | .u64 | .i64 | .f64 | .byte => true
  | _ => false

/-- the instance is a numeric primitive (`#` in particular): its reader yields `Val.nat` -/
def Desc.isNumTy (d : Desc) (ty : Nat) : Bool :=
  match d.get? ty with
  | some (.prim k) => isNumPrim k
  | _ => false

/-- a nat argument can be evaluated: parameter in range / earlier numeric field
(`nums` = for each earlier field, whether its type is a numeric primitive) -/
def NatArg.okIn (np : Nat) (nums : List Bool) : NatArg → Bool
  | .num _ => true
  | .param i => decide (i < np)
  | .field i => (nums[i]?).getD false

/-- the referenced type exists and receives at least as many nat arguments as it has parameters -/
def Desc.refOk (d : Desc) (np : Nat) (nums : List Bool) (f : Field) : Bool :=
  (match d.get? f.ty with | some inst => decide (inst.nparams ≤ f.natArgs.length) | none => false) &&
  f.natArgs.all (NatArg.okIn np nums)

def Desc.fieldOk (d : Desc) (np : Nat) (nums : List Bool) (f : Field) : Bool :=
  d.refOk np nums f && (match f.mask with | none => true | some (a, _) => a.okIn np nums)

def Desc.fieldsOk (d : Desc) (np : Nat) : List Bool → List Field → Bool
  | _, [] => true
  | nums, f :: fs => d.fieldOk np nums f && d.fieldsOk np (nums ++ [d.isNumTy f.ty]) fs

def Inst.wf (d : Desc) : Inst → Bool
  | .prim _ => true
  | .struct s => d.fieldsOk s.nparams [] s.fields
  | .union u =>
    u.elemNatArgs.all (NatArg.okIn u.nparams []) &&
    u.variants.all (fun p =>
      match d.get? p.1 with
      | some inst => decide (inst.nparams ≤ u.elemNatArgs.length)
      | none => false)
  | .array a => d.refOk a.nparams [] a.elem && (!(a.isTuple && a.dynamic) || decide (1 ≤ a.nparams))
  | .dict a => d.refOk a.nparams [] a.elem && (dictKeyPrim d a).isSome

/-- all type indices in range, nat-argument references in range (parameters) or pointing to earlier numeric
fields (masks included), parameter counts of references match, dictionary keys primitive -/
def Desc.wf (d : Desc) : Bool := d.insts.toList.all (Inst.wf d)

end TLVerif.Codec
