import TLVerif.Codec.TL1
/-!
Decidable predicates on descriptors and values used as hypotheses of the TL1 codec theorems
(`Props/C01.lean`, `Props/C02.lean`, `Props/CodecTL1Extra.lean`).  Core Lean only, executable: the
integrator can evaluate them on every exported descriptor (T3 certificate) through the driver.
-/
namespace TLVerif.Codec
open TLVerif.Prim

def Inst.isDict : Inst → Bool
  | .dict _ => true
  | _ => false

def Inst.isBitPrim : Inst → Bool
  | .prim .bit => true
  | _ => false

def Inst.nparams : Inst → Nat
  | .prim _ => 0
  | .struct s => s.nparams
  | .union u => u.nparams
  | .array a => a.nparams
  | .dict a => a.nparams

/-- no map-backed dictionary instance -/
def Desc.noDict (d : Desc) : Bool := d.insts.toList.all (fun i => !i.isDict)

/-- no TL2-only `bit` primitive instance (the TL1 writer of the model refuses it: `writePrim .bit _ = .error .shape`) -/
def Desc.noBit (d : Desc) : Bool := d.insts.toList.all (fun i => !i.isBitPrim)

end TLVerif.Codec
