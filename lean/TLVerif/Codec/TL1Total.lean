import TLVerif.Codec.TL1RoundTrip
namespace TLVerif.Codec
open TLVerif.Prim

/-!
Totality side of the TL1 reader model (C08): one-step functional `readStep`, monotonicity in fuel,
input never grows, no `.desc` error on well-formed descriptors, and enough fuel never runs out.
-/

/-- one unfolding of `readTL1` with the recursive reader as a parameter -/
def readStep (cfg : Cfg) (d : Desc) (rd : Rd) : Rd := fun ty bare params bs =>
    match d.get? ty with
    | none => .error .desc
    | some (.prim k) => readPrim k bs
    | some (.struct s) =>
      match (if bare then .ok bs else readExactTag s.tag bs) with
      | .error e => .error e
      | .ok bs1 =>
        match readFieldsWith rd params s.fields [] bs1 with
        | .error e => .error e
        | .ok (fs, r) => .ok (.struct fs, r)
    | some (.union u) =>
      match readU32 bs with
      | .error e => .error e
      | .ok (tag, bs1) =>
        match findVariant d tag u.variants 0, natArgVals [] params u.elemNatArgs with
        | some (i, vi), some na =>
          match rd vi true na bs1 with
          | .error e => .error e
          | .ok (v, r) => .ok (.union i v, r)
        | none, _ => .error .rej
        | _, none => .error .desc
    | some (.array a) =>
      match natArgVals [] params a.elem.natArgs with
      | none => .error .desc
      | some na =>
        if a.isTuple then
          match (if a.dynamic then params[0]? else some a.count) with
          | none => .error .desc
          | some n =>
            if a.dynamic && !sanityOk cfg bs n then .error .eof else
            (readElemsWith rd a.elem na n bs).map (fun (vs, r) => (.arr vs, r))
        else
          match readU32 bs with
          | .error e => .error e
          | .ok (n, bs1) =>
            if !sanityOk cfg bs1 n then .error .eof else
            (readElemsWith rd a.elem na n bs1).map (fun (vs, r) => (.arr vs, r))
    | some (.dict a) =>
      match natArgVals [] params a.elem.natArgs with
      | none => .error .desc
      | some na =>
        match readU32 bs with
        | .error e => .error e
        | .ok (n, bs1) =>
          if !sanityOk cfg bs1 n then .error .eof else
          match dictKeyPrim d a with
          | none => .error .desc
          | some k => (readElemsWith rd a.elem na n bs1).map (fun (vs, r) => (.arr (dictNormalize k vs), r))

theorem readTL1_succ (cfg : Cfg) (d : Desc) (fuel : Nat) : readTL1 cfg d (fuel + 1) = readStep cfg d (readTL1 cfg d fuel) := rfl
theorem readTL1_zero (cfg : Cfg) (d : Desc) : readTL1 cfg d 0 = fun _ _ _ _ => .error .fuel := rfl

/-! ### monotonicity in fuel -/

/-- `rd'` agrees with `rd` wherever `rd` does not run out of fuel -/
def Ext (rd rd' : Rd) : Prop :=
  ∀ ty bare na bs, rd ty bare na bs ≠ .error .fuel → rd' ty bare na bs = rd ty bare na bs

theorem readFields_ext {rd rd' : Rd} (h : Ext rd rd') (params : List Nat) :
    ∀ (fields : List Field) (acc : List (Option Val)) (bs : Bytes),
      readFieldsWith rd params fields acc bs ≠ .error .fuel →
      readFieldsWith rd' params fields acc bs = readFieldsWith rd params fields acc bs := by
  intro fields
  induction fields with
  | nil => intro acc bs _; rfl
  | cons f fs ih =>
    intro acc bs hne
    simp only [readFieldsWith] at hne ⊢
    cases hp : fieldPresent f acc params with
    | none => rfl
    | some b =>
      cases hna : natArgVals acc params f.natArgs with
      | none => cases b <;> rfl
      | some na =>
        cases b with
        | true =>
          simp only [hp, hna] at hne ⊢
          cases hr : rd f.ty f.bare na bs with
          | error e =>
            rw [hr] at hne
            simp only at hne
            rw [h _ _ _ _ (by rw [hr]; intro hc; injection hc with hc; subst hc; exact hne rfl), hr]
          | ok p =>
            obtain ⟨v, bs'⟩ := p
            rw [hr] at hne
            rw [h _ _ _ _ (by rw [hr]; simp), hr]
            exact ih _ _ hne
        | false =>
          simp only [hp, hna] at hne ⊢
          exact ih _ _ hne

theorem readElems_ext {rd rd' : Rd} (h : Ext rd rd') (f : Field) (na : List Nat) :
    ∀ (n : Nat) (bs : Bytes), readElemsWith rd f na n bs ≠ .error .fuel →
      readElemsWith rd' f na n bs = readElemsWith rd f na n bs := by
  intro n
  induction n with
  | zero => intro bs _; rfl
  | succ n ih =>
    intro bs hne
    simp only [readElemsWith] at hne ⊢
    cases hr : rd f.ty f.bare na bs with
    | error e =>
      rw [hr] at hne
      simp only at hne
      rw [h _ _ _ _ (by rw [hr]; intro hc; injection hc with hc; subst hc; exact hne rfl), hr]
    | ok p =>
      obtain ⟨v, bs'⟩ := p
      rw [hr] at hne
      rw [h _ _ _ _ (by rw [hr]; simp), hr]
      simp only at hne ⊢
      have : readElemsWith rd f na n bs' ≠ .error .fuel := by
        intro hc; rw [hc] at hne; exact hne rfl
      rw [ih _ this]

theorem map_ne_fuel {α β} {x : Except CErr α} {g : α → β} (h : x.map g ≠ .error .fuel) : x ≠ .error .fuel := by
  intro hc; rw [hc] at h; exact h rfl

theorem readStep_ext (cfg : Cfg) (d : Desc) {rd rd' : Rd} (h : Ext rd rd') : Ext (readStep cfg d rd) (readStep cfg d rd') := by
  intro ty bare params bs hne
  simp only [readStep] at hne ⊢
  cases hg : d.get? ty with
  | none => rfl
  | some inst =>
    simp only [hg] at hne ⊢
    cases inst with
    | prim k => rfl
    | struct s =>
      simp only at hne ⊢
      cases ht : (if bare = true then Except.ok bs else readExactTag s.tag bs) with
      | error e => rfl
      | ok bs1 =>
        simp only [ht] at hne ⊢
        have : readFieldsWith rd params s.fields [] bs1 ≠ .error .fuel := by
          intro hc; rw [hc] at hne; exact hne rfl
        rw [readFields_ext h params _ _ _ this]
    | union u =>
      simp only at hne ⊢
      cases h1 : readU32 bs with
      | error e => rfl
      | ok p =>
        obtain ⟨tag, bs1⟩ := p
        simp only [h1] at hne ⊢
        cases hf : findVariant d tag u.variants 0 with
        | none => rfl
        | some q =>
          obtain ⟨i, vi⟩ := q
          cases hna : natArgVals [] params u.elemNatArgs with
          | none => rfl
          | some na =>
            simp only [hf, hna] at hne ⊢
            have : rd vi true na bs1 ≠ .error .fuel := by
              intro hc; rw [hc] at hne; exact hne rfl
            rw [h _ _ _ _ this]
    | array a =>
      simp only at hne ⊢
      cases hna : natArgVals [] params a.elem.natArgs with
      | none => rfl
      | some na =>
        simp only [hna] at hne ⊢
        by_cases ct : a.isTuple = true
        · simp only [ct, if_true] at hne ⊢
          cases hn : (if a.dynamic = true then params[0]? else some a.count) with
          | none => rfl
          | some n =>
            simp only [hn] at hne ⊢
            split
            · rfl
            · rename_i hc
              rw [if_neg hc] at hne
              rw [readElems_ext h _ _ _ _ (map_ne_fuel hne)]
        · simp only [ct, Bool.false_eq_true, if_false] at hne ⊢
          cases h1 : readU32 bs with
          | error e => rfl
          | ok p =>
            obtain ⟨n, bs1⟩ := p
            simp only [h1] at hne ⊢
            split
            · rfl
            · rename_i hc
              rw [if_neg hc] at hne
              rw [readElems_ext h _ _ _ _ (map_ne_fuel hne)]
    | dict a =>
      simp only at hne ⊢
      cases hna : natArgVals [] params a.elem.natArgs with
      | none => rfl
      | some na =>
        simp only [hna] at hne ⊢
        cases h1 : readU32 bs with
        | error e => rfl
        | ok p =>
          obtain ⟨n, bs1⟩ := p
          simp only [h1] at hne ⊢
          split
          · rfl
          · rename_i hc
            rw [if_neg hc] at hne
            cases hk : dictKeyPrim d a with
            | none => rfl
            | some k =>
              simp only [hk] at hne ⊢
              rw [readElems_ext h _ _ _ _ (map_ne_fuel hne)]

theorem readTL1_ext_succ (cfg : Cfg) (d : Desc) : ∀ n, Ext (readTL1 cfg d n) (readTL1 cfg d (n + 1)) := by
  intro n
  induction n with
  | zero => intro ty bare na bs hne; exact absurd rfl hne
  | succ n ih => rw [readTL1_succ cfg d (n + 1), readTL1_succ cfg d n]; exact readStep_ext cfg d ih

/-- the key lemma: a non-fuel answer is stable under more fuel -/
theorem readTL1_fuel_mono (cfg : Cfg) (d : Desc) {n m : Nat} (hnm : n ≤ m) (ty : Nat) (bare : Bool) (params : List Nat)
    (bs : Bytes) (h : readTL1 cfg d n ty bare params bs ≠ .error .fuel) :
    readTL1 cfg d m ty bare params bs = readTL1 cfg d n ty bare params bs := by
  induction m with
  | zero => have : n = 0 := by omega
            subst this; rfl
  | succ m ih =>
    by_cases c : n = m + 1
    · subst c; rfl
    · have hm : n ≤ m := by omega
      have e := ih hm
      rw [← e] at h
      rw [readTL1_ext_succ cfg d m _ _ _ _ h, e]

/-! ### the unread rest is never longer than the input -/

def Shrinks (rd : Rd) : Prop := ∀ ty bare na bs v rest, rd ty bare na bs = .ok (v, rest) → rest.length ≤ bs.length

theorem readPrim_shrinks {k : PrimK} {bs rest : Bytes} {v : Val} (h : readPrim k bs = .ok (v, rest)) :
    rest.length ≤ bs.length := by
  by_cases hk : k = .bit
  · subst hk; simp only [readPrim] at h; injection h with h; injection h with _ h; subst h; exact Nat.le_refl _
  · obtain ⟨pre, e, _⟩ := readPrim_canonical hk h
    rw [e]; simp

theorem readFields_shrinks {rd : Rd} (h : Shrinks rd) (params : List Nat) :
    ∀ (fields : List Field) (acc : List (Option Val)) (bs : Bytes) (out : List (Option Val)) (rest : Bytes),
      readFieldsWith rd params fields acc bs = .ok (out, rest) → rest.length ≤ bs.length := by
  intro fields
  induction fields with
  | nil =>
    intro acc bs out rest hr
    simp only [readFieldsWith] at hr
    injection hr with hr; injection hr with _ hr; subst hr; exact Nat.le_refl _
  | cons f fs ih =>
    intro acc bs out rest hr
    simp only [readFieldsWith] at hr
    cases hp : fieldPresent f acc params with
    | none => simp [hp] at hr
    | some b =>
      cases hna : natArgVals acc params f.natArgs with
      | none => cases b <;> simp [hp, hna] at hr
      | some na =>
        cases b with
        | true =>
          simp only [hp, hna] at hr
          cases h1 : rd f.ty f.bare na bs with
          | error e => simp [h1] at hr
          | ok p =>
            obtain ⟨v, bs'⟩ := p
            simp only [h1] at hr
            have := h _ _ _ _ _ _ h1
            have := ih _ _ _ _ hr
            omega
        | false =>
          simp only [hp, hna] at hr
          exact ih _ _ _ _ hr

theorem readElems_shrinks {rd : Rd} (h : Shrinks rd) (f : Field) (na : List Nat) :
    ∀ (n : Nat) (bs : Bytes) (vs : List Val) (rest : Bytes),
      readElemsWith rd f na n bs = .ok (vs, rest) → rest.length ≤ bs.length := by
  intro n
  induction n with
  | zero =>
    intro bs vs rest hr
    simp only [readElemsWith] at hr
    injection hr with hr; injection hr with _ hr; subst hr; exact Nat.le_refl _
  | succ n ih =>
    intro bs vs rest hr
    simp only [readElemsWith] at hr
    cases h1 : rd f.ty f.bare na bs with
    | error e => simp [h1] at hr
    | ok p =>
      obtain ⟨v, bs'⟩ := p
      simp only [h1] at hr
      cases h2 : readElemsWith rd f na n bs' with
      | error e => simp [h2] at hr
      | ok q =>
        obtain ⟨vs', bs''⟩ := q
        simp only [h2] at hr
        injection hr with hr; injection hr with _ hr; subst hr
        have := h _ _ _ _ _ _ h1
        have := ih _ _ _ h2
        omega

theorem map_ok_inv {α β} {x : Except CErr α} {g : α → β} {y : β} (h : x.map g = .ok y) : ∃ a, x = .ok a ∧ g a = y := by
  cases x with
  | error e => cases h
  | ok a => injection h with h; exact ⟨a, rfl, h⟩

theorem readU32_len {bs r : Bytes} {n : Nat} (h : readU32 bs = .ok (n, r)) : r.length + 4 = bs.length := by
  obtain ⟨e, _⟩ := readU32_inv h
  rw [e]; simp [u32le_length]; omega

theorem readExactTag_len {tag : Nat} {bs r : Bytes} (h : readExactTag tag bs = .ok r) : r.length + 4 = bs.length := by
  obtain ⟨e, _⟩ := readExactTag_inv h
  rw [e]; simp [u32le_length]; omega

theorem readStep_shrinks (cfg : Cfg) (d : Desc) {rd : Rd} (h : Shrinks rd) : Shrinks (readStep cfg d rd) := by
  intro ty bare params bs v rest hr
  simp only [readStep] at hr
  cases hg : d.get? ty with
  | none => simp [hg] at hr
  | some inst =>
    simp only [hg] at hr
    cases inst with
    | prim k => exact readPrim_shrinks hr
    | struct s =>
      simp only at hr
      cases ht : (if bare = true then Except.ok bs else readExactTag s.tag bs) with
      | error e => simp [ht] at hr
      | ok bs1 =>
        simp only [ht] at hr
        have hb : bs1.length ≤ bs.length := by
          cases bare with
          | true => simp only [if_true] at ht; injection ht with ht; subst ht; exact Nat.le_refl _
          | false =>
            simp only [Bool.false_eq_true, if_false] at ht
            have := readExactTag_len ht; omega
        cases hf : readFieldsWith rd params s.fields [] bs1 with
        | error e => simp [hf] at hr
        | ok p =>
          obtain ⟨fs, r⟩ := p
          simp only [hf] at hr
          injection hr with hr; injection hr with _ hr; subst hr
          have := readFields_shrinks h params _ _ _ _ _ hf
          omega
    | union u =>
      simp only at hr
      cases h1 : readU32 bs with
      | error e => simp [h1] at hr
      | ok p =>
        obtain ⟨tag, bs1⟩ := p
        simp only [h1] at hr
        have := readU32_len h1
        cases hf : findVariant d tag u.variants 0 with
        | none => simp [hf] at hr
        | some q =>
          obtain ⟨i, vi⟩ := q
          cases hna : natArgVals [] params u.elemNatArgs with
          | none => simp [hf, hna] at hr
          | some na =>
            simp only [hf, hna] at hr
            cases h2 : rd vi true na bs1 with
            | error e => simp [h2] at hr
            | ok p =>
              obtain ⟨x, r⟩ := p
              simp only [h2] at hr
              injection hr with hr; injection hr with _ hr; subst hr
              have := h _ _ _ _ _ _ h2
              omega
    | array a =>
      simp only at hr
      cases hna : natArgVals [] params a.elem.natArgs with
      | none => simp [hna] at hr
      | some na =>
        simp only [hna] at hr
        by_cases ct : a.isTuple = true
        · simp only [ct, if_true] at hr
          cases hn : (if a.dynamic = true then params[0]? else some a.count) with
          | none => simp [hn] at hr
          | some n =>
            simp only [hn] at hr
            split at hr
            · cases hr
            · obtain ⟨⟨vs, r⟩, he, hv⟩ := map_ok_inv hr
              injection hv with _ hv; subst hv
              exact readElems_shrinks h _ _ _ _ _ _ he
        · simp only [ct, Bool.false_eq_true, if_false] at hr
          cases h1 : readU32 bs with
          | error e => simp [h1] at hr
          | ok p =>
            obtain ⟨n, bs1⟩ := p
            simp only [h1] at hr
            have := readU32_len h1
            split at hr
            · cases hr
            · obtain ⟨⟨vs, r⟩, he, hv⟩ := map_ok_inv hr
              injection hv with _ hv; subst hv
              have := readElems_shrinks h _ _ _ _ _ _ he
              show r.length ≤ bs.length
              omega
    | dict a =>
      simp only at hr
      cases hna : natArgVals [] params a.elem.natArgs with
      | none => simp [hna] at hr
      | some na =>
        simp only [hna] at hr
        cases h1 : readU32 bs with
        | error e => simp [h1] at hr
        | ok p =>
          obtain ⟨n, bs1⟩ := p
          simp only [h1] at hr
          have := readU32_len h1
          split at hr
          · cases hr
          · cases hk : dictKeyPrim d a with
            | none => simp [hk] at hr
            | some k =>
              simp only [hk] at hr
              obtain ⟨⟨vs, r⟩, he, hv⟩ := map_ok_inv hr
              injection hv with _ hv; subst hv
              have := readElems_shrinks h _ _ _ _ _ _ he
              show r.length ≤ bs.length
              omega

theorem readTL1_shrinks (cfg : Cfg) (d : Desc) : ∀ fuel, Shrinks (readTL1 cfg d fuel) := by
  intro fuel
  induction fuel with
  | zero => intro ty bare na bs v rest h; simp [readTL1] at h
  | succ n ih => rw [readTL1_succ]; exact readStep_shrinks cfg d ih


/-! ### enough fuel never runs out -/

theorem readPrim_ne_fuel (k : PrimK) (bs : Bytes) : readPrim k bs ≠ .error .fuel := by
  intro h
  cases k with
  | u32 | i32 | f32 =>
    simp only [readPrim] at h
    cases h1 : readU32 bs with
    | error e => rw [h1] at h; injection h with h; have := (readU32_err h1).1; rw [this] at h; cases h
    | ok p => rw [h1] at h; cases h
  | u64 | i64 | f64 =>
    simp only [readPrim] at h
    cases h1 : readU64 bs with
    | error e => rw [h1] at h; injection h with h; have := readU64_err h1; rw [this] at h; cases h
    | ok p => rw [h1] at h; cases h
  | str =>
    simp only [readPrim] at h
    cases h1 : stringRead bs with
    | error e => rw [h1] at h; cases e <;> cases h
    | ok p => rw [h1] at h; cases h
  | bool f t =>
    simp only [readPrim] at h
    cases h1 : readU32 bs with
    | error e => rw [h1] at h; injection h with h; have := (readU32_err h1).1; rw [this] at h; cases h
    | ok p =>
      obtain ⟨tag, r⟩ := p
      simp only [h1] at h
      split at h
      · cases h
      · split at h <;> cases h
  | byte => cases bs <;> simp [readPrim] at h
  | bit => simp [readPrim] at h

theorem readFields_nofuel {rd : Rd} (hs : Shrinks rd) (params : List Nat) (L : Nat) :
    ∀ (fields : List Field),
      (∀ f ∈ fields, ∀ na bs', bs'.length ≤ L → rd f.ty f.bare na bs' ≠ .error .fuel) →
      ∀ (acc : List (Option Val)) (bs : Bytes), bs.length ≤ L →
        readFieldsWith rd params fields acc bs ≠ .error .fuel := by
  intro fields
  induction fields with
  | nil => intro _ acc bs _ h; simp [readFieldsWith] at h
  | cons f fs ih =>
    intro hf acc bs hl h
    simp only [readFieldsWith] at h
    have ih' := ih (fun g hg => hf g (by simp [hg]))
    cases hp : fieldPresent f acc params with
    | none => simp [hp] at h
    | some b =>
      cases hna : natArgVals acc params f.natArgs with
      | none => cases b <;> simp [hp, hna] at h
      | some na =>
        cases b with
        | true =>
          simp only [hp, hna] at h
          cases h1 : rd f.ty f.bare na bs with
          | error e =>
            simp only [h1] at h
            injection h with h; subst h
            exact hf f (by simp) na bs hl h1
          | ok p =>
            obtain ⟨v, bs'⟩ := p
            simp only [h1] at h
            have := hs _ _ _ _ _ _ h1
            exact ih' _ _ (by omega) h
        | false =>
          simp only [hp, hna] at h
          exact ih' _ _ hl h

/-! ### types that surely consume input -/

def Consumes (d : Desc) (rd : Rd) : Prop :=
  ∀ ty bare na bs v rest, d.consumes ty bare = true → rd ty bare na bs = .ok (v, rest) → rest.length + 1 ≤ bs.length

theorem readStep_consumes (cfg : Cfg) (d : Desc) {rd : Rd} (h : Shrinks rd) : Consumes d (readStep cfg d rd) := by
  intro ty bare params bs v rest hc hr
  have hle := readStep_shrinks cfg d h _ _ _ _ _ _ hr
  simp only [Desc.consumes] at hc
  simp only [readStep] at hr
  cases hg : d.get? ty with
  | none => simp [hg] at hc
  | some inst =>
    simp only [hg] at hr hc
    cases inst with
    | prim k =>
      have hk : k ≠ .bit := by intro e; subst e; simp at hc
      obtain ⟨pre, e, hw⟩ := readPrim_canonical hk hr
      have := writePrim_min hw
      have : 1 ≤ minSizePrim k := by cases k <;> simp [minSizePrim] at hk ⊢
      rw [e]; simp only [List.length_append]; omega
    | struct s =>
      simp only at hr
      cases bare with
      | true => simp at hc
      | false =>
        simp only [Bool.false_eq_true, if_false] at hr
        cases ht : readExactTag s.tag bs with
        | error e => simp [ht] at hr
        | ok bs1 =>
          simp only [ht] at hr
          have := readExactTag_len ht
          cases hf : readFieldsWith rd params s.fields [] bs1 with
          | error e => simp [hf] at hr
          | ok p =>
            obtain ⟨fs, r⟩ := p
            simp only [hf] at hr
            injection hr with hr; injection hr with _ hr; subst hr
            have := readFields_shrinks h params _ _ _ _ _ hf
            omega
    | union u =>
      simp only at hr
      cases h1 : readU32 bs with
      | error e => simp [h1] at hr
      | ok p =>
        obtain ⟨tag, bs1⟩ := p
        simp only [h1] at hr
        have := readU32_len h1
        cases hf : findVariant d tag u.variants 0 with
        | none => simp [hf] at hr
        | some q =>
          obtain ⟨i, vi⟩ := q
          cases hna : natArgVals [] params u.elemNatArgs with
          | none => simp [hf, hna] at hr
          | some na =>
            simp only [hf, hna] at hr
            cases h2 : rd vi true na bs1 with
            | error e => simp [h2] at hr
            | ok p =>
              obtain ⟨x, r⟩ := p
              simp only [h2] at hr
              injection hr with hr; injection hr with _ hr; subst hr
              have := h _ _ _ _ _ _ h2
              omega
    | array a =>
      simp only at hr
      simp only [Bool.not_eq_true'] at hc
      cases hna : natArgVals [] params a.elem.natArgs with
      | none => simp [hna] at hr
      | some na =>
        simp only [hna, hc, Bool.false_eq_true, if_false] at hr
        cases h1 : readU32 bs with
        | error e => simp [h1] at hr
        | ok p =>
          obtain ⟨n, bs1⟩ := p
          simp only [h1] at hr
          have := readU32_len h1
          split at hr
          · cases hr
          · obtain ⟨⟨vs, r⟩, he, hv⟩ := map_ok_inv hr
            injection hv with _ hv; subst hv
            have := readElems_shrinks h _ _ _ _ _ _ he
            show r.length + 1 ≤ bs.length
            omega
    | dict a =>
      simp only at hr
      cases hna : natArgVals [] params a.elem.natArgs with
      | none => simp [hna] at hr
      | some na =>
        simp only [hna] at hr
        cases h1 : readU32 bs with
        | error e => simp [h1] at hr
        | ok p =>
          obtain ⟨n, bs1⟩ := p
          simp only [h1] at hr
          have := readU32_len h1
          split at hr
          · cases hr
          · cases hk : dictKeyPrim d a with
            | none => simp [hk] at hr
            | some k =>
              simp only [hk] at hr
              obtain ⟨⟨vs, r⟩, he, hv⟩ := map_ok_inv hr
              injection hv with _ hv; subst hv
              have := readElems_shrinks h _ _ _ _ _ _ he
              show r.length + 1 ≤ bs.length
              omega

theorem readTL1_consumes (cfg : Cfg) (d : Desc) : ∀ fuel, Consumes d (readTL1 cfg d fuel) := by
  intro fuel
  cases fuel with
  | zero => intro ty bare na bs v rest _ h; simp [readTL1] at h
  | succ n => rw [readTL1_succ]; exact readStep_consumes cfg d (readTL1_shrinks cfg d n)

theorem readFields_nofuel_g {d : Desc} {rk : List Nat} {r : Nat} {rd : Rd} (hs : Shrinks rd) (hc : Consumes d rd)
    (params : List Nat) (L : Nat)
    (HU : ∀ ty bare na bs', rkOf d rk ty bare < r → bs'.length ≤ L → rd ty bare na bs' ≠ .error .fuel)
    (HG : ∀ ty bare na bs', bs'.length + 1 ≤ L → rd ty bare na bs' ≠ .error .fuel) :
    ∀ (fields : List Field) (g : Bool) (acc : List (Option Val)) (bs : Bytes),
      fieldsProductive d rk r g fields = true → bs.length ≤ L → (g = true → bs.length + 1 ≤ L) →
      readFieldsWith rd params fields acc bs ≠ .error .fuel := by
  intro fields
  induction fields with
  | nil => intro g acc bs _ _ _ h; simp [readFieldsWith] at h
  | cons f fs ih =>
    intro g acc bs hprod hl hg h
    simp only [fieldsProductive, Bool.and_eq_true, Bool.or_eq_true, decide_eq_true_eq] at hprod
    simp only [readFieldsWith] at h
    cases hp : fieldPresent f acc params with
    | none => simp [hp] at h
    | some b =>
      cases hna : natArgVals acc params f.natArgs with
      | none => cases b <;> simp [hp, hna] at h
      | some na =>
        cases b with
        | true =>
          simp only [hp, hna] at h
          cases h1 : rd f.ty f.bare na bs with
          | error e =>
            simp only [h1] at h
            injection h with h; subst h
            rcases hprod.1 with hg' | hr
            · exact HG _ _ _ _ (hg hg') h1
            · exact HU _ _ _ _ hr hl h1
          | ok p =>
            obtain ⟨v, bs'⟩ := p
            simp only [h1] at h
            have hsh := hs _ _ _ _ _ _ h1
            refine ih _ _ _ hprod.2 (by omega) ?_ h
            intro hg'
            simp only [Bool.or_eq_true, Bool.and_eq_true] at hg'
            rcases hg' with hg' | ⟨_, hcons⟩
            · have := hg hg'; omega
            · have := hc _ _ _ _ _ _ hcons h1; omega
        | false =>
          simp only [hp, hna] at h
          have hmask : f.mask.isNone = false := by
            unfold fieldPresent at hp
            cases hm' : f.mask with
            | none => rw [hm'] at hp; cases hp
            | some _ => rfl
          refine ih _ _ _ hprod.2 hl ?_ h
          intro hg'
          simp only [hmask, Bool.false_and, Bool.or_false] at hg'
          exact hg hg'

theorem readElems_nofuel {rd : Rd} (hs : Shrinks rd) (f : Field) (na : List Nat) (L : Nat)
    (hf : ∀ bs', bs'.length ≤ L → rd f.ty f.bare na bs' ≠ .error .fuel) :
    ∀ (n : Nat) (bs : Bytes), bs.length ≤ L → readElemsWith rd f na n bs ≠ .error .fuel := by
  intro n
  induction n with
  | zero => intro bs _ h; simp [readElemsWith] at h
  | succ n ih =>
    intro bs hl h
    simp only [readElemsWith] at h
    cases h1 : rd f.ty f.bare na bs with
    | error e =>
      simp only [h1] at h
      injection h with h; subst h
      exact hf bs hl h1
    | ok p =>
      obtain ⟨v, bs'⟩ := p
      simp only [h1] at h
      have := hs _ _ _ _ _ _ h1
      cases h2 : readElemsWith rd f na n bs' with
      | error e =>
        simp only [h2] at h
        injection h with h; subst h
        exact ih bs' (by omega) h2
      | ok q => simp only [h2] at h; cases h

theorem map_fuel_inv {α β} {x : Except CErr α} {g : α → β} (h : x.map g = .error .fuel) : x = .error .fuel := by
  cases x with
  | error e => injection h with h; rw [h]
  | ok a => cases h

theorem need_unguarded {K L L' r r' fuel : Nat} (hl : L' ≤ L) (hr : r' < r) (h : L * K + r + 1 ≤ fuel + 1) :
    L' * K + r' + 1 ≤ fuel := by
  have := Nat.mul_le_mul_right K hl
  omega

theorem need_guarded {K L L' r r' fuel : Nat} (hl : L' + 1 ≤ L) (hr : r' < K) (h : L * K + r + 1 ≤ fuel + 1) :
    L' * K + r' + 1 ≤ fuel := by
  have := Nat.mul_le_mul_right K hl
  rw [Nat.add_mul, Nat.one_mul] at this
  omega

theorem rkAt_le {rk : List Nat} {n : Nat} (h : rk.all (fun r => decide (r ≤ n)) = true) (i : Nat) : rkAt rk i ≤ n := by
  unfold rkAt
  cases hi : rk[i]? with
  | none => simp
  | some r =>
    have := (List.all_eq_true.mp h) r (List.mem_of_getElem? hi)
    simpa using this

theorem rkOf_le {d : Desc} {rk : List Nat} {n : Nat} (h : rk.all (fun r => decide (r ≤ n)) = true) (ty : Nat) (bare : Bool) :
    rkOf d rk ty bare ≤ n := by
  unfold rkOf
  split
  · exact Nat.zero_le _
  · exact rkAt_le h ty

theorem Desc.productive_get {d : Desc} {rk : List Nat} (h : d.productive rk = true) {ty : Nat} {inst : Inst}
    (hg : d.get? ty = some inst) : inst.productive d rk ty = true := by
  simp only [Desc.productive, Bool.and_eq_true] at h
  have hlt : ty < d.insts.size := by
    unfold Desc.get? at hg
    exact (Array.getElem?_eq_some_iff.mp hg).1
  have := (List.all_eq_true.mp h.2) ty (List.mem_range.mpr hlt)
  simpa [hg] using this

theorem fuel_suffices_aux (cfg : Cfg) (d : Desc) (rk : List Nat) (hp : d.productive rk = true) :
    ∀ (fuel ty : Nat) (bare : Bool) (params : List Nat) (bs : Bytes),
      bs.length * (d.insts.size + 1) + rkOf d rk ty bare + 1 ≤ fuel →
      readTL1 cfg d fuel ty bare params bs ≠ .error .fuel := by
  have hall : rk.all (fun r => decide (r ≤ d.insts.size)) = true := by
    simp only [Desc.productive, Bool.and_eq_true] at hp; exact hp.1
  have hK : ∀ ty bare, rkOf d rk ty bare < d.insts.size + 1 := fun ty bare => Nat.lt_succ_of_le (rkOf_le hall ty bare)
  intro fuel
  induction fuel with
  | zero => intro ty bare params bs h; omega
  | succ fuel ih =>
    intro ty bare params bs hfu h
    have hsh := readTL1_shrinks cfg d fuel
    rw [readTL1_succ] at h
    simp only [readStep] at h
    cases hg : d.get? ty with
    | none => simp [hg] at h
    | some inst =>
      simp only [hg] at h
      have hprod := Desc.productive_get hp hg
      cases inst with
      | prim k => exact readPrim_ne_fuel k bs h
      | struct s =>
        simp only at h
        simp only [Inst.productive] at hprod
        cases bare with
        | true =>
          simp only [if_true] at h
          have hr : rkOf d rk ty true = rkAt rk ty := by simp [rkOf]
          rw [hr] at hfu
          have := readFields_nofuel_g hsh (readTL1_consumes cfg d fuel) params bs.length
            (fun ty' bare' na bs' hrk hl => ih _ _ _ _ (need_unguarded hl hrk hfu))
            (fun ty' bare' na bs' hl => ih _ _ _ _ (need_guarded (L := bs.length) hl (hK _ _) hfu))
            s.fields false [] bs hprod (Nat.le_refl _) (fun hc => by cases hc)
          cases hfr : readFieldsWith (readTL1 cfg d fuel) params s.fields [] bs with
          | error e => rw [hfr] at h this; simp only at h; injection h with h; subst h; exact this rfl
          | ok p => rw [hfr] at h; cases h
        | false =>
          simp only [Bool.false_eq_true, if_false] at h
          cases ht : readExactTag s.tag bs with
          | error e =>
            simp only [ht] at h
            injection h with h; subst h
            unfold readExactTag at ht
            cases h1 : readU32 bs with
            | error e => rw [h1] at ht; injection ht with ht; have := (readU32_err h1).1; rw [this] at ht; cases ht
            | ok p => obtain ⟨t, r⟩ := p; simp only [h1] at ht; split at ht <;> cases ht
          | ok bs1 =>
            simp only [ht] at h
            have hlen := readExactTag_len ht
            have := readFields_nofuel hsh params bs1.length s.fields
              (fun f hf na bs' hl => ih _ _ _ _ (need_guarded (L := bs.length) (by omega) (hK _ _) hfu)) [] bs1 (Nat.le_refl _)
            cases hfr : readFieldsWith (readTL1 cfg d fuel) params s.fields [] bs1 with
            | error e => rw [hfr] at h this; simp only at h; injection h with h; subst h; exact this rfl
            | ok p => rw [hfr] at h; cases h
      | union u =>
        simp only at h
        cases h1 : readU32 bs with
        | error e => simp only [h1] at h; injection h with h; have := (readU32_err h1).1; rw [this] at h; cases h
        | ok p =>
          obtain ⟨tag, bs1⟩ := p
          simp only [h1] at h
          have hlen := readU32_len h1
          cases hf : findVariant d tag u.variants 0 with
          | none => simp [hf] at h
          | some q =>
            obtain ⟨i, vi⟩ := q
            cases hna : natArgVals [] params u.elemNatArgs with
            | none => simp [hf, hna] at h
            | some na =>
              simp only [hf, hna] at h
              have := ih vi true na bs1 (need_guarded (L := bs.length) (by omega) (hK _ _) hfu)
              cases h2 : readTL1 cfg d fuel vi true na bs1 with
              | error e => rw [h2] at h this; simp only at h; injection h with h; subst h; exact this rfl
              | ok p => rw [h2] at h; cases h
      | array a =>
        simp only at h
        cases hna : natArgVals [] params a.elem.natArgs with
        | none => simp [hna] at h
        | some na =>
          simp only [hna] at h
          have hr : rkOf d rk ty bare = rkAt rk ty := by simp [rkOf, hg]
          by_cases ct : a.isTuple = true
          · simp only [ct, if_true] at h
            simp only [Inst.productive, ct, Bool.not_true, Bool.false_or, decide_eq_true_eq] at hprod
            cases hn : (if a.dynamic = true then params[0]? else some a.count) with
            | none => simp [hn] at h
            | some n =>
              simp only [hn] at h
              split at h
              · cases h
              · rw [hr] at hfu
                exact readElems_nofuel hsh a.elem na bs.length
                  (fun bs' hl => ih _ _ _ _ (need_unguarded hl hprod hfu)) n bs (Nat.le_refl _) (map_fuel_inv h)
          · simp only [ct, Bool.false_eq_true, if_false] at h
            cases h1 : readU32 bs with
            | error e => simp only [h1] at h; injection h with h; have := (readU32_err h1).1; rw [this] at h; cases h
            | ok p =>
              obtain ⟨n, bs1⟩ := p
              simp only [h1] at h
              have hlen := readU32_len h1
              split at h
              · cases h
              · exact readElems_nofuel hsh a.elem na bs1.length
                  (fun bs' hl => ih _ _ _ _ (need_guarded (L := bs.length) (by omega) (hK _ _) hfu)) n bs1 (Nat.le_refl _) (map_fuel_inv h)
      | dict a =>
        simp only at h
        cases hna : natArgVals [] params a.elem.natArgs with
        | none => simp [hna] at h
        | some na =>
          simp only [hna] at h
          cases h1 : readU32 bs with
          | error e => simp only [h1] at h; injection h with h; have := (readU32_err h1).1; rw [this] at h; cases h
          | ok p =>
            obtain ⟨n, bs1⟩ := p
            simp only [h1] at h
            have hlen := readU32_len h1
            split at h
            · cases h
            · cases hk : dictKeyPrim d a with
              | none => simp [hk] at h
              | some k =>
                simp only [hk] at h
                exact readElems_nofuel hsh a.elem na bs1.length
                  (fun bs' hl => ih _ _ _ _ (need_guarded (L := bs.length) (by omega) (hK _ _) hfu)) n bs1 (Nat.le_refl _) (map_fuel_inv h)

theorem fuel_suffices' (cfg : Cfg) (d : Desc) (rk : List Nat) (hp : d.productive rk = true)
    (fuel ty : Nat) (bare : Bool) (params : List Nat) (bs : Bytes) (hf : fuelFor d bs.length ≤ fuel) :
    readTL1 cfg d fuel ty bare params bs ≠ .error .fuel := by
  apply fuel_suffices_aux cfg d rk hp
  have hall : rk.all (fun r => decide (r ≤ d.insts.size)) = true := by
    simp only [Desc.productive, Bool.and_eq_true] at hp; exact hp.1
  have := rkOf_le (d := d) hall ty bare
  unfold fuelFor at hf
  rw [Nat.add_mul, Nat.one_mul] at hf
  omega


/-! ### no `.error .desc` on well-formed descriptors -/

def CallOk (d : Desc) (ty : Nat) (na : List Nat) : Prop := ∃ inst, d.get? ty = some inst ∧ inst.nparams ≤ na.length

def TotalRd (d : Desc) (rd : Rd) : Prop := ∀ ty bare na bs, CallOk d ty na → rd ty bare na bs ≠ .error .desc

def NumRd (d : Desc) (rd : Rd) : Prop :=
  ∀ ty bare na bs v r, d.isNumTy ty = true → rd ty bare na bs = .ok (v, r) → ∃ n, v = .nat n

def AccInv (nums : List Bool) (acc : List (Option Val)) : Prop :=
  acc.length = nums.length ∧
  ∀ i : Nat, nums[i]? = some true → (acc[i]? = some none ∨ ∃ n, acc[i]? = some (some (Val.nat n)))

theorem natArgVal_total {np : Nat} {nums : List Bool} {acc : List (Option Val)} {params : List Nat} {a : NatArg}
    (ha : a.okIn np nums = true) (hnp : np ≤ params.length) (hacc : AccInv nums acc) :
    ∃ x, natArgVal acc params a = some x := by
  cases a with
  | num n => exact ⟨n, rfl⟩
  | param i =>
    simp only [NatArg.okIn, decide_eq_true_eq] at ha
    have : i < params.length := by omega
    exact ⟨params[i], by simp [natArgVal, this]⟩
  | field i =>
    simp only [NatArg.okIn] at ha
    have : nums[i]? = some true := by
      cases h : nums[i]? with
      | none => rw [h] at ha; simp at ha
      | some b => rw [h] at ha; simp at ha; rw [ha]
    rcases hacc.2 i this with h | ⟨n, h⟩
    · exact ⟨0, by simp [natArgVal, h]⟩
    · exact ⟨n, by simp [natArgVal, h]⟩

theorem natArgVals_total {np : Nat} {nums : List Bool} {acc : List (Option Val)} {params : List Nat} {as : List NatArg}
    (ha : as.all (NatArg.okIn np nums) = true) (hnp : np ≤ params.length) (hacc : AccInv nums acc) :
    ∃ xs, natArgVals acc params as = some xs ∧ xs.length = as.length := by
  induction as with
  | nil => exact ⟨[], rfl, rfl⟩
  | cons a as ih =>
    simp only [List.all_cons, Bool.and_eq_true] at ha
    obtain ⟨x, hx⟩ := natArgVal_total ha.1 hnp hacc
    obtain ⟨xs, hxs, hl⟩ := ih ha.2
    exact ⟨x :: xs, by simp [natArgVals, hx, hxs], by simp [hl]⟩

theorem accInv_nil : AccInv [] [] := ⟨rfl, fun i h => by simp at h⟩

theorem accInv_snoc {nums : List Bool} {acc : List (Option Val)} (h : AccInv nums acc) (b : Bool) (o : Option Val)
    (ho : b = true → o = none ∨ ∃ n, o = some (Val.nat n)) : AccInv (nums ++ [b]) (acc ++ [o]) := by
  refine ⟨by simp [h.1], ?_⟩
  intro i hi
  by_cases c : i < nums.length
  · rw [List.getElem?_append_left c] at hi
    rw [List.getElem?_append_left (by rw [h.1]; exact c)]
    exact h.2 i hi
  · by_cases c2 : i = nums.length
    · subst c2
      have e1 : (nums ++ [b])[nums.length]? = some b := by simp
      rw [e1] at hi
      injection hi with hi
      have e2 : (acc ++ [o])[nums.length]? = some o := by rw [← h.1]; simp
      rw [e2]
      rcases ho hi with ho | ⟨n, ho⟩
      · left; rw [ho]
      · right; exact ⟨n, by rw [ho]⟩
    · have : (nums ++ [b])[i]? = none := by
        apply List.getElem?_eq_none; simp; omega
      rw [this] at hi; cases hi

theorem refOk_call {d : Desc} {np : Nat} {nums : List Bool} {f : Field} (h : d.refOk np nums f = true)
    {na : List Nat} (hl : na.length = f.natArgs.length) : CallOk d f.ty na := by
  simp only [Desc.refOk, Bool.and_eq_true] at h
  cases hg : d.get? f.ty with
  | none => rw [hg] at h; simp at h
  | some inst =>
    rw [hg] at h
    simp only [decide_eq_true_eq] at h
    exact ⟨inst, hg, by omega⟩

theorem readFields_total {d : Desc} {rd : Rd} (ht : TotalRd d rd) (hnum : NumRd d rd) {np : Nat} (params : List Nat)
    (hnp : np ≤ params.length) :
    ∀ (fields : List Field) (nums : List Bool) (acc : List (Option Val)) (bs : Bytes),
      d.fieldsOk np nums fields = true → AccInv nums acc →
      readFieldsWith rd params fields acc bs ≠ .error .desc := by
  intro fields
  induction fields with
  | nil => intro nums acc bs _ _ h; simp [readFieldsWith] at h
  | cons f fs ih =>
    intro nums acc bs hok hacc h
    simp only [Desc.fieldsOk, Desc.fieldOk, Bool.and_eq_true] at hok
    obtain ⟨⟨href, hmask⟩, hrest⟩ := hok
    have href' := href
    simp only [Desc.refOk, Bool.and_eq_true] at href'
    obtain ⟨na, hna, hnal⟩ := natArgVals_total href'.2 hnp hacc
    have hpres : ∃ b, fieldPresent f acc params = some b := by
      unfold fieldPresent
      cases hm : f.mask with
      | none => exact ⟨true, rfl⟩
      | some p =>
        obtain ⟨a, bit⟩ := p
        rw [hm] at hmask
        obtain ⟨x, hx⟩ := natArgVal_total hmask hnp hacc
        exact ⟨testBit x bit, by simp [hx]⟩
    obtain ⟨b, hb⟩ := hpres
    simp only [readFieldsWith, hb, hna] at h
    cases b with
    | true =>
      simp only at h
      cases hr : rd f.ty f.bare na bs with
      | error e =>
        simp only [hr] at h
        injection h with h; subst h
        exact ht _ _ _ _ (refOk_call href hnal) hr
      | ok p =>
        obtain ⟨v, bs'⟩ := p
        simp only [hr] at h
        refine ih _ _ _ hrest (accInv_snoc hacc _ _ ?_) h
        intro hn
        obtain ⟨n, hv⟩ := hnum _ _ _ _ _ _ hn hr
        exact Or.inr ⟨n, by rw [hv]⟩
    | false =>
      simp only at h
      exact ih _ _ _ hrest (accInv_snoc hacc _ _ (fun _ => Or.inl rfl)) h

theorem readElems_total {d : Desc} {rd : Rd} (ht : TotalRd d rd) (f : Field) (na : List Nat) (hc : CallOk d f.ty na) :
    ∀ (n : Nat) (bs : Bytes), readElemsWith rd f na n bs ≠ .error .desc := by
  intro n
  induction n with
  | zero => intro bs h; simp [readElemsWith] at h
  | succ n ih =>
    intro bs h
    simp only [readElemsWith] at h
    cases h1 : rd f.ty f.bare na bs with
    | error e => simp only [h1] at h; injection h with h; subst h; exact ht _ _ _ _ hc h1
    | ok p =>
      obtain ⟨v, bs'⟩ := p
      simp only [h1] at h
      cases h2 : readElemsWith rd f na n bs' with
      | error e => simp only [h2] at h; injection h with h; subst h; exact ih _ h2
      | ok q => simp only [h2] at h; cases h

theorem map_desc_inv {α β} {x : Except CErr α} {g : α → β} (h : x.map g = .error .desc) : x = .error .desc := by
  cases x with
  | error e => injection h with h; rw [h]
  | ok a => cases h

theorem readPrim_ne_desc (k : PrimK) (bs : Bytes) : readPrim k bs ≠ .error .desc := by
  intro h
  cases k with
  | u32 | i32 | f32 =>
    simp only [readPrim] at h
    cases h1 : readU32 bs with
    | error e => rw [h1] at h; injection h with h; have := (readU32_err h1).1; rw [this] at h; cases h
    | ok p => rw [h1] at h; cases h
  | u64 | i64 | f64 =>
    simp only [readPrim] at h
    cases h1 : readU64 bs with
    | error e => rw [h1] at h; injection h with h; have := readU64_err h1; rw [this] at h; cases h
    | ok p => rw [h1] at h; cases h
  | str =>
    simp only [readPrim] at h
    cases h1 : stringRead bs with
    | error e => rw [h1] at h; cases e <;> cases h
    | ok p => rw [h1] at h; cases h
  | bool f t =>
    simp only [readPrim] at h
    cases h1 : readU32 bs with
    | error e => rw [h1] at h; injection h with h; have := (readU32_err h1).1; rw [this] at h; cases h
    | ok p =>
      obtain ⟨tag, r⟩ := p
      simp only [h1] at h
      split at h
      · cases h
      · split at h <;> cases h
  | byte => cases bs <;> simp [readPrim] at h
  | bit => simp [readPrim] at h

theorem readPrim_num {k : PrimK} (hk : isNumPrim k = true) {bs r : Bytes} {v : Val} (h : readPrim k bs = .ok (v, r)) :
    ∃ n, v = .nat n := by
  cases k with
  | u32 | i32 | f32 =>
    simp only [readPrim] at h
    obtain ⟨⟨n, r'⟩, _, hv⟩ := map_ok_inv h
    injection hv with hv _; exact ⟨n, hv.symm⟩
  | u64 | i64 | f64 =>
    simp only [readPrim] at h
    obtain ⟨⟨n, r'⟩, _, hv⟩ := map_ok_inv h
    injection hv with hv _; exact ⟨n, hv.symm⟩
  | byte =>
    cases bs with
    | nil => simp [readPrim] at h
    | cons b r' => simp only [readPrim] at h; injection h with h; injection h with hv _; exact ⟨_, hv.symm⟩
  | str => simp [isNumPrim] at hk
  | bit => simp [isNumPrim] at hk
  | bool f t => simp [isNumPrim] at hk

theorem readStep_num (cfg : Cfg) (d : Desc) (rd : Rd) : NumRd d (readStep cfg d rd) := by
  intro ty bare na bs v r hn h
  simp only [Desc.isNumTy] at hn
  simp only [readStep] at h
  cases hg : d.get? ty with
  | none => rw [hg] at hn; simp at hn
  | some inst =>
    cases inst with
    | prim k => rw [hg] at hn h; exact readPrim_num hn h
    | _ => rw [hg] at hn; simp at hn

theorem Desc.wf_get {d : Desc} (h : d.wf = true) {ty : Nat} {i : Inst} (hg : d.get? ty = some i) : i.wf d = true :=
  (List.all_eq_true.mp h) _ (Desc.get?_mem hg)

theorem readStep_total (cfg : Cfg) (d : Desc) (hwf : d.wf = true) {rd : Rd} (ht : TotalRd d rd) (hnum : NumRd d rd) :
    TotalRd d (readStep cfg d rd) := by
  intro ty bare params bs hc h
  obtain ⟨inst, hg, hnp⟩ := hc
  have hi := Desc.wf_get hwf hg
  simp only [readStep, hg] at h
  cases inst with
  | prim k => exact readPrim_ne_desc k bs h
  | struct s =>
    simp only at h
    simp only [Inst.wf] at hi
    simp only [Inst.nparams] at hnp
    cases hb : (if bare = true then Except.ok bs else readExactTag s.tag bs) with
    | error e =>
      simp only [hb] at h
      injection h with h; subst h
      cases bare with
      | true => simp at hb
      | false =>
        simp only [Bool.false_eq_true, if_false] at hb
        unfold readExactTag at hb
        cases h1 : readU32 bs with
        | error e => rw [h1] at hb; injection hb with hb; have := (readU32_err h1).1; rw [this] at hb; cases hb
        | ok p => obtain ⟨t, r⟩ := p; simp only [h1] at hb; split at hb <;> cases hb
    | ok bs1 =>
      simp only [hb] at h
      have := readFields_total ht hnum params hnp s.fields [] [] bs1 hi accInv_nil
      cases hf : readFieldsWith rd params s.fields [] bs1 with
      | error e => rw [hf] at h this; simp only at h; injection h with h; subst h; exact this rfl
      | ok p => rw [hf] at h; cases h
  | union u =>
    simp only at h
    simp only [Inst.wf, Bool.and_eq_true] at hi
    simp only [Inst.nparams] at hnp
    cases h1 : readU32 bs with
    | error e => simp only [h1] at h; injection h with h; have := (readU32_err h1).1; rw [this] at h; cases h
    | ok p =>
      obtain ⟨tag, bs1⟩ := p
      simp only [h1] at h
      obtain ⟨na, hna, hnal⟩ := natArgVals_total (acc := []) hi.1 hnp accInv_nil
      cases hf : findVariant d tag u.variants 0 with
      | none => simp [hf] at h
      | some q =>
        obtain ⟨i, vi⟩ := q
        simp only [hf, hna] at h
        obtain ⟨s, nm, _, hv, hgv, _⟩ := findVariant_spec d tag _ _ _ _ hf
        have hmem := List.mem_of_getElem? hv
        have hvar := (List.all_eq_true.mp hi.2) _ hmem
        simp only [hgv, decide_eq_true_eq] at hvar
        have hcall : CallOk d vi na := ⟨_, hgv, by omega⟩
        cases h2 : rd vi true na bs1 with
        | error e => simp only [h2] at h; injection h with h; subst h; exact ht _ _ _ _ hcall h2
        | ok p => simp only [h2] at h; cases h
  | array a =>
    simp only at h
    simp only [Inst.wf, Bool.and_eq_true] at hi
    simp only [Inst.nparams] at hnp
    have href := hi.1
    simp only [Desc.refOk, Bool.and_eq_true] at href
    obtain ⟨na, hna, hnal⟩ := natArgVals_total (acc := []) href.2 hnp accInv_nil
    have hcall := refOk_call hi.1 hnal
    simp only [hna] at h
    by_cases ct : a.isTuple = true
    · simp only [ct, if_true] at h
      have hn : ∃ n, (if a.dynamic = true then params[0]? else some a.count) = some n := by
        by_cases cd : a.dynamic = true
        · have h2 := hi.2
          simp only [ct, cd, Bool.and_self, Bool.not_true, Bool.false_or, decide_eq_true_eq] at h2
          have : 0 < params.length := by omega
          exact ⟨params[0], by simp [cd, this]⟩
        · exact ⟨a.count, by simp [cd]⟩
      obtain ⟨n, hn⟩ := hn
      simp only [hn] at h
      split at h
      · cases h
      · exact readElems_total ht a.elem na hcall n bs (map_desc_inv h)
    · simp only [ct, Bool.false_eq_true, if_false] at h
      cases h1 : readU32 bs with
      | error e => simp only [h1] at h; injection h with h; have := (readU32_err h1).1; rw [this] at h; cases h
      | ok p =>
        obtain ⟨n, bs1⟩ := p
        simp only [h1] at h
        split at h
        · cases h
        · exact readElems_total ht a.elem na hcall n bs1 (map_desc_inv h)
  | dict a =>
    simp only at h
    simp only [Inst.wf, Bool.and_eq_true] at hi
    simp only [Inst.nparams] at hnp
    have href := hi.1
    simp only [Desc.refOk, Bool.and_eq_true] at href
    obtain ⟨na, hna, hnal⟩ := natArgVals_total (acc := []) href.2 hnp accInv_nil
    have hcall := refOk_call hi.1 hnal
    simp only [hna] at h
    cases h1 : readU32 bs with
    | error e => simp only [h1] at h; injection h with h; have := (readU32_err h1).1; rw [this] at h; cases h
    | ok p =>
      obtain ⟨n, bs1⟩ := p
      simp only [h1] at h
      split at h
      · cases h
      · cases hk : dictKeyPrim d a with
        | none => rw [hk] at hi; simp at hi
        | some k =>
          simp only [hk] at h
          exact readElems_total ht a.elem na hcall n bs1 (map_desc_inv h)

theorem readTL1_total (cfg : Cfg) (d : Desc) (hwf : d.wf = true) :
    ∀ fuel, TotalRd d (readTL1 cfg d fuel) ∧ NumRd d (readTL1 cfg d fuel) := by
  intro fuel
  induction fuel with
  | zero =>
    refine ⟨?_, ?_⟩
    · intro ty bare na bs _ h; simp [readTL1] at h
    · intro ty bare na bs v r _ h; simp [readTL1] at h
  | succ n ih =>
    rw [readTL1_succ]
    exact ⟨readStep_total cfg d hwf ih.1 ih.2, readStep_num cfg d _⟩


/-! ### allocation guard -/

theorem readElems_length {rd : Rd} (f : Field) (na : List Nat) :
    ∀ (n : Nat) (bs : Bytes) (vs : List Val) (rest : Bytes), readElemsWith rd f na n bs = .ok (vs, rest) → vs.length = n := by
  intro n
  induction n with
  | zero =>
    intro bs vs rest h
    simp only [readElemsWith] at h
    injection h with h; injection h with h _; subst h; rfl
  | succ n ih =>
    intro bs vs rest h
    simp only [readElemsWith] at h
    cases h1 : rd f.ty f.bare na bs with
    | error e => simp [h1] at h
    | ok p =>
      obtain ⟨v, bs'⟩ := p
      simp only [h1] at h
      cases h2 : readElemsWith rd f na n bs' with
      | error e => simp [h2] at h
      | ok q =>
        obtain ⟨vs', bs''⟩ := q
        simp only [h2] at h
        injection h with h; injection h with h _; subst h
        simp [ih _ _ _ h2]

/-- `CheckLengthSanity(w, n, 4)`: an accepted count is at most a quarter of the remaining input -/
theorem sanityOk_bound {cfg : Cfg} (hc : cfg.sanity = true) {bs : Bytes} {n : Nat} (h : sanityOk cfg bs n = true) :
    n * 4 ≤ bs.length := by
  simpa [sanityOk, hc] using h

theorem dictNormalize_length_le (k : PrimK) (vs : List Val) : (dictNormalize k vs).length ≤ vs.length := by
  have := (dictFold_props (fun _ _ _ _ => .ok []) default [] k vs []).2.2
  simpa [dictNormalize] using this

/-- with the sanity check on, every vector / dynamic tuple / dictionary the reader returns has at most
`|input| / 4` elements (so the `make` it performs before reading elements is bounded by the input size) -/
theorem readTL1_alloc_bound {cfg : Cfg} (hc : cfg.sanity = true) (d : Desc) (fuel ty : Nat) (bare : Bool) (params : List Nat)
    (bs : Bytes) (v : Val) (rest : Bytes) (a : ArrayD)
    (hg : d.get? ty = some (.dict a) ∨ (d.get? ty = some (.array a) ∧ (a.isTuple = false ∨ a.dynamic = true)))
    (h : readTL1 cfg d fuel ty bare params bs = .ok (v, rest)) :
    ∃ vs, v = .arr vs ∧ vs.length * 4 ≤ bs.length := by
  cases fuel with
  | zero => simp [readTL1] at h
  | succ fuel =>
    simp only [readTL1] at h
    rcases hg with hg | ⟨hg, hkind⟩
    · simp only [hg] at h
      cases hna : natArgVals [] params a.elem.natArgs with
      | none => simp [hna] at h
      | some na =>
        simp only [hna] at h
        cases h1 : readU32 bs with
        | error e => simp [h1] at h
        | ok p =>
          obtain ⟨n, bs1⟩ := p
          simp only [h1] at h
          have hlen := readU32_len h1
          split at h
          · cases h
          · rename_i hs
            have hb := sanityOk_bound hc (by simpa using hs)
            cases hk : dictKeyPrim d a with
            | none => simp [hk] at h
            | some k =>
              simp only [hk] at h
              obtain ⟨⟨vs, r⟩, he, hv⟩ := map_ok_inv h
              injection hv with hv _
              have := readElems_length _ _ _ _ _ _ he
              have := dictNormalize_length_le k vs
              exact ⟨_, hv.symm, by simp only; omega⟩
    · simp only [hg] at h
      cases hna : natArgVals [] params a.elem.natArgs with
      | none => simp [hna] at h
      | some na =>
        simp only [hna] at h
        by_cases ct : a.isTuple = true
        · have hd : a.dynamic = true := by
            rcases hkind with h' | h'
            · rw [ct] at h'; cases h'
            · exact h'
          simp only [ct, if_true, hd] at h
          cases hn : params[0]? with
          | none => simp [hn] at h
          | some n =>
            simp only [hn] at h
            split at h
            · cases h
            · rename_i hs
              have hb := sanityOk_bound (bs := bs) (n := n) hc (by simpa using hs)
              obtain ⟨⟨vs, r⟩, he, hv⟩ := map_ok_inv h
              injection hv with hv _
              have := readElems_length _ _ _ _ _ _ he
              exact ⟨_, hv.symm, by simp only; omega⟩
        · simp only [ct, Bool.false_eq_true, if_false] at h
          cases h1 : readU32 bs with
          | error e => simp [h1] at h
          | ok p =>
            obtain ⟨n, bs1⟩ := p
            simp only [h1] at h
            have hlen := readU32_len h1
            split at h
            · cases h
            · rename_i hs
              have hb := sanityOk_bound hc (by simpa using hs)
              obtain ⟨⟨vs, r⟩, he, hv⟩ := map_ok_inv h
              injection hv with hv _
              have := readElems_length _ _ _ _ _ _ he
              exact ⟨_, hv.symm, by simp only; omega⟩

end TLVerif.Codec
