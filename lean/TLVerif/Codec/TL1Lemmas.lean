import TLVerif.Codec.TL1Wf
import TLVerif.Prim.TL1StringLemmas
/-!
Helper lemmas about the TL1 codec model: little-endian primitives, `readExactTag`, primitive
reader/writer inverses, unfolding lemmas of `readTL1`/`writeTL1` per instance kind.
-/
namespace TLVerif.Codec
open TLVerif.Prim

/-! ### little-endian words -/

theorem u32le_length (n : Nat) : (u32le n).length = 4 := rfl
theorem u64le_length (n : Nat) : (u64le n).length = 8 := rfl

theorem readU32_u32le (n : Nat) (rest : Bytes) : readU32 (u32le n ++ rest) = .ok (n % 4294967296, rest) := by
  simp only [u32le, readU32, List.cons_append, List.nil_append, byteOf_toNat]
  have : n % 256 + (((n >>> 8) % 256) <<< 8) + (((n >>> 16) % 256) <<< 16) + (((n >>> 24) % 256) <<< 24) = n % 4294967296 := by
    simp only [Nat.shiftLeft_eq, Nat.shiftRight_eq_div_pow, Nat.reducePow]; omega
  rw [this]

theorem readU32_u32le_lt {n : Nat} (h : n < 4294967296) (rest : Bytes) : readU32 (u32le n ++ rest) = .ok (n, rest) := by
  rw [readU32_u32le, Nat.mod_eq_of_lt h]

theorem readU64_u64le (n : Nat) (rest : Bytes) : readU64 (u64le n ++ rest) = .ok (n % 18446744073709551616, rest) := by
  unfold readU64 u64le
  rw [List.append_assoc, readU32_u32le]
  simp only
  rw [readU32_u32le]
  simp only
  have : n % 4294967296 + (((n >>> 32) % 4294967296) <<< 32) = n % 18446744073709551616 := by
    simp only [Nat.shiftLeft_eq, Nat.shiftRight_eq_div_pow, Nat.reducePow]; omega
  rw [this]

theorem u32le_mod (n : Nat) : u32le (n % 4294967296) = u32le n := by
  simp only [u32le]
  have e0 : byteOf (n % 4294967296) = byteOf n := byteOf_eq_of_mod (by simp only [byteOf_toNat]; omega)
  have e1 : byteOf ((n % 4294967296) >>> 8) = byteOf (n >>> 8) := byteOf_eq_of_mod (by
      simp only [byteOf_toNat, Nat.shiftRight_eq_div_pow, Nat.reducePow]; omega)
  have e2 : byteOf ((n % 4294967296) >>> 16) = byteOf (n >>> 16) := byteOf_eq_of_mod (by
      simp only [byteOf_toNat, Nat.shiftRight_eq_div_pow, Nat.reducePow]; omega)
  have e3 : byteOf ((n % 4294967296) >>> 24) = byteOf (n >>> 24) := byteOf_eq_of_mod (by
      simp only [byteOf_toNat, Nat.shiftRight_eq_div_pow, Nat.reducePow]; omega)
  rw [e0, e1, e2, e3]

theorem u32le_congr {a b : Nat} (h : a % 4294967296 = b % 4294967296) : u32le a = u32le b := by
  rw [← u32le_mod a, ← u32le_mod b, h]

theorem u64le_mod (n : Nat) : u64le (n % 18446744073709551616) = u64le n := by
  unfold u64le
  rw [u32le_congr (a := n % 18446744073709551616) (b := n) (by omega)]
  rw [u32le_congr (a := (n % 18446744073709551616) >>> 32) (b := n >>> 32) (by
    simp only [Nat.shiftRight_eq_div_pow, Nat.reducePow]; omega)]

theorem readU32_cases (bs : Bytes) :
    (readU32 bs = .error .eof ∧ bs.length < 4) ∨ ∃ n r, readU32 bs = .ok (n, r) ∧ bs = u32le n ++ r ∧ n < 4294967296 := by
  match bs with
  | a :: b :: c :: d :: r =>
    right
    refine ⟨_, r, rfl, ?_⟩
    have ha := a.toNat_lt; have hb := b.toNat_lt; have hc := c.toNat_lt; have hd := d.toNat_lt
    generalize hn : a.toNat + (b.toNat <<< 8) + (c.toNat <<< 16) + (d.toNat <<< 24) = n
    simp only [Nat.shiftLeft_eq, Nat.reducePow] at hn
    refine ⟨?_, by omega⟩
    have e0 : byteOf n = a := byteOf_eq_of_mod (by omega)
    have e1 : byteOf (n >>> 8) = b := byteOf_eq_of_mod (by
      simp only [Nat.shiftRight_eq_div_pow, Nat.reducePow]; omega)
    have e2 : byteOf (n >>> 16) = c := byteOf_eq_of_mod (by
      simp only [Nat.shiftRight_eq_div_pow, Nat.reducePow]; omega)
    have e3 : byteOf (n >>> 24) = d := byteOf_eq_of_mod (by
      simp only [Nat.shiftRight_eq_div_pow, Nat.reducePow]; omega)
    simp only [u32le, e0, e1, e2, e3, List.cons_append, List.nil_append]
  | [] => left; exact ⟨rfl, by simp⟩
  | [_] => left; exact ⟨rfl, by simp⟩
  | [_, _] => left; exact ⟨rfl, by simp⟩
  | [_, _, _] => left; exact ⟨rfl, by simp⟩

theorem readU32_inv {bs rest : Bytes} {n : Nat} (h : readU32 bs = .ok (n, rest)) :
    bs = u32le n ++ rest ∧ n < 4294967296 := by
  rcases readU32_cases bs with ⟨he, _⟩ | ⟨m, r, hr, hb, hlt⟩
  · rw [he] at h; cases h
  · rw [hr] at h; injection h with h; injection h with h1 h2
    subst h1; subst h2; exact ⟨hb, hlt⟩

theorem readU32_err {bs : Bytes} {e : CErr} (h : readU32 bs = .error e) : e = .eof ∧ bs.length < 4 := by
  rcases readU32_cases bs with ⟨he, hl⟩ | ⟨m, r, hr, _, _⟩
  · rw [he] at h; injection h with h; exact ⟨h.symm, hl⟩
  · rw [hr] at h; cases h

theorem readU64_inv {bs rest : Bytes} {n : Nat} (h : readU64 bs = .ok (n, rest)) :
    bs = u64le n ++ rest ∧ n < 18446744073709551616 := by
  unfold readU64 at h
  cases h1 : readU32 bs with
  | error e => simp [h1] at h
  | ok p =>
    obtain ⟨lo, r⟩ := p
    simp only [h1] at h
    cases h2 : readU32 r with
    | error e => simp [h2] at h
    | ok q =>
      obtain ⟨hi, r'⟩ := q
      simp only [h2] at h
      injection h with h; injection h with h3 h4
      subst h4
      obtain ⟨e1, b1⟩ := readU32_inv h1
      obtain ⟨e2, b2⟩ := readU32_inv h2
      simp only [Nat.shiftLeft_eq, Nat.reducePow] at h3
      refine ⟨?_, by omega⟩
      have hlo : u32le n = u32le lo := u32le_congr (by omega)
      have hhi : u32le (n >>> 32) = u32le hi := u32le_congr (by
        simp only [Nat.shiftRight_eq_div_pow, Nat.reducePow]; omega)
      rw [e1, e2, u64le, hlo, hhi, List.append_assoc]

theorem readU64_err {bs : Bytes} {e : CErr} (h : readU64 bs = .error e) : e = .eof := by
  unfold readU64 at h
  cases h1 : readU32 bs with
  | error e1 => simp only [h1] at h; injection h with h; rw [← h]; exact (readU32_err h1).1
  | ok p =>
    obtain ⟨lo, r⟩ := p
    simp only [h1] at h
    cases h2 : readU32 r with
    | error e2 => simp only [h2] at h; injection h with h; exact h.symm
    | ok q => obtain ⟨hi, r'⟩ := q; simp only [h2] at h; cases h

theorem map_ok_inv' {α β} {x : Except CErr α} {g : α → β} {y : β} (h : x.map g = .ok y) : ∃ a, x = .ok a ∧ g a = y := by
  cases x with
  | error e => cases h
  | ok a => injection h with h; exact ⟨a, rfl, h⟩

/-! ### `readExactTag` -/

theorem readExactTag_inv {tag : Nat} {bs r : Bytes} (h : readExactTag tag bs = .ok r) :
    bs = u32le tag ++ r ∧ tag < 4294967296 := by
  unfold readExactTag at h
  cases h1 : readU32 bs with
  | error e => simp [h1] at h
  | ok p =>
    obtain ⟨t, r'⟩ := p
    simp only [h1] at h
    by_cases c : t = tag
    · rw [if_pos c] at h; injection h with h; subst h; subst c; exact readU32_inv h1
    · rw [if_neg c] at h; cases h

theorem readExactTag_ok {tag : Nat} (h : tag < 4294967296) (rest : Bytes) :
    readExactTag tag (u32le tag ++ rest) = .ok rest := by
  unfold readExactTag; rw [readU32_u32le_lt h]; simp

/-- a wrong tag is rejected (not EOF) -/
theorem readExactTag_wrong {tag t : Nat} (ht : t % 4294967296 ≠ tag) (rest : Bytes) :
    readExactTag tag (u32le t ++ rest) = .error .rej := by
  unfold readExactTag; rw [readU32_u32le]; simp [ht]

/-! ### primitives -/

/-- what the primitive reader accepts is exactly what the primitive writer emits for the decoded value -/
theorem readPrim_canonical {k : PrimK} (hk : k ≠ .bit) {bs rest : Bytes} {v : Val}
    (h : readPrim k bs = .ok (v, rest)) : ∃ pre, bs = pre ++ rest ∧ writePrim k v = .ok pre := by
  have h32 : ∀ {v}, (readU32 bs).map (fun (p : Nat × Bytes) => (Val.nat p.1, p.2)) = .ok (v, rest) →
      ∃ n, v = .nat n ∧ bs = u32le n ++ rest := by
    intro v h
    cases h1 : readU32 bs with
    | error e => rw [h1] at h; cases h
    | ok p =>
      obtain ⟨n, r⟩ := p
      rw [h1] at h; injection h with h; injection h with h2 h3
      subst h2; subst h3
      exact ⟨n, rfl, (readU32_inv h1).1⟩
  have h64 : ∀ {v}, (readU64 bs).map (fun (p : Nat × Bytes) => (Val.nat p.1, p.2)) = .ok (v, rest) →
      ∃ n, v = .nat n ∧ bs = u64le n ++ rest := by
    intro v h
    cases h1 : readU64 bs with
    | error e => rw [h1] at h; cases h
    | ok p =>
      obtain ⟨n, r⟩ := p
      rw [h1] at h; injection h with h; injection h with h2 h3
      subst h2; subst h3
      exact ⟨n, rfl, (readU64_inv h1).1⟩
  cases k with
  | u32 => obtain ⟨n, rfl, e⟩ := h32 h; exact ⟨_, e, rfl⟩
  | i32 => obtain ⟨n, rfl, e⟩ := h32 h; exact ⟨_, e, rfl⟩
  | f32 => obtain ⟨n, rfl, e⟩ := h32 h; exact ⟨_, e, rfl⟩
  | u64 => obtain ⟨n, rfl, e⟩ := h64 h; exact ⟨_, e, rfl⟩
  | i64 => obtain ⟨n, rfl, e⟩ := h64 h; exact ⟨_, e, rfl⟩
  | f64 => obtain ⟨n, rfl, e⟩ := h64 h; exact ⟨_, e, rfl⟩
  | bit => exact absurd rfl hk
  | byte =>
    match bs, h with
    | b :: r, h =>
      simp only [readPrim] at h
      injection h with h; injection h with h1 h2; subst h1; subst h2
      refine ⟨[b], rfl, ?_⟩
      simp only [writePrim]
      rw [byteOf_eq_of_mod (x := b) (by have := b.toNat_lt; omega)]
    | [], h => simp [readPrim] at h
  | str =>
    simp only [readPrim] at h
    cases h1 : stringRead bs with
    | error e => rw [h1] at h; cases h
    | ok p =>
      obtain ⟨s, r⟩ := p
      rw [h1] at h; injection h with h; injection h with h2 h3
      subst h2; subst h3
      obtain ⟨pre, hw, e⟩ := string_read_canonical _ _ _ h1
      exact ⟨pre, e, by simp only [writePrim, hw]⟩
  | bool f t =>
    simp only [readPrim] at h
    cases h1 : readU32 bs with
    | error e => rw [h1] at h; cases h
    | ok p =>
      obtain ⟨tag, r⟩ := p
      simp only [h1] at h
      obtain ⟨e, _⟩ := readU32_inv h1
      by_cases c1 : tag = f
      · rw [if_pos c1] at h; injection h with h; injection h with h2 h3
        subst h2; subst h3; subst c1
        exact ⟨_, e, by simp [writePrim]⟩
      · rw [if_neg c1] at h
        by_cases c2 : tag = t
        · rw [if_pos c2] at h; injection h with h; injection h with h2 h3
          subst h2; subst h3; subst c2
          exact ⟨_, e, by simp [writePrim]⟩
        · rw [if_neg c2] at h; cases h

end TLVerif.Codec
