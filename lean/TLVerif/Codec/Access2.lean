import TLVerif.Codec.Access
import TLVerif.Codec.TL2
/-!
Accessors of TL2-origin structs (C43): there is no TL1 field mask, presence of an optional field (`x?:T`) or of a `bit`
field is the hidden `tl2mask` bit alone.  The state is the same `AObj` (so the theorems of `Props/C43.lean` apply);
`ofRead2` is the object `ReadTL2` leaves, `toVal2` the value the TL2 / JSON writers see: a field is present iff its
presence bit is set — `Set<bit>(false)` clears it — and a present field without a stored value holds the zero value.
-/
namespace TLVerif.Codec

/-- the object as `ReadTL2` leaves it: presence bit = "the field was read" -/
def AObj.ofRead2 (vals : List (Option Val)) : AObj :=
  { vals := vals, tl2 := vals.map (·.isSome), params := [] }

def toVal2Fields (z : Nat → Val) : List Field → List (Option Val) → List Bool → List (Option Val)
  | f :: fs, v :: vs, b :: bs =>
    (if f.tl2bit.isSome then
      (if b then (if f.isBit then some (z f.ty) else some (match v with | some x => x | none => z f.ty)) else none)
     else v) :: toVal2Fields z fs vs bs
  | _, vs, _ => vs

/-- what the writers that consult `tl2mask` (TL2, JSON) see -/
def AObj.toVal2 (o : AObj) (d : Desc) (fields : List Field) : Val :=
  .struct (toVal2Fields (zeroVal d (d.insts.size + 1)) fields o.vals o.tl2)

/-- one step of an accessor history -/
inductive AccStep where
  | setBool (i : Nat) (b : Bool)
  | setVal (i : Nat) (v : Val)
  | clear (i : Nat)

def AObj.step (o : AObj) (fields : List Field) : AccStep → AObj
  | .setBool i b => o.set fields i (.struct []) b
  | .setVal i v => o.set fields i v true
  | .clear i => o.clear fields i

/-- the history, with the `IsSet` reports of the listed fields after every step -/
def runSteps (fields : List Field) (reps : List Nat) : AObj → List AccStep → AObj × List (List (Nat × Bool))
  | o, [] => (o, [])
  | o, s :: ss =>
    let o' := o.step fields s
    let r := runSteps fields reps o' ss
    (r.1, reps.map (fun j => (j, o'.isSet fields j)) :: r.2)

end TLVerif.Codec
