import TLVerif.Codec.TL1
import TLVerif.Codec.TL1Wf
import TLVerif.Generated.RandFacts
/-!
Random filling of generated objects (C18): a model of `basictl.RandGenerator` (pkg/basictl/basictl.go) over an
explicit stream of `basictl.Rand` outputs, and of the generated `FillRandom` methods
(`internal/puregen/gengo/qt_struct.qtpl` randomFields, `qt_brackets.qtpl`, `qt_dict.qtpl`, `qt_union.qtpl`,
`qt_maybe.qtpl`, `type_rw_*.go` typeRandomCode) driven by the descriptor.

The stream: the harness `Rand` produces one 64-bit word per call, whatever the method
(`Uint32` = low 32 bits, `Int31`/`Int63` = low 31/63 bits, `NormFloat64` = `(w % 2001 − 1000) / 8`, a value that is
exact in `float32` and `float64`, so float bits are computed with integer arithmetic only).  `RG.src` is that word
sequence, `RG.pos` the number of words consumed; theorems quantify over every `src`.

Two inputs besides the kernel descriptor, exported per run by `go/hginfo` (overlay into `gengo`):
`FieldX.recursive` — the generator's private cycle-breaking decision (pointer field; the only struct-field sites that
call `IncreaseDepth`/`DecreaseDepth`), and the kernel's `GetNatFieldUsage` (`#` fields used as field mask / tuple size,
which selects `RandomFieldMask` / `RandomSize`).
-/
namespace TLVerif.Codec
open TLVerif.Prim TLVerif.Facts

/-- per-field decisions of the Go generator that `FillRandom` depends on -/
structure FieldX where
  recursive : Bool := false
  usedAsMask : Bool := false
  usedAsSize : Bool := false
  usedBits : Nat := 0          -- bit set: which bits of this `#` field some field is conditional on
  deriving Repr, Inhabited

/-- instance index → field index → decisions -/
abbrev GenInfo := Nat → Nat → FieldX

def noInfo : Nat → FieldX := fun _ => {}

/-- the field's value is drawn directly (`RandomFieldMask` / `RandomSize`), its type is not consulted -/
def FieldX.drawn (x : FieldX) : Bool := x.usedAsMask || x.usedAsSize

/-- an unwrap struct has no `FillRandom` call of its own (typeRandomCode goes straight to its only field) -/
def structGx (gi : GenInfo) (ty : Nat) (s : StructD) : Nat → FieldX := if s.isUnwrap then noInfo else gi ty

/-! ### `basictl.RandGenerator` -/

structure RG where
  maxDepth : Nat
  cur : Nat
  src : Nat → Nat      -- the i-th 64-bit word the `Rand` returns
  pos : Nat            -- words consumed so far

def RG.raw (rg : RG) : Nat × RG := (rg.src rg.pos % 18446744073709551616, { rg with pos := rg.pos + 1 })
/-- `Rand.Uint32` -/
def RG.uint32 (rg : RG) : Nat × RG := (rg.raw.1 % 4294967296, rg.raw.2)
/-- `Rand.Int31` -/
def RG.int31 (rg : RG) : Nat × RG := (rg.raw.1 % 2147483648, rg.raw.2)
/-- `Rand.Int63` -/
def RG.int63 (rg : RG) : Nat × RG := (rg.raw.1 % 9223372036854775808, rg.raw.2)
/-- `Rand.NormFloat64`, as the number `k` with value `(k − 1000) / 8` -/
def RG.normK (rg : RG) : Nat × RG := (rg.raw.1 % 2001, rg.raw.2)

/-- `NewRandGenerator`: the first `Uint32` picks `maxDepth ∈ [minDepth, maxDepth]` -/
def newRG (src : Nat → Nat) : RG :=
  { maxDepth := (src 0 % 18446744073709551616 % 4294967296) % (Rand.maxDepth - Rand.minDepth + 1) + Rand.minDepth,
    cur := 0, src := src, pos := 1 }

/-- `IncreaseDepth`: unconditional (it used to saturate at `maxDepth`, which made the paired `DecreaseDepth` lower the
depth: repaired in the repository, former known finding C18-leak) -/
def RG.inc (rg : RG) : RG := { rg with cur := rg.cur + 1 }
/-- `DecreaseDepth` -/
def RG.dec (rg : RG) : RG := if rg.cur ≠ 0 then { rg with cur := rg.cur - 1 } else rg

/-- number of low bits kept by `RandomUint`, from the category (low `probabilityBits` bits) of the first word -/
def bitCount (source : Nat) : Nat :=
  let cat := source % 2 ^ Rand.probabilityBits
  let hi := source / 2 ^ Rand.probabilityBits
  if cat < Rand.w0 then 0
  else if cat < Rand.w1to2 then 1 + hi % 2
  else if cat < Rand.w3to4 then 3 + hi % 2
  else if cat < Rand.w5to8 then 5 + hi % 4
  else if cat < Rand.w9to16 then 9 + hi % 8
  else if cat < Rand.w17to24 then 17 + hi % 8
  else if cat < Rand.w25to32 then 25 + hi % 8
  else 0

/-- `basictl.RandomUint`: 0 without touching the stream once the depth limit is reached -/
def randomUint (rg : RG) : Nat × RG :=
  if rg.cur ≥ rg.maxDepth then (0, rg) else
  ((rg.uint32.2.uint32.1) % 2 ^ bitCount rg.uint32.1, rg.uint32.2.uint32.2)

/-- `rg.LimitValue` -/
def limitVal (v : Nat) : Nat := v &&& (Rand.limitValue - 1)

/-- `basictl.RandomSize` (default `SizeHandler` = identity) -/
def randomSize (rg : RG) : Nat × RG := (limitVal (randomUint rg).1, (randomUint rg).2)

/-- the loop of `RandomFieldMask`: bit `i` of `bitMask` receives the next unused bit of `source` -/
def scatterBits (source bitMask : Nat) : Nat → Nat → Nat → Nat
  | 0, _, _ => 0
  | n + 1, i, si =>
    if testBit bitMask i then
      (if testBit source si then 2 ^ i else 0) + scatterBits source bitMask n (i + 1) (si + 1)
    else scatterBits source bitMask n (i + 1) si

/-- `basictl.RandomFieldMask` (default `FieldMaskHandler` = identity); the result is a `uint32` -/
def randomFieldMask (rg : RG) (bitMask : Nat) : Nat × RG :=
  (scatterBits (randomUint rg).1 bitMask 32 0 0 % 4294967296, (randomUint rg).2)

def lettersB : List UInt8 := Rand.letters.toList.map (fun c => UInt8.ofNat c.toNat)

def letterAt (i : Nat) : UInt8 :=
  match lettersB[i % lettersB.length]? with
  | some b => b
  | none => 0

def randomChars : Nat → RG → Bytes × RG
  | 0, rg => ([], rg)
  | n + 1, rg =>
    let r := randomChars n rg.uint32.2
    (letterAt rg.uint32.1 :: r.1, r.2)

/-- `basictl.RandomString` -/
def randomString (rg : RG) : Bytes × RG := randomChars (rg.uint32.1 % Rand.randomNatConstraint) rg.uint32.2

/-- IEEE-754 binary64 bits of `(k − 1000) / 8` for `k ≤ 2000` (exact: at most 10 significant bits) -/
def f64OfEighths (k : Nat) : Nat :=
  if k = 1000 then 0 else
  let n := if k < 1000 then 1000 - k else k - 1000
  let p := Nat.log2 n
  ((if k < 1000 then 9223372036854775808 else 0) + (p + 1020) * 4503599627370496 + (n * 2 ^ (52 - p) - 4503599627370496))
    % 18446744073709551616

/-- binary32 bits of the same value (`float32(x)` is exact as well) -/
def f32OfEighths (k : Nat) : Nat :=
  if k = 1000 then 0 else
  let n := if k < 1000 then 1000 - k else k - 1000
  let p := Nat.log2 n
  ((if k < 1000 then 2147483648 else 0) + (p + 124) * 8388608 + (n * 2 ^ (23 - p) - 8388608)) % 4294967296

/-- `typeRandomCode` of primitives and of `Bool` -/
def fillPrim (k : PrimK) (rg : RG) : Val × RG :=
  match k with
  | .u32 => (.nat (randomUint rg).1, (randomUint rg).2)
  | .i32 => (.nat rg.int31.1, rg.int31.2)
  | .i64 => (.nat rg.int63.1, rg.int63.2)
  | .u64 => (.nat rg.int63.1, rg.int63.2)
  | .f32 => (.nat (f32OfEighths rg.normK.1), rg.normK.2)
  | .f64 => (.nat (f64OfEighths rg.normK.1), rg.normK.2)
  | .byte => (.nat (rg.uint32.1 % 256), rg.uint32.2)
  | .str => (.str (randomString rg).1, (randomString rg).2)
  | .bool _ _ => (.bool ((randomUint rg).1 % 2 == 1), (randomUint rg).2)
  | .bit => (.bool false, rg)

/-! ### generated `FillRandom` -/

abbrev FRes := Except CErr (Val × RG)
abbrev Fl := Nat → List Nat → RG → FRes        -- type index, nat arguments, generator state

/-- the value of one present field: `#` fields that other fields depend on are drawn as masks / sizes -/
def fillValue (fl : Fl) (x : FieldX) (f : Field) (na : List Nat) (rg : RG) : FRes :=
  if x.usedAsMask then
    .ok (.nat (if x.usedAsSize then limitVal (randomFieldMask rg x.usedBits).1 else (randomFieldMask rg x.usedBits).1),
         (randomFieldMask rg x.usedBits).2)
  else if x.usedAsSize then .ok (.nat (randomSize rg).1, (randomSize rg).2)
  else fl f.ty na rg

/-- `randomFields` of a TL1-origin struct: fields in order; a field whose mask bit is clear is reset (absent);
`true`-typed conditional fields have no storage; recursive (pointer) fields are wrapped in
`IncreaseDepth` / `DecreaseDepth` -/
def fillFieldsWith (fl : Fl) (gx : Nat → FieldX) (params : List Nat) :
    List Field → Nat → List (Option Val) → RG → Except CErr (List (Option Val) × RG)
  | [], _, acc, rg => .ok (acc, rg)
  | f :: fs, i, acc, rg =>
    match fieldPresent f acc params, natArgVals acc params f.natArgs with
    | some true, some na =>
      if f.isBit then fillFieldsWith fl gx params fs (i + 1) (acc ++ [some (.struct [])]) rg else
      match fillValue fl (gx i) f na (if (gx i).recursive then rg.inc else rg) with
      | .error e => .error e
      | .ok (v, rg2) =>
        fillFieldsWith fl gx params fs (i + 1) (acc ++ [some v]) (if (gx i).recursive then rg2.dec else rg2)
    | some false, some _ => fillFieldsWith fl gx params fs (i + 1) (acc ++ [none]) rg
    | _, _ => .error .desc

def fillElemsWith (fl : Fl) (f : Field) (na : List Nat) : Nat → RG → Except CErr (List Val × RG)
  | 0, rg => .ok ([], rg)
  | n + 1, rg =>
    match fl f.ty na rg with
    | .error e => .error e
    | .ok (v, rg') =>
      match fillElemsWith fl f na n rg' with
      | .error e => .error e
      | .ok (vs, rg'') => .ok (v :: vs, rg'')

/-- `FillRandom` of the instance `ty`. TL2-origin structs (`RandomInt & 1` per optional field) are not modelled:
they have no TL1 form to compare, the answer is `.error .shape`. -/
def fillTL1 (d : Desc) (gi : GenInfo) : Nat → Fl
  | 0 => fun _ _ _ => .error .fuel
  | fuel + 1 => fun ty params rg =>
    match d.get? ty with
    | none => .error .desc
    | some (.prim k) => .ok (fillPrim k rg)
    | some (.struct s) =>
      if s.originTL2 then .error .shape else
      match fillFieldsWith (fillTL1 d gi fuel) (structGx gi ty s) params s.fields 0 [] rg with
      | .error e => .error e
      | .ok (fs, rg') => .ok (.struct fs, rg')
    | some (.union u) =>
      -- also `Maybe`: `RandomUint & 1 == 1` selects the second variant
      match u.variants[(randomUint rg).1 % u.variants.length]?, natArgVals [] params u.elemNatArgs with
      | some (vi, _), some na =>
        match fillTL1 d gi fuel vi na (randomUint rg).2 with
        | .error e => .error e
        | .ok (v, rg') => .ok (.union ((randomUint rg).1 % u.variants.length) v, rg')
      | _, _ => .error .desc
    | some (.array a) =>
      match natArgVals [] params a.elem.natArgs with
      | none => .error .desc
      | some na =>
        if a.isTuple then
          match (if a.dynamic then params[0]? else some a.count) with
          | none => .error .desc
          | some n =>
            match fillElemsWith (fillTL1 d gi fuel) a.elem na n rg.inc with
            | .error e => .error e
            | .ok (vs, rg') => .ok (.arr vs, rg'.dec)
        else
          match fillElemsWith (fillTL1 d gi fuel) a.elem na (randomSize rg.inc).1 (randomSize rg.inc).2 with
          | .error e => .error e
          | .ok (vs, rg') => .ok (.arr vs, rg'.dec)
    | some (.dict a) =>
      match natArgVals [] params a.elem.natArgs, dictKeyPrim d a with
      | some na, some k =>
        match fillElemsWith (fillTL1 d gi fuel) a.elem na (randomSize rg.inc).1 (randomSize rg.inc).2 with
        | .error e => .error e
        | .ok (vs, rg') => .ok (.arr (dictNormalize k vs), rg'.dec)     -- `(*m)[key] = value`
      | _, _ => .error .desc

/-- `obj.FillRandom(basictl.NewRandGenerator(r))` for a factory object (no nat parameters) -/
def fillRandom (d : Desc) (gi : GenInfo) (fuel ty : Nat) (src : Nat → Nat) : FRes :=
  fillTL1 d gi fuel ty [] (newRG src)

/-- recursion budget used by the driver: every terminating run of the corpus nests far less -/
def fillFuel (d : Desc) : Nat := (Rand.maxDepth + 3) * (d.insts.size + 1)

/-! ### decidable guards of the termination theorem (`Props/C18.lean`), evaluated per factory item (T3)

`fillRanked` is a rank certificate for the references that pass no `IncreaseDepth` site (plain struct fields, union
variants): it fails on recursion through a union, whose `FillRandom` never increases the depth.  References through an
`IncreaseDepth` site (array elements, recursive fields) lower `maxDepth − curDepth` instead — until the limit is
reached; from there on all random sizes, masks and union indices are 0 and what is still followed (unconditional
fields, first variants, elements of tuples) must be a finite recursion of its own: `satFinite`, required by `satOk` of
every body that can be entered at the limit (elements of tuples, the type of a recursive field).  It fails for
non-productive types such as `loopA x:loopA` (lead L8). -/

/-- conditional on a bit of an earlier `#` field of this struct: at the depth limit that field is 0, the field absent -/
def maskedByLocalU32 (d : Desc) (all : List Field) (f : Field) : Bool :=
  match f.mask with
  | some (.field j, _) =>
    match all[j]? with
    | some g => !g.isBit && (match d.get? g.ty with | some (.prim .u32) => true | _ => false)
    | none => false
  | _ => false

def satFields (d : Desc) (q : Nat → Bool) (gx : Nat → FieldX) (all : List Field) : List Field → Nat → Bool
  | [], _ => true
  | f :: fs, i =>
    (f.isBit || maskedByLocalU32 d all f || (gx i).drawn || q f.ty) &&
    satFields d q gx all fs (i + 1)

/-- `FillRandom` of `ty`, started at (or beyond) the depth limit, is a finite recursion -/
def satFinite (d : Desc) (gi : GenInfo) : Nat → Nat → Bool
  | 0, _ => false
  | n + 1, ty =>
    match d.get? ty with
    | none => true
    | some (.prim _) => true
    | some (.struct s) => s.originTL2 || satFields d (satFinite d gi n) (structGx gi ty s) s.fields s.fields 0
    | some (.union u) => (match u.variants with | (vi, _) :: _ => satFinite d gi n vi | [] => true)
    | some (.array a) => !a.isTuple || satFinite d gi n a.elem.ty      -- a vector drawn at the limit is empty
    | some (.dict _) => true

def satOkFields (q : Nat → Bool) (gx : Nat → FieldX) : List Field → Nat → Bool
  | [], _ => true
  | f :: fs, i => (f.isBit || !(gx i).recursive || (gx i).drawn || q f.ty) && satOkFields q gx fs (i + 1)

def Inst.satOk (d : Desc) (gi : GenInfo) (ty : Nat) : Inst → Bool
  | .struct s => satOkFields (satFinite d gi (d.insts.size + 1)) (structGx gi ty s) s.fields 0
  | .array a => !a.isTuple || satFinite d gi (d.insts.size + 1) a.elem.ty
  | _ => true

def fieldsRanked (rk : List Nat) (r : Nat) (gx : Nat → FieldX) : List Field → Nat → Bool
  | [], _ => true
  | f :: fs, i =>
    (f.isBit || (gx i).recursive || (gx i).drawn || decide (rkAt rk f.ty < r)) && fieldsRanked rk r gx fs (i + 1)

def Inst.fillRanked (gi : GenInfo) (rk : List Nat) (ty : Nat) : Inst → Bool
  | .struct s => fieldsRanked rk (rkAt rk ty) (structGx gi ty s) s.fields 0
  | .union u => u.variants.all (fun p => decide (rkAt rk p.1 < rkAt rk ty))
  | _ => true

/-- `p ty inst` for every instance of `S` -/
def Desc.allOnI (d : Desc) (S : Nat → Bool) (p : Nat → Inst → Bool) : Bool :=
  (List.range d.insts.size).all fun i =>
    !S i || match d.get? i with | some inst => p i inst | none => true

/-- the guard of `fill_terminates`: ranks bounded by the number of instances, rank certificate, no saturating increase -/
def Desc.fillGuard (d : Desc) (gi : GenInfo) (rk : List Nat) (S : Nat → Bool) : Bool :=
  d.allOnI S (fun i _ => decide (rkAt rk i ≤ d.insts.size)) && d.allOnI S (Inst.fillRanked gi rk) && d.allOnI S (Inst.satOk d gi)

def fieldsRankStep (rk : List Nat) (gx : Nat → FieldX) : List Field → Nat → Nat → Nat
  | [], _, m => m
  | f :: fs, i, m =>
    fieldsRankStep rk gx fs (i + 1)
      (if f.isBit || (gx i).recursive || (gx i).drawn then m else max m (rkAt rk f.ty + 1))

def Desc.fillRankStep (d : Desc) (gi : GenInfo) (rk : List Nat) : List Nat :=
  (List.range d.insts.size).map fun i =>
    match d.get? i with
    | some (.struct s) => fieldsRankStep rk (structGx gi i s) s.fields 0 0
    | some (.union u) => u.variants.foldl (fun m p => max m (rkAt rk p.1 + 1)) 0
    | _ => 0

/-- candidate rank certificate (unverified helper: the theorem takes any `rk` passing `fillGuard`) -/
def Desc.computeFillRanks (d : Desc) (gi : GenInfo) : List Nat :=
  (List.range (d.insts.size + 1)).foldl (fun rk _ => d.fillRankStep gi rk) (List.replicate d.insts.size 0)

/-- splitmix64: the word sequence of the harness `Rand` for a seed -/
def splitmix (seed i : Nat) : Nat :=
  let s := (seed + (i + 1) * 0x9E3779B97F4A7C15) % 18446744073709551616
  let z := ((s ^^^ (s >>> 30)) * 0xBF58476D1CE4E5B9) % 18446744073709551616
  let z := ((z ^^^ (z >>> 27)) * 0x94D049BB133111EB) % 18446744073709551616
  z ^^^ (z >>> 31)

end TLVerif.Codec
