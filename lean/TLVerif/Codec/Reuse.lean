import TLVerif.Codec.TL1
import TLVerif.Codec.Zero
/-!
Memory-level model of object REUSE in the generated Go readers (C09).

`Val` (Val.lean) is what encoders can observe.  `Mem` keeps what the Go object keeps and `Val` forgets:

* a struct has storage for EVERY field, also for those whose mask bit is clear (`qt_struct.qtpl` `readFields`:
  the `else` branch of a mask test runs `TypeResettingCode` on the old storage, it does not drop it);
* a union object has its `index` AND storage for every variant (`qt_union.qtpl` `ReadTL1Boxed`: `item.index = i`, then
  the variant is read in place into `item.value<V>`; the other variants stay as they were);
* a slice has `len` elements plus stale elements up to `cap` that become visible again when a later read re-slices
  to a larger length (`qt_brackets.qtpl`: `if cap(*vec) < l { make } else { (*vec)[:l] }`, then element-wise in-place read);
* `Maybe` is the two-variant union `{Ok=false | Ok=true, Value}`: the flag is the index, `Value` is the storage of variant 1
  (`qt_maybe.qtpl`: `Reset` only clears `Ok`);
* map dictionaries (`qt_dict.qtpl`) are cleared and refilled, every element being read into a fresh `var elem`;
  map values are not addressable in Go, so the map keeps plain values (`List Val`, sorted by key as the writer emits them);
* `.nil` is storage that was never written: a nil pointer (recursive fields/variants, `EnsureRecursive`:
  `if p == nil { p = new(T) }`) or zeroed inline memory.  The readers materialise it on demand, wherever it occurs, so
  the model does not need to know at which fields gengo placed the pointers (it allows `nil` everywhere).

The only thing `Mem` has that Go has not is the ghost flag of a struct field: the outcome of the last mask test (read) or
`false`/const-mask (Reset) for that field.  Go recomputes it in the writer from the same `#` values; the flag lets the
observation function `abs` be a plain structural function.  The `#` values themselves are read from STORAGE
(`natArgValM`), exactly like `item.F1&(1<<0)` does, so a masked-out `#` field that is not reset leaks into later mask tests.

Readers return the state left behind also on error (the object is dirty: the next step of a history starts from it).
-/
namespace TLVerif.Codec.Reuse
open TLVerif.Prim TLVerif.Codec

inductive Mem where
  | nil
  | nat (n : Nat)
  | str (b : Bytes)
  | bool (b : Bool)
  | struct (fs : List (Bool × Mem))          -- ghost presence flag, storage
  | union (idx : Nat) (vs : List Mem)        -- storage of every variant
  | vec (es stale : List Mem)                -- `es` = [0,len), `stale` = [len,cap) of the backing array (fixed arrays: no stale part)
  | map (es : List Val)
  deriving Repr, Inhabited

/-! ### observation: what the TL1 writer (and every other encoder) can see -/

mutual
  def abs : Mem → Val
    | .nil => .arr []                         -- never visible after a read / Reset / creation (see `fresh_abs`, `reset_abs`)
    | .nat n => .nat n
    | .str b => .str b
    | .bool b => .bool b
    | .struct fs => .struct (absFields fs)
    | .union i vs => .union i (absNth vs i)
    | .vec es _ => .arr (absList es)
    | .map es => .arr es
  def absFields : List (Bool × Mem) → List (Option Val)
    | [] => []
    | (p, m) :: r => (if p then some (abs m) else none) :: absFields r
  def absList : List Mem → List Val
    | [] => []
    | m :: r => abs m :: absList r
  def absNth : List Mem → Nat → Val
    | [], _ => .arr []
    | m :: _, 0 => abs m
    | _ :: r, i + 1 => absNth r i
end

/-! ### accessors that tolerate ill-shaped memory (they make the readers total; see `Mem.shaped`) -/

def Mem.isNil : Mem → Bool
  | .nil => true
  | _ => false

def Mem.fields : Mem → List (Bool × Mem)
  | .struct fs => fs
  | _ => []

def Mem.variants : Mem → List Mem
  | .union _ vs => vs
  | _ => []

def Mem.elems : Mem → List Mem
  | .vec es _ => es
  | _ => []

def Mem.stale : Mem → List Mem
  | .vec _ st => st
  | _ => []

/-- `l[i] = m`, growing `l` with `.nil` when it is too short -/
def setPad : List Mem → Nat → Mem → List Mem
  | [], 0, m => [m]
  | _ :: r, 0, m => m :: r
  | [], i + 1, m => .nil :: setPad [] i m
  | x :: r, i + 1, m => x :: setPad r i m

/-- first `n` cells of `l`, missing ones `.nil` -/
def padTake : Nat → List Mem → List Mem
  | 0, _ => []
  | n + 1, [] => .nil :: padTake n []
  | n + 1, x :: r => x :: padTake n r

/-- `if cap(*vec) < n { *vec = make([]T, n) } else { *vec = (*vec)[:n] }`: the cells to read into, and the stale tail -/
def reslice (old : Mem) (n : Nat) : List Mem × List Mem :=
  let all := old.elems ++ old.stale
  if all.length < n then (List.replicate n .nil, []) else (all.take n, all.drop n)

def Mem.ofPrim : Val → Mem
  | .nat n => .nat n
  | .str b => .str b
  | .bool b => .bool b
  | _ => .nil

def zeroPrimM : PrimK → Mem
  | .str => .str []
  | .bool _ _ => .bool false
  | .bit => .bool false
  | _ => .nat 0

/-! ### creation and Reset -/

/-- ghost flag of a field of a freshly created / `Reset` object (the rule of `Z.zeroFieldsWith`) -/
def visibleAtZero (f : Field) : Bool :=
  let constPresent := match f.mask with | some (.num n, bit) => testBit n bit | _ => false
  !((f.mask.isSome || f.tl2bit.isSome) && !constPresent)

def freshFieldsWith (fr : Nat → Mem) : List Field → List (Bool × Mem)
  | [] => []
  | f :: fs => (if visibleAtZero f then (true, fr f.ty) else (false, .nil)) :: freshFieldsWith fr fs

/-- `new(T)` / `var x T`: the visible part is allocated, everything hidden is `.nil` (zeroed memory) -/
def freshMem (d : Desc) : Nat → Nat → Mem
  | 0, _ => .nil
  | fuel + 1, ty =>
    match d.get? ty with
    | none => .nil
    | some (.prim k) => zeroPrimM k
    | some (.struct s) => .struct (freshFieldsWith (freshMem d fuel) s.fields)
    | some (.union u) =>
      match u.variants with
      | (vi, _) :: rest => .union 0 (freshMem d fuel vi :: rest.map (fun _ => Mem.nil))
      | [] => .nil
    | some (.array a) =>
      if a.isTuple && !a.dynamic then .vec (List.replicate a.count (freshMem d fuel a.elem.ty)) []
      else .vec [] []
    | some (.dict _) => .map []

/-- `Reset()` of a struct: every field's `TypeResettingCode` on its old storage -/
def resetFieldsWith (rs : Nat → Mem → Mem) : List Field → List (Bool × Mem) → List (Bool × Mem)
  | [], _ => []
  | f :: fs, old => (visibleAtZero f, rs f.ty ((old.head?.map (·.2)).getD .nil)) :: resetFieldsWith rs fs old.tail

def resetElems (rs : Mem → Mem) : List Mem → List Mem
  | [] => []
  | m :: r => rs m :: resetElems rs r

/-- `TypeResettingCode` (type_rw_*.go): primitives are zeroed; a struct resets every field; a union sets `index = 0` and
resets variant 0 only (`ResetTo<V0>`; `Maybe`: `Ok = false`, `Value` keeps its garbage); a slice is cut to `[:0]` (all
elements become stale); a fixed array resets its elements in place; a map is cleared.  Never-written storage (`.nil`)
is zeroed memory: its Reset is the fresh object. -/
def resetMem (d : Desc) : Nat → Nat → Mem → Mem
  | 0, _, _ => .nil
  | fuel + 1, ty, old =>
    if old.isNil then freshMem d (fuel + 1) ty else
    match d.get? ty with
    | none => .nil
    | some (.prim k) => zeroPrimM k
    | some (.struct s) => .struct (resetFieldsWith (resetMem d fuel) s.fields old.fields)
    | some (.union u) =>
      match u.variants with
      | (vi, _) :: _ => .union 0 (setPad old.variants 0 (resetMem d fuel vi (old.variants.head?.getD .nil)))
      | [] => .nil
    | some (.array a) =>
      if a.isTuple && !a.dynamic then .vec (resetElems (resetMem d fuel a.elem.ty) (padTake a.count old.elems)) old.stale
      else .vec [] (old.elems ++ old.stale)
    | some (.dict _) => .map []

/-! ### readers into old storage -/

abbrev MRes := Mem × Except CErr Bytes
abbrev RdM := Nat → Bool → List Nat → Mem → Bytes → MRes     -- type, bare, nat args, OLD storage, input
abbrev RsM := Nat → Mem → Mem

/-- `item.F & (1<<bit)` / nat argument `item.F`: reads the STORAGE of the `#` field, whatever its mask said.
(The middle clause only fires for storage that is not a number, i.e. for malformed descriptors, where the
value-level model answers 0 as well.) -/
def natArgValM (fs : List (Bool × Mem)) (params : List Nat) : NatArg → Option Nat
  | .num n => some n
  | .param i => params[i]?
  | .field i =>
    match fs[i]? with
    | some (_, .nat n) => some n
    | some (false, _) => some 0
    | _ => none

def natArgValsM (fs : List (Bool × Mem)) (params : List Nat) : List NatArg → Option (List Nat)
  | [] => some []
  | a :: as => do
    let x ← natArgValM fs params a
    let xs ← natArgValsM fs params as
    pure (x :: xs)

def fieldPresentM (f : Field) (done : List (Bool × Mem)) (params : List Nat) : Option Bool :=
  match f.mask with
  | none => some true
  | some (a, bit) => (natArgValM done params a).map (fun m => testBit m bit)

/-- `readFields`: `done` = the fields already processed (new content), `todo` = old storage of the remaining ones.
mask set: read in place into the old storage; mask clear: `else { Reset }` of the old storage;
error in the middle: the fields after the failing one keep their old content. -/
def readFieldsInto (rd : RdM) (rs : RsM) (params : List Nat) :
    List Field → List (Bool × Mem) → List (Bool × Mem) → Bytes → List (Bool × Mem) × Except CErr Bytes
  | [], done, _, bs => (done, .ok bs)
  | f :: fs, done, todo, bs =>
    let o := (todo.head?.map (·.2)).getD .nil
    match fieldPresentM f done params, natArgValsM done params f.natArgs with
    | some true, some na =>
      match rd f.ty f.bare na o bs with
      | (m, .error e) => (done ++ (true, m) :: todo.tail, .error e)
      | (m, .ok bs') => readFieldsInto rd rs params fs (done ++ [(true, m)]) todo.tail bs'
    | some false, some _ => readFieldsInto rd rs params fs (done ++ [(false, rs f.ty o)]) todo.tail bs
    | _, _ => (done ++ todo, .error .desc)

/-- `for i := range *vec { read (*vec)[i] }` over the cells `todo` -/
def readElemsInto (rd : RdM) (f : Field) (na : List Nat) : List Mem → Bytes → List Mem × Except CErr Bytes
  | [], bs => ([], .ok bs)
  | o :: os, bs =>
    match rd f.ty f.bare na o bs with
    | (m, .error e) => (m :: os, .error e)
    | (m, .ok bs') =>
      match readElemsInto rd f na os bs' with
      | (ms, r) => (m :: ms, r)

/-- map dictionary: `for i < l { var elem T; read elem; data[elem.Key] = elem.Value }` -/
def readDictInto (rd : RdM) (f : Field) (na : List Nat) (k : PrimK) : Nat → List Val → Bytes → List Val × Except CErr Bytes
  | 0, acc, bs => (acc, .ok bs)
  | n + 1, acc, bs =>
    match rd f.ty f.bare na .nil bs with
    | (_, .error e) => (acc, .error e)
    | (m, .ok bs') => readDictInto rd f na k n (dictInsert k (abs m) acc) bs'

def readInto (cfg : Cfg) (d : Desc) : Nat → RdM
  | 0 => fun _ _ _ old _ => (old, .error .fuel)
  | fuel + 1 => fun ty bare params old bs =>
    match d.get? ty with
    | none => (old, .error .desc)
    | some (.prim k) =>
      match readPrim k bs with
      | .error e => (old, .error e)
      | .ok (v, r) => (Mem.ofPrim v, .ok r)
    | some (.struct s) =>
      match (if bare then .ok bs else readExactTag s.tag bs) with
      | .error e => (old, .error e)
      | .ok bs1 =>
        match readFieldsInto (readInto cfg d fuel) (resetMem d fuel) params s.fields [] old.fields bs1 with
        | (fs, r) => (.struct fs, r)
    | some (.union u) =>
      match readU32 bs with
      | .error e => (old, .error e)
      | .ok (tag, bs1) =>
        match findVariant d tag u.variants 0, natArgVals [] params u.elemNatArgs with
        | some (i, vi), some na =>
          -- `item.index = i` is assigned before the variant is read: an error leaves the new index behind
          match readInto cfg d fuel vi true na (old.variants[i]?.getD .nil) bs1 with
          | (m, r) => (.union i (setPad old.variants i m), r)
        | none, _ => (old, .error .rej)
        | _, none => (old, .error .desc)
    | some (.array a) =>
      match natArgVals [] params a.elem.natArgs with
      | none => (old, .error .desc)
      | some na =>
        if a.isTuple then
          match (if a.dynamic then params[0]? else some a.count) with
          | none => (old, .error .desc)
          | some n =>
            if a.dynamic && !sanityOk cfg bs n then (old, .error .eof) else
            let cells := if a.dynamic then reslice old n else (padTake n old.elems, old.stale)
            match readElemsInto (readInto cfg d fuel) a.elem na cells.1 bs with
            | (ms, r) => (.vec ms cells.2, r)
        else
          match readU32 bs with
          | .error e => (old, .error e)
          | .ok (n, bs1) =>
            if !sanityOk cfg bs1 n then (old, .error .eof) else
            let cells := reslice old n
            match readElemsInto (readInto cfg d fuel) a.elem na cells.1 bs1 with
            | (ms, r) => (.vec ms cells.2, r)
    | some (.dict a) =>
      match natArgVals [] params a.elem.natArgs with
      | none => (old, .error .desc)
      | some na =>
        match readU32 bs with
        | .error e => (old, .error e)
        | .ok (n, bs1) =>
          if !sanityOk cfg bs1 n then (old, .error .eof) else
          match dictKeyPrim d a with
          | none => (old, .error .desc)
          | some k =>
            -- `clear(*m)` before the loop: the refill starts from the empty map
            match readDictInto (readInto cfg d fuel) a.elem na k n [] bs1 with
            | (es, r) => (.map es, r)

/-- observation of a read: the value seen through `abs` and the unread rest, or the error -/
def obs : MRes → RRes
  | (m, .ok bs) => .ok (abs m, bs)
  | (_, .error e) => .error e

/-- store a value (decoded by another encoding's reader) into memory: no stale storage survives -/
def Mem.ofVal : Val → Mem
  | .nat n => .nat n
  | .str b => .str b
  | .bool b => .bool b
  | .struct fs => .struct (ofFields fs)
  | .union i v => .union i (setPad [] i (Mem.ofVal v))
  | .arr es => .vec (ofList es) []
where
  ofFields : List (Option Val) → List (Bool × Mem)
    | [] => []
    | none :: r => (false, .nil) :: ofFields r
    | some v :: r => (true, Mem.ofVal v) :: ofFields r
  ofList : List Val → List Mem
    | [] => []
    | v :: r => Mem.ofVal v :: ofList r

end TLVerif.Codec.Reuse
