import TLVerif.Codec.TL1Canon
import TLVerif.Codec.BytesVariant
/-!
Canonicity of the `[]byte` variant's TL1 reader (`readTL1M .slice` with every dictionary a slice): the proof is the one of
`readTL1_canonR` (TL1Canon.lean) with the dictionary case replaced — a slice keeps wire order and duplicates, so the shared
writer reproduces the consumed bytes exactly, where the map-backed reader only re-encodes to something not longer.
-/
namespace TLVerif.Codec
open TLVerif.Prim

/-- the slice-backed reader (every dictionary a slice) accepts only what the shared writer emits, byte for byte —
dictionaries included, unlike the map-backed reader (`tl1_canonical_fails_at_dict`) -/
theorem readTL1M_slice_canon (cfg : Cfg) (d : Desc)
    (S : Nat → Bool) (hcl : d.closed S = true) (hnb : d.allOn S (fun i => !i.isBitPrim) = true) :
    ∀ fuel, CanonRW (fun a b => a = b) S (readTL1M .slice (fun _ => true) cfg d fuel) (writeTL1 d fuel) := by
  have hR : ByteRel (fun a b : Bytes => a = b) := ByteRel.eq
  intro fuel
  induction fuel with
  | zero => intro ty bare na bs v rest _ h; simp [readTL1M] at h
  | succ fuel ih =>
    intro ty bare params bs v rest hSty h
    simp only [readTL1M] at h
    cases hg : d.get? ty with
    | none => simp only [hg] at h; cases h
    | some inst =>
      simp only [hg] at h
      have hrefs := Desc.closed_get hcl hg hSty
      cases inst with
      | prim k =>
        simp only at h
        have hk : k ≠ .bit := by
          intro e; subst e
          have := Desc.allOn_get hnb hg hSty
          simp [Inst.isBitPrim] at this
        obtain ⟨pre, e, hw⟩ := readPrim_canonical hk h
        exact ⟨pre, pre, e, by simp only [writeTL1, hg, hw], hR.refl _⟩
      | struct s =>
        simp only at h
        cases bare with
        | true =>
          simp only [if_true] at h
          cases hr : readFieldsWith (readTL1M .slice (fun _ => true) cfg d fuel) params s.fields [] bs with
          | error e => simp [hr] at h
          | ok p =>
            obtain ⟨fs, r⟩ := p
            simp only [hr] at h
            injection h with h; injection h with h1 h2; subst h1; subst h2
            obtain ⟨tail, pre, w, e1, e2, r1, hw⟩ := readFields_canonical hR ih params _ _ _ _ _ (fun f hf => hrefs _ (by simp only [Inst.refs]; exact List.mem_map_of_mem hf)) hr
            simp only [List.nil_append] at e1; subst e1
            have := hw []
            simp only [List.append_nil] at this
            refine ⟨pre, w, e2, ?_, r1⟩
            simp only [writeTL1, hg, this]
            simp
        | false =>
          simp only [Bool.false_eq_true, if_false] at h
          cases ht : readExactTag s.tag bs with
          | error e => simp [ht] at h
          | ok bs1 =>
            simp only [ht] at h
            cases hr : readFieldsWith (readTL1M .slice (fun _ => true) cfg d fuel) params s.fields [] bs1 with
            | error e => simp [hr] at h
            | ok p =>
              obtain ⟨fs, r⟩ := p
              simp only [hr] at h
              injection h with h; injection h with h1 h2; subst h1; subst h2
              obtain ⟨tail, pre, w, e1, e2, r1, hw⟩ := readFields_canonical hR ih params _ _ _ _ _ (fun f hf => hrefs _ (by simp only [Inst.refs]; exact List.mem_map_of_mem hf)) hr
              simp only [List.nil_append] at e1; subst e1
              have := hw []
              simp only [List.append_nil] at this
              obtain ⟨e3, _⟩ := readExactTag_inv ht
              refine ⟨u32le s.tag ++ pre, u32le s.tag ++ w, by rw [e3, e2, List.append_assoc], ?_, hR.app (hR.refl _) r1⟩
              simp only [writeTL1, hg, this]
              simp
      | union u =>
        simp only at h
        cases h1 : readU32 bs with
        | error e => simp [h1] at h
        | ok p =>
          obtain ⟨tag, bs1⟩ := p
          simp only [h1] at h
          cases hf : findVariant d tag u.variants 0 with
          | none => simp [hf] at h
          | some q =>
            obtain ⟨i, vi⟩ := q
            cases hna : natArgVals [] params u.elemNatArgs with
            | none => simp [hf, hna] at h
            | some na =>
              simp only [hf, hna] at h
              cases hr : readTL1M .slice (fun _ => true) cfg d fuel vi true na bs1 with
              | error e => simp [hr] at h
              | ok p =>
                obtain ⟨x, r⟩ := p
                simp only [hr] at h
                injection h with h; injection h with h2 h3; subst h2; subst h3
                obtain ⟨s, nm, _, hv, hgv, hst⟩ := findVariant_spec d tag _ _ _ _ hf
                simp only [Nat.sub_zero] at hv
                have hSvi : S vi = true := hrefs _ (by
                  simp only [Inst.refs]; exact List.mem_map_of_mem (f := (·.1)) (List.mem_of_getElem? hv))
                obtain ⟨pre, w, e1, hw, r1⟩ := ih _ _ _ _ _ _ hSvi hr
                obtain ⟨e2, _⟩ := readU32_inv h1
                refine ⟨u32le tag ++ pre, u32le tag ++ w, by rw [e2, e1, List.append_assoc], ?_, hR.app (hR.refl _) r1⟩
                simp only [writeTL1, hg, hv, hna]
                rw [← hst]; exact writeTL1_boxed_of_bare hgv hw
      | array a =>
        simp only at h
        cases hna : natArgVals [] params a.elem.natArgs with
        | none => simp [hna] at h
        | some na =>
          simp only [hna] at h
          by_cases ct : a.isTuple = true
          · rw [if_pos ct] at h
            cases hn : (if a.dynamic = true then params[0]? else some a.count) with
            | none => simp [hn] at h
            | some n =>
              simp only [hn] at h
              split at h
              · cases h
              · cases hr : readElemsWith (readTL1M .slice (fun _ => true) cfg d fuel) a.elem na n bs with
                | error e => rw [hr] at h; cases h
                | ok p =>
                  obtain ⟨vs, r⟩ := p
                  rw [hr] at h
                  injection h with h; injection h with h2 h3; subst h2; subst h3
                  obtain ⟨pre, w, e1, hw, r1, hl⟩ := readElems_canonical hR ih _ (hrefs _ (by simp [Inst.refs])) _ _ _ _ _ hr
                  refine ⟨pre, w, e1, ?_, r1⟩
                  simp only [writeTL1, hg, hna, ct, if_true, hn]
                  rw [if_neg (by simp [hl])]; exact hw
          · rw [if_neg ct] at h
            cases h1 : readU32 bs with
            | error e => simp [h1] at h
            | ok p =>
              obtain ⟨n, bs1⟩ := p
              simp only [h1] at h
              split at h
              · cases h
              · cases hr : readElemsWith (readTL1M .slice (fun _ => true) cfg d fuel) a.elem na n bs1 with
                | error e => rw [hr] at h; cases h
                | ok p =>
                  obtain ⟨vs, r⟩ := p
                  rw [hr] at h
                  injection h with h; injection h with h2 h3; subst h2; subst h3
                  obtain ⟨pre, w, e1, hw, r1, hl⟩ := readElems_canonical hR ih _ (hrefs _ (by simp [Inst.refs])) _ _ _ _ _ hr
                  obtain ⟨e2, hlt⟩ := readU32_inv h1
                  refine ⟨u32le n ++ pre, u32le n ++ w, by rw [e2, e1, List.append_assoc], ?_, hR.app (hR.refl _) r1⟩
                  simp only [writeTL1, hg, hna, ct]
                  rw [if_neg (by simp), if_neg (by simp only [Nat.reducePow]; omega), hw, hl]
                  rfl
      | dict a =>
        simp only at h
        cases hna : natArgVals [] params a.elem.natArgs with
        | none => simp [hna] at h
        | some na =>
          simp only [hna] at h
          cases h1 : readU32 bs with
          | error e => simp [h1] at h
          | ok p =>
            obtain ⟨n, bs1⟩ := p
            simp only [h1] at h
            split at h
            · cases h
            · cases hk : dictKeyPrim d a with
              | none => simp [hk] at h
              | some k =>
                simp only [hk] at h
                cases hr : readElemsWith (readTL1M .slice (fun _ => true) cfg d fuel) a.elem na n bs1 with
                | error e => rw [hr] at h; cases h
                | ok p =>
                  obtain ⟨vs, r⟩ := p
                  rw [hr] at h
                  simp only [dictStore, if_true] at h
                  injection h with h; injection h with h2 h3; subst h2; subst h3
                  obtain ⟨pre, w, e1, hw, r1, hl⟩ := readElems_canonical hR ih _ (hrefs _ (by simp [Inst.refs])) _ _ _ _ _ hr
                  obtain ⟨e2, hlt⟩ := readU32_inv h1
                  refine ⟨u32le n ++ pre, u32le n ++ w, by rw [e2, e1, List.append_assoc], ?_, hR.app (hR.refl _) r1⟩
                  simp only [writeTL1, hg, hna]
                  rw [if_neg (by simp only [Nat.reducePow]; omega), hw, hl]
                  rfl

end TLVerif.Codec
