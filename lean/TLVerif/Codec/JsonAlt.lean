import TLVerif.Codec.JsonLemmas
/-!
`AltForm`: the documented alternative spellings of the TL JSON mapping as a type-directed relation on JSON trees, closed under
every JSON context, and the umbrella theorem `alt_equiv`: related trees are read identically by the model of `ReadJSONGeneral`.
-/
namespace TLVerif.Codec
open TLVerif.Prim

def PrimK.isNumeric : PrimK → Bool
  | .u32 | .i32 | .u64 | .i64 | .f32 | .f64 | .byte => true
  | _ => false

def asciiBytes (t : List Char) : Bytes := t.map (fun c => byteOf c.toNat)

/-- `ej` is the JSON the writer omits for type `ty`: reading it gives the zero value (what an absent member is reset to) -/
def EmptyOf (d : Desc) (ty : Nat) (ej : Json) : Prop :=
  ∀ (lg : Bool) (pk : Bytes → Option Json) (fuel : Nat), readJson d lg pk fuel ty [] (some ej) = jzeroVal d fuel ty

/-- the explicit empty value of every primitive is `EmptyOf` it: `0`, `""`, `false` -/
theorem emptyOf_prim (d : Desc) (ty : Nat) (k : PrimK) (hd : d.get? ty = some (.prim k)) (hk : k ≠ .bit) : EmptyOf d ty (emptyPrimJ k) := by
  intro lg pk fuel
  cases fuel with
  | zero => rfl
  | succ fuel =>
    conv => lhs; unfold readJson
    conv => rhs; unfold jzeroVal
    simp only [hd]
    cases k <;> first | rfl | exact absurd rfl hk

/-- The documented alternative spellings, as a type-directed relation on JSON trees (inductive closure: reflexive, symmetric,
transitive, and closed under every JSON context: typedef wrappers, array elements, struct members, union and Maybe values). -/
inductive AltForm (d : Desc) : Nat → Json → Json → Prop
  | refl (ty : Nat) (j : Json) : AltForm d ty j j
  | symm {ty : Nat} {j j' : Json} : AltForm d ty j j' → AltForm d ty j' j
  | trans {ty : Nat} {j1 j2 j3 : Json} : AltForm d ty j1 j2 → AltForm d ty j2 j3 → AltForm d ty j1 j3
  /-- numbers as decimal strings -/
  | numberAsString (ty : Nat) (k : PrimK) (t : List Char) : d.get? ty = some (.prim k) → k.isNumeric = true →
      (∀ c ∈ t, c.toNat < 256) → AltForm d ty (.num t) (.str (asciiBytes t))
  /-- enums as objects / unions as type strings -/
  | unionAsString (ty : Nat) (u : UnionD) (t : Bytes) : d.get? ty = some (.union u) → u.isMaybe = false →
      AltForm d ty (.str t) (.obj [(kType, .str t)])
  | unionValueFirst (ty : Nat) (u : UnionD) (t : Bytes) (v : Json) : d.get? ty = some (.union u) → u.isMaybe = false →
      AltForm d ty (.obj [(kValue, v), (kType, .str t)]) (.obj [(kType, .str t), (kValue, v)])
  /-- Maybe with or without "ok" -/
  | maybeWithoutOk (ty : Nat) (u : UnionD) (v : Json) : d.get? ty = some (.union u) → u.isMaybe = true →
      AltForm d ty (.obj [(kValue, v)]) (.obj [(kOk, .bool true), (kValue, v)])
  | maybeValueFirst (ty : Nat) (u : UnionD) (v : Json) : d.get? ty = some (.union u) → u.isMaybe = true →
      AltForm d ty (.obj [(kValue, v), (kOk, .bool true)]) (.obj [(kOk, .bool true), (kValue, v)])
  | maybeOkFalse (ty : Nat) (u : UnionD) : d.get? ty = some (.union u) → u.isMaybe = true →
      AltForm d ty (.obj [(kOk, .bool false)]) (.obj [])
  /-- omitted fields as empty values: an absent plain field (unmasked, no nat arguments, not true-typed) may be given explicitly
  with the empty value of its type -/
  | omittedEmpty (ty : Nat) (s : StructD) (kvs : List (Bytes × Json)) (k : Bytes) (ej : Json) : d.get? ty = some (.struct s) →
      (s.isTypedef || s.isUnwrap) = false → countKey k kvs = 0 → (findField s k s.fields 0).isSome = true →
      (∀ f ∈ s.fields, strBytes f.name = k → fieldOmitted s f = false → f.plain ∧ EmptyOf d f.ty ej) →
      AltForm d ty (.obj kvs) (.obj (kvs ++ [(k, ej)]))
  /-- contexts -/
  | typedef (ty : Nat) (s : StructD) (f : Field) (j j' : Json) : d.get? ty = some (.struct s) →
      (s.isTypedef || s.isUnwrap) = true → s.fields = [f] → AltForm d f.ty j j' → AltForm d ty j j'
  | member (ty : Nat) (s : StructD) (a b : List (Bytes × Json)) (k : Bytes) (v v' : Json) : d.get? ty = some (.struct s) →
      (s.isTypedef || s.isUnwrap) = false →
      (∀ f ∈ s.fields, strBytes f.name = k → f.isBit = false) →
      (∀ f ∈ s.fields, strBytes f.name = k → AltForm d f.ty v v') →
      AltForm d ty (.obj (a ++ (k, v) :: b)) (.obj (a ++ (k, v') :: b))
  | element (ty : Nat) (a : ArrayD) (pre post : List Json) (v v' : Json) : d.get? ty = some (.array a) →
      AltForm d a.elem.ty v v' → AltForm d ty (.arr (pre ++ v :: post)) (.arr (pre ++ v' :: post))
  | unionValue (ty : Nat) (u : UnionD) (t : Bytes) (v v' : Json) : d.get? ty = some (.union u) → u.isMaybe = false →
      (∀ vi ∈ u.variants, AltForm d vi.1 v v') →
      AltForm d ty (.obj [(kType, .str t), (kValue, v)]) (.obj [(kType, .str t), (kValue, v')])
  | maybeValue (ty : Nat) (u : UnionD) (v v' : Json) : d.get? ty = some (.union u) → u.isMaybe = true →
      (∀ v1 vs f, u.variants[1]? = some v1 → d.get? v1.1 = some (.struct vs) → vs.fields = [f] → AltForm d f.ty v v') →
      AltForm d ty (.obj [(kOk, .bool true), (kValue, v)]) (.obj [(kOk, .bool true), (kValue, v')])

theorem findVariantJ_mem (d : Desc) (u : UnionD) (o lg : Bool) (t : Bytes) :
    ∀ (vs : List (Nat × String)) (i n vi : Nat), findVariantJ d u o lg t vs i = some (n, vi) → ∃ nm, (vi, nm) ∈ vs := by
  intro vs
  induction vs with
  | nil => intro i n vi h; simp [findVariantJ] at h
  | cons x xs ih =>
    intro i n vi h
    obtain ⟨xv, xn⟩ := x
    unfold findVariantJ at h
    split at h
    · cases h; exact ⟨xn, by simp⟩
    · obtain ⟨nm, hm⟩ := ih _ _ _ h
      exact ⟨nm, by simp [hm]⟩

theorem readElemsJ_element (rj : Rj) (f : Field) (na : List Nat) (v v' : Json) (post : List Json)
    (h : rj f.ty na (some v) = rj f.ty na (some v')) :
    ∀ pre, readElemsJ rj f na (pre ++ v :: post) = readElemsJ rj f na (pre ++ v' :: post) := by
  intro pre
  induction pre with
  | nil => simp only [List.nil_append, readElemsJ, h]
  | cons x xs ih => simp only [List.cons_append, readElemsJ, ih]

theorem readPrimJ_numberAsString (k : PrimK) (hk : k.isNumeric = true) (t : List Char) (ht : ∀ c ∈ t, c.toNat < 256) :
    readPrimJ k (some (.num t)) = readPrimJ k (some (.str (asciiBytes t))) := by
  cases k <;> simp [PrimK.isNumeric] at hk <;> simp only [readPrimJ, asciiBytes]
  all_goals first
    | exact (int_number_as_string _ _ t ht).symm
    | exact (float_number_as_string _ t ht).symm

/-- **alt_equiv** — every documented alternative spelling reads exactly like the spelling it stands for: the same result
(value or error) for every amount of fuel and every nat arguments. -/
theorem alt_equiv (d : Desc) (lg : Bool) (pk : Bytes → Option Json) {ty : Nat} {j j' : Json} (h : AltForm d ty j j') :
    ∀ fuel params, readJson d lg pk fuel ty params (some j) = readJson d lg pk fuel ty params (some j') := by
  induction h with
  | refl ty j => intro fuel params; rfl
  | symm _ ih => intro fuel params; exact (ih fuel params).symm
  | trans _ _ ih1 ih2 => intro fuel params; exact (ih1 fuel params).trans (ih2 fuel params)
  | numberAsString ty k t hd hk ht =>
    intro fuel params
    cases fuel with
    | zero => rfl
    | succ fuel =>
      conv => lhs; unfold readJson
      conv => rhs; unfold readJson
      simp only [hd]
      exact readPrimJ_numberAsString k hk t ht
  | unionAsString ty u t hd hm =>
    intro fuel params
    cases fuel with
    | zero => rfl
    | succ fuel => exact readJson_union_congr d lg pk fuel ty params u hd hm _ _ rfl
  | unionValueFirst ty u t v hd hm =>
    intro fuel params
    cases fuel with
    | zero => rfl
    | succ fuel => exact readJson_union_congr d lg pk fuel ty params u hd hm _ _ rfl
  | maybeWithoutOk ty u v hd hm =>
    intro fuel params
    cases fuel with
    | zero => rfl
    | succ fuel => exact readJson_maybe_congr d lg pk fuel ty params u hd hm _ _ rfl
  | maybeValueFirst ty u v hd hm =>
    intro fuel params
    cases fuel with
    | zero => rfl
    | succ fuel => exact readJson_maybe_congr d lg pk fuel ty params u hd hm _ _ rfl
  | maybeOkFalse ty u hd hm =>
    intro fuel params
    cases fuel with
    | zero => rfl
    | succ fuel => exact readJson_maybe_congr d lg pk fuel ty params u hd hm _ _ rfl
  | omittedEmpty ty s kvs k ej hd ht hc hfield H =>
    intro fuel params
    cases fuel with
    | zero => rfl
    | succ fuel =>
      rw [readJson_struct_obj d lg pk fuel ty params s hd ht, readJson_struct_obj d lg pk fuel ty params s hd ht]
      exact readStructJ_omitted_empty d fuel _ s params kvs k ej hc hfield
        (fun f hf hk ho => ⟨(H f hf hk ho).1, (H f hf hk ho).2 lg pk fuel⟩)
  | typedef ty s f j j' hd ht hf _ ih =>
    intro fuel params
    cases fuel with
    | zero => rfl
    | succ fuel =>
      conv => lhs; unfold readJson
      conv => rhs; unfold readJson
      simp only [hd, ht, hf, if_true]
      cases natArgVals [] params f.natArgs with
      | none => rfl
      | some na => simp only [ih fuel na]
  | member ty s a b k v v' hd ht hbit _ ih =>
    intro fuel params
    cases fuel with
    | zero => rfl
    | succ fuel =>
      rw [readJson_struct_obj d lg pk fuel ty params s hd ht, readJson_struct_obj d lg pk fuel ty params s hd ht]
      exact readStructJ_member_congr d fuel _ s params a b k v v' (fun f hf hk => ⟨hbit f hf hk, fun na => ih f hf hk fuel na⟩)
  | element ty a pre post v v' hd _ ih =>
    intro fuel params
    cases fuel with
    | zero => rfl
    | succ fuel =>
      conv => lhs; unfold readJson
      conv => rhs; unfold readJson
      simp only [hd]
      cases natArgVals [] params a.elem.natArgs with
      | none => rfl
      | some na =>
        simp only [readElemsJ_element (readJson d lg pk fuel) a.elem na v v' post (ih fuel na) pre]
        simp
  | unionValue ty u t v v' hd hm _ ih =>
    intro fuel params
    cases fuel with
    | zero => rfl
    | succ fuel =>
      conv => lhs; unfold readJson
      conv => rhs; unfold readJson
      simp only [hd, hm]
      cases natArgVals [] params u.elemNatArgs with
      | none => rfl
      | some vparams =>
        simp only [unionHead_object_value, Bool.false_eq_true, if_false]
        cases hfv : findVariantJ d u (unionOriginTL2 d u) lg t u.variants 0 with
        | none => rfl
        | some p =>
          obtain ⟨i, vi⟩ := p
          simp only []
          split
          · rfl
          · obtain ⟨nm, hmem⟩ := findVariantJ_mem d u (unionOriginTL2 d u) lg t u.variants 0 i vi hfv
            rw [ih (vi, nm) hmem fuel vparams]
  | maybeValue ty u v v' hd hm _ ih =>
    intro fuel params
    cases fuel with
    | zero => rfl
    | succ fuel =>
      conv => lhs; unfold readJson
      conv => rhs; unfold readJson
      simp only [hd, hm]
      cases natArgVals [] params u.elemNatArgs with
      | none => rfl
      | some vparams =>
        simp only [maybeHead_okTrue_value, if_true]
        cases hv : u.variants with
        | nil => rfl
        | cons x xs =>
          cases xs with
          | nil => rfl
          | cons y ys =>
            cases ys with
            | cons z zs => rfl
            | nil =>
              obtain ⟨v1, n1⟩ := y
              simp only []
              cases hg : d.get? v1 with
              | none => rfl
              | some ins =>
                cases ins with
                | struct vs =>
                  simp only []
                  cases hfs : vs.fields with
                  | nil => rfl
                  | cons f fs =>
                    cases fs with
                    | cons g gs => rfl
                    | nil =>
                      simp only []
                      cases natArgVals [] vparams f.natArgs with
                      | none => rfl
                      | some ena =>
                        simp only []
                        rw [ih (v1, n1) vs f (by rw [hv]; rfl) hg hfs fuel ena]
                | prim _ => rfl
                | union _ => rfl
                | array _ => rfl
                | dict _ => rfl


end TLVerif.Codec
