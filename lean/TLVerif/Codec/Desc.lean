/-!
Schema descriptor: what the generators see of `pure.Kernel` after `Compile()` (type instances with
fields, masks, nat arguments), exported by the in-repo harness `hcodec desc` on every run and parsed
here from a token line.  Indices refer to positions in `Desc.insts`.
-/
namespace TLVerif.Codec

inductive NatArg where
  | num (n : Nat)      -- arithmetic constant
  | field (i : Nat)    -- value of the `#` field `i` of the enclosing struct
  | param (i : Nat)    -- external nat parameter `i` of the enclosing instance
  deriving Repr, DecidableEq, Inhabited

inductive PrimK where
  | u32 | i32 | u64 | i64 | f32 | f64 | byte | bit | str
  | bool (falseTag trueTag : Nat)   -- TL1 Bool (tags) – TL2 bool when both are 0
  deriving Repr, DecidableEq, Inhabited

structure Field where
  name : String
  ty : Nat
  bare : Bool
  mask : Option (NatArg × Nat)   -- field mask reference and bit number
  tl2bit : Option Nat            -- position in the hidden TL2 presence mask
  isBit : Bool                   -- `x:fm.b?true` / `bit`: no storage, presence only
  natArgs : List NatArg
  omitted : Bool := false        -- TL2 `_name:T`: no storage, skipped by readers (gengo `Field.IsTL2Omitted`)
  deriving Repr, Inhabited

structure StructD where
  tag : Nat
  nparams : Nat
  fields : List Field
  isAlias : Bool := false
  isTypedef : Bool := false
  isUnwrap : Bool := false
  isUnionElement : Bool := false
  unionIndex : Nat := 0
  hasTL2 : Bool := false
  originTL2 : Bool := false
  isFunction : Bool := false
  resultTy : Nat := 0
  resultBare : Bool := false
  resultNatArgs : List NatArg := []
  deriving Repr, Inhabited

structure UnionD where
  variants : List (Nat × String)   -- instance index of the variant struct, JSON name
  elemNatArgs : List NatArg
  nparams : Nat
  isEnum : Bool
  isMaybe : Bool
  hasTL2 : Bool
  deriving Repr, Inhabited

structure ArrayD where
  isTuple : Bool
  dynamic : Bool       -- tuple whose count is nat parameter 0
  count : Nat          -- fixed tuple count
  nparams : Nat
  elem : Field
  hasTL2 : Bool
  deriving Repr, Inhabited

inductive Inst where
  | prim (k : PrimK)
  | struct (s : StructD)
  | union (u : UnionD)
  | array (a : ArrayD)
  | dict (a : ArrayD)      -- map-backed dictionary: vector of `{key,value}` structs on the wire
  deriving Repr, Inhabited

/-- naming information of an instance (used by the registry model, C17) -/
structure InstName where
  idx : Nat
  tlname : String
  topLevel : Bool
  ann : Nat := 0          -- annotation bit mask (bit i = i-th annotation of the kernel's sorted annotation list)
  deriving Repr, Inhabited

structure Desc where
  insts : Array Inst
  names : List InstName := []
  tlnames : Array String := #[]   -- TL name of every instance (optional trailing `N` section; used by the JSON model for union variant names)
  deriving Repr, Inhabited

def Desc.get? (d : Desc) (i : Nat) : Option Inst := d.insts[i]?

/-! ### token parser (format produced by `checks/codec_common.py:desc_line`) -/

abbrev P (α : Type) := List String → Option (α × List String)

def pNat : P Nat
  | t :: r => t.toNat?.map (·, r)
  | [] => none

def pBool : P Bool
  | "1" :: r => some (true, r)
  | "0" :: r => some (false, r)
  | _ => none

def pNatArg : P NatArg
  | t :: r =>
    let c := t.toList
    match c with
    | 'n' :: ds => (String.ofList ds).toNat?.map (fun n => (NatArg.num n, r))
    | 'f' :: ds => (String.ofList ds).toNat?.map (fun n => (NatArg.field n, r))
    | 'p' :: ds => (String.ofList ds).toNat?.map (fun n => (NatArg.param n, r))
    | _ => none
  | [] => none

def pMany (p : P α) : Nat → P (List α)
  | 0, ts => some ([], ts)
  | n + 1, ts => do
    let (x, ts) ← p ts
    let (xs, ts) ← pMany p n ts
    pure (x :: xs, ts)

def pCounted (p : P α) : P (List α) := fun ts => do
  let (n, ts) ← pNat ts
  pMany p n ts

def pOptNat : P (Option Nat)
  | "-" :: r => some (none, r)
  | t :: r => t.toNat?.map (fun n => (some n, r))
  | [] => none

def pField : P Field := fun ts => do
  let (name, ts) ← (match ts with | t :: r => some (t, r) | [] => none)
  let (ty, ts) ← pNat ts
  let (bare, ts) ← pBool ts
  let (mask, ts) ← (match ts with
    | "-" :: r => some (none, r)
    | _ => do
      let (a, ts) ← pNatArg ts
      let (b, ts) ← pNat ts
      pure (some (a, b), ts))
  let (tl2bit, ts) ← pOptNat ts
  -- flags token: bit 0 = isBit, bit 1 = TL2-omitted field (older producers send only "0"/"1")
  let (fl, ts) ← pNat ts
  let (na, ts) ← pCounted pNatArg ts
  pure ({ name := if name == "_" then "" else name, ty, bare, mask, tl2bit, isBit := fl % 2 == 1, natArgs := na,
          omitted := fl / 2 % 2 == 1 }, ts)

def flag (f : Nat) (b : Nat) : Bool := (f / b) % 2 == 1

def pPrim : P PrimK
  | "uint32" :: r => some (.u32, r)
  | "int32" :: r => some (.i32, r)
  | "uint64" :: r => some (.u64, r)
  | "int64" :: r => some (.i64, r)
  | "float32" :: r => some (.f32, r)
  | "float64" :: r => some (.f64, r)
  | "byte" :: r => some (.byte, r)
  | "bit" :: r => some (.bit, r)
  | "string" :: r => some (.str, r)
  | "bool" :: f :: t :: r => do
    let f ← f.toNat?
    let t ← t.toNat?
    pure (.bool f t, r)
  | _ => none

def pVariant : P (Nat × String) := fun ts => do
  let (i, ts) ← pNat ts
  match ts with
  | n :: r => some ((i, n), r)
  | [] => none

def pInst : P Inst
  | "P" :: ts => do
    let (k, ts) ← pPrim ts
    pure (.prim k, ts)
  | "S" :: ts => do
    let (tag, ts) ← pNat ts
    let (np, ts) ← pNat ts
    let (fl, ts) ← pNat ts
    let (ui, ts) ← pNat ts
    let (fields, ts) ← pCounted pField ts
    let (rty, ts) ← pNat ts
    let (rbare, ts) ← pBool ts
    let (rna, ts) ← pCounted pNatArg ts
    pure (.struct { tag, nparams := np, fields, isAlias := flag fl 1, isTypedef := flag fl 2, isUnwrap := flag fl 4,
                    isUnionElement := flag fl 8, unionIndex := ui, hasTL2 := flag fl 16, originTL2 := flag fl 32,
                    isFunction := flag fl 64, resultTy := rty, resultBare := rbare, resultNatArgs := rna }, ts)
  | "U" :: ts => do
    let (fl, ts) ← pNat ts
    let (np, ts) ← pNat ts
    let (vs, ts) ← pCounted pVariant ts
    let (ena, ts) ← pCounted pNatArg ts
    pure (.union { variants := vs, elemNatArgs := ena, nparams := np, isEnum := flag fl 1, isMaybe := flag fl 2, hasTL2 := flag fl 16 }, ts)
  | "A" :: ts => do
    let (fl, ts) ← pNat ts
    let (cnt, ts) ← pNat ts
    let (np, ts) ← pNat ts
    let (f, ts) ← pField ts
    pure (.array { isTuple := flag fl 1, dynamic := flag fl 2, count := cnt, nparams := np, elem := f, hasTL2 := flag fl 16 }, ts)
  | "D" :: ts => do
    let (fl, ts) ← pNat ts
    let (np, ts) ← pNat ts
    let (f, ts) ← pField ts
    pure (.dict { isTuple := false, dynamic := false, count := 0, nparams := np, elem := f, hasTL2 := flag fl 16 }, ts)
  | _ => none

def pInstName : P InstName := fun ts => do
  let (i, ts) ← pNat ts
  match ts with
  | n :: ts => do
    let (t, ts) ← pBool ts
    let (a, ts) ← pNat ts
    pure ({ idx := i, tlname := n, topLevel := t, ann := a }, ts)
  | [] => none

def pWord : P String
  | t :: r => some (t, r)
  | [] => none

/-- one optional trailing section: `R` registry names or `N` TL names of all instances -/
def pSection (d : Desc) : List String → Option (Desc × List String)
  | "R" :: rest => do
    let (ns, rest) ← pCounted pInstName rest
    pure ({ d with names := ns }, rest)
  | "N" :: rest => do
    let (ns, rest) ← pCounted pWord rest
    pure ({ d with tlnames := ns.toArray }, rest)
  | _ => none

def parseDesc (ts : List String) : Option Desc := do
  let (is, rest) ← pCounted pInst ts
  let d : Desc := { insts := is.toArray }
  if rest.isEmpty then pure d else
  let (d, rest) ← pSection d rest
  if rest.isEmpty then pure d else
  let (d, rest) ← pSection d rest
  if rest.isEmpty then pure d else none

end TLVerif.Codec
