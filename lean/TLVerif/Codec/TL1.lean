import TLVerif.Codec.Val
/-!
TL1 readers and writers of the generated Go code (`internal/puregen/gengo/qt_struct.qtpl`
readFields/writeFields, qt_union, qt_brackets, qt_dict, qt_maybe, qt_bool) driven by the descriptor.
Recursion through type references is bounded by `fuel`; inner loops (fields of a struct, elements of
an array) are structural and take the recursive reader/writer as a parameter, which is what makes
the round-trip and canonicity theorems a plain induction on `fuel`.
-/
namespace TLVerif.Codec
open TLVerif.Prim

abbrev RRes := Except CErr (Val × Bytes)
abbrev Rd := Nat → Bool → List Nat → Bytes → RRes      -- type index, bare, nat args, input
abbrev Wr := Nat → Bool → List Nat → Val → Except CErr Bytes

def liftP {α} : Except RErr α → Except CErr α
  | .ok x => .ok x
  | .error e => .error (CErr.ofPrim e)

def u32le (n : Nat) : Bytes := [byteOf n, byteOf (n >>> 8), byteOf (n >>> 16), byteOf (n >>> 24)]
def u64le (n : Nat) : Bytes := u32le n ++ u32le (n >>> 32)

def readU32 : Bytes → Except CErr (Nat × Bytes)
  | a :: b :: c :: d :: r => .ok (a.toNat + (b.toNat <<< 8) + (c.toNat <<< 16) + (d.toNat <<< 24), r)
  | _ => .error .eof

def readU64 (bs : Bytes) : Except CErr (Nat × Bytes) :=
  match readU32 bs with
  | .error e => .error e
  | .ok (lo, r) =>
    match readU32 r with
    | .error _ => .error .eof
    | .ok (hi, r') => .ok (lo + (hi <<< 32), r')

/-- `basictl.NatReadExactTag` -/
def readExactTag (tag : Nat) (bs : Bytes) : Except CErr Bytes :=
  match readU32 bs with
  | .error e => .error e
  | .ok (t, r) => if t = tag then .ok r else .error .rej

def readPrim (k : PrimK) (bs : Bytes) : RRes :=
  match k with
  | .u32 | .i32 | .f32 => (readU32 bs).map (fun (n, r) => (.nat n, r))
  | .u64 | .i64 | .f64 => (readU64 bs).map (fun (n, r) => (.nat n, r))
  | .str => (liftP (stringRead bs)).map (fun (s, r) => (.str s, r))
  | .bool f t =>
    match readU32 bs with
    | .error e => .error e
    | .ok (tag, r) => if tag = f then .ok (.bool false, r) else if tag = t then .ok (.bool true, r) else .error .rej
  | .byte => match bs with | b :: r => .ok (.nat b.toNat, r) | [] => .error .eof
  | .bit => .ok (.bool false, bs)          -- never read on its own in TL1

def writePrim (k : PrimK) (v : Val) : Except CErr Bytes :=
  match k, v with
  | .u32, .nat n | .i32, .nat n | .f32, .nat n => .ok (u32le n)
  | .u64, .nat n | .i64, .nat n | .f64, .nat n => .ok (u64le n)
  | .str, .str s => match stringWrite s with | some b => .ok b | none => .error .shape
  | .bool f t, .bool b => .ok (u32le (if b then t else f))
  | .byte, .nat n => .ok [byteOf n]
  | _, _ => .error .shape

/-- presence of a field given the values read/held so far -/
def fieldPresent (f : Field) (acc : List (Option Val)) (params : List Nat) : Option Bool :=
  match f.mask with
  | none => some true
  | some (a, bit) => (natArgVal acc params a).map (fun m => testBit m bit)

def readFieldsWith (rd : Rd) (params : List Nat) :
    List Field → List (Option Val) → Bytes → Except CErr (List (Option Val) × Bytes)
  | [], acc, bs => .ok (acc, bs)
  | f :: fs, acc, bs =>
    match fieldPresent f acc params, natArgVals acc params f.natArgs with
    | some true, some na =>
      match rd f.ty f.bare na bs with
      | .error e => .error e
      | .ok (v, bs') => readFieldsWith rd params fs (acc ++ [some v]) bs'
    | some false, some _ => readFieldsWith rd params fs (acc ++ [none]) bs
    | _, _ => .error .desc

def readElemsWith (rd : Rd) (f : Field) (na : List Nat) : Nat → Bytes → Except CErr (List Val × Bytes)
  | 0, bs => .ok ([], bs)
  | n + 1, bs =>
    match rd f.ty f.bare na bs with
    | .error e => .error e
    | .ok (v, bs') =>
      match readElemsWith rd f na n bs' with
      | .error e => .error e
      | .ok (vs, bs'') => .ok (v :: vs, bs'')

/-- `basictl.CheckLengthSanity(w, l, 4)` -/
def sanityOk (cfg : Cfg) (bs : Bytes) (n : Nat) : Bool := !cfg.sanity || bs.length ≥ n * 4

def findVariant (d : Desc) (tag : Nat) : List (Nat × String) → Nat → Option (Nat × Nat)
  | [], _ => none
  | (vi, _) :: vs, i =>
    match d.get? vi with
    | some (.struct s) => if s.tag = tag then some (i, vi) else findVariant d tag vs (i + 1)
    | _ => findVariant d tag vs (i + 1)

/-! map-backed dictionaries: Go stores `map[K]V` (a later duplicate key overwrites) and writes keys sorted -/

def toSigned (bits n : Nat) : Int := if n < 2 ^ (bits - 1) then (n : Int) else (n : Int) - (2 ^ bits : Nat)

def bytesLt : Bytes → Bytes → Bool
  | [], [] => false
  | [], _ :: _ => true
  | _ :: _, [] => false
  | a :: as, b :: bs => if a < b then true else if b < a then false else bytesLt as bs

/-- strip alias/typedef wrappers of a dictionary key down to the primitive -/
def keyRaw : Nat → Val → Val
  | 0, v => v
  | n + 1, .struct [some v] => keyRaw n v
  | _, v => v

def keyPrim (d : Desc) : Nat → Nat → Option PrimK
  | 0, _ => none
  | n + 1, ty =>
    match d.get? ty with
    | some (.prim k) => some k
    | some (.struct s) => match s.fields with | [f] => keyPrim d n f.ty | _ => none
    | _ => none

def keyLt (k : PrimK) (a b : Val) : Bool :=
  match k, keyRaw 8 a, keyRaw 8 b with
  | .i32, .nat x, .nat y => toSigned 32 x < toSigned 32 y
  | .i64, .nat x, .nat y => toSigned 64 x < toSigned 64 y
  | .str, .str x, .str y => bytesLt x y
  | _, .nat x, .nat y => x < y
  | _, .bool x, .bool y => !x && y
  | _, _, _ => false

def elemKey : Val → Val
  | .struct (some k :: _) => k
  | v => v

/-- insert into a list sorted by key; an equal key is replaced (map assignment) -/
def dictInsert (k : PrimK) (e : Val) : List Val → List Val
  | [] => [e]
  | x :: xs =>
    if keyLt k (elemKey e) (elemKey x) then e :: x :: xs
    else if keyLt k (elemKey x) (elemKey e) then x :: dictInsert k e xs
    else e :: xs

def dictNormalize (k : PrimK) (es : List Val) : List Val := es.foldl (fun acc e => dictInsert k e acc) []

def dictKeyPrim (d : Desc) (a : ArrayD) : Option PrimK :=
  match d.get? a.elem.ty with
  | some (.struct s) => match s.fields with | f :: _ => keyPrim d 8 f.ty | [] => none
  | _ => none

def readTL1 (cfg : Cfg) (d : Desc) : Nat → Rd
  | 0 => fun _ _ _ _ => .error .fuel
  | fuel + 1 => fun ty bare params bs =>
    match d.get? ty with
    | none => .error .desc
    | some (.prim k) => readPrim k bs
    | some (.struct s) =>
      match (if bare then .ok bs else readExactTag s.tag bs) with
      | .error e => .error e
      | .ok bs1 =>
        match readFieldsWith (readTL1 cfg d fuel) params s.fields [] bs1 with
        | .error e => .error e
        | .ok (fs, r) => .ok (.struct fs, r)
    | some (.union u) =>
      match readU32 bs with
      | .error e => .error e
      | .ok (tag, bs1) =>
        match findVariant d tag u.variants 0, natArgVals [] params u.elemNatArgs with
        | some (i, vi), some na =>
          match readTL1 cfg d fuel vi true na bs1 with
          | .error e => .error e
          | .ok (v, r) => .ok (.union i v, r)
        | none, _ => .error .rej
        | _, none => .error .desc
    | some (.array a) =>
      match natArgVals [] params a.elem.natArgs with
      | none => .error .desc
      | some na =>
        if a.isTuple then
          match (if a.dynamic then params[0]? else some a.count) with
          | none => .error .desc
          | some n =>
            if a.dynamic && !sanityOk cfg bs n then .error .eof else
            (readElemsWith (readTL1 cfg d fuel) a.elem na n bs).map (fun (vs, r) => (.arr vs, r))
        else
          match readU32 bs with
          | .error e => .error e
          | .ok (n, bs1) =>
            if !sanityOk cfg bs1 n then .error .eof else
            (readElemsWith (readTL1 cfg d fuel) a.elem na n bs1).map (fun (vs, r) => (.arr vs, r))
    | some (.dict a) =>
      match natArgVals [] params a.elem.natArgs with
      | none => .error .desc
      | some na =>
        match readU32 bs with
        | .error e => .error e
        | .ok (n, bs1) =>
          if !sanityOk cfg bs1 n then .error .eof else
          match dictKeyPrim d a with
          | none => .error .desc
          | some k => (readElemsWith (readTL1 cfg d fuel) a.elem na n bs1).map (fun (vs, r) => (.arr (dictNormalize k vs), r))

/-! ### writers -/

def writeFieldsWith (wr : Wr) (params : List Nat) (all : List (Option Val)) :
    List Field → List (Option Val) → Except CErr Bytes
  | [], [] => .ok []
  | f :: fs, v :: vs =>
    match fieldPresent f all params, natArgVals all params f.natArgs with
    | some true, some na =>
      match v with
      | none => .error .shape     -- present by mask but no value: Go writes the zero value (nil pointer); see `zeroVal`
      | some x =>
        match wr f.ty f.bare na x with
        | .error e => .error e
        | .ok b =>
          match writeFieldsWith wr params all fs vs with
          | .error e => .error e
          | .ok bs => .ok (b ++ bs)
    | some false, some _ => writeFieldsWith wr params all fs vs
    | _, _ => .error .desc
  | _, _ => .error .shape

def writeElemsWith (wr : Wr) (f : Field) (na : List Nat) : List Val → Except CErr Bytes
  | [] => .ok []
  | v :: vs =>
    match wr f.ty f.bare na v with
    | .error e => .error e
    | .ok b =>
      match writeElemsWith wr f na vs with
      | .error e => .error e
      | .ok bs => .ok (b ++ bs)

def writeTL1 (d : Desc) : Nat → Wr
  | 0 => fun _ _ _ _ => .error .fuel
  | fuel + 1 => fun ty bare params v =>
    match d.get? ty with
    | none => .error .desc
    | some (.prim k) => writePrim k v
    | some (.struct s) =>
      match v with
      | .struct fs =>
        match writeFieldsWith (writeTL1 d fuel) params fs s.fields fs with
        | .error e => .error e
        | .ok b => .ok ((if bare then [] else u32le s.tag) ++ b)
      | _ => .error .shape
    | some (.union u) =>
      match v with
      | .union i x =>
        match u.variants[i]?, natArgVals [] params u.elemNatArgs with
        | some (vi, _), some na => writeTL1 d fuel vi false na x
        | none, _ => .error .shape
        | _, none => .error .desc
      | _ => .error .shape
    | some (.array a) =>
      match v, natArgVals [] params a.elem.natArgs with
      | .arr es, some na =>
        if a.isTuple then
          match (if a.dynamic then params[0]? else some a.count) with
          | none => .error .desc
          | some n => if es.length ≠ n then .error .shape else writeElemsWith (writeTL1 d fuel) a.elem na es
        else
          if es.length ≥ 2 ^ 32 then .error .shape else
          (writeElemsWith (writeTL1 d fuel) a.elem na es).map (fun b => u32le es.length ++ b)
      | _, none => .error .desc
      | _, _ => .error .shape
    | some (.dict a) =>
      match v, natArgVals [] params a.elem.natArgs with
      | .arr es, some na =>
        if es.length ≥ 2 ^ 32 then .error .shape else
        (writeElemsWith (writeTL1 d fuel) a.elem na es).map (fun b => u32le es.length ++ b)
      | _, none => .error .desc
      | _, _ => .error .shape

end TLVerif.Codec
