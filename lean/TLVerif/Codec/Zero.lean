import TLVerif.Codec.Val
/-! The value of a freshly created / `Reset` generated object. -/
namespace TLVerif.Codec.Z
open TLVerif.Codec

def zeroPrim : PrimK → Val
  | .str => .str []
  | .bool _ _ => .bool false
  | .bit => .bool false
  | _ => .nat 0

def zeroFieldsWith (z : Nat → Option Val) : List Field → Option (List (Option Val))
  | [] => some []
  | f :: fs =>
    match zeroFieldsWith z fs with
    | none => none
    | some rest =>
      -- a mask that is an instantiated constant with the bit set makes the field unconditionally present
      let constPresent := match f.mask with | some (.num n, bit) => testBit n bit | _ => false
      if (f.mask.isSome || f.tl2bit.isSome) && !constPresent then some (none :: rest)
      else match z f.ty with
        | none => none
        | some v => some (some v :: rest)

/-- zero value of an instance; `none` when the descriptor is malformed or the zero value is not a finite term -/
def zeroVal (d : Desc) : Nat → Nat → Option Val
  | 0, _ => none
  | fuel + 1, ty =>
    match d.get? ty with
    | none => none
    | some (.prim k) => some (zeroPrim k)
    | some (.struct s) => (zeroFieldsWith (zeroVal d fuel) s.fields).map .struct
    | some (.union u) =>
      match u.variants with
      | (vi, _) :: _ => (zeroVal d fuel vi).map (.union 0)
      | [] => none
    | some (.array a) =>
      if a.isTuple && !a.dynamic then
        (zeroVal d fuel a.elem.ty).map (fun z => .arr (List.replicate a.count z))
      else some (.arr [])
    | some (.dict _) => some (.arr [])

end TLVerif.Codec.Z
