import TLVerif.Codec.RandomLemmas
/-!
Termination of the random-filling model (C18): with the guards `Desc.fillGuard` (rank certificate for the references
that do not increase the depth + no saturating `IncreaseDepth`) the recursion budget
`(maxDepth + 1) · (|d| + 1)` is never exhausted, whatever the stream.

Measure: `(maxDepth − curDepth, rank)` lexicographically. `k = maxDepth − curDepth ≥ 1` outside the saturated region;
a reference through an `IncreaseDepth` site goes to `k − 1` (any rank), a plain reference keeps `k` and lowers the rank;
at `k = 0` (saturated) only `satFinite` types are entered, they contain no `IncreaseDepth` site and all random sizes,
masks and union indices are 0 there.  The invariant carried along is that every call returns with `curDepth` and
`maxDepth` unchanged — which is exactly what fails when an `IncreaseDepth` saturates.
-/
namespace TLVerif.Codec
open TLVerif.Prim TLVerif.Facts

/-! ### the generator primitives do not touch the depth counters -/

/-- same depth counters -/
def RG.same (a b : RG) : Prop := b.cur = a.cur ∧ b.maxDepth = a.maxDepth

theorem RG.same_refl (a : RG) : a.same a := ⟨rfl, rfl⟩
theorem RG.same_trans {a b c : RG} (h1 : a.same b) (h2 : b.same c) : a.same c :=
  ⟨h2.1.trans h1.1, h2.2.trans h1.2⟩

theorem raw_same (rg : RG) : rg.same rg.raw.2 := ⟨rfl, rfl⟩
theorem uint32_same (rg : RG) : rg.same rg.uint32.2 := ⟨rfl, rfl⟩
theorem int31_same (rg : RG) : rg.same rg.int31.2 := ⟨rfl, rfl⟩
theorem int63_same (rg : RG) : rg.same rg.int63.2 := ⟨rfl, rfl⟩
theorem normK_same (rg : RG) : rg.same rg.normK.2 := ⟨rfl, rfl⟩

theorem randomUint_same (rg : RG) : rg.same (randomUint rg).2 := by
  unfold randomUint
  split
  · exact RG.same_refl rg
  · exact ⟨rfl, rfl⟩

/-- at the depth limit `RandomUint` is 0 and draws nothing -/
theorem randomUint_sat {rg : RG} (h : rg.cur ≥ rg.maxDepth) : randomUint rg = (0, rg) := by
  unfold randomUint
  rw [if_pos h]

theorem limitVal_zero : limitVal 0 = 0 := by
  unfold limitVal; exact Nat.zero_and _

theorem randomSize_same (rg : RG) : rg.same (randomSize rg).2 := randomUint_same rg

theorem randomSize_sat {rg : RG} (h : rg.cur ≥ rg.maxDepth) : randomSize rg = (0, rg) := by
  unfold randomSize
  rw [randomUint_sat h, limitVal_zero]

theorem testBit_zero (b : Nat) : testBit 0 b = false := by
  unfold testBit; simp

theorem scatterBits_zero (m : Nat) : ∀ (n i si : Nat), scatterBits 0 m n i si = 0 := by
  intro n
  induction n with
  | zero => intro i si; rfl
  | succ n ih =>
    intro i si
    simp only [scatterBits, testBit_zero, Bool.false_eq_true, if_false, ih, Nat.zero_add, ite_self]

theorem randomFieldMask_same (rg : RG) (m : Nat) : rg.same (randomFieldMask rg m).2 := randomUint_same rg

theorem randomFieldMask_sat {rg : RG} (h : rg.cur ≥ rg.maxDepth) (m : Nat) : randomFieldMask rg m = (0, rg) := by
  unfold randomFieldMask
  rw [randomUint_sat h, scatterBits_zero]

theorem randomChars_same : ∀ (n : Nat) (rg : RG), rg.same (randomChars n rg).2 := by
  intro n
  induction n with
  | zero => intro rg; exact RG.same_refl rg
  | succ n ih =>
    intro rg
    simp only [randomChars]
    exact RG.same_trans (uint32_same rg) (ih _)

theorem randomString_same (rg : RG) : rg.same (randomString rg).2 := by
  unfold randomString
  exact RG.same_trans (uint32_same rg) (randomChars_same _ _)

theorem fillPrim_same (k : PrimK) (rg : RG) : rg.same (fillPrim k rg).2 := by
  cases k with
  | u32 => exact randomUint_same rg
  | i32 => exact int31_same rg
  | u64 => exact int63_same rg
  | i64 => exact int63_same rg
  | f32 => exact normK_same rg
  | f64 => exact normK_same rg
  | byte => exact uint32_same rg
  | bit => exact RG.same_refl rg
  | str => exact randomString_same rg
  | bool f t => exact randomUint_same rg

theorem inc_eq (rg : RG) : rg.inc.cur = rg.cur + 1 ∧ rg.inc.maxDepth = rg.maxDepth := ⟨rfl, rfl⟩

/-- `DecreaseDepth` after a body that kept the counters restores the state before the `IncreaseDepth` — at any depth,
now that the increase is unconditional -/
theorem dec_inc {rg rg2 : RG} (hs : rg.inc.same rg2) : rg.same rg2.dec := by
  obtain ⟨h1, h2⟩ := inc_eq rg
  obtain ⟨s1, s2⟩ := hs
  unfold RG.dec
  rw [if_pos (by omega)]
  exact ⟨by simp only; omega, by simp only; omega⟩

theorem inc_lt {rg : RG} (_h : rg.cur < rg.maxDepth) : rg.inc.cur = rg.cur + 1 ∧ rg.inc.maxDepth = rg.maxDepth := inc_eq rg

theorem dec_after_inc {rg rg2 : RG} (_h : rg.cur < rg.maxDepth) (hs : rg.inc.same rg2) : rg.same rg2.dec := dec_inc hs

/-! ### "answers and keeps the counters" -/

/-- the call does not run out of fuel and, when it succeeds, returns with the depth counters unchanged -/
def Good (fl : Fl) (ty : Nat) (na : List Nat) (rg : RG) : Prop :=
  fl ty na rg ≠ .error .fuel ∧ ∀ v rg', fl ty na rg = .ok (v, rg') → rg.same rg'

/-- same for the loops -/
def GoodL {α} (r : Except CErr (α × RG)) (rg : RG) : Prop :=
  r ≠ .error .fuel ∧ ∀ x rg', r = .ok (x, rg') → rg.same rg'

theorem goodL_error {α} {e : CErr} (h : e ≠ .fuel) (rg : RG) : GoodL (α := α) (.error e) rg :=
  ⟨fun h' => h (by injection h'), fun _ _ h' => (by cases h')⟩

theorem goodL_ok {α} {x : α} {rg rg' : RG} (h : rg.same rg') : GoodL (.ok (x, rg')) rg :=
  ⟨fun h' => (by cases h'), fun _ _ h' => (by injection h' with h'; injection h' with _ h2; rw [← h2]; exact h)⟩

theorem fillElems_good {fl : Fl} (f : Field) (na : List Nat) {c m : Nat}
    (hb : ∀ rg, rg.cur = c → rg.maxDepth = m → Good fl f.ty na rg) :
    ∀ (n : Nat) (rg : RG), rg.cur = c → rg.maxDepth = m → GoodL (fillElemsWith fl f na n rg) rg := by
  intro n
  induction n with
  | zero => intro rg _ _; exact goodL_ok (RG.same_refl rg)
  | succ n ih =>
    intro rg hc hm
    obtain ⟨g1, g2⟩ := hb rg hc hm
    simp only [fillElemsWith]
    cases hr : fl f.ty na rg with
    | error e => exact goodL_error (fun e' => g1 (by rw [hr, e'])) rg
    | ok p =>
      obtain ⟨v, rg1⟩ := p
      have s1 := g2 v rg1 hr
      obtain ⟨i1, i2⟩ := ih rg1 (s1.1.trans hc) (s1.2.trans hm)
      simp only
      cases hr2 : fillElemsWith fl f na n rg1 with
      | error e => exact goodL_error (fun e' => i1 (by rw [hr2, e'])) rg
      | ok q =>
        obtain ⟨vs, rg2⟩ := q
        exact goodL_ok (RG.same_trans s1 (i2 vs rg2 hr2))


/-! ### the saturated region: `satFinite` types -/

/-- every `#` field with storage filled so far holds 0 (or was reset) -/
def ZeroNats (d : Desc) (all : List Field) (acc : List (Option Val)) : Prop :=
  ∀ j g, all[j]? = some g → g.isBit = false → d.isU32 g.ty = true → j < acc.length →
    acc[j]? = some none ∨ acc[j]? = some (some (.nat 0))

theorem zeroNats_snoc {d : Desc} {all : List Field} {acc : List (Option Val)} (hz : ZeroNats d all acc) (x : Option Val)
    (hx : ∀ g, all[acc.length]? = some g → g.isBit = false → d.isU32 g.ty = true → x = none ∨ x = some (.nat 0)) :
    ZeroNats d all (acc ++ [x]) := by
  intro j g hg hb hu hj
  simp only [List.length_append, List.length_cons, List.length_nil] at hj
  by_cases c : j < acc.length
  · rw [List.getElem?_append_left c]; exact hz j g hg hb hu c
  · have e : j = acc.length := by omega
    subst e
    rw [List.getElem?_append_right (Nat.le_refl _)]
    simp only [Nat.sub_self, List.getElem?_cons_zero]
    rcases hx g hg hb hu with h | h
    · left; rw [h]
    · right; rw [h]

/-- a field conditional on an earlier `#` field of the struct is absent (or the descriptor is malformed) when all `#` fields are 0 -/
theorem masked_absent {d : Desc} {all : List Field} {acc : List (Option Val)} (hz : ZeroNats d all acc) {f : Field}
    (hm : maskedByLocalU32 d all f = true) (params : List Nat) :
    fieldPresent f acc params = none ∨ fieldPresent f acc params = some false := by
  unfold maskedByLocalU32 at hm
  cases hfm : f.mask with
  | none => simp [hfm] at hm
  | some p =>
    obtain ⟨a, bit⟩ := p
    cases a with
    | num n => simp [hfm] at hm
    | param q => simp [hfm] at hm
    | field j =>
      simp only [hfm] at hm
      cases hg : all[j]? with
      | none => simp [hg] at hm
      | some g =>
        simp only [hg, Bool.and_eq_true, Bool.not_eq_true'] at hm
        have hu : d.isU32 g.ty = true := by
          unfold Desc.isU32
          cases hgt : d.get? g.ty with
          | none => simp [hgt] at hm
          | some inst =>
            cases inst with
            | prim k => cases k <;> simp [hgt] at hm ⊢
            | struct s => simp [hgt] at hm
            | union u => simp [hgt] at hm
            | array a => simp [hgt] at hm
            | dict a => simp [hgt] at hm
        simp only [fieldPresent, hfm, natArgVal]
        by_cases c : j < acc.length
        · rcases hz j g hg hm.1 hu c with h | h
          · right; simp [h, testBit_zero]
          · right; simp [h, testBit_zero]
        · left
          have : acc[j]? = none := List.getElem?_eq_none (by omega)
          simp [this]

/-- a present field's value in the saturated region: drawn `#` values are 0; a type reference must be `Good` -/
theorem fillValue_sat {d : Desc} {fl : Fl} {x : FieldX} {f : Field} {na : List Nat} {rg : RG} (hsat : rg.cur ≥ rg.maxDepth)
    (hg : x.drawn = true ∨ Good fl f.ty na rg)
    (hU : ∀ v rg', d.isU32 f.ty = true → fl f.ty na rg = .ok (v, rg') → v = .nat 0) :
    GoodL (fillValue fl x f na rg) rg ∧
      ∀ v rg', fillValue fl x f na rg = .ok (v, rg') → d.isU32 f.ty = true → v = .nat 0 := by
  unfold fillValue
  by_cases c1 : x.usedAsMask = true
  · rw [if_pos c1, randomFieldMask_sat hsat]
    simp only [limitVal_zero, ite_self]
    exact ⟨goodL_ok (RG.same_refl rg), fun v rg' h _ => by injection h with h; injection h with h1 _; exact h1.symm⟩
  · rw [if_neg c1]
    by_cases c2 : x.usedAsSize = true
    · rw [if_pos c2, randomSize_sat hsat]
      exact ⟨goodL_ok (RG.same_refl rg), fun v rg' h _ => by injection h with h; injection h with h1 _; exact h1.symm⟩
    · rw [if_neg c2]
      have hd : x.drawn = false := by simp [FieldX.drawn, c1, c2]
      rcases hg with hg | hg
      · rw [hd] at hg; cases hg
      · exact ⟨hg, fun v rg' h hu => hU v rg' hu h⟩

theorem fillFields_quiet {d : Desc} {fl : Fl} {q : Nat → Bool} {gx : Nat → FieldX} {params : List Nat} {all : List Field}
    (hQ : ∀ ty, q ty = true → ∀ na rg, rg.cur ≥ rg.maxDepth → Good fl ty na rg)
    (hU : ∀ ty na rg v rg', d.isU32 ty = true → rg.cur ≥ rg.maxDepth → fl ty na rg = .ok (v, rg') → v = .nat 0) :
    ∀ (fields : List Field) (i : Nat) (acc : List (Option Val)) (rg : RG),
      (∀ j f, fields[j]? = some f → all[i + j]? = some f) → acc.length = i → ZeroNats d all acc →
      satFields d q gx all fields i = true → rg.cur ≥ rg.maxDepth →
      GoodL (fillFieldsWith fl gx params fields i acc rg) rg := by
  intro fields
  induction fields with
  | nil => intro i acc rg _ _ _ _ _; simp only [fillFieldsWith]; exact goodL_ok (RG.same_refl rg)
  | cons f fs ih =>
    intro i acc rg hall hlen hz hq hsat
    simp only [satFields, Bool.and_eq_true] at hq
    have hall' : ∀ j g, fs[j]? = some g → all[i + 1 + j]? = some g := by
      intro j g hg
      have := hall (j + 1) g (by simpa using hg)
      rw [show i + 1 + j = i + (j + 1) by omega]; exact this
    have hf0 : all[acc.length]? = some f := by
      have := hall 0 f (by simp)
      rw [hlen]; simpa using this
    have hlen' : ∀ x : Option Val, (acc ++ [x]).length = i + 1 := fun x => by simp [hlen]
    simp only [fillFieldsWith]
    cases hp : fieldPresent f acc params with
    | none => exact goodL_error (by decide) rg
    | some b =>
      cases hna : natArgVals acc params f.natArgs with
      | none => cases b <;> exact goodL_error (by decide) rg
      | some na =>
        cases b with
        | false =>
          simp only
          exact ih _ _ _ hall' (hlen' _) (zeroNats_snoc hz none (fun _ _ _ _ => Or.inl rfl)) hq.2 hsat
        | true =>
          simp only
          by_cases cb : f.isBit = true
          · rw [if_pos cb]
            refine ih _ _ _ hall' (hlen' _) (zeroNats_snoc hz _ ?_) hq.2 hsat
            intro g hg hb _
            rw [hf0] at hg; injection hg with hg; subst hg
            rw [cb] at hb; cases hb
          · rw [if_neg cb]
            by_cases cm : maskedByLocalU32 d all f = true
            · rcases masked_absent hz cm params with h | h
              · rw [hp] at h; cases h
              · rw [hp] at h; cases h
            · have h3 : (gx i).drawn = true ∨ q f.ty = true := by
                have := hq.1
                simpa [cb, cm] using this
              -- the recursive flag only wraps the field in an exact IncreaseDepth / DecreaseDepth pair, still at the limit
              have hw : ∃ rg1 : RG, (if (gx i).recursive = true then rg.inc else rg) = rg1 ∧ rg1.cur ≥ rg1.maxDepth ∧
                  ∀ rg2, rg1.same rg2 → rg.same (if (gx i).recursive = true then rg2.dec else rg2) := by
                by_cases cr : (gx i).recursive = true
                · refine ⟨rg.inc, by rw [if_pos cr], ?_, ?_⟩
                  · have := inc_eq rg; omega
                  · intro rg2 h2; rw [if_pos cr]; exact dec_inc h2
                · refine ⟨rg, by rw [if_neg cr], hsat, ?_⟩
                  intro rg2 h2; rw [if_neg cr]; exact h2
              obtain ⟨rg1, e1, hsat1, hback⟩ := hw
              rw [e1]
              have hgood : (gx i).drawn = true ∨ Good fl f.ty na rg1 := by
                rcases h3 with h | h
                · exact Or.inl h
                · exact Or.inr (hQ _ h na rg1 hsat1)
              obtain ⟨⟨g1, g2⟩, g3⟩ := fillValue_sat (d := d) (x := gx i) (f := f) hsat1 hgood
                (fun v rg' hu h => hU _ _ _ _ _ hu hsat1 h)
              cases hr : fillValue fl (gx i) f na rg1 with
              | error e => exact goodL_error (fun e' => g1 (by rw [hr, e'])) rg
              | ok p =>
                obtain ⟨v, rg2⟩ := p
                have s1 := hback rg2 (g2 v rg2 hr)
                have hsat2 : (if (gx i).recursive = true then rg2.dec else rg2).cur ≥
                    (if (gx i).recursive = true then rg2.dec else rg2).maxDepth := by rw [s1.1, s1.2]; exact hsat
                have hz2 : ZeroNats d all (acc ++ [some v]) := by
                  refine zeroNats_snoc hz _ ?_
                  intro g hg _ hu
                  rw [hf0] at hg; injection hg with hg; subst hg
                  right; rw [g3 v rg2 hr hu]
                obtain ⟨i1, i2⟩ := ih _ _ _ hall' (hlen' _) hz2 hq.2 hsat2
                simp only
                exact ⟨i1, fun x rg' h => RG.same_trans s1 (i2 x rg' h)⟩


/-- the elements of an array right after its `IncreaseDepth`, and the `DecreaseDepth` that follows them -/
theorem elems_inc {fl : Fl} (f : Field) (na : List Nat) {rg : RG}
    (hb : ∀ rg', rg'.cur = rg.cur + 1 → rg'.maxDepth = rg.maxDepth → Good fl f.ty na rg')
    (n : Nat) (rg1 : RG) (h1 : rg.inc.same rg1) :
    GoodL (match fillElemsWith fl f na n rg1 with
      | .error e => (.error e : Except CErr (Val × RG))
      | .ok (vs, rg') => .ok (.arr vs, rg'.dec)) rg := by
  obtain ⟨i1, i2⟩ := inc_eq rg
  obtain ⟨g1, g2⟩ := fillElems_good f na hb n rg1 (by rw [h1.1]; exact i1) (by rw [h1.2]; exact i2)
  cases hr : fillElemsWith fl f na n rg1 with
  | error e => exact goodL_error (fun e' => g1 (by rw [hr, e'])) rg
  | ok p =>
    obtain ⟨vs, rg2⟩ := p
    exact goodL_ok (dec_inc (RG.same_trans h1 (g2 vs rg2 hr)))

theorem elems_after_inc {fl : Fl} (f : Field) (na : List Nat) {rg : RG} (_hlt : rg.cur < rg.maxDepth)
    (hb : ∀ rg', rg'.cur = rg.cur + 1 → rg'.maxDepth = rg.maxDepth → Good fl f.ty na rg')
    (n : Nat) (rg1 : RG) (h1 : rg.inc.same rg1) :
    GoodL (match fillElemsWith fl f na n rg1 with
      | .error e => (.error e : Except CErr (Val × RG))
      | .ok (vs, rg') => .ok (.arr vs, rg'.dec)) rg := elems_inc f na hb n rg1 h1

theorem fillTL1_u32_sat (d : Desc) (gi : GenInfo) (fuel ty : Nat) (na : List Nat) (rg : RG) (v : Val) (rg' : RG)
    (hu : d.isU32 ty = true) (hsat : rg.cur ≥ rg.maxDepth) (h : fillTL1 d gi fuel ty na rg = .ok (v, rg')) : v = .nat 0 := by
  cases fuel with
  | zero => simp [fillTL1] at h
  | succ fuel =>
    unfold Desc.isU32 at hu
    simp only [fillTL1] at h
    cases hg : d.get? ty with
    | none => simp [hg] at hu
    | some inst =>
      cases inst with
      | prim k =>
        cases k <;> simp [hg] at hu
        simp only [hg, fillPrim, randomUint_sat hsat] at h
        injection h with h; injection h with h1 _; exact h1.symm
      | struct s => simp [hg] at hu
      | union u => simp [hg] at hu
      | array a => simp [hg] at hu
      | dict a => simp [hg] at hu

/-- **the saturated region**: a `satFinite` type, entered at the depth limit, is filled without running out of fuel `≥ n`
and without touching the depth counters -/
theorem fillTL1_quiet (d : Desc) (gi : GenInfo) :
    ∀ (n fuel ty : Nat) (params : List Nat) (rg : RG), n ≤ fuel → satFinite d gi n ty = true → rg.cur ≥ rg.maxDepth →
      Good (fillTL1 d gi fuel) ty params rg := by
  intro n
  induction n with
  | zero => intro fuel ty params rg _ hq _; simp [satFinite] at hq
  | succ n ih =>
    intro fuel ty params rg hle hq hsat
    cases fuel with
    | zero => omega
    | succ fuel =>
      have hle' : n ≤ fuel := by omega
      simp only [satFinite] at hq
      unfold Good
      simp only [fillTL1]
      cases hg : d.get? ty with
      | none => exact goodL_error (by decide) rg
      | some inst =>
        simp only [hg] at hq
        cases inst with
        | prim k => exact goodL_ok (fillPrim_same k rg)
        | struct s =>
          simp only
          by_cases co : s.originTL2 = true
          · rw [if_pos co]; exact goodL_error (by decide) rg
          · rw [if_neg co]
            simp only [co, Bool.false_or] at hq
            have hfl := fillFields_quiet (d := d) (fl := fillTL1 d gi fuel) (q := satFinite d gi n) (gx := structGx gi ty s)
              (params := params) (all := s.fields)
              (fun ty' hq' na rg' hs => ih fuel ty' na rg' hle' hq' hs)
              (fun ty' na rg' v rg'' hu hs h => fillTL1_u32_sat d gi fuel ty' na rg' v rg'' hu hs h)
              s.fields 0 [] rg (fun j f h => by simpa using h) rfl (fun j g _ _ _ hj => by simp at hj) hq hsat
            obtain ⟨g1, g2⟩ := hfl
            cases hr : fillFieldsWith (fillTL1 d gi fuel) (structGx gi ty s) params s.fields 0 [] rg with
            | error e => exact goodL_error (fun e' => g1 (by rw [hr, e'])) rg
            | ok p => obtain ⟨fs, r⟩ := p; exact goodL_ok (g2 fs r hr)
        | union u =>
          simp only
          rw [randomUint_sat hsat]
          simp only [Nat.zero_mod]
          cases hv : u.variants with
          | nil => simp only [List.getElem?_nil]; exact goodL_error (by decide) rg
          | cons p ps =>
            obtain ⟨vi, nm⟩ := p
            simp only [hv] at hq
            simp only [List.getElem?_cons_zero]
            cases hna : natArgVals [] params u.elemNatArgs with
            | none => exact goodL_error (by decide) rg
            | some na =>
              simp only
              obtain ⟨g1, g2⟩ := ih fuel vi na rg hle' hq hsat
              cases hr : fillTL1 d gi fuel vi na rg with
              | error e => exact goodL_error (fun e' => g1 (by rw [hr, e'])) rg
              | ok p => obtain ⟨x, r⟩ := p; exact goodL_ok (g2 x r hr)
        | array a =>
          simp only
          cases hna : natArgVals [] params a.elem.natArgs with
          | none => exact goodL_error (by decide) rg
          | some na =>
            simp only
            have hsi : rg.inc.cur ≥ rg.inc.maxDepth := by have := inc_eq rg; omega
            by_cases ct : a.isTuple = true
            · rw [if_pos ct]
              cases hn : (if a.dynamic = true then params[0]? else some a.count) with
              | none => exact goodL_error (by decide) rg
              | some m =>
                simp only
                have hqe : satFinite d gi n a.elem.ty = true := by simpa [ct] using hq
                exact elems_inc a.elem na (fun rg' h1 h2 => ih fuel a.elem.ty na rg' hle' hqe (by omega)) m rg.inc (RG.same_refl _)
            · rw [if_neg ct, randomSize_sat hsi]
              simp only [fillElemsWith]
              exact goodL_ok (dec_inc (RG.same_refl _))
        | dict a =>
          simp only
          have hsi : rg.inc.cur ≥ rg.inc.maxDepth := by have := inc_eq rg; omega
          cases hna : natArgVals [] params a.elem.natArgs with
          | none => exact goodL_error (by decide) rg
          | some na =>
            cases hkp : dictKeyPrim d a with
            | none => exact goodL_error (by decide) rg
            | some kp =>
              simp only
              rw [randomSize_sat hsi]
              simp only [fillElemsWith]
              exact goodL_ok (dec_inc (RG.same_refl _))


/-! ### outside the saturated region -/

theorem fillValue_good {fl : Fl} {x : FieldX} {f : Field} {na : List Nat} {rg : RG}
    (hg : x.drawn = true ∨ Good fl f.ty na rg) : GoodL (fillValue fl x f na rg) rg := by
  unfold fillValue
  by_cases c1 : x.usedAsMask = true
  · rw [if_pos c1]; exact goodL_ok (randomFieldMask_same rg _)
  · rw [if_neg c1]
    by_cases c2 : x.usedAsSize = true
    · rw [if_pos c2]; exact goodL_ok (randomSize_same rg)
    · rw [if_neg c2]
      have hd : x.drawn = false := by simp [FieldX.drawn, c1, c2]
      rcases hg with hg | hg
      · rw [hd] at hg; cases hg
      · exact hg

theorem fillFields_term {fl : Fl} {gx : Nat → FieldX} {params : List Nat} {S q : Nat → Bool} {rk : List Nat} {r c m : Nat}
    (hlt : c < m)
    (hPlain : ∀ ty', rkAt rk ty' < r → S ty' = true → ∀ na rg, rg.cur = c → rg.maxDepth = m → Good fl ty' na rg)
    (hBody : ∀ ty', S ty' = true → q ty' = true → ∀ na rg, rg.cur = c + 1 → rg.maxDepth = m → Good fl ty' na rg) :
    ∀ (fields : List Field) (i : Nat) (acc : List (Option Val)) (rg : RG),
      (∀ f ∈ fields, S f.ty = true) → fieldsRanked rk r gx fields i = true → satOkFields q gx fields i = true →
      rg.cur = c → rg.maxDepth = m → GoodL (fillFieldsWith fl gx params fields i acc rg) rg := by
  intro fields
  induction fields with
  | nil => intro i acc rg _ _ _ _ _; simp only [fillFieldsWith]; exact goodL_ok (RG.same_refl rg)
  | cons f fs ih =>
    intro i acc rg hS hrk hcf hc hm
    have hS' : ∀ g ∈ fs, S g.ty = true := fun g hg => hS g (by simp [hg])
    simp only [fieldsRanked, Bool.and_eq_true] at hrk
    simp only [satOkFields, Bool.and_eq_true] at hcf
    simp only [fillFieldsWith]
    cases hp : fieldPresent f acc params with
    | none => exact goodL_error (by decide) rg
    | some b =>
      cases hna : natArgVals acc params f.natArgs with
      | none => cases b <;> exact goodL_error (by decide) rg
      | some na =>
        cases b with
        | false => simp only; exact ih _ _ _ hS' hrk.2 hcf.2 hc hm
        | true =>
          simp only
          by_cases cb : f.isBit = true
          · rw [if_pos cb]; exact ih _ _ _ hS' hrk.2 hcf.2 hc hm
          · rw [if_neg cb]
            have hSf : S f.ty = true := hS f (by simp)
            by_cases cr : (gx i).recursive = true
            · -- an `IncreaseDepth` site: not saturating because `c < m`
              rw [cr]
              simp only [if_true]
              obtain ⟨i1, i2⟩ := inc_lt (rg := rg) (by omega)
              have hgood : (gx i).drawn = true ∨ Good fl f.ty na rg.inc := by
                by_cases cd : (gx i).drawn = true
                · exact Or.inl cd
                · have hq : q f.ty = true := by
                    have := hcf.1
                    simpa [cb, cr, cd] using this
                  exact Or.inr (hBody _ hSf hq na rg.inc (by omega) (by omega))
              obtain ⟨g1, g2⟩ := fillValue_good (fl := fl) (x := gx i) (f := f) (na := na) hgood
              cases hr : fillValue fl (gx i) f na rg.inc with
              | error e => exact goodL_error (fun e' => g1 (by rw [hr, e'])) rg
              | ok p =>
                obtain ⟨v, rg2⟩ := p
                have s1 := dec_after_inc (rg := rg) (by omega) (g2 v rg2 hr)
                obtain ⟨j1, j2⟩ := ih (i + 1) (acc ++ [some v]) rg2.dec hS' hrk.2 hcf.2 (s1.1.trans hc) (s1.2.trans hm)
                simp only
                exact ⟨j1, fun x rg' h => RG.same_trans s1 (j2 x rg' h)⟩
            · have cr' : (gx i).recursive = false := by simpa using cr
              rw [cr']
              simp only [Bool.false_eq_true, if_false]
              have hgood : (gx i).drawn = true ∨ Good fl f.ty na rg := by
                by_cases cd : (gx i).drawn = true
                · exact Or.inl cd
                · have hlt' : rkAt rk f.ty < r := by
                    have := hrk.1
                    simpa [cb, cr', cd] using this
                  exact Or.inr (hPlain _ hlt' hSf na rg hc hm)
              obtain ⟨g1, g2⟩ := fillValue_good (fl := fl) (x := gx i) (f := f) (na := na) hgood
              cases hr : fillValue fl (gx i) f na rg with
              | error e => exact goodL_error (fun e' => g1 (by rw [hr, e'])) rg
              | ok p =>
                obtain ⟨v, rg2⟩ := p
                have s1 := g2 v rg2 hr
                obtain ⟨j1, j2⟩ := ih (i + 1) (acc ++ [some v]) rg2 hS' hrk.2 hcf.2 (s1.1.trans hc) (s1.2.trans hm)
                simp only
                exact ⟨j1, fun x rg' h => RG.same_trans s1 (j2 x rg' h)⟩


theorem fillRanked_variant {gi : GenInfo} {rk : List Nat} {ty : Nat} {u : UnionD} (h : Inst.fillRanked gi rk ty (.union u) = true)
    {i vi : Nat} {nm : String} (hv : u.variants[i]? = some (vi, nm)) : rkAt rk vi < rkAt rk ty := by
  simp only [Inst.fillRanked, List.all_eq_true, decide_eq_true_eq] at h
  exact h (vi, nm) (List.mem_of_getElem? hv)

/-- **termination** on a reference-closed set `S` satisfying the guards: with `k = maxDepth − curDepth ≥ 1`, fuel
`k · (|d| + 1) + rank + 1` suffices, and the call returns with the depth counters unchanged -/
theorem fillTL1_term (d : Desc) (gi : GenInfo) (rk : List Nat) (S : Nat → Bool) (hcl : d.closed S = true)
    (hbd : d.allOnI S (fun i _ => decide (rkAt rk i ≤ d.insts.size)) = true)
    (hrk : d.allOnI S (Inst.fillRanked gi rk) = true) (hcf : d.allOnI S (Inst.satOk d gi) = true) :
    ∀ (fuel k ty : Nat) (params : List Nat) (rg : RG), S ty = true → 1 ≤ k → rg.cur + k = rg.maxDepth →
      k * (d.insts.size + 1) + rkAt rk ty + 1 ≤ fuel → Good (fillTL1 d gi fuel) ty params rg := by
  intro fuel
  induction fuel with
  | zero => intro k ty params rg _ _ _ h; omega
  | succ fuel ih =>
    intro k ty params rg hSty hk hck hfuel
    have hlt : rg.cur < rg.maxDepth := by omega
    -- bodies entered through an `IncreaseDepth` site
    have hBody : ∀ ty', S ty' = true → satFinite d gi (d.insts.size + 1) ty' = true ∨ 2 ≤ k →
        ∀ na rg', rg'.cur = rg.cur + 1 → rg'.maxDepth = rg.maxDepth → Good (fillTL1 d gi fuel) ty' na rg' := by
      intro ty' hS' hq na rg' h1 h2
      by_cases ck : 2 ≤ k
      · have hK : d.insts.size + 1 ≤ fuel := by
          have : 1 * (d.insts.size + 1) ≤ k * (d.insts.size + 1) := Nat.mul_le_mul_right _ hk
          omega
        cases hg' : d.get? ty' with
        | none =>
          -- an index outside the descriptor is answered `.error .desc` at once
          cases hf : fuel with
          | zero => omega
          | succ f' =>
            unfold Good
            simp only [fillTL1, hg']
            exact goodL_error (by decide) rg'
        | some inst =>
          have hb' : rkAt rk ty' ≤ d.insts.size := by simpa using Desc.allOnI_get hbd hg' hS'
          have hmul : (k - 1) * (d.insts.size + 1) + (d.insts.size + 1) = k * (d.insts.size + 1) := by
            have : k = (k - 1) + 1 := by omega
            rw [this, Nat.add_mul, Nat.one_mul]; simp
          exact ih (k - 1) ty' na rg' hS' (by omega) (by omega) (by omega)
      · have hk1 : k = 1 := by omega
        rcases hq with hq | hq
        · have hK : d.insts.size + 1 ≤ fuel := by
            have : 1 * (d.insts.size + 1) ≤ k * (d.insts.size + 1) := Nat.mul_le_mul_right _ hk
            omega
          exact fillTL1_quiet d gi _ fuel ty' na rg' hK hq (by omega)
        · omega
    unfold Good
    simp only [fillTL1]
    cases hg : d.get? ty with
    | none => exact goodL_error (by decide) rg
    | some inst =>
      have hrefs := Desc.closed_get hcl hg hSty
      have hir := Desc.allOnI_get hrk hg hSty
      have hic := Desc.allOnI_get hcf hg hSty
      cases inst with
      | prim p => exact goodL_ok (fillPrim_same p rg)
      | struct s =>
        simp only
        by_cases co : s.originTL2 = true
        · rw [if_pos co]; exact goodL_error (by decide) rg
        · rw [if_neg co]
          simp only [Inst.fillRanked] at hir
          simp only [Inst.satOk] at hic
          have hfl := fillFields_term (fl := fillTL1 d gi fuel) (gx := structGx gi ty s) (params := params) (S := S)
            (q := satFinite d gi (d.insts.size + 1)) (rk := rk) (r := rkAt rk ty) (c := rg.cur) (m := rg.maxDepth) hlt
            (fun ty' hlt' hS' na rg' h1 h2 => ih k ty' na rg' hS' hk (by omega) (by omega))
            (fun ty' hS' hq na rg' h1 h2 => hBody ty' hS' (Or.inl hq) na rg' h1 h2)
            s.fields 0 [] rg (fun f hf => hrefs _ (by simp only [Inst.refs]; exact List.mem_map_of_mem hf)) hir hic rfl rfl
          obtain ⟨g1, g2⟩ := hfl
          cases hr : fillFieldsWith (fillTL1 d gi fuel) (structGx gi ty s) params s.fields 0 [] rg with
          | error e => exact goodL_error (fun e' => g1 (by rw [hr, e'])) rg
          | ok p => obtain ⟨fs, r⟩ := p; exact goodL_ok (g2 fs r hr)
      | union u =>
        simp only
        cases hv : u.variants[(randomUint rg).1 % u.variants.length]? with
        | none => exact goodL_error (by decide) rg
        | some q =>
          obtain ⟨vi, nm⟩ := q
          cases hna : natArgVals [] params u.elemNatArgs with
          | none => exact goodL_error (by decide) rg
          | some na =>
            simp only
            have hSvi : S vi = true := hrefs _ (by
              simp only [Inst.refs]; exact List.mem_map_of_mem (f := (·.1)) (List.mem_of_getElem? hv))
            have hlt' := fillRanked_variant hir hv
            have s0 := randomUint_same rg
            obtain ⟨g1, g2⟩ := ih k vi na (randomUint rg).2 hSvi hk (by rw [s0.1, s0.2]; exact hck) (by omega)
            cases hr : fillTL1 d gi fuel vi na (randomUint rg).2 with
            | error e => exact goodL_error (fun e' => g1 (by rw [hr, e'])) rg
            | ok p => obtain ⟨x, r⟩ := p; exact goodL_ok (RG.same_trans s0 (g2 x r hr))
      | array a =>
        simp only
        have hSe : S a.elem.ty = true := hrefs _ (by simp [Inst.refs])
        cases hna : natArgVals [] params a.elem.natArgs with
        | none => exact goodL_error (by decide) rg
        | some na =>
          simp only
          by_cases ct : a.isTuple = true
          · rw [if_pos ct]
            cases hn : (if a.dynamic = true then params[0]? else some a.count) with
            | none => exact goodL_error (by decide) rg
            | some n =>
              simp only
              have hq : satFinite d gi (d.insts.size + 1) a.elem.ty = true := by
                simpa [Inst.satOk, ct] using hic
              exact elems_after_inc a.elem na hlt (hBody _ hSe (Or.inl hq) na) n rg.inc (RG.same_refl _)
          · rw [if_neg ct]
            by_cases ck : 2 ≤ k
            · exact elems_after_inc a.elem na hlt (hBody _ hSe (Or.inr ck) na) _ _ (randomSize_same _)
            · -- `k = 1`: the increase saturates the depth, the size drawn is 0
              obtain ⟨i1, i2⟩ := inc_lt hlt
              have hsat : rg.inc.cur ≥ rg.inc.maxDepth := by omega
              rw [randomSize_sat hsat]
              simp only [fillElemsWith]
              exact goodL_ok (dec_after_inc hlt (RG.same_refl _))
      | dict a =>
        simp only
        have hSe : S a.elem.ty = true := hrefs _ (by simp [Inst.refs])
        cases hna : natArgVals [] params a.elem.natArgs with
        | none => exact goodL_error (by decide) rg
        | some na =>
          cases hkp : dictKeyPrim d a with
          | none => exact goodL_error (by decide) rg
          | some kp =>
            simp only
            obtain ⟨i1, i2⟩ := inc_lt hlt
            by_cases ck : 2 ≤ k
            · have s0 := randomSize_same rg.inc
              obtain ⟨g1, g2⟩ := fillElems_good a.elem na (hBody _ hSe (Or.inr ck) na) (randomSize rg.inc).1 (randomSize rg.inc).2
                (by rw [s0.1]; exact i1) (by rw [s0.2]; exact i2)
              cases hr : fillElemsWith (fillTL1 d gi fuel) a.elem na (randomSize rg.inc).1 (randomSize rg.inc).2 with
              | error e => exact goodL_error (fun e' => g1 (by rw [hr, e'])) rg
              | ok p =>
                obtain ⟨vs, rg2⟩ := p
                exact goodL_ok (dec_after_inc hlt (RG.same_trans s0 (g2 vs rg2 hr)))
            · have hsat : rg.inc.cur ≥ rg.inc.maxDepth := by omega
              rw [randomSize_sat hsat]
              simp only [fillElemsWith]
              exact goodL_ok (dec_after_inc hlt (RG.same_refl _))

end TLVerif.Codec
