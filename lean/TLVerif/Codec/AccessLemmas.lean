import TLVerif.Codec.Access
/-! Lemmas about the accessor model (C43): what `Set`/`Clear` change and what they leave alone. -/
namespace TLVerif.Codec

theorem testBit_eq_nat (n b : Nat) : testBit n b = n.testBit b := by
  unfold testBit
  rw [Nat.testBit_eq_decide_div_mod_eq]
  by_cases h : n / 2 ^ b % 2 = 1 <;> simp [h]

theorem testBit_setBitN_self (n bit : Nat) : testBit (setBitN n bit) bit = true := by
  rw [testBit_eq_nat, setBitN, Nat.testBit_or, Nat.testBit_two_pow_self, Bool.or_true]

theorem testBit_setBitN_ne (n : Nat) {bit b : Nat} (h : b ≠ bit) : testBit (setBitN n bit) b = testBit n b := by
  rw [testBit_eq_nat, testBit_eq_nat, setBitN, Nat.testBit_or, Nat.testBit_two_pow_of_ne (Ne.symm h), Bool.or_false]

theorem testBit_clearBitN_self (n bit : Nat) : testBit (clearBitN n bit) bit = false := by
  rw [testBit_eq_nat, clearBitN, Nat.testBit_xor, Nat.testBit_and, Nat.testBit_two_pow_self, Bool.and_true]
  cases n.testBit bit <;> rfl

theorem testBit_clearBitN_ne (n : Nat) {bit b : Nat} (h : b ≠ bit) : testBit (clearBitN n bit) b = testBit n b := by
  rw [testBit_eq_nat, testBit_eq_nat, clearBitN, Nat.testBit_xor, Nat.testBit_and, Nat.testBit_two_pow_of_ne (Ne.symm h),
    Bool.and_false, Bool.xor_false]

/-- the mask reference can be assigned in this object, and is not the field `i` itself -/
def AObj.assignable (o : AObj) (i : Nat) : NatArg → Prop
  | .num _ => False
  | .param p => p < o.params.length
  | .field j => j < o.vals.length ∧ j ≠ i

theorem maskVal_withMask {o : AObj} {i : Nat} {a : NatArg} (h : o.assignable i a) (n : Nat) : (o.withMask a n).maskVal a = n := by
  cases a with
  | num m => exact absurd h (by simp [AObj.assignable])
  | param p =>
    simp only [AObj.assignable] at h
    simp only [AObj.withMask, AObj.maskVal, List.getElem?_set_self h]
  | field j =>
    simp only [AObj.assignable] at h
    simp only [AObj.withMask, AObj.maskVal, List.getElem?_set_self h.1]

theorem maskVal_withMask_ne (o : AObj) {a a' : NatArg} (h : a' ≠ a) (n : Nat) : (o.withMask a n).maskVal a' = o.maskVal a' := by
  cases a with
  | num m => rfl
  | param p =>
    cases a' with
    | num m => rfl
    | field j => rfl
    | param p' =>
      have hp : p ≠ p' := fun e => h (by rw [e])
      simp only [AObj.withMask, AObj.maskVal, List.getElem?_set_ne hp]
  | field j =>
    cases a' with
    | num m => rfl
    | param p' => rfl
    | field j' =>
      have hj : j ≠ j' := fun e => h (by rw [e])
      simp only [AObj.withMask, AObj.maskVal, List.getElem?_set_ne hj]

theorem withMask_tl2 (o : AObj) (a : NatArg) (n : Nat) : (o.withMask a n).tl2 = o.tl2 := by
  cases a <;> rfl

/-- storing a value into field `i` does not change what a mask reference other than `.field i` reads -/
theorem maskVal_setVal (o : AObj) (i : Nat) (x : Option Val) {a : NatArg} (h : a ≠ .field i) :
    ({ o with vals := o.vals.set i x } : AObj).maskVal a = o.maskVal a := by
  cases a with
  | num m => rfl
  | param p => rfl
  | field j =>
    have hj : i ≠ j := fun e => h (by rw [e])
    simp only [AObj.maskVal, List.getElem?_set_ne hj]


theorem assignable_setVal {o : AObj} {i : Nat} {a : NatArg} (h : o.assignable i a) (k : Nat) (x : Option Val) :
    ({ o with vals := o.vals.set k x } : AObj).assignable i a := by
  cases a with
  | num m => exact h
  | param p => exact h
  | field j => simpa [AObj.assignable] using h

/-! ### components of the state after `Set` -/

theorem set_eq {o : AObj} {fields : List Field} {i : Nat} {f : Field} (hf : fields[i]? = some f) (v : Val) (b : Bool) :
    o.set fields i v b =
      let o2 := match f.mask with
        | some (a, bit) => (o.stored f i v).withMask a (newMask f b ((o.stored f i v).maskVal a) bit)
        | none => o.stored f i v
      match f.tl2bit with
      | some _ => { o2 with tl2 := o2.tl2.set i (if f.isBit then b else true) }
      | none => o2 := by
  simp only [AObj.set, hf]
  rfl

theorem maskVal_setTl2 (o : AObj) (t : List Bool) (a : NatArg) : ({ o with tl2 := t } : AObj).maskVal a = o.maskVal a := by
  cases a <;> rfl

theorem stored_tl2 (o : AObj) (f : Field) (i : Nat) (v : Val) : (o.stored f i v).tl2 = o.tl2 := by
  unfold AObj.stored; split <;> rfl

theorem stored_params (o : AObj) (f : Field) (i : Nat) (v : Val) : (o.stored f i v).params = o.params := by
  unfold AObj.stored; split <;> rfl

theorem stored_assignable {o : AObj} {i : Nat} {a : NatArg} (h : o.assignable i a) (f : Field) (v : Val) :
    (o.stored f i v).assignable i a := by
  unfold AObj.stored; split
  · exact h
  · exact assignable_setVal h _ _

theorem stored_maskVal (o : AObj) (f : Field) (i : Nat) (v : Val) {a : NatArg} (h : a ≠ .field i) :
    (o.stored f i v).maskVal a = o.maskVal a := by
  unfold AObj.stored; split
  · rfl
  · exact maskVal_setVal o i _ h

theorem assignable_ne_self {o : AObj} {i : Nat} {a : NatArg} (h : o.assignable i a) : a ≠ .field i := by
  intro e; subst e; exact h.2 rfl

theorem set_tl2 {o : AObj} {fields : List Field} {i : Nat} {f : Field} (hf : fields[i]? = some f) (v : Val) (b : Bool) :
    (o.set fields i v b).tl2 = match f.tl2bit with
      | some _ => o.tl2.set i (if f.isBit then b else true)
      | none => o.tl2 := by
  rw [set_eq hf]
  cases f.mask with
  | none => cases f.tl2bit <;> simp [stored_tl2]
  | some p => obtain ⟨a, bit⟩ := p; cases f.tl2bit <;> simp [stored_tl2, withMask_tl2]

theorem set_maskVal_self {o : AObj} {fields : List Field} {i : Nat} {f : Field} (hf : fields[i]? = some f) (v : Val) (b : Bool)
    {a : NatArg} {bit : Nat} (hm : f.mask = some (a, bit)) (ha : o.assignable i a) :
    (o.set fields i v b).maskVal a = newMask f b (o.maskVal a) bit := by
  rw [set_eq hf, hm]
  have e := stored_maskVal o f i v (assignable_ne_self ha)
  have h1 := maskVal_withMask (stored_assignable ha f v) (newMask f b ((o.stored f i v).maskVal a) bit)
  cases f.tl2bit with
  | none => simp only; rw [h1, e]
  | some t => simp only; rw [maskVal_setTl2, h1, e]

/-- a mask reference other than the field's own mask and other than the field itself reads the same value -/
theorem set_maskVal_ne {o : AObj} {fields : List Field} {i : Nat} {f : Field} (hf : fields[i]? = some f) (v : Val) (b : Bool)
    {a' : NatArg} (h1 : a' ≠ .field i) (h2 : ∀ a bit, f.mask = some (a, bit) → a' ≠ a) :
    (o.set fields i v b).maskVal a' = o.maskVal a' := by
  rw [set_eq hf]
  have e := stored_maskVal o f i v h1
  cases hm : f.mask with
  | none =>
    cases f.tl2bit with
    | none => simp only; exact e
    | some t => simp only; rw [maskVal_setTl2]; exact e
  | some p =>
    obtain ⟨a, bit⟩ := p
    have h3 := maskVal_withMask_ne (o.stored f i v) (h2 a bit hm) (newMask f b ((o.stored f i v).maskVal a) bit)
    cases f.tl2bit with
    | none => simp only; rw [h3, e]
    | some t => simp only; rw [maskVal_setTl2, h3, e]

theorem withMask_vals_ne (o : AObj) (a : NatArg) (n : Nat) {k : Nat} (h : a ≠ .field k) : (o.withMask a n).vals[k]? = o.vals[k]? := by
  cases a with
  | num m => rfl
  | param p => rfl
  | field j =>
    have hj : j ≠ k := fun e => h (by rw [e])
    simp only [AObj.withMask, List.getElem?_set_ne hj]

theorem set_vals_ne {o : AObj} {fields : List Field} {i : Nat} {f : Field} (hf : fields[i]? = some f) (v : Val) (b : Bool)
    {k : Nat} (hk : k ≠ i) (hmk : ∀ a bit, f.mask = some (a, bit) → a ≠ .field k) :
    (o.set fields i v b).vals[k]? = o.vals[k]? := by
  rw [set_eq hf]
  have hs : (o.stored f i v).vals[k]? = o.vals[k]? := by
    unfold AObj.stored; split
    · rfl
    · simp only [List.getElem?_set_ne (Ne.symm hk)]
  cases hm : f.mask with
  | none => cases f.tl2bit <;> simpa using hs
  | some p =>
    obtain ⟨a, bit⟩ := p
    have := withMask_vals_ne (o.stored f i v) a (newMask f b ((o.stored f i v).maskVal a) bit) (hmk a bit hm)
    rw [hs] at this
    cases f.tl2bit <;> simpa using this

/-! ### components of the state after `Clear` -/

theorem clear_eq {o : AObj} {fields : List Field} {i : Nat} {f : Field} (hf : fields[i]? = some f) :
    o.clear fields i =
      let o1 : AObj := { o with vals := o.vals.set i none }
      let o2 := match f.mask with
        | some (a, bit) => o1.withMask a (clearBitN (o1.maskVal a) bit)
        | none => o1
      match f.tl2bit with
      | some _ => { o2 with tl2 := o2.tl2.set i false }
      | none => o2 := by
  simp only [AObj.clear, hf]
  rfl

theorem clear_tl2 {o : AObj} {fields : List Field} {i : Nat} {f : Field} (hf : fields[i]? = some f) :
    (o.clear fields i).tl2 = match f.tl2bit with
      | some _ => o.tl2.set i false
      | none => o.tl2 := by
  rw [clear_eq hf]
  cases f.mask with
  | none => cases f.tl2bit <;> simp
  | some p => obtain ⟨a, bit⟩ := p; cases f.tl2bit <;> simp [withMask_tl2]

theorem clear_maskVal_self {o : AObj} {fields : List Field} {i : Nat} {f : Field} (hf : fields[i]? = some f)
    {a : NatArg} {bit : Nat} (hm : f.mask = some (a, bit)) (ha : o.assignable i a) :
    (o.clear fields i).maskVal a = clearBitN (o.maskVal a) bit := by
  rw [clear_eq hf, hm]
  have e := maskVal_setVal o i none (assignable_ne_self ha)
  have h1 := maskVal_withMask (assignable_setVal ha i none)
    (clearBitN (({ o with vals := o.vals.set i none } : AObj).maskVal a) bit)
  cases f.tl2bit with
  | none => simp only; rw [h1, e]
  | some t => simp only; rw [maskVal_setTl2, h1, e]

theorem clear_maskVal_ne {o : AObj} {fields : List Field} {i : Nat} {f : Field} (hf : fields[i]? = some f)
    {a' : NatArg} (h1 : a' ≠ .field i) (h2 : ∀ a bit, f.mask = some (a, bit) → a' ≠ a) :
    (o.clear fields i).maskVal a' = o.maskVal a' := by
  rw [clear_eq hf]
  have e := maskVal_setVal o i none h1
  cases hm : f.mask with
  | none =>
    cases f.tl2bit with
    | none => simp only; exact e
    | some t => simp only; rw [maskVal_setTl2]; exact e
  | some p =>
    obtain ⟨a, bit⟩ := p
    have h3 := maskVal_withMask_ne ({ o with vals := o.vals.set i none } : AObj) (h2 a bit hm)
      (clearBitN (({ o with vals := o.vals.set i none } : AObj).maskVal a) bit)
    cases f.tl2bit with
    | none => simp only; rw [h3, e]
    | some t => simp only; rw [maskVal_setTl2, h3, e]

theorem clear_vals_ne {o : AObj} {fields : List Field} {i : Nat} {f : Field} (hf : fields[i]? = some f)
    {k : Nat} (hk : k ≠ i) (hmk : ∀ a bit, f.mask = some (a, bit) → a ≠ .field k) :
    (o.clear fields i).vals[k]? = o.vals[k]? := by
  rw [clear_eq hf]
  have hs : (({ o with vals := o.vals.set i none } : AObj)).vals[k]? = o.vals[k]? := by
    simp only [List.getElem?_set_ne (Ne.symm hk)]
  cases hm : f.mask with
  | none => cases f.tl2bit <;> simpa using hs
  | some p =>
    obtain ⟨a, bit⟩ := p
    have := withMask_vals_ne ({ o with vals := o.vals.set i none } : AObj) a
      (clearBitN (({ o with vals := o.vals.set i none } : AObj).maskVal a) bit) (hmk a bit hm)
    rw [hs] at this
    cases f.tl2bit <;> simpa using this


theorem withMask_params_ne (o : AObj) (a : NatArg) (n : Nat) {p : Nat} (h : a ≠ .param p) : (o.withMask a n).params[p]? = o.params[p]? := by
  cases a with
  | num m => rfl
  | field j => rfl
  | param q =>
    have hq : q ≠ p := fun e => h (by rw [e])
    simp only [AObj.withMask, List.getElem?_set_ne hq]

theorem set_params_ne {o : AObj} {fields : List Field} {i : Nat} {f : Field} (hf : fields[i]? = some f) (v : Val) (b : Bool)
    {p : Nat} (hmk : ∀ a bit, f.mask = some (a, bit) → a ≠ .param p) :
    (o.set fields i v b).params[p]? = o.params[p]? := by
  rw [set_eq hf]
  cases hm : f.mask with
  | none => cases f.tl2bit <;> simp [stored_params]
  | some q =>
    obtain ⟨a, bit⟩ := q
    have := withMask_params_ne (o.stored f i v) a (newMask f b ((o.stored f i v).maskVal a) bit) (hmk a bit hm)
    rw [stored_params] at this
    cases f.tl2bit <;> simpa using this

theorem clear_params_ne {o : AObj} {fields : List Field} {i : Nat} {f : Field} (hf : fields[i]? = some f)
    {p : Nat} (hmk : ∀ a bit, f.mask = some (a, bit) → a ≠ .param p) :
    (o.clear fields i).params[p]? = o.params[p]? := by
  rw [clear_eq hf]
  cases hm : f.mask with
  | none => cases f.tl2bit <;> simp
  | some q =>
    obtain ⟨a, bit⟩ := q
    have := withMask_params_ne ({ o with vals := o.vals.set i none } : AObj) a
      (clearBitN (({ o with vals := o.vals.set i none } : AObj).maskVal a) bit) (hmk a bit hm)
    cases f.tl2bit <;> simpa using this

end TLVerif.Codec
