import TLVerif.Util.Hex
import TLVerif.Codec.TL1
import TLVerif.Codec.JsonPrim
/-!
JSON model of the generated Go code: `writeJson` follows `WriteJSONOpt` (qt_struct.qtpl `writeJSONCode`,
qt_union.qtpl, qt_brackets.qtpl, qt_dict.qtpl, qt_maybe.qtpl, `typeJSONEmptyCondition` of type_rw_*.go),
`readJson` follows `ReadJSONGeneral` (qt_struct.qtpl `readJSONCode` with its BLOCKs, qt_helpers.qtpl
`Json2Read*`, union / maybe / brackets / dict readers).  Both work on JSON *trees* with ordered, possibly
duplicated keys; strings are byte strings (after unescaping), numbers keep their token text.
The textual layer (parser, printer, RFC 8259 grammar) is in `JsonText.lean`.

Presence of a struct field in `Val` (`none`/`some`): for fields that have a hidden TL2 presence bit
(`tl2bit`) it is that bit; for other masked fields it is the TL1 mask bit; unmasked fields are always `some`.
-/
namespace TLVerif.Codec
open TLVerif.Prim TLVerif.Util

inductive Json where
  | null
  | bool (b : Bool)
  | num (t : List Char)                 -- number token text
  | str (b : Bytes)                     -- string content (bytes after unescaping)
  | arr (es : List Json)
  | obj (kvs : List (Bytes × Json))     -- members in order, duplicates kept
  deriving Repr, Inhabited

/-- UTF-8 bytes of a list of characters / of a string (written with `toList` so that it reduces in the kernel) -/
def charsBytes (cs : List Char) : Bytes := cs.flatMap (fun c => utf8Encode c.toNat)
def strBytes (s : String) : Bytes := charsBytes s.toList

/-- the fixed member names of the JSON mapping, as bytes -/
def kType : Bytes := [116, 121, 112, 101]
def kValue : Bytes := [118, 97, 108, 117, 101]
def kOk : Bytes := [111, 107]
def kBase64 : Bytes := [98, 97, 115, 101, 54, 52]

/-! ### canonical one-word dump (line protocol): `z t f n<text> s<hex> [a,b] {<hexkey>:v,…}` -/

def hexRaw (bs : Bytes) : String :=
  String.ofList (bs.foldr (fun b acc => hexDigit (b.toNat / 16) :: hexDigit (b.toNat % 16) :: acc) [])

mutual
  def Json.dump : Json → String
    | .null => "z"
    | .bool true => "t"
    | .bool false => "f"
    | .num t => "n" ++ String.ofList t
    | .str b => "s" ++ hexRaw b
    | .arr es => "[" ++ dumpList es ++ "]"
    | .obj kvs => "{" ++ dumpMembers kvs ++ "}"
  def dumpList : List Json → String
    | [] => ""
    | [j] => j.dump
    | j :: js => j.dump ++ "," ++ dumpList js
  def dumpMembers : List (Bytes × Json) → String
    | [] => ""
    | [(k, j)] => hexRaw k ++ ":" ++ j.dump
    | (k, j) :: r => hexRaw k ++ ":" ++ j.dump ++ "," ++ dumpMembers r
end

/-! ### descriptor helpers -/

def instName (d : Desc) (i : Nat) : String := d.tlnames.getD i ""

def containsSub (s sub : List Char) : Bool :=
  match s with
  | [] => sub.isEmpty
  | _ :: t => sub.isPrefixOf s || containsSub t sub

/-- JSON name of union variant `vi` (qt_union.qtpl: TL name, or the TL2 variant name for names containing `__`) -/
def variantJsonName (d : Desc) (vi : Nat) (vname : String) : String :=
  let name := instName d vi
  if containsSub name.toList ['_', '_'] then vname else name

def isTrueType (d : Desc) (ty : Nat) : Bool :=
  match d.get? ty with
  | some (.struct s) => s.fields.isEmpty
  | _ => false

/-- TL2-omitted field (`_`-prefixed / anonymous TL2 field): no JSON key -/
def fieldOmitted (s : StructD) (f : Field) : Bool :=
  (match f.name.toList with | '_' :: _ => true | _ => false) || (f.name == "" && s.originTL2)

def dependsOnLocal (f : Field) : Bool := f.natArgs.any (fun a => match a with | .field _ => true | _ => false)

/-- Go `!= 0` / `len != 0` / `.Ok` / `b` conditions of `typeJSONEmptyCondition`; `none` = the type has no condition -/
def emptyCond (d : Desc) : Nat → Nat → Val → Option Bool
  | 0, _, _ => none
  | fuel + 1, ty, v =>
    match d.get? ty with
    | some (.prim k) =>
      match k, v with
      | .str, .str s => some (!s.isEmpty)
      | .bool _ _, .bool b => some b
      -- floats: `x != 0 || 1/x < 0`, i.e. the bit pattern is non-zero (-0.0 is not empty); integers: `x != 0`
      | .bit, _ => none
      | _, .nat n => some (n != 0)
      | _, _ => none
    | some (.struct s) =>
      if s.isTypedef then
        match s.fields, v with
        | [f], .struct [some x] => emptyCond d fuel f.ty x
        | _, _ => none
      else none
    | some (.union u) =>
      if u.isMaybe then (match v with | .union i _ => some (i != 0) | _ => none) else none
    | some (.array a) =>
      if !a.isTuple || a.dynamic then (match v with | .arr es => some (!es.isEmpty) | _ => none) else none
    | some (.dict _) => (match v with | .arr es => some (!es.isEmpty) | _ => none)
    | none => none

/-! ### hidden fields
A value produced by the JSON reader of a TL2-enabled type can hold a field whose TL1 mask bit is set while its hidden
TL2 presence bit is clear (the JSON/TL2 writers skip it, the TL1 writer writes it). Such a field is stored as
`some (hidden v)`; no reader of TL1 bytes produces it. -/

def hiddenTag : Nat := 2 ^ 32
def hidden (v : Val) : Val := .union hiddenTag v
def isHidden : Val → Bool
  | .union i _ => i == hiddenTag
  | _ => false
def unhide : Val → Val
  | .union i v => if i == hiddenTag then v else .union i v
  | v => v

/-! ### writer -/

abbrev Wj := Nat → List Nat → Val → Except CErr Json     -- type index, nat args, value

def writePrimJ (k : PrimK) (v : Val) : Except CErr Json :=
  match k, v with
  | .u32, .nat n => .ok (.num (natText (n % 2 ^ 32)))
  | .u64, .nat n => .ok (.num (natText (n % 2 ^ 64)))
  | .byte, .nat n => .ok (.num (natText (n % 256)))
  | .i32, .nat n => .ok (.num (intText 32 n))
  | .i64, .nat n => .ok (.num (intText 64 n))
  | .f32, .nat n =>
    match classify fmt32 n with
    | .nan => .ok (.str (strBytes "NaN"))
    | .inf neg => .ok (.str (strBytes (if neg then "-Inf" else "+Inf")))
    | .fin _ _ _ => .ok (.num (floatText fmt32 n))
  | .f64, .nat n =>
    match classify fmt64 n with
    | .nan => .ok (.str (strBytes "NaN"))
    | .inf neg => .ok (.str (strBytes (if neg then "-Inf" else "+Inf")))
    | .fin _ _ _ => .ok (.num (floatText fmt64 n))
  | .str, .str s => .ok (if utf8Valid s then .str s else .obj [(kBase64, .str (base64Encode s))])
  | .bool _ _, .bool b => .ok (.bool b)
  | _, _ => .error .shape

/-- presence test used by the JSON writer for a masked field -/
def presentJ (f : Field) (all : List (Option Val)) (params : List Nat) (v : Option Val) : Option Bool :=
  match f.tl2bit with
  | some _ => some (match v with | some x => !isHidden x | none => false)
  | none => fieldPresent f all params

def writeFieldsJ (d : Desc) (fuel : Nat) (wj : Wj) (s : StructD) (params : List Nat) (all : List (Option Val)) :
    List Field → List (Option Val) → Except CErr (List (Bytes × Json))
  | [], [] => .ok []
  | f :: fs, v :: vs =>
    match writeFieldsJ d fuel wj s params all fs vs with
    | .error e => .error e
    | .ok rest =>
      if fieldOmitted s f then .ok rest else
      match presentJ f all params v, natArgVals all params f.natArgs with
      | some pres, some na =>
        if f.isBit then
          .ok (if pres then (strBytes f.name, .bool true) :: rest else rest)
        else if isTrueType d f.ty then .ok rest
        else if f.mask.isSome || f.tl2bit.isSome then
          if !pres then .ok rest else
          match v with
          | none => .error .shape
          | some x =>
            match wj f.ty na x with
            | .error e => .error e
            | .ok j => .ok ((strBytes f.name, j) :: rest)
        else
          match v with
          | none => .error .shape
          | some x =>
            match emptyCond d fuel f.ty x with
            | some false =>
              -- TL1-origin code writes first and truncates afterwards: a write error still surfaces
              if s.originTL2 then .ok rest else
              (match wj f.ty na x with
               | .error e => .error e
               | .ok _ => .ok rest)
            | _ =>
              match wj f.ty na x with
              | .error e => .error e
              | .ok j => .ok ((strBytes f.name, j) :: rest)
      | _, _ => .error .desc
  | _, _ => .error .shape

def writeElemsJ (wj : Wj) (f : Field) (na : List Nat) : List Val → Except CErr (List Json)
  | [] => .ok []
  | v :: vs =>
    match wj f.ty na v with
    | .error e => .error e
    | .ok j =>
      match writeElemsJ wj f na vs with
      | .error e => .error e
      | .ok js => .ok (j :: js)

/-- text of a dictionary key that is not a string: the key's JSON token between quotes -/
def keyTokenBytes : Json → Option Bytes
  | .num t => some (t.map (fun c => byteOf c.toNat))
  | .bool true => some (strBytes "true")
  | .bool false => some (strBytes "false")
  | _ => none

def dictKeyIsString (d : Desc) (kty : Nat) : Bool :=
  match d.get? kty with
  | some (.prim .str) => true
  | _ => false

def writeDictJ (d : Desc) (wj : Wj) (kf vf : Field) (kna vna : List Nat) : List Val → Except CErr (List (Bytes × Json))
  | [] => .ok []
  | .struct [some k, some v] :: es =>
    let key : Except CErr Bytes :=
      -- string keys: `JSONWriteString(key)`. For a key that is not valid UTF-8 Go emits `{"base64":…}` in key position,
      -- which is not JSON (finding F1): the model has no tree for it and reports a writer error.
      if dictKeyIsString d kf.ty then (match k with | .str s => if utf8Valid s then .ok s else .error .shape | _ => .error .shape)
      else match wj kf.ty kna k with
        | .error e => .error e
        | .ok j => match keyTokenBytes j with | some b => .ok b | none => .error .shape
    match key, wj vf.ty vna v, writeDictJ d wj kf vf kna vna es with
    | .ok kb, .ok jv, .ok rest => .ok ((kb, jv) :: rest)
    | .error e, _, _ => .error e
    | _, .error e, _ => .error e
    | _, _, .error e => .error e
  | _ :: _ => .error .shape

def writeJson (d : Desc) : Nat → Wj
  | 0 => fun _ _ _ => .error .fuel
  | fuel + 1 => fun ty params v =>
    match d.get? ty with
    | none => .error .desc
    | some (.prim k) => writePrimJ k v
    | some (.struct s) =>
      match v with
      | .struct fs =>
        if s.isTypedef || s.isUnwrap then
          match s.fields, fs with
          | [f], [some x] =>
            match natArgVals [] params f.natArgs with
            | some na => writeJson d fuel f.ty na x
            | none => .error .desc
          | _, _ => .error .shape
        else
          -- mask / size lookups see the stored values of hidden fields; presence tests see the raw entries
          (writeFieldsJ d fuel (writeJson d fuel) s params (fs.map (·.map unhide)) s.fields fs).map Json.obj
      | _ => .error .shape
    | some (.union u) =>
      match v with
      | .union i x =>
        match u.variants[i]?, natArgVals [] params u.elemNatArgs with
        | some (vi, vname), some vparams =>
          if u.isMaybe then
            if i == 0 then .ok (.obj []) else
            match d.get? vi, x with
            | some (.struct vs), .struct [some e] =>
              match vs.fields with
              | [f] =>
                match natArgVals [] vparams f.natArgs with
                | none => .error .desc
                | some ena =>
                  match emptyCond d fuel f.ty e with
                  | some false => .ok (.obj [(kOk, .bool true)])
                  | _ =>
                    match writeJson d fuel f.ty ena e with
                    | .error er => .error er
                    | .ok j => .ok (.obj [(kOk, .bool true), (kValue, j)])
              | _ => .error .desc
            | _, _ => .error .shape
          else
            let name := strBytes (variantJsonName d vi vname)
            if u.isEnum then .ok (.str name)
            else if isTrueType d vi then .ok (.obj [(kType, .str name)])
            else
              match emptyCond d fuel vi x with
              | some false => .ok (.obj [(kType, .str name)])
              | _ =>
                match writeJson d fuel vi vparams x with
                | .error e => .error e
                | .ok j => .ok (.obj [(kType, .str name), (kValue, j)])
        | none, _ => .error .shape
        | _, none => .error .desc
      | _ => .error .shape
    | some (.array a) =>
      match v, natArgVals [] params a.elem.natArgs with
      | .arr es, some na =>
        if a.isTuple then
          match (if a.dynamic then params[0]? else some a.count) with
          | none => .error .desc
          | some n =>
            if es.length ≠ n then .error .shape
            else (writeElemsJ (writeJson d fuel) a.elem na es).map Json.arr
        else (writeElemsJ (writeJson d fuel) a.elem na es).map Json.arr
      | _, none => .error .desc
      | _, _ => .error .shape
    | some (.dict a) =>
      match v, natArgVals [] params a.elem.natArgs, d.get? a.elem.ty with
      | .arr es, some ena, some (.struct es') =>
        match es'.fields with
        | [kf, vf] =>
          match natArgVals [] ena kf.natArgs, natArgVals [] ena vf.natArgs with
          | some kna, some vna => (writeDictJ d (writeJson d fuel) kf vf kna vna es).map Json.obj
          | _, _ => .error .desc
        | _ => .error .desc
      | _, none, _ => .error .desc
      | _, _, _ => .error .shape

/-! ### reader -/

abbrev Rj := Nat → List Nat → Option Json → Except CErr Val     -- `none` = Go `in == nil`

def charsOfBytes (b : Bytes) : List Char := b.map (fun x => Char.ofNat x.toNat)

/-- numbers: a number token or a string holding the decimal text (`Json2ReadUint32` …) -/
def readIntJ (signed : Bool) (bits : Nat) : Option Json → Except CErr Val
  | none => .ok (.nat 0)
  | some (.num t) =>
    match (if signed then parseIntText bits t else parseUintText bits t) with
    | some n => .ok (.nat n)
    | none => .error .rej
  | some (.str s) =>
    match (if signed then parseIntText bits (charsOfBytes s) else parseUintText bits (charsOfBytes s)) with
    | some n => .ok (.nat n)
    | none => .error .rej
  | some _ => .error .rej

def readFloatJ (f : FloatFmt) : Option Json → Except CErr Val
  | none => .ok (.nat 0)
  | some (.num t) =>
    match parseFloatText f t with
    | some n => .ok (.nat n)
    | none => .error .rej
  | some (.str s) =>
    match parseFloatText f (charsOfBytes s) with
    | some n => .ok (.nat n)
    | none => .error .rej
  | some _ => .error .rej

/-- `Json2ReadString`: a string, or `{"base64": "<std base64>"}` with exactly that one key -/
def readStringJ : Option Json → Except CErr Val
  | none => .ok (.str [])
  | some (.str s) => .ok (.str s)
  | some (.obj [(k, .str b)]) =>
    if k == kBase64 then
      match base64Decode b with
      | some r => .ok (.str r)
      | none => .error .rej
    else .error .rej
  | some _ => .error .rej

def readPrimJ (k : PrimK) (j : Option Json) : Except CErr Val :=
  match k with
  | .u32 => readIntJ false 32 j
  | .u64 => readIntJ false 64 j
  | .byte => readIntJ false 8 j
  | .i32 => readIntJ true 32 j
  | .i64 => readIntJ true 64 j
  | .f32 => readFloatJ fmt32 j
  | .f64 => readFloatJ fmt64 j
  | .str => readStringJ j
  | .bool _ _ =>
    match j with
    | none => .ok (.bool false)
    | some (.bool b) => .ok (.bool b)
    | some _ => .error .rej
  | .bit => .error .desc

def jzeroFieldsWith (z : Nat → Except CErr Val) : List Field → Except CErr (List (Option Val))
  | [] => .ok []
  | f :: fs =>
    match jzeroFieldsWith z fs with
    | .error e => .error e
    | .ok rest =>
      if f.mask.isSome || f.tl2bit.isSome then .ok (none :: rest)
      else match z f.ty with
        | .error e => .error e
        | .ok v => .ok (some v :: rest)

/-- Go `Reset()` of a value of a type without nat parameters: the zero value -/
def jzeroVal (d : Desc) : Nat → Nat → Except CErr Val
  | 0 => fun _ => .error .fuel
  | fuel + 1 => fun ty =>
    match d.get? ty with
    | none => .error .desc
    | some (.prim k) =>
      match k with
      | .str => .ok (.str [])
      | .bool _ _ => .ok (.bool false)
      | .bit => .ok (.bool false)
      | _ => .ok (.nat 0)
    | some (.struct s) => (jzeroFieldsWith (jzeroVal d fuel) s.fields).map Val.struct
    | some (.union u) =>
      match u.variants with
      | (vi, _) :: _ => (jzeroVal d fuel vi).map (Val.union 0)
      | [] => .error .desc
    | some (.array a) =>
      if a.isTuple && !a.dynamic then
        (jzeroVal d fuel a.elem.ty).map (fun z => .arr (List.replicate a.count z))
      else .ok (.arr [])
    | some (.dict _) => .ok (.arr [])

/-- position of the (non-omitted) field called `key` -/
def findField (s : StructD) (key : Bytes) : List Field → Nat → Option (Nat × Field)
  | [], _ => none
  | f :: fs, i => if !fieldOmitted s f && strBytes f.name == key then some (i, f) else findField s key fs (i + 1)

def lookupKey (key : Bytes) : List (Bytes × Json) → Option Json
  | [] => none
  | (k, j) :: r => if k == key then some j else lookupKey key r

def countKey (key : Bytes) : List (Bytes × Json) → Nat
  | [] => 0
  | (k, _) :: r => (if k == key then 1 else 0) + countKey key r

/-- every key names a (non-omitted) field and no key repeats (BLOCK main read: default / duplicate branches) -/
def keysOk (s : StructD) (kvs : List (Bytes × Json)) : Bool :=
  kvs.all (fun kv => (findField s kv.1 s.fields 0).isSome && countKey kv.1 kvs == 1)

/-- JSON member of field `f` in the object being read (`none`: absent, or the whole object is `nil`) -/
def memberOf (s : StructD) (f : Field) (kvs : List (Bytes × Json)) : Option Json :=
  if fieldOmitted s f then none else lookupKey (strBytes f.name) kvs

/-- Go `n |= 1 << bit` -/
def setBit (n bit : Nat) : Nat := n ||| 2 ^ bit

def setNatField (vals : List (Option Val)) (i bit : Nat) : List (Option Val) :=
  match vals[i]? with
  | some (some (.nat n)) => vals.set i (some (.nat (setBit n bit)))
  | some none => vals.set i (some (.nat (setBit 0 bit)))
  | _ => vals

/-- BLOCK "set TL1 field masks recursively": walk the chain of local masks upwards setting bits; at an external
or constant mask the bit must already be set unless the type has TL2 (`.error`); `fuel` bounds the chain. -/
def propagateMask (s : StructD) (params : List Nat) : Nat → Field → List (Option Val) → Except CErr (List (Option Val))
  | 0, _, vals => .ok vals
  | fuel + 1, cur, vals =>
    match cur.mask with
    | none => .ok vals
    | some (.field a, bit) =>
      match s.fields[a]? with
      | some anc => propagateMask s params fuel anc (setNatField vals a bit)
      | none => .error .desc
    | some (m, bit) =>
      if s.hasTL2 then .ok vals else
      match natArgVal vals params m with
      | some mv => if testBit mv bit then .ok vals else .error .rej
      | none => .error .desc

/-- result of the first pass over one field -/
structure Slot where
  f : Field
  j : Option Json          -- member, if presented
  presented : Bool
  trueVal : Bool           -- isBit fields: the boolean read
  deriving Inhabited

/-- BLOCK main read (+ reset of independent absent props): bit fields and independent fields are read, dependent ones deferred -/
def rsPass1 (d : Desc) (fuel : Nat) (rj : Rj) (s : StructD) (kvs : List (Bytes × Json)) :
    List Field → Except CErr (List Slot × List (Option Val))
  | [] => .ok ([], [])
  | f :: fs =>
    match rsPass1 d fuel rj s kvs fs with
    | .error e => .error e
    | .ok (slots, vals) =>
      let j := memberOf s f kvs
      if f.isBit then
        match j with
        | none => .ok ({ f, j, presented := false, trueVal := false } :: slots, none :: vals)
        | some (.bool b) => .ok ({ f, j, presented := true, trueVal := b } :: slots, none :: vals)
        | some _ => .error .rej
      else if f.natArgs.isEmpty then
        match j with
        | some jv =>
          match rj f.ty [] (some jv) with
          | .error e => .error e
          | .ok v => .ok ({ f, j, presented := true, trueVal := false } :: slots, some v :: vals)
        | none =>
          if fieldOmitted s f then .ok ({ f, j, presented := false, trueVal := false } :: slots, none :: vals) else
          match jzeroVal d fuel f.ty with
          | .error e => .error e
          | .ok z => .ok ({ f, j, presented := false, trueVal := false } :: slots, some z :: vals)
      else .ok ({ f, j, presented := j.isSome, trueVal := false } :: slots, none :: vals)

def presentOr (f : Field) (vals : List (Option Val)) (params : List Nat) : Bool :=
  match fieldPresent f vals params with | some b => b | none => false

/-- BLOCK set TL2 masks from TL1 masks (uses the masks as they are *before* propagation) -/
def rsTl2Set (params : List Nat) (vals0 : List (Option Val)) (slots : List Slot) : List Bool :=
  slots.map (fun sl =>
    if sl.presented then (if sl.f.isBit then sl.trueVal else true)
    else sl.f.mask.isSome && presentOr sl.f vals0 params)     -- TL2-origin fields have no TL1 mask to copy from

/-- does this slot imply its mask bits (a presented field, or a true-typed field given as `true`) -/
def Slot.implies (sl : Slot) : Bool := sl.f.mask.isSome && (if sl.f.isBit then sl.trueVal else sl.presented)

/-- BLOCK set TL1 field masks recursively -/
def rsProp (s : StructD) (params : List Nat) : List Slot → List (Option Val) → Except CErr (List (Option Val))
  | [], vals => .ok vals
  | sl :: r, vals =>
    if sl.implies then
      match propagateMask s params (s.fields.length + 1) sl.f vals with
      | .error e => .error e
      | .ok vals' => rsProp s params r vals'
    else rsProp s params r vals

/-- BLOCK trueType with false values validation (types without TL2 only) -/
def rsBadFalse (s : StructD) (params : List Nat) (vals1 : List (Option Val)) (slots : List Slot) : Bool :=
  !s.hasTL2 && slots.any (fun sl => sl.f.isBit && sl.presented && !sl.trueVal && presentOr sl.f vals1 params)

/-- BLOCK read presented dependent fields / read-or-reset remaining fields, and the final presence of every field -/
def rsFin (d : Desc) (fuel : Nat) (rj : Rj) (s : StructD) (params : List Nat) (vals1 : List (Option Val)) :
    List Slot → List Bool → List (Option Val) → Except CErr (List (Option Val))
  | [], _, _ => .ok []
  | sl :: r, t :: ts, v :: vs =>
    match rsFin d fuel rj s params vals1 r ts vs with
    | .error e => .error e
    | .ok rest =>
      let f := sl.f
      let tl1 := f.mask.isSome && presentOr f vals1 params
      if fieldOmitted s f then .ok (none :: rest) else
      -- the value Go holds in the field (relevant when the field is present for TL1 or for TL2)
      let actual : Except CErr (Option Val) :=
        if f.isBit then .ok (some (.struct []))
        else if f.natArgs.isEmpty then .ok v
        else
          match natArgVals vals1 params f.natArgs with
          | none => .error .desc
          | some na =>
            if sl.presented then (rj f.ty na sl.j).map some
            else if (if f.tl2bit.isSome then t else if f.mask.isSome then tl1 else true) then (rj f.ty na none).map some
            else (jzeroVal d fuel f.ty).map some
      match actual with
      | .error e => .error e
      | .ok x =>
        if f.tl2bit.isSome then
          .ok ((if t then x else if tl1 then x.map hidden else none) :: rest)
        else if f.mask.isSome then .ok ((if tl1 then x else none) :: rest)
        else .ok (x :: rest)
  | _, _, _ => .error .desc

def readStructJ (d : Desc) (fuel : Nat) (rj : Rj) (s : StructD) (params : List Nat) (kvs : List (Bytes × Json)) :
    Except CErr Val :=
  if !keysOk s kvs then .error .rej else
  match rsPass1 d fuel rj s kvs s.fields with
  | .error e => .error e
  | .ok (slots, vals0) =>
    match rsProp s params slots vals0 with
    | .error e => .error e
    | .ok vals1 =>
      if rsBadFalse s params vals1 slots then .error .rej else
      (rsFin d fuel rj s params vals1 slots (rsTl2Set params vals0 slots) vals1).map Val.struct

def readElemsJ (rj : Rj) (f : Field) (na : List Nat) : List Json → Except CErr (List Val)
  | [] => .ok []
  | j :: js =>
    match rj f.ty na (some j) with
    | .error e => .error e
    | .ok v =>
      match readElemsJ rj f na js with
      | .error e => .error e
      | .ok vs => .ok (v :: vs)

/-- `Json2ReadUnion`: a bare string, or an object with `type` (string, required) and `value` (optional), no other
keys, no duplicates -/
def readUnionHead : Option Json → Except CErr (Bytes × Option Json)
  | some (.str s) => .ok (s, none)
  | some (.obj kvs) =>
    if kvs.all (fun kv => (kv.1 == kType || kv.1 == kValue) && countKey kv.1 kvs == 1) then
      match lookupKey (kType) kvs with
      | some (.str t) => .ok (t, lookupKey (kValue) kvs)
      | _ => .error .rej
    else .error .rej
  | _ => .error .rej

/-- `Json2ReadMaybe`: `{}` / `{"ok":b}` / `{"value":v}` / `{"ok":true,"value":v}`; `ok:false` with a value is an error -/
def readMaybeHead : Option Json → Except CErr (Bool × Option Json)
  | none => .ok (false, none)
  | some (.obj kvs) =>
    if kvs.all (fun kv => (kv.1 == kOk || kv.1 == kValue) && countKey kv.1 kvs == 1) then
      let v := lookupKey (kValue) kvs
      match lookupKey (kOk) kvs with
      | some (.bool true) => .ok (true, v)
      | some (.bool false) => if v.isSome then .error .rej else .ok (false, none)
      | some _ => .error .rej
      | none => .ok (v.isSome, v)
    else .error .rej
  | some _ => .error .rej

def hex8 (n : Nat) : List Char :=
  (List.range 8).map (fun i => hexDigit ((n / 16 ^ (7 - i)) % 16))

/-- names under which variant `vi` is accepted (qt_union.qtpl `cases`); `legacy` = `jctx.LegacyTypeNames` -/
def variantMatches (d : Desc) (u : UnionD) (originTL2 legacy : Bool) (vi : Nat) (vname : String) (tag : Bytes) : Bool :=
  let name := instName d vi
  let vtag := match d.get? vi with | some (.struct s) => s.tag | _ => 0
  let tagS := '#' :: hex8 vtag
  let hasOld := !containsSub name.toList ['_', '_'] && !(u.hasTL2 && vname == name)
  (u.hasTL2 && tag == strBytes vname) ||
  (hasOld && tag == strBytes name) ||
  (!originTL2 && legacy && (tag == charsBytes (name.toList ++ tagS) || tag == charsBytes tagS))

def findVariantJ (d : Desc) (u : UnionD) (originTL2 legacy : Bool) (tag : Bytes) : List (Nat × String) → Nat → Option (Nat × Nat)
  | [], _ => none
  | (vi, vname) :: vs, i =>
    if variantMatches d u originTL2 legacy vi vname tag then some (i, vi) else findVariantJ d u originTL2 legacy tag vs (i + 1)

def unionOriginTL2 (d : Desc) (u : UnionD) : Bool :=
  match u.variants with
  | (vi, _) :: _ => (match d.get? vi with | some (.struct s) => s.originTL2 | _ => false)
  | [] => false

def readDictJ (d : Desc) (rj : Rj) (parseKey : Bytes → Option Json) (kf vf : Field) (kna vna : List Nat) (kprim : PrimK) :
    List (Bytes × Json) → List Val → Except CErr (List Val)
  | [], acc => .ok acc
  | (k, jv) :: r, acc =>
    let key : Except CErr Val :=
      if dictKeyIsString d kf.ty then .ok (.str k)
      else match parseKey k with
        | some jk => rj kf.ty kna (some jk)
        | none => .error .rej
    match key with
    | .error e => .error e
    | .ok kv =>
      match rj vf.ty vna (some jv) with
      | .error e => .error e
      | .ok v => readDictJ d rj parseKey kf vf kna vna kprim r (dictInsert kprim (.struct [some kv, some v]) acc)

/-- `parseKey` re-lexes the text of a non-string dictionary key (`in2 := JsonLexer{Data: keyBytes}`);
it is supplied by the text layer (`JsonText.parseJson`). -/
def readJson (d : Desc) (legacy : Bool) (parseKey : Bytes → Option Json) : Nat → Rj
  | 0 => fun _ _ _ => .error .fuel
  | fuel + 1 => fun ty params j =>
    match d.get? ty with
    | none => .error .desc
    | some (.prim k) => readPrimJ k j
    | some (.struct s) =>
      if s.isTypedef || s.isUnwrap then
        match s.fields with
        | [f] =>
          match natArgVals [] params f.natArgs with
          | some na => (readJson d legacy parseKey fuel f.ty na j).map (fun x => .struct [some x])
          | none => .error .desc
        | _ => .error .desc
      else
        match j with
        | none => readStructJ d fuel (readJson d legacy parseKey fuel) s params []
        | some (.obj kvs) => readStructJ d fuel (readJson d legacy parseKey fuel) s params kvs
        | some _ => .error .rej
    | some (.union u) =>
      match natArgVals [] params u.elemNatArgs with
      | none => .error .desc
      | some vparams =>
        if u.isMaybe then
          match readMaybeHead j, u.variants with
          | .error e, _ => .error e
          | .ok (false, _), (v0, _) :: _ => (jzeroVal d fuel v0).map (Val.union 0)
          | .ok (true, jv), [_, (v1, _)] =>
            match d.get? v1 with
            | some (.struct vs) =>
              match vs.fields with
              | [f] =>
                match natArgVals [] vparams f.natArgs with
                | some ena => (readJson d legacy parseKey fuel f.ty ena jv).map (fun x => .union 1 (.struct [some x]))
                | none => .error .desc
              | _ => .error .desc
            | _ => .error .desc
          | _, _ => .error .desc
        else
          match readUnionHead j with
          | .error e => .error e
          | .ok (tag, jv) =>
            match findVariantJ d u (unionOriginTL2 d u) legacy tag u.variants 0 with
            | none => .error .rej
            | some (i, vi) =>
              if isTrueType d vi then .ok (.union i (.struct []))
              else (readJson d legacy parseKey fuel vi vparams jv).map (Val.union i)
    | some (.array a) =>
      match natArgVals [] params a.elem.natArgs with
      | none => .error .desc
      | some na =>
        let items : Except CErr (List Json) :=
          match j with
          | none => .ok []
          | some (.arr es) => .ok es
          | some _ => .error .rej
        match items with
        | .error e => .error e
        | .ok es =>
          if a.isTuple then
            match (if a.dynamic then params[0]? else some a.count) with
            | none => .error .desc
            | some n =>
              if es.length ≠ n then .error .rej
              else (readElemsJ (readJson d legacy parseKey fuel) a.elem na es).map Val.arr
          else (readElemsJ (readJson d legacy parseKey fuel) a.elem na es).map Val.arr
    | some (.dict a) =>
      match natArgVals [] params a.elem.natArgs, d.get? a.elem.ty, dictKeyPrim d a with
      | some ena, some (.struct es'), some kprim =>
        match es'.fields with
        | [kf, vf] =>
          match natArgVals [] ena kf.natArgs, natArgVals [] ena vf.natArgs with
          | some kna, some vna =>
            match j with
            | none => .ok (.arr [])
            | some (.obj kvs) => (readDictJ d (readJson d legacy parseKey fuel) parseKey kf vf kna vna kprim kvs []).map Val.arr
            | some _ => .error .rej
          | _, _ => .error .desc
        | _ => .error .desc
      | _, _, _ => .error .desc

end TLVerif.Codec
