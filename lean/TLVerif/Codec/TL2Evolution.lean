import TLVerif.Codec.TL2RoundTrip
/-!
Part 3 of the TL2 lemmas (C13): non-minimal encodings and schema evolution.
Per-rule lemmas: huge-form sizes, oversize rejection, explicit zero mask bytes / missing trailing fields, explicitly
written zero values, unknown trailing fields (`fields_roundtrip_ext` in `TL2RoundTrip.lean`).
-/
namespace TLVerif.Codec
open TLVerif.Prim TLVerif.Facts.Prim

/-! ### sizes -/

/-- the huge form `FF` + 8 bytes is accepted for every size (also where a shorter form exists) -/
theorem parseSize_huge (n : Nat) (rest : Bytes) (h : n < 2 ^ 63) :
    parseSize (255 :: (le64 n ++ rest)) = .ok (n, rest) := by
  have hh : byteOf hugeStringMarker = 255 := by rw [hugeMarker_eq]; rfl
  have := tl2_huge_form_accepted n rest h
  rw [hh] at this
  unfold parseSize
  rw [List.cons_append] at this
  rw [this]; rfl

theorem parseSize_min (n : Nat) (rest : Bytes) (h : n < 2 ^ 63) :
    parseSize (tl2WriteSize n ++ rest) = .ok (n, rest) := by
  unfold parseSize; rw [tl2_size_roundtrip n rest h]; rfl

/-- an object framed with the huge size form is sliced exactly like the minimal framing -/
theorem sliceBody_huge (body rest : Bytes) (h : body.length < 2 ^ 63) :
    sliceBody (255 :: (le64 body.length ++ (body ++ rest))) = sliceBody (tl2WriteSize body.length ++ (body ++ rest)) := by
  rw [sliceBody_obj body rest h]
  unfold sliceBody
  rw [parseSize_huge _ _ h]
  simp

/-- declared size larger than what is left: rejected -/
theorem sliceBody_oversize (bs r : Bytes) (sz : Nat) (hp : parseSize bs = .ok (sz, r)) (h : r.length < sz) :
    sliceBody bs = .error .rej := by
  unfold sliceBody; rw [hp]; simp [h]

/-- types whose TL2 encoding starts with a size: structs (not aliases), unions, arrays, dictionaries -/
def objectLike (d : Desc) (ty : Nat) : Bool :=
  match d.get? ty with
  | some (.struct s) => !((s.isAlias || s.isUnwrap) && !s.isUnionElement)
  | some (.union _) => true
  | some (.array _) => true
  | some (.dict _) => true
  | _ => false

/-- the readers of sized types look at their input only through `sliceBody` -/
theorem readTL2_via_slice (d : Desc) (fuel ty : Nat) (c : Bool) (bs bs' : Bytes)
    (ho : objectLike d ty = true) (h : sliceBody bs = sliceBody bs') :
    readTL2 d (fuel + 1) ty c bs = readTL2 d (fuel + 1) ty c bs' := by
  unfold objectLike at ho
  unfold readTL2
  cases hty : d.get? ty with
  | none => rfl
  | some inst =>
    rw [hty] at ho
    cases inst with
    | prim k => cases ho
    | struct s =>
      simp only [] at ho ⊢
      have hal : ((s.isAlias || s.isUnwrap) && !s.isUnionElement) = false := by
        cases hx : ((s.isAlias || s.isUnwrap) && !s.isUnionElement) with
        | false => rfl
        | true => rw [hx] at ho; cases ho
      simp only [hal, Bool.false_eq_true, if_false, readStructObj, h]
    | union u => simp only [h]
    | array a => simp only [h]
    | dict a => simp only [h]

/-- **huge-form size of an object**: same result as the minimal size form -/
theorem readTL2_huge_size (d : Desc) (fuel ty : Nat) (c : Bool) (body rest : Bytes)
    (ho : objectLike d ty = true) (h : body.length < 2 ^ 63) :
    readTL2 d (fuel + 1) ty c (255 :: (le64 body.length ++ (body ++ rest))) =
      readTL2 d (fuel + 1) ty c (tl2WriteSize body.length ++ (body ++ rest)) :=
  readTL2_via_slice d fuel ty c _ _ ho (sliceBody_huge body rest h)

/-- **oversize**: a sized value whose declared size exceeds the remaining input is rejected (never read, never EOF-truncated) -/
theorem readTL2_oversize (d : Desc) (fuel ty : Nat) (c : Bool) (bs r : Bytes) (sz : Nat)
    (ho : objectLike d ty = true) (hp : parseSize bs = .ok (sz, r)) (h : r.length < sz) :
    readTL2 d (fuel + 1) ty c bs = .error .rej := by
  have hs := sliceBody_oversize bs r sz hp h
  unfold objectLike at ho
  unfold readTL2
  cases hty : d.get? ty with
  | none => rw [hty] at ho; cases ho
  | some inst =>
    rw [hty] at ho
    cases inst with
    | prim k => cases ho
    | struct s =>
      simp only [] at ho ⊢
      have hal : ((s.isAlias || s.isUnwrap) && !s.isUnionElement) = false := by
        cases hx : ((s.isAlias || s.isUnwrap) && !s.isUnionElement) with
        | false => rfl
        | true => rw [hx] at ho; cases ho
      simp only [hal, Bool.false_eq_true, if_false, readStructObj, hs]
    | union u => simp only [hs]
    | array a => simp only [hs]
    | dict a => simp only [hs]

/-! ### missing trailing fields, explicit zero mask bytes -/

/-- Fields for which the body has nothing left (it ended early, i.e. an older writer did not know them) — or has only
explicit zero mask bytes left — read as absent / zero: `n = 0` is the truncated body, `n > 0` the padded one. -/
theorem fields_missing_tail (rd : Rd2) (skip : Nat → Bool → Bytes → Except CErr Bytes) (z : Nat → Val) (isTrue : Nat → Bool) :
    ∀ (gs : List Field), (∀ g ∈ gs, g.isBit = true → fieldOptional g = true) →
      ∀ (i : Nat) (block : UInt8) (n : Nat), BlockAgree i block 0 →
        readFields2With rd skip z isTrue i block gs (List.replicate n 0) = .ok (zeroFieldsWith z gs) := by
  intro gs
  induction gs with
  | nil => intro _ i block n _; rfl
  | cons g gs ih =>
    intro hwf i block n hA
    -- the mask byte in force for field i has no bit set at or above the field's position
    have hnb : ∃ block1 n', nextBlock i block (List.replicate n 0) = (block1, List.replicate n' 0) ∧
        BlockAgree (i + 1) block1 0 ∧ testBit block1.toNat ((i + 1) % 8) = false := by
      have hz : ∀ k, testBit (0 : UInt8).toNat k = false := by intro k; simp [testBit]
      have hz0 : ∀ k, testBit 0 k = false := by intro k; simp [testBit]
      unfold nextBlock
      by_cases hb : ((i + 1) % 8 == 0) = true
      · rw [if_pos hb]
        cases n with
        | zero => exact ⟨0, 0, rfl, fun _ k _ _ => by rw [hz, hz0], hz _⟩
        | succ n' => exact ⟨0, n', by rw [List.replicate_succ], fun _ k _ _ => by rw [hz, hz0], hz _⟩
      · rw [if_neg hb]
        have hb' : (i + 1) % 8 ≠ 0 := by simpa using hb
        refine ⟨block, n, rfl, fun hne k h1 h2 => hA hb' k (by omega) h2, ?_⟩
        rw [hA hb' _ (Nat.le_refl _) (Nat.mod_lt _ (by decide)), hz0]
    obtain ⟨block1, n', hcur, hA', hbit⟩ := hnb
    simp only [readFields2With]
    rw [hcur]
    simp only []
    rw [hbit]
    have hrf : readField rd skip z isTrue g false (List.replicate n' 0) =
        .ok (if fieldOptional g || g.omitted then none else some (z g.ty), List.replicate n' 0) := by
      unfold readField
      by_cases hgb : g.isBit = true
      · have := hwf g (List.mem_cons_self ..) hgb
        simp [hgb, this]
      · by_cases ho : (g.omitted || isTrue g.ty) = true
        · simp only [hgb, Bool.false_eq_true, if_false, ho, if_true]
          by_cases hom : g.omitted = true
          · simp [hom]
          · have hom' : g.omitted = false := by simpa using hom
            simp [hom']
        · simp only [hgb, Bool.false_eq_true, if_false, ho]
          have hom' : g.omitted = false := by
            cases hh : g.omitted with
            | false => rfl
            | true => rw [hh] at ho; simp at ho
          simp [hom']
    rw [hrf]
    simp only []
    rw [ih (fun g' hg' => hwf g' (List.mem_cons_of_mem _ hg')) (i + 1) block1 n' hA']
    rfl

/-! ### schema evolution at the level of one body -/

section evo
variable {good : Nat → Bool → Val → Prop} {enc : Enc} {rd : Rd2} {z : Nat → Val}
variable {skip : Nat → Bool → Bytes → Except CErr Bytes} {plainTrue isTrue : Nat → Bool}

/-- **Old bytes, new reader.** A body written for the fields `fs` and read with `fs ++ gs` (a newer schema version that
appended `gs`): the known fields are recovered and every appended field is absent / zero, across any mask-byte boundary. -/
theorem fields_old_to_new (H : FieldCodecs good enc rd z)
    (HT : ∀ ty r, plainTrue ty = true → enc ty true (z ty) = .ok r → r = none)
    (Hpt : ∀ ty, plainTrue ty = true → isTrue ty = true)
    (gs : List Field) (hwf : ∀ g ∈ gs, g.isBit = true → fieldOptional g = true) :
    ∀ (fs : List Field) (vs : List (Option Val)) (rs : List (Option Bytes)),
      GoodFields good z plainTrue isTrue fs vs → encFieldsWith enc fs vs = .ok rs →
      ∀ (i : Nat) (block : UInt8), BlockAgree i block (bodyLoop i rs).1 →
        readFields2With rd skip z isTrue i block (fs ++ gs) (bodyLoop i rs).2 = .ok (vs ++ zeroFieldsWith z gs) := by
  intro fs
  induction fs with
  | nil =>
    intro vs rs hg he i block hA
    cases vs with
    | nil =>
      simp only [encFieldsWith] at he
      cases he
      exact fields_missing_tail rd skip z isTrue gs hwf i block 0 hA
    | cons _ _ => exact absurd hg (by simp [GoodFields])
  | cons f fs ih =>
    intro vs rs hg he i block hA
    cases vs with
    | nil => exact absurd hg (by simp [GoodFields])
    | cons v vs =>
      obtain ⟨hs, hg'⟩ := hg
      simp only [encFieldsWith] at he
      cases hf : encField enc f v with
      | error e => rw [hf] at he; cases he
      | ok r =>
        rw [hf] at he
        cases hfs : encFieldsWith enc fs vs with
        | error e => rw [hfs] at he; cases he
        | ok rs' =>
          rw [hfs] at he
          cases he
          obtain ⟨block1, hnb, hbits⟩ := nextBlock_spec i block r rs' hA
          obtain ⟨q, hq⟩ := bodyLoop_next_div rs' i
          have hbit : testBit block1.toNat ((i + 1) % 8) = r.isSome := by
            rw [hbits _ (Nat.le_refl _) (Nat.mod_lt _ (by decide)), hq, fieldBit_eq]
            exact testBit_low_add _ _ _
          have hA' : BlockAgree (i + 1) block1 (bodyLoop (i + 1) rs').1 := by
            intro hne k h1 h2
            have hj : (i + 1 + 1) % 8 = (i + 1) % 8 + 1 := by omega
            obtain ⟨e, he⟩ : ∃ e, k = (i + 1) % 8 + 1 + e := ⟨k - ((i + 1) % 8 + 1), by omega⟩
            rw [hbits k (by omega) h2, hq, fieldBit_eq, he]
            exact testBit_high_add _ _ _ _
          simp only [List.cons_append, readFields2With]
          rw [hnb]
          simp only []
          rw [hbit, field_roundtrip H HT Hpt f v r hs hf]
          simp only []
          rw [ih vs rs' hg' hfs (i + 1) block1 hA']

/-- **New bytes, old reader**, whole object: a struct-shaped object written with the fields `fs` followed by appended
fields (per-field results `ss`, arbitrary) is read by the reader that knows only `fs` as the value of `fs`; the bytes and
presence bits of the appended fields are skipped, the input after the object is untouched. -/
theorem struct_new_to_old (H : FieldCodecs good enc rd z)
    (HT : ∀ ty r, plainTrue ty = true → enc ty true (z ty) = .ok r → r = none)
    (Hpt : ∀ ty, plainTrue ty = true → isTrue ty = true)
    (ui : Nat) (hui : ui < 2 ^ 63) (fs : List Field) (vs : List (Option Val)) (rs ss : List (Option Bytes))
    (hg : GoodFields good z plainTrue isTrue fs vs) (he : encFieldsWith enc fs vs = .ok rs)
    (hne : bodyTL2 ui (rs ++ ss) ≠ []) (hlen : (bodyTL2 ui (rs ++ ss)).length < 2 ^ 63) (rest : Bytes) :
    readStructObj rd skip z isTrue fs ui (tl2WriteSize (bodyTL2 ui (rs ++ ss)).length ++ (bodyTL2 ui (rs ++ ss) ++ rest)) =
      .ok (vs, rest) := by
  have hrd := fields_roundtrip_ext (skip := skip) H HT Hpt ss fs vs rs hg he 0
  obtain ⟨q, hq⟩ := (bodyLoop_div (rs ++ ss) 0).2
  have hq' : (bodyLoop 0 (rs ++ ss)).1 = 2 ^ (0 + 1) * q := hq
  have hempty : (bodyTL2 ui (rs ++ ss)).isEmpty = false := by
    cases hh : bodyTL2 ui (rs ++ ss) with
    | nil => exact absurd hh hne
    | cons _ _ => rfl
  unfold readStructObj
  rw [sliceBody_obj _ _ hlen]
  simp only [hempty, Bool.false_eq_true, if_false]
  rw [bodyTL2_eq] at hne ⊢
  by_cases hu : (ui == 0) = true
  · have hu0 : ui = 0 := by simpa using hu
    rw [if_pos hu] at hne ⊢
    by_cases hc : ((bodyLoop 0 (rs ++ ss)).1 == 0 && (bodyLoop 0 (rs ++ ss)).2.isEmpty) = true
    · rw [if_pos hc] at hne; exact absurd rfl hne
    · rw [if_neg hc]
      have hb0 : testBit (byteOf (bodyLoop 0 (rs ++ ss)).1).toNat 0 = false := by
        rw [testBit_byteOf _ 0 (by decide), hq']
        have := testBit_low_add 0 q false
        simpa using this
      have hodd : ((byteOf (bodyLoop 0 (rs ++ ss)).1).toNat % 2 == 1) = false := by
        simpa [testBit] using hb0
      simp only [readHead, readByte, hodd, Bool.false_eq_true, if_false, Bool.false_and]
      rw [hrd _ (fun _ k _ hk => testBit_byteOf _ k hk)]
  · rw [if_neg hu]
    have hb0 : testBit (byteOf (1 + (bodyLoop 0 (rs ++ ss)).1)).toNat 0 = true := by
      rw [testBit_byteOf _ 0 (by decide), hq']
      have := testBit_low_add 0 q true
      simpa using this
    have hodd : ((byteOf (1 + (bodyLoop 0 (rs ++ ss)).1)).toNat % 2 == 1) = true := by
      simpa [testBit] using hb0
    simp only [readHead, readByte, hodd, if_true, parseSize]
    rw [tl2_size_roundtrip ui _ hui]
    simp only [liftP, ne_eq, not_true_eq_false, decide_false]
    rw [hrd _ (fun _ k h1 hk => by
      rw [testBit_byteOf _ k hk, hq']
      obtain ⟨e, he'⟩ : ∃ e, k = 0 + 1 + e := ⟨k - 1, by omega⟩
      rw [he']
      have := testBit_high_add 0 e q true
      simpa using this)]
    simp

end evo

/-! ### explicitly written zero values -/

/-- a zero primitive that is written out explicitly reads as the zero value — the same value the reader produces when
the field is left out -/
theorem explicit_zero_prim (k : PrimK) (hk : k ≠ .bit) (c : Bool) (rest : Bytes) :
    ∃ b, primTL2 k (zeroPrim k) = .ok b ∧ readPrim2 k c (b ++ rest) = .ok (zeroPrim k, rest) := by
  have hg : goodPrim k false (zeroPrim k) = true := by cases k <;> first | rfl | exact absurd rfl hk
  have hp : ∃ b, primTL2 k (zeroPrim k) = .ok b := by cases k <;> exact ⟨_, rfl⟩
  obtain ⟨b, hb⟩ := hp
  have he := encPrim_eq k false (zeroPrim k) b hb
  simp only [Bool.false_and, Bool.false_eq_true, if_false] at he
  have hlen : (optBytes (some b)).length < 2 ^ 63 := by
    cases k <;> simp only [primTL2, zeroPrim] at hb <;> cases hb <;> simp [optBytes, u32le, u64le, stringWriteTL2, tl2WriteSize] <;> decide
  exact ⟨b, hb, ((prim_roundtrip k false c _ _ hg he hlen).1 b rfl).2 rest⟩

end TLVerif.Codec
