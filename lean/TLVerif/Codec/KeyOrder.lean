import TLVerif.Codec.BytesVariant
/-! `keyLt` (the order in which the map-backed variant writes dictionary keys) is asymmetric, for every key kind. -/
namespace TLVerif.Codec
open TLVerif.Prim

theorem bytesLt_asymm : ∀ (x y : Bytes), bytesLt x y = true → bytesLt y x = false := by
  intro x
  induction x with
  | nil => intro y h; cases y <;> simp [bytesLt] at h ⊢
  | cons a as ih =>
    intro y h
    cases y with
    | nil => simp [bytesLt] at h
    | cons b bs =>
      simp only [bytesLt] at h ⊢
      by_cases h1 : a < b
      · have : ¬ b < a := by
          intro h2; exact absurd (UInt8.lt_trans h1 h2) (UInt8.lt_irrefl _)
        simp [h1, this]
      · simp only [h1, if_false] at h
        by_cases h2 : b < a
        · simp [h2] at h
        · simp only [h2, if_false] at h
          simp [h1, h2, ih bs h]

theorem keyLt_asymm (k : PrimK) (a b : Val) (h : keyLt k a b = true) : keyLt k b a = false := by
  unfold keyLt at *
  generalize keyRaw 8 a = ra at *
  generalize keyRaw 8 b = rb at *
  cases k <;> cases ra <;> cases rb <;> simp_all <;> first | omega | (exact bytesLt_asymm _ _ h) | skip

/-- each key strictly below every later key -/
def keyBelowAllLt (k : PrimK) (x : Val) : List Val → Bool
  | [] => true
  | y :: ys => keyLt k (elemKey x) (elemKey y) && keyBelowAllLt k x ys

def dictPairwiseLt (k : PrimK) : List Val → Bool
  | [] => true
  | x :: xs => keyBelowAllLt k x xs && dictPairwiseLt k xs

theorem keyBelowAll_eq (k : PrimK) (x : Val) : ∀ ys, keyBelowAll k x ys = keyBelowAllLt k x ys := by
  intro ys
  induction ys with
  | nil => rfl
  | cons y ys ih =>
    simp only [keyBelowAll, keyBelowAllLt, ih]
    cases h : keyLt k (elemKey x) (elemKey y) with
    | false => simp
    | true => simp [keyLt_asymm k _ _ h]

/-- the guard of the strict reader is plain strict ascent: the converse comparison in `dictAscending` is redundant -/
theorem dictAscending_eq_pairwiseLt (k : PrimK) : ∀ vs, dictAscending k vs = dictPairwiseLt k vs := by
  intro vs
  induction vs with
  | nil => rfl
  | cons x xs ih => simp only [dictAscending, dictPairwiseLt, ih, keyBelowAll_eq]

end TLVerif.Codec
