import TLVerif.Codec.Desc
/-!
Model of the generated `meta` registry (qt_meta.qtpl init()): one item per top-level struct instance and per
top-level union that has TL2 code; `ItemsByName` / `ItemsByTag` maps built by `FillObject`/`FillFunction`.
-/
namespace TLVerif.Codec

structure RegItem where
  name : String
  tag : Nat
  isFunction : Bool
  hasTL1 : Bool
  hasTL2 : Bool
  idx : Nat
  ann : Nat := 0
  deriving Repr, DecidableEq, Inhabited

def regItemOf (d : Desc) (n : InstName) : Option RegItem :=
  if !n.topLevel then none else
  match d.get? n.idx with
  | some (.struct s) => some { name := n.tlname, tag := s.tag, isFunction := s.isFunction, hasTL1 := !s.originTL2, hasTL2 := s.hasTL2, idx := n.idx, ann := n.ann }
  | some (.union u) => if u.hasTL2 then some { name := n.tlname, tag := 0, isFunction := false, hasTL1 := true, hasTL2 := true, idx := n.idx, ann := n.ann } else none
  | _ => none

def registry (d : Desc) : List RegItem := d.names.filterMap (regItemOf d)

def byName (r : List RegItem) (n : String) : Option RegItem := r.find? (·.name == n)
def byTag (r : List RegItem) (t : Nat) : Option RegItem := r.find? (·.tag == t)

/-- decidable certificate evaluated on every exported descriptor (T3) -/
def registryOK (r : List RegItem) : Bool :=
  (r.map (·.name)).Nodup && ((r.filter (·.tag != 0)).map (·.tag)).Nodup

end TLVerif.Codec
