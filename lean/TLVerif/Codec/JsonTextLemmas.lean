import TLVerif.Codec.JsonText
/-!
RFC 8259 grammar as inductive predicates over `List Char`, and the proof that `printJson` of a tree whose number
tokens are number tokens is a JSON text; number tokens produced by the writers (`natText`, `intText`, `floatText`)
are shown to be in the grammar. String escaping is a hypothesis (`EscOK`), discharged by the string model of C34.
-/
namespace TLVerif.Codec
open TLVerif.Prim

/-! ### grammar -/

def AllDigits (cs : List Char) : Prop := ∀ c ∈ cs, isDigit c = true

/-- `int = zero / ( digit1-9 *DIGIT )` -/
inductive IsIntPart : List Char → Prop
  | zero : IsIntPart ['0']
  | nz (c : Char) (cs : List Char) : isDigit c = true → c ≠ '0' → AllDigits cs → IsIntPart (c :: cs)

/-- `[ frac ]`, `frac = decimal-point 1*DIGIT` -/
inductive IsFrac : List Char → Prop
  | none : IsFrac []
  | some (cs : List Char) : cs ≠ [] → AllDigits cs → IsFrac ('.' :: cs)

/-- `[ exp ]`, `exp = e [ minus / plus ] 1*DIGIT` -/
inductive IsExp : List Char → Prop
  | none : IsExp []
  | some (e : Char) (sign cs : List Char) : (e = 'e' ∨ e = 'E') → (sign = [] ∨ sign = ['+'] ∨ sign = ['-']) →
      cs ≠ [] → AllDigits cs → IsExp (e :: (sign ++ cs))

/-- `number = [ minus ] int [ frac ] [ exp ]` -/
inductive IsNumber : List Char → Prop
  | mk (minus ip fr ex : List Char) : (minus = [] ∨ minus = ['-']) → IsIntPart ip → IsFrac fr → IsExp ex →
      IsNumber (minus ++ (ip ++ (fr ++ ex)))

def isHexC (c : Char) : Bool := isDigit c || ('a' ≤ c && c ≤ 'f') || ('A' ≤ c && c ≤ 'F')

/-- `*char` between the quotation marks -/
inductive IsStrBody : List Char → Prop
  | nil : IsStrBody []
  | plain (c : Char) (r : List Char) : 0x20 ≤ c.toNat → c ≠ '"' → c ≠ '\\' → IsStrBody r → IsStrBody (c :: r)
  | esc (c : Char) (r : List Char) : c ∈ ['"', '\\', '/', 'b', 'f', 'n', 'r', 't'] → IsStrBody r → IsStrBody ('\\' :: c :: r)
  | uni (a b c d : Char) (r : List Char) : isHexC a = true → isHexC b = true → isHexC c = true → isHexC d = true →
      IsStrBody r → IsStrBody ('\\' :: 'u' :: a :: b :: c :: d :: r)

def IsWs (cs : List Char) : Prop := ∀ c ∈ cs, c = ' ' ∨ c = '\t' ∨ c = '\n' ∨ c = '\r'

mutual
  /-- `value` -/
  inductive IsValue : List Char → Prop
    | null : IsValue ['n', 'u', 'l', 'l']
    | tru : IsValue ['t', 'r', 'u', 'e']
    | fls : IsValue ['f', 'a', 'l', 's', 'e']
    | num (t : List Char) : IsNumber t → IsValue t
    | str (b : List Char) : IsStrBody b → IsValue ('"' :: (b ++ ['"']))
    | arrEmpty (w : List Char) : IsWs w → IsValue ('[' :: (w ++ [']']))
    | arr (es : List Char) : IsElems es → IsValue ('[' :: (es ++ [']']))
    | objEmpty (w : List Char) : IsWs w → IsValue ('{' :: (w ++ ['}']))
    | obj (ms : List Char) : IsMembers ms → IsValue ('{' :: (ms ++ ['}']))
  /-- `ws value ws` -/
  inductive IsElement : List Char → Prop
    | mk (w1 v w2 : List Char) : IsWs w1 → IsValue v → IsWs w2 → IsElement (w1 ++ (v ++ w2))
  /-- `element *( "," element )` -/
  inductive IsElems : List Char → Prop
    | one (e : List Char) : IsElement e → IsElems e
    | cons (e r : List Char) : IsElement e → IsElems r → IsElems (e ++ ',' :: r)
  /-- `ws string ws ":" element` -/
  inductive IsMember : List Char → Prop
    | mk (w1 k w2 e : List Char) : IsWs w1 → IsStrBody k → IsWs w2 → IsElement e →
        IsMember (w1 ++ ('"' :: (k ++ '"' :: (w2 ++ ':' :: e))))
  inductive IsMembers : List Char → Prop
    | one (m : List Char) : IsMember m → IsMembers m
    | cons (m r : List Char) : IsMember m → IsMembers r → IsMembers (m ++ ',' :: r)
end

/-- `JSON-text = ws value ws` -/
def IsJsonText (cs : List Char) : Prop := IsElement cs

theorem isWs_nil : IsWs [] := by intro c h; cases h

theorem IsElement.ofValue {v : List Char} (h : IsValue v) : IsElement v := by
  have := IsElement.mk [] v [] isWs_nil h isWs_nil
  simpa using this

/-! ### number tokens of the writers -/

theorem isDigit_digitChar (d : Nat) : isDigit (digitChar d) = true := by
  unfold digitChar
  split <;> decide

theorem digitChar_ne_zero (d : Nat) (h : d % 10 ≠ 0) : digitChar d ≠ '0' := by
  unfold digitChar
  split <;> first | contradiction | decide

theorem allDigits_map (ds : List Nat) : AllDigits (ds.map digitChar) := by
  intro c hc
  rcases List.mem_map.mp hc with ⟨d, _, rfl⟩
  exact isDigit_digitChar d

theorem dropZeros_head (ds : List Nat) : ∀ d r, dropZeros ds = d :: r → d % 10 ≠ 0 := by
  induction ds with
  | nil => intro d r h; simp [dropZeros] at h
  | cons x xs ih =>
    intro d r h
    unfold dropZeros at h
    by_cases hx : (x % 10 == 0) = true
    · rw [if_pos hx] at h; exact ih d r h
    · rw [if_neg hx] at h
      cases h
      intro h0
      exact hx (by simp [h0])

theorem intPartText_isIntPart (ds : List Nat) : IsIntPart (intPartText ds) := by
  unfold intPartText
  split
  · exact .zero
  · rename_i ds' hne
    cases hds : dropZeros ds with
    | nil => exact absurd hds (by simpa using hne)
    | cons d r =>
      simp only [List.map_cons]
      exact .nz _ _ (isDigit_digitChar d) (digitChar_ne_zero d (dropZeros_head ds d r hds)) (allDigits_map r)

theorem isNumber_int {ip : List Char} (h : IsIntPart ip) : IsNumber ip := by
  have := IsNumber.mk [] ip [] [] (Or.inl rfl) h .none .none
  simpa using this

theorem isNumber_negInt {ip : List Char} (h : IsIntPart ip) : IsNumber ('-' :: ip) := by
  have := IsNumber.mk ['-'] ip [] [] (Or.inr rfl) h .none .none
  simpa using this

theorem natText_isNumber (n : Nat) : IsNumber (natText n) := isNumber_int (intPartText_isIntPart _)

theorem intText_isNumber (bits n : Nat) : IsNumber (intText bits n) := by
  unfold intText
  split
  · exact natText_isNumber _
  · exact isNumber_negInt (intPartText_isIntPart _)

theorem allDigits_append {a b : List Char} (ha : AllDigits a) (hb : AllDigits b) : AllDigits (a ++ b) := by
  intro c hc
  rcases List.mem_append.mp hc with h | h
  · exact ha c h
  · exact hb c h

theorem allDigits_replicate_zero (n : Nat) : AllDigits (List.replicate n '0') := by
  intro c hc
  rw [List.mem_replicate] at hc
  rw [hc.2]; decide

/-- unsigned part of a `%f` layout: `int [frac]` -/
theorem layoutF_shape (ds : List Nat) (dp : Int) :
    ∃ ip fr, layoutF ds dp = ip ++ fr ∧ IsIntPart ip ∧ IsFrac fr := by
  unfold layoutF
  by_cases he : ds.isEmpty = true
  · rw [if_pos he]; exact ⟨['0'], [], rfl, .zero, .none⟩
  · rw [if_neg he]
    have hne : ds ≠ [] := by
      intro h; apply he; simp [h]
    by_cases hdp : dp ≤ 0
    · rw [if_pos hdp]
      refine ⟨['0'], '.' :: (List.replicate dp.natAbs '0' ++ ds.map digitChar), rfl, .zero, .some _ ?_ ?_⟩
      · intro h
        have := List.append_eq_nil_iff.mp h
        exact hne (List.map_eq_nil_iff.mp this.2)
      · exact allDigits_append (allDigits_replicate_zero _) (allDigits_map _)
    · rw [if_neg hdp]
      simp only []
      by_cases hn : dp.toNat ≥ ds.length
      · rw [if_pos hn]
        exact ⟨intPartText (ds ++ List.replicate (dp.toNat - ds.length) 0), [], by simp, intPartText_isIntPart _, .none⟩
      · rw [if_neg hn]
        refine ⟨_, _, rfl, intPartText_isIntPart _, .some _ ?_ (allDigits_map _)⟩
        intro h
        have h1 := List.map_eq_nil_iff.mp h
        have h2 : (ds.drop dp.toNat).length = 0 := by rw [h1]; rfl
        rw [List.length_drop] at h2
        omega

theorem isNumber_of_shape (neg : Bool) (ip fr : List Char) (hi : IsIntPart ip) (hf : IsFrac fr) :
    IsNumber ((if neg then ['-'] else []) ++ (ip ++ fr)) := by
  have := IsNumber.mk (if neg then ['-'] else []) ip fr [] (by cases neg <;> simp) hi hf .none
  simpa using this

theorem floatText_isNumber (f : FloatFmt) (bits : Nat) : IsNumber (floatText f bits) := by
  unfold floatText
  split
  · rename_i neg m e _
    simp only []
    obtain ⟨ip, fr, h, hi, hf⟩ := layoutF_shape (shortestDigits f (bits % f.signBit) m e).1 (shortestDigits f (bits % f.signBit) m e).2
    rw [h]
    exact isNumber_of_shape neg ip fr hi hf
  · exact isNumber_int .zero

/-! ### trees whose number tokens are numbers -/

mutual
  def Json.Wf : Json → Prop
    | .num t => IsNumber t
    | .arr es => WfList es
    | .obj kvs => WfMembers kvs
    | _ => True
  def WfList : List Json → Prop
    | [] => True
    | j :: js => j.Wf ∧ WfList js
  def WfMembers : List (Bytes × Json) → Prop
    | [] => True
    | (_, j) :: r => j.Wf ∧ WfMembers r
end

/-- hypothesis on the string escaper (discharged by the model of `basictl.JSONWriteString`, C34) -/
structure EscOK (esc : Bytes → List Char) : Prop where
  body : ∀ b, IsStrBody (esc b)

theorem printMember_isMember {esc : Bytes → List Char} (he : EscOK esc) (k : Bytes) (pj : List Char) (hv : IsValue pj) :
    IsMember ('"' :: (esc k ++ '"' :: ':' :: pj)) := by
  have := IsMember.mk [] (esc k) [] pj isWs_nil (he.body k) isWs_nil (IsElement.ofValue hv)
  simpa using this

mutual
  theorem printJson_valid {esc : Bytes → List Char} (he : EscOK esc) : ∀ j : Json, j.Wf → IsValue (printJson esc j)
    | .null, _ => by simp [printJson]; exact .null
    | .bool true, _ => by simp [printJson]; exact .tru
    | .bool false, _ => by simp [printJson]; exact .fls
    | .num t, h => by
      simp only [printJson]
      exact .num t (by simpa [Json.Wf] using h)
    | .str b, _ => by
      simp only [printJson]
      exact .str _ (he.body b)
    | .arr es, h => by
      simp only [printJson]
      cases es with
      | nil => simp only [printElems]; exact .arrEmpty [] isWs_nil
      | cons e r => exact .arr _ (printElems_valid he (e :: r) (by simp) (by simpa [Json.Wf] using h))
    | .obj ms, h => by
      simp only [printJson]
      cases ms with
      | nil => simp only [printMembers]; exact .objEmpty [] isWs_nil
      | cons m r => exact .obj _ (printMembers_valid he (m :: r) (by simp) (by simpa [Json.Wf] using h))
  theorem printElems_valid {esc : Bytes → List Char} (he : EscOK esc) :
      ∀ (es : List Json), es ≠ [] → WfList es → IsElems (printElems esc es)
    | [], hne, _ => absurd rfl hne
    | [e], _, h => by
      simp only [printElems]
      exact .one _ (IsElement.ofValue (printJson_valid he e (by simpa [WfList] using h)))
    | e :: e2 :: es, _, h => by
      simp only [printElems]
      have h' : e.Wf ∧ WfList (e2 :: es) := by simpa [WfList] using h
      exact .cons _ _ (IsElement.ofValue (printJson_valid he e h'.1)) (printElems_valid he (e2 :: es) (by simp) h'.2)
  theorem printMembers_valid {esc : Bytes → List Char} (he : EscOK esc) :
      ∀ (ms : List (Bytes × Json)), ms ≠ [] → WfMembers ms → IsMembers (printMembers esc ms)
    | [], hne, _ => absurd rfl hne
    | [(k, j)], _, h => by
      simp only [printMembers]
      exact .one _ (printMember_isMember he k _ (printJson_valid he j (by simpa [WfMembers] using h)))
    | (k, j) :: m2 :: ms, _, h => by
      simp only [printMembers]
      have h' : j.Wf ∧ WfMembers (m2 :: ms) := by simpa [WfMembers] using h
      have hm := printMember_isMember he k _ (printJson_valid he j h'.1)
      have := IsMembers.cons _ _ hm (printMembers_valid he (m2 :: ms) (by simp) h'.2)
      simpa using this
end

end TLVerif.Codec
