import TLVerif.Prim.TL2SizeLemmas
import TLVerif.Codec.TL2
/-!
Helper lemmas about the TL2 model (`TL2.lean`).
Part 1: the layout pass computes exactly the length of what the write pass emits (`layout_agrees_enc`).
-/
namespace TLVerif.Codec
open TLVerif.Prim

/-! ### layout = length of the encoding -/

def lenOpt (r : Option Bytes) : Option Nat := r.map List.length

theorem u32le_length (n : Nat) : (u32le n).length = 4 := rfl
theorem u64le_length (n : Nat) : (u64le n).length = 8 := rfl

theorem primSize_eq (k : PrimK) (v : Val) : primSize k v = (primTL2 k v).map List.length := by
  cases k <;> cases v <;> simp [primSize, primTL2, Except.map, u32le_length, u64le_length, stringWriteTL2, tl2_calc_eq_len]

theorem layPrim_eq (k : PrimK) (zie : Bool) (v : Val) :
    layPrim k zie v = (encPrim k zie v).map lenOpt := by
  unfold layPrim encPrim
  rw [primSize_eq]
  cases primTL2 k v with
  | error e => rfl
  | ok b =>
    simp only [Except.map]
    split <;> simp [lenOpt]

theorem layField_eq (lay : Lay) (enc : Enc) (h : ∀ ty zie v, lay ty zie v = (enc ty zie v).map lenOpt)
    (f : Field) (v : Option Val) : layField lay f v = (encField enc f v).map lenOpt := by
  unfold layField encField
  by_cases ho : f.omitted = true
  · simp only [ho, if_true]; rfl
  · simp only [ho, Bool.false_eq_true, if_false]
    by_cases ht : f.tl2bit.isSome = true
    · simp only [ht, if_true]
      cases v with
      | none => rfl
      | some x =>
        by_cases hb : f.isBit = true
        · simp only [hb, if_true]; rfl
        · simp only [hb, Bool.false_eq_true, if_false]; exact h _ _ _
    · simp only [ht, Bool.false_eq_true, if_false]
      cases v with
      | none => rfl
      | some x => exact h _ _ _

theorem layFields_eq (lay : Lay) (enc : Enc) (h : ∀ ty zie v, lay ty zie v = (enc ty zie v).map lenOpt) :
    ∀ (fs : List Field) (vs : List (Option Val)),
      layFieldsWith lay fs vs = (encFieldsWith enc fs vs).map (List.map lenOpt) := by
  intro fs
  induction fs with
  | nil => intro vs; cases vs <;> rfl
  | cons f fs ih =>
    intro vs
    cases vs with
    | nil => rfl
    | cons v vs =>
      simp only [layFieldsWith, encFieldsWith]
      rw [ih vs, layField_eq lay enc h]
      cases encField enc f v with
      | error e => rfl
      | ok b => cases encFieldsWith enc fs vs <;> rfl

theorem optBytes_length (b : Option Bytes) : (optBytes b).length = (lenOpt b).getD 0 := by
  cases b <;> rfl

theorem layElems_eq (lay : Lay) (enc : Enc) (h : ∀ ty zie v, lay ty zie v = (enc ty zie v).map lenOpt) (ty : Nat) :
    ∀ vs : List Val, layElemsWith lay ty vs = (encElemsWith enc ty vs).map List.length := by
  intro vs
  induction vs with
  | nil => rfl
  | cons v vs ih =>
    simp only [layElemsWith, encElemsWith]
    rw [h, ih]
    cases enc ty false v with
    | error e => rfl
    | ok b =>
      cases encElemsWith enc ty vs with
      | error e => rfl
      | ok bs => simp [Except.map, optBytes_length]

/-! the struct body -/

def anyPresent (rs : List (Option Bytes)) : Bool := rs.any Option.isSome

theorem bodyLoop_absent : ∀ (rs : List (Option Bytes)) (i : Nat), anyPresent rs = false → bodyLoop i rs = (0, []) := by
  intro rs
  induction rs with
  | nil => intro i _; rfl
  | cons r rs ih =>
    intro i h
    simp only [anyPresent, List.any_cons, Bool.or_eq_false_iff] at h
    have hr : r = none := by cases r <;> simp_all
    subst hr
    have := ih (i + 1) (by simpa [anyPresent] using h.2)
    simp only [bodyLoop, this, fieldBit, optBytes]
    split <;> simp

theorem fieldBit_pos (i : Nat) : 0 < fieldBit i true := by
  simp only [fieldBit, if_true]; exact Nat.pow_pos (by decide)

theorem cond_pos (a m : Nat) (t : Bytes) (h : 0 < a) : (a + m == 0 && t.isEmpty) = false := by
  have h1 : (a + m == 0) = false := by rw [beq_eq_false_iff_ne]; omega
  rw [h1]; rfl

theorem cond_used (m : Nat) (t : Bytes) (h : m ≠ 0 ∨ t ≠ []) : (m == 0 && t.isEmpty) = false := by
  rcases h with h1 | h2
  · simp [h1]
  · cases t with
    | nil => exact absurd rfl h2
    | cons _ _ => simp

theorem bodyLoop_cons (i : Nat) (r : Option Bytes) (rs : List (Option Bytes)) :
    bodyLoop i (r :: rs) =
      if (i + 1) % 8 == 0 then
        (0, if (fieldBit i r.isSome + (bodyLoop (i + 1) rs).1 == 0 && (optBytes r ++ (bodyLoop (i + 1) rs).2).isEmpty) then []
            else byteOf (fieldBit i r.isSome + (bodyLoop (i + 1) rs).1) :: (optBytes r ++ (bodyLoop (i + 1) rs).2))
      else (fieldBit i r.isSome + (bodyLoop (i + 1) rs).1, optBytes r ++ (bodyLoop (i + 1) rs).2) := by
  simp only [bodyLoop]

theorem bodyLoop_present : ∀ (rs : List (Option Bytes)) (i : Nat), anyPresent rs = true →
    (bodyLoop i rs).1 ≠ 0 ∨ (bodyLoop i rs).2 ≠ [] := by
  intro rs
  induction rs with
  | nil => intro i h; simp [anyPresent] at h
  | cons r rs ih =>
    intro i h
    rw [bodyLoop_cons]
    cases r with
    | some b =>
      have hp := fieldBit_pos i
      by_cases hb : ((i + 1) % 8 == 0) = true
      · rw [if_pos hb]
        right
        simp only [Option.isSome_some]
        rw [cond_pos _ _ _ hp]
        simp
      · rw [if_neg hb]
        left; simp only [Option.isSome_some]; omega
    | none =>
      have h' : anyPresent rs = true := by simpa [anyPresent] using h
      have := ih (i + 1) h'
      have e1 : fieldBit i (none : Option Bytes).isSome = 0 := rfl
      have e2 : optBytes (none : Option Bytes) = [] := rfl
      rw [e1, e2, Nat.zero_add, List.nil_append]
      by_cases hb : ((i + 1) % 8 == 0) = true
      · rw [if_pos hb]
        right
        rw [cond_used _ _ this]
        simp
      · rw [if_neg hb]
        exact this

theorem layLoop_le : ∀ (szs : List (Option Nat)) (i cur last : Nat), last ≤ cur →
    (layLoop i cur last szs).2 ≤ (layLoop i cur last szs).1 := by
  intro szs
  induction szs with
  | nil => intro i cur last h; exact h
  | cons r szs ih =>
    intro i cur last h
    simp only [layLoop]
    cases r with
    | some n => exact ih _ _ _ (Nat.le_refl _)
    | none => exact ih _ _ _ (by split <;> omega)

/-- `lastUsedByte` after the loop = `currentSize` before it + the bytes the write pass emits from field `i` on -/
theorem layLoop_last : ∀ (rs : List (Option Bytes)) (i cur last : Nat),
    (layLoop i cur last (rs.map lenOpt)).2 =
      if anyPresent rs then cur + (bodyLoop i rs).2.length else last := by
  intro rs
  induction rs with
  | nil => intro i cur last; simp [layLoop, anyPresent]
  | cons r rs ih =>
    intro i cur last
    rw [bodyLoop_cons]
    simp only [List.map_cons, layLoop]
    cases r with
    | some b =>
      have hany : anyPresent (some b :: rs) = true := by simp [anyPresent]
      rw [hany, if_pos rfl]
      show (layLoop (i + 1) ((if (i + 1) % 8 == 0 then cur + 1 else cur) + b.length)
              ((if (i + 1) % 8 == 0 then cur + 1 else cur) + b.length) (rs.map lenOpt)).2 = _
      rw [ih]
      have hp := fieldBit_pos i
      have e1 : fieldBit i (some b).isSome = fieldBit i true := rfl
      have e2 : optBytes (some b) = b := rfl
      rw [e1, e2]
      have htail : (if anyPresent rs = true then
            (if (i + 1) % 8 == 0 then cur + 1 else cur) + b.length + (bodyLoop (i + 1) rs).2.length
          else (if (i + 1) % 8 == 0 then cur + 1 else cur) + b.length)
          = (if (i + 1) % 8 == 0 then cur + 1 else cur) + (b ++ (bodyLoop (i + 1) rs).2).length := by
        by_cases ha : anyPresent rs = true
        · rw [if_pos ha, List.length_append]; omega
        · have ha' : anyPresent rs = false := by simpa using ha
          rw [if_neg ha, bodyLoop_absent rs (i + 1) ha']; simp
      rw [htail]
      by_cases hb : ((i + 1) % 8 == 0) = true
      · rw [if_pos hb, if_pos hb, cond_pos _ _ _ hp]
        simp only [Bool.false_eq_true, if_false, List.length_cons]; omega
      · rw [if_neg hb, if_neg hb]
    | none =>
      have hany : anyPresent (none :: rs) = anyPresent rs := by simp [anyPresent]
      rw [hany]
      show (layLoop (i + 1) (if (i + 1) % 8 == 0 then cur + 1 else cur) last (rs.map lenOpt)).2 = _
      rw [ih]
      have e1 : fieldBit i (none : Option Bytes).isSome = 0 := rfl
      have e2 : optBytes (none : Option Bytes) = [] := rfl
      rw [e1, e2, Nat.zero_add, List.nil_append]
      by_cases ha : anyPresent rs = true
      · rw [if_pos ha, if_pos ha]
        have hp := bodyLoop_present rs (i + 1) ha
        by_cases hb : ((i + 1) % 8 == 0) = true
        · rw [if_pos hb, if_pos hb, cond_used _ _ hp]
          simp only [Bool.false_eq_true, if_false, List.length_cons]; omega
        · rw [if_neg hb, if_neg hb]
      · rw [if_neg ha, if_neg ha]

theorem layBody_eq (ui : Nat) (rs : List (Option Bytes)) :
    layBody ui (rs.map lenOpt) = (bodyTL2 ui rs).length := by
  unfold layBody bodyTL2
  by_cases hu : (ui == 0) = true
  · simp only [hu, if_true]
    have hle := layLoop_le (rs.map lenOpt) 0 1 0 (by omega)
    have hl := layLoop_last rs 0 1 0
    have hres : (if (layLoop 0 1 0 (rs.map lenOpt)).2 < (layLoop 0 1 0 (rs.map lenOpt)).1
        then (layLoop 0 1 0 (rs.map lenOpt)).2 else (layLoop 0 1 0 (rs.map lenOpt)).1) = (layLoop 0 1 0 (rs.map lenOpt)).2 := by
      split <;> omega
    show (if (layLoop 0 1 0 (rs.map lenOpt)).2 < (layLoop 0 1 0 (rs.map lenOpt)).1
        then (layLoop 0 1 0 (rs.map lenOpt)).2 else (layLoop 0 1 0 (rs.map lenOpt)).1) = _
    rw [hres, hl]
    by_cases ha : anyPresent rs = true
    · rw [if_pos ha, cond_used _ _ (bodyLoop_present rs 0 ha)]
      simp only [Bool.false_eq_true, if_false, List.length_cons]; omega
    · have ha' : anyPresent rs = false := by simpa using ha
      rw [if_neg ha, bodyLoop_absent rs 0 ha']; rfl
  · simp only [hu, Bool.false_eq_true, if_false]
    have hle := layLoop_le (rs.map lenOpt) 0 (1 + tl2CalculateSize ui) (1 + tl2CalculateSize ui) (Nat.le_refl _)
    have hl := layLoop_last rs 0 (1 + tl2CalculateSize ui) (1 + tl2CalculateSize ui)
    show (if (layLoop 0 (1 + tl2CalculateSize ui) (1 + tl2CalculateSize ui) (rs.map lenOpt)).2 <
          (layLoop 0 (1 + tl2CalculateSize ui) (1 + tl2CalculateSize ui) (rs.map lenOpt)).1
        then (layLoop 0 (1 + tl2CalculateSize ui) (1 + tl2CalculateSize ui) (rs.map lenOpt)).2
        else (layLoop 0 (1 + tl2CalculateSize ui) (1 + tl2CalculateSize ui) (rs.map lenOpt)).1) = _
    have hres : ∀ a b : Nat, a ≤ b → (if a < b then a else b) = a := by intro a b h; split <;> omega
    rw [hres _ _ hle, hl, tl2_calc_eq_len]
    by_cases ha : anyPresent rs = true
    · rw [if_pos ha]; simp only [List.length_cons, List.length_append]; omega
    · have ha' : anyPresent rs = false := by simpa using ha
      rw [if_neg ha, bodyLoop_absent rs 0 ha']; simp only [List.length_cons, List.length_append, List.length_nil]; omega

theorem layObj_eq (zie : Bool) (body : Bytes) :
    layObj zie body.length = lenOpt (objTL2 zie body) := by
  unfold layObj objTL2
  cases body with
  | nil => cases zie <;> rfl
  | cons b t => simp [lenOpt, tl2_calc_eq_len]; omega

/-- **The layout pass agrees with the write pass**: for every descriptor, type, value and `optimizeEmpty` flag the size
`CalculateLayout` announces (including "absent") is the length of what `InternalWriteTL2` emits; errors coincide. -/
theorem layout_agrees_enc (d : Desc) : ∀ (fuel ty : Nat) (zie : Bool) (v : Val),
    layoutTL2 d fuel ty zie v = (encTL2 d fuel ty zie v).map lenOpt := by
  intro fuel
  induction fuel with
  | zero => intro ty zie v; rfl
  | succ fuel ih =>
    intro ty zie v
    unfold layoutTL2 encTL2
    cases hty : d.get? ty with
    | none => rfl
    | some inst =>
      cases inst with
      | prim k => exact layPrim_eq k zie v
      | struct s =>
        simp only []
        by_cases hal : ((s.isAlias || s.isUnwrap) && !s.isUnionElement) = true
        · simp only [hal, if_true]
          split <;> first | exact ih _ _ _ | rfl
        · simp only [hal, Bool.false_eq_true, if_false]
          cases v with
          | struct fs =>
            simp only []
            rw [layFields_eq _ _ ih]
            cases encFieldsWith (encTL2 d fuel) s.fields fs with
            | error e => rfl
            | ok rs => simp only [Except.map]; rw [layBody_eq, layObj_eq]
          | _ => rfl
      | union u =>
        simp only []
        cases v with
        | union i x =>
          simp only []
          cases hv : u.variants[i]? with
          | none => rfl
          | some p =>
            obtain ⟨vi, nm⟩ := p
            simp only []
            by_cases hm : (u.isMaybe && i != 0) = true
            · simp only [hm, if_true]
              split
              · rename_i vs y hg
                split
                · rename_i f hf
                  rw [ih]
                  cases encTL2 d fuel f.ty true y with
                  | error e => rfl
                  | ok r =>
                    simp only [Except.map]
                    have := layBody_eq i [r]
                    simp only [List.map_cons, List.map_nil] at this
                    rw [this, layObj_eq]
                · rfl
              · rfl
            · simp only [hm, Bool.false_eq_true, if_false]
              exact ih _ _ _
        | _ => rfl
      | array a =>
        simp only []
        cases v with
        | arr es =>
          simp only []
          split
          · rfl
          · split
            · cases zie <;> rfl
            · by_cases hb : isBitTy d a.elem.ty = true
              · simp only [hb, if_true]
                cases boolsOf es with
                | none => rfl
                | some bs =>
                  simp only [Except.map, lenOpt, Option.map_some, List.length_append, ← bits_write_length, tl2_calc_eq_len]
                  rw [Nat.add_comm]
              · simp only [hb, Bool.false_eq_true, if_false]
                rw [layElems_eq _ _ ih]
                cases encElemsWith (encTL2 d fuel) a.elem.ty es with
                | error e => rfl
                | ok c =>
                  simp only [Except.map, lenOpt, Option.map_some, List.length_append, tl2_calc_eq_len]
                  rw [Nat.add_comm]
        | _ => rfl
      | dict a =>
        simp only []
        cases v with
        | arr es =>
          simp only []
          split
          · cases zie <;> rfl
          · rw [layElems_eq _ _ ih]
            cases encElemsWith (encTL2 d fuel) a.elem.ty es with
            | error e => rfl
            | ok c =>
              simp only [Except.map, lenOpt, Option.map_some, List.length_append, tl2_calc_eq_len]
              rw [Nat.add_comm]
        | _ => rfl

end TLVerif.Codec
