import TLVerif.Codec.TL1Canon
/-!
Round trip (C01): `writeTL1 v = ok bs → readTL1 (bs ++ rest) = ok (v, rest)` for `Normal` values,
and soundness of the minimal-size function used to discharge `CheckLengthSanity`.
-/
namespace TLVerif.Codec
open TLVerif.Prim

/-! ### primitives -/

theorem writePrim_read {d : Desc} {k : PrimK} (hk : Inst.rtOk d (.prim k) = true) {v : Val} {bs : Bytes}
    (hn : normalPrim k v = true) (hw : writePrim k v = .ok bs) (rest : Bytes) :
    readPrim k (bs ++ rest) = .ok (v, rest) := by
  cases k with
  | u32 =>
    cases v <;> simp only [normalPrim, writePrim, decide_eq_true_eq] at hn hw <;> try cases hw
    simp only [readPrim, readU32_u32le_lt hn]; rfl
  | i32 =>
    cases v <;> simp only [normalPrim, writePrim, decide_eq_true_eq] at hn hw <;> try cases hw
    simp only [readPrim, readU32_u32le_lt hn]; rfl
  | f32 =>
    cases v <;> simp only [normalPrim, writePrim, decide_eq_true_eq] at hn hw <;> try cases hw
    simp only [readPrim, readU32_u32le_lt hn]; rfl
  | u64 =>
    cases v <;> simp only [normalPrim, writePrim, decide_eq_true_eq] at hn hw <;> try cases hw
    simp only [readPrim, readU64_u64le, Nat.mod_eq_of_lt hn]; rfl
  | i64 =>
    cases v <;> simp only [normalPrim, writePrim, decide_eq_true_eq] at hn hw <;> try cases hw
    simp only [readPrim, readU64_u64le, Nat.mod_eq_of_lt hn]; rfl
  | f64 =>
    cases v <;> simp only [normalPrim, writePrim, decide_eq_true_eq] at hn hw <;> try cases hw
    simp only [readPrim, readU64_u64le, Nat.mod_eq_of_lt hn]; rfl
  | byte =>
    cases v <;> simp only [normalPrim, writePrim, decide_eq_true_eq] at hn hw <;> try cases hw
    simp only [readPrim, List.cons_append, List.nil_append, byteOf_toNat, Nat.mod_eq_of_lt hn]
  | bit => cases v <;> simp [normalPrim] at hn
  | str =>
    cases v <;> simp only [normalPrim, writePrim] at hn hw <;> try cases hw
    rename_i s
    cases h1 : stringWrite s with
    | none => rw [h1] at hw; cases hw
    | some b =>
      rw [h1] at hw; injection hw with hw; subst hw
      simp only [readPrim, string_roundtrip _ _ _ h1]; rfl
  | bool f t =>
    simp only [Inst.rtOk, Bool.and_eq_true, decide_eq_true_eq] at hk
    cases v <;> simp only [normalPrim, writePrim] at hn hw <;> try cases hw
    rename_i b
    cases b with
    | false => simp only [readPrim, Bool.false_eq_true, if_false, readU32_u32le_lt hk.1, if_true]
    | true =>
      simp only [Bool.not_true, Bool.false_or, bne_iff_ne, ne_eq] at hn
      simp only [readPrim, if_true, readU32_u32le_lt hk.2, if_neg (Ne.symm hn)]


/-! ### nat arguments that refer to earlier fields see the same values in a prefix -/

theorem natArgVal_prefix {acc ext : List (Option Val)} {params : List Nat} {a : NatArg}
    (h : a.refsLt acc.length = true) : natArgVal (acc ++ ext) params a = natArgVal acc params a := by
  cases a with
  | num n => rfl
  | param i => rfl
  | field i =>
    simp only [NatArg.refsLt, decide_eq_true_eq] at h
    simp only [natArgVal, List.getElem?_append_left h]

theorem natArgVals_prefix {acc ext : List (Option Val)} {params : List Nat} {as : List NatArg}
    (h : as.all (NatArg.refsLt acc.length) = true) : natArgVals (acc ++ ext) params as = natArgVals acc params as := by
  induction as with
  | nil => rfl
  | cons a as ih =>
    simp only [List.all_cons, Bool.and_eq_true] at h
    simp only [natArgVals, natArgVal_prefix h.1, ih h.2]

theorem fieldPresent_prefix {f : Field} {acc ext : List (Option Val)} {params : List Nat}
    (h : f.refsLt acc.length = true) : fieldPresent f (acc ++ ext) params = fieldPresent f acc params := by
  simp only [Field.refsLt, Bool.and_eq_true] at h
  unfold fieldPresent
  cases hm : f.mask with
  | none => rfl
  | some p =>
    obtain ⟨a, bit⟩ := p
    have h1 := h.1; rw [hm] at h1
    simp only [natArgVal_prefix h1]

/-- round trip of a reader/writer pair on the values accepted by `nm` -/
def RT (S : Nat → Bool) (rd : Rd) (wr : Wr) (nm : Nm) : Prop :=
  ∀ ty bare na v bs rest, S ty = true → nm ty bare na v = true → wr ty bare na v = .ok bs → rd ty bare na (bs ++ rest) = .ok (v, rest)

theorem writeFields_read {S : Nat → Bool} {rd : Rd} {wr : Wr} {nm : Nm} (hrt : RT S rd wr nm) (params : List Nat) (rest : Bytes) :
    ∀ (fields : List Field) (acc vs : List (Option Val)) (bs : Bytes),
      (∀ f ∈ fields, S f.ty = true) →
      fieldsRefsOk acc.length fields = true →
      normalFieldsWith nm params (acc ++ vs) fields vs = true →
      writeFieldsWith wr params (acc ++ vs) fields vs = .ok bs →
      readFieldsWith rd params fields acc (bs ++ rest) = .ok (acc ++ vs, rest) := by
  intro fields
  induction fields with
  | nil =>
    intro acc vs bs _ _ hn hw
    cases vs with
    | nil => simp only [writeFieldsWith] at hw; injection hw with hw; subst hw; simp [readFieldsWith]
    | cons v vs => simp [normalFieldsWith] at hn
  | cons f fs ih =>
    intro acc vs bs hS hro hn hw
    have hS' : ∀ g ∈ fs, S g.ty = true := fun g hg => hS g (by simp [hg])
    cases vs with
    | nil => simp [normalFieldsWith] at hn
    | cons v vs =>
      simp only [fieldsRefsOk, Bool.and_eq_true] at hro
      obtain ⟨hf, hro⟩ := hro
      have hfl : f.refsLt acc.length = true := hf
      simp only [Field.refsLt, Bool.and_eq_true] at hf
      have eacc : acc ++ v :: vs = (acc ++ [v]) ++ vs := by simp
      have hlen : (acc ++ [v]).length = acc.length + 1 := by simp
      simp only [normalFieldsWith, writeFieldsWith, fieldPresent_prefix hfl, natArgVals_prefix hf.2] at hn hw
      simp only [readFieldsWith]
      cases hp : fieldPresent f acc params with
      | none => simp [hp] at hn
      | some b =>
        cases hna : natArgVals acc params f.natArgs with
        | none => cases b <;> simp [hp, hna] at hn
        | some na =>
          cases b with
          | true =>
            simp only [hp, hna, Bool.and_eq_true] at hn hw ⊢
            cases v with
            | none => simp at hn
            | some x =>
              simp only at hn hw
              cases hx : wr f.ty f.bare na x with
              | error e => simp [hx] at hw
              | ok b1 =>
                simp only [hx] at hw
                cases hrest : writeFieldsWith wr params (acc ++ some x :: vs) fs vs with
                | error e => simp [hrest] at hw
                | ok b2 =>
                  simp only [hrest] at hw
                  injection hw with hw; subst hw
                  rw [List.append_assoc, hrt _ _ _ _ _ _ (hS f (by simp)) hn.1 hx]
                  simp only
                  rw [eacc] at hrest hn ⊢
                  exact ih _ _ _ hS' (by rw [hlen]; exact hro) hn.2 hrest
          | false =>
            simp only [hp, hna, Bool.and_eq_true] at hn hw ⊢
            cases v with
            | some x => simp at hn
            | none =>
              rw [eacc] at hw hn ⊢
              exact ih _ _ _ hS' (by rw [hlen]; exact hro) hn.2 hw

theorem writeElems_read {S : Nat → Bool} {rd : Rd} {wr : Wr} {nm : Nm} (hrt : RT S rd wr nm) (f : Field) (hS : S f.ty = true)
    (na : List Nat) (rest : Bytes) :
    ∀ (es : List Val) (bs : Bytes), es.all (nm f.ty f.bare na) = true → writeElemsWith wr f na es = .ok bs →
      readElemsWith rd f na es.length (bs ++ rest) = .ok (es, rest) := by
  intro es
  induction es with
  | nil => intro bs _ hw; simp only [writeElemsWith] at hw; injection hw with hw; subst hw; rfl
  | cons v vs ih =>
    intro bs hn hw
    simp only [List.all_cons, Bool.and_eq_true] at hn
    simp only [writeElemsWith] at hw
    cases hx : wr f.ty f.bare na v with
    | error e => simp [hx] at hw
    | ok b1 =>
      simp only [hx] at hw
      cases hr : writeElemsWith wr f na vs with
      | error e => simp [hr] at hw
      | ok b2 =>
        simp only [hr] at hw
        injection hw with hw; subst hw
        simp only [List.length_cons, readElemsWith]
        rw [List.append_assoc, hrt _ _ _ _ _ _ hS hn.1 hx]
        simp only [ih _ hn.2 hr]


/-! ### sorted dictionaries are fixed by `dictNormalize` -/

theorem dictInsert_append (k : PrimK) (e : Val) :
    ∀ (acc : List Val), (∀ a ∈ acc, keyLt k (elemKey a) (elemKey e) = true ∧ keyLt k (elemKey e) (elemKey a) = false) →
      dictInsert k e acc = acc ++ [e] := by
  intro acc
  induction acc with
  | nil => intro _; rfl
  | cons x xs ih =>
    intro h
    have hx := h x (by simp)
    simp only [dictInsert, hx.1, hx.2, Bool.false_eq_true, if_false, if_true, List.cons_append]
    rw [ih (fun a ha => h a (by simp [ha]))]

theorem dictFold_sorted (k : PrimK) :
    ∀ (vs acc : List Val), dictSorted k vs = true →
      (∀ a ∈ acc, ∀ v ∈ vs, keyLt k (elemKey a) (elemKey v) = true ∧ keyLt k (elemKey v) (elemKey a) = false) →
      vs.foldl (fun acc e => dictInsert k e acc) acc = acc ++ vs := by
  intro vs
  induction vs with
  | nil => intro acc _ _; simp
  | cons v vs ih =>
    intro acc hs hacc
    simp only [dictSorted, Bool.and_eq_true, List.all_eq_true, Bool.not_eq_true'] at hs
    simp only [List.foldl_cons]
    rw [dictInsert_append k v acc (fun a ha => hacc a ha v (by simp))]
    rw [ih _ hs.2]
    · simp
    · intro a ha w hw
      simp only [List.mem_append, List.mem_singleton] at ha
      rcases ha with ha | ha
      · exact hacc a ha w (by simp [hw])
      · subst ha; exact hs.1 w hw

theorem dictNormalize_sorted {k : PrimK} {es : List Val} (h : dictSorted k es = true) : dictNormalize k es = es := by
  unfold dictNormalize
  rw [dictFold_sorted k es [] h (fun a ha => by cases ha)]
  rfl

/-! ### soundness of `minSize` -/

theorem stringWrite_min4 {s bs : Bytes} (h : stringWrite s = some bs) : 4 ≤ bs.length := by
  have ha := string_write_aligned s bs h
  have : 0 < bs.length := by
    unfold stringWrite at h
    cases hw : stringWriteLen s.length with
    | none => simp [hw] at h
    | some p =>
      obtain ⟨hdr, q⟩ := p
      simp only [hw] at h
      injection h with h; subst h
      have : 0 < hdr.length := by
        unfold stringWriteLen at hw
        split at hw
        · injection hw with hw; injection hw with hw _; subst hw; simp
        · split at hw
          · injection hw with hw; injection hw with hw _; subst hw; simp
          · split at hw
            · cases hw
            · injection hw with hw; injection hw with hw _; subst hw; simp
      simp only [List.length_append]; omega
  omega

theorem writePrim_min {k : PrimK} {v : Val} {bs : Bytes} (h : writePrim k v = .ok bs) : minSizePrim k ≤ bs.length := by
  cases k <;> cases v <;> simp only [writePrim] at h <;> try cases h
  all_goals try (simp [minSizePrim, u32le_length, u64le_length])
  rename_i s
  cases h1 : stringWrite s with
  | none => rw [h1] at h; cases h
  | some b => rw [h1] at h; injection h with h; subst h; exact stringWrite_min4 h1

/-- writer `wr` never emits fewer than `ms` bytes -/
def MinOk (wr : Wr) (ms : Nat → Bool → Nat) : Prop :=
  ∀ ty bare na v bs, wr ty bare na v = .ok bs → ms ty bare ≤ bs.length

theorem writeFields_min {wr : Wr} {ms : Nat → Bool → Nat} (hm : MinOk wr ms) (params : List Nat) (all : List (Option Val)) :
    ∀ (fields : List Field) (vs : List (Option Val)) (bs : Bytes),
      writeFieldsWith wr params all fields vs = .ok bs → minFields ms fields ≤ bs.length := by
  intro fields
  induction fields with
  | nil => intro vs bs _; simp [minFields]
  | cons f fs ih =>
    intro vs bs h
    cases vs with
    | nil => simp [writeFieldsWith] at h
    | cons v vs =>
      simp only [writeFieldsWith] at h
      simp only [minFields]
      cases hp : fieldPresent f all params with
      | none => simp [hp] at h
      | some b =>
        cases hna : natArgVals all params f.natArgs with
        | none => cases b <;> simp [hp, hna] at h
        | some na =>
          cases b with
          | true =>
            simp only [hp, hna] at h
            cases v with
            | none => simp at h
            | some x =>
              simp only at h
              cases hx : wr f.ty f.bare na x with
              | error e => simp [hx] at h
              | ok b1 =>
                simp only [hx] at h
                cases hr : writeFieldsWith wr params all fs vs with
                | error e => simp [hr] at h
                | ok b2 =>
                  simp only [hr] at h
                  injection h with h; subst h
                  have := hm _ _ _ _ _ hx
                  have := ih _ _ hr
                  simp only [List.length_append]
                  split <;> omega
          | false =>
            simp only [hp, hna] at h
            have hmask : f.mask.isNone = false := by
              unfold fieldPresent at hp
              cases hm' : f.mask with
              | none => rw [hm'] at hp; cases hp
              | some _ => rfl
            have := ih _ _ h
            simp only [hmask, Bool.false_eq_true, if_false]; omega

theorem writeElems_min {wr : Wr} {ms : Nat → Bool → Nat} (hm : MinOk wr ms) (f : Field) (na : List Nat) :
    ∀ (es : List Val) (bs : Bytes), writeElemsWith wr f na es = .ok bs → es.length * ms f.ty f.bare ≤ bs.length := by
  intro es
  induction es with
  | nil => intro bs _; simp
  | cons v vs ih =>
    intro bs h
    simp only [writeElemsWith] at h
    cases hx : wr f.ty f.bare na v with
    | error e => simp [hx] at h
    | ok b1 =>
      simp only [hx] at h
      cases hr : writeElemsWith wr f na vs with
      | error e => simp [hr] at h
      | ok b2 =>
        simp only [hr] at h
        injection h with h; subst h
        have := hm _ _ _ _ _ hx
        have := ih _ hr
        simp only [List.length_cons, List.length_append, Nat.add_mul]; omega

theorem minSize_sound (d : Desc) : ∀ (g f : Nat), MinOk (writeTL1 d f) (minSize d g) := by
  intro g
  induction g with
  | zero => intro f ty bare na v bs _; simp [minSize]
  | succ g ih =>
    intro f ty bare params v bs h
    cases f with
    | zero => simp [writeTL1] at h
    | succ f =>
      simp only [writeTL1] at h
      simp only [minSize]
      cases hg : d.get? ty with
      | none => simp
      | some inst =>
        simp only [hg] at h
        cases inst with
        | prim k => exact writePrim_min h
        | struct s =>
          simp only at h ⊢
          cases v with
          | struct fs =>
            simp only at h
            cases hw : writeFieldsWith (writeTL1 d f) params fs s.fields fs with
            | error e => simp [hw] at h
            | ok b =>
              simp only [hw] at h
              injection h with h; subst h
              have := writeFields_min (ih f) params fs _ _ _ hw
              cases bare <;> simp [u32le_length] <;> omega
          | _ => simp at h
        | union u =>
          simp only at h ⊢
          split
          · rename_i hall
            cases v with
            | union i x =>
              simp only at h
              cases hv : u.variants[i]? with
              | none => simp [hv] at h
              | some p =>
                obtain ⟨vi, nm⟩ := p
                cases hna : natArgVals [] params u.elemNatArgs with
                | none => simp [hv, hna] at h
                | some na =>
                  simp only [hv, hna] at h
                  have hmem : (vi, nm) ∈ u.variants := List.mem_of_getElem? hv
                  have := (List.all_eq_true.mp hall) _ hmem
                  simp only at this
                  cases hgv : d.get? vi with
                  | none => simp [hgv] at this
                  | some iv =>
                    cases iv with
                    | struct s =>
                      cases f with
                      | zero => simp [writeTL1] at h
                      | succ f' =>
                        simp only [writeTL1, hgv] at h
                        cases x with
                        | struct fs =>
                          simp only at h
                          cases hw : writeFieldsWith (writeTL1 d f') na fs s.fields fs with
                          | error e => simp [hw] at h
                          | ok b =>
                            simp only [hw] at h
                            injection h with h; subst h
                            simp [u32le_length]
                        | _ => simp at h
                    | _ => simp [hgv] at this
            | _ => simp at h
          · simp
        | array a =>
          simp only at h ⊢
          cases hna : natArgVals [] params a.elem.natArgs with
          | none => cases v <;> simp [hna] at h
          | some na =>
            cases v with
            | arr es =>
              simp only [hna] at h
              by_cases ct : a.isTuple = true
              · simp only [ct, if_true] at h ⊢
                by_cases cd : a.dynamic = true
                · simp [cd]
                · simp only [cd, Bool.false_eq_true, if_false] at h ⊢
                  split at h
                  · cases h
                  · rename_i hl
                    have := writeElems_min (ih f) a.elem na _ _ h
                    have hl' : es.length = a.count := by simpa using hl
                    rw [← hl']; exact this
              · simp only [ct, Bool.false_eq_true, if_false] at h ⊢
                split at h
                · cases h
                · cases hw : writeElemsWith (writeTL1 d f) a.elem na es with
                  | error e => rw [hw] at h; cases h
                  | ok b =>
                    rw [hw] at h; injection h with h; subst h
                    simp [u32le_length]
            | _ => simp [hna] at h
        | dict a =>
          simp only at h ⊢
          cases hna : natArgVals [] params a.elem.natArgs with
          | none => cases v <;> simp [hna] at h
          | some na =>
            cases v with
            | arr es =>
              simp only [hna] at h
              split at h
              · cases h
              · cases hw : writeElemsWith (writeTL1 d f) a.elem na es with
                | error e => rw [hw] at h; cases h
                | ok b =>
                  rw [hw] at h; injection h with h; subst h
                  simp [u32le_length]
            | _ => simp [hna] at h
/-! ### the main induction -/

theorem Desc.rtOk_get {d : Desc} (h : d.rtOk = true) {ty : Nat} {i : Inst} (hg : d.get? ty = some i) : i.rtOk d = true :=
  (List.all_eq_true.mp h) _ (Desc.get?_mem hg)

theorem Desc.elemMin4_get {d : Desc} (h : d.elemMin4 = true) {ty : Nat} {i : Inst} (hg : d.get? ty = some i) : i.elemMin4 d = true :=
  (List.all_eq_true.mp h) _ (Desc.get?_mem hg)

theorem unionOk_get {d : Desc} {u : UnionD} (h : unionOk d u = true) {i vi : Nat} {nm : String}
    (hv : u.variants[i]? = some (vi, nm)) :
    ∃ s, d.get? vi = some (.struct s) ∧ s.tag < 4294967296 ∧ findVariant d s.tag u.variants 0 = some (i, vi) := by
  have hi : i < u.variants.length := (List.getElem?_eq_some_iff.mp hv).1
  have := (List.all_eq_true.mp h) i (List.mem_range.mpr hi)
  simp only [hv] at this
  cases hg : d.get? vi with
  | none => simp [hg] at this
  | some inst =>
    cases inst with
    | struct s =>
      simp only [hg, Bool.and_eq_true, decide_eq_true_eq, beq_iff_eq] at this
      exact ⟨s, rfl, this.1, this.2⟩
    | _ => simp [hg] at this

theorem writeTL1_bare_of_boxed {d : Desc} {fuel vi : Nat} {s : StructD} (hg : d.get? vi = some (.struct s))
    {na : List Nat} {x : Val} {bs : Bytes} (h : writeTL1 d fuel vi false na x = .ok bs) :
    ∃ b, bs = u32le s.tag ++ b ∧ writeTL1 d fuel vi true na x = .ok b := by
  cases fuel with
  | zero => simp [writeTL1] at h
  | succ f =>
    simp only [writeTL1, hg] at h ⊢
    cases x with
    | struct fs =>
      simp only at h ⊢
      cases hw : writeFieldsWith (writeTL1 d f) na fs s.fields fs with
      | error e => simp [hw] at h
      | ok b =>
        simp only [hw] at h ⊢
        injection h with h
        exact ⟨b, by simpa using h.symm, by simp⟩
    | _ => simp at h

theorem sanity_of_min {d : Desc} {cfg : Cfg} (hs : cfg.sanity = false ∨ 4 ≤ minSize d d.insts.size ety ebare)
    {fuel : Nat} {f : Field} (hty : f.ty = ety) (hbare : f.bare = ebare) {na : List Nat} {es : List Val} {b : Bytes}
    (hw : writeElemsWith (writeTL1 d fuel) f na es = .ok b) (rest : Bytes) :
    sanityOk cfg (b ++ rest) es.length = true := by
  unfold sanityOk
  rcases hs with hs | hs
  · simp [hs]
  · have h1 := writeElems_min (minSize_sound d d.insts.size fuel) f na es b hw
    rw [hty, hbare] at h1
    have h2 : es.length * 4 ≤ es.length * minSize d d.insts.size ety ebare := Nat.mul_le_mul_left _ hs
    simp only [Bool.or_eq_true, decide_eq_true_eq, List.length_append]
    right; omega

theorem writeTL1_read (cfg : Cfg) (d : Desc) (S : Nat → Bool) (hcl : d.closed S = true)
    (hrt : d.allOn S (Inst.rtOk d) = true) (hs : cfg.sanity = false ∨ d.allOn S (Inst.elemMin4 d) = true) :
    ∀ fuel, RT S (readTL1 cfg d fuel) (writeTL1 d fuel) (normalTL1 d fuel) := by
  intro fuel
  induction fuel with
  | zero => intro ty bare na v bs rest _ hn _; simp [normalTL1] at hn
  | succ fuel ih =>
    intro ty bare params v bs rest hSty hn hw
    simp only [normalTL1] at hn
    simp only [writeTL1] at hw
    simp only [readTL1]
    cases hg : d.get? ty with
    | none => simp [hg] at hn
    | some inst =>
      simp only [hg] at hn hw ⊢
      have hi := Desc.allOn_get hrt hg hSty
      have hrefs := Desc.closed_get hcl hg hSty
      cases inst with
      | prim k => exact writePrim_read hi hn hw rest
      | struct s =>
        simp only [Inst.rtOk, Bool.and_eq_true, decide_eq_true_eq] at hi
        cases v with
        | struct fs =>
          simp only at hn hw ⊢
          cases hwf : writeFieldsWith (writeTL1 d fuel) params fs s.fields fs with
          | error e => simp [hwf] at hw
          | ok b =>
            simp only [hwf] at hw
            injection hw with hw; subst hw
            have hrd := writeFields_read ih params rest s.fields [] fs b
              (fun f hf => hrefs _ (by simp only [Inst.refs]; exact List.mem_map_of_mem hf)) hi.2 hn hwf
            cases bare with
            | true => simp only [if_true, List.nil_append] at hrd ⊢; rw [hrd]
            | false =>
              simp only [Bool.false_eq_true, if_false, List.append_assoc, readExactTag_ok hi.1, List.nil_append] at hrd ⊢
              rw [hrd]
        | _ => simp at hn
      | union u =>
        cases v with
        | union i x =>
          simp only at hn hw ⊢
          cases hv : u.variants[i]? with
          | none => simp [hv] at hn
          | some p =>
            obtain ⟨vi, nm⟩ := p
            cases hna : natArgVals [] params u.elemNatArgs with
            | none => simp [hv, hna] at hn
            | some na =>
              simp only [hv, hna] at hn hw
              obtain ⟨s, hgv, htag, hfind⟩ := unionOk_get hi hv
              obtain ⟨b, eb, hwb⟩ := writeTL1_bare_of_boxed hgv hw
              subst eb
              rw [List.append_assoc, readU32_u32le_lt htag]
              have hSvi : S vi = true := hrefs _ (by
                simp only [Inst.refs]; exact List.mem_map_of_mem (f := (·.1)) (List.mem_of_getElem? hv))
              simp only [hfind, ih _ _ _ _ _ rest hSvi hn hwb]
        | _ => simp at hn
      | array a =>
        cases v with
        | arr es =>
          simp only at hn hw ⊢
          cases hna : natArgVals [] params a.elem.natArgs with
          | none => simp [hna] at hn
          | some na =>
            simp only [hna] at hn hw ⊢
            have hsan : cfg.sanity = false ∨ (a.isTuple && !a.dynamic) = true ∨ 4 ≤ minSize d d.insts.size a.elem.ty a.elem.bare := by
              rcases hs with hs | hs
              · exact Or.inl hs
              · have := Desc.allOn_get hs hg hSty
                simp only [Inst.elemMin4, Bool.or_eq_true, decide_eq_true_eq] at this
                exact Or.inr this
            by_cases ct : a.isTuple = true
            · simp only [ct, if_true] at hw ⊢
              cases hn' : (if a.dynamic = true then params[0]? else some a.count) with
              | none => simp [hn'] at hw
              | some n =>
                simp only [hn'] at hw ⊢
                split at hw
                · cases hw
                · rename_i hl
                  have hl' : es.length = n := by simpa using hl
                  have hsok : (a.dynamic && !sanityOk cfg (bs ++ rest) n) = false := by
                    by_cases cd : a.dynamic = true
                    · have : sanityOk cfg (bs ++ rest) es.length = true := by
                        rcases hsan with h | h | h
                        · exact sanity_of_min (Or.inl h) rfl rfl hw rest
                        · simp [ct, cd] at h
                        · exact sanity_of_min (Or.inr h) rfl rfl hw rest
                      rw [hl'] at this
                      simp [this]
                    · simp [cd]
                  simp only [hsok, Bool.false_eq_true, if_false]
                  rw [← hl', writeElems_read ih a.elem (hrefs _ (by simp [Inst.refs])) na rest es bs hn hw]
                  rfl
            · simp only [ct, Bool.false_eq_true, if_false] at hw ⊢
              split at hw
              · cases hw
              · rename_i hlt
                cases hwe : writeElemsWith (writeTL1 d fuel) a.elem na es with
                | error e => rw [hwe] at hw; cases hw
                | ok b =>
                  rw [hwe] at hw; injection hw with hw; subst hw
                  have hlt' : es.length < 4294967296 := by simpa using hlt
                  rw [List.append_assoc, readU32_u32le_lt hlt']
                  have : sanityOk cfg (b ++ rest) es.length = true := by
                    rcases hsan with h | h | h
                    · exact sanity_of_min (Or.inl h) rfl rfl hwe rest
                    · simp [ct] at h
                    · exact sanity_of_min (Or.inr h) rfl rfl hwe rest
                  simp only [this, Bool.not_true, Bool.false_eq_true, if_false]
                  rw [writeElems_read ih a.elem (hrefs _ (by simp [Inst.refs])) na rest es b hn hwe]
                  rfl
        | _ => simp at hn
      | dict a =>
        cases v with
        | arr es =>
          simp only at hn hw ⊢
          cases hna : natArgVals [] params a.elem.natArgs with
          | none => simp [hna] at hn
          | some na =>
            cases hk : dictKeyPrim d a with
            | none => simp [hna, hk] at hn
            | some k =>
              simp only [hna, hk, Bool.and_eq_true] at hn hw ⊢
              split at hw
              · cases hw
              · rename_i hlt
                cases hwe : writeElemsWith (writeTL1 d fuel) a.elem na es with
                | error e => rw [hwe] at hw; cases hw
                | ok b =>
                  rw [hwe] at hw; injection hw with hw; subst hw
                  have hlt' : es.length < 4294967296 := by simpa using hlt
                  rw [List.append_assoc, readU32_u32le_lt hlt']
                  have : sanityOk cfg (b ++ rest) es.length = true := by
                    rcases hs with h | h
                    · exact sanity_of_min (Or.inl h) rfl rfl hwe rest
                    · have := Desc.allOn_get h hg hSty
                      simp only [Inst.elemMin4, decide_eq_true_eq] at this
                      exact sanity_of_min (Or.inr this) rfl rfl hwe rest
                  simp only [this, Bool.not_true, Bool.false_eq_true, if_false]
                  rw [writeElems_read ih a.elem (hrefs _ (by simp [Inst.refs])) na rest es b hn.1 hwe]
                  simp only [Except.map, dictNormalize_sorted hn.2]
        | _ => simp at hn
end TLVerif.Codec
