import TLVerif.Codec.Ops.TL1
import TLVerif.Codec.Ops.TL2
import TLVerif.Codec.Ops.Json
import TLVerif.Codec.Ops.Misc
import TLVerif.Codec.Ops.HandShape
import TLVerif.Codec.Ops.Rand
import TLVerif.Codec.Ops.Access
import TLVerif.Codec.Ops.Reuse
import TLVerif.Codec.Ops.Result
/-! Line-protocol handler of the `codec` family. Stateful: `codec.desc` lines register descriptors;
every other op is answered by the first per-aspect handler (Ops/*.lean) that recognises it. -/
namespace TLVerif.Codec

def opHandlers : List OpHandler := [handleTL1, handleTL2, handleJson, handleMisc, handleHandShape, handleRand, handleAccess, handleReuse, handleResult]

def firstSome (st : DState) (op : String) (args : List String) : List OpHandler → String
  | [] => "bad-op"
  | h :: hs => match h st op args with
    | some r => r
    | none => firstSome st op args hs

def handleS (st : DState) (op : String) (args : List String) : DState × String :=
  match op, args with
  | "desc", sid :: sanity :: toks =>
    match parseDesc toks with
    | some d => ((sid, { cfg := { sanity := sanity == "1" }, desc := d }) :: st, s!"ok {d.insts.size}")
    | none => (st, "bad-desc")
  | "ext", sid :: key :: toks =>
    match st.lookup sid with
    | some sc => ((sid, { sc with ext := (key, toks) :: sc.ext }) :: st, "ok")
    | none => (st, "bad-op")
  | _, _ => (st, firstSome st op args opHandlers)

end TLVerif.Codec
