import TLVerif.Util.Hex
import TLVerif.Codec.TL1
/-! Line-protocol handler of the `codec` family. Stateful: `codec.desc` lines register descriptors. -/
namespace TLVerif.Codec
open TLVerif.Util TLVerif.Prim

structure Schema where
  cfg : Cfg
  desc : Desc

abbrev DState := List (String × Schema)

def DState.init : DState := []

def errStr : CErr → String
  | .eof => "err eof"
  | .rej => "err rej"
  | .desc => "model-err desc"
  | .fuel => "model-err fuel"
  | .shape => "err shape"

def fuelFor (d : Desc) (n : Nat) : Nat := n + d.insts.size + 16

def outBytes (r : Except CErr Bytes) : String :=
  match r with
  | .ok b => hexOfBytes b
  | .error .shape => "werr"
  | .error e => "!" ++ errStr e

/-- can this instance be written/read boxed on its own (has a tag or is a union)? -/
def hasBoxed (d : Desc) (ty : Nat) : Bool :=
  match d.get? ty with
  | some (.struct s) => s.tag != 0
  | some (.union _) => true
  | _ => false

def isUnion (d : Desc) (ty : Nat) : Bool :=
  match d.get? ty with
  | some (.union _) => true
  | _ => false

def handleS (st : DState) (op : String) (args : List String) : DState × String :=
  match op, args with
  | "desc", sid :: sanity :: toks =>
    match parseDesc toks with
    | some d => ((sid, { cfg := { sanity := sanity == "1" }, desc := d }) :: st, s!"ok {d.insts.size}")
    | none => (st, "bad-desc")
  | "x1", [sid, ty, _name, boxed, h] =>
    match st.lookup sid, ty.toNat?, bytesOfHex h with
    | some sc, some ty, some bs =>
      let d := sc.desc
      let fuel := fuelFor d bs.length
      let bare := boxed != "1"
      match readTL1 sc.cfg d fuel ty bare [] bs with
      | .error e => (st, errStr e)
      | .ok (v, rest) =>
        let w1 := if isUnion d ty then "n/a" else outBytes (writeTL1 d fuel ty true [] v)
        let w1b := if hasBoxed d ty then outBytes (writeTL1 d fuel ty false [] v) else "n/a"
        (st, s!"ok {bs.length - rest.length} w1={w1} w1b={w1b}")
    | _, _, _ => (st, "bad-op")
  | _, _ => (st, "bad-op")

end TLVerif.Codec
