import TLVerif.Codec.Random
import TLVerif.Codec.TL1Total
/-!
Lemmas about the random-filling model: whatever `fillTL1` returns is accepted by the TL1 writer, bare and boxed
(`fillTL1_writable`), under the decidable side conditions `Inst.fillOk`.
-/
namespace TLVerif.Codec
open TLVerif.Prim TLVerif.Facts

/-! ### decidable side conditions on the descriptor + generator info -/

def Desc.isU32 (d : Desc) (ty : Nat) : Bool :=
  match d.get? ty with
  | some (.prim .u32) => true
  | _ => false

/-- `true` / `True`: a TL1-origin struct without fields -/
def Desc.isTrueTy (d : Desc) (ty : Nat) : Bool :=
  match d.get? ty with
  | some (.struct s) => s.fields.isEmpty && !s.originTL2
  | _ => false

/-- only `#` fields are drawn as masks / sizes -/
def drawnOkFields (d : Desc) (gx : Nat → FieldX) : List Field → Nat → Bool
  | [], _ => true
  | f :: fs, i => (!(gx i).drawn || d.isU32 f.ty) && drawnOkFields d gx fs (i + 1)

/-- side conditions of `fillTL1_writable`: usage flags sit on `#` fields, storage-less conditional fields are of
type `true`, no TL2 `bit` primitive, `Bool` tags differ -/
def Inst.fillOk (d : Desc) (gi : GenInfo) (ty : Nat) : Inst → Bool
  | .struct s => drawnOkFields d (structGx gi ty s) s.fields 0 && s.fields.all (fun f => !f.isBit || d.isTrueTy f.ty)
  | .prim .bit => false
  | .prim (.bool f t) => f != t
  | _ => true

theorem Desc.allOnI_get {d : Desc} {S : Nat → Bool} {p : Nat → Inst → Bool} (h : d.allOnI S p = true) {ty : Nat} {i : Inst}
    (hg : d.get? ty = some i) (hS : S ty = true) : p ty i = true := by
  have := List.all_eq_true.mp h ty (List.mem_range.mpr (Desc.get?_lt hg))
  simpa [hS, hg] using this

/-! ### the generator -/

theorem limitVal_lt (v : Nat) : limitVal v < 1024 := by
  unfold limitVal
  have : v &&& (Rand.limitValue - 1) ≤ Rand.limitValue - 1 := Nat.and_le_right
  have e : Rand.limitValue = 1024 := rfl
  omega

theorem randomChars_length : ∀ (n : Nat) (rg : RG), (randomChars n rg).1.length = n := by
  intro n
  induction n with
  | zero => intro rg; rfl
  | succ n ih => intro rg; simp only [randomChars, List.length_cons, ih]

theorem randomString_length (rg : RG) : (randomString rg).1.length < 32 := by
  unfold randomString
  rw [randomChars_length]
  have e : Rand.randomNatConstraint = 32 := rfl
  rw [e]; exact Nat.mod_lt _ (by decide)

theorem fillPrim_writable {k : PrimK} (hk : k ≠ .bit) (rg : RG) : ∃ bs, writePrim k (fillPrim k rg).1 = .ok bs := by
  cases k with
  | bit => exact absurd rfl hk
  | str =>
    have hl := randomString_length rg
    obtain ⟨bs, hbs⟩ := string_write_total (randomString rg).1 (by rw [maxHuge_eq]; omega)
    exact ⟨bs, by simp only [fillPrim, writePrim, hbs]⟩
  | u32 => exact ⟨_, rfl⟩
  | i32 => exact ⟨_, rfl⟩
  | u64 => exact ⟨_, rfl⟩
  | i64 => exact ⟨_, rfl⟩
  | f32 => exact ⟨_, rfl⟩
  | f64 => exact ⟨_, rfl⟩
  | byte => exact ⟨_, rfl⟩
  | bool f t => exact ⟨_, rfl⟩

/-! ### writers accept what `FillRandom` produced -/

/-- every value `fl` returns for a type of `S` is written without error by `wr` (bare and boxed) -/
def WrOk (S : Nat → Bool) (fl : Fl) (wr : Wr) : Prop :=
  ∀ ty na rg v rg', S ty = true → fl ty na rg = .ok (v, rg') → ∀ bare, ∃ bs, wr ty bare na v = .ok bs

theorem writeTL1_true {d : Desc} {ty : Nat} (h : d.isTrueTy ty = true) (m : Nat) (bare : Bool) (na : List Nat) :
    ∃ bs, writeTL1 d (m + 1) ty bare na (.struct []) = .ok bs := by
  unfold Desc.isTrueTy at h
  cases hg : d.get? ty with
  | none => simp [hg] at h
  | some inst =>
    cases inst with
    | struct s =>
      simp only [hg, Bool.and_eq_true, List.isEmpty_iff] at h
      simp only [writeTL1, hg, h.1, writeFieldsWith]
      exact ⟨_, rfl⟩
    | prim k => simp [hg] at h
    | union u => simp [hg] at h
    | array a => simp [hg] at h
    | dict a => simp [hg] at h

theorem writeTL1_u32 {d : Desc} {ty : Nat} (h : d.isU32 ty = true) (m : Nat) (bare : Bool) (na : List Nat) (n : Nat) :
    ∃ bs, writeTL1 d (m + 1) ty bare na (.nat n) = .ok bs := by
  unfold Desc.isU32 at h
  cases hg : d.get? ty with
  | none => simp [hg] at h
  | some inst =>
    cases inst with
    | prim k =>
      cases k <;> simp [hg] at h
      simp only [writeTL1, hg, writePrim]
      exact ⟨_, rfl⟩
    | struct s => simp [hg] at h
    | union u => simp [hg] at h
    | array a => simp [hg] at h
    | dict a => simp [hg] at h

theorem fillValue_writable {d : Desc} {S : Nat → Bool} {fl : Fl} {m : Nat} (hW : WrOk S fl (writeTL1 d (m + 1)))
    {x : FieldX} {f : Field} (hd : (!x.drawn || d.isU32 f.ty) = true) (hS : S f.ty = true)
    {na : List Nat} {rg rg' : RG} {v : Val} (h : fillValue fl x f na rg = .ok (v, rg')) (bare : Bool) :
    ∃ bs, writeTL1 d (m + 1) f.ty bare na v = .ok bs := by
  unfold fillValue at h
  by_cases c1 : x.usedAsMask = true
  · rw [if_pos c1] at h
    have hu : d.isU32 f.ty = true := by simpa [FieldX.drawn, c1] using hd
    injection h with h; injection h with hv _; subst hv
    exact writeTL1_u32 hu m bare na _
  · rw [if_neg c1] at h
    by_cases c2 : x.usedAsSize = true
    · rw [if_pos c2] at h
      have hu : d.isU32 f.ty = true := by simpa [FieldX.drawn, c2] using hd
      injection h with h; injection h with hv _; subst hv
      exact writeTL1_u32 hu m bare na _
    · rw [if_neg c2] at h
      exact hW _ _ _ _ _ hS h bare

theorem fillFields_writable {d : Desc} {S : Nat → Bool} {fl : Fl} {m : Nat} (hW : WrOk S fl (writeTL1 d (m + 1)))
    (gx : Nat → FieldX) (params : List Nat) :
    ∀ (fields : List Field) (i : Nat) (acc : List (Option Val)) (rg : RG) (out : List (Option Val)) (rg' : RG),
      (∀ f ∈ fields, S f.ty = true) → drawnOkFields d gx fields i = true →
      fields.all (fun f => !f.isBit || d.isTrueTy f.ty) = true →
      fillFieldsWith fl gx params fields i acc rg = .ok (out, rg') →
      ∃ tail, out = acc ++ tail ∧ ∀ ext, ∃ bs, writeFieldsWith (writeTL1 d (m + 1)) params (out ++ ext) fields tail = .ok bs := by
  intro fields
  induction fields with
  | nil =>
    intro i acc rg out rg' _ _ _ h
    simp only [fillFieldsWith] at h
    injection h with h; injection h with h1 _; subst h1
    exact ⟨[], by simp, fun _ => ⟨[], rfl⟩⟩
  | cons f fs ih =>
    intro i acc rg out rg' hS hdo hbo h
    have hS' : ∀ g ∈ fs, S g.ty = true := fun g hg => hS g (by simp [hg])
    simp only [drawnOkFields, Bool.and_eq_true] at hdo
    simp only [List.all_cons, Bool.and_eq_true] at hbo
    simp only [fillFieldsWith] at h
    cases hp : fieldPresent f acc params with
    | none => simp [hp] at h
    | some b =>
      cases hna : natArgVals acc params f.natArgs with
      | none => cases b <;> simp [hp, hna] at h
      | some na =>
        cases b with
        | true =>
          simp only [hp, hna] at h
          by_cases cb : f.isBit = true
          · rw [if_pos cb] at h
            have htt : d.isTrueTy f.ty = true := by simpa [cb] using hbo.1
            obtain ⟨tail, e2, hw2⟩ := ih _ _ _ _ _ hS' hdo.2 hbo.2 h
            refine ⟨some (.struct []) :: tail, by simp [e2], ?_⟩
            intro ext
            have eo : out ++ ext = acc ++ ([some (Val.struct [])] ++ tail ++ ext) := by simp [e2]
            obtain ⟨b1, hb1⟩ := writeTL1_true htt m f.bare na
            obtain ⟨b2, hb2⟩ := hw2 ext
            simp only [writeFieldsWith]
            rw [eo, fieldPresent_append hp, natArgVals_append hna, ← eo]
            simp only [hb1, hb2]
            exact ⟨_, rfl⟩
          · rw [if_neg cb] at h
            cases hr : fillValue fl (gx i) f na (if (gx i).recursive = true then rg.inc else rg) with
            | error e => simp [hr] at h
            | ok p =>
              obtain ⟨v, rg2⟩ := p
              simp only [hr] at h
              obtain ⟨b1, hb1⟩ := fillValue_writable hW hdo.1 (hS f (by simp)) hr f.bare
              obtain ⟨tail, e2, hw2⟩ := ih _ _ _ _ _ hS' hdo.2 hbo.2 h
              refine ⟨some v :: tail, by simp [e2], ?_⟩
              intro ext
              have eo : out ++ ext = acc ++ ([some v] ++ tail ++ ext) := by simp [e2]
              obtain ⟨b2, hb2⟩ := hw2 ext
              simp only [writeFieldsWith]
              rw [eo, fieldPresent_append hp, natArgVals_append hna, ← eo]
              simp only [hb1, hb2]
              exact ⟨_, rfl⟩
        | false =>
          simp only [hp, hna] at h
          obtain ⟨tail, e2, hw2⟩ := ih _ _ _ _ _ hS' hdo.2 hbo.2 h
          refine ⟨none :: tail, by simp [e2], ?_⟩
          intro ext
          have eo : out ++ ext = acc ++ ([none] ++ tail ++ ext) := by simp [e2]
          simp only [writeFieldsWith]
          rw [eo, fieldPresent_append hp, natArgVals_append hna, ← eo]
          exact hw2 ext

theorem fillElems_spec {S : Nat → Bool} {fl : Fl} {wr : Wr} (hW : WrOk S fl wr) (f : Field) (hS : S f.ty = true) (na : List Nat) :
    ∀ (n : Nat) (rg : RG) (vs : List Val) (rg' : RG), fillElemsWith fl f na n rg = .ok (vs, rg') →
      vs.length = n ∧ ∀ v ∈ vs, ∃ b, wr f.ty f.bare na v = .ok b := by
  intro n
  induction n with
  | zero =>
    intro rg vs rg' h
    simp only [fillElemsWith] at h
    injection h with h; injection h with h1 _; subst h1
    exact ⟨rfl, fun v hv => by cases hv⟩
  | succ n ih =>
    intro rg vs rg' h
    simp only [fillElemsWith] at h
    cases hr : fl f.ty na rg with
    | error e => simp [hr] at h
    | ok p =>
      obtain ⟨v, rg1⟩ := p
      simp only [hr] at h
      cases hr2 : fillElemsWith fl f na n rg1 with
      | error e => simp [hr2] at h
      | ok q =>
        obtain ⟨vs', rg2⟩ := q
        simp only [hr2] at h
        injection h with h; injection h with h1 _; subst h1
        obtain ⟨hl, hall⟩ := ih _ _ _ hr2
        refine ⟨by simp [hl], ?_⟩
        intro w hw
        simp only [List.mem_cons] at hw
        rcases hw with hw | hw
        · subst hw; exact hW _ _ _ _ _ hS hr f.bare
        · exact hall w hw

theorem fillTL1_writable (d : Desc) (gi : GenInfo) (S : Nat → Bool) (hcl : d.closed S = true)
    (hok : d.allOnI S (Inst.fillOk d gi) = true) :
    ∀ fuel, WrOk S (fillTL1 d gi fuel) (writeTL1 d (fuel + 1)) := by
  intro fuel
  induction fuel with
  | zero => intro ty na rg v rg' _ h; simp [fillTL1] at h
  | succ fuel ih =>
    intro ty params rg v rg' hSty h bare
    simp only [fillTL1] at h
    cases hg : d.get? ty with
    | none => simp only [hg] at h; cases h
    | some inst =>
      simp only [hg] at h
      have hrefs := Desc.closed_get hcl hg hSty
      have hio := Desc.allOnI_get hok hg hSty
      cases inst with
      | prim k =>
        have hk : k ≠ .bit := by
          intro e; subst e; simp [Inst.fillOk] at hio
        simp only at h
        injection h with h
        have hv : v = (fillPrim k rg).1 := by rw [h]
        subst hv
        obtain ⟨bs, hbs⟩ := fillPrim_writable hk rg
        exact ⟨bs, by unfold writeTL1; simp only [hg, hbs]⟩
      | struct s =>
        simp only at h
        by_cases co : s.originTL2 = true
        · rw [if_pos co] at h; cases h
        · rw [if_neg co] at h
          cases hr : fillFieldsWith (fillTL1 d gi fuel) (structGx gi ty s) params s.fields 0 [] rg with
          | error e => simp [hr] at h
          | ok p =>
            obtain ⟨fs, r⟩ := p
            simp only [hr] at h
            injection h with h; injection h with h1 _; subst h1
            simp only [Inst.fillOk, Bool.and_eq_true] at hio
            obtain ⟨tail, e1, hw⟩ := fillFields_writable ih _ params _ _ _ _ _ _
              (fun f hf => hrefs _ (by simp only [Inst.refs]; exact List.mem_map_of_mem hf)) hio.1 hio.2 hr
            simp only [List.nil_append] at e1; subst e1
            obtain ⟨bs, hbs⟩ := hw []
            simp only [List.append_nil] at hbs
            unfold writeTL1
            simp only [hg, hbs]
            exact ⟨_, rfl⟩
      | union u =>
        simp only at h
        cases hv : u.variants[(randomUint rg).1 % u.variants.length]? with
        | none => simp [hv] at h
        | some q =>
          obtain ⟨vi, nm⟩ := q
          cases hna : natArgVals [] params u.elemNatArgs with
          | none => simp [hv, hna] at h
          | some na =>
            simp only [hv, hna] at h
            cases hr : fillTL1 d gi fuel vi na (randomUint rg).2 with
            | error e => simp [hr] at h
            | ok p =>
              obtain ⟨x, r⟩ := p
              simp only [hr] at h
              injection h with h; injection h with h2 _; subst h2
              have hSvi : S vi = true := hrefs _ (by
                simp only [Inst.refs]; exact List.mem_map_of_mem (f := (·.1)) (List.mem_of_getElem? hv))
              obtain ⟨bs, hbs⟩ := ih _ _ _ _ _ hSvi hr false
              exact ⟨bs, by unfold writeTL1; simp only [hg, hv, hna, hbs]⟩
      | array a =>
        simp only at h
        have hSe : S a.elem.ty = true := hrefs _ (by simp [Inst.refs])
        cases hna : natArgVals [] params a.elem.natArgs with
        | none => simp [hna] at h
        | some na =>
          simp only [hna] at h
          by_cases ct : a.isTuple = true
          · rw [if_pos ct] at h
            cases hn : (if a.dynamic = true then params[0]? else some a.count) with
            | none => simp [hn] at h
            | some n =>
              simp only [hn] at h
              cases hr : fillElemsWith (fillTL1 d gi fuel) a.elem na n rg.inc with
              | error e => simp [hr] at h
              | ok p =>
                obtain ⟨vs, r⟩ := p
                simp only [hr] at h
                injection h with h; injection h with h2 _; subst h2
                obtain ⟨hl, hall⟩ := fillElems_spec ih a.elem hSe na _ _ _ _ hr
                obtain ⟨w, hw⟩ := (writeElems_ok_iff _ a.elem na vs).mpr hall
                refine ⟨w, ?_⟩
                unfold writeTL1
                simp only [hg, hna, ct, if_true, hn, hl, ne_eq, not_true_eq_false, if_false, hw]
          · rw [if_neg ct] at h
            cases hr : fillElemsWith (fillTL1 d gi fuel) a.elem na (randomSize rg.inc).1 (randomSize rg.inc).2 with
            | error e => simp [hr] at h
            | ok p =>
              obtain ⟨vs, r⟩ := p
              simp only [hr] at h
              injection h with h; injection h with h2 _; subst h2
              obtain ⟨hl, hall⟩ := fillElems_spec ih a.elem hSe na _ _ _ _ hr
              obtain ⟨w, hw⟩ := (writeElems_ok_iff _ a.elem na vs).mpr hall
              have hlt : ¬ vs.length ≥ 2 ^ 32 := by
                rw [hl]; have := limitVal_lt (randomUint rg.inc).1
                simp only [randomSize]; omega
              refine ⟨u32le vs.length ++ w, ?_⟩
              unfold writeTL1
              simp only [hg, hna, ct, Bool.false_eq_true, if_false, hlt, hw, Except.map]
      | dict a =>
        simp only at h
        have hSe : S a.elem.ty = true := hrefs _ (by simp [Inst.refs])
        cases hna : natArgVals [] params a.elem.natArgs with
        | none => simp [hna] at h
        | some na =>
          cases hk : dictKeyPrim d a with
          | none => simp [hna, hk] at h
          | some k =>
            simp only [hna, hk] at h
            cases hr : fillElemsWith (fillTL1 d gi fuel) a.elem na (randomSize rg.inc).1 (randomSize rg.inc).2 with
            | error e => simp [hr] at h
            | ok p =>
              obtain ⟨vs, r⟩ := p
              simp only [hr] at h
              injection h with h; injection h with h2 _; subst h2
              obtain ⟨hl, hall⟩ := fillElems_spec ih a.elem hSe na _ _ _ _ hr
              have hmem := (dictFold_props (writeTL1 d (fuel + 1)) a.elem na k vs []).1
              have hall' : ∀ v ∈ dictNormalize k vs, ∃ b, writeTL1 d (fuel + 1) a.elem.ty a.elem.bare na v = .ok b := by
                intro v hv
                rcases hmem v hv with h' | h'
                · cases h'
                · exact hall v h'
              obtain ⟨w, hw⟩ := (writeElems_ok_iff _ a.elem na _).mpr hall'
              have hlt : ¬ (dictNormalize k vs).length ≥ 2 ^ 32 := by
                have h1 := dictNormalize_length_le k vs
                rw [hl] at h1; have := limitVal_lt (randomUint rg.inc).1
                simp only [randomSize] at h1; omega
              refine ⟨u32le (dictNormalize k vs).length ++ w, ?_⟩
              unfold writeTL1
              simp only [hg, hna, hlt, if_false, hw, Except.map]

end TLVerif.Codec
