import TLVerif.Codec.TL2
import TLVerif.Codec.JsonText
import TLVerif.Codec.Ops.Json
/-!
Function results (C07): the per-function `ReadResult*` / `WriteResult*` methods and the six transcoders
`ReadResult<SRC>WriteResult<DST>` of the generated Go code (`internal/puregen/gengo/qt_struct.qtpl functionCode`).

* The result type and its nat arguments come from the function's descriptor entry (`StructD.resultTy`,
  `resultNatArgs`); a nat argument is a constant or the value of a `#` field of the REQUEST object (`item.N`).
* TL1: the result is read / written **boxed** (`TypeReadingCode(…, bare = false, …)`), whatever `resultBare` says
  (the kernel refuses bare results of TL1 functions); TL2-origin functions have no TL1 result code
  (`return w, basictl.TL2Error("not implemented for tl2 type")`).
* TL2: unless the function is a TL2 function whose result is declared as an alias (`IsResultAlias`, then the result's
  own `ReadTL2`/`WriteTL2` is used), the result travels as the single field (index 0, presence bit 1, written with
  `zeroIfEmpty`) of an anonymous object: size, mask byte, optional variant index (must be 0), field.
* JSON: the result's own JSON code with the nat arguments.
* A transcoder declares a fresh `ret`, reads it with the source reader and writes it with the target writer.  When the
  function has no TL2 code (`!HasTL2`), the four TL2 transcoders fail before reading anything.

The JSON payload of the model is a JSON *tree*; the text layer (Go's printer, `JsonText.parseJson`) is outside.
`Val` has three reader-specific spellings of "field present for TL1, absent for TL2" (see `TL2.writeTL1Z`,
`Ops/Json.jfillTL1`, `Json.hidden`), so the encoder is indexed by the format the value was decoded from; this is the only
place where the model differs from "one typed Go value".
-/
namespace TLVerif.Codec
open TLVerif.Prim TLVerif.Util

inductive Fmt where
  | tl1 | tl2 | json
  deriving Repr, DecidableEq, Inhabited

inductive Payload where
  | bytes (b : Bytes)
  | json (j : Json)
  deriving Repr, Inhabited

/-- a function as the result code sees it: its descriptor entry plus `IsResultAlias()` (exported separately) -/
structure FnD where
  s : StructD
  resultAlias : Bool := false
  deriving Repr, Inhabited

/-- nat arguments of the result type: constants and `#` fields of the request (`formatNatArgs(struct_.Fields, ResultNatArgs)`) -/
def resultArgs (f : FnD) (req : Val) : Option (List Nat) :=
  match req with
  | .struct fs => natArgVals fs [] f.s.resultNatArgs
  | _ => none

/-! ### TL2 wrapper of the result -/

/-- `ReadResultTL2` -/
def readResultTL2 (d : Desc) (fuel : Nat) (f : FnD) (bs : Bytes) : RRes :=
  if f.resultAlias then readTL2 d fuel f.s.resultTy false bs
  else
    match sliceBody bs with
    | .error e => .error e
    | .ok (cur, rest) =>
      if cur.isEmpty then .ok (zeroVal d fuel f.s.resultTy, rest)
      else
        match readHead cur with
        | .error e => .error e
        | .ok (block, idx, cur1) =>
          if block.toNat % 2 == 1 && idx ≠ 0 then .error .rej      -- "function result must not use variant type field"
          else if testBit block.toNat 1 then
            match readTL2 d fuel f.s.resultTy true cur1 with
            | .error e => .error e
            | .ok (v, _) => .ok (v, rest)
          else .ok (zeroVal d fuel f.s.resultTy, rest)

/-- `WriteResultTL2` (`calculateLayoutResult` + `writeResultTL2` with `optimizeEmpty = false`; the two passes agree by
`Props.C03.layout_agrees_write`, so the Go panic is not modelled again) -/
def writeResultTL2 (d : Desc) (fuel : Nat) (f : FnD) (v : Val) : Except CErr Bytes :=
  if f.resultAlias then writeTL2 d fuel f.s.resultTy false v
  else
    match encTL2 d fuel f.s.resultTy true v with
    | .error e => .error e
    | .ok r => .ok (optBytes (objTL2 false (bodyTL2 0 [r])))

/-! ### values read from JSON, written in TL2: a field that is present for TL1 only is absent for TL2 -/

mutual
  def dropHidden : Val → Val
    | .struct fs => .struct (dropHiddenFields fs)
    | .union i v => .union i (dropHidden v)
    | .arr es => .arr (dropHiddenList es)
    | v => v
  def dropHiddenFields : List (Option Val) → List (Option Val)
    | [] => []
    | none :: r => none :: dropHiddenFields r
    | some v :: r => (if isHidden v then none else some (dropHidden v)) :: dropHiddenFields r
  def dropHiddenList : List Val → List Val
    | [] => []
    | v :: r => dropHidden v :: dropHiddenList r
end

/-! ### the three readers and writers of a result, and the transcoders -/

/-- `ReadResultTL1` / `ReadResultTL2` / `ReadResultJSON`: the value and the unread rest (JSON: none, by convention) -/
def decodeResult (cfg : Cfg) (d : Desc) (fuel : Nat) (f : FnD) (na : List Nat) : Fmt → Payload → Except CErr (Val × Bytes)
  | .tl1, .bytes bs => if f.s.originTL2 then .error .rej else readTL1 cfg d fuel f.s.resultTy false na bs
  | .tl2, .bytes bs => readResultTL2 d fuel f bs
  | .json, .json j => (readJson d false parseJson fuel f.s.resultTy na (some j)).map (fun v => (v, []))
  | _, _ => .error .shape

/-- `WriteResultTL1` for a value decoded from `src` -/
def writeResultTL1 (d : Desc) (fuel : Nat) (f : FnD) (na : List Nat) (src : Fmt) (v : Val) : Except CErr Bytes :=
  if f.s.originTL2 then .error .shape else
  match src with
  | .tl1 => writeTL1 d fuel f.s.resultTy false na v
  | .tl2 => writeTL1Z d fuel f.s.resultTy false na v
  | .json =>
    match jfillTL1 d fuel f.s.resultTy na v with
    | .error e => .error e
    | .ok v' => writeTL1 d fuel f.s.resultTy false na v'

/-- `WriteResultTL1` / `WriteResultTL2` / `WriteResultJSON` of a value decoded from `src` -/
def encodeResult (d : Desc) (fuel : Nat) (f : FnD) (na : List Nat) (src : Fmt) : Fmt → Val → Except CErr Payload
  | .tl1, v => (writeResultTL1 d fuel f na src v).map Payload.bytes
  | .tl2, v => (writeResultTL2 d fuel f (if src == .json then dropHidden v else v)).map Payload.bytes
  | .json, v => (writeJson d fuel f.s.resultTy na v).map Payload.json

/-- the generated transcoder `ReadResult<src>WriteResult<dst>` called on a function object holding `req` -/
def transcode (cfg : Cfg) (d : Desc) (fuel : Nat) (f : FnD) (req : Val) (src dst : Fmt) (p : Payload) :
    Except CErr (Payload × Bytes) :=
  if (src == .tl2 || dst == .tl2) && !f.s.hasTL2 then .error .rej       -- ErrorTL2SerializersNotGenerated, nothing is read
  else
    match resultArgs f req with
    | none => .error .desc
    | some na =>
      match decodeResult cfg d fuel f na src p with
      | .error e => .error e
      | .ok (v, rest) =>
        match encodeResult d fuel f na src dst v with
        | .error e => .error e
        | .ok q => .ok (q, rest)

/-! ### counterfactual repair of floats (classification of inherited findings L2/L3 by the check)
`fixFloats z n` replaces every float `-0.0` by `+0.0` (`z`) and every NaN by the NaN Go's `"NaN"` parses to (`n`), nothing
else; dictionaries are re-normalised (a repaired key may meet its twin). -/

def isNaNBits (mbits ebits x : Nat) : Bool := (x / 2 ^ mbits) % 2 ^ ebits == 2 ^ ebits - 1 && x % 2 ^ mbits != 0

def fixFloat (z n : Bool) : PrimK → Val → Val
  | .f32, .nat x =>
    if z && x == 0x80000000 then .nat 0 else if n && isNaNBits 23 8 x then .nat 0x7FC00000 else .nat x
  | .f64, .nat x =>
    if z && x == 0x8000000000000000 then .nat 0 else if n && isNaNBits 52 11 x then .nat 0x7FF8000000000001 else .nat x
  | _, v => v

def mapFields (g : Nat → Val → Val) : List Field → List (Option Val) → List (Option Val)
  | f :: fs, some v :: vs => some (g f.ty v) :: mapFields g fs vs
  | _ :: fs, none :: vs => none :: mapFields g fs vs
  | _, vs => vs

/-- the key of a dictionary element `{key, value}` -/
def mapKey (kf : Val → Val) : Val → Val
  | .struct (some k :: r) => .struct (some (kf k) :: r)
  | v => v

/-- type-directed map over the primitives of a value (`g`) and, after that, over the keys of its dictionaries (`kf`) -/
def mapPrims (d : Desc) (g : PrimK → Val → Val) (kf : Val → Val) : Nat → Nat → Val → Val
  | 0, _, v => v
  | fuel + 1, ty, v =>
    match d.get? ty, v with
    | some (.prim k), v => g k v
    | some (.struct s), .struct fs => .struct (mapFields (mapPrims d g kf fuel) s.fields fs)
    | some (.union u), .union i x =>
      (match u.variants[i]? with
       | some (vi, _) => .union i (mapPrims d g kf fuel vi x)
       | none => v)
    | some (.array a), .arr es => .arr (es.map (mapPrims d g kf fuel a.elem.ty))
    | some (.dict a), .arr es =>
      (match dictKeyPrim d a with
       | some k => .arr (dictNormalize k (es.map (fun e => mapKey kf (mapPrims d g kf fuel a.elem.ty e))))
       | none => v)
    | _, _ => v

/-- C05's finding F1: a string dictionary key that is not valid UTF-8 has no JSON (Go emits `{"base64":…}` in key position, the
model's writer answers `.shape`).  `fixKey` replaces exactly those keys; the driver uses it to tell this case from a genuine
writer error (`writeJson` fails on the value but succeeds once the keys are repaired). -/
def fixKey : Val → Val
  | .str s => if utf8Valid s then .str s else .str []
  | v => v

def jsonInvalidByKey (d : Desc) (fuel : Nat) (f : FnD) (na : List Nat) (v : Val) : Bool :=
  match writeJson d fuel f.s.resultTy na v with
  | .error .shape =>
    (match writeJson d fuel f.s.resultTy na (mapPrims d (fun _ x => x) fixKey fuel f.s.resultTy v) with
     | .ok _ => true
     | .error _ => false)
  | _ => false

end TLVerif.Codec
