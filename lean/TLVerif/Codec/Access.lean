import TLVerif.Codec.TL1
import TLVerif.Codec.Zero
/-!
Generated field accessors (C43): `Set<F>` / `Clear<F>` / `IsSet<F>` of conditional fields
(`internal/puregen/gengo/qt_struct.qtpl` fieldMaskGettersAndSetters), as functions on the state of one generated
struct.  That state is more than a `Val`: besides the field values (`none` = reset) it has the hidden TL2 presence
bits `tl2mask<k>` — which `IsSet`, the TL2 writer and the JSON writer consult — next to the TL1 field masks (ordinary
`#` fields, or nat parameters of the enclosing type passed by pointer) which the TL1 writer consults.  `ReadTL1` sets
both consistently; the accessors update *both* for the field they are called on, and nothing else.

* `Set<F>(v)`   stores `v`, sets the bit of `F` in its field mask (`|=`), sets the TL2 presence bit;
  for a `true`-typed field (`v : bool`) it sets or clears the two bits according to `v` and stores nothing.
* `Clear<F>()`  resets the value, clears both bits (not generated for `true`-typed fields).
* `IsSet<F>()`  is the TL2 presence bit when the struct has TL2 code, the field-mask bit otherwise.
No accessor is generated for a field whose mask is a constant (instantiated nat argument).
-/
namespace TLVerif.Codec

/-- state of one generated struct object -/
structure AObj where
  vals : List (Option Val)       -- one entry per field; `none` = reset / no storage
  tl2 : List Bool                -- hidden `tl2mask` bit per field (meaningful for fields with `tl2bit`)
  params : List Nat              -- external nat parameters (what the `*uint32` arguments point to)
  deriving Inhabited

/-- `x |= 1 << bit` -/
def setBitN (n bit : Nat) : Nat := n ||| 2 ^ bit
/-- `x &^= 1 << bit` -/
def clearBitN (n bit : Nat) : Nat := n ^^^ (n &&& 2 ^ bit)

/-- current Go value of a mask reference (a reset / absent `#` field holds 0) -/
def AObj.maskVal (o : AObj) : NatArg → Nat
  | .num n => n
  | .param p => match o.params[p]? with | some n => n | none => 0
  | .field j => match o.vals[j]? with | some (some (.nat n)) => n | _ => 0

/-- assignment through the mask reference; a constant cannot be assigned (no accessor is generated for it) -/
def AObj.withMask (o : AObj) (a : NatArg) (n : Nat) : AObj :=
  match a with
  | .num _ => o
  | .param p => { o with params := o.params.set p n }
  | .field j => { o with vals := o.vals.set j (some (.nat n)) }

/-- the struct as `ReadTL1` leaves it: presence bits equal the field-mask bits -/
def AObj.ofRead (fields : List Field) (vals : List (Option Val)) (params : List Nat) : AObj :=
  { vals := vals, params := params,
    tl2 := fields.map (fun f => match fieldPresent f vals params with | some b => b | none => false) }

def Field.hasAccessor (f : Field) : Bool :=
  match f.mask with
  | some (.num _, _) => false
  | some _ => true
  | none => f.tl2bit.isSome

/-- first step of `Set<F>(v)`: the value is stored (a `true`-typed field has no storage) -/
def AObj.stored (o : AObj) (f : Field) (i : Nat) (v : Val) : AObj :=
  if f.isBit then o else { o with vals := o.vals.set i (some v) }

/-- the new value of the field mask: `|= bit`, except `&^= bit` for `Set<F>(false)` of a `true`-typed field -/
def newMask (f : Field) (b : Bool) (m bit : Nat) : Nat := if f.isBit && !b then clearBitN m bit else setBitN m bit

/-- `Set<F>(v)` for field `i`; `b` is the argument of a `true`-typed field -/
def AObj.set (o : AObj) (fields : List Field) (i : Nat) (v : Val) (b : Bool) : AObj :=
  match fields[i]? with
  | none => o
  | some f =>
    let o2 :=
      match f.mask with
      | some (a, bit) => (o.stored f i v).withMask a (newMask f b ((o.stored f i v).maskVal a) bit)
      | none => o.stored f i v
    match f.tl2bit with
    | some _ => { o2 with tl2 := o2.tl2.set i (if f.isBit then b else true) }
    | none => o2

/-- `Clear<F>()` for field `i` -/
def AObj.clear (o : AObj) (fields : List Field) (i : Nat) : AObj :=
  match fields[i]? with
  | none => o
  | some f =>
    let o1 := { o with vals := o.vals.set i none }
    let o2 :=
      match f.mask with
      | some (a, bit) => o1.withMask a (clearBitN (o1.maskVal a) bit)
      | none => o1
    match f.tl2bit with
    | some _ => { o2 with tl2 := o2.tl2.set i false }
    | none => o2

/-- `IsSet<F>()` -/
def AObj.isSet (o : AObj) (fields : List Field) (i : Nat) : Bool :=
  match fields[i]? with
  | none => false
  | some f =>
    match f.tl2bit with
    | some _ => (match o.tl2[i]? with | some b => b | none => false)
    | none =>
      match f.mask with
      | some (a, bit) => testBit (o.maskVal a) bit
      | none => false

/-- presence as the TL1 writer sees it -/
def AObj.tl1Present (o : AObj) (fields : List Field) (i : Nat) : Bool :=
  match fields[i]? with
  | none => false
  | some f =>
    match f.mask with
    | some (a, bit) => testBit (o.maskVal a) bit
    | none => true

/-! ### the operation as the harness performs it: on a factory object, or on the struct stored in one of its fields -/

inductive AccOp where
  | set (v : Val) (b : Bool)
  | clear
  deriving Inhabited

def AObj.apply (o : AObj) (fields : List Field) (i : Nat) : AccOp → AObj
  | .set v b => o.set fields i v b
  | .clear => o.clear fields i

/-- write back nat parameters that were passed by pointer to `#` fields of the parent -/
def writeBackParams (pvals : List (Option Val)) : List NatArg → List Nat → List (Option Val)
  | .field j :: as, n :: ns => writeBackParams (pvals.set j (some (.nat n))) as ns
  | _ :: as, _ :: ns => writeBackParams pvals as ns
  | _, _ => pvals

/-- Go stores a zero value where the model stores `none` (reset field): a reset field that the field masks now declare
present is written with that zero value — also inside sibling structs that share the changed nat parameter -/
def materializeFieldsWith (mz : Nat → List Nat → Val → Val) (d : Desc) (fuel : Nat) (params : List Nat) (all : List (Option Val)) :
    List Field → List (Option Val) → List (Option Val)
  | f :: fs, v :: vs =>
    (match fieldPresent f all params, natArgVals all params f.natArgs, v with
     | some true, some na, some x => some (mz f.ty na x)
     | some true, _, none => Z.zeroVal d fuel f.ty
     | _, _, v => v) :: materializeFieldsWith mz d fuel params all fs vs
  | _, vs => vs

def materialize (d : Desc) : Nat → Nat → List Nat → Val → Val
  | 0, _, _, v => v
  | fuel + 1, ty, params, v =>
    match d.get? ty, v with
    | some (.struct s), .struct vals =>
      .struct (materializeFieldsWith (materialize d fuel) d (d.insts.size + 1) params vals s.fields vals)
    | some (.union u), .union i x =>
      (match u.variants[i]?, natArgVals [] params u.elemNatArgs with
       | some (vi, _), some na => .union i (materialize d fuel vi na x)
       | _, _ => v)
    | some (.array a), .arr es =>
      (match natArgVals [] params a.elem.natArgs with
       | some na => .arr (es.map (materialize d fuel a.elem.ty na))
       | none => v)
    | _, _ => v

structure AccResult where
  top : Val                 -- the factory object afterwards
  target : AObj             -- the struct the accessor was called on
  fields : List Field       -- its fields

/-- `path = none`: the accessor of the top-level struct `ty`; `some k`: of the struct in its (unconditional) field `k` -/
def accessTop (d : Desc) (ty : Nat) (top : Val) (path : Option Nat) (i : Nat) (op : AccOp) : Option AccResult :=
  match d.get? ty, top with
  | some (.struct s), .struct vals =>
    match path with
    | none =>
      let o := (AObj.ofRead s.fields vals []).apply s.fields i op
      some { top := .struct o.vals, target := o, fields := s.fields }
    | some k =>
      match s.fields[k]?, vals[k]? with
      | some fk, some (some (.struct cv)) =>
        match d.get? fk.ty, natArgVals vals [] fk.natArgs with
        | some (.struct sc), some ps =>
          let o := (AObj.ofRead sc.fields cv ps).apply sc.fields i op
          let vals1 := writeBackParams (vals.set k (some (.struct o.vals))) fk.natArgs o.params
          some { top := .struct vals1, target := o, fields := sc.fields }
        | _, _ => none
      | _, _ => none
  | _, _ => none

end TLVerif.Codec
