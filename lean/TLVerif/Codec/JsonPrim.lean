import TLVerif.Prim.TL1String
/-!
Primitive layer of the JSON model (core only): decimal integer text, float ⇄ decimal text with exact
(big-number) arithmetic, `utf8.Valid`, base64 (std, padded), UTF-8 encoding of a code point.

What is modelled (behaviour of Go's `strconv`, `unicode/utf8`, `encoding/base64` assumed, sampled by the tie):
* `strconv.AppendUint/AppendInt(…, 10)`               → `natText` / `intText`
* `strconv.AppendFloat(w, v, 'f', -1, 32|64)`          → `floatText` (shortest digits that round-trip, closest to the value)
* `strconv.ParseUint/ParseInt(s, 10, bits)`            → `parseUintText` / `parseIntText`
* `strconv.ParseFloat(s, 32|64)` on decimal text and on the special spellings (`nan`, `[+-]inf`, `[+-]infinity`) → `parseFloatText`
  (hexadecimal floats and `_` separators are NOT modelled: the model rejects them)
-/
namespace TLVerif.Codec
open TLVerif.Prim

/-! ### decimal digits -/

def digitsAux : Nat → Nat → List Nat → List Nat
  | 0, _, acc => acc
  | fuel + 1, n, acc => if n < 10 then n :: acc else digitsAux fuel (n / 10) (n % 10 :: acc)

/-- decimal digits of `n`, most significant first (`[0]` for 0) -/
def digitsOf (n : Nat) : List Nat := digitsAux (n + 1) n []

def digitChar (d : Nat) : Char :=
  match d % 10 with
  | 0 => '0' | 1 => '1' | 2 => '2' | 3 => '3' | 4 => '4' | 5 => '5' | 6 => '6' | 7 => '7' | 8 => '8' | _ => '9'

def isDigit (c : Char) : Bool := '0' ≤ c && c ≤ '9'

def dropZeros : List Nat → List Nat
  | [] => []
  | d :: ds => if d % 10 == 0 then dropZeros ds else d :: ds

/-- integer part text: no leading zeros, "0" for nothing -/
def intPartText (ds : List Nat) : List Char :=
  match dropZeros ds with
  | [] => ['0']
  | ds' => ds'.map digitChar

def natText (n : Nat) : List Char := intPartText (digitsOf n)

/-- two's complement `bits`-bit pattern printed as a signed integer -/
def intText (bits n : Nat) : List Char :=
  if n % 2 ^ bits < 2 ^ (bits - 1) then natText (n % 2 ^ bits) else '-' :: natText (2 ^ bits - n % 2 ^ bits)

def digitsVal : List Char → Nat → Option Nat
  | [], acc => some acc
  | c :: cs, acc => if isDigit c then digitsVal cs (acc * 10 + (c.toNat - 48)) else none

/-- `[0-9]+` -/
def parseDigits (cs : List Char) : Option Nat :=
  match cs with
  | [] => none
  | _ => digitsVal cs 0

/-- `strconv.ParseUint(s, 10, bits)` : digits only, value < 2^bits -/
def parseUintText (bits : Nat) (cs : List Char) : Option Nat :=
  match parseDigits cs with
  | some n => if n < 2 ^ bits then some n else none
  | none => none

/-- `strconv.ParseInt(s, 10, bits)`: optional sign, digits, range; result as two's complement pattern -/
def parseIntText (bits : Nat) (cs : List Char) : Option Nat :=
  match cs with
  | '-' :: r =>
    match parseDigits r with
    | some n => if n ≤ 2 ^ (bits - 1) then some ((2 ^ bits - n) % 2 ^ bits) else none
    | none => none
  | '+' :: r =>
    match parseDigits r with
    | some n => if n < 2 ^ (bits - 1) then some n else none
    | none => none
  | _ =>
    match parseDigits cs with
    | some n => if n < 2 ^ (bits - 1) then some n else none
    | none => none

/-! ### floats -/

structure FloatFmt where
  mbits : Nat
  ebits : Nat
  deriving Repr

def fmt32 : FloatFmt := ⟨23, 8⟩
def fmt64 : FloatFmt := ⟨52, 11⟩

def FloatFmt.emin (f : FloatFmt) : Int := 2 - (2 ^ (f.ebits - 1) : Nat) - (f.mbits : Nat)
def FloatFmt.signBit (f : FloatFmt) : Nat := 2 ^ (f.mbits + f.ebits)
def FloatFmt.infBits (f : FloatFmt) : Nat := (2 ^ f.ebits - 1) * 2 ^ f.mbits

inductive FClass where
  | nan
  | inf (neg : Bool)
  | fin (neg : Bool) (m : Nat) (e : Int)      -- value `m * 2^e`
  deriving Repr

def classify (f : FloatFmt) (bits : Nat) : FClass :=
  let frac := bits % 2 ^ f.mbits
  let ex := (bits / 2 ^ f.mbits) % 2 ^ f.ebits
  let neg := (bits / 2 ^ (f.mbits + f.ebits)) % 2 == 1
  if ex == 2 ^ f.ebits - 1 then (if frac == 0 then .inf neg else .nan)
  else if ex == 0 then .fin neg frac f.emin
  else .fin neg (2 ^ f.mbits + frac) (f.emin + ex - 1)

def scaleBy (num den : Nat) (e : Int) : Nat × Nat :=
  if e < 0 then (num * 2 ^ e.natAbs, den) else (num, den * 2 ^ e.toNat)

/-- nearest float (ties to even) to the positive rational `num/den`; bit pattern without sign, `none` on overflow -/
def roundToFloat (f : FloatFmt) (num den : Nat) : Option Nat :=
  let p := f.mbits + 1
  let est : Int := (Nat.log2 num : Int) - (Nat.log2 den : Int)
  let e0 : Int := est - (p - 1 : Nat)
  let (n0, d0) := scaleBy num den e0
  let e1 : Int := if n0 < 2 ^ (p - 1) * d0 then e0 - 1 else e0
  let e2 : Int := if e1 < f.emin then f.emin else e1
  let (n2, d2) := scaleBy num den e2
  let q := n2 / d2
  let r := n2 % d2
  let q' := if 2 * r > d2 || (2 * r == d2 && q % 2 == 1) then q + 1 else q
  let bits := (e2 - f.emin).toNat * 2 ^ f.mbits + q'
  if bits ≥ f.infBits then none else some bits

/-- value `mant * 10^exp10` to float bits (without sign); `none` = overflow (`strconv.ErrRange`) -/
def decimalToBits (f : FloatFmt) (mant : Nat) (exp10 : Int) : Option Nat :=
  if mant == 0 then some 0 else
  let mag : Int := ((digitsOf mant).length : Int) + exp10
  if mag > 400 then none
  else if mag < -400 then some 0
  else if exp10 ≥ 0 then roundToFloat f (mant * 10 ^ exp10.toNat) 1
  else roundToFloat f mant (10 ^ exp10.natAbs)

def digitsToNat (ds : List Nat) : Nat := ds.foldl (fun a d => a * 10 + d) 0

def dropTrailingZeros (ds : List Nat) : List Nat := (dropZeros ds.reverse).reverse

/-- `decimal.Round`'s `shouldRoundUp` at position `n` of the exact digit string -/
def shouldRoundUp (s : List Nat) (n : Nat) : Bool :=
  match s.drop n with
  | [] => false
  | d :: rest =>
    if d == 5 && rest.all (· == 0) then
      (match n with | 0 => false | k + 1 => (s.getD k 0) % 2 == 1)
    else d ≥ 5

/-- shortest-digit search (strconv `roundShortest` semantics): at the first length `n` where truncation or
round-up of the exact expansion still parses back to `bits`, take it (nearest when both do). -/
def shortestLoop (f : FloatFmt) (bits : Nat) (s : List Nat) (dpS : Int) : Nat → Nat → List Nat × Int
  | 0, _ => (dropTrailingZeros s, dpS)
  | fuel + 1, n =>
    if n ≥ s.length then (dropTrailingZeros s, dpS) else
    let down := digitsToNat (s.take n)
    let up := down + 1
    let k : Int := dpS - (n : Nat)
    let okdown := decimalToBits f down k == some bits
    let okup := decimalToBits f up k == some bits
    let pick (c : Nat) : List Nat × Int := (dropTrailingZeros (digitsOf c), k + ((digitsOf c).length : Nat))
    if okdown && okup then pick (if shouldRoundUp s n then up else down)
    else if okdown then pick down
    else if okup then pick up
    else shortestLoop f bits s dpS fuel (n + 1)

/-- digits `D` and decimal point position `dp` (value = 0.D × 10^dp) of the shortest representation of `m * 2^e` -/
def shortestDigits (f : FloatFmt) (bits m : Nat) (e : Int) : List Nat × Int :=
  if m == 0 then ([], 0) else
  let nAndF : Nat × Nat := if e ≥ 0 then (m * 2 ^ e.toNat, 0) else (m * 5 ^ e.natAbs, e.natAbs)
  let s := digitsOf nAndF.1
  let dpS : Int := (s.length : Int) - (nAndF.2 : Nat)
  shortestLoop f bits s dpS s.length 1

/-- `%f` layout of digits/decimal point (strconv `fmtF` with shortest precision) -/
def layoutF (ds : List Nat) (dp : Int) : List Char :=
  if ds.isEmpty then ['0'] else
  if dp ≤ 0 then
    '0' :: '.' :: (List.replicate dp.natAbs '0' ++ ds.map digitChar)
  else
    let n := dp.toNat
    if n ≥ ds.length then intPartText (ds ++ List.replicate (n - ds.length) 0)
    else intPartText (ds.take n) ++ '.' :: (ds.drop n).map digitChar

/-- `strconv.AppendFloat(nil, v, 'f', -1, bits)` for finite `v` -/
def floatText (f : FloatFmt) (bits : Nat) : List Char :=
  match classify f bits with
  | .fin neg m e =>
    let (ds, dp) := shortestDigits f (bits % f.signBit) m e
    (if neg then ['-'] else []) ++ layoutF ds dp
  | _ => ['0']

def lowerC (c : Char) : Char := if 'A' ≤ c && c ≤ 'Z' then Char.ofNat (c.toNat + 32) else c

def spanDigits : List Char → List Char → List Char × List Char
  | c :: cs, acc => if isDigit c then spanDigits cs (c :: acc) else (acc.reverse, c :: cs)
  | [], acc => (acc.reverse, [])

/-- the bit pattern Go produces for `"NaN"` (`math.NaN()` and its `float32` conversion) -/
def nanBits (f : FloatFmt) : Nat := if f.mbits == 23 then 0x7FC00000 else 0x7FF8000000000001

/-- `strconv.ParseFloat(s, bits)` restricted to decimal text and the special spellings; `none` = error -/
def parseFloatText (f : FloatFmt) (cs : List Char) : Option Nat :=
  let low := cs.map lowerC
  if low == "nan".toList then some (nanBits f) else
  let (neg, body, signed) : Bool × List Char × Bool :=
    match cs with
    | '-' :: r => (true, r, true)
    | '+' :: r => (false, r, true)
    | _ => (false, cs, false)
  let lowb := body.map lowerC
  if lowb == "inf".toList || lowb == "infinity".toList then
    (let _ := signed; some (f.infBits + (if neg then f.signBit else 0)))
  else
  let (ip, r1) := spanDigits body []
  let (fp, r2, sawdot) : List Char × List Char × Bool :=
    match r1 with
    | '.' :: r => let (d, r') := spanDigits r []; (d, r', true)
    | _ => ([], r1, false)
  let _ := sawdot
  if ip.isEmpty && fp.isEmpty then none else
  let expPart : Option Int :=
    match r2 with
    | [] => some 0
    | c :: r =>
      if c == 'e' || c == 'E' then
        let (eneg, r') : Bool × List Char := match r with | '-' :: t => (true, t) | '+' :: t => (false, t) | _ => (false, r)
        match parseDigits r' with
        | some n => some (if eneg then -(n : Int) else (n : Int))
        | none => none
      else none
  match expPart, digitsVal (ip ++ fp) 0 with
  | some e, some mant =>
    match decimalToBits f mant (e - (fp.length : Nat)) with
    | some b => some (b + (if neg then f.signBit else 0))
    | none => none
  | _, _ => none

/-! ### UTF-8 -/

def inR (b : UInt8) (lo hi : Nat) : Bool := lo ≤ b.toNat && b.toNat ≤ hi

/-- Go `utf8.Valid` -/
def utf8Valid : Bytes → Bool
  | [] => true
  | b0 :: r =>
    if b0.toNat < 0x80 then utf8Valid r
    else if inR b0 0xC2 0xDF then
      match r with
      | b1 :: r' => inR b1 0x80 0xBF && utf8Valid r'
      | _ => false
    else if inR b0 0xE0 0xEF then
      match r with
      | b1 :: b2 :: r' =>
        (if b0.toNat == 0xE0 then inR b1 0xA0 0xBF else if b0.toNat == 0xED then inR b1 0x80 0x9F else inR b1 0x80 0xBF)
          && inR b2 0x80 0xBF && utf8Valid r'
      | _ => false
    else if inR b0 0xF0 0xF4 then
      match r with
      | b1 :: b2 :: b3 :: r' =>
        (if b0.toNat == 0xF0 then inR b1 0x90 0xBF else if b0.toNat == 0xF4 then inR b1 0x80 0x8F else inR b1 0x80 0xBF)
          && inR b2 0x80 0xBF && inR b3 0x80 0xBF && utf8Valid r'
      | _ => false
    else false

/-- Go `utf8.EncodeRune` (surrogates and out-of-range runes become U+FFFD) -/
def utf8Encode (c : Nat) : Bytes :=
  let c := if (0xD800 ≤ c && c ≤ 0xDFFF) || c > 0x10FFFF then 0xFFFD else c
  if c < 0x80 then [byteOf c]
  else if c < 0x800 then [byteOf (0xC0 + c / 64), byteOf (0x80 + c % 64)]
  else if c < 0x10000 then [byteOf (0xE0 + c / 4096), byteOf (0x80 + (c / 64) % 64), byteOf (0x80 + c % 64)]
  else [byteOf (0xF0 + c / 262144), byteOf (0x80 + (c / 4096) % 64), byteOf (0x80 + (c / 64) % 64), byteOf (0x80 + c % 64)]

/-! ### base64 (StdEncoding) -/

def b64Char (n : Nat) : UInt8 :=
  if n < 26 then byteOf (65 + n) else if n < 52 then byteOf (97 + n - 26) else if n < 62 then byteOf (48 + n - 52)
  else if n == 62 then 43 else 47

def b64Val (b : UInt8) : Option Nat :=
  let n := b.toNat
  if 65 ≤ n && n ≤ 90 then some (n - 65) else if 97 ≤ n && n ≤ 122 then some (n - 97 + 26)
  else if 48 ≤ n && n ≤ 57 then some (n - 48 + 52) else if n == 43 then some 62 else if n == 47 then some 63 else none

def base64Encode : Bytes → Bytes
  | a :: b :: c :: r =>
    let n := a.toNat * 65536 + b.toNat * 256 + c.toNat
    b64Char (n / 262144) :: b64Char ((n / 4096) % 64) :: b64Char ((n / 64) % 64) :: b64Char (n % 64) :: base64Encode r
  | [a, b] =>
    let n := a.toNat * 65536 + b.toNat * 256
    [b64Char (n / 262144), b64Char ((n / 4096) % 64), b64Char ((n / 64) % 64), 61]
  | [a] =>
    let n := a.toNat * 65536
    [b64Char (n / 262144), b64Char ((n / 4096) % 64), 61, 61]
  | [] => []

def base64DecodeQuads : Bytes → Option Bytes
  | [] => some []
  | a :: b :: c :: e :: r =>
    if e == 61 then
      -- padded final quantum
      if !r.isEmpty then none
      else if c == 61 then
        match b64Val a, b64Val b with
        | some x, some y => some [byteOf ((x * 64 + y) / 16)]
        | _, _ => none
      else
        match b64Val a, b64Val b, b64Val c with
        | some x, some y, some z => let n := (x * 64 + y) * 64 + z; some [byteOf (n / 1024), byteOf ((n / 4) % 256)]
        | _, _, _ => none
    else
      match b64Val a, b64Val b, b64Val c, b64Val e, base64DecodeQuads r with
      | some x, some y, some z, some w, some rest =>
        let n := ((x * 64 + y) * 64 + z) * 64 + w
        some (byteOf (n / 65536) :: byteOf ((n / 256) % 256) :: byteOf (n % 256) :: rest)
      | _, _, _, _, _ => none
  | _ => none

/-- Go `base64.StdEncoding.Decode` (padding required, `\r`/`\n` ignored, trailing bits not checked) -/
def base64Decode (bs : Bytes) : Option Bytes :=
  base64DecodeQuads (bs.filter (fun b => b != 10 && b != 13))

end TLVerif.Codec
