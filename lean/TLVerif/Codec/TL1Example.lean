import TLVerif.Codec.TL1Wf
/-!
Small explicit descriptors used by `example`s (hypotheses are satisfiable) and by the concrete
counter-examples of the property files.
-/
namespace TLVerif.Codec.Ex
open TLVerif.Codec

def fld (name : String) (ty : Nat) (bare : Bool := true) (mask : Option (NatArg × Nat) := none)
    (natArgs : List NatArg := []) : Field :=
  { name, ty, bare, mask, tl2bit := none, isBit := false, natArgs }

/-- `demo m:# x:m.0?int xs:(vector int) s:string = Demo` with tag `0x11223344`
    0: `#`, 1: `int`, 2: `vector int` (bare elements), 3: `string`, 4: the struct -/
def demo : Desc := { insts := #[
  .prim .u32,
  .prim .i32,
  .array { isTuple := false, dynamic := false, count := 0, nparams := 0, elem := fld "" 1, hasTL2 := false },
  .prim .str,
  .struct { tag := 0x11223344, nparams := 0, fields := [
    fld "m" 0, fld "x" 1 (mask := some (.field 0, 0)), fld "xs" 2, fld "s" 3 ] } ] }

/-- m = 1, x = 7, xs = [5, 6], s = "a" -/
def demoVal : Val := .struct [some (.nat 1), some (.nat 7), some (.arr [.nat 5, .nat 6]), some (.str [0x61])]

def demoBytes : TLVerif.Prim.Bytes :=
  [0x44, 0x33, 0x22, 0x11,  1, 0, 0, 0,  7, 0, 0, 0,  2, 0, 0, 0,  5, 0, 0, 0,  6, 0, 0, 0,  1, 0x61, 0, 0]

/-- `true = True` (no fields) at 0; `vector<true>` at 1; `holder xs:(vector true) = Holder` at 2 -/
def zeroSize : Desc := { insts := #[
  .struct { tag := 0x3fedd339, nparams := 0, fields := [] },
  .array { isTuple := false, dynamic := false, count := 0, nparams := 0, elem := fld "" 0, hasTL2 := false },
  .struct { tag := 0x0badf00d, nparams := 0, fields := [ fld "xs" 1 ] } ] }

def zeroSizeVal : Val := .struct [some (.arr [.struct [], .struct [], .struct []])]

/-- `dictionary<int,int>` at 2 backed by a map: element `{k:int v:int}` at 1 -/
def dictD : Desc := { insts := #[
  .prim .i32,
  .struct { tag := 0x1, nparams := 0, fields := [ fld "k" 0, fld "v" 0 ] },
  .dict { isTuple := false, dynamic := false, count := 0, nparams := 0, elem := fld "" 1, hasTL2 := false } ] }

/-- `dictD` plus the TL2 `bit` instance and a struct `holder x:int` (index 3) that reaches neither -/
def mixedD : Desc := { insts := #[
  .prim .i32,
  .struct { tag := 0x1, nparams := 0, fields := [ fld "k" 0, fld "v" 0 ] },
  .dict { isTuple := false, dynamic := false, count := 0, nparams := 0, elem := fld "" 1, hasTL2 := false },
  .struct { tag := 0x4, nparams := 0, fields := [ fld "x" 0 ] },
  .prim .bit ] }

/-- a lone TL2 `bit` -/
def bitD : Desc := { insts := #[ .prim .bit ] }

/-- `tup n:# xs:n*[int] = Tup` : 0 `#`, 1 `int`, 2 dynamic tuple, 3 struct -/
def tupD : Desc := { insts := #[
  .prim .u32,
  .prim .i32,
  .array { isTuple := true, dynamic := true, count := 0, nparams := 1, elem := fld "" 1, hasTL2 := false },
  .struct { tag := 0x2, nparams := 0, fields := [ fld "n" 0, fld "xs" 2 (natArgs := [.field 0]) ] } ] }

/-- `opt m:# n:m.0?# xs:n*[int] = Opt` : the size of `xs` is a masked `#` field -/
def optD : Desc := { insts := #[
  .prim .u32,
  .prim .i32,
  .array { isTuple := true, dynamic := true, count := 0, nparams := 1, elem := fld "" 1, hasTL2 := false },
  .struct { tag := 0x3, nparams := 0, fields := [
    fld "m" 0, fld "n" 0 (mask := some (.field 0, 0)), fld "xs" 2 (natArgs := [.field 1]) ] } ] }

/-- `bool` with tags, and a union `a | b` of two empty constructors: 0 bool, 1 `a`, 2 `b`, 3 union -/
def unionD : Desc := { insts := #[
  .prim (.bool 0xbc799737 0x997275b5),
  .struct { tag := 0xa, nparams := 0, fields := [], isUnionElement := true, unionIndex := 0 },
  .struct { tag := 0xb, nparams := 0, fields := [], isUnionElement := true, unionIndex := 1 },
  .union { variants := [(1, "a"), (2, "b")], elemNatArgs := [], nparams := 0, isEnum := true, isMaybe := false, hasTL2 := false } ] }

/-- `loop x:%loop = Loop`: a bare self-reference, no input is ever consumed (lead L8: Go recurses forever) -/
def loopD : Desc := { insts := #[ .struct { tag := 0x5, nparams := 0, fields := [ fld "x" 0 ] } ] }

/-- `nil | cons x:w3`, `w3 x:w4`, … `w6 x:List`: four bare wrappers between two tags, so each 4 input bytes cost
6 levels of recursion: 0 union, 1 nil, 2 cons, 3–6 wrappers -/
def chainD : Desc := { insts := #[
  .union { variants := [(1, "nil"), (2, "cons")], elemNatArgs := [], nparams := 0, isEnum := false, isMaybe := false, hasTL2 := false },
  .struct { tag := 0x10, nparams := 0, fields := [], isUnionElement := true, unionIndex := 0 },
  .struct { tag := 0x11, nparams := 0, fields := [ fld "x" 3 ], isUnionElement := true, unionIndex := 1 },
  .struct { tag := 0x13, nparams := 0, fields := [ fld "x" 4 ] },
  .struct { tag := 0x14, nparams := 0, fields := [ fld "x" 5 ] },
  .struct { tag := 0x15, nparams := 0, fields := [ fld "x" 6 ] },
  .struct { tag := 0x16, nparams := 0, fields := [ fld "x" 0 (bare := false) ] } ] }

/-- six `cons` tags and a `nil` tag: 28 bytes -/
def chainBytes : TLVerif.Prim.Bytes :=
  [0x11,0,0,0, 0x11,0,0,0, 0x11,0,0,0, 0x11,0,0,0, 0x11,0,0,0, 0x11,0,0,0, 0x10,0,0,0]

/-- Peano numbers `zero | succ prev:Nat` (boxed recursive reference): 0 zero, 1 succ, 2 union -/
def peanoD : Desc := { insts := #[
  .struct { tag := 0x20, nparams := 0, fields := [], isUnionElement := true, unionIndex := 0 },
  .struct { tag := 0x21, nparams := 0, fields := [ fld "prev" 2 (bare := false) ], isUnionElement := true, unionIndex := 1 },
  .union { variants := [(0, "zero"), (1, "succ")], elemNatArgs := [], nparams := 0, isEnum := false, isMaybe := false, hasTL2 := false } ] }

/-- `myNat fields_mask:# a:fields_mask.0?%myNat` (from goldmaster.tl): bare recursion behind the mask word -/
def maskRecD : Desc := { insts := #[
  .prim .u32,
  .struct { tag := 0xc60c1b41, nparams := 0, fields := [ fld "fields_mask" 0, fld "a" 1 (mask := some (.field 0, 0)) ] } ] }

end TLVerif.Codec.Ex
