import TLVerif.Codec.TL1RoundTrip
/-!
The reader produces `Normal` values (on reference-closed instance sets without dictionaries and `bit`):
`Normal` is not an artificial restriction, it is met by everything that was decoded.
-/
namespace TLVerif.Codec
open TLVerif.Prim

theorem readPrim_normal {k : PrimK} (hk : k ≠ .bit) {bs rest : Bytes} {v : Val}
    (h : readPrim k bs = .ok (v, rest)) : normalPrim k v = true := by
  have h32 : ∀ {v}, (readU32 bs).map (fun (p : Nat × Bytes) => (Val.nat p.1, p.2)) = .ok (v, rest) →
      ∃ n, v = .nat n ∧ n < 4294967296 := by
    intro v h
    obtain ⟨⟨n, r⟩, he, hv⟩ := map_ok_inv' h
    injection hv with hv _
    exact ⟨n, hv.symm, (readU32_inv he).2⟩
  have h64 : ∀ {v}, (readU64 bs).map (fun (p : Nat × Bytes) => (Val.nat p.1, p.2)) = .ok (v, rest) →
      ∃ n, v = .nat n ∧ n < 18446744073709551616 := by
    intro v h
    obtain ⟨⟨n, r⟩, he, hv⟩ := map_ok_inv' h
    injection hv with hv _
    exact ⟨n, hv.symm, (readU64_inv he).2⟩
  cases k with
  | u32 => obtain ⟨n, rfl, hlt⟩ := h32 h; simpa [normalPrim] using hlt
  | i32 => obtain ⟨n, rfl, hlt⟩ := h32 h; simpa [normalPrim] using hlt
  | f32 => obtain ⟨n, rfl, hlt⟩ := h32 h; simpa [normalPrim] using hlt
  | u64 => obtain ⟨n, rfl, hlt⟩ := h64 h; simpa [normalPrim] using hlt
  | i64 => obtain ⟨n, rfl, hlt⟩ := h64 h; simpa [normalPrim] using hlt
  | f64 => obtain ⟨n, rfl, hlt⟩ := h64 h; simpa [normalPrim] using hlt
  | bit => exact absurd rfl hk
  | byte =>
    cases bs with
    | nil => simp [readPrim] at h
    | cons b r =>
      simp only [readPrim] at h
      injection h with h; injection h with hv _
      subst hv
      simpa [normalPrim] using b.toNat_lt
  | str =>
    simp only [readPrim] at h
    obtain ⟨⟨s, r⟩, _, hv⟩ := map_ok_inv' h
    injection hv with hv _
    subst hv; rfl
  | bool f t =>
    simp only [readPrim] at h
    cases h1 : readU32 bs with
    | error e => rw [h1] at h; cases h
    | ok p =>
      obtain ⟨tag, r⟩ := p
      simp only [h1] at h
      by_cases c1 : tag = f
      · rw [if_pos c1] at h; injection h with h; injection h with hv _; subst hv; rfl
      · rw [if_neg c1] at h
        by_cases c2 : tag = t
        · rw [if_pos c2] at h; injection h with h; injection h with hv _; subst hv
          subst c2
          simp only [normalPrim, Bool.not_true, Bool.false_or, bne_iff_ne, ne_eq]
          exact fun e => c1 e.symm
        · rw [if_neg c2] at h; cases h

/-- reader `rd` yields values accepted by `nm`, on the types of `S` -/
def NormRd (S : Nat → Bool) (rd : Rd) (nm : Nm) : Prop :=
  ∀ ty bare na bs v rest, S ty = true → rd ty bare na bs = .ok (v, rest) → nm ty bare na v = true

theorem readFields_normal {S : Nat → Bool} {rd : Rd} {nm : Nm} (hn : NormRd S rd nm) (params : List Nat) :
    ∀ (fields : List Field) (acc : List (Option Val)) (bs : Bytes) (out : List (Option Val)) (rest : Bytes),
      (∀ f ∈ fields, S f.ty = true) →
      readFieldsWith rd params fields acc bs = .ok (out, rest) →
      ∃ tail, out = acc ++ tail ∧ ∀ ext, normalFieldsWith nm params (out ++ ext) fields tail = true := by
  intro fields
  induction fields with
  | nil =>
    intro acc bs out rest _ h
    simp only [readFieldsWith] at h
    injection h with h; injection h with h1 _; subst h1
    exact ⟨[], by simp, fun _ => rfl⟩
  | cons f fs ih =>
    intro acc bs out rest hS h
    have hS' : ∀ g ∈ fs, S g.ty = true := fun g hg => hS g (by simp [hg])
    simp only [readFieldsWith] at h
    cases hp : fieldPresent f acc params with
    | none => simp [hp] at h
    | some b =>
      cases hna : natArgVals acc params f.natArgs with
      | none => cases b <;> simp [hp, hna] at h
      | some na =>
        cases b with
        | true =>
          simp only [hp, hna] at h
          cases hr : rd f.ty f.bare na bs with
          | error e => simp [hr] at h
          | ok p =>
            obtain ⟨v, bs'⟩ := p
            simp only [hr] at h
            have hv := hn _ _ _ _ _ _ (hS f (by simp)) hr
            obtain ⟨tail, e2, hw2⟩ := ih _ _ _ _ hS' h
            refine ⟨some v :: tail, by simp [e2], ?_⟩
            intro ext
            have eo : out ++ ext = acc ++ ([some v] ++ tail ++ ext) := by simp [e2]
            simp only [normalFieldsWith]
            rw [eo, fieldPresent_append hp, natArgVals_append hna, ← eo]
            simp only [hv, hw2 ext, Bool.and_self]
        | false =>
          simp only [hp, hna] at h
          obtain ⟨tail, e2, hw2⟩ := ih _ _ _ _ hS' h
          refine ⟨none :: tail, by simp [e2], ?_⟩
          intro ext
          have eo : out ++ ext = acc ++ ([none] ++ tail ++ ext) := by simp [e2]
          simp only [normalFieldsWith]
          rw [eo, fieldPresent_append hp, natArgVals_append hna, ← eo]
          simp only [hw2 ext, Option.isNone_none, Bool.and_self]

theorem readElems_normal {S : Nat → Bool} {rd : Rd} {nm : Nm} (hn : NormRd S rd nm) (f : Field) (hS : S f.ty = true)
    (na : List Nat) :
    ∀ (n : Nat) (bs : Bytes) (vs : List Val) (rest : Bytes),
      readElemsWith rd f na n bs = .ok (vs, rest) → vs.all (nm f.ty f.bare na) = true := by
  intro n
  induction n with
  | zero =>
    intro bs vs rest h
    simp only [readElemsWith] at h
    injection h with h; injection h with h1 _; subst h1; rfl
  | succ n ih =>
    intro bs vs rest h
    simp only [readElemsWith] at h
    cases hr : rd f.ty f.bare na bs with
    | error e => simp [hr] at h
    | ok p =>
      obtain ⟨v, bs'⟩ := p
      simp only [hr] at h
      cases hr2 : readElemsWith rd f na n bs' with
      | error e => simp [hr2] at h
      | ok q =>
        obtain ⟨vs', bs''⟩ := q
        simp only [hr2] at h
        injection h with h; injection h with h1 _; subst h1
        simp only [List.all_cons, hn _ _ _ _ _ _ hS hr, ih _ _ _ hr2, Bool.and_self]

theorem readTL1_normal (cfg : Cfg) (d : Desc) (S : Nat → Bool) (hcl : d.closed S = true)
    (hnb : d.allOn S (fun i => !i.isBitPrim) = true) (hnd : d.allOn S (fun i => !i.isDict) = true) :
    ∀ fuel, NormRd S (readTL1 cfg d fuel) (normalTL1 d fuel) := by
  intro fuel
  induction fuel with
  | zero => intro ty bare na bs v rest _ h; simp [readTL1] at h
  | succ fuel ih =>
    intro ty bare params bs v rest hSty h
    simp only [readTL1] at h
    simp only [normalTL1]
    cases hg : d.get? ty with
    | none => simp only [hg] at h; cases h
    | some inst =>
      simp only [hg] at h ⊢
      have hrefs := Desc.closed_get hcl hg hSty
      cases inst with
      | prim k =>
        have hk : k ≠ .bit := by
          intro e; subst e
          have := Desc.allOn_get hnb hg hSty
          simp [Inst.isBitPrim] at this
        exact readPrim_normal hk h
      | struct s =>
        simp only at h
        cases hb : (if bare = true then Except.ok bs else readExactTag s.tag bs) with
        | error e => simp [hb] at h
        | ok bs1 =>
          simp only [hb] at h
          cases hr : readFieldsWith (readTL1 cfg d fuel) params s.fields [] bs1 with
          | error e => simp [hr] at h
          | ok p =>
            obtain ⟨fs, r⟩ := p
            simp only [hr] at h
            injection h with h; injection h with h1 _; subst h1
            obtain ⟨tail, e1, hw⟩ := readFields_normal ih params _ _ _ _ _
              (fun f hf => hrefs _ (by simp only [Inst.refs]; exact List.mem_map_of_mem hf)) hr
            simp only [List.nil_append] at e1; subst e1
            have := hw []
            simpa only [List.append_nil] using this
      | union u =>
        simp only at h
        cases h1 : readU32 bs with
        | error e => simp [h1] at h
        | ok p =>
          obtain ⟨tag, bs1⟩ := p
          simp only [h1] at h
          cases hf : findVariant d tag u.variants 0 with
          | none => simp [hf] at h
          | some q =>
            obtain ⟨i, vi⟩ := q
            cases hna : natArgVals [] params u.elemNatArgs with
            | none => simp [hf, hna] at h
            | some na =>
              simp only [hf, hna] at h
              cases hr : readTL1 cfg d fuel vi true na bs1 with
              | error e => simp [hr] at h
              | ok p =>
                obtain ⟨x, r⟩ := p
                simp only [hr] at h
                injection h with h; injection h with h2 _; subst h2
                obtain ⟨s, nm, _, hv, hgv, hst⟩ := findVariant_spec d tag _ _ _ _ hf
                simp only [Nat.sub_zero] at hv
                have hSvi : S vi = true := hrefs _ (by
                  simp only [Inst.refs]; exact List.mem_map_of_mem (f := (·.1)) (List.mem_of_getElem? hv))
                simp only [hv, hna]
                exact ih _ _ _ _ _ _ hSvi hr
      | array a =>
        simp only at h
        have hSe : S a.elem.ty = true := hrefs _ (by simp [Inst.refs])
        cases hna : natArgVals [] params a.elem.natArgs with
        | none => simp [hna] at h
        | some na =>
          simp only [hna] at h ⊢
          by_cases ct : a.isTuple = true
          · rw [if_pos ct] at h
            cases hn : (if a.dynamic = true then params[0]? else some a.count) with
            | none => simp [hn] at h
            | some n =>
              simp only [hn] at h
              split at h
              · cases h
              · obtain ⟨⟨vs, r⟩, he, hv⟩ := map_ok_inv' h
                injection hv with hv _; subst hv
                simp only [hna]
                exact readElems_normal ih _ hSe _ _ _ _ _ he
          · rw [if_neg ct] at h
            cases h1 : readU32 bs with
            | error e => simp [h1] at h
            | ok p =>
              obtain ⟨n, bs1⟩ := p
              simp only [h1] at h
              split at h
              · cases h
              · obtain ⟨⟨vs, r⟩, he, hv⟩ := map_ok_inv' h
                injection hv with hv _; subst hv
                simp only [hna]
                exact readElems_normal ih _ hSe _ _ _ _ _ he
      | dict a =>
        have := Desc.allOn_get hnd hg hSty
        simp [Inst.isDict] at this

end TLVerif.Codec
