import TLVerif.Codec.TL1
import TLVerif.Codec.TL1Wf
/-!
# `[]byte` variant of the generated TL1 readers (C10)

With `--generateByteVersions` every type gets a second Go representation in which strings are `[]byte`
and **dictionaries are slices** (`[]DictionaryField…Bytes`, `internal/puregen/gengo/type_rw_dict.go`
`typeString2`): `…BytesReadTL1` (`qt_dict.qtpl`, `bytesVersion` branch) resizes the slice to the wire count
and reads the elements in wire order — no sorting, no de-duplication — and `…BytesWriteTL1` writes the slice
in order.  The string variant decodes into `map[K]V` and writes the keys sorted (`dictNormalize`).

`readTL1M` is `readTL1` with the storage discipline of dictionaries as a parameter:

* `.map`    — the string variant (`readTL1M_map_eq`: it *is* `readTL1`, so every C01/C02 theorem applies);
* `.slice`  — the `[]byte` variant: a dictionary instance is a slice iff it *has* a bytes version (`sl ty`:
  `TypeRWWrapper.hasBytesVersion` — true for every dictionary — and the root type is reached from the
  `--generateByteVersions` white list, otherwise `CreateObjectBytes()` is the string variant);
* `.strict` — a proof device: the slice reader that additionally rejects a dictionary whose keys are not
  strictly ascending.  The inputs it accepts are the *canonical* inputs of the property.

Everything else (structs, unions, arrays, primitives: a `[]byte` string and a `string` hold the same bytes,
`Val.str`) is shared, which is the content of "one representation-agnostic model".
-/
namespace TLVerif.Codec
open TLVerif.Prim

inductive DictMode where
  | map | slice | strict
  deriving DecidableEq, Repr

/-- every earlier key is strictly below every later key (and not conversely) -/
def keyBelowAll (k : PrimK) (x : Val) : List Val → Bool
  | [] => true
  | y :: ys => keyLt k (elemKey x) (elemKey y) && !keyLt k (elemKey y) (elemKey x) && keyBelowAll k x ys

def dictAscending (k : PrimK) : List Val → Bool
  | [] => true
  | x :: xs => keyBelowAll k x xs && dictAscending k xs

def dictStore (m : DictMode) (isSlice : Bool) (k : PrimK) (vs : List Val) : Except CErr (List Val) :=
  match m with
  | .map => .ok (dictNormalize k vs)
  | .slice => .ok (if isSlice then vs else dictNormalize k vs)
  | .strict => if dictAscending k vs then .ok vs else .error .rej

def readTL1M (m : DictMode) (sl : Nat → Bool) (cfg : Cfg) (d : Desc) : Nat → Rd
  | 0 => fun _ _ _ _ => .error .fuel
  | fuel + 1 => fun ty bare params bs =>
    match d.get? ty with
    | none => .error .desc
    | some (.prim k) => readPrim k bs
    | some (.struct s) =>
      match (if bare then .ok bs else readExactTag s.tag bs) with
      | .error e => .error e
      | .ok bs1 =>
        match readFieldsWith (readTL1M m sl cfg d fuel) params s.fields [] bs1 with
        | .error e => .error e
        | .ok (fs, r) => .ok (.struct fs, r)
    | some (.union u) =>
      match readU32 bs with
      | .error e => .error e
      | .ok (tag, bs1) =>
        match findVariant d tag u.variants 0, natArgVals [] params u.elemNatArgs with
        | some (i, vi), some na =>
          match readTL1M m sl cfg d fuel vi true na bs1 with
          | .error e => .error e
          | .ok (v, r) => .ok (.union i v, r)
        | none, _ => .error .rej
        | _, none => .error .desc
    | some (.array a) =>
      match natArgVals [] params a.elem.natArgs with
      | none => .error .desc
      | some na =>
        if a.isTuple then
          match (if a.dynamic then params[0]? else some a.count) with
          | none => .error .desc
          | some n =>
            if a.dynamic && !sanityOk cfg bs n then .error .eof else
            (readElemsWith (readTL1M m sl cfg d fuel) a.elem na n bs).map (fun (vs, r) => (.arr vs, r))
        else
          match readU32 bs with
          | .error e => .error e
          | .ok (n, bs1) =>
            if !sanityOk cfg bs1 n then .error .eof else
            (readElemsWith (readTL1M m sl cfg d fuel) a.elem na n bs1).map (fun (vs, r) => (.arr vs, r))
    | some (.dict a) =>
      match natArgVals [] params a.elem.natArgs with
      | none => .error .desc
      | some na =>
        match readU32 bs with
        | .error e => .error e
        | .ok (n, bs1) =>
          if !sanityOk cfg bs1 n then .error .eof else
          match dictKeyPrim d a with
          | none => .error .desc
          | some k =>
            match readElemsWith (readTL1M m sl cfg d fuel) a.elem na n bs1 with
            | .error e => .error e
            | .ok (vs, r) =>
              match dictStore m (sl ty) k vs with
              | .error e => .error e
              | .ok vs' => .ok (.arr vs', r)

/-- `hasBytesVersion` of the generator (`MarkHasBytesVersion`, type_rw_*.go): the instance reaches a string
primitive or a dictionary (`TypeRWDict.markHasBytesVersion` is constantly true, so a dictionary instance always
has a slice representation, also `dictionaryAny int int`) -/
def Desc.hasBytesVersion (d : Desc) (ty : Nat) : Bool :=
  (d.reachList ty).any fun j => match d.get? j with | some (.prim .str) => true | some (.dict _) => true | _ => false

end TLVerif.Codec
