import TLVerif.Prim.TL2Size
import TLVerif.Codec.TL1
/-!
TL2 writers and readers of the generated Go code, driven by the descriptor
(`internal/puregen/gengo/qt_struct.qtpl generateTL2Code`, `qt_union.qtpl`, `qt_brackets.qtpl`, `qt_dict.qtpl`,
`qt_maybe.qtpl`, `type_rw_*_tl2.go`, `pkg/basictl/basictl2.go`).

* `writeTL2` is ONE direct recursive encoder of what the two Go passes (`CalculateLayout` + `InternalWriteTL2`) emit.
* `layoutTL2` models the size computation of `CalculateLayout` with the counters (`currentSize`, `lastUsedByte`) the Go
  code uses; `writeTL2Checked` is the writer with the Go panic "mismatch between calculate and write" as an explicit
  outcome.  `TL2Lemmas.layout_agrees_write` shows the two agree, i.e. the panic is unreachable.
* `readTL2` models `InternalReadTL2` (body slicing by the declared size, missing trailing fields = reset,
  trailing unknown bytes skipped, skip of omitted fields).

TL2 code takes no nat parameters: sizes are on the wire.  Recursion through type references is bounded by `fuel`;
loops over fields/elements are structural and take the recursive function as a parameter.
A TL2 encoder call answers `none` when the value is "empty" and the caller asked for the empty optimisation
(`zeroIfEmpty` / `optimizeEmpty` in the Go code): the caller then leaves the presence bit clear.
-/
namespace TLVerif.Codec
open TLVerif.Prim

/-! ### zero values (Go `Reset`) -/

def zeroPrim : PrimK → Val
  | .str => .str []
  | .bool _ _ => .bool false
  | .bit => .bool false
  | _ => .nat 0

/-- a field that has a presence bit of its own (TL2 `?`/`bit`, or a TL1 field mask mirrored into `tl2mask`) -/
def fieldOptional (f : Field) : Bool := f.tl2bit.isSome || f.mask.isSome

def zeroFieldsWith (z : Nat → Val) : List Field → List (Option Val)
  | [] => []
  | f :: fs => (if fieldOptional f || f.omitted then none else some (z f.ty)) :: zeroFieldsWith z fs

def zeroVal (d : Desc) : Nat → Nat → Val
  | 0, _ => .struct []
  | fuel + 1, ty =>
    match d.get? ty with
    | none => .struct []
    | some (.prim k) => zeroPrim k
    | some (.struct s) => .struct (zeroFieldsWith (zeroVal d fuel) s.fields)
    | some (.union u) =>
      match u.variants with
      | (vi, _) :: _ => .union 0 (zeroVal d fuel vi)
      | [] => .union 0 (.struct [])
    | some (.array a) =>
      if a.isTuple && !a.dynamic then .arr (List.replicate a.count (zeroVal d fuel a.elem.ty)) else .arr []
    | some (.dict _) => .arr []

/-! ### writer -/

/-- The emptiness tests of `type_rw_primitive_tl2.go` (`TypeRWPrimitive.nonZeroCondition`), `type_rw_bool_tl2.go`:
`x != 0` for integers, `len(x) != 0` for strings, `x` for booleans, and for floats `(x != 0 || 1/x < 0)`, i.e. a float is
empty iff its **bit pattern** is zero: `-0.0` (`0x80000000` / `0x8000000000000000`) is not empty and is written out
(`x != 0` alone is false for `-0.0`; `1/x < 0` is true exactly for `-0.0` among the values with `x == 0`; NaN has `x != 0`). -/
def primEmpty : PrimK → Val → Bool
  | .str, .str s => s.isEmpty
  | .bool _ _, .bool b => !b
  | .bit, .bool b => !b
  | _, .nat n => n == 0
  | _, _ => true

def primTL2 : PrimK → Val → Except CErr Bytes
  | .u32, .nat n | .i32, .nat n | .f32, .nat n => .ok (u32le n)
  | .u64, .nat n | .i64, .nat n | .f64, .nat n => .ok (u64le n)
  | .byte, .nat n => .ok [byteOf n]
  | .str, .str s => .ok (stringWriteTL2 s)
  | .bool _ _, .bool b => .ok [if b then 1 else 0]
  | .bit, .bool _ => .ok []
  | _, _ => .error .shape

/-- type index, zeroIfEmpty, value ↦ `none` = nothing written and the presence bit stays clear -/
abbrev Enc := Nat → Bool → Val → Except CErr (Option Bytes)

def encPrim (k : PrimK) (zie : Bool) (v : Val) : Except CErr (Option Bytes) :=
  match primTL2 k v with
  | .error e => .error e
  | .ok b => .ok (if zie && primEmpty k v then none else some b)

/-- one field of a struct body: `some bytes` = presence bit set -/
def encField (enc : Enc) (f : Field) (v : Option Val) : Except CErr (Option Bytes) :=
  if f.omitted then .ok none
  else if f.tl2bit.isSome then
    match v with
    | none => .ok none
    | some x => if f.isBit then .ok (some []) else enc f.ty false x
  else
    match v with
    | some x => enc f.ty true x
    | none => .error .shape

/-- per-field results of a struct body -/
def encFieldsWith (enc : Enc) : List Field → List (Option Val) → Except CErr (List (Option Bytes))
  | [], [] => .ok []
  | f :: fs, v :: vs =>
    match encField enc f v with
    | .error e => .error e
    | .ok b =>
      match encFieldsWith enc fs vs with
      | .error e => .error e
      | .ok bs => .ok (b :: bs)
  | _, _ => .error .shape

/-- presence bit of field `i` inside its mask byte -/
def fieldBit (i : Nat) (present : Bool) : Nat := if present then 2 ^ ((i + 1) % 8) else 0

def optBytes : Option Bytes → Bytes
  | some b => b
  | none => []

/-- Bytes of the fields from index `i` on, given as (mask bits contributed to the block that is open when field `i`
starts, bytes that follow that block's mask byte).  A new mask byte precedes field `i` when `(i+1) % 8 = 0`; it is
emitted only if something is used at or after it ("body truncated to the last used byte"). -/
def bodyLoop : Nat → List (Option Bytes) → Nat × Bytes
  | _, [] => (0, [])
  | i, r :: rs =>
    let (m, tail) := bodyLoop (i + 1) rs
    let m' := fieldBit i r.isSome + m
    let t' := optBytes r ++ tail
    if (i + 1) % 8 == 0 then (0, if m' == 0 && t'.isEmpty then [] else byteOf m' :: t')
    else (m', t')

/-- body of an object: first mask byte (bit 0 = variant index follows), variant index, fields -/
def bodyTL2 (ui : Nat) (rs : List (Option Bytes)) : Bytes :=
  let (m, tail) := bodyLoop 0 rs
  if ui == 0 then
    (if m == 0 && tail.isEmpty then [] else byteOf m :: tail)
  else byteOf (1 + m) :: (tl2WriteSize ui ++ tail)

/-- object = varlen body size ++ body; empty body = nothing (optimizeEmpty) or the single byte `00` -/
def objTL2 (zie : Bool) (body : Bytes) : Option Bytes :=
  if body.isEmpty then (if zie then none else some [0])
  else some (tl2WriteSize body.length ++ body)

def encElemsWith (enc : Enc) (ty : Nat) : List Val → Except CErr Bytes
  | [] => .ok []
  | v :: vs =>
    match enc ty false v with
    | .error e => .error e
    | .ok b =>
      match encElemsWith enc ty vs with
      | .error e => .error e
      | .ok bs => .ok (optBytes b ++ bs)

def boolsOf : List Val → Option (List Bool)
  | [] => some []
  | .bool b :: vs => (boolsOf vs).map (b :: ·)
  | _ :: _ => none

def isBitTy (d : Desc) (ty : Nat) : Bool :=
  match d.get? ty with
  | some (.prim .bit) => true
  | _ => false

def structUI (s : StructD) : Nat := if s.isUnionElement then s.unionIndex else 0

def encTL2 (d : Desc) : Nat → Enc
  | 0 => fun _ _ _ => .error .fuel
  | fuel + 1 => fun ty zie v =>
    match d.get? ty with
    | none => .error .desc
    | some (.prim k) => encPrim k zie v
    | some (.struct s) =>
      if (s.isAlias || s.isUnwrap) && !s.isUnionElement then
        -- alias / unwrap: no object wrapping, the call is forwarded to field 0
        match s.fields, v with
        | [f], .struct [some x] => encTL2 d fuel f.ty zie x
        | _, _ => .error .shape
      else
        match v with
        | .struct fs =>
          match encFieldsWith (encTL2 d fuel) s.fields fs with
          | .error e => .error e
          | .ok rs => .ok (objTL2 zie (bodyTL2 (structUI s) rs))
        | _ => .error .shape
    | some (.union u) =>
      match v with
      | .union i x =>
        match u.variants[i]? with
        | some (vi, _) =>
          if u.isMaybe && i != 0 then
            -- qt_maybe.qtpl: the value is written by the element's own call with zeroIfEmpty (not by the variant struct)
            match d.get? vi, x with
            | some (.struct vs), .struct [some y] =>
              match vs.fields with
              | [f] =>
                match encTL2 d fuel f.ty true y with
                | .error e => .error e
                | .ok r => .ok (objTL2 zie (bodyTL2 i [r]))
              | _ => .error .desc
            | _, _ => .error .shape
          else encTL2 d fuel vi zie x
        | none => .error .shape
      | _ => .error .shape
    | some (.array a) =>
      match v with
      | .arr es =>
        if a.isTuple && !a.dynamic && es.length ≠ a.count then .error .shape
        else if es.isEmpty then .ok (if zie then none else some [0])
        else
          let content : Except CErr Bytes :=
            if isBitTy d a.elem.ty then
              match boolsOf es with
              | some bs => .ok (bitsWrite bs)
              | none => .error .shape
            else encElemsWith (encTL2 d fuel) a.elem.ty es
          match content with
          | .error e => .error e
          | .ok c =>
            let body := tl2WriteSize es.length ++ c
            .ok (some (tl2WriteSize body.length ++ body))
      | _ => .error .shape
    | some (.dict a) =>
      match v with
      | .arr es =>
        if es.isEmpty then .ok (if zie then none else some [0])
        else
          match encElemsWith (encTL2 d fuel) a.elem.ty es with
          | .error e => .error e
          | .ok c =>
            let body := tl2WriteSize es.length ++ c
            .ok (some (tl2WriteSize body.length ++ body))
      | _ => .error .shape

/-- generated `WriteTL2` (`optimizeEmpty = false` at top level) -/
def writeTL2 (d : Desc) (fuel ty : Nat) (optimizeEmpty : Bool) (v : Val) : Except CErr Bytes :=
  match encTL2 d fuel ty optimizeEmpty v with
  | .error e => .error e
  | .ok b => .ok (optBytes b)

/-! ### a float `-0.0` in a position where the writer tests emptiness
Former guard of C04 (before the generator tested floats with `(x != 0 || 1/x < 0)` such a value was lost). The theorems no
longer need it; `codec.g4` still evaluates it so that a check run against a tree with the old test can say what it hit. -/

def negZero : PrimK → Val → Bool
  | .f32, .nat n => n % 2147483648 == 0 && n != 0
  | .f64, .nat n => n % 9223372036854775808 == 0 && n != 0
  | _, _ => false

def allFieldsWith (p : Nat → Bool → Val → Bool) : List Field → List (Option Val) → Bool
  | f :: fs, v :: vs =>
    (if f.omitted then true
     else if f.tl2bit.isSome then
       (match v with
        | none => true
        | some x => f.isBit || p f.ty false x)
     else
       (match v with
        | some x => p f.ty true x
        | none => true)) && allFieldsWith p fs vs
  | _, _ => true

/-- no float `-0.0` sits where the TL2 writer would treat it as empty (non-optional field, Maybe value, through aliases) -/
def noNegZero (d : Desc) : Nat → Nat → Bool → Val → Bool
  | 0, _, _, _ => true
  | fuel + 1, ty, zie, v =>
    match d.get? ty with
    | none => true
    | some (.prim k) => !(zie && negZero k v)
    | some (.struct s) =>
      if (s.isAlias || s.isUnwrap) && !s.isUnionElement then
        match s.fields, v with
        | [f], .struct [some x] => noNegZero d fuel f.ty zie x
        | _, _ => true
      else
        match v with
        | .struct fs => allFieldsWith (noNegZero d fuel) s.fields fs
        | _ => true
    | some (.union u) =>
      match v with
      | .union i x =>
        match u.variants[i]? with
        | some (vi, _) =>
          if u.isMaybe && i != 0 then
            match d.get? vi, x with
            | some (.struct vs), .struct [some y] =>
              (match vs.fields with
               | [f] => noNegZero d fuel f.ty true y
               | _ => true)
            | _, _ => true
          else noNegZero d fuel vi zie x
        | none => true
      | _ => true
    | some (.array a) =>
      match v with
      | .arr es => es.all (noNegZero d fuel a.elem.ty false)
      | _ => true
    | some (.dict a) =>
      match v with
      | .arr es => es.all (noNegZero d fuel a.elem.ty false)
      | _ => true

/-! ### layout pass (`CalculateLayout`), modelled with the Go counters -/

abbrev Lay := Nat → Bool → Val → Except CErr (Option Nat)

def primSize : PrimK → Val → Except CErr Nat
  | .u32, .nat _ | .i32, .nat _ | .f32, .nat _ => .ok 4
  | .u64, .nat _ | .i64, .nat _ | .f64, .nat _ => .ok 8
  | .byte, .nat _ => .ok 1
  | .str, .str s => .ok (tl2CalculateSize s.length + s.length)
  | .bool _ _, .bool _ => .ok 1
  | .bit, .bool _ => .ok 0
  | _, _ => .error .shape

def layPrim (k : PrimK) (zie : Bool) (v : Val) : Except CErr (Option Nat) :=
  match primSize k v with
  | .error e => .error e
  | .ok n => .ok (if zie && primEmpty k v then none else some n)

def layField (lay : Lay) (f : Field) (v : Option Val) : Except CErr (Option Nat) :=
  if f.omitted then .ok none
  else if f.tl2bit.isSome then
    match v with
    | none => .ok none
    | some x => if f.isBit then .ok (some 0) else lay f.ty false x
  else
    match v with
    | some x => lay f.ty true x
    | none => .error .shape

def layFieldsWith (lay : Lay) : List Field → List (Option Val) → Except CErr (List (Option Nat))
  | [], [] => .ok []
  | f :: fs, v :: vs =>
    match layField lay f v with
    | .error e => .error e
    | .ok b =>
      match layFieldsWith lay fs vs with
      | .error e => .error e
      | .ok bs => .ok (b :: bs)
  | _, _ => .error .shape

/-- the field loop of `CalculateLayout`: `currentSize`, `lastUsedByte` -/
def layLoop : Nat → Nat → Nat → List (Option Nat) → Nat × Nat
  | _, cur, last, [] => (cur, last)
  | i, cur, last, r :: rs =>
    let cur := if (i + 1) % 8 == 0 then cur + 1 else cur
    match r with
    | some n => layLoop (i + 1) (cur + n) (cur + n) rs
    | none => layLoop (i + 1) cur last rs

/-- body size as `CalculateLayout` computes it -/
def layBody (ui : Nat) (rs : List (Option Nat)) : Nat :=
  let cur0 := 1
  let (cur1, last1) := if ui == 0 then (cur0, 0) else (cur0 + tl2CalculateSize ui, cur0 + tl2CalculateSize ui)
  let (cur, last) := layLoop 0 cur1 last1 rs
  if last < cur then last else cur

/-- `if !optimizeEmpty || currentSize != 0 { currentSize += TL2CalculateSize(currentSize) }`; `sz != 0` test of the caller -/
def layObj (zie : Bool) (body : Nat) : Option Nat :=
  if body == 0 then (if zie then none else some 1)
  else some (body + tl2CalculateSize body)

def layElemsWith (lay : Lay) (ty : Nat) : List Val → Except CErr Nat
  | [] => .ok 0
  | v :: vs =>
    match lay ty false v with
    | .error e => .error e
    | .ok b =>
      match layElemsWith lay ty vs with
      | .error e => .error e
      | .ok bs => .ok (b.getD 0 + bs)

def layoutTL2 (d : Desc) : Nat → Lay
  | 0 => fun _ _ _ => .error .fuel
  | fuel + 1 => fun ty zie v =>
    match d.get? ty with
    | none => .error .desc
    | some (.prim k) => layPrim k zie v
    | some (.struct s) =>
      if (s.isAlias || s.isUnwrap) && !s.isUnionElement then
        match s.fields, v with
        | [f], .struct [some x] => layoutTL2 d fuel f.ty zie x
        | _, _ => .error .shape
      else
        match v with
        | .struct fs =>
          match layFieldsWith (layoutTL2 d fuel) s.fields fs with
          | .error e => .error e
          | .ok rs => .ok (layObj zie (layBody (structUI s) rs))
        | _ => .error .shape
    | some (.union u) =>
      match v with
      | .union i x =>
        match u.variants[i]? with
        | some (vi, _) =>
          if u.isMaybe && i != 0 then
            match d.get? vi, x with
            | some (.struct vs), .struct [some y] =>
              match vs.fields with
              | [f] =>
                match layoutTL2 d fuel f.ty true y with
                | .error e => .error e
                | .ok r => .ok (layObj zie (layBody i [r]))
              | _ => .error .desc
            | _, _ => .error .shape
          else layoutTL2 d fuel vi zie x
        | none => .error .shape
      | _ => .error .shape
    | some (.array a) =>
      match v with
      | .arr es =>
        if a.isTuple && !a.dynamic && es.length ≠ a.count then .error .shape
        else if es.isEmpty then .ok (if zie then none else some 1)
        else
          let content : Except CErr Nat :=
            if isBitTy d a.elem.ty then
              match boolsOf es with
              | some bs => .ok ((bs.length + 7) / 8)
              | none => .error .shape
            else layElemsWith (layoutTL2 d fuel) a.elem.ty es
          match content with
          | .error e => .error e
          | .ok c =>
            let body := tl2CalculateSize es.length + c
            .ok (some (body + tl2CalculateSize body))
      | _ => .error .shape
    | some (.dict a) =>
      match v with
      | .arr es =>
        if es.isEmpty then .ok (if zie then none else some 1)
        else
          match layElemsWith (layoutTL2 d fuel) a.elem.ty es with
          | .error e => .error e
          | .ok c =>
            let body := tl2CalculateSize es.length + c
            .ok (some (body + tl2CalculateSize body))
      | _ => .error .shape

/-- outcome of the two-pass writer with the Go panic made explicit -/
inductive W2Out where
  | ok (b : Bytes)
  | panic                 -- "tl2: mismatch between calculate and write"
  | err (e : CErr)
  deriving Repr

/-- the writer as the Go code runs it: the size announced by the layout pass must equal what the write pass emitted -/
def writeTL2Checked (d : Desc) (fuel ty : Nat) (v : Val) : W2Out :=
  match layoutTL2 d fuel ty false v, encTL2 d fuel ty false v with
  | .ok sz, .ok b => if sz.getD 0 = (optBytes b).length then .ok (optBytes b) else .panic
  | .error e, _ => .err e
  | _, .error e => .err e

/-! ### reader -/

abbrev Rd2 := Nat → Bool → Bytes → RRes      -- type index, canDependOnLocalBit, input

def parseSize (bs : Bytes) : Except CErr (Nat × Bytes) := liftP (tl2ParseSize bs)

def readByte : Bytes → Except CErr (UInt8 × Bytes)
  | b :: r => .ok (b, r)
  | [] => .error .eof

def readPrim2 (k : PrimK) (canDep : Bool) (bs : Bytes) : RRes :=
  match k with
  | .u32 | .i32 | .f32 => (readU32 bs).map (fun (n, r) => (.nat n, r))
  | .u64 | .i64 | .f64 => (readU64 bs).map (fun (n, r) => (.nat n, r))
  | .byte => (readByte bs).map (fun (b, r) => (.nat b.toNat, r))
  | .str => (liftP (stringReadTL2 bs)).map (fun (s, r) => (.str s, r))
  | .bool _ _ => (readByte bs).map (fun (b, r) => (.bool (b != 0), r))
  | .bit => if canDep then .ok (.bool true, bs) else (readByte bs).map (fun (b, r) => (.bool (b != 0), r))

/-- `basictl.SkipSizedValue` -/
def skipSized (bs : Bytes) : Except CErr Bytes :=
  match parseSize bs with
  | .error e => .error e
  | .ok (l, r) => if r.length < l then .error .rej else .ok (r.drop l)

/-- `basictl.SkipFixedSizedValue` -/
def skipFixed (n : Nat) (bs : Bytes) : Except CErr Bytes :=
  if bs.length < n then .error .rej else .ok (bs.drop n)

def skipTL2 (d : Desc) : Nat → Nat → Bool → Bytes → Except CErr Bytes
  | 0, _, _, _ => .error .fuel
  | fuel + 1, ty, canDep, bs =>
    match d.get? ty with
    | none => .error .desc
    | some (.prim k) =>
      match k with
      | .u32 | .i32 | .f32 => skipFixed 4 bs
      | .u64 | .i64 | .f64 => skipFixed 8 bs
      | .byte => skipFixed 1 bs
      | .str => skipSized bs
      | .bool _ _ => skipFixed 1 bs
      | .bit => if canDep then .ok bs else skipFixed 1 bs
    | some (.struct s) =>
      if s.isUnwrap && !s.isUnionElement then
        match s.fields with
        | [f] => skipTL2 d fuel f.ty canDep bs
        | _ => .error .desc
      else skipSized bs
    | _ => skipSized bs

def isTrueTy (d : Desc) (ty : Nat) : Bool :=
  match d.get? ty with
  | some (.struct s) => s.fields.isEmpty
  | _ => false

/-- start of field `i`: a new mask byte is taken from the body when `(i+1) % 8 = 0` (an exhausted body reads as mask 0) -/
def nextBlock (i : Nat) (block : UInt8) (cur : Bytes) : UInt8 × Bytes :=
  if (i + 1) % 8 == 0 then (match cur with | b :: r => (b, r) | [] => (0, [])) else (block, cur)

/-- one field of `InternalReadTL2` given its presence bit -/
def readField (rd : Rd2) (skip : Nat → Bool → Bytes → Except CErr Bytes) (z : Nat → Val) (isTrue : Nat → Bool)
    (f : Field) (bit : Bool) (cur : Bytes) : Except CErr (Option Val × Bytes) :=
  if f.isBit then .ok (if bit && f.tl2bit.isSome then some (z f.ty) else none, cur)
  else if f.omitted || isTrue f.ty then
    let v : Option Val := if f.omitted || fieldOptional f then none else some (z f.ty)
    if bit then
      match skip f.ty f.mask.isNone cur with
      | .error e => .error e
      | .ok cur' => .ok (v, cur')
    else .ok (v, cur)
  else if bit then
    match rd f.ty f.mask.isNone cur with
    | .error e => .error e
    | .ok (v, cur') => .ok (some v, cur')
  else .ok (if fieldOptional f then none else some (z f.ty), cur)

/-- the field loop of `InternalReadTL2`; what is left of the body after the last field is dropped by the caller -/
def readFields2With (rd : Rd2) (skip : Nat → Bool → Bytes → Except CErr Bytes) (z : Nat → Val) (isTrue : Nat → Bool) :
    Nat → UInt8 → List Field → Bytes → Except CErr (List (Option Val))
  | _, _, [], _ => .ok []
  | i, block, f :: fs, cur =>
    match readField rd skip z isTrue f (testBit (nextBlock i block cur).1.toNat ((i + 1) % 8)) (nextBlock i block cur).2 with
    | .error e => .error e
    | .ok (v, cur') =>
      match readFields2With rd skip z isTrue (i + 1) (nextBlock i block cur).1 fs cur' with
      | .error e => .error e
      | .ok vs => .ok (v :: vs)

def readElems2With (rd : Rd2) (ty : Nat) : Nat → Bytes → Except CErr (List Val × Bytes)
  | 0, bs => .ok ([], bs)
  | n + 1, bs =>
    match rd ty false bs with
    | .error e => .error e
    | .ok (v, bs') =>
      match readElems2With rd ty n bs' with
      | .error e => .error e
      | .ok (vs, bs'') => .ok (v :: vs, bs'')

/-- size prefix of an object / array: `(body, rest)`; declared size larger than what is left ⇒ error -/
def sliceBody (bs : Bytes) : Except CErr (Bytes × Bytes) :=
  match parseSize bs with
  | .error e => .error e
  | .ok (sz, r) => if r.length < sz then .error .rej else .ok (r.take sz, r.drop sz)

/-- first mask byte and optional variant index of a non-empty body -/
def readHead (cur : Bytes) : Except CErr (UInt8 × Nat × Bytes) :=
  match readByte cur with
  | .error e => .error e
  | .ok (block, cur1) =>
    if block.toNat % 2 == 1 then
      match parseSize cur1 with
      | .error e => .error e
      | .ok (idx, cur2) => .ok (block, idx, cur2)
    else .ok (block, 0, cur1)

/-- a struct-shaped object: size, body (empty = `Reset`), first mask byte with optional variant index (`ui` is the only
index accepted when one is on the wire), fields; what is left of the body is dropped -/
def readStructObj (rd : Rd2) (skip : Nat → Bool → Bytes → Except CErr Bytes) (z : Nat → Val) (isTrue : Nat → Bool)
    (fields : List Field) (ui : Nat) (bs : Bytes) : Except CErr (List (Option Val) × Bytes) :=
  match sliceBody bs with
  | .error e => .error e
  | .ok (cur, rest) =>
    if cur.isEmpty then .ok (zeroFieldsWith z fields, rest)
    else
      match readHead cur with
      | .error e => .error e
      | .ok (block, idx, cur1) =>
        if block.toNat % 2 == 1 && idx ≠ ui then .error .rej
        else
          match readFields2With rd skip z isTrue 0 block fields cur1 with
          | .error e => .error e
          | .ok fs => .ok (fs, rest)

def padTo (n : Nat) (z : Val) (vs : List Val) : List Val := vs ++ List.replicate (n - vs.length) z

def readTL2 (d : Desc) : Nat → Rd2
  | 0 => fun _ _ _ => .error .fuel
  | fuel + 1 => fun ty canDep bs =>
    match d.get? ty with
    | none => .error .desc
    | some (.prim k) => readPrim2 k canDep bs
    | some (.struct s) =>
      if (s.isAlias || s.isUnwrap) && !s.isUnionElement then
        match s.fields with
        | [f] =>
          match readTL2 d fuel f.ty (s.isUnwrap && canDep) bs with
          | .error e => .error e
          | .ok (v, r) => .ok (.struct [some v], r)
        | _ => .error .desc
      else
        -- a plain struct accepts only index 0; a union variant read on its own checks its own number,
        -- and only when the index is present on the wire
        match readStructObj (readTL2 d fuel) (skipTL2 d fuel) (zeroVal d fuel) (isTrueTy d) s.fields (structUI s) bs with
        | .error e => .error e
        | .ok (fs, rest) => .ok (.struct fs, rest)
    | some (.union u) =>
      match sliceBody bs with
      | .error e => .error e
      | .ok (cur, rest) =>
        if cur.isEmpty then .ok (zeroVal d (fuel + 1) ty, rest)
        else
          match readHead cur with
          | .error e => .error e
          | .ok (block, idx, cur1) =>
            match u.variants[idx]? with
            | none => .error .rej
            | some (vi, _) =>
              match d.get? vi with
              | some (.struct vs) =>
                if u.isMaybe then
                  -- qt_maybe.qtpl: index 0 returns at once; index 1 reads the value iff bit 1 is set
                  if idx == 0 then .ok (.union 0 (zeroVal d fuel vi), rest)
                  else
                    match vs.fields with
                    | [f] =>
                      if testBit block.toNat 1 then
                        match readTL2 d fuel f.ty false cur1 with
                        | .error e => .error e
                        | .ok (v, _) => .ok (.union idx (.struct [some v]), rest)
                      else .ok (.union idx (.struct [some (zeroVal d fuel f.ty)]), rest)
                    | _ => .error .desc
                else
                  -- the variant's fields are one reference deeper than the union (as in the writer, which goes through the
                  -- variant struct): same fuel index for the field readers and the zero values on both sides
                  match fuel with
                  | 0 => .error .fuel
                  | fuel' + 1 =>
                    match readFields2With (readTL2 d fuel') (skipTL2 d fuel') (zeroVal d fuel') (isTrueTy d) 0 block vs.fields cur1 with
                    | .error e => .error e
                    | .ok fs => .ok (.union idx (.struct fs), rest)
              | _ => .error .desc
    | some (.array a) =>
      match sliceBody bs with
      | .error e => .error e
      | .ok (cur, rest) =>
        let cnt : Except CErr (Nat × Bytes) := if cur.isEmpty then .ok (0, cur) else parseSize cur
        match cnt with
        | .error e => .error e
        | .ok (count, cur1) =>
          let bit := isBitTy d a.elem.ty
          if a.isTuple && !a.dynamic then
            let n := min count a.count
            let z := zeroVal d fuel a.elem.ty
            if bit then
              match liftP (bitsRead n cur1) with
              | .error e => .error e
              | .ok (bs', _) => .ok (.arr (padTo a.count z (bs'.map Val.bool)), rest)
            else
              match readElems2With (readTL2 d fuel) a.elem.ty n cur1 with
              | .error e => .error e
              | .ok (vs, _) => .ok (.arr (padTo a.count z vs), rest)
          else
            if (if bit then count / 8 else count) > cur1.length then .error .eof
            else if bit then
              match liftP (bitsRead count cur1) with
              | .error e => .error e
              | .ok (bs', _) => .ok (.arr (bs'.map Val.bool), rest)
            else
              match readElems2With (readTL2 d fuel) a.elem.ty count cur1 with
              | .error e => .error e
              | .ok (vs, _) => .ok (.arr vs, rest)
    | some (.dict a) =>
      match sliceBody bs with
      | .error e => .error e
      | .ok (cur, rest) =>
        let cnt : Except CErr (Nat × Bytes) := if cur.isEmpty then .ok (0, cur) else parseSize cur
        match cnt with
        | .error e => .error e
        | .ok (count, cur1) =>
          if count > cur1.length then .error .eof
          else
            match dictKeyPrim d a with
            | none => .error .desc
            | some k =>
              match readElems2With (readTL2 d fuel) a.elem.ty count cur1 with
              | .error e => .error e
              | .ok (vs, _) => .ok (.arr (dictNormalize k vs), rest)

/-! ### TL1 writer for values produced by the TL2 reader
After `ReadTL2` the TL1 field masks are ordinary fields: a field whose TL1 mask bit is set but whose TL2 presence bit was
clear holds its zero value (the reader reset it); Go's `WriteTL1` writes that zero value. -/

def writeFieldsZWith (wr : Wr) (z : Nat → Val) (params : List Nat) (all : List (Option Val)) :
    List Field → List (Option Val) → Except CErr Bytes
  | [], [] => .ok []
  | f :: fs, v :: vs =>
    match fieldPresent f all params, natArgVals all params f.natArgs with
    | some true, some na =>
      match wr f.ty f.bare na (v.getD (z f.ty)) with
      | .error e => .error e
      | .ok b =>
        match writeFieldsZWith wr z params all fs vs with
        | .error e => .error e
        | .ok bs => .ok (b ++ bs)
    | some false, some _ => writeFieldsZWith wr z params all fs vs
    | _, _ => .error .desc
  | _, _ => .error .shape

def writeTL1Z (d : Desc) : Nat → Wr
  | 0 => fun _ _ _ _ => .error .fuel
  | fuel + 1 => fun ty bare params v =>
    match d.get? ty with
    | none => .error .desc
    | some (.prim k) => writePrim k v
    | some (.struct s) =>
      match v with
      | .struct fs =>
        match writeFieldsZWith (writeTL1Z d fuel) (zeroVal d fuel) params fs s.fields fs with
        | .error e => .error e
        | .ok b => .ok ((if bare then [] else u32le s.tag) ++ b)
      | _ => .error .shape
    | some (.union u) =>
      match v with
      | .union i x =>
        match u.variants[i]?, natArgVals [] params u.elemNatArgs with
        | some (vi, _), some na => writeTL1Z d fuel vi false na x
        | none, _ => .error .shape
        | _, none => .error .desc
      | _ => .error .shape
    | some (.array a) =>
      match v, natArgVals [] params a.elem.natArgs with
      | .arr es, some na =>
        if a.isTuple then
          match (if a.dynamic then params[0]? else some a.count) with
          | none => .error .desc
          | some n => if es.length ≠ n then .error .shape else writeElemsWith (writeTL1Z d fuel) a.elem na es
        else
          if es.length ≥ 2 ^ 32 then .error .shape else
          (writeElemsWith (writeTL1Z d fuel) a.elem na es).map (fun b => u32le es.length ++ b)
      | _, none => .error .desc
      | _, _ => .error .shape
    | some (.dict a) =>
      match v, natArgVals [] params a.elem.natArgs with
      | .arr es, some na =>
        if es.length ≥ 2 ^ 32 then .error .shape else
        (writeElemsWith (writeTL1Z d fuel) a.elem na es).map (fun b => u32le es.length ++ b)
      | _, none => .error .desc
      | _, _ => .error .shape

end TLVerif.Codec
