import TLVerif.Prim.TL1String
import TLVerif.Codec.Desc
/-!
The universal value of the codec model and the error outcomes of readers/writers.
A struct stores one entry per field: `none` = the field is absent (mask bit clear / nil pointer /
presence bit clear); Go's "zero value instead of nil" is not distinguishable through any encoder.
-/
namespace TLVerif.Codec
open TLVerif.Prim

inductive Val where
  | nat (n : Nat)                        -- fixed-size primitives as raw bit patterns
  | str (b : Bytes)
  | bool (b : Bool)
  | struct (fs : List (Option Val))
  | union (idx : Nat) (v : Val)          -- `v` is the variant's struct value
  | arr (es : List Val)
  deriving Repr, Inhabited

inductive CErr where
  | eof      -- io.ErrUnexpectedEOF
  | rej      -- any other reader error (bad tag, bad padding, non-canonical, bad bool …)
  | desc     -- malformed descriptor (index out of range): the T3 certificate `Desc.wf` excludes it
  | fuel     -- recursion budget exhausted (`fuel_suffices` shows it cannot happen with enough fuel)
  | shape    -- writer: value shape does not match the type (Go: write error / impossible by typing)
  deriving Repr, DecidableEq, Inhabited

def CErr.ofPrim : RErr → CErr
  | .eof => .eof
  | _ => .rej

structure Cfg where
  sanity : Bool := true     -- `--checkLengthSanity`
  deriving Repr, Inhabited

def testBit (n bit : Nat) : Bool := (n / 2 ^ bit) % 2 == 1

/-- value of a nat argument: constants, earlier `#` fields of the struct being processed, outer params -/
def natArgVal (fs : List (Option Val)) (params : List Nat) : NatArg → Option Nat
  | .num n => some n
  | .param i => params[i]?
  | .field i =>
    match fs[i]? with
    | some (some (.nat n)) => some n
    | some none => some 0          -- a masked-out `#` field reads as 0 (Go resets it to 0)
    | _ => none

def natArgVals (fs : List (Option Val)) (params : List Nat) : List NatArg → Option (List Nat)
  | [] => some []
  | a :: as => do
    let x ← natArgVal fs params a
    let xs ← natArgVals fs params as
    pure (x :: xs)

end TLVerif.Codec
