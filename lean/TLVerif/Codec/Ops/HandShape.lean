import TLVerif.Codec.Ops.Common
import TLVerif.Codec.Zero
/-! `codec.hs`: hand-shaped values — a fresh object whose `#` fields are assigned directly (C01's "hand-shaped values"). -/
namespace TLVerif.Codec
open TLVerif.Util TLVerif.Prim

/-- descriptor field index of the n-th *stored* field (fields with `isBit` have no Go storage) -/
def storedToDesc : List Field → Nat → Nat → Option Nat
  | [], _, _ => none
  | f :: fs, k, i => if f.isBit then storedToDesc fs k (i + 1) else if k = 0 then some i else storedToDesc fs (k - 1) (i + 1)

def setNth {α} : List α → Nat → α → List α
  | [], _, _ => []
  | _ :: xs, 0, v => v :: xs
  | x :: xs, n + 1, v => x :: setNth xs n v

def parseAssign (s : String) : Option (Nat × Nat) :=
  match s.splitOn "=" with
  | [a, b] => do
    let i ← a.toNat?
    let v ← b.toNat?
    pure (i, v)
  | _ => none

/-- Go holds a zero value (or nil pointer, written as the zero value) in every field; the model's `none` must be
replaced by the zero value wherever the masks of the hand-shaped object make the field present. -/
def hsFillFieldsWith (fill : Nat → List Nat → Val → Val) (d : Desc) (zfuel : Nat) (params : List Nat) :
    List Field → List (Option Val) → List (Option Val) → List (Option Val)
  | f :: fs, v :: vs, acc =>
    let present := (fieldPresent f acc params).getD false
    let na := (natArgVals acc params f.natArgs).getD []
    let v' : Option Val :=
      if present then
        match v with
        | some x => some (fill f.ty na x)
        | none => (Z.zeroVal d zfuel f.ty).map (fill f.ty na)
      else v
    hsFillFieldsWith fill d zfuel params fs vs (acc ++ [v'])
  | _, _, acc => acc

def hsFillPresent (d : Desc) : Nat → Nat → List Nat → Val → Val
  | 0, _, _, v => v
  | fuel + 1, ty, params, v =>
    match d.get? ty, v with
    | some (.struct s), .struct fs => .struct (hsFillFieldsWith (hsFillPresent d fuel) d 64 params s.fields fs [])
    | some (.array a), .arr es =>
      let na := (natArgVals [] params a.elem.natArgs).getD []
      .arr (es.map (hsFillPresent d fuel a.elem.ty na))
    | some (.union u), .union i x =>
      match u.variants[i]? with
      | some (vi, _) => .union i (hsFillPresent d fuel vi ((natArgVals [] params u.elemNatArgs).getD []) x)
      | none => v
    | _, _ => v

def handleHandShape : OpHandler := fun st op args =>
  match op, args with
  | "hs", [sid, ty, _name, assigns] =>
    match st.lookup sid, ty.toNat? with
    | some sc, some ty =>
      let d := sc.desc
      let fuel := fuelFor d 256
      match d.get? ty, Z.zeroVal d fuel ty with
      | some (.struct s), some (.struct fs0) =>
        let step (acc : Option (List (Option Val))) (a : String) : Option (List (Option Val)) := do
          let fs ← acc
          let (gi, v) ← parseAssign a
          let di ← storedToDesc s.fields gi 0
          match s.fields[di]? >>= fun f => d.get? f.ty with
          | some (.prim .u32) => pure (setNth fs di (some (.nat v)))
          | _ => none
        match (assigns.splitOn ",").foldl step (some fs0) with
        | none => some "not-nat-field"
        | some fs =>
          match writeTL1 d fuel ty false [] (hsFillPresent d 32 ty [] (.struct fs)) with
          | .error _ => some "ok w1b=werr"
          | .ok w =>
            match readTL1 sc.cfg d (fuelFor d w.length) ty false [] w with
            | .error e => some s!"ok w1b={hexOfBytes w} rt={(errStr e).replace " " "-"}"
            | .ok (v, rest) => some s!"ok w1b={hexOfBytes w} rt={w.length - rest.length}:{outBytes (writeTL1 d fuel ty false [] v)}"
      | _, _ => some "not-struct"
    | _, _ => some "bad-op"
  | _, _ => none

end TLVerif.Codec
