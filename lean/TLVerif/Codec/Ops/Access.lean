import TLVerif.Codec.Ops.Common
import TLVerif.Codec.Access
/-! `codec.acc <sid> <ty> <tlname> <hexA> <hexB|-> <path> <field> <op> <arg> <nat> <report>` (C43): decode, call the accessor
model, answer the `IsSet` reports of the listed fields and the boxed TL1 re-encoding (format: go/hgen/access.go.tmpl). -/
namespace TLVerif.Codec
open TLVerif.Util TLVerif.Prim

def idxOfTok (t : String) : Option Nat :=
  match t.splitOn ":" with
  | i :: _ => i.toNat?
  | [] => none

/-- the struct value the accessor works on, inside a decoded top-level value -/
def targetVals (top : Val) (path : Option Nat) : Option (List (Option Val)) :=
  match top, path with
  | .struct vals, none => some vals
  | .struct vals, some k => (match vals[k]? with | some (some (.struct cv)) => some cv | _ => none)
  | _, _ => none

def targetFields (d : Desc) (ty : Nat) (path : Option Nat) : Option (List Field) :=
  match d.get? ty, path with
  | some (.struct s), none => some s.fields
  | some (.struct s), some k =>
    (match s.fields[k]? with
     | some fk => (match d.get? fk.ty with | some (.struct sc) => some sc.fields | _ => none)
     | none => none)
  | _, _ => none

def handleAccess : OpHandler := fun st op args =>
  match op, args with
  | "acc", [sid, ty, _name, hA, hB, path, field, aop, arg, _nat, report] =>
    match st.lookup sid, ty.toNat?, bytesOfHex hA, idxOfTok field with
    | some sc, some ty, some bsA, some i =>
      let d := sc.desc
      let path := if path == "-" then none else idxOfTok path
      let fuelA := fuelFor d bsA.length
      match readTL1 sc.cfg d fuelA ty false [] bsA with
      | .error e => some (errStr e)
      | .ok (vA, _) =>
        let opv : Option AccOp :=
          if aop == "clear" then some .clear
          else if aop != "set" then none
          else if arg == "0" || arg == "1" then some (.set (.struct []) (arg == "1"))
          else
            match bytesOfHex hB with
            | none => none
            | some bsB =>
              match readTL1 sc.cfg d (fuelFor d bsB.length) ty false [] bsB, targetFields d ty path with
              | .ok (vB, _), some fields =>
                (match targetVals vB path, fields[i]? with
                 | some vals, some f =>
                   (match vals[i]? with
                    | some (some v) => some (.set v true)
                    | _ => (Z.zeroVal d (fuelFor d 64) f.ty).map (fun z => AccOp.set z true))
                 | _, _ => none)
              | _, _ => none
        match opv with
        | none => some "bad-op"
        | some opv =>
          match accessTop d ty vA path i opv with
          | none => some "bad-op"
          | some r =>
            let reps := (report.splitOn ",").filterMap idxOfTok
            let isset := ",".intercalate (reps.map (fun j => s!"{j}:{if r.target.isSet r.fields j then "1" else "0"}"))
            let lenB := match bytesOfHex hB with | some b => b.length | none => 0
            let w := outBytes (writeTL1 d (fuelFor d (bsA.length + lenB + 64)) ty false [] (materialize d (fuelFor d (bsA.length + lenB + 64)) ty [] r.top))
            some s!"ok isset={if reps.isEmpty then "-" else isset} w1b={w}"
    | _, _, _, _ => some "bad-op"
  | _, _ => none

end TLVerif.Codec
