import TLVerif.Codec.Ops.Common
import TLVerif.Codec.Access2
import TLVerif.Codec.Ops.TL2
/-! `codec.acc <sid> <ty> <tlname> <hexA> <hexB|-> <path> <field> <op> <arg> <nat> <report>` (C43): decode, call the accessor
model, answer the `IsSet` reports of the listed fields and the boxed TL1 re-encoding (format: go/hgen/access.go.tmpl). -/
namespace TLVerif.Codec
open TLVerif.Util TLVerif.Prim

def idxOfTok (t : String) : Option Nat :=
  match t.splitOn ":" with
  | i :: _ => i.toNat?
  | [] => none

/-- the struct value the accessor works on, inside a decoded top-level value -/
def targetVals (top : Val) (path : Option Nat) : Option (List (Option Val)) :=
  match top, path with
  | .struct vals, none => some vals
  | .struct vals, some k => (match vals[k]? with | some (some (.struct cv)) => some cv | _ => none)
  | _, _ => none

def targetFields (d : Desc) (ty : Nat) (path : Option Nat) : Option (List Field) :=
  match d.get? ty, path with
  | some (.struct s), none => some s.fields
  | some (.struct s), some k =>
    (match s.fields[k]? with
     | some fk => (match d.get? fk.ty with | some (.struct sc) => some sc.fields | _ => none)
     | none => none)
  | _, _ => none

def handleAccess : OpHandler := fun st op args =>
  match op, args with
  | "acc", [sid, ty, _name, hA, hB, path, field, aop, arg, _nat, report] =>
    match st.lookup sid, ty.toNat?, bytesOfHex hA, idxOfTok field with
    | some sc, some ty, some bsA, some i =>
      let d := sc.desc
      let path := if path == "-" then none else idxOfTok path
      let fuelA := fuelFor d bsA.length
      match readTL1 sc.cfg d fuelA ty false [] bsA with
      | .error e => some (errStr e)
      | .ok (vA, _) =>
        let opv : Option AccOp :=
          if aop == "clear" then some .clear
          else if aop != "set" then none
          else if arg == "0" || arg == "1" then some (.set (.struct []) (arg == "1"))
          else
            match bytesOfHex hB with
            | none => none
            | some bsB =>
              match readTL1 sc.cfg d (fuelFor d bsB.length) ty false [] bsB, targetFields d ty path with
              | .ok (vB, _), some fields =>
                (match targetVals vB path, fields[i]? with
                 | some vals, some f =>
                   (match vals[i]? with
                    | some (some v) => some (.set v true)
                    | _ => (Z.zeroVal d (fuelFor d 64) f.ty).map (fun z => AccOp.set z true))
                 | _, _ => none)
              | _, _ => none
        match opv with
        | none => some "bad-op"
        | some opv =>
          match accessTop d ty vA path i opv with
          | none => some "bad-op"
          | some r =>
            let reps := (report.splitOn ",").filterMap idxOfTok
            let isset := ",".intercalate (reps.map (fun j => s!"{j}:{if r.target.isSet r.fields j then "1" else "0"}"))
            let lenB := match bytesOfHex hB with | some b => b.length | none => 0
            let w := outBytes (writeTL1 d (fuelFor d (bsA.length + lenB + 64)) ty false [] (materialize d (fuelFor d (bsA.length + lenB + 64)) ty [] r.top))
            some s!"ok isset={if reps.isEmpty then "-" else isset} w1b={w}"
    | _, _, _, _ => some "bad-op"
  | "acc2", [sid, ty, _name, hA, hB, ops, report] =>
    -- accessor history on a TL2-origin struct: decode TL2, apply `s<i>:<Go>:<0|1|v>` / `c<i>:<Go>` steps, answer the IsSet
    -- reports after every step and the TL2 re-encoding
    match st.lookup sid, ty.toNat?, bytesOfHex hA with
    | some sc, some ty, some bsA =>
      let d := sc.desc
      let fuel := fuelFor d (bsA.length + hB.length + 64)
      match d.get? ty, readTop d fuel ty bsA with
      | some (.struct s), .ok (.struct vals, _) =>
        let donor : List (Option Val) :=
          match bytesOfHex hB with
          | some bsB => (match readTop d fuel ty bsB with | .ok (.struct dv, _) => dv | _ => [])
          | none => []
        let parse (t : String) : Option AccStep :=
          match t.toList with
          | 'c' :: r => (idxOfTok (String.ofList r)).map AccStep.clear
          | 's' :: r =>
            (match (String.ofList r).splitOn ":" with
             | [i, _, a] =>
               (match i.toNat? with
                | some i =>
                  if a == "0" then some (.setBool i false) else if a == "1" then some (.setBool i true)
                  else
                    match s.fields[i]? with
                    | some f => some (.setVal i (match donor[i]? with | some (some v) => v | _ => zeroVal d (d.insts.size + 1) f.ty))
                    | none => none
                | none => none)
             | _ => none)
          | _ => none
        let steps := (ops.splitOn ",").filterMap parse
        if steps.length != (ops.splitOn ",").length then some "bad-op" else
        let reps := (report.splitOn ",").filterMap idxOfTok
        let (o, hist) := runSteps s.fields reps (AObj.ofRead2 vals) steps
        let showRep (r : List (Nat × Bool)) : String := ",".intercalate (r.map (fun p => s!"{p.1}:{if p.2 then "1" else "0"}"))
        some s!"ok steps={";".intercalate (hist.map showRep)} w2={outW2 (writeTop d fuel ty (o.toVal2 d s.fields))}"
      | _, .error e => some (errStr e)
      | _, _ => some "bad-op"
    | _, _, _ => some "bad-op"
  | _, _ => none

end TLVerif.Codec
