import TLVerif.Util.Hex
import TLVerif.Codec.TL1
import TLVerif.Codec.TL1Wf
/-! Shared definitions of the `codec` line-protocol handlers. -/
namespace TLVerif.Codec
open TLVerif.Util TLVerif.Prim

structure Schema where
  cfg : Cfg
  desc : Desc
  /-- extra per-schema data registered by `codec.ext <sid> <key> <tokens…>` lines (e.g. the generator's per-field
  decisions used by the C18 model); looked up by key -/
  ext : List (String × List String) := []

abbrev DState := List (String × Schema)

def DState.init : DState := []

def errStr : CErr → String
  | .eof => "err eof"
  | .rej => "err rej"
  | .desc => "model-err desc"
  | .fuel => "model-err fuel"
  | .shape => "err shape"

def outBytes (r : Except CErr Bytes) : String :=
  match r with
  | .ok b => hexOfBytes b
  | .error .shape => "werr"
  | .error e => "!" ++ errStr e

/-- can this instance be written/read boxed on its own (has a tag or is a union)? -/
def hasBoxed (d : Desc) (ty : Nat) : Bool :=
  match d.get? ty with
  | some (.struct s) => s.tag != 0
  | some (.union _) => true
  | _ => false

def isUnion (d : Desc) (ty : Nat) : Bool :=
  match d.get? ty with
  | some (.union _) => true
  | _ => false

/-- A per-aspect handler: `none` = not my op. Handlers never change the state (only `desc` does). -/
abbrev OpHandler := DState → String → List String → Option String

end TLVerif.Codec
