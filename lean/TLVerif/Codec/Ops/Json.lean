import TLVerif.Codec.Ops.Common
/-! JSON ops — filled in by the JSON model. -/
namespace TLVerif.Codec

def handleJson : OpHandler := fun _ _ _ => none

end TLVerif.Codec
