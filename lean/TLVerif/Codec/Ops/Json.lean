import TLVerif.Codec.Ops.Common
import TLVerif.Codec.JsonText
/-!
JSON ops.
* `codec.xj <sid> <ty> <tlname> <boxed01> <tl1hex>`: read TL1, write JSON, read the JSON back, re-write JSON and TL1:
  `ok j=<tree dump> valid=1 rt=ok|rej|json|tl1|tl2` | `err eof|rej` (TL1 reader) | `werr` (JSON writer error).
* `codec.rj <sid> <ty> <tlname> <legacy01> <jsontext-hex>`: parse JSON text, `ReadJSONGeneral`, answer
  `ok w1b=<TL1 boxed> j=<tree dump of the re-written JSON>` | `err rej`.
-/
namespace TLVerif.Codec
open TLVerif.Util TLVerif.Prim

/-- Values produced by the JSON reader of a TL2-enabled type can have a TL1 mask bit set while the hidden TL2
presence bit is clear (`none` in `Val`); Go's TL1 writer then writes the zero value. Make that explicit. -/
def jfillTL1 (d : Desc) : Nat → Nat → List Nat → Val → Except CErr Val
  | 0, _, _, _ => .error .fuel
  | fuel + 1, ty, params, v =>
    match d.get? ty, v with
    | some (.struct s), .struct fs0 =>
      let fs := fs0.map (·.map unhide)
      let rec go : List Field → List (Option Val) → Except CErr (List (Option Val))
        | [], [] => .ok []
        | f :: r, x :: xs =>
          match go r xs with
          | .error e => .error e
          | .ok rest =>
            match fieldPresent f fs params, natArgVals fs params f.natArgs with
            | some true, some na =>
              (match x with
               | some y => (jfillTL1 d fuel f.ty na y).map (fun y' => some y' :: rest)
               | none =>
                 if f.isBit then .ok (some (.struct []) :: rest)
                 else match jzeroVal d fuel f.ty with
                   | .ok z => .ok (some z :: rest)
                   | .error e => .error e)
            | some false, some _ => .ok (x :: rest)
            | _, _ => .error .desc
        | _, _ => .error .shape
      (go s.fields fs).map Val.struct
    | some (.union u), .union i x =>
      match u.variants[i]?, natArgVals [] params u.elemNatArgs with
      | some (vi, _), some na => (jfillTL1 d fuel vi na x).map (Val.union i)
      | _, _ => .error .shape
    | some (.array a), .arr es =>
      match natArgVals [] params a.elem.natArgs with
      | some na => (es.mapM (jfillTL1 d fuel a.elem.ty na)).map Val.arr
      | none => .error .desc
    | some (.dict a), .arr es =>
      match natArgVals [] params a.elem.natArgs with
      | some na => (es.mapM (jfillTL1 d fuel a.elem.ty na)).map Val.arr
      | none => .error .desc
    | _, _ => .ok v

def jsonFuel (d : Desc) (n : Nat) : Nat := n + d.insts.size + 16

/-- TL2-origin types have no TL1 serializers (`item.HasTL1()` is false) -/
def originTL2 (d : Desc) (ty : Nat) : Bool :=
  match d.get? ty with
  | some (.struct s) => s.originTL2
  | some (.union u) => unionOriginTL2 d u
  | _ => false

def boxedOut (d : Desc) (fuel ty : Nat) (v : Val) : String :=
  if originTL2 d ty then "n/a" else
  if hasBoxed d ty then
    match jfillTL1 d fuel ty [] v with
    | .ok v' => outBytes (writeTL1 d fuel ty false [] v')
    | .error e => "!" ++ errStr e
  else "n/a"

def handleJson : OpHandler := fun st op args =>
  match op, args with
  | "xj", [sid, ty, _name, boxed, h] =>
    match st.lookup sid, ty.toNat?, bytesOfHex h with
    | some sc, some ty, some bs =>
      let d := sc.desc
      let fuel := jsonFuel d bs.length
      let bare := boxed != "1"
      match readTL1 sc.cfg d fuel ty bare [] bs with
      | .error e => some (errStr e)
      | .ok (v, _) =>
        match writeJson d fuel ty [] v with
        | .error .shape => some "werr"
        | .error e => some ("!" ++ errStr e)
        | .ok j =>
          let rt :=
            match readJson d false parseJson fuel ty [] (some j) with
            | .error .rej => "rej"
            | .error e => "!" ++ errStr e
            | .ok v2 =>
              match writeJson d fuel ty [] v2 with
              | .ok j2 =>
                if j2.dump != j.dump then "json"
                else if boxedOut d fuel ty v2 != boxedOut d fuel ty v then "tl1"
                else "ok"
              | .error _ => "json"
          some s!"ok j={j.dump} valid=1 rt={rt}"
    | _, _, _ => some "bad-op"
  | "rj", [sid, ty, _name, legacy, h] =>
    match st.lookup sid, ty.toNat?, bytesOfHex h with
    | some sc, some ty, some text =>
      let d := sc.desc
      let fuel := jsonFuel d text.length
      match parseJson text with
      | none => some "err rej"
      | some j =>
        match readJson d (legacy == "1") parseJson fuel ty [] (some j) with
        | .error .rej => some "err rej"
        | .error e => some ("!" ++ errStr e)
        | .ok v =>
          let jo := match writeJson d fuel ty [] v with
            | .ok j2 => j2.dump
            | .error .shape => "werr"
            | .error e => "!" ++ errStr e
          some s!"ok w1b={boxedOut d fuel ty v} j={jo}"
    | _, _, _ => some "bad-op"
  | _, _ => none

end TLVerif.Codec
