import TLVerif.Codec.Ops.Common
import TLVerif.Codec.RandomLemmas
/-! `codec.rnd <sid> <ty> <tlname> <seed>` (C18): FillRandom over the splitmix64 stream of the seed, then the boxed
TL1 form of the value. The generator's per-field decisions arrive in a `codec.ext <sid> gi <inst>.<field>:<flags>:<bits> …`
line (flags: 1 recursive, 2 used as mask, 4 used as size). -/
namespace TLVerif.Codec
open TLVerif.Util TLVerif.Prim

def parseGiTok (t : String) : Option (Nat × Nat × FieldX) :=
  match t.splitOn ":" with
  | [a, fl, bits] =>
    match a.splitOn ".", fl.toNat?, bits.toNat? with
    | [i, j], some fl, some bits =>
      match i.toNat?, j.toNat? with
      | some i, some j =>
        some (i, j, { recursive := fl % 2 == 1, usedAsMask := (fl / 2) % 2 == 1, usedAsSize := (fl / 4) % 2 == 1, usedBits := bits })
      | _, _ => none
    | _, _, _ => none
  | _ => none

def giOfList (l : List (Nat × Nat × FieldX)) : GenInfo := fun i j =>
  match l.find? (fun e => e.1 == i && e.2.1 == j) with
  | some e => e.2.2
  | none => {}

def Schema.genInfoList (sc : Schema) : List (Nat × Nat × FieldX) :=
  match sc.ext.lookup "gi" with
  | some toks => toks.filterMap parseGiTok
  | none => []

def Schema.genInfo (sc : Schema) : GenInfo := giOfList sc.genInfoList

def hasTL2Code (d : Desc) (ty : Nat) : Bool :=
  match d.get? ty with
  | some (.struct s) => s.hasTL2
  | some (.union u) => u.hasTL2
  | _ => false

/-- `FillRandomResultTL1` of a function object whose fields are `v`: fill the result type with the nat arguments taken
from the fields, write it (boxed unless the result reference is bare) -/
def fillResult (d : Desc) (gi : GenInfo) (fuel ty : Nat) (v : Val) (rg : RG) : String × RG :=
  match d.get? ty, v with
  | some (.struct s), .struct vals =>
    if !s.isFunction then ("n/a", rg) else
    match natArgVals vals [] s.resultNatArgs with
    | none => ("model-err desc", rg)
    | some na =>
      match fillTL1 d gi fuel s.resultTy na rg with
      | .error .fuel => ("diverge", rg)
      | .error e => ("model-" ++ errStr e, rg)
      | .ok (rv, rg') => (outBytes (writeTL1 d (fuel + 1) s.resultTy s.resultBare na rv), rg')
  | _, _ => ("n/a", rg)

/-- the harness stops a run that draws more than this many words (`randBudget` in go/hgen/rand.go.tmpl) -/
def randBudget : Nat := 200000

structure PrimSt where
  rg : RG
  h : Nat := 0
  maxSize : Nat := 0

def PrimSt.mix (st : PrimSt) (v : Nat) (rg : RG) : PrimSt := { st with h := (st.h * 31 + v) % 18446744073709551616, rg := rg }

/-- one step of the `codec.rgp` schedule (go/hgen/rand.go.tmpl rgPrimitives) -/
def primStep (st : PrimSt) (i : Nat) : PrimSt :=
  let rg := st.rg
  match i % 12 with
  | 0 => st.mix (randomUint rg).1 (randomUint rg).2
  | 1 =>
    let r := randomSize rg
    { (st.mix r.1 r.2) with maxSize := max st.maxSize r.1 }
  | 2 => let r := randomFieldMask rg ((i * 2654435761) % 4294967296); st.mix r.1 r.2
  | 3 => st.mix rg.int31.1 rg.int31.2
  | 4 => st.mix rg.int63.1 rg.int63.2
  | 5 => st.mix rg.int63.1 rg.int63.2
  | 6 => st.mix (f32OfEighths rg.normK.1) rg.normK.2
  | 7 => st.mix (f64OfEighths rg.normK.1) rg.normK.2
  | 8 => st.mix (rg.uint32.1 % 256) rg.uint32.2
  | 9 =>
    let r := randomString rg
    r.1.foldl (fun s b => s.mix b.toNat s.rg) (st.mix r.1.length r.2)
  | 10 => { st with rg := rg.inc }
  | _ => if (i / 12) % 2 == 0 then { st with rg := rg.dec } else st

def primRun (src : Nat → Nat) (count : Nat) : PrimSt :=
  (List.range count).foldl primStep { rg := newRG src }

def handleRand : OpHandler := fun st op args =>
  match op, args with
  | "rnd", [sid, ty, _name, seed] =>
    match st.lookup sid, ty.toNat?, seed.toNat? with
    | some sc, some ty, some seed =>
      let d := sc.desc
      let fuel := fillFuel d
      match fillRandom d sc.genInfo fuel ty (splitmix seed) with
      | .error .fuel => some "diverge"
      | .error e => some ("model-" ++ errStr e)
      | .ok (v, rg) =>
        -- a function: `FillRandomResultTL1` continues with the same generator
        let (res, rg) := fillResult d sc.genInfo fuel ty v rg
        if res == "diverge" then some "diverge" else
        if rg.pos > randBudget then some s!"big n={rg.pos}" else
        let w := outBytes (writeTL1 d (fuel + 1) ty false [] v)
        let w2 := if hasTL2Code d ty then "ok" else "n/a"
        some s!"ok n={rg.pos} w1b={w} res={res} d={rg.cur} w2={w2} wj=ok again=same dirty=same"
    | _, _, _ => some "bad-op"
  | "rgp", [_sid, seed, count] =>
    match seed.toNat?, count.toNat? with
    | some seed, some count =>
      if count > randBudget / 2 then some "bad-op" else
      let st := primRun (splitmix seed) count
      some s!"ok n={st.rg.pos} h={st.h} maxsize={st.maxSize}"
    | _, _ => some "bad-op"
  | "rcert", [sid, ty] =>
    -- T3: decidable hypotheses of the C18 theorems on the instances reachable from `ty`
    match st.lookup sid, ty.toNat? with
    | some sc, some ty =>
      let d := sc.desc
      let gi := sc.genInfo
      let S := d.reach ty
      let rk := d.computeFillRanks gi
      let b (x : Bool) : String := if x then "1" else "0"
      some s!"ok closed={b (d.closed S)} bounded={b (d.allOnI S (fun i _ => decide (rkAt rk i ≤ d.insts.size)))} ranked={b (d.allOnI S (Inst.fillRanked gi rk))} satok={b (d.allOnI S (Inst.satOk d gi))} guard={b (d.fillGuard gi rk S)} fillok={b (d.allOnI S (Inst.fillOk d gi))} productive={b (d.productive d.computeRanks)}"
    | _, _ => some "bad-op"
  | _, _ => none

end TLVerif.Codec
