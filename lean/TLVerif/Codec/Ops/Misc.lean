import TLVerif.Codec.Ops.Common
import TLVerif.Codec.Zero
import TLVerif.Codec.Registry
import TLVerif.Codec.Reuse
/-! registry / reuse / reset / zero-value ops. `codec.seq` / `codec.reset` thread ONE memory object (`Reuse.Mem`: storage of
masked-out fields, stale union variants, stale slice tails, dirty state after an error) through the whole history with
`Reuse.readInto` / `Reuse.resetMem` and print what the encoders see of it (`Reuse.abs`).  That this equals the list of
independent decodes is the theorem `Props.C09.history_independent`, not the construction of the driver. -/
namespace TLVerif.Codec
open TLVerif.Util TLVerif.Prim

def w1both (d : Desc) (fuel ty : Nat) (v : Val) : String :=
  let w1 := if isUnion d ty then "n/a" else outBytes (writeTL1 d fuel ty true [] v)
  let w1b := if hasBoxed d ty then outBytes (writeTL1 d fuel ty false [] v) else "n/a"
  s!"w1={w1} w1b={w1b}"

/-- one decode into the object `old`: the object left behind (also after an error) and the printed observation -/
def decodeStepM (sc : Schema) (ty : Nat) (bare : Bool) (old : Reuse.Mem) (h : String) : Reuse.Mem × String :=
  match bytesOfHex h with
  | none => (old, "bad-op")
  | some bs =>
    let fuel := fuelFor sc.desc bs.length
    match Reuse.readInto sc.cfg sc.desc fuel ty bare [] old bs with
    | (m, .error e) => (m, errStr e)
    | (m, .ok rest) => (m, s!"ok {bs.length - rest.length} {w1both sc.desc fuel ty (Reuse.abs m)}")

def seqM (sc : Schema) (ty : Nat) (bare : Bool) : Reuse.Mem → List String → List String
  | _, [] => []
  | old, h :: hs =>
    let r := decodeStepM sc ty bare old h
    r.2 :: seqM sc ty bare r.1 hs

def insertSorted (x : String) : List String → List String
  | [] => [x]
  | y :: ys => if x < y then x :: y :: ys else y :: insertSorted x ys

def sortStrings (l : List String) : List String := l.foldr insertSorted []

def boolStr (b : Bool) : String := if b then "true" else "false"

def itemStr (it : RegItem) : String :=
  s!"{it.name}:{it.tag}:{boolStr it.isFunction}:{boolStr it.hasTL1}:{boolStr it.hasTL2}:{it.ann % 64}"

/-- name and tag a freshly created object reports: a union reports its first variant -/
def objNameTag (d : Desc) (it : RegItem) : String :=
  match d.get? it.idx with
  | some (.union u) =>
    match u.variants with
    | (vi, _) :: _ =>
      match d.get? vi, d.names.find? (·.idx == vi) with
      | some (.struct s), some n => s!"{n.tlname}:{s.tag}"
      | _, _ => "?"
    | [] => "?"
  | _ => s!"{it.name}:{it.tag}"

def firstWord (d : Desc) (it : RegItem) : String :=
  match Z.zeroVal d (fuelFor d 64) it.idx with
  | none => "?"
  | some z =>
    match writeTL1 d (fuelFor d 64) it.idx false [] z with
    | .ok (a :: b :: c :: e :: _) => toString (a.toNat + b.toNat * 256 + c.toNat * 65536 + e.toNat * 16777216)
    | _ => "werr"

def handleMisc : OpHandler := fun st op args =>
  match op, args with
  | "items", [sid] =>
    match st.lookup sid with
    | some sc =>
      let r := registry sc.desc
      if registryOK r then some ("ok " ++ " ".intercalate (sortStrings (r.map itemStr)))
      else some "registry-not-ok"
    | none => some "bad-op"
  | "reg", [sid, name] =>
    match st.lookup sid with
    | some sc =>
      let r := registry sc.desc
      match byName r name with
      | none => some "absent"
      | some it =>
        let bt := if it.tag == 0 then "-" else match byTag r it.tag with | some x => x.name | none => "absent"
        some s!"ok item={itemStr it} obj={objNameTag sc.desc it} bytag={bt} first={firstWord sc.desc it}"
    | none => some "bad-op"
  | "seq", sid :: ty :: _name :: boxed :: hs =>
    match st.lookup sid, ty.toNat? with
    | some sc, some ty =>
      some (" | ".intercalate (seqM sc ty (boxed != "1") (Reuse.freshMem sc.desc (fuelFor sc.desc 64) ty) hs))
    | _, _ => some "bad-op"
  | "reset", [sid, ty, _name, boxed, h] =>
    match st.lookup sid, ty.toNat? with
    | some sc, some ty =>
      let fuel := fuelFor sc.desc 64
      match Z.zeroVal sc.desc fuel ty with
      | none => some "model-err zero"
      | some _ =>
        -- create, decode (errors ignored: the object stays dirty), Reset(), write
        let m0 := Reuse.freshMem sc.desc fuel ty
        let m1 := (decodeStepM sc ty (boxed != "1") m0 h).1
        some ("ok " ++ w1both sc.desc fuel ty (Reuse.abs (Reuse.resetMem sc.desc fuel ty m1)))
    | _, _ => some "bad-op"
  | "z1", [sid, ty, _name] =>
    match st.lookup sid, ty.toNat? with
    | some sc, some ty =>
      let fuel := fuelFor sc.desc 64
      match Z.zeroVal sc.desc fuel ty with
      | none => some "model-err zero"
      | some z => some ("ok " ++ w1both sc.desc fuel ty z)
    | _, _ => some "bad-op"
  | _, _ => none

end TLVerif.Codec
