import TLVerif.Codec.Ops.Common
/-! registry / random / accessor / result ops. -/
namespace TLVerif.Codec

def handleMisc : OpHandler := fun _ _ _ => none

end TLVerif.Codec
