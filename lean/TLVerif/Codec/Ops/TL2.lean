import TLVerif.Codec.Ops.Common
import TLVerif.Codec.TL2
/-! TL2 ops.
* `codec.x2 <sid> <ty> <tlname> <boxed01> <tl1hex>`: read TL1, answer `ok w2=<TL2 bytes> w1b=<TL1 boxed>`
* `codec.r2 <sid> <ty> <tlname> <tl2hex>`: read TL2, answer `ok <consumed> w2=<re-written TL2> w1b=<TL1 boxed of the result | n/a>`
* `codec.g4 <sid> <ty> <tlname> <boxed01> <tl1hex>`: model only, evaluates `noNegZero` (former guard of C04; annotates failures)
Types generated without TL2 answer `n/a`. -/
namespace TLVerif.Codec
open TLVerif.Util TLVerif.Prim

def tyHasTL2 (d : Desc) (ty : Nat) : Bool :=
  match d.get? ty with
  | some (.struct s) => s.hasTL2
  | some (.union u) => u.hasTL2
  | _ => false

def tyOriginTL2 (d : Desc) (ty : Nat) : Bool :=
  match d.get? ty with
  | some (.struct s) => s.originTL2
  | some (.union u) =>
    match u.variants with
    | (vi, _) :: _ => (match d.get? vi with | some (.struct s) => s.originTL2 | _ => false)
    | [] => false
  | _ => false

/-- constructor of an enum: the generated factory serves all of them by one generic object (`metainternal.TLItemImpl`)
whose `WriteTL2` writes nothing and whose `ReadTL2` consumes nothing -/
def isEnumElement (d : Desc) (ty : Nat) : Bool :=
  d.insts.any (fun i => match i with
    | .union u => u.isEnum && u.variants.any (fun v => v.1 == ty)
    | _ => false)

def writeTop (d : Desc) (fuel ty : Nat) (v : Val) : W2Out :=
  if isEnumElement d ty then .ok [] else writeTL2Checked d fuel ty v

def readTop (d : Desc) (fuel ty : Nat) (bs : Bytes) : RRes :=
  if isEnumElement d ty then .ok (.struct [], bs) else readTL2 d fuel ty false bs

def outW2 (r : W2Out) : String :=
  match r with
  | .ok b => hexOfBytes b
  | .panic => "panic"
  | .err .shape => "werr"
  | .err e => "!" ++ errStr e

def handleTL2 : OpHandler := fun st op args =>
  match op, args with
  | "x2", [sid, ty, _name, boxed, h] =>
    match st.lookup sid, ty.toNat?, bytesOfHex h with
    | some sc, some ty, some bs =>
      let d := sc.desc
      if !tyHasTL2 d ty then some "n/a" else
      let fuel := fuelFor d bs.length
      match readTL1 sc.cfg d fuel ty (boxed != "1") [] bs with
      | .error e => some (errStr e)
      | .ok (v, _) =>
        let w1b := if hasBoxed d ty then outBytes (writeTL1 d fuel ty false [] v) else "n/a"
        some s!"ok w2={outW2 (writeTop d fuel ty v)} w1b={w1b}"
    | _, _, _ => some "bad-op"
  | "r2", [sid, ty, _name, h] =>
    match st.lookup sid, ty.toNat?, bytesOfHex h with
    | some sc, some ty, some bs =>
      let d := sc.desc
      if !tyHasTL2 d ty then some "n/a" else
      let fuel := fuelFor d bs.length
      match readTop d fuel ty bs with
      | .error e => some (errStr e)
      | .ok (v, rest) =>
        let w1b := if tyOriginTL2 d ty || !hasBoxed d ty then "n/a" else outBytes (writeTL1Z d fuel ty false [] v)
        some s!"ok {bs.length - rest.length} w2={outW2 (writeTop d fuel ty v)} w1b={w1b}"
    | _, _, _ => some "bad-op"
  | "g4", [sid, ty, _name, boxed, h] =>
    -- former guard of C04 (model only): does the value decoded from these TL1 bytes avoid `-0.0` in "empty-test" positions?
    match st.lookup sid, ty.toNat?, bytesOfHex h with
    | some sc, some ty, some bs =>
      let d := sc.desc
      let fuel := fuelFor d bs.length
      match readTL1 sc.cfg d fuel ty (boxed != "1") [] bs with
      | .error e => some (errStr e)
      | .ok (v, _) => some (if noNegZero d fuel ty false v then "guard 1" else "guard 0")
    | _, _, _ => some "bad-op"
  | _, _ => none

end TLVerif.Codec
