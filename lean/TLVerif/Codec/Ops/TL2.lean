import TLVerif.Codec.Ops.Common
/-! TL2 ops (`codec.x2`, `codec.c12` …) — filled in by the TL2 model. -/
namespace TLVerif.Codec

def handleTL2 : OpHandler := fun _ _ _ => none

end TLVerif.Codec
