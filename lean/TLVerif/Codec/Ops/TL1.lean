import TLVerif.Codec.Ops.Common
import TLVerif.Codec.BytesVariant
/-! `codec.x1`: read TL1 (bare/boxed), re-write bare and boxed.
`codec.x1m <map|slice|strict> …`: the same through `readTL1M` (C10: `slice` = the `[]byte` variant's dictionaries). -/
namespace TLVerif.Codec
open TLVerif.Util TLVerif.Prim

def wantsBytes (d : Desc) (filters : List String) (root : Nat) : Bool :=
  d.names.any fun n =>
    filters.any (fun f => if f.endsWith "." then n.tlname.startsWith f else n.tlname == f) &&
    (d.reachList n.idx).contains root

def handleTL1 : OpHandler := fun st op args =>
  match op, args with
  | "x1", [sid, ty, _name, boxed, h] =>
    match st.lookup sid, ty.toNat?, bytesOfHex h with
    | some sc, some ty, some bs =>
      let d := sc.desc
      let fuel := fuelFor d bs.length
      let bare := boxed != "1"
      match readTL1 sc.cfg d fuel ty bare [] bs with
      | .error e => some (errStr e)
      | .ok (v, rest) =>
        let w1 := if isUnion d ty then "n/a" else outBytes (writeTL1 d fuel ty true [] v)
        let w1b := if hasBoxed d ty then outBytes (writeTL1 d fuel ty false [] v) else "n/a"
        some s!"ok {bs.length - rest.length} w1={w1} w1b={w1b}"
    | _, _, _ => some "bad-op"
  | "x1m", [mode, sid, ty, _name, boxed, h] =>
    match st.lookup sid, ty.toNat?, bytesOfHex h with
    | some sc, some ty, some bs =>
      -- `slice=<filter,filter>`: the `--generateByteVersions` white list; `CreateObjectBytes()` of a root that no
      -- white-listed type reaches (`MarkWantsBytesVersion`, gengo_compile.go prepareGeneration) is the string variant
      let d := sc.desc
      let m? : Option (DictMode × Bool) :=
        if mode == "map" then some (.map, false) else if mode == "strict" then some (.strict, true)
        else if mode.startsWith "slice=" then
          let filters := (mode.drop 6).toString.splitOn ","
          some (.slice, wantsBytes d filters ty)
        else none
      match m? with
      | none => some "bad-op"
      | some (m, wants) =>
        let fuel := fuelFor d bs.length
        let bare := boxed != "1"
        match readTL1M m (fun t => wants && d.hasBytesVersion t) sc.cfg d fuel ty bare [] bs with
        | .error e => some (errStr e)
        | .ok (v, rest) =>
          let w1 := if isUnion d ty then "n/a" else outBytes (writeTL1 d fuel ty true [] v)
          let w1b := if hasBoxed d ty then outBytes (writeTL1 d fuel ty false [] v) else "n/a"
          some s!"ok {bs.length - rest.length} w1={w1} w1b={w1b}"
    | _, _, _ => some "bad-op"
  | "cert", [sid, ty] =>
    -- T3: decidable hypotheses of the TL1 theorems, evaluated on the descriptor the kernel exported, on the
    -- reference-closed set of instances reachable from `ty`
    match st.lookup sid, ty.toNat? with
    | some sc, some ty =>
      let d := sc.desc
      let S := d.reach ty
      let b (x : Bool) : String := if x then "1" else "0"
      some s!"ok closed={b (d.closed S)} wf={b d.wf} productive={b (d.productive d.computeRanks)} rt={b (d.allOn S (Inst.rtOk d))} min4={b (d.allOn S (Inst.elemMin4 d))} nodict={b (d.allOn S (fun i => !i.isDict))} nobit={b (d.allOn S (fun i => !i.isBitPrim))}"
    | _, _ => some "bad-op"
  | _, _ => none

end TLVerif.Codec
