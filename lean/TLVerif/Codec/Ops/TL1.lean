import TLVerif.Codec.Ops.Common
/-! `codec.x1`: read TL1 (bare/boxed), re-write bare and boxed. -/
namespace TLVerif.Codec
open TLVerif.Util TLVerif.Prim

def handleTL1 : OpHandler := fun st op args =>
  match op, args with
  | "x1", [sid, ty, _name, boxed, h] =>
    match st.lookup sid, ty.toNat?, bytesOfHex h with
    | some sc, some ty, some bs =>
      let d := sc.desc
      let fuel := fuelFor d bs.length
      let bare := boxed != "1"
      match readTL1 sc.cfg d fuel ty bare [] bs with
      | .error e => some (errStr e)
      | .ok (v, rest) =>
        let w1 := if isUnion d ty then "n/a" else outBytes (writeTL1 d fuel ty true [] v)
        let w1b := if hasBoxed d ty then outBytes (writeTL1 d fuel ty false [] v) else "n/a"
        some s!"ok {bs.length - rest.length} w1={w1} w1b={w1b}"
    | _, _, _ => some "bad-op"
  | "cert", [sid, ty] =>
    -- T3: decidable hypotheses of the TL1 theorems, evaluated on the descriptor the kernel exported, on the
    -- reference-closed set of instances reachable from `ty`
    match st.lookup sid, ty.toNat? with
    | some sc, some ty =>
      let d := sc.desc
      let S := d.reach ty
      let b (x : Bool) : String := if x then "1" else "0"
      some s!"ok closed={b (d.closed S)} wf={b d.wf} productive={b (d.productive d.computeRanks)} rt={b (d.allOn S (Inst.rtOk d))} min4={b (d.allOn S (Inst.elemMin4 d))} nodict={b (d.allOn S (fun i => !i.isDict))} nobit={b (d.allOn S (fun i => !i.isBitPrim))}"
    | _, _ => some "bad-op"
  | _, _ => none

end TLVerif.Codec
