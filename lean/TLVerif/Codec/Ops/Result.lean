import TLVerif.Codec.Ops.Common
import TLVerif.Codec.Result
/-!
Function-result ops (C07).
* `codec.xr <sid> <fnIdx> <fnName> <reqTL1boxed-hex | -> <src> <dst> <payload-hex>` (formats `tl1` `tl2` `json`; the JSON
  payload is the text): the request is decoded boxed (`-`: all `#` fields 0), then `transcode`.
  Answer `ok out=<hex | JSON tree dump> consumed=<n>` | `err eof` | `err rej` | `err req`.
* `codec.gr <sid> <fnIdx> <fnName> <req> <result-TL1-hex>` (model only): the guard of `result_tl1_tl2_tl1_partial` that can
  fail on decoded values (`g2` = no float `-0.0` in an empty-test position of the TL2 writer, the result itself being such
  a position) and the counterfactual repairs of the value, re-encoded in TL1: `id` = the value itself, `z` = every `-0.0` replaced by `+0.0`,
  `n` = every NaN replaced by the canonical one, `zn` = both.
The schema's `codec.ext <sid> ralias <fnIdx…>` line lists the functions whose result is a TL2 alias (`IsResultAlias`).
-/
namespace TLVerif.Codec
open TLVerif.Util TLVerif.Prim

def parseFmt : String → Option Fmt
  | "tl1" => some .tl1
  | "tl2" => some .tl2
  | "json" => some .json
  | _ => none

def fnOf (sc : Schema) (fi : Nat) : Option FnD :=
  match sc.desc.get? fi with
  | some (.struct s) =>
    if s.isFunction then
      some { s, resultAlias := match sc.ext.lookup "ralias" with | some l => l.contains (toString fi) | none => false }
    else none
  | _ => none

/-- the request object: decoded from boxed TL1 bytes, or (`-`) the fresh object -/
def reqVal (sc : Schema) (fi : Nat) (f : FnD) (req : String) : Option Val :=
  if req == "-" then some (.struct (f.s.fields.map (fun _ => none)))
  else
    match bytesOfHex req with
    | none => none
    | some bs =>
      match readTL1 sc.cfg sc.desc (fuelFor sc.desc bs.length) fi false [] bs with
      | .ok (v, _) => some v
      | .error _ => none

def resErr : CErr → String
  | .eof => "err eof"
  | .rej => "err rej"
  | .shape => "err rej"       -- a writer error surfaces as the transcoder's error
  | .desc => "model-err desc"
  | .fuel => "model-err fuel"

def payloadStr : Payload → String
  | .bytes b => hexOfBytes b
  | .json j => j.dump

def handleResult : OpHandler := fun st op args =>
  match op, args with
  | "xr", [sid, fi, _name, req, src, dst, h] =>
    match st.lookup sid, fi.toNat?, parseFmt src, parseFmt dst, bytesOfHex h with
    | some sc, some fi, some src, some dst, some data =>
      if src == dst then some "bad-op" else
      match fnOf sc fi with
      | none => some "bad-op"
      | some f =>
        match reqVal sc fi f req with
        | none => some "err req"
        | some rv =>
          let d := sc.desc
          let fuel := fuelFor d data.length + 16
          let p : Option Payload := if src == .json then (parseJson data).map Payload.json else some (.bytes data)
          match p with
          | none => some "err rej"
          | some p =>
            match transcode sc.cfg d fuel f rv src dst p with
            | .error .shape =>
              -- finding F1 of C05 (non-UTF-8 dictionary key): the Go writer does not fail, it emits text that is not JSON
              if dst == .json then
                match resultArgs f rv with
                | some na =>
                  match decodeResult sc.cfg d fuel f na src p with
                  | .ok (v, rest) =>
                    if jsonInvalidByKey d fuel f na v then some s!"ok out=!invalid consumed={if src == .json then 0 else data.length - rest.length}"
                    else some "err rej"
                  | .error _ => some "err rej"
                | none => some "err rej"
              else some "err rej"
            | .error e => some (resErr e)
            | .ok (q, rest) =>
              let consumed := if src == .json then 0 else data.length - rest.length
              some s!"ok out={payloadStr q} consumed={consumed}"
    | _, _, _, _, _ => some "bad-op"
  | "gr", [sid, fi, _name, req, h] =>
    match st.lookup sid, fi.toNat?, bytesOfHex h with
    | some sc, some fi, some data =>
      match fnOf sc fi with
      | none => some "bad-op"
      | some f =>
        match reqVal sc fi f req with
        | none => some "err req"
        | some rv =>
          let d := sc.desc
          let fuel := fuelFor d data.length + 16
          match resultArgs f rv with
          | none => some "model-err desc"
          | some na =>
            match readTL1 sc.cfg d fuel f.s.resultTy false na data with
            | .error e => some (resErr e)
            | .ok (v, _) =>
              let w (z n : Bool) : String :=
                outBytes (writeTL1 d fuel f.s.resultTy false na (mapPrims d (fixFloat z n) (fun k => k) fuel f.s.resultTy v))
              let g2 := if noNegZero d fuel f.s.resultTy true v then "1" else "0"
              some s!"guard g2={g2} id={w false false} z={w true false} n={w false true} zn={w true true}"
    | _, _, _ => some "bad-op"
  | _, _ => none

end TLVerif.Codec
