import TLVerif.Codec.Ops.TL2
import TLVerif.Codec.Ops.Json
import TLVerif.Codec.Zero
import TLVerif.Codec.Reuse
/-! `codec.seqx`: mixed-encoding decode histories into one object.  ONE memory object (`Reuse.Mem`) is threaded through
the history: TL1 steps read INTO it (`Reuse.readInto`: in-place reads, else-branch resets, stale variants / slice tails,
dirty state after an error), `r:-` is `Reuse.resetMem`; both are printed through `Reuse.abs`.  TL2 and JSON steps are
tie-only: the model has no reuse model of those readers, a successful step stores its freshly decoded value
(`Mem.ofVal`, no stale storage), a failed one leaves the object as it was. -/
namespace TLVerif.Codec
open TLVerif.Util TLVerif.Prim

def stateStr (d : Desc) (fuel ty : Nat) (w1b : String) (v : Val) (withTL2 : Bool) : String :=
  let w2 := if withTL2 && tyHasTL2 d ty then outW2 (writeTop d fuel ty v) else "n/a"
  s!"ok w1b={w1b} w2={w2}"

def stepX (sc : Schema) (ty : Nat) (old : Reuse.Mem) (st : String) : Reuse.Mem × String :=
  let d := sc.desc
  match st.splitOn ":" with
  | [k, h] =>
    match bytesOfHex h with
    | none => (old, "bad-op")
    | some bs =>
      let fuel := fuelFor d bs.length
      if k == "1" then
        if originTL2 d ty then (old, errStr .rej) else
        match Reuse.readInto sc.cfg d fuel ty false [] old bs with
        | (m, .error e) => (m, errStr e)
        | (m, .ok _) =>
          let v := Reuse.abs m
          (m, stateStr d fuel ty (if hasBoxed d ty then outBytes (writeTL1 d fuel ty false [] v) else "n/a") v true)
      else if k == "2" then
        if !tyHasTL2 d ty then (old, "n/a") else
        match readTop d fuel ty bs with
        | .error e => (old, errStr e)
        | .ok (v, _) =>
          let w1b := if tyOriginTL2 d ty || !hasBoxed d ty then "n/a" else outBytes (writeTL1Z d fuel ty false [] v)
          (Reuse.Mem.ofVal v, stateStr d fuel ty w1b v true)
      else if k == "j" then
        match parseJson bs with
        | none => (old, "err rej")
        | some j =>
          match readJson d false parseJson (jsonFuel d bs.length) ty [] (some j) with
          | .error .rej => (old, "err rej")
          | .error e => (old, "!" ++ errStr e)
          | .ok v => (Reuse.Mem.ofVal v, s!"ok w1b={boxedOut d (jsonFuel d bs.length) ty v} w2=n/a")
      else if k == "r" then
        match Z.zeroVal d (fuelFor d 64) ty with
        | none => (old, "model-err zero")
        | some _ =>
          let m := Reuse.resetMem d (fuelFor d 64) ty old
          -- TL1 sees a constant-mask field as present (zero value written); the hidden TL2 presence bits of a Reset object are all clear
          let w1b := if originTL2 d ty || !hasBoxed d ty then "n/a" else outBytes (writeTL1 d (fuelFor d 64) ty false [] (Reuse.abs m))
          let w2 := if tyHasTL2 d ty then
              outW2 (writeTop d (fuelFor d 64) ty (zeroVal d (fuelFor d 64) ty))
            else "n/a"
          (m, s!"ok w1b={w1b} w2={w2}")
      else (old, "bad-op")
  | _ => (old, "bad-op")

def seqX (sc : Schema) (ty : Nat) : Reuse.Mem → List String → List String
  | _, [] => []
  | old, st :: rest =>
    let r := stepX sc ty old st
    r.2 :: seqX sc ty r.1 rest

def handleReuse : OpHandler := fun st op args =>
  match op, args with
  | "seqx", sid :: ty :: _name :: steps =>
    match st.lookup sid, ty.toNat? with
    | some sc, some ty =>
      some (" | ".intercalate (seqX sc ty (Reuse.freshMem sc.desc (fuelFor sc.desc 64) ty) steps))
    | _, _ => some "bad-op"
  | _, _ => none

end TLVerif.Codec
