import TLVerif.Codec.Ops.TL2
import TLVerif.Codec.Ops.Json
import TLVerif.Codec.Zero
/-! `codec.seqx`: mixed-encoding decode histories into one object. The model has no object to reuse: every step is
the fresh decode of its own input (that is the statement of C09), `r:-` is the zero value. -/
namespace TLVerif.Codec
open TLVerif.Util TLVerif.Prim

def stateStr (d : Desc) (fuel ty : Nat) (w1b : String) (v : Val) (withTL2 : Bool) : String :=
  let w2 := if withTL2 && tyHasTL2 d ty then outW2 (writeTop d fuel ty v) else "n/a"
  s!"ok w1b={w1b} w2={w2}"

def stepX (sc : Schema) (ty : Nat) (st : String) : String :=
  let d := sc.desc
  match st.splitOn ":" with
  | [k, h] =>
    match bytesOfHex h with
    | none => "bad-op"
    | some bs =>
      let fuel := fuelFor d bs.length
      if k == "1" then
        if originTL2 d ty then errStr .rej else
        match readTL1 sc.cfg d fuel ty false [] bs with
        | .error e => errStr e
        | .ok (v, _) => stateStr d fuel ty (if hasBoxed d ty then outBytes (writeTL1 d fuel ty false [] v) else "n/a") v true
      else if k == "2" then
        if !tyHasTL2 d ty then "n/a" else
        match readTop d fuel ty bs with
        | .error e => errStr e
        | .ok (v, _) =>
          let w1b := if tyOriginTL2 d ty || !hasBoxed d ty then "n/a" else outBytes (writeTL1Z d fuel ty false [] v)
          stateStr d fuel ty w1b v true
      else if k == "j" then
        match parseJson bs with
        | none => "err rej"
        | some j =>
          match readJson d false parseJson (jsonFuel d bs.length) ty [] (some j) with
          | .error .rej => "err rej"
          | .error e => "!" ++ errStr e
          | .ok v => s!"ok w1b={boxedOut d (jsonFuel d bs.length) ty v} w2=n/a"
      else if k == "r" then
        match Z.zeroVal d (fuelFor d 64) ty with
        | none => "model-err zero"
        | some z =>
          -- TL1 sees a constant-mask field as present (zero value written); the hidden TL2 presence bits of a Reset object are all clear
          let w1b := if originTL2 d ty || !hasBoxed d ty then "n/a" else outBytes (writeTL1 d (fuelFor d 64) ty false [] z)
          let w2 := if tyHasTL2 d ty then
              outW2 (writeTop d (fuelFor d 64) ty (zeroVal d (fuelFor d 64) ty))
            else "n/a"
          s!"ok w1b={w1b} w2={w2}"
      else "bad-op"
  | _ => "bad-op"

def handleReuse : OpHandler := fun st op args =>
  match op, args with
  | "seqx", sid :: ty :: _name :: steps =>
    match st.lookup sid, ty.toNat? with
    | some sc, some ty => some (" | ".intercalate (steps.map (stepX sc ty)))
    | _, _ => some "bad-op"
  | _, _ => none

end TLVerif.Codec
