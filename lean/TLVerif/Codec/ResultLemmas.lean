import TLVerif.Codec.Result
import TLVerif.Codec.TL2RoundTrip
/-!
Helper lemmas of C07 (function results):
* `writeTL1Z_of_writeTL1` — the zero-filling TL1 writer used for values decoded from TL2 agrees with the plain TL1 writer
  wherever the latter succeeds;
* `resultTL2_roundtrip` — the anonymous one-field object `WriteResultTL2` wraps the result in is undone by `ReadResultTL2`.
-/
namespace TLVerif.Codec
open TLVerif.Prim

/-- what the TL1 writer accepts, the zero-filling TL1 writer writes identically (field loop) -/
theorem writeFieldsZ_of_writeFields {wr wr' : Wr} (z : Nat → Val) (params : List Nat) (all : List (Option Val))
    (H : ∀ ty bare na x b, wr ty bare na x = .ok b → wr' ty bare na x = .ok b) :
    ∀ (fs : List Field) (vs : List (Option Val)) (b : Bytes),
      writeFieldsWith wr params all fs vs = .ok b → writeFieldsZWith wr' z params all fs vs = .ok b := by
  intro fs
  induction fs with
  | nil =>
    intro vs b h
    cases vs with
    | nil => simpa [writeFieldsWith, writeFieldsZWith] using h
    | cons v vs => simp [writeFieldsWith] at h
  | cons f fs ih =>
    intro vs b h
    cases vs with
    | nil => simp [writeFieldsWith] at h
    | cons v vs =>
      simp only [writeFieldsWith] at h
      simp only [writeFieldsZWith]
      split at h
      · rename_i na hp hn
        simp only [hp, hn]
        cases v with
        | none => simp at h
        | some x =>
          simp only at h
          cases hw : wr f.ty f.bare na x with
          | error e => rw [hw] at h; simp at h
          | ok b1 =>
            rw [hw] at h
            simp only at h
            cases hr : writeFieldsWith wr params all fs vs with
            | error e => rw [hr] at h; simp at h
            | ok b2 =>
              rw [hr] at h
              simp only [Option.getD_some, H _ _ _ _ _ hw, ih _ _ hr]
              exact h
      · rename_i na hp hn
        simp only [hp, hn]
        exact ih _ _ h
      · simp at h

theorem writeElems_mono {wr wr' : Wr} (f : Field) (na : List Nat)
    (H : ∀ ty bare na x b, wr ty bare na x = .ok b → wr' ty bare na x = .ok b) :
    ∀ (es : List Val) (b : Bytes), writeElemsWith wr f na es = .ok b → writeElemsWith wr' f na es = .ok b := by
  intro es
  induction es with
  | nil => intro b h; simpa [writeElemsWith] using h
  | cons v vs ih =>
    intro b h
    simp only [writeElemsWith] at h ⊢
    cases hw : wr f.ty f.bare na v with
    | error e => rw [hw] at h; simp at h
    | ok b1 =>
      rw [hw] at h
      simp only at h
      cases hr : writeElemsWith wr f na vs with
      | error e => rw [hr] at h; simp at h
      | ok b2 =>
        rw [hr] at h
        simp only [H _ _ _ _ _ hw, ih _ hr]
        exact h

theorem writeTL1Z_of_writeTL1 (d : Desc) : ∀ (fuel ty : Nat) (bare : Bool) (params : List Nat) (v : Val) (b : Bytes),
    writeTL1 d fuel ty bare params v = .ok b → writeTL1Z d fuel ty bare params v = .ok b := by
  intro fuel
  induction fuel with
  | zero => intro ty bare params v b h; simp [writeTL1] at h
  | succ fuel ih =>
    intro ty bare params v b h
    have IH : ∀ ty bare na x b, writeTL1 d fuel ty bare na x = .ok b → writeTL1Z d fuel ty bare na x = .ok b := ih
    simp only [writeTL1] at h
    simp only [writeTL1Z]
    cases hg : d.get? ty with
    | none => rw [hg] at h; simp at h
    | some inst =>
      rw [hg] at h
      cases inst with
      | prim k => simpa using h
      | struct s =>
        simp only at h ⊢
        cases v with
        | struct fs =>
          simp only at h ⊢
          cases hw : writeFieldsWith (writeTL1 d fuel) params fs s.fields fs with
          | error e => rw [hw] at h; simp at h
          | ok b1 =>
            rw [hw] at h
            rw [writeFieldsZ_of_writeFields (zeroVal d fuel) params fs IH _ _ _ hw]
            exact h
        | _ => simp at h
      | union u =>
        simp only at h ⊢
        cases v with
        | union i x =>
          simp only at h ⊢
          split at h
          · rename_i vi nm na h1 h2
            simp only [h1, h2]
            exact ih _ _ _ _ _ h
          · simp at h
          · simp at h
        | _ => simp at h
      | array a =>
        simp only at h ⊢
        split at h
        · rename_i es na hn
          simp only [hn]
          split at h
          · rename_i ht
            simp only [ht, if_true]
            split at h
            · simp at h
            · rename_i n hcnt
              simp only [hcnt]
              split at h
              · simp at h
              · rename_i hl
                simp only [if_neg hl]
                exact writeElems_mono a.elem na IH _ _ h
          · rename_i ht
            simp only [ht]
            split at h
            · simp at h
            · rename_i hl
              simp only [if_neg hl]
              cases hw : writeElemsWith (writeTL1 d fuel) a.elem na es with
              | error e => rw [hw] at h; simp [Except.map] at h
              | ok b1 =>
                rw [hw] at h
                rw [writeElems_mono a.elem na IH _ _ hw]
                exact h
        · simp at h
        · simp at h
      | dict a =>
        simp only at h ⊢
        split at h
        · rename_i es na hn
          simp only [hn]
          split at h
          · simp at h
          · rename_i hl
            simp only [if_neg hl]
            cases hw : writeElemsWith (writeTL1 d fuel) a.elem na es with
            | error e => rw [hw] at h; simp [Except.map] at h
            | ok b1 =>
              rw [hw] at h
              rw [writeElems_mono a.elem na IH _ _ hw]
              exact h
        · simp at h
        · simp at h

theorem bodyTL2_one_none : bodyTL2 0 [none] = [] := by
  rw [bodyTL2_eq]; rfl

theorem bodyTL2_one_some (b : Bytes) (hb : b ≠ []) : bodyTL2 0 [some b] = 2 :: b := by
  cases b with
  | nil => exact absurd rfl hb
  | cons x xs => simp [bodyTL2, bodyLoop, fieldBit, optBytes, byteOf]

/-- `WriteResultTL2` then `ReadResultTL2` (result not an alias): the result comes back and exactly the written bytes are consumed -/
theorem resultTL2_roundtrip (d : Desc) (fuel : Nat) (f : FnD) (hal : f.resultAlias = false) (v : Val) (w rest : Bytes)
    (hg : Good d fuel f.s.resultTy true v) (hw : writeResultTL2 d fuel f v = .ok w) (hsz : w.length < 2 ^ 63) :
    readResultTL2 d fuel f (w ++ rest) = .ok (v, rest) := by
  unfold writeResultTL2 at hw
  unfold readResultTL2
  simp only [hal, Bool.false_eq_true, if_false] at hw ⊢
  cases he : encTL2 d fuel f.s.resultTy true v with
  | error e => rw [he] at hw; simp at hw
  | ok r =>
    rw [he] at hw
    simp only at hw
    obtain ⟨h1, h2⟩ := tl2_roundtrip_gen d fuel f.s.resultTy true true v r hg he
    cases r with
    | none =>
      rw [bodyTL2_one_none] at hw
      simp only [objTL2, List.isEmpty_nil, if_true, Bool.false_eq_true, if_false, optBytes] at hw
      injection hw with hw
      subst hw
      simp only [List.cons_append, List.nil_append, sliceBody_zero, List.isEmpty_nil, if_true]
      rw [h2 rfl]
    | some b =>
      obtain ⟨hb, hrd⟩ := h1 b rfl
      rw [bodyTL2_one_some b hb] at hw
      simp only [objTL2, List.isEmpty_cons, Bool.false_eq_true, if_false, optBytes] at hw
      injection hw with hw
      subst hw
      have hlen : (2 :: b).length < 2 ^ 63 := by
        simp only [List.length_append] at hsz
        omega
      rw [List.append_assoc, sliceBody_obj (2 :: b) rest hlen]
      have hrd' := hrd []
      rw [List.append_nil] at hrd'
      simp [readHead, readByte, testBit, hrd']

end TLVerif.Codec
