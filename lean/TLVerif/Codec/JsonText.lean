import TLVerif.Codec.Json
/-!
Textual layer of the JSON model: a strict RFC 8259 parser from UTF-8 text to `Json` trees (object members in
order, duplicates kept, number tokens kept as text, `\uXXXX` escapes decoded the way `jlexer` does: surrogate
pairs combined, lone surrogates → U+FFFD) and the printer `printJson` whose output is proved to satisfy the
grammar predicate `IsJsonText` in `JsonTextLemmas.lean` / `Props/C05.lean`.
Inputs that are not valid JSON text are outside the model (the generated readers delegate tokenisation to the
`easyjson/jlexer` dependency, which is lenient in places); the tie only feeds valid JSON text.
-/
namespace TLVerif.Codec
open TLVerif.Prim TLVerif.Util

def isWs (b : UInt8) : Bool := b == 32 || b == 9 || b == 10 || b == 13

def skipWs : Bytes → Bytes
  | b :: r => if isWs b then skipWs r else b :: r
  | [] => []

def hexNib (b : UInt8) : Option Nat := hexVal (Char.ofNat b.toNat)

def hex4 : Bytes → Option (Nat × Bytes)
  | a :: b :: c :: d :: r =>
    match hexNib a, hexNib b, hexNib c, hexNib d with
    | some w, some x, some y, some z => some (((w * 16 + x) * 16 + y) * 16 + z, r)
    | _, _, _, _ => none
  | _ => none

/-- body of a string literal after the opening quote: returns content bytes and the rest after the closing quote -/
def parseStrBody : Nat → Bytes → Bytes → Option (Bytes × Bytes)
  | 0, _, _ => none
  | fuel + 1, bs, acc =>
    match bs with
    | [] => none
    | 34 :: r => some (acc.reverse, r)
    | 92 :: e :: r =>
      if e == 34 || e == 92 || e == 47 then parseStrBody fuel r (e :: acc)
      else if e == 98 then parseStrBody fuel r (8 :: acc)
      else if e == 102 then parseStrBody fuel r (12 :: acc)
      else if e == 110 then parseStrBody fuel r (10 :: acc)
      else if e == 114 then parseStrBody fuel r (13 :: acc)
      else if e == 116 then parseStrBody fuel r (9 :: acc)
      else if e == 117 then
        match hex4 r with
        | none => none
        | some (cp, r1) =>
          if 0xD800 ≤ cp && cp ≤ 0xDFFF then
            -- jlexer: a surrogate must be followed by `\uXXXX` forming a valid pair, else U+FFFD (one escape consumed)
            let pair : Option (Nat × Bytes) :=
              match r1 with
              | 92 :: 117 :: r2 =>
                (match hex4 r2 with
                 | some (lo, r3) =>
                   if cp ≤ 0xDBFF && 0xDC00 ≤ lo && lo ≤ 0xDFFF then some (0x10000 + (cp - 0xD800) * 1024 + (lo - 0xDC00), r3) else none
                 | none => none)
              | _ => none
            match pair with
            | some (c, r3) => parseStrBody fuel r3 ((utf8Encode c).reverse ++ acc)
            | none => parseStrBody fuel r1 ((utf8Encode 0xFFFD).reverse ++ acc)
          else parseStrBody fuel r1 ((utf8Encode cp).reverse ++ acc)
      else none
    | b :: r => if b.toNat < 32 || b == 92 then none else parseStrBody fuel r (b :: acc)

def isDigitB (b : UInt8) : Bool := 48 ≤ b.toNat && b.toNat ≤ 57

def spanDigitsB : Bytes → Bytes → Bytes × Bytes
  | b :: r, acc => if isDigitB b then spanDigitsB r (b :: acc) else (acc.reverse, b :: r)
  | [], acc => (acc.reverse, [])

/-- RFC 8259 number token at the head of the input -/
def parseNumTok (bs : Bytes) : Option (Bytes × Bytes) :=
  let (sign, r0) : Bytes × Bytes := match bs with | 45 :: r => ([45], r) | _ => ([], bs)
  let (ip, r1) := spanDigitsB r0 []
  if ip.isEmpty then none else
  if ip.length > 1 && ip.head? == some 48 then none else
  let fr : Option (Bytes × Bytes) :=
    match r1 with
    | 46 :: r =>
      let (fp, r') := spanDigitsB r []
      if fp.isEmpty then none else some (46 :: fp, r')
    | _ => some ([], r1)
  match fr with
  | none => none
  | some (fpart, r2) =>
    let ex : Option (Bytes × Bytes) :=
      match r2 with
      | e :: r =>
        if e == 101 || e == 69 then
          let (sg, r') : Bytes × Bytes := match r with | 43 :: t => ([43], t) | 45 :: t => ([45], t) | _ => ([], r)
          let (ed, r'') := spanDigitsB r' []
          if ed.isEmpty then none else some (e :: sg ++ ed, r'')
        else some ([], r2)
      | [] => some ([], [])
    match ex with
    | none => none
    | some (epart, r3) => some (sign ++ ip ++ fpart ++ epart, r3)

def expectLit (lit : Bytes) (bs : Bytes) : Option Bytes :=
  if lit.isPrefixOf bs then some (bs.drop lit.length) else none

mutual
  def parseValue : Nat → Bytes → Option (Json × Bytes)
    | 0, _ => none
    | fuel + 1, bs =>
      match skipWs bs with
      | [] => none
      | 123 :: r =>
        (match skipWs r with
         | 125 :: r' => some (.obj [], r')
         | r' => (parseMembers fuel r').map (fun (kvs, rest) => (.obj kvs, rest)))
      | 91 :: r =>
        (match skipWs r with
         | 93 :: r' => some (.arr [], r')
         | r' => (parseElems fuel r').map (fun (es, rest) => (.arr es, rest)))
      | 34 :: r => (parseStrBody (r.length + 1) r []).map (fun (s, rest) => (.str s, rest))
      | 116 :: r => (expectLit [114, 117, 101] r).map (fun rest => (.bool true, rest))
      | 102 :: r => (expectLit [97, 108, 115, 101] r).map (fun rest => (.bool false, rest))
      | 110 :: r => (expectLit [117, 108, 108] r).map (fun rest => (.null, rest))
      | b :: r => (parseNumTok (b :: r)).map (fun (t, rest) => (.num (charsOfBytes t), rest))
  /-- `value (, value)* ]` -/
  def parseElems : Nat → Bytes → Option (List Json × Bytes)
    | 0, _ => none
    | fuel + 1, bs =>
      match parseValue fuel bs with
      | none => none
      | some (v, r) =>
        match skipWs r with
        | 93 :: r' => some ([v], r')
        | 44 :: r' => (parseElems fuel r').map (fun (vs, rest) => (v :: vs, rest))
        | _ => none
  /-- `"key" : value (, "key" : value)* }` -/
  def parseMembers : Nat → Bytes → Option (List (Bytes × Json) × Bytes)
    | 0, _ => none
    | fuel + 1, bs =>
      match skipWs bs with
      | 34 :: r =>
        match parseStrBody (r.length + 1) r [] with
        | none => none
        | some (k, r1) =>
          match skipWs r1 with
          | 58 :: r2 =>
            match parseValue fuel r2 with
            | none => none
            | some (v, r3) =>
              match skipWs r3 with
              | 125 :: r' => some ([(k, v)], r')
              | 44 :: r' => (parseMembers fuel r').map (fun (kvs, rest) => ((k, v) :: kvs, rest))
              | _ => none
          | _ => none
      | _ => none
end

/-- a complete JSON text: one value, optional surrounding whitespace, nothing else -/
def parseJson (bs : Bytes) : Option Json :=
  match parseValue (bs.length + 1) bs with
  | some (j, rest) => if (skipWs rest).isEmpty then some j else none
  | none => none

/-! ### printer (text); string escaping is a parameter (its model belongs to C34) -/

def commaSep : List (List Char) → List Char
  | [] => []
  | [x] => x
  | x :: xs => x ++ ',' :: commaSep xs

mutual
  def printJson (esc : Bytes → List Char) : Json → List Char
    | .null => "null".toList
    | .bool true => "true".toList
    | .bool false => "false".toList
    | .num t => t
    | .str b => '"' :: esc b ++ ['"']
    | .arr es => '[' :: printElems esc es ++ [']']
    | .obj kvs => '{' :: printMembers esc kvs ++ ['}']
  def printElems (esc : Bytes → List Char) : List Json → List Char
    | [] => []
    | [j] => printJson esc j
    | j :: js => printJson esc j ++ ',' :: printElems esc js
  def printMembers (esc : Bytes → List Char) : List (Bytes × Json) → List Char
    | [] => []
    | [(k, j)] => '"' :: esc k ++ '"' :: ':' :: printJson esc j
    | (k, j) :: r => '"' :: esc k ++ '"' :: ':' :: printJson esc j ++ ',' :: printMembers esc r
end

end TLVerif.Codec
