import TLVerif.Codec.TL1Lemmas
/-!
Canonicity (C02): whatever `readTL1` accepts is the writer's output for the decoded value followed
by the unread rest.  Loop lemmas are stated for an arbitrary reader/writer pair related by `CanonRW`,
the main theorem is an induction on `fuel`.
-/
namespace TLVerif.Codec
open TLVerif.Prim

/-- a relation between "what the writer emits for the decoded value" and "what the reader consumed":
equality for the exact theorem, `length ≤` for the dictionary-normalising one -/
structure ByteRel (R : Bytes → Bytes → Prop) : Prop where
  refl : ∀ a, R a a
  app : ∀ {a b c d}, R a b → R c d → R (a ++ c) (b ++ d)

theorem ByteRel.eq : ByteRel (fun a b => a = b) := ⟨fun _ => rfl, fun h1 h2 => by rw [h1, h2]⟩
theorem ByteRel.le : ByteRel (fun a b => a.length ≤ b.length) :=
  ⟨fun _ => Nat.le_refl _, fun h1 h2 => by simp only [List.length_append]; omega⟩

/-- reader `rd` accepts only what writer `wr` emits (up to `R`), on the types of `S` -/
def CanonRW (R : Bytes → Bytes → Prop) (S : Nat → Bool) (rd : Rd) (wr : Wr) : Prop :=
  ∀ ty bare na bs v rest, S ty = true → rd ty bare na bs = .ok (v, rest) →
    ∃ pre w, bs = pre ++ rest ∧ wr ty bare na v = .ok w ∧ R w pre

/-! ### prefix monotonicity of nat-argument evaluation -/

theorem natArgVal_append {acc : List (Option Val)} {params : List Nat} {a : NatArg} {x : Nat}
    (h : natArgVal acc params a = some x) (ext : List (Option Val)) : natArgVal (acc ++ ext) params a = some x := by
  cases a with
  | num n => exact h
  | param i => exact h
  | field i =>
    simp only [natArgVal] at h ⊢
    cases hi : acc[i]? with
    | none => rw [hi] at h; cases h
    | some o =>
      have : (acc ++ ext)[i]? = some o := by
        rw [List.getElem?_append_left]; exact hi
        exact (List.getElem?_eq_some_iff.mp hi).1
      rw [this]; rw [hi] at h; exact h

theorem natArgVals_append {acc : List (Option Val)} {params : List Nat} {as : List NatArg} {xs : List Nat}
    (h : natArgVals acc params as = some xs) (ext : List (Option Val)) : natArgVals (acc ++ ext) params as = some xs := by
  induction as generalizing xs with
  | nil => exact h
  | cons a as ih =>
    simp only [natArgVals] at h ⊢
    cases h1 : natArgVal acc params a with
    | none => simp [h1] at h
    | some x =>
      cases h2 : natArgVals acc params as with
      | none => simp [h1, h2] at h
      | some ys =>
        rw [natArgVal_append h1, ih h2]
        simpa [h1, h2] using h

theorem fieldPresent_append {f : Field} {acc : List (Option Val)} {params : List Nat} {b : Bool}
    (h : fieldPresent f acc params = some b) (ext : List (Option Val)) : fieldPresent f (acc ++ ext) params = some b := by
  unfold fieldPresent at h ⊢
  cases hm : f.mask with
  | none => rw [hm] at h; exact h
  | some p =>
    obtain ⟨a, bit⟩ := p
    rw [hm] at h
    simp only at h ⊢
    cases h1 : natArgVal acc params a with
    | none => rw [h1] at h; cases h
    | some m => rw [natArgVal_append h1]; rw [h1] at h; exact h

/-! ### loops -/

theorem readFields_canonical {R : Bytes → Bytes → Prop} (hR : ByteRel R) {S : Nat → Bool} {rd : Rd} {wr : Wr}
    (hrw : CanonRW R S rd wr) (params : List Nat) :
    ∀ (fields : List Field) (acc : List (Option Val)) (bs : Bytes) (out : List (Option Val)) (rest : Bytes),
      (∀ f ∈ fields, S f.ty = true) →
      readFieldsWith rd params fields acc bs = .ok (out, rest) →
      ∃ tail pre w, out = acc ++ tail ∧ bs = pre ++ rest ∧ R w pre ∧
        ∀ ext, writeFieldsWith wr params (out ++ ext) fields tail = .ok w := by
  intro fields
  induction fields with
  | nil =>
    intro acc bs out rest _ h
    simp only [readFieldsWith] at h
    injection h with h; injection h with h1 h2; subst h1; subst h2
    exact ⟨[], [], [], by simp, by simp, hR.refl _, fun _ => rfl⟩
  | cons f fs ih =>
    intro acc bs out rest hS h
    have hS' : ∀ g ∈ fs, S g.ty = true := fun g hg => hS g (by simp [hg])
    simp only [readFieldsWith] at h
    cases hp : fieldPresent f acc params with
    | none => simp [hp] at h
    | some b =>
      cases hna : natArgVals acc params f.natArgs with
      | none => cases b <;> simp [hp, hna] at h
      | some na =>
        cases b with
        | true =>
          simp only [hp, hna] at h
          cases hr : rd f.ty f.bare na bs with
          | error e => simp [hr] at h
          | ok p =>
            obtain ⟨v, bs'⟩ := p
            simp only [hr] at h
            obtain ⟨pre1, w1, e1, hw1, r1⟩ := hrw _ _ _ _ _ _ (hS f (by simp)) hr
            obtain ⟨tail, pre2, w2, e2, e3, r2, hw2⟩ := ih _ _ _ _ hS' h
            refine ⟨some v :: tail, pre1 ++ pre2, w1 ++ w2, by simp [e2], by simp [e1, e3], hR.app r1 r2, ?_⟩
            intro ext
            have eo : out ++ ext = acc ++ ([some v] ++ tail ++ ext) := by simp [e2]
            simp only [writeFieldsWith]
            rw [eo, fieldPresent_append hp, natArgVals_append hna, ← eo]
            simp only [hw1, hw2 ext]
        | false =>
          simp only [hp, hna] at h
          obtain ⟨tail, pre2, w2, e2, e3, r2, hw2⟩ := ih _ _ _ _ hS' h
          refine ⟨none :: tail, pre2, w2, by simp [e2], e3, r2, ?_⟩
          intro ext
          have eo : out ++ ext = acc ++ ([none] ++ tail ++ ext) := by simp [e2]
          simp only [writeFieldsWith]
          rw [eo, fieldPresent_append hp, natArgVals_append hna, ← eo]
          simp only [hw2 ext]

theorem readElems_canonical {R : Bytes → Bytes → Prop} (hR : ByteRel R) {S : Nat → Bool} {rd : Rd} {wr : Wr}
    (hrw : CanonRW R S rd wr) (f : Field) (hS : S f.ty = true) (na : List Nat) :
    ∀ (n : Nat) (bs : Bytes) (vs : List Val) (rest : Bytes),
      readElemsWith rd f na n bs = .ok (vs, rest) →
      ∃ pre w, bs = pre ++ rest ∧ writeElemsWith wr f na vs = .ok w ∧ R w pre ∧ vs.length = n := by
  intro n
  induction n with
  | zero =>
    intro bs vs rest h
    simp only [readElemsWith] at h
    injection h with h; injection h with h1 h2; subst h1; subst h2
    exact ⟨[], [], by simp, rfl, hR.refl _, rfl⟩
  | succ n ih =>
    intro bs vs rest h
    simp only [readElemsWith] at h
    cases hr : rd f.ty f.bare na bs with
    | error e => simp [hr] at h
    | ok p =>
      obtain ⟨v, bs'⟩ := p
      simp only [hr] at h
      cases hr2 : readElemsWith rd f na n bs' with
      | error e => simp [hr2] at h
      | ok q =>
        obtain ⟨vs', bs''⟩ := q
        simp only [hr2] at h
        injection h with h; injection h with h1 h2; subst h1; subst h2
        obtain ⟨pre1, w1, e1, hw1, r1⟩ := hrw _ _ _ _ _ _ hS hr
        obtain ⟨pre2, w2, e2, hw2, r2, hl⟩ := ih _ _ _ hr2
        refine ⟨pre1 ++ pre2, w1 ++ w2, by simp [e1, e2], ?_, hR.app r1 r2, by simp [hl]⟩
        simp only [writeElemsWith, hw1, hw2]

/-! ### descriptor lookups -/

theorem Desc.get?_mem {d : Desc} {ty : Nat} {i : Inst} (h : d.get? ty = some i) : i ∈ d.insts.toList := by
  unfold Desc.get? at h
  rw [← Array.getElem?_toList] at h
  exact List.mem_of_getElem? h

theorem Desc.get?_lt {d : Desc} {ty : Nat} {i : Inst} (h : d.get? ty = some i) : ty < d.insts.size := by
  unfold Desc.get? at h
  exact (Array.getElem?_eq_some_iff.mp h).1

theorem Desc.closed_get {d : Desc} {S : Nat → Bool} (h : d.closed S = true) {ty : Nat} {i : Inst}
    (hg : d.get? ty = some i) (hS : S ty = true) : ∀ r ∈ i.refs, S r = true := by
  have := (List.all_eq_true.mp h) ty (List.mem_range.mpr (Desc.get?_lt hg))
  simp only [hS, Bool.not_true, Bool.false_or, hg] at this
  exact List.all_eq_true.mp this

theorem Desc.allOn_get {d : Desc} {S : Nat → Bool} {p : Inst → Bool} (h : d.allOn S p = true) {ty : Nat} {i : Inst}
    (hg : d.get? ty = some i) (hS : S ty = true) : p i = true := by
  have := (List.all_eq_true.mp h) ty (List.mem_range.mpr (Desc.get?_lt hg))
  simpa only [hS, Bool.not_true, Bool.false_or, hg] using this

theorem Desc.allOn_all {d : Desc} {p : Inst → Bool} (h : d.insts.toList.all p = true) (S : Nat → Bool) : d.allOn S p = true := by
  apply List.all_eq_true.mpr
  intro i _
  cases hS : S i with
  | false => rfl
  | true =>
    cases hg : d.get? i with
    | none => rfl
    | some inst => exact (List.all_eq_true.mp h) _ (Desc.get?_mem hg)

theorem Desc.closed_all (d : Desc) : d.closed allInsts = true := by
  apply List.all_eq_true.mpr
  intro i _
  cases hg : d.get? i with
  | none => rfl
  | some inst => simp [allInsts]

theorem Desc.noDict_get {d : Desc} (h : d.noDict = true) {ty : Nat} {a : ArrayD} : d.get? ty ≠ some (.dict a) := by
  intro hg
  have := (List.all_eq_true.mp h) _ (Desc.get?_mem hg)
  simp [Inst.isDict] at this

theorem Desc.noBit_get {d : Desc} (h : d.noBit = true) {ty : Nat} : d.get? ty ≠ some (.prim .bit) := by
  intro hg
  have := (List.all_eq_true.mp h) _ (Desc.get?_mem hg)
  simp [Inst.isBitPrim] at this

theorem findVariant_spec (d : Desc) (tag : Nat) :
    ∀ (vs : List (Nat × String)) (j i vi : Nat), findVariant d tag vs j = some (i, vi) →
      ∃ s nm, j ≤ i ∧ vs[i - j]? = some (vi, nm) ∧ d.get? vi = some (.struct s) ∧ s.tag = tag := by
  intro vs
  induction vs with
  | nil => intro j i vi h; simp [findVariant] at h
  | cons p vs ih =>
    intro j i vi h
    obtain ⟨w, nm⟩ := p
    have rec_case : findVariant d tag vs (j + 1) = some (i, vi) →
        ∃ s nm', j ≤ i ∧ ((w, nm) :: vs)[i - j]? = some (vi, nm') ∧ d.get? vi = some (.struct s) ∧ s.tag = tag := by
      intro h
      obtain ⟨s, nm', hle, hv, hg, ht⟩ := ih _ _ _ h
      refine ⟨s, nm', by omega, ?_, hg, ht⟩
      have : i - j = (i - (j + 1)) + 1 := by omega
      rw [this, List.getElem?_cons_succ]; exact hv
    simp only [findVariant] at h
    cases hg : d.get? w with
    | none => simp only [hg] at h; exact rec_case h
    | some inst =>
      cases inst with
      | struct s =>
        simp only [hg] at h
        by_cases c : s.tag = tag
        · rw [if_pos c] at h
          injection h with h; injection h with h1 h2; subst h1; subst h2
          exact ⟨s, nm, Nat.le_refl _, by simp, hg, c⟩
        · rw [if_neg c] at h; exact rec_case h
      | prim k => simp only [hg] at h; exact rec_case h
      | union u => simp only [hg] at h; exact rec_case h
      | array a => simp only [hg] at h; exact rec_case h
      | dict a => simp only [hg] at h; exact rec_case h

/-- boxed = tag ++ bare -/
theorem writeTL1_boxed_of_bare {d : Desc} {fuel vi : Nat} {s : StructD} (hg : d.get? vi = some (.struct s))
    {na : List Nat} {x : Val} {w : Bytes} (h : writeTL1 d fuel vi true na x = .ok w) :
    writeTL1 d fuel vi false na x = .ok (u32le s.tag ++ w) := by
  cases fuel with
  | zero => simp [writeTL1] at h
  | succ f =>
    simp only [writeTL1, hg] at h ⊢
    cases x with
    | struct fs =>
      simp only at h ⊢
      cases hw : writeFieldsWith (writeTL1 d f) na fs s.fields fs with
      | error e => simp [hw] at h
      | ok b =>
        simp only [hw] at h ⊢
        injection h with h
        simp at h
        simp [h]
    | _ => simp at h


/-! ### dictionaries: the normalised list is a sub-multiset of what was read -/

def wcost (wr : Wr) (f : Field) (na : List Nat) (v : Val) : Nat :=
  match wr f.ty f.bare na v with
  | .ok b => b.length
  | .error _ => 0

def wsum (wr : Wr) (f : Field) (na : List Nat) : List Val → Nat
  | [] => 0
  | v :: vs => wcost wr f na v + wsum wr f na vs

theorem writeElems_ok_iff (wr : Wr) (f : Field) (na : List Nat) :
    ∀ (vs : List Val), (∃ w, writeElemsWith wr f na vs = .ok w) ↔ (∀ v ∈ vs, ∃ b, wr f.ty f.bare na v = .ok b) := by
  intro vs
  induction vs with
  | nil => simp [writeElemsWith]
  | cons v vs ih =>
    simp only [writeElemsWith, List.mem_cons, forall_eq_or_imp]
    cases h1 : wr f.ty f.bare na v with
    | error e => simp
    | ok b =>
      cases h2 : writeElemsWith wr f na vs with
      | error e =>
        simp only [reduceCtorEq, exists_false, false_iff, not_and]
        intro _ h
        obtain ⟨w, hw⟩ := ih.mpr h
        rw [h2] at hw; cases hw
      | ok w =>
        simp only [Except.ok.injEq, exists_eq', true_iff, true_and]
        exact ih.mp ⟨w, h2⟩

theorem writeElems_length (wr : Wr) (f : Field) (na : List Nat) :
    ∀ (vs : List Val) (w : Bytes), writeElemsWith wr f na vs = .ok w → w.length = wsum wr f na vs := by
  intro vs
  induction vs with
  | nil => intro w h; simp only [writeElemsWith] at h; injection h with h; subst h; rfl
  | cons v vs ih =>
    intro w h
    simp only [writeElemsWith] at h
    cases h1 : wr f.ty f.bare na v with
    | error e => simp [h1] at h
    | ok b =>
      cases h2 : writeElemsWith wr f na vs with
      | error e => simp [h1, h2] at h
      | ok w' =>
        simp only [h1, h2] at h
        injection h with h; subst h
        simp only [List.length_append, wsum, wcost, h1, ih _ h2]

theorem dictInsert_mem (k : PrimK) (e : Val) : ∀ (xs : List Val) (x : Val), x ∈ dictInsert k e xs → x = e ∨ x ∈ xs := by
  intro xs
  induction xs with
  | nil => intro x h; simp [dictInsert] at h; exact Or.inl h
  | cons y ys ih =>
    intro x h
    simp only [dictInsert] at h
    split at h
    · simp only [List.mem_cons] at h ⊢; exact h
    · split at h
      · simp only [List.mem_cons] at h ⊢
        rcases h with h | h
        · exact Or.inr (Or.inl h)
        · rcases ih _ h with h | h
          · exact Or.inl h
          · exact Or.inr (Or.inr h)
      · simp only [List.mem_cons] at h ⊢
        rcases h with h | h
        · exact Or.inl h
        · exact Or.inr (Or.inr h)

theorem dictInsert_wsum (wr : Wr) (f : Field) (na : List Nat) (k : PrimK) (e : Val) :
    ∀ (xs : List Val), wsum wr f na (dictInsert k e xs) ≤ wcost wr f na e + wsum wr f na xs ∧
      (dictInsert k e xs).length ≤ xs.length + 1 := by
  intro xs
  induction xs with
  | nil => simp [dictInsert, wsum]
  | cons y ys ih =>
    simp only [dictInsert]
    split
    · simp [wsum]
    · split
      · simp only [wsum, List.length_cons]; omega
      · simp only [wsum, List.length_cons]; omega

theorem dictFold_props (wr : Wr) (f : Field) (na : List Nat) (k : PrimK) :
    ∀ (vs acc : List Val),
      (∀ x ∈ vs.foldl (fun acc e => dictInsert k e acc) acc, x ∈ acc ∨ x ∈ vs) ∧
      wsum wr f na (vs.foldl (fun acc e => dictInsert k e acc) acc) ≤ wsum wr f na acc + wsum wr f na vs ∧
      (vs.foldl (fun acc e => dictInsert k e acc) acc).length ≤ acc.length + vs.length := by
  intro vs
  induction vs with
  | nil => intro acc; simp [wsum]
  | cons v vs ih =>
    intro acc
    simp only [List.foldl_cons]
    obtain ⟨h1, h2, h3⟩ := ih (dictInsert k v acc)
    obtain ⟨h4, h5⟩ := dictInsert_wsum wr f na k v acc
    refine ⟨?_, ?_, ?_⟩
    · intro x hx
      rcases h1 x hx with h | h
      · rcases dictInsert_mem k v acc x h with h | h
        · exact Or.inr (by simp [h])
        · exact Or.inl h
      · exact Or.inr (by simp [h])
    · simp only [wsum]; omega
    · simp only [List.length_cons]; omega

theorem dictNormalize_write (wr : Wr) (f : Field) (na : List Nat) (k : PrimK) (vs : List Val) (w : Bytes)
    (h : writeElemsWith wr f na vs = .ok w) :
    ∃ w', writeElemsWith wr f na (dictNormalize k vs) = .ok w' ∧ w'.length ≤ w.length ∧
      (dictNormalize k vs).length ≤ vs.length := by
  obtain ⟨h1, h2, h3⟩ := dictFold_props wr f na k vs []
  have hall := (writeElems_ok_iff wr f na vs).mp ⟨w, h⟩
  have : ∀ v ∈ dictNormalize k vs, ∃ b, wr f.ty f.bare na v = .ok b := by
    intro v hv
    rcases h1 v hv with h | h
    · cases h
    · exact hall v h
  obtain ⟨w', hw'⟩ := (writeElems_ok_iff wr f na _).mpr this
  refine ⟨w', hw', ?_, by simpa [dictNormalize] using h3⟩
  rw [writeElems_length _ _ _ _ _ hw', writeElems_length _ _ _ _ _ h]
  simpa [wsum, dictNormalize] using h2

/-! ### the main induction -/

theorem readTL1_canonR {R : Bytes → Bytes → Prop} (hR : ByteRel R) (cfg : Cfg) (d : Desc)
    (S : Nat → Bool) (hcl : d.closed S = true) (hnb : d.allOn S (fun i => !i.isBitPrim) = true)
    (hD : d.allOn S (fun i => !i.isDict) = true ∨ ∀ a b : Bytes, R a b ↔ a.length ≤ b.length) :
    ∀ fuel, CanonRW R S (readTL1 cfg d fuel) (writeTL1 d fuel) := by
  intro fuel
  induction fuel with
  | zero => intro ty bare na bs v rest _ h; simp [readTL1] at h
  | succ fuel ih =>
    intro ty bare params bs v rest hSty h
    simp only [readTL1] at h
    cases hg : d.get? ty with
    | none => simp only [hg] at h; cases h
    | some inst =>
      simp only [hg] at h
      have hrefs := Desc.closed_get hcl hg hSty
      cases inst with
      | prim k =>
        simp only at h
        have hk : k ≠ .bit := by
          intro e; subst e
          have := Desc.allOn_get hnb hg hSty
          simp [Inst.isBitPrim] at this
        obtain ⟨pre, e, hw⟩ := readPrim_canonical hk h
        exact ⟨pre, pre, e, by simp only [writeTL1, hg, hw], hR.refl _⟩
      | struct s =>
        simp only at h
        cases bare with
        | true =>
          simp only [if_true] at h
          cases hr : readFieldsWith (readTL1 cfg d fuel) params s.fields [] bs with
          | error e => simp [hr] at h
          | ok p =>
            obtain ⟨fs, r⟩ := p
            simp only [hr] at h
            injection h with h; injection h with h1 h2; subst h1; subst h2
            obtain ⟨tail, pre, w, e1, e2, r1, hw⟩ := readFields_canonical hR ih params _ _ _ _ _ (fun f hf => hrefs _ (by simp only [Inst.refs]; exact List.mem_map_of_mem hf)) hr
            simp only [List.nil_append] at e1; subst e1
            have := hw []
            simp only [List.append_nil] at this
            refine ⟨pre, w, e2, ?_, r1⟩
            simp only [writeTL1, hg, this]
            simp
        | false =>
          simp only [Bool.false_eq_true, if_false] at h
          cases ht : readExactTag s.tag bs with
          | error e => simp [ht] at h
          | ok bs1 =>
            simp only [ht] at h
            cases hr : readFieldsWith (readTL1 cfg d fuel) params s.fields [] bs1 with
            | error e => simp [hr] at h
            | ok p =>
              obtain ⟨fs, r⟩ := p
              simp only [hr] at h
              injection h with h; injection h with h1 h2; subst h1; subst h2
              obtain ⟨tail, pre, w, e1, e2, r1, hw⟩ := readFields_canonical hR ih params _ _ _ _ _ (fun f hf => hrefs _ (by simp only [Inst.refs]; exact List.mem_map_of_mem hf)) hr
              simp only [List.nil_append] at e1; subst e1
              have := hw []
              simp only [List.append_nil] at this
              obtain ⟨e3, _⟩ := readExactTag_inv ht
              refine ⟨u32le s.tag ++ pre, u32le s.tag ++ w, by rw [e3, e2, List.append_assoc], ?_, hR.app (hR.refl _) r1⟩
              simp only [writeTL1, hg, this]
              simp
      | union u =>
        simp only at h
        cases h1 : readU32 bs with
        | error e => simp [h1] at h
        | ok p =>
          obtain ⟨tag, bs1⟩ := p
          simp only [h1] at h
          cases hf : findVariant d tag u.variants 0 with
          | none => simp [hf] at h
          | some q =>
            obtain ⟨i, vi⟩ := q
            cases hna : natArgVals [] params u.elemNatArgs with
            | none => simp [hf, hna] at h
            | some na =>
              simp only [hf, hna] at h
              cases hr : readTL1 cfg d fuel vi true na bs1 with
              | error e => simp [hr] at h
              | ok p =>
                obtain ⟨x, r⟩ := p
                simp only [hr] at h
                injection h with h; injection h with h2 h3; subst h2; subst h3
                obtain ⟨s, nm, _, hv, hgv, hst⟩ := findVariant_spec d tag _ _ _ _ hf
                simp only [Nat.sub_zero] at hv
                have hSvi : S vi = true := hrefs _ (by
                  simp only [Inst.refs]; exact List.mem_map_of_mem (f := (·.1)) (List.mem_of_getElem? hv))
                obtain ⟨pre, w, e1, hw, r1⟩ := ih _ _ _ _ _ _ hSvi hr
                obtain ⟨e2, _⟩ := readU32_inv h1
                refine ⟨u32le tag ++ pre, u32le tag ++ w, by rw [e2, e1, List.append_assoc], ?_, hR.app (hR.refl _) r1⟩
                simp only [writeTL1, hg, hv, hna]
                rw [← hst]; exact writeTL1_boxed_of_bare hgv hw
      | array a =>
        simp only at h
        cases hna : natArgVals [] params a.elem.natArgs with
        | none => simp [hna] at h
        | some na =>
          simp only [hna] at h
          by_cases ct : a.isTuple = true
          · rw [if_pos ct] at h
            cases hn : (if a.dynamic = true then params[0]? else some a.count) with
            | none => simp [hn] at h
            | some n =>
              simp only [hn] at h
              split at h
              · cases h
              · cases hr : readElemsWith (readTL1 cfg d fuel) a.elem na n bs with
                | error e => rw [hr] at h; cases h
                | ok p =>
                  obtain ⟨vs, r⟩ := p
                  rw [hr] at h
                  injection h with h; injection h with h2 h3; subst h2; subst h3
                  obtain ⟨pre, w, e1, hw, r1, hl⟩ := readElems_canonical hR ih _ (hrefs _ (by simp [Inst.refs])) _ _ _ _ _ hr
                  refine ⟨pre, w, e1, ?_, r1⟩
                  simp only [writeTL1, hg, hna, ct, if_true, hn]
                  rw [if_neg (by simp [hl])]; exact hw
          · rw [if_neg ct] at h
            cases h1 : readU32 bs with
            | error e => simp [h1] at h
            | ok p =>
              obtain ⟨n, bs1⟩ := p
              simp only [h1] at h
              split at h
              · cases h
              · cases hr : readElemsWith (readTL1 cfg d fuel) a.elem na n bs1 with
                | error e => rw [hr] at h; cases h
                | ok p =>
                  obtain ⟨vs, r⟩ := p
                  rw [hr] at h
                  injection h with h; injection h with h2 h3; subst h2; subst h3
                  obtain ⟨pre, w, e1, hw, r1, hl⟩ := readElems_canonical hR ih _ (hrefs _ (by simp [Inst.refs])) _ _ _ _ _ hr
                  obtain ⟨e2, hlt⟩ := readU32_inv h1
                  refine ⟨u32le n ++ pre, u32le n ++ w, by rw [e2, e1, List.append_assoc], ?_, hR.app (hR.refl _) r1⟩
                  simp only [writeTL1, hg, hna, ct]
                  rw [if_neg (by simp), if_neg (by simp only [Nat.reducePow]; omega), hw, hl]
                  rfl
      | dict a =>
        rcases hD with hD | hD
        · have := Desc.allOn_get hD hg hSty
          simp [Inst.isDict] at this
        · simp only at h
          cases hna : natArgVals [] params a.elem.natArgs with
          | none => simp [hna] at h
          | some na =>
            simp only [hna] at h
            cases h1 : readU32 bs with
            | error e => simp [h1] at h
            | ok p =>
              obtain ⟨n, bs1⟩ := p
              simp only [h1] at h
              split at h
              · cases h
              · cases hk : dictKeyPrim d a with
                | none => simp [hk] at h
                | some k =>
                  simp only [hk] at h
                  cases hr : readElemsWith (readTL1 cfg d fuel) a.elem na n bs1 with
                  | error e => rw [hr] at h; cases h
                  | ok p =>
                    obtain ⟨vs, r⟩ := p
                    rw [hr] at h
                    injection h with h; injection h with h2 h3; subst h2; subst h3
                    obtain ⟨pre, w, e1, hw, r1, hl⟩ := readElems_canonical hR ih _ (hrefs _ (by simp [Inst.refs])) _ _ _ _ _ hr
                    obtain ⟨e2, hlt⟩ := readU32_inv h1
                    obtain ⟨w', hw', hl1, hl2⟩ := dictNormalize_write (writeTL1 d fuel) a.elem na k vs w hw
                    refine ⟨u32le n ++ pre, u32le (dictNormalize k vs).length ++ w', by rw [e2, e1, List.append_assoc], ?_, ?_⟩
                    · simp only [writeTL1, hg, hna]
                      rw [if_neg (by simp only [Nat.reducePow]; omega), hw']
                      rfl
                    · have := (hD _ _).mp r1
                      apply (hD _ _).mpr
                      simp only [List.length_append, u32le_length]; omega
end TLVerif.Codec
