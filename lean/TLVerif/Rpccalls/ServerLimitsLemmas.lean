import TLVerif.Rpccalls.WorkerPool
import TLVerif.Rpccalls.ReqMem
/-!
Helper lemmas for C39: invariants of the `workerPool` model and of the request-memory semaphore model.
-/
namespace TLVerif.Rpccalls

/-! ### workerPool -/

/-- histories of a pool created by `workerPoolNew(create)` in which only handed-out workers are put back -/
inductive PReach (create : Int) : List POp → Pool → List PEv → Prop
  | init : PReach create [] (Pool.new create) []
  | snoc {ops p evs op} : PReach create ops p evs → op.guard p = true →
      PReach create (ops ++ [op]) (p.step op).1 (evs ++ (p.step op).2)

structure PInv (p : Pool) : Prop where
  /-- every created worker is either handed out or on the free list -/
  acct : p.created = p.busy.length + p.free.length
  limit : p.created ≤ p.create
  closedFree : p.closed = true → p.free = []

theorem Pool.new_create_pos (c : Int) : 1 ≤ (Pool.new c).create := by
  simp only [Pool.new]; split <;> omega

theorem pinv_new (c : Int) : PInv (Pool.new c) := by
  refine ⟨by simp [Pool.new], ?_, by simp [Pool.new]⟩
  have := Pool.new_create_pos c
  simp only [Pool.new] at this ⊢
  omega

theorem pinv_take {p : Pool} (hi : PInv p) (hr : p.ready = true) : PInv p.take.1 := by
  unfold Pool.take
  by_cases hc : p.closed = true
  · simp only [hc, if_true]; exact hi
  · simp only [hc, Bool.false_eq_true, if_false]
    cases hl : p.free.getLast? with
    | some w =>
      simp only
      have hne : p.free ≠ [] := by intro e; simp [e] at hl
      have hlen : p.free.dropLast.length = p.free.length - 1 := by simp
      have hpos : 0 < p.free.length := List.length_pos_iff.mpr hne
      refine ⟨?_, hi.limit, fun h => by simp at h⟩
      have := hi.acct
      simp only [List.length_cons, hlen]
      omega
    | none =>
      simp only
      have he : p.free = [] := by simpa using hl
      have : p.created < p.create := by
        simp only [Pool.ready, he, List.isEmpty_nil, Bool.not_true, Bool.or_false, Bool.or_eq_true, decide_eq_true_eq] at hr
        rcases hr with h | h
        · exact absurd h hc
        · exact h
      refine ⟨?_, by simp only; omega, fun h => by simp at h⟩
      have := hi.acct
      simp only [List.length_cons, he, List.length_nil] at this ⊢
      omega

theorem pinv_gcLocked {p : Pool} (hi : PInv p) (e : Bool) : PInv (p.gcLocked e).1 ∧ (p.gcLocked e).1.busy = p.busy ∧
    (p.gcLocked e).1.closed = p.closed ∧ (p.gcLocked e).1.create = p.create := by
  unfold Pool.gcLocked
  cases hf : p.free with
  | nil => exact ⟨by simpa [hf] using hi, by simp, by simp, by simp⟩
  | cons w0 t =>
    simp only
    split
    · refine ⟨⟨?_, ?_, ?_⟩, rfl, rfl, rfl⟩
      · have := hi.acct; rw [hf] at this; simp only [List.length_cons] at this ⊢; omega
      · have := hi.limit; simp only; omega
      · intro h; have := hi.closedFree h; rw [hf] at this; simp at this
    · exact ⟨hi, rfl, rfl, rfl⟩

theorem pinv_step {p : Pool} {op : POp} (hi : PInv p) (hg : op.guard p = true) : PInv (p.step op).1 := by
  cases op with
  | getEnter =>
    simp only [Pool.step]
    split
    · rename_i hr; exact pinv_take hi hr
    · exact ⟨hi.acct, hi.limit, hi.closedFree⟩
  | recheck =>
    simp only [Pool.step]
    split
    · exact hi
    · split
      · rename_i hr
        exact pinv_take (p := { p with waiting := p.waiting - 1 }) ⟨hi.acct, hi.limit, hi.closedFree⟩ hr
      · exact hi
  | put w e =>
    simp only [POp.guard, List.contains_eq_mem, decide_eq_true_eq] at hg
    simp only [Pool.step]
    split
    · rename_i hc
      have hf := hi.closedFree hc
      refine ⟨?_, ?_, fun _ => hf⟩
      · have := hi.acct
        simp only [List.length_erase_of_mem hg, hf, List.length_nil] at this ⊢
        have : 0 < p.busy.length := List.length_pos_of_mem hg
        omega
      · have := hi.limit; simp only; omega
    · rename_i hc
      obtain ⟨h1, h2, h3, h4⟩ := pinv_gcLocked hi e
      have hg' : w ∈ (p.gcLocked e).1.busy := by rw [h2]; exact hg
      refine ⟨?_, by simpa using h1.limit, ?_⟩
      · have := h1.acct
        simp only [List.length_erase_of_mem hg', List.length_append, List.length_cons, List.length_nil]
        have : 0 < (p.gcLocked e).1.busy.length := List.length_pos_of_mem hg'
        omega
      · intro h; simp only [h3] at h; exact absurd h hc
  | gc e => exact (pinv_gcLocked hi e).1
  | close =>
    simp only [Pool.step]
    refine ⟨?_, ?_, fun _ => rfl⟩
    · have := hi.acct; simp only [List.length_nil]; omega
    · have := hi.limit; simp only; omega

theorem preach_inv {c ops p evs} (h : PReach c ops p evs) : PInv p := by
  induction h with
  | init => exact pinv_new c
  | snoc _ hg ih => exact pinv_step ih hg

theorem step_create {p : Pool} (op : POp) : (p.step op).1.create = p.create := by
  cases op with
  | getEnter => simp only [Pool.step]; split <;> simp [Pool.take] <;> (try split) <;> (try split) <;> rfl
  | recheck => simp only [Pool.step]; split <;> (try split) <;> simp [Pool.take] <;> (try split) <;> (try split) <;> rfl
  | put w e =>
    simp only [Pool.step]; split
    · rfl
    · simp only [Pool.gcLocked]; split <;> (try split) <;> rfl
  | gc e => simp only [Pool.step, Pool.gcLocked]; split <;> (try split) <;> rfl
  | close => rfl

theorem preach_create {c ops p evs} (h : PReach c ops p evs) : p.create = (Pool.new c).create := by
  induction h with
  | init => rfl
  | snoc _ _ ih => rw [step_create]; exact ih

/-! ### request memory -/

theorem notifyLoop_spec (size : Int) (cur : Int) (ws : List (Nat × Int)) :
    (notifyLoop size cur ws).2.2 ++ (notifyLoop size cur ws).2.1 = ws ∧
    (notifyLoop size cur ws).1 = cur + sumHeld (notifyLoop size cur ws).2.2 ∧
    ((∀ w ∈ ws, 0 ≤ w.2) → cur ≤ size → (notifyLoop size cur ws).1 ≤ size) := by
  induction ws generalizing cur with
  | nil => simp [notifyLoop, sumHeld]
  | cons w t ih =>
    obtain ⟨id, n⟩ := w
    simp only [notifyLoop]
    split
    · simp [sumHeld]
    · rename_i hfit
      obtain ⟨h1, h2, h3⟩ := ih (cur + n)
      refine ⟨by simp [h1], ?_, ?_⟩
      · simp only [sumHeld]; rw [h2]; omega
      · intro hpos hle
        apply h3 (fun w hw => hpos w (by simp [hw]))
        omega

theorem sumHeld_append (a b : List (Nat × Int)) : sumHeld (a ++ b) = sumHeld a + sumHeld b := by
  induction a with
  | nil => simp [sumHeld]
  | cons x t ih => obtain ⟨i, n⟩ := x; simp only [List.cons_append, sumHeld, ih]; omega

theorem sumHeld_eraseId {id : Nat} {l : List (Nat × Int)} {n : Int} (h : heldAmount id l = some n) :
    sumHeld (eraseId id l) = sumHeld l - n := by
  induction l with
  | nil => simp [heldAmount] at h
  | cons x t ih =>
    obtain ⟨i, m⟩ := x
    simp only [heldAmount] at h
    simp only [eraseId]
    split at h
    · rename_i hi; simp only [Option.some.injEq] at h; subst h; simp only [hi, if_true, sumHeld]; omega
    · rename_i hi; simp only [hi, if_false, sumHeld]; rw [ih h]; omega

theorem mem_eraseId {id : Nat} {l : List (Nat × Int)} {x} (h : x ∈ eraseId id l) : x ∈ l := by
  induction l with
  | nil => simp [eraseId] at h
  | cons y t ih =>
    obtain ⟨i, m⟩ := y
    simp only [eraseId] at h
    split at h
    · simp [h]
    · simp only [List.mem_cons] at h ⊢
      rcases h with h | h
      · exact Or.inl h
      · exact Or.inr (ih h)

theorem heldAmount_mem {id : Nat} {l : List (Nat × Int)} {n : Int} (h : heldAmount id l = some n) : (id, n) ∈ l := by
  induction l with
  | nil => simp [heldAmount] at h
  | cons x t ih =>
    obtain ⟨i, m⟩ := x
    simp only [heldAmount] at h
    split at h
    · rename_i hi; simp only [Option.some.injEq] at h; subst h; subst hi; simp
    · simp [ih h]

/-- amounts requested are never negative (`requestBufTake` of non-negative sizes) -/
def SOp.nonneg : SOp → Bool
  | .tryAcq _ n => 0 ≤ n
  | .acquire _ n => 0 ≤ n
  | _ => true

inductive SReach (size : Int) : List SOp → Sem → List SEv → Prop
  | init : SReach size [] (Sem.new size) []
  | snoc {ops s evs op} : SReach size ops s evs → op.nonneg = true →
      SReach size (ops ++ [op]) (s.step op).1 (evs ++ (s.step op).2)

structure SInv (s : Sem) : Prop where
  /-- the semaphore's counter is exactly the memory of the admitted, unreleased requests -/
  acct : s.cur = sumHeld s.held
  limit : s.cur ≤ s.size
  heldPos : ∀ h ∈ s.held, 0 ≤ h.2
  waitPos : ∀ w ∈ s.waiters, 0 ≤ w.2

theorem sumHeld_nonneg {l : List (Nat × Int)} (h : ∀ x ∈ l, 0 ≤ x.2) : 0 ≤ sumHeld l := by
  induction l with
  | nil => simp [sumHeld]
  | cons x t ih =>
    obtain ⟨i, n⟩ := x
    have := h (i, n) (by simp)
    have := ih (fun y hy => h y (by simp [hy]))
    simp only [sumHeld]; omega

theorem sinv_notify {s : Sem} (hi : SInv s) : SInv s.notify.1 ∧ s.notify.1.size = s.size := by
  obtain ⟨h1, h2, h3⟩ := notifyLoop_spec s.size s.cur s.waiters
  refine ⟨⟨?_, ?_, ?_, ?_⟩, rfl⟩ <;> simp only [Sem.notify]
  · rw [h2, sumHeld_append, hi.acct]
  · exact h3 hi.waitPos hi.limit
  · intro h hh
    simp only [List.mem_append] at hh
    rcases hh with hh | hh
    · exact hi.heldPos h hh
    · exact hi.waitPos h (by rw [← h1]; simp [hh])
  · intro w hw
    exact hi.waitPos w (by rw [← h1]; simp only [List.mem_append]; exact Or.inr hw)

theorem sinv_step {s : Sem} {op : SOp} (hi : SInv s) (hn : op.nonneg = true) :
    SInv (s.step op).1 ∧ (s.step op).1.size = s.size ∧ SEv.panic ∉ (s.step op).2 := by
  cases op with
  | tryAcq id n =>
    simp only [SOp.nonneg, decide_eq_true_eq] at hn
    simp only [Sem.step]
    split
    · rename_i hf
      simp only [Sem.fits, ge_iff_le, Bool.and_eq_true, decide_eq_true_eq] at hf
      refine ⟨⟨?_, ?_, ?_, hi.waitPos⟩, rfl, by simp⟩
      · simp only; rw [sumHeld_append, hi.acct]; simp [sumHeld]
      · simp only; omega
      · intro h hh; simp only [List.mem_append, List.mem_singleton] at hh
        rcases hh with hh | rfl
        · exact hi.heldPos h hh
        · exact hn
    · exact ⟨hi, rfl, by simp⟩
  | acquire id n =>
    simp only [SOp.nonneg, decide_eq_true_eq] at hn
    simp only [Sem.step]
    split
    · rename_i hf
      simp only [Sem.fits, ge_iff_le, Bool.and_eq_true, decide_eq_true_eq] at hf
      refine ⟨⟨?_, ?_, ?_, hi.waitPos⟩, rfl, by simp⟩
      · simp only; rw [sumHeld_append, hi.acct]; simp [sumHeld]
      · simp only; omega
      · intro h hh; simp only [List.mem_append, List.mem_singleton] at hh
        rcases hh with hh | rfl
        · exact hi.heldPos h hh
        · exact hn
    · split
      · exact ⟨hi, rfl, by simp⟩
      · refine ⟨⟨hi.acct, hi.limit, hi.heldPos, ?_⟩, rfl, by simp⟩
        intro w hw; simp only [List.mem_append, List.mem_singleton] at hw
        rcases hw with hw | rfl
        · exact hi.waitPos w hw
        · exact hn
  | cancel id =>
    simp only [Sem.step]
    split
    · exact ⟨hi, rfl, by simp⟩
    · have hi1 : SInv { s with waiters := eraseId id s.waiters } :=
        ⟨hi.acct, hi.limit, hi.heldPos, fun w hw => hi.waitPos w (mem_eraseId hw)⟩
      split
      · obtain ⟨a, b⟩ := sinv_notify hi1
        refine ⟨a, b, ?_⟩
        simp [Sem.notify]
      · exact ⟨hi1, rfl, by simp⟩
  | release id =>
    simp only [Sem.step]
    cases hh : heldAmount id s.held with
    | none => exact ⟨hi, rfl, by simp⟩
    | some n =>
      simp only
      have hs := sumHeld_eraseId hh
      have hpos : ∀ h ∈ eraseId id s.held, 0 ≤ h.2 := fun h hm => hi.heldPos h (mem_eraseId hm)
      have hnn := sumHeld_nonneg hpos
      have hn0 := hi.heldPos _ (heldAmount_mem hh)
      have hi1 : SInv { s with cur := s.cur - n, held := eraseId id s.held } :=
        ⟨by simp only; rw [hs, hi.acct], by have := hi.limit; simp only at hn0 ⊢; omega, hpos, hi.waitPos⟩
      have hc : ¬ (s.cur - n < 0) := by rw [hi.acct, ← hs]; omega
      split
      · exact ⟨hi1, rfl, by simp⟩
      · obtain ⟨a, b⟩ := sinv_notify hi1
        refine ⟨a, b, ?_⟩
        simp [Sem.notify]

theorem sreach_inv {size ops s evs} (hsz : 0 ≤ size) (h : SReach size ops s evs) :
    SInv s ∧ s.size = size ∧ SEv.panic ∉ evs := by
  induction h with
  | init => exact ⟨⟨rfl, hsz, by simp [Sem.new], by simp [Sem.new]⟩, rfl, by simp⟩
  | snoc _ hn ih =>
    obtain ⟨a, b, c⟩ := sinv_step ih.1 hn
    refine ⟨a, by rw [b]; exact ih.2.1, ?_⟩
    simp only [List.mem_append, not_or]
    exact ⟨ih.2.2, c⟩

end TLVerif.Rpccalls
