/-!
Model of the request-memory accounting of `pkg/rpc/server.go`: `requestBufTake`, `acquireRequestSema`
(`TryAcquire`, then `Acquire` with the connection's close context) and `releaseRequestBuf`, over a
minimal restatement of `internal/vkgo/pkg/semaphore.Weighted` (each function = one critical section under
`s.mu`; the full semaphore property is C42's).

`held` is ghost state: the non-forced acquisitions that were admitted and not yet released, i.e. the
request memory the server currently accounts for, request by request.
-/
namespace TLVerif.Rpccalls

structure Sem where
  size : Int
  cur : Int
  waiters : List (Nat × Int)   -- FIFO of (request id, n)
  held : List (Nat × Int)      -- ghost
deriving Repr

inductive SEv where
  | admitted (id : Nat)      -- TryAcquire / Acquire fast path succeeded
  | tryFail (id : Nat)       -- TryAcquire returned false
  | queued (id : Nat)        -- Acquire pushed a waiter
  | doomed (id : Nat)        -- Acquire with n > size: waits for its context only
  | woken (id : Nat)         -- notifyWaiters admitted a queued waiter
  | cancelled (id : Nat)     -- queued waiter left on context cancellation (Acquire returns the error)
  | released (id : Nat)
  | panic                    -- "semaphore: released more than held"
deriving DecidableEq, Repr

def Sem.new (size : Int) : Sem := { size := size, cur := 0, waiters := [], held := [] }

/-- `requestBufTake` -/
def requestBufTake (bufSize bodySize : Int) : Int := max bodySize bufSize

/-- `notifyWaiters`: admit queued waiters from the front while they fit -/
def notifyLoop (size : Int) : Int → List (Nat × Int) → Int × List (Nat × Int) × List (Nat × Int)
  | cur, [] => (cur, [], [])
  | cur, (id, n) :: t =>
    if size - cur < n then (cur, (id, n) :: t, [])
    else
      let r := notifyLoop size (cur + n) t
      (r.1, r.2.1, (id, n) :: r.2.2)

def Sem.notify (s : Sem) : Sem × List SEv :=
  let r := notifyLoop s.size s.cur s.waiters
  ({ s with cur := r.1, waiters := r.2.1, held := s.held ++ r.2.2 }, r.2.2.map (fun a => SEv.woken a.1))

def heldAmount (id : Nat) : List (Nat × Int) → Option Int
  | [] => none
  | (i, n) :: t => if i = id then some n else heldAmount id t

def eraseId (id : Nat) : List (Nat × Int) → List (Nat × Int)
  | [] => []
  | (i, n) :: t => if i = id then t else (i, n) :: eraseId id t

/-- `s.waiters.Front() == elem` -/
def isFront (id : Nat) : List (Nat × Int) → Bool
  | (i0, _) :: _ => i0 == id
  | [] => false

inductive SOp where
  /-- `TryAcquire(n)` for request `id` -/
  | tryAcq (id : Nat) (n : Int)
  /-- first critical section of `Acquire(ctx, n)` -/
  | acquire (id : Nat) (n : Int)
  /-- the context of a queued `Acquire` is cancelled (connection closed) -/
  | cancel (id : Nat)
  /-- `releaseRequestBuf(taken, …)` of the admitted request `id` -/
  | release (id : Nat)
deriving DecidableEq, Repr

def Sem.fits (s : Sem) (n : Int) : Bool := s.size - s.cur ≥ n && s.waiters.isEmpty

def Sem.step (s : Sem) : SOp → Sem × List SEv
  | .tryAcq id n =>
    if s.fits n then ({ s with cur := s.cur + n, held := s.held ++ [(id, n)] }, [.admitted id])
    else (s, [.tryFail id])
  | .acquire id n =>
    if s.fits n then ({ s with cur := s.cur + n, held := s.held ++ [(id, n)] }, [.admitted id])
    else if n > s.size then (s, [.doomed id])
    else ({ s with waiters := s.waiters ++ [(id, n)] }, [.queued id])
  | .cancel id =>
    if (heldAmount id s.waiters).isNone then (s, [])   -- not queued (never was, or already admitted)
    else
      let s1 := { s with waiters := eraseId id s.waiters }
      -- `if isFront && s.size >= s.cur { s.notifyWaiters() }` (`>=`: a zero-weight waiter fits when size == cur)
      if isFront id s.waiters && s1.size ≥ s1.cur then (s1.notify.1, SEv.cancelled id :: s1.notify.2)
      else (s1, [.cancelled id])
  | .release id =>
    match heldAmount id s.held with
    | none => (s, [])
    | some n =>
      let s1 := { s with cur := s.cur - n, held := eraseId id s.held }
      if n = 0 then (s1, [.released id])        -- `if taken != 0 { s.reqMemSem.Release(…) }`: no Release, no wake-up
      else if s1.cur < 0 then (s1, [.panic])
      else (s1.notify.1, SEv.released id :: s1.notify.2)

def Sem.run (s : Sem) : List SOp → Sem × List SEv
  | [] => (s, [])
  | op :: ops =>
    let (s1, e1) := s.step op
    let (s2, e2) := Sem.run s1 ops
    (s2, e1 ++ e2)

def sumHeld : List (Nat × Int) → Int
  | [] => 0
  | (_, n) :: t => n + sumHeld t

end TLVerif.Rpccalls
