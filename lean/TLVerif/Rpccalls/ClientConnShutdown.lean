import TLVerif.Rpccalls.ClientConnLemmas
/-!
Graceful shutdown of a `clientConn` (`rpcServerWantsFin` received): the connection must be closed by whoever
takes the in-flight count to zero — a response, an RPC error, an explicit cancel **or a local deadline** — and
after the close the connect loop (`continueRunningImpl`, `setClientConn`, `sendLoop`) sends every call that was
queued meanwhile.  Lemmas for `Props/C38.lean`.
-/
namespace TLVerif.Rpccalls

/-- protocol of `goConnect`: `run()` (hence `setClientConn`) is entered only after `continueRunningImpl` of the
previous connection, whose `massCancelRequestsLocked` reset `isShutdown`; `shutdown()` itself needs a connection -/
def Op.cwb (σ : Conn) : Op → Bool
  | .connect => !σ.isShutdown
  | _ => true

/-- histories in which the connect loop behaves as `goConnect` does (no other assumption) -/
inductive CReach : List Op → Conn → List Ev → Prop
  | init : CReach [] Conn.init []
  | snoc {ops σ evs op σ' e} : CReach ops σ evs → op.cwb σ = true → step σ op = .ok (σ', e) →
      CReach (ops ++ [op]) σ' (evs ++ e)

theorem CReach.reach {ops σ evs} (h : CReach ops σ evs) : Reach ops σ evs := by
  induction h with
  | init => exact .init
  | snoc _ _ hs ih => exact .snoc ih hs

/-- a connection in graceful shutdown with nothing in flight does not stay open -/
def ShutInv (σ : Conn) : Prop := σ.hasConn = true → σ.isShutdown = true → σ.inFlight ≠ 0

theorem massCancel_flags {σ σ' e} (h : massCancel σ = .ok (σ', e)) : σ'.isShutdown = false := by
  unfold massCancel at h
  split at h
  · simp at h
  · simp only [Except.ok.injEq, Prod.mk.injEq] at h
    obtain ⟨rfl, -⟩ := h
    rfl

theorem finishStep_shut {σ q r σ' e} (hi : ShutInv σ) (h : finishStep σ q r = .ok (σ', e)) : ShutInv σ' := by
  unfold finishStep at h
  split at h
  · simp only [Except.ok.injEq, Prod.mk.injEq] at h; obtain ⟨rfl, -⟩ := h; exact hi
  · dsimp only at h
    split at h
    · simp at h
    · split at h
      · simp only [Except.ok.injEq, Prod.mk.injEq] at h; obtain ⟨rfl, -⟩ := h
        intro hc; simp at hc
      · rename_i hcond
        simp only [Except.ok.injEq, Prod.mk.injEq] at h; obtain ⟨rfl, -⟩ := h
        intro hc hs hn
        simp only at hc hs hn
        simp [hc, hs, hn] at hcond

theorem cancelStep_shut {σ q σ' e} (hi : ShutInv σ) (h : cancelStep σ q = .ok (σ', e)) : ShutInv σ' := by
  unfold cancelStep at h
  split at h
  · simp only [Except.ok.injEq, Prod.mk.injEq] at h; obtain ⟨rfl, -⟩ := h; exact hi
  · dsimp only at h
    split at h
    · simp only [Except.ok.injEq, Prod.mk.injEq] at h; obtain ⟨rfl, -⟩ := h; exact hi
    · split at h
      · simp at h
      · split at h
        · rename_i hcond
          simp only [Except.ok.injEq, Prod.mk.injEq] at h; obtain ⟨rfl, -⟩ := h
          intro hc; simp only at hc; simp [hc] at hcond
        · split at h
          · simp only [Except.ok.injEq, Prod.mk.injEq] at h; obtain ⟨rfl, -⟩ := h
            intro hc; simp at hc
          · rename_i hcond
            split at h <;>
            · simp only [Except.ok.injEq, Prod.mk.injEq] at h; obtain ⟨rfl, -⟩ := h
              intro hc hs hn
              simp only at hc hs hn
              simp [hs, hn] at hcond

theorem shutInv_step {σ op σ' e} (hi : ShutInv σ) (hc : op.cwb σ = true) (h : step σ op = .ok (σ', e)) :
    ShutInv σ' := by
  have mass : ∀ σ0 σ1 e0, massCancel σ0 = .ok (σ1, e0) → σ'.isShutdown = σ1.isShutdown → ShutInv σ' := by
    intro σ0 σ1 e0 hm he _ hs
    rw [he, massCancel_flags hm] at hs; simp at hs
  cases op with
  | setup o q f dl cb =>
    simp only [step] at h
    rcases setupStep_spec h with ⟨rfl, -⟩ | ⟨-, -, rfl⟩
    · exact hi
    · exact hi
  | cancel q => simp only [step] at h; exact cancelStep_shut hi h
  | resp q p => simp only [step] at h; exact finishStep_shut hi h
  | rerr q p => simp only [step] at h; exact finishStep_shut hi h
  | sfin =>
    simp only [step] at h
    unfold shutdownStep at h
    split at h
    · simp only [Except.ok.injEq, Prod.mk.injEq] at h; obtain ⟨rfl, -⟩ := h; exact hi
    · dsimp only at h
      split at h
      · rename_i hn
        simp only [Except.ok.injEq, Prod.mk.injEq] at h; obtain ⟨rfl, -⟩ := h
        intro _ _; simpa using hn
      · simp only [Except.ok.injEq, Prod.mk.injEq] at h; obtain ⟨rfl, -⟩ := h
        intro hc; simp at hc
  | unk => simp only [step, Except.ok.injEq, Prod.mk.injEq] at h; obtain ⟨rfl, -⟩ := h; exact hi
  | bi => simp only [step, Except.ok.injEq, Prod.mk.injEq] at h; obtain ⟨rfl, -⟩ := h; exact hi
  | send =>
    simp only [step] at h
    unfold sendStep at h
    split at h
    · simp only [Except.ok.injEq, Prod.mk.injEq] at h; obtain ⟨rfl, -⟩ := h; exact hi
    · split at h
      · simp only [Except.ok.injEq, Prod.mk.injEq] at h; obtain ⟨rfl, -⟩ := h; exact hi
      · dsimp only at h
        split at h
        · simp only [Except.ok.injEq, Prod.mk.injEq] at h; obtain ⟨rfl, -⟩ := h; exact hi
        · rename_i hs
          split at h
          · simp at h
          · simp only [Except.ok.injEq, Prod.mk.injEq] at h; obtain ⟨rfl, -⟩ := h
            intro _ hs'; simp only at hs'; simp [hs'] at hs
  | connect =>
    simp only [Op.cwb, Bool.not_eq_eq_eq_not, Bool.not_true] at hc
    simp only [step] at h
    split at h <;>
    · simp only [Except.ok.injEq, Prod.mk.injEq] at h; obtain ⟨rfl, -⟩ := h
      intro _ hs; simp [hc] at hs
  | drop =>
    simp only [step] at h
    unfold dropStep at h
    split at h
    · simp only [Except.ok.injEq, Prod.mk.injEq] at h; obtain ⟨rfl, -⟩ := h
      intro hc; simp at hc
    · simp only [Except.ok.injEq, Prod.mk.injEq] at h; obtain ⟨rfl, -⟩ := h; exact hi
  | disc good =>
    simp only [step] at h
    cases hm : massCancel σ with
    | error p => simp [hm] at h
    | ok r =>
      obtain ⟨σ1, evs1⟩ := r
      simp only [hm, Except.ok.injEq, Prod.mk.injEq] at h
      obtain ⟨rfl, -⟩ := h
      exact mass σ σ1 evs1 hm (by split <;> rfl)
  | gc =>
    simp only [step] at h
    split at h
    · exact mass σ σ' e h rfl
    · simp only [Except.ok.injEq, Prod.mk.injEq] at h; obtain ⟨rfl, -⟩ := h; exact hi
  | close =>
    simp only [step] at h
    unfold dropStep at h
    split at h
    · simp only [Except.ok.injEq, Prod.mk.injEq] at h; obtain ⟨rfl, -⟩ := h
      intro hc; simp at hc
    · rename_i hnc
      simp only [Except.ok.injEq, Prod.mk.injEq] at h; obtain ⟨rfl, -⟩ := h
      intro hc; simp only at hc hnc; simp [hc] at hnc

theorem creach_shutInv {ops σ evs} (h : CReach ops σ evs) : ShutInv σ := by
  induction h with
  | init => intro hc; simp [Conn.init] at hc
  | snoc _ hc hs ih => exact shutInv_step ih hc hs

/-- every queued request whose call is registered is written by `moveRequestsToSendLocked` -/
theorem moveReqs_all_out {wq : List WQ} {m : List (Nat × Call)} {n : Int} {m' n' out}
    (h1 : wqOK m wq) (h2 : (reqQids wq).Nodup) (h : moveReqs wq m n = .ok (m', n', out)) :
    ∀ o q, WQ.req o q ∈ wq → (∃ c, lookup q m = some c) → Pkt.req q ∈ out := by
  induction wq generalizing m n m' n' out with
  | nil => intro o q hq; simp at hq
  | cons w t ih =>
    cases w with
    | cancel q0 =>
      have h1' : wqOK m t := fun o q hq => h1 o q (by simp [hq])
      simp only [moveReqs] at h
      cases hr : moveReqs t m n with
      | error p => simp [hr] at h
      | ok r =>
        obtain ⟨m1, n1, out1⟩ := r
        simp only [hr, Except.ok.injEq, Prod.mk.injEq] at h
        obtain ⟨-, -, rfl⟩ := h
        intro o q hq hl
        simp only [List.mem_cons, reduceCtorEq, false_or] at hq
        have := ih h1' (by simpa [reqQids] using h2) hr o q hq hl
        simp [this]
    | req o0 q0 =>
      simp only [reqQids, List.nodup_cons] at h2
      have h1' : wqOK m t := fun o q hq => h1 o q (by simp [hq])
      simp only [moveReqs] at h
      cases hl0 : lookup q0 m with
      | none =>
        simp only [hl0] at h
        intro o q hq hl
        simp only [List.mem_cons, WQ.req.injEq] at hq
        rcases hq with ⟨-, rfl⟩ | hq
        · obtain ⟨c, hc⟩ := hl; rw [hl0] at hc; simp at hc
        · exact ih h1' h2.2 h o q hq hl
      | some c0 =>
        obtain ⟨ho, hu⟩ := h1 o0 q0 (by simp) c0 hl0
        simp only [hl0, hu, Bool.not_true, Bool.false_eq_true, if_false, ho, bne_self_eq_false] at h
        have h1'' : wqOK (markSent q0 m) t := by
          intro o q hq c' hc'
          have hne : q ≠ q0 := fun e => h2.1 (e ▸ mem_reqQids hq)
          rw [lookup_markSent_ne hne] at hc'
          exact h1' o q hq c' hc'
        cases hr : moveReqs t (markSent q0 m) (n + 1) with
        | error p => simp [hr] at h
        | ok r =>
          obtain ⟨m1, n1, out1⟩ := r
          simp only [hr, Except.ok.injEq, Prod.mk.injEq] at h
          obtain ⟨-, -, rfl⟩ := h
          intro o q hq hl
          simp only [List.mem_cons, WQ.req.injEq] at hq
          rcases hq with ⟨-, rfl⟩ | hq
          · simp
          · have hne : q ≠ q0 := fun e => h2.1 (e ▸ mem_reqQids hq)
            have := ih h1'' h2.2 hr o q hq (by rw [lookup_markSent_ne hne]; exact hl)
            simp [this]

theorem mem_requeue_of_mem {k : Nat} {c : Call} {kept : List (Nat × Call)} (h : (k, c) ∈ kept) :
    WQ.req c.owner c.qid ∈ requeue kept := by
  unfold requeue
  rw [List.mem_mergeSort]
  simp only [List.mem_map]
  exact ⟨(k, c), h, rfl⟩

end TLVerif.Rpccalls
