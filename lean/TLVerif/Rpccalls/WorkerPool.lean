/-!
Model of `pkg/rpc/server_workerpool.go` (`workerPool`: `Get`, `Put`, `GC`, `Close`).
Each function of the model is one critical section under `t.mu`.  `Get` has two kinds of sections: the
first entry (`getEnter`) and every re-check of the wait condition after `t.cond.Wait()` returned
(`recheck`; a re-check may happen at any time — signalled, broadcast or spurious).

`busy` and `nextId` are ghost state: the workers handed out by `Get` and not yet given back by `Put`
(the handlers that may be executing), and the identity the caller (`Server.acquireWorker`) gives to a
newly created worker.
-/
namespace TLVerif.Rpccalls

structure Pool where
  closed : Bool
  free : List Nat      -- t.free, index 0 first (oldest); `Get` pops the last element
  created : Int
  create : Nat
  waiting : Nat        -- goroutines inside `t.cond.Wait()`
  busy : List Nat      -- ghost
  nextId : Nat         -- ghost
deriving Repr

inductive PEv where
  | got (w : Nat) (isNew : Bool)   -- Get returned (v, true) / (nil, true): caller runs worker `w`
  | closedRet                      -- Get returned (nil, false)
  | blocked                        -- Get went to `t.cond.Wait()`
  | chanClosed (w : Nat)           -- `close(w.ch)`: worker goroutine `w` will quit
deriving DecidableEq, Repr

/-- `workerPoolNew(create, _)` -/
def Pool.new (create : Int) : Pool :=
  { closed := false, free := [], created := 0, create := if create < 1 then 1 else create.toNat,
    waiting := 0, busy := [], nextId := 0 }

/-- negation of the wait condition of `Get` -/
def Pool.ready (p : Pool) : Bool := p.closed || !p.free.isEmpty || p.created < p.create

/-- tail of `Get` once the wait condition is false -/
def Pool.take (p : Pool) : Pool × List PEv :=
  if p.closed then (p, [.closedRet])
  else match p.free.getLast? with
    | some w => ({ p with free := p.free.dropLast, busy := w :: p.busy }, [.got w false])
    | none =>
      ({ p with created := p.created + 1, busy := p.nextId :: p.busy, nextId := p.nextId + 1 },
       [.got p.nextId true])

def Pool.gcLocked (expired : Bool) (p : Pool) : Pool × List PEv :=
  match p.free with
  | w0 :: t => if expired then ({ p with free := t, created := p.created - 1 }, [.chanClosed w0]) else (p, [])
  | [] => (p, [])

inductive POp where
  /-- first critical section of `Get` -/
  | getEnter
  /-- one waiting `Get` re-checks its condition -/
  | recheck
  /-- `Put(w)`; `expired` = `now.After(t.free[0].gcTime)` -/
  | put (w : Nat) (expired : Bool)
  /-- `GC(now)` -/
  | gc (expired : Bool)
  | close
deriving DecidableEq, Repr

def Pool.step (p : Pool) : POp → Pool × List PEv
  | .getEnter => if p.ready then p.take else ({ p with waiting := p.waiting + 1 }, [.blocked])
  | .recheck =>
    if p.waiting = 0 then (p, [])
    else if p.ready then ({ p with waiting := p.waiting - 1 }).take else (p, [])
  | .put w expired =>
    if p.closed then ({ p with created := p.created - 1, busy := p.busy.erase w }, [.chanClosed w])
    else
      let p1 := (p.gcLocked expired).1
      ({ p1 with free := p1.free ++ [w], busy := p1.busy.erase w }, (p.gcLocked expired).2)
  | .gc expired => p.gcLocked expired
  | .close =>
    ({ p with created := p.created - p.free.length, free := [], closed := true }, p.free.map PEv.chanClosed)

def Pool.run (p : Pool) : List POp → Pool × List PEv
  | [] => (p, [])
  | op :: ops =>
    let (p1, e1) := p.step op
    let (p2, e2) := Pool.run p1 ops
    (p2, e1 ++ e2)

/-- protocol of `worker.run`: only a worker that was handed out gives itself back -/
def POp.guard (p : Pool) : POp → Bool
  | .put w _ => p.busy.contains w
  | _ => true

end TLVerif.Rpccalls
