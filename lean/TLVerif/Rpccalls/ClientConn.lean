/-!
Model of the call bookkeeping of `clientConn` in `pkg/rpc/client_conn.go` (+ `setupCallLocked` as it is
called from `pkg/rpc/client.go`).  Every function of the model is one *mutex-protected critical section*
of the Go code (`pc.mu`), so a history of the connection is a list of such atomic steps (`Op`) in the
order in which the sections acquired the mutex; the concurrency of the real code is exactly the set of
all such lists.

* `calls` models `pc.calls map[int64]*Response` as an association list keyed by the query id.
  A `Call` is the `*Response` used as call context: `owner` is the identity of that object (= the
  caller waiting on its result channel / callback), `qid` its `queryID` field, `unsent` is
  `cctx.req != nil`.
* `writeQ` models `pc.writeQ`; a request entry remembers the identity of the `*Request` (the owner)
  because `moveRequestsToSendLocked` compares pointers.
* Go panics are an explicit outcome (`Panic`), so "the `inFlight < 0` panic is unreachable" is a theorem.
* Time is abstracted: a call's deadline is `none | past | future` relative to all `time.Now()` calls of
  the history (the harness pins deadlines far in the past / future).
* Map iteration order in `massCancelRequestsLocked` is not deterministic in Go; the model re-queues the
  surviving requests in ascending query-id order (the harness normalises the queue the same way).
-/
namespace TLVerif.Rpccalls

inductive Deadline where
  | none | past | future
deriving DecidableEq, Repr

structure Call where
  owner : Nat
  qid : Nat
  unsent : Bool
  failNoConn : Bool
  dl : Deadline
  cb : Bool
deriving DecidableEq, Repr

/-- element of `pc.writeQ` (`writeReqCancel`) -/
inductive WQ where
  | req (owner qid : Nat)
  | cancel (qid : Nat)
deriving DecidableEq, Repr

/-- what a call completes with (`callResult`) -/
inductive Res where
  /-- `rpcReqResultHeader` for query `hq` read from the wire; body `payload` -/
  | resp (hq payload : Nat)
  /-- `rpcReqResultError` for query `hq` read from the wire with error code `code` -/
  | rpcErr (hq code : Nat)
  | sideEffect      -- ErrClientConnClosedSideEffect
  | noSideEffect    -- ErrClientConnClosedNoSideEffect
  | deadline        -- context.DeadlineExceeded
deriving DecidableEq, Repr

/-- packets written by `sendLoop` -/
inductive Pkt where
  | req (qid : Nat) | cancel (qid : Nat) | fin
deriving DecidableEq, Repr

inductive Ev where
  /-- result delivered to the channel (`viaCb = false`) or returned as finished callback of the call
  context `owner`, whose own `queryID` field is `qid` -/
  | deliver (owner : Nat) (viaCb : Bool) (qid : Nat) (r : Res)
  /-- `cancelCall` returned the call context to its caller -/
  | cancelled (owner : Nat) (qid : Nat) (wasUnsent : Bool)
  | pkt (p : Pkt)
  /-- a `*PacketConn` was taken out of `pc.conn` to be closed -/
  | closeConn
  /-- plain return value of the section (error enum / bool) -/
  | ret (code : Nat)
deriving DecidableEq, Repr

inductive Panic where
  | inFlightNeg   -- "rpc.Client invariant violation: pc.inFlight < 0"
  | doubleSent    -- "rpc.Client invariant violation: double sent"
  | wrongRequest  -- "rpc.Client invariant violation: wrong request in queue"
deriving DecidableEq, Repr

structure Conn where
  calls : List (Nat × Call)
  writeQ : List WQ
  inFlight : Int
  isShutdown : Bool
  wantsFin : Bool      -- writeClientWantsFin
  builtin : Bool       -- writeBuiltin
  hasConn : Bool       -- pc.conn != nil
  waiting : Bool       -- waitingToReconnect
  isOpen : Bool        -- pc.closeCC != nil
deriving Repr

def Conn.init : Conn :=
  { calls := [], writeQ := [], inFlight := 0, isShutdown := false, wantsFin := false, builtin := false,
    hasConn := false, waiting := false, isOpen := true }

/-! ### map operations -/

def lookup (k : Nat) : List (Nat × Call) → Option Call
  | [] => none
  | (k', c) :: t => if k' = k then some c else lookup k t

def eraseKey (k : Nat) : List (Nat × Call) → List (Nat × Call)
  | [] => []
  | (k', c) :: t => if k' = k then t else (k', c) :: eraseKey k t

def insertKey (k : Nat) (c : Call) (m : List (Nat × Call)) : List (Nat × Call) :=
  (k, c) :: eraseKey k m

/-- `response.req = nil` for the entry with key `k` -/
def markSent (k : Nat) : List (Nat × Call) → List (Nat × Call)
  | [] => []
  | (k', c) :: t => if k' = k then (k', { c with unsent := false }) :: t else (k', c) :: markSent k t

/-! ### the critical sections -/

abbrev StepRes := Except Panic (Conn × List Ev)

inductive Op where
  /-- `setupCallLocked(req, cctx)`: call context `owner` with `queryID = qid` -/
  | setup (owner qid : Nat) (fail : Bool) (dl : Deadline) (cb : Bool)
  /-- `cancelCallImpl(qid)` -/
  | cancel (qid : Nat)
  /-- `handlePacket(rpcReqResultHeader{qid} ++ payload)` → `finishCall(qid, …, true, nil)` -/
  | resp (qid payload : Nat)
  /-- `handlePacket(rpcReqResultError{qid, code})` → `finishCall(qid, …, false, &Error{code})` -/
  | rerr (qid code : Nat)
  /-- `handlePacket(rpcServerWantsFin)` → `shutdown()` -/
  | sfin
  /-- `handlePacket(unknown tag)` -/
  | unk
  /-- `receiveLoop` saw a builtin (ping/pong) packet: `writeBuiltin = true` -/
  | bi
  /-- `sendLoop` runs until it blocks in `writeQCond.Wait()` -/
  | send
  /-- `setClientConn(conn)` -/
  | connect
  /-- `dropClientConn()` -/
  | drop
  /-- `continueRunningImpl(previousGoodHandshake)` -/
  | disc (good : Bool)
  /-- top of the `goConnect` loop: `if pc.closeCC == nil { massCancelRequestsLocked() }` -/
  | gc
  /-- `close()` -/
  | close
deriving DecidableEq, Repr

def setupStep (σ : Conn) (o q : Nat) (fail : Bool) (dl : Deadline) (cb : Bool) : StepRes :=
  if !σ.isOpen then .ok (σ, [.ret 1])                       -- ErrClientClosed
  else if fail && σ.waiting then .ok (σ, [.ret 2])          -- ErrClientConnClosedNoSideEffect
  else
    let c : Call := { owner := o, qid := q, unsent := true, failNoConn := fail, dl := dl, cb := cb }
    .ok ({ σ with calls := insertKey q c σ.calls, writeQ := σ.writeQ ++ [.req o q] }, [.ret 0])

def cancelStep (σ : Conn) (q : Nat) : StepRes :=
  match lookup q σ.calls with
  | none => .ok (σ, [.ret 0])
  | some c =>
    let σ1 := { σ with calls := eraseKey q σ.calls }
    if c.unsent then .ok (σ1, [.cancelled c.owner c.qid true])
    else if (σ1.inFlight - 1 : Int) < 0 then .error .inFlightNeg
    else
      let σ2 := { σ1 with inFlight := σ1.inFlight - 1 }
      if !σ2.hasConn then .ok (σ2, [.cancelled c.owner c.qid false])
      else if σ2.isShutdown && σ2.inFlight == 0 then
        .ok ({ σ2 with hasConn := false }, [.cancelled c.owner c.qid false, .closeConn])
      else if c.dl != .past then
        .ok ({ σ2 with writeQ := σ2.writeQ ++ [.cancel q] }, [.cancelled c.owner c.qid false])
      else .ok (σ2, [.cancelled c.owner c.qid false])

def finishStep (σ : Conn) (q : Nat) (r : Res) : StepRes :=
  match lookup q σ.calls with
  | none => .ok (σ, [])
  | some c =>
    let σ1 := { σ with calls := eraseKey q σ.calls }
    if (σ1.inFlight - 1 : Int) < 0 then .error .inFlightNeg
    else
      let σ2 := { σ1 with inFlight := σ1.inFlight - 1 }
      if σ2.hasConn && σ2.isShutdown && σ2.inFlight == 0 then
        .ok ({ σ2 with hasConn := false }, [.deliver c.owner c.cb c.qid r, .closeConn])
      else .ok (σ2, [.deliver c.owner c.cb c.qid r])

def shutdownStep (σ : Conn) : StepRes :=
  if !σ.hasConn || σ.isShutdown then .ok (σ, [])
  else
    let σ1 := { σ with isShutdown := true }
    if σ1.inFlight != 0 then .ok ({ σ1 with wantsFin := true }, [])
    else .ok ({ σ1 with hasConn := false }, [.closeConn])

/-- the loop over `pc.calls` in `massCancelRequestsLocked`: returns surviving calls, `inFlight`, deliveries -/
def massLoop (isOpen : Bool) : List (Nat × Call) → Int → Except Panic (List (Nat × Call) × Int × List Ev)
  | [], n => .ok ([], n, [])
  | (k, c) :: t, n =>
    if !c.unsent then
      if (n - 1 : Int) < 0 then .error .inFlightNeg
      else match massLoop isOpen t (n - 1) with
        | .error p => .error p
        | .ok (kept, n', evs) => .ok (kept, n', .deliver c.owner c.cb c.qid .sideEffect :: evs)
    else if c.failNoConn || !isOpen then
      match massLoop isOpen t n with
      | .error p => .error p
      | .ok (kept, n', evs) => .ok (kept, n', .deliver c.owner c.cb c.qid .noSideEffect :: evs)
    else if c.dl == .past then
      match massLoop isOpen t n with
      | .error p => .error p
      | .ok (kept, n', evs) => .ok (kept, n', .deliver c.owner c.cb c.qid .deadline :: evs)
    else
      match massLoop isOpen t n with
      | .error p => .error p
      | .ok (kept, n', evs) => .ok ((k, c) :: kept, n', evs)

def wqQid : WQ → Nat
  | .req _ q => q
  | .cancel q => q

/-- re-queued requests of the surviving calls (`writeReqCancel{req: cctx.req, queryID: cctx.req.queryID}`),
in ascending query-id order (determinisation of Go's map order) -/
def requeue (kept : List (Nat × Call)) : List WQ :=
  (kept.map (fun kc => WQ.req kc.2.owner kc.2.qid)).mergeSort (fun a b => wqQid a ≤ wqQid b)

def massCancel (σ : Conn) : StepRes :=
  match massLoop σ.isOpen σ.calls σ.inFlight with
  | .error p => .error p
  | .ok (kept, n, evs) =>
    .ok ({ σ with builtin := false, isShutdown := false, wantsFin := false,
                  calls := kept, inFlight := n, writeQ := requeue kept }, evs)

/-- `moveRequestsToSendLocked`: returns calls, inFlight, the local write queue of `sendLoop` -/
def moveReqs : List WQ → List (Nat × Call) → Int → Except Panic (List (Nat × Call) × Int × List Pkt)
  | [], calls, n => .ok (calls, n, [])
  | .cancel q :: t, calls, n =>
    match moveReqs t calls n with
    | .error p => .error p
    | .ok (calls', n', out) => .ok (calls', n', .cancel q :: out)
  | .req o q :: t, calls, n =>
    match lookup q calls with
    | none => moveReqs t calls n
    | some c =>
      if !c.unsent then .error .doubleSent
      else if c.owner != o then .error .wrongRequest
      else match moveReqs t (markSent q calls) (n + 1) with
        | .error p => .error p
        | .ok (calls', n', out) => .ok (calls', n', .req q :: out)

def sendStep (σ : Conn) : StepRes :=
  if !σ.hasConn then .ok (σ, [.ret 0])
  else if !(σ.wantsFin || σ.builtin || (!σ.isShutdown && !σ.writeQ.isEmpty)) then .ok (σ, [])
  else
    let fin : List Ev := if σ.wantsFin then [.pkt .fin] else []
    let σ1 := { σ with wantsFin := false, builtin := false }
    if σ.isShutdown then .ok (σ1, fin)
    else match moveReqs σ.writeQ σ.calls σ.inFlight with
      | .error p => .error p
      | .ok (calls, n, out) =>
        .ok ({ σ1 with calls := calls, inFlight := n, writeQ := [] }, out.map Ev.pkt ++ fin)

def dropStep (σ : Conn) : StepRes :=
  if σ.hasConn then .ok ({ σ with hasConn := false }, [.closeConn]) else .ok (σ, [])

def step (σ : Conn) : Op → StepRes
  | .setup o q fail dl cb => setupStep σ o q fail dl cb
  | .cancel q => cancelStep σ q
  | .resp q p => finishStep σ q (.resp q p)
  | .rerr q code => finishStep σ q (.rpcErr q code)
  | .sfin => shutdownStep σ
  | .unk => .ok (σ, [])
  | .bi => .ok ({ σ with builtin := true }, [])
  | .send => sendStep σ
  | .connect =>
    if !σ.isOpen then .ok (σ, [.ret 0])
    else .ok ({ σ with hasConn := true, waiting := false }, [.ret 1])
  | .drop => dropStep σ
  | .disc good =>
    match massCancel σ with
    | .error p => .error p
    | .ok (σ1, evs) =>
      let σ2 := if good then σ1 else { σ1 with waiting := true }
      .ok (σ2, evs ++ [.ret (if σ2.isOpen && !σ2.calls.isEmpty then 1 else 0)])
  | .gc => if !σ.isOpen then massCancel σ else .ok (σ, [])
  | .close => dropStep { σ with isOpen := false }

/-- a whole history; events are accumulated -/
def run (σ : Conn) : List Op → StepRes
  | [] => .ok (σ, [])
  | op :: ops =>
    match step σ op with
    | .error p => .error p
    | .ok (σ1, e1) =>
      match run σ1 ops with
      | .error p => .error p
      | .ok (σ2, e2) => .ok (σ2, e1 ++ e2)

end TLVerif.Rpccalls
