import TLVerif.Rpccalls.ClientConn
/-!
Helper lemmas about the `clientConn` model: map operations, provenance of calls and events of one step,
and the invariants of reachable states (general and under the protocol guard).
-/
namespace TLVerif.Rpccalls

/-! ### reachability -/

/-- `Reach ops σ evs`: the history `ops` (a list of critical sections, in mutex order) runs without panic
from the initial connection to `σ`, producing the events `evs`. -/
inductive Reach : List Op → Conn → List Ev → Prop
  | init : Reach [] Conn.init []
  | snoc {ops σ evs op σ' e} : Reach ops σ evs → step σ op = .ok (σ', e) → Reach (ops ++ [op]) σ' (evs ++ e)

/-- query ids of the requests waiting in the write queue -/
def reqQids : List WQ → List Nat
  | [] => []
  | .req _ q :: t => q :: reqQids t
  | .cancel _ :: t => reqQids t

/-- protocol guard of one step, evaluated in the state in which the step is taken:
* a call is set up with a query id that is not in use (ids come from an atomic counter and are never reused);
* a response / error packet for query `q` arrives only if the request `q` was written to the connection
  (the call is marked sent) or the call is already gone. -/
def Op.wb (σ : Conn) : Op → Bool
  | .setup _ q _ _ _ => (lookup q σ.calls).isNone && !(reqQids σ.writeQ).contains q
  | .resp q _ => match lookup q σ.calls with
    | some c => !c.unsent
    | none => true
  | .rerr q _ => match lookup q σ.calls with
    | some c => !c.unsent
    | none => true
  | _ => true

/-- reachable by a history every step of which satisfies the protocol guard -/
inductive GReach : List Op → Conn → List Ev → Prop
  | init : GReach [] Conn.init []
  | snoc {ops σ evs op σ' e} : GReach ops σ evs → op.wb σ = true → step σ op = .ok (σ', e) →
      GReach (ops ++ [op]) σ' (evs ++ e)

theorem GReach.reach {ops σ evs} (h : GReach ops σ evs) : Reach ops σ evs := by
  induction h with
  | init => exact .init
  | snoc _ _ hs ih => exact .snoc ih hs

theorem run_append {σ : Conn} {ops1 ops2 : List Op} {σ1 σ2 e1 e2} (h1 : run σ ops1 = .ok (σ1, e1))
    (h2 : run σ1 ops2 = .ok (σ2, e2)) : run σ (ops1 ++ ops2) = .ok (σ2, e1 ++ e2) := by
  induction ops1 generalizing σ e1 with
  | nil => simp [run] at h1; obtain ⟨rfl, rfl⟩ := h1; simpa using h2
  | cons op t ih =>
    simp only [run, List.cons_append] at h1 ⊢
    cases hs : step σ op with
    | error p => simp [hs] at h1
    | ok r =>
      obtain ⟨σa, ea⟩ := r
      simp only [hs] at h1 ⊢
      cases hr : run σa t with
      | error p => simp [hr] at h1
      | ok r2 =>
        obtain ⟨σb, eb⟩ := r2
        simp only [hr, Except.ok.injEq, Prod.mk.injEq] at h1
        obtain ⟨rfl, rfl⟩ := h1
        rw [ih hr]; simp

/-- `Reach` is exactly successful execution of `run` from the initial state -/
theorem reach_iff_run {ops σ evs} : Reach ops σ evs ↔ run Conn.init ops = .ok (σ, evs) := by
  constructor
  · intro h
    induction h with
    | init => rfl
    | snoc _ hs ih =>
      apply run_append ih
      simp [run, hs]
  · intro h
    suffices ∀ (ops2 ops1 : List Op) (σ1 : Conn) (e1 : List Ev) (σ2 : Conn) (e2 : List Ev), Reach ops1 σ1 e1 → run σ1 ops2 = .ok (σ2, e2) →
        Reach (ops1 ++ ops2) σ2 (e1 ++ e2) by
      simpa using this ops [] Conn.init [] σ evs .init h
    intro ops2
    induction ops2 with
    | nil => intro ops1 σ1 e1 σ2 e2 hr h; simp [run] at h; obtain ⟨rfl, rfl⟩ := h; simpa using hr
    | cons op t ih =>
      intro ops1 σ1 e1 σ2 e2 hr h
      simp only [run] at h
      cases hs : step σ1 op with
      | error p => simp [hs] at h
      | ok r =>
        obtain ⟨σa, ea⟩ := r
        simp only [hs] at h
        cases hr2 : run σa t with
        | error p => simp [hr2] at h
        | ok r2 =>
          obtain ⟨σb, eb⟩ := r2
          simp only [hr2] at h
          injection h with h
          injection h with ha hb
          subst ha; subst hb
          have := ih (ops1 ++ [op]) σa (e1 ++ ea) σb eb (.snoc hr hs) hr2
          simpa using this

/-! ### map operations -/

theorem lookup_mem {k : Nat} {m : List (Nat × Call)} {c : Call} (h : lookup k m = some c) : (k, c) ∈ m := by
  induction m with
  | nil => simp [lookup] at h
  | cons x t ih => grind [lookup]

theorem mem_eraseKey {k : Nat} {m : List (Nat × Call)} {x : Nat × Call} (h : x ∈ eraseKey k m) : x ∈ m := by
  induction m with
  | nil => simp [eraseKey] at h
  | cons y t ih => grind [eraseKey]

theorem lookup_eraseKey_ne {k k' : Nat} {m : List (Nat × Call)} (h : k' ≠ k) :
    lookup k' (eraseKey k m) = lookup k' m := by
  induction m with
  | nil => rfl
  | cons y t ih => grind [eraseKey, lookup]

theorem lookup_markSent_ne {k k' : Nat} {m : List (Nat × Call)} (h : k' ≠ k) :
    lookup k' (markSent k m) = lookup k' m := by
  induction m with
  | nil => rfl
  | cons y t ih => grind [markSent, lookup]

def keys (m : List (Nat × Call)) : List Nat := m.map (·.1)

theorem lookup_none_of_not_mem_keys {k : Nat} {m : List (Nat × Call)} (h : k ∉ keys m) : lookup k m = none := by
  induction m with
  | nil => rfl
  | cons y t ih => grind [lookup, keys]

theorem mem_keys_of_lookup {k : Nat} {m : List (Nat × Call)} {c} (h : lookup k m = some c) : k ∈ keys m := by
  have := lookup_mem h
  simp only [keys, List.mem_map]
  exact ⟨(k, c), this, rfl⟩

theorem lookup_isSome_of_mem_keys {k : Nat} {m : List (Nat × Call)} (h : k ∈ keys m) : ∃ c, lookup k m = some c := by
  induction m with
  | nil => simp [keys] at h
  | cons y t ih =>
    obtain ⟨k', c'⟩ := y
    simp only [keys, List.map_cons, List.mem_cons] at h
    simp only [lookup]
    by_cases hk : k' = k
    · simp [hk]
    · simp only [hk, if_false]
      rcases h with h | h
      · exact absurd h.symm hk
      · exact ih h

theorem keys_eraseKey_sub {k : Nat} {m : List (Nat × Call)} {x} (h : x ∈ keys (eraseKey k m)) : x ∈ keys m := by
  simp only [keys, List.mem_map] at h ⊢
  obtain ⟨y, hy, rfl⟩ := h
  exact ⟨y, mem_eraseKey hy, rfl⟩

theorem nodup_keys_eraseKey {k : Nat} {m : List (Nat × Call)} (h : (keys m).Nodup) : (keys (eraseKey k m)).Nodup := by
  induction m with
  | nil => simp [eraseKey, keys]
  | cons y t ih =>
    obtain ⟨k', c'⟩ := y
    simp only [keys, List.map_cons, List.nodup_cons] at h
    simp only [eraseKey]
    split
    · exact h.2
    · simp only [keys, List.map_cons, List.nodup_cons]
      refine ⟨fun hm => h.1 ?_, ih h.2⟩
      exact keys_eraseKey_sub hm

theorem not_mem_keys_eraseKey {k : Nat} {m : List (Nat × Call)} (h : (keys m).Nodup) : k ∉ keys (eraseKey k m) := by
  induction m with
  | nil => simp [eraseKey, keys]
  | cons y t ih =>
    obtain ⟨k', c'⟩ := y
    simp only [keys, List.map_cons, List.nodup_cons] at h
    simp only [eraseKey]
    split
    · rename_i hk; subst hk; exact h.1
    · rename_i hk
      simp only [keys, List.map_cons, List.mem_cons, not_or]
      exact ⟨fun h' => hk h'.symm, ih h.2⟩

theorem keys_markSent (k : Nat) (m : List (Nat × Call)) : keys (markSent k m) = keys m := by
  induction m with
  | nil => rfl
  | cons y t ih => grind [markSent, keys]

/-- the call context stays the same object with the same immutable fields -/
def sameCall (c c' : Call) : Prop :=
  c'.owner = c.owner ∧ c'.qid = c.qid ∧ c'.failNoConn = c.failNoConn ∧ c'.dl = c.dl ∧ c'.cb = c.cb ∧
  (c'.unsent = true → c.unsent = true)

theorem sameCall_refl (c : Call) : sameCall c c := ⟨rfl, rfl, rfl, rfl, rfl, id⟩

theorem mem_markSent {k k' : Nat} {m : List (Nat × Call)} {c' : Call} (h : (k', c') ∈ markSent k m) :
    ∃ c, (k', c) ∈ m ∧ sameCall c c' := by
  induction m with
  | nil => simp [markSent] at h
  | cons y t ih =>
    obtain ⟨k0, c0⟩ := y
    simp only [markSent] at h
    split at h
    · simp only [List.mem_cons, Prod.mk.injEq] at h
      rcases h with ⟨hk, hc⟩ | h
      · exact ⟨c0, by simp [hk], by rw [hc]; exact ⟨rfl, rfl, rfl, rfl, rfl, by simp⟩⟩
      · exact ⟨c', by simp [h], sameCall_refl _⟩
    · simp only [List.mem_cons, Prod.mk.injEq] at h
      rcases h with ⟨hk, hc⟩ | h
      · exact ⟨c0, by simp [hk], by rw [hc]; exact sameCall_refl _⟩
      · obtain ⟨c, hc, hs⟩ := ih h
        exact ⟨c, by simp [hc], hs⟩

/-! ### counting -/

def completes (o : Nat) : Ev → Bool
  | .deliver o' _ _ _ => o' == o
  | .cancelled o' _ _ => o' == o
  | _ => false

/-- number of completion events (result delivered / call context returned by cancel) of call `o` -/
def nCompl (o : Nat) (evs : List Ev) : Nat := evs.countP (completes o)
/-- number of registered call contexts owned by `o` -/
def nOwner (o : Nat) (m : List (Nat × Call)) : Nat := m.countP (fun kc => kc.2.owner == o)
def isSetupOf (o : Nat) : Op → Bool
  | .setup o' _ _ _ _ => o' == o
  | _ => false
def nSetup (o : Nat) (ops : List Op) : Nat := ops.countP (isSetupOf o)
/-- number of registered calls whose request was handed to the send loop -/
def sentCount (m : List (Nat × Call)) : Nat := m.countP (fun kc => !kc.2.unsent)

theorem nOwner_eraseKey_le (o k : Nat) (m : List (Nat × Call)) : nOwner o (eraseKey k m) ≤ nOwner o m := by
  induction m with
  | nil => simp [eraseKey]
  | cons y t ih =>
    obtain ⟨k', c'⟩ := y
    simp only [eraseKey]
    split
    · simp only [nOwner, List.countP_cons]; omega
    · simp only [nOwner, List.countP_cons] at ih ⊢; omega

theorem nOwner_eraseKey_lookup {o k : Nat} {m : List (Nat × Call)} {c : Call} (h : lookup k m = some c) :
    nOwner o (eraseKey k m) + (if c.owner == o then 1 else 0) = nOwner o m := by
  induction m with
  | nil => simp [lookup] at h
  | cons y t ih =>
    obtain ⟨k', c'⟩ := y
    simp only [lookup] at h
    simp only [eraseKey]
    split at h
    · rename_i hk
      simp only [Option.some.injEq] at h
      subst h
      simp only [hk, if_true, nOwner, List.countP_cons]
    · rename_i hk
      simp only [hk, if_false, nOwner, List.countP_cons] at ih ⊢
      have := ih h
      omega

theorem sentCount_eraseKey_lookup {k : Nat} {m : List (Nat × Call)} {c : Call} (h : lookup k m = some c) :
    sentCount (eraseKey k m) + (if c.unsent then 0 else 1) = sentCount m := by
  induction m with
  | nil => simp [lookup] at h
  | cons y t ih =>
    obtain ⟨k', c'⟩ := y
    simp only [lookup] at h
    simp only [eraseKey]
    split at h
    · rename_i hk
      simp only [Option.some.injEq] at h
      subst h
      simp only [hk, if_true, sentCount, List.countP_cons]
      cases c'.unsent <;> simp
    · rename_i hk
      simp only [hk, if_false, sentCount, List.countP_cons] at ih ⊢
      have := ih h
      omega

theorem sentCount_eraseKey_none {k : Nat} {m : List (Nat × Call)} (h : lookup k m = none) : eraseKey k m = m := by
  induction m with
  | nil => rfl
  | cons y t ih =>
    obtain ⟨k', c'⟩ := y
    simp only [lookup] at h
    simp only [eraseKey]
    split at h
    · simp at h
    · rename_i hk; simp only [hk, if_false]; rw [ih h]

theorem nOwner_markSent (o k : Nat) (m : List (Nat × Call)) : nOwner o (markSent k m) = nOwner o m := by
  induction m with
  | nil => rfl
  | cons y t ih =>
    obtain ⟨k', c'⟩ := y
    simp only [markSent]
    split
    · simp [nOwner, List.countP_cons]
    · simp only [nOwner, List.countP_cons] at ih ⊢; omega

theorem sentCount_markSent {k : Nat} {m : List (Nat × Call)} {c : Call} (h : lookup k m = some c) (hu : c.unsent = true) :
    sentCount (markSent k m) = sentCount m + 1 := by
  induction m with
  | nil => simp [lookup] at h
  | cons y t ih =>
    obtain ⟨k', c'⟩ := y
    simp only [lookup] at h
    simp only [markSent]
    split at h
    · rename_i hk
      simp only [Option.some.injEq] at h
      subst h
      simp [hk, sentCount, hu]
    · rename_i hk
      simp only [hk, if_false, sentCount, List.countP_cons] at ih ⊢
      have := ih h
      omega

/-! ### massCancelRequestsLocked -/

/-- the error a call gets from `massCancelRequestsLocked` when it is not re-queued -/
def massRes (isOpen : Bool) (c : Call) : Res :=
  if !c.unsent then .sideEffect else if c.failNoConn || !isOpen then .noSideEffect else .deadline

theorem massLoop_spec {isOpen : Bool} {m : List (Nat × Call)} {n : Int} {kept n' evs}
    (h : massLoop isOpen m n = .ok (kept, n', evs)) :
    (∀ x ∈ kept, x ∈ m ∧ x.2.unsent = true ∧ x.2.failNoConn = false ∧ isOpen = true ∧ x.2.dl ≠ .past) ∧
    (∀ e ∈ evs, ∃ k c r, (k, c) ∈ m ∧ e = .deliver c.owner c.cb c.qid r ∧
        ((r = .sideEffect ∧ c.unsent = false) ∨ (r = .noSideEffect ∧ c.unsent = true ∧ (c.failNoConn = true ∨ isOpen = false)) ∨
         (r = .deadline ∧ c.unsent = true ∧ c.dl = .past))) ∧
    (∀ k c, (k, c) ∈ m → (k, c) ∈ kept ∨ Ev.deliver c.owner c.cb c.qid (massRes isOpen c) ∈ evs) ∧
    (∀ o, nCompl o evs + nOwner o kept = nOwner o m) ∧
    n' = n - sentCount m ∧ sentCount kept = 0 ∧ (sentCount m ≠ 0 → (sentCount m : Int) ≤ n) ∧ (keys kept).Sublist (keys m) := by
  induction m generalizing n kept n' evs with
  | nil =>
    simp only [massLoop, Except.ok.injEq, Prod.mk.injEq] at h
    obtain ⟨rfl, rfl, rfl⟩ := h
    simp [nCompl, nOwner, sentCount, keys]
  | cons y t ih =>
    obtain ⟨k0, c0⟩ := y
    simp only [massLoop] at h
    by_cases hu : c0.unsent = true
    · simp only [hu, Bool.not_true, Bool.false_eq_true, if_false] at h
      by_cases hf : (c0.failNoConn || !isOpen) = true
      · simp only [hf, if_true] at h
        cases hr : massLoop isOpen t n with
        | error p => simp [hr] at h
        | ok r =>
          obtain ⟨kept1, n1, evs1⟩ := r
          simp only [hr, Except.ok.injEq, Prod.mk.injEq] at h
          obtain ⟨rfl, rfl, rfl⟩ := h
          obtain ⟨h1, h2, h3, h4, h5, h6, h7, h8⟩ := ih hr
          refine ⟨?_, ?_, ?_, ?_, ?_, h6, ?_, ?_⟩
          · intro x hx; have := h1 x hx; simp [this]
          · intro e he
            simp only [List.mem_cons] at he
            rcases he with rfl | he
            · refine ⟨k0, c0, .noSideEffect, by simp, rfl, Or.inr (Or.inl ⟨rfl, hu, ?_⟩)⟩
              simpa using hf
            · obtain ⟨k, c, r, hm, he, hc⟩ := h2 e he
              exact ⟨k, c, r, by simp [hm], he, hc⟩
          · intro k c hm
            simp only [List.mem_cons, Prod.mk.injEq] at hm
            rcases hm with ⟨rfl, rfl⟩ | hm
            · exact Or.inr (by simp [massRes, hu, hf])
            · rcases h3 k c hm with h | h
              · exact Or.inl h
              · exact Or.inr (by simp [h])
          · intro o
            have := h4 o
            simp only [nCompl, nOwner, List.countP_cons, completes] at this ⊢
            by_cases hc : (c0.owner == o) = true <;> simp only [hc, if_true, if_false, Bool.false_eq_true] at this ⊢ <;> omega
          · simp only [sentCount, List.countP_cons, hu] at h5 ⊢; simpa using h5
          · simp only [sentCount, List.countP_cons, hu] at h7 ⊢; simpa using h7
          · simp only [keys, List.map_cons]; exact h8.cons _
      · simp only [hf, Bool.false_eq_true, if_false] at h
        by_cases hd : (c0.dl == .past) = true
        · simp only [hd, if_true] at h
          cases hr : massLoop isOpen t n with
          | error p => simp [hr] at h
          | ok r =>
            obtain ⟨kept1, n1, evs1⟩ := r
            simp only [hr, Except.ok.injEq, Prod.mk.injEq] at h
            obtain ⟨rfl, rfl, rfl⟩ := h
            obtain ⟨h1, h2, h3, h4, h5, h6, h7, h8⟩ := ih hr
            refine ⟨?_, ?_, ?_, ?_, ?_, h6, ?_, ?_⟩
            · intro x hx; have := h1 x hx; simp [this]
            · intro e he
              simp only [List.mem_cons] at he
              rcases he with rfl | he
              · refine ⟨k0, c0, .deadline, by simp, rfl, Or.inr (Or.inr ⟨rfl, hu, ?_⟩)⟩
                simpa using hd
              · obtain ⟨k, c, r, hm, he, hc⟩ := h2 e he
                exact ⟨k, c, r, by simp [hm], he, hc⟩
            · intro k c hm
              simp only [List.mem_cons, Prod.mk.injEq] at hm
              rcases hm with ⟨rfl, rfl⟩ | hm
              · exact Or.inr (by simp [massRes, hu, hf])
              · rcases h3 k c hm with h | h
                · exact Or.inl h
                · exact Or.inr (by simp [h])
            · intro o
              have := h4 o
              simp only [nCompl, nOwner, List.countP_cons, completes] at this ⊢
              by_cases hc : (c0.owner == o) = true <;> simp only [hc, if_true, if_false, Bool.false_eq_true] at this ⊢ <;> omega
            · simp only [sentCount, List.countP_cons, hu] at h5 ⊢; simpa using h5
            · simp only [sentCount, List.countP_cons, hu] at h7 ⊢; simpa using h7
            · simp only [keys, List.map_cons]; exact h8.cons _
        · simp only [hd, Bool.false_eq_true, if_false] at h
          cases hr : massLoop isOpen t n with
          | error p => simp [hr] at h
          | ok r =>
            obtain ⟨kept1, n1, evs1⟩ := r
            simp only [hr, Except.ok.injEq, Prod.mk.injEq] at h
            obtain ⟨rfl, rfl, rfl⟩ := h
            obtain ⟨h1, h2, h3, h4, h5, h6, h7, h8⟩ := ih hr
            refine ⟨?_, ?_, ?_, ?_, ?_, ?_, ?_, ?_⟩
            · intro x hx
              simp only [List.mem_cons] at hx
              rcases hx with rfl | hx
              · simp only [Bool.or_eq_true, Bool.not_eq_eq_eq_not, Bool.not_true, not_or, Bool.not_eq_true, Bool.not_eq_false] at hf
                refine ⟨by simp, hu, hf.1, hf.2, ?_⟩
                simpa using hd
              · have := h1 x hx; simp [this]
            · intro e he
              obtain ⟨k, c, r, hm, he, hc⟩ := h2 e he
              exact ⟨k, c, r, by simp [hm], he, hc⟩
            · intro k c hm
              simp only [List.mem_cons, Prod.mk.injEq] at hm
              rcases hm with ⟨rfl, rfl⟩ | hm
              · exact Or.inl (by simp)
              · rcases h3 k c hm with h | h
                · exact Or.inl (by simp [h])
                · exact Or.inr h
            · intro o
              have := h4 o
              simp only [nOwner, List.countP_cons] at this ⊢
              omega
            · simp only [sentCount, List.countP_cons, hu] at h5 ⊢; simpa using h5
            · simp only [sentCount, List.countP_cons, hu] at h6 ⊢; simpa using h6
            · simp only [sentCount, List.countP_cons, hu] at h7 ⊢; simpa using h7
            · simp only [keys, List.map_cons]; exact h8.cons_cons _
    · simp only [Bool.not_eq_true] at hu
      simp only [hu, Bool.not_false, if_true] at h
      by_cases hn : (n - 1 : Int) < 0
      · simp [hn] at h
      · simp only [hn, if_false] at h
        cases hr : massLoop isOpen t (n - 1) with
        | error p => simp [hr] at h
        | ok r =>
          obtain ⟨kept1, n1, evs1⟩ := r
          simp only [hr, Except.ok.injEq, Prod.mk.injEq] at h
          obtain ⟨rfl, rfl, rfl⟩ := h
          obtain ⟨h1, h2, h3, h4, h5, h6, h7, h8⟩ := ih hr
          refine ⟨?_, ?_, ?_, ?_, ?_, h6, ?_, ?_⟩
          · intro x hx; have := h1 x hx; simp [this]
          · intro e he
            simp only [List.mem_cons] at he
            rcases he with rfl | he
            · exact ⟨k0, c0, .sideEffect, by simp, rfl, Or.inl ⟨rfl, hu⟩⟩
            · obtain ⟨k, c, r, hm, he, hc⟩ := h2 e he
              exact ⟨k, c, r, by simp [hm], he, hc⟩
          · intro k c hm
            simp only [List.mem_cons, Prod.mk.injEq] at hm
            rcases hm with ⟨rfl, rfl⟩ | hm
            · exact Or.inr (by simp [massRes, hu])
            · rcases h3 k c hm with h | h
              · exact Or.inl h
              · exact Or.inr (by simp [h])
          · intro o
            have := h4 o
            simp only [nCompl, nOwner, List.countP_cons, completes] at this ⊢
            by_cases hc : (c0.owner == o) = true <;> simp only [hc, if_true, if_false, Bool.false_eq_true] at this ⊢ <;> omega
          · simp only [sentCount, List.countP_cons, hu] at h5 ⊢; simp at h5 ⊢; omega
          · have e : sentCount ((k0, c0) :: t) = sentCount t + 1 := by simp [sentCount, hu]
            rw [e]
            intro _
            by_cases hz : sentCount t = 0
            · rw [hz]; omega
            · have := h7 hz; omega
          · simp only [keys, List.map_cons]; exact h8.cons _

theorem massLoop_ok {isOpen : Bool} {m : List (Nat × Call)} {n : Int} (h : (sentCount m : Int) ≤ n) :
    ∃ r, massLoop isOpen m n = .ok r := by
  induction m generalizing n with
  | nil => exact ⟨_, rfl⟩
  | cons y t ih =>
    obtain ⟨k0, c0⟩ := y
    simp only [massLoop]
    by_cases hu : c0.unsent = true
    · have e : sentCount ((k0, c0) :: t) = sentCount t := by simp [sentCount, hu]
      rw [e] at h
      obtain ⟨⟨a, b, c⟩, hr⟩ := ih h
      simp only [hu, Bool.not_true, Bool.false_eq_true, if_false, hr]
      split
      · exact ⟨_, rfl⟩
      · split <;> exact ⟨_, rfl⟩
    · simp only [Bool.not_eq_true] at hu
      have e : sentCount ((k0, c0) :: t) = sentCount t + 1 := by simp [sentCount, hu]
      rw [e] at h
      have h' : (sentCount t : Int) ≤ n - 1 := by omega
      obtain ⟨⟨a, b, c⟩, hr⟩ := ih h'
      have hn : ¬ ((n - 1 : Int) < 0) := by omega
      simp only [hu, Bool.not_false, if_true, hn, if_false, hr]
      exact ⟨_, rfl⟩

/-! ### moveRequestsToSendLocked -/

theorem moveReqs_spec {wq : List WQ} {m : List (Nat × Call)} {n : Int} {m' n' out}
    (h : moveReqs wq m n = .ok (m', n', out)) :
    (∀ k c', (k, c') ∈ m' → ∃ c, (k, c) ∈ m ∧ sameCall c c') ∧
    keys m' = keys m ∧
    (∀ o, nOwner o m' = nOwner o m) ∧
    n' - n = (sentCount m' : Int) - sentCount m ∧
    (∀ q, Pkt.req q ∈ out → q ∈ reqQids wq ∧ q ∈ keys m) ∧
    (∀ q, Pkt.cancel q ∈ out ↔ WQ.cancel q ∈ wq) ∧ Pkt.fin ∉ out := by
  induction wq generalizing m n m' n' out with
  | nil =>
    simp only [moveReqs, Except.ok.injEq, Prod.mk.injEq] at h
    obtain ⟨rfl, rfl, rfl⟩ := h
    refine ⟨fun k c' hc => ⟨c', hc, sameCall_refl _⟩, rfl, fun _ => rfl, by omega, by simp, by simp, by simp⟩
  | cons w t ih =>
    cases w with
    | cancel q0 =>
      simp only [moveReqs] at h
      cases hr : moveReqs t m n with
      | error p => simp [hr] at h
      | ok r =>
        obtain ⟨m1, n1, out1⟩ := r
        simp only [hr, Except.ok.injEq, Prod.mk.injEq] at h
        obtain ⟨rfl, rfl, rfl⟩ := h
        obtain ⟨h1, h2, h3, h4, h5, h6, h7⟩ := ih hr
        refine ⟨h1, h2, h3, h4, ?_, ?_, by simp [h7]⟩
        · intro q hq
          simp only [List.mem_cons, reduceCtorEq, false_or] at hq
          simpa [reqQids] using h5 q hq
        · intro q
          simp only [List.mem_cons, Pkt.cancel.injEq, WQ.cancel.injEq]
          rw [h6 q]
    | req o0 q0 =>
      simp only [moveReqs] at h
      cases hl : lookup q0 m with
      | none =>
        simp only [hl] at h
        obtain ⟨h1, h2, h3, h4, h5, h6, h7⟩ := ih h
        refine ⟨h1, h2, h3, h4, ?_, ?_, h7⟩
        · intro q hq
          have := h5 q hq
          simp [reqQids, this]
        · intro q
          simp only [List.mem_cons, reduceCtorEq, false_or]
          exact h6 q
      | some c =>
        simp only [hl] at h
        by_cases hu : c.unsent = true
        · simp only [hu, Bool.not_true, Bool.false_eq_true, if_false] at h
          by_cases ho : (c.owner != o0) = true
          · simp [ho] at h
          · simp only [ho, Bool.false_eq_true, if_false] at h
            cases hr : moveReqs t (markSent q0 m) (n + 1) with
            | error p => simp [hr] at h
            | ok r =>
              obtain ⟨m1, n1, out1⟩ := r
              simp only [hr, Except.ok.injEq, Prod.mk.injEq] at h
              obtain ⟨rfl, rfl, rfl⟩ := h
              obtain ⟨h1, h2, h3, h4, h5, h6, h7⟩ := ih hr
              refine ⟨?_, ?_, ?_, ?_, ?_, ?_, by simp [h7]⟩
              · intro k c' hc
                obtain ⟨c1, hc1, hs1⟩ := h1 k c' hc
                obtain ⟨c2, hc2, hs2⟩ := mem_markSent hc1
                refine ⟨c2, hc2, ?_⟩
                unfold sameCall at *
                grind
              · rw [h2, keys_markSent]
              · intro o; rw [h3 o, nOwner_markSent]
              · rw [sentCount_markSent hl hu] at h4
                omega
              · intro q hq
                simp only [List.mem_cons, Pkt.req.injEq] at hq
                rcases hq with rfl | hq
                · exact ⟨by simp [reqQids], mem_keys_of_lookup hl⟩
                · have := h5 q hq
                  rw [keys_markSent] at this
                  simp [reqQids, this]
              · intro q
                simp only [List.mem_cons, reduceCtorEq, false_or]
                exact h6 q
        · simp only [Bool.not_eq_true] at hu
          simp [hu] at h

theorem mem_reqQids {o q : Nat} {wq : List WQ} (h : WQ.req o q ∈ wq) : q ∈ reqQids wq := by
  induction wq with
  | nil => simp at h
  | cons w t ih =>
    cases w with
    | cancel q0 => simp only [List.mem_cons, reduceCtorEq, false_or] at h; simpa [reqQids] using ih h
    | req o0 q0 =>
      simp only [List.mem_cons, WQ.req.injEq] at h
      rcases h with ⟨_, rfl⟩ | h
      · simp [reqQids]
      · simp [reqQids, ih h]

theorem reqQids_append (a b : List WQ) : reqQids (a ++ b) = reqQids a ++ reqQids b := by
  induction a with
  | nil => rfl
  | cons w t ih => cases w <;> simp [reqQids, ih]

/-- every queued request belongs to the registered unsent call with its query id, if there is one -/
def wqOK (m : List (Nat × Call)) (wq : List WQ) : Prop :=
  ∀ o q, WQ.req o q ∈ wq → ∀ c, lookup q m = some c → c.owner = o ∧ c.unsent = true

theorem moveReqs_ok {wq : List WQ} {m : List (Nat × Call)} {n : Int} (h1 : wqOK m wq) (h2 : (reqQids wq).Nodup) :
    ∃ r, moveReqs wq m n = .ok r := by
  induction wq generalizing m n with
  | nil => exact ⟨_, rfl⟩
  | cons w t ih =>
    cases w with
    | cancel q0 =>
      have h1' : wqOK m t := fun o q hq => h1 o q (by simp [hq])
      obtain ⟨⟨a, b, c⟩, hr⟩ := ih (n := n) h1' (by simpa [reqQids] using h2)
      simp only [moveReqs, hr]
      exact ⟨_, rfl⟩
    | req o0 q0 =>
      simp only [reqQids, List.nodup_cons] at h2
      have h1' : wqOK m t := fun o q hq => h1 o q (by simp [hq])
      simp only [moveReqs]
      cases hl : lookup q0 m with
      | none => exact ih h1' h2.2
      | some c =>
        obtain ⟨ho, hu⟩ := h1 o0 q0 (by simp) c hl
        have h1'' : wqOK (markSent q0 m) t := by
          intro o q hq c' hc'
          have hne : q ≠ q0 := fun e => h2.1 (e ▸ mem_reqQids hq)
          rw [lookup_markSent_ne hne] at hc'
          exact h1' o q hq c' hc'
        obtain ⟨⟨a, b, d⟩, hr⟩ := ih (n := n + 1) h1'' h2.2
        simp only [hu, Bool.not_true, Bool.false_eq_true, if_false, ho, bne_self_eq_false, hr]
        exact ⟨_, rfl⟩

/-! ### specifications of the single critical sections -/

theorem setupStep_spec {σ o q fail dl cb σ' e} (h : setupStep σ o q fail dl cb = .ok (σ', e)) :
    (σ' = σ ∧ (e = [.ret 1] ∧ σ.isOpen = false ∨ e = [.ret 2])) ∨
    (σ.isOpen = true ∧ e = [.ret 0] ∧
     σ' = { σ with calls := insertKey q { owner := o, qid := q, unsent := true, failNoConn := fail, dl := dl, cb := cb } σ.calls,
                   writeQ := σ.writeQ ++ [.req o q] }) := by
  unfold setupStep at h
  split at h
  · rename_i ho
    simp only [Except.ok.injEq, Prod.mk.injEq] at h
    obtain ⟨rfl, rfl⟩ := h
    exact Or.inl ⟨rfl, Or.inl ⟨rfl, by simpa using ho⟩⟩
  · rename_i ho
    split at h
    · simp only [Except.ok.injEq, Prod.mk.injEq] at h
      obtain ⟨rfl, rfl⟩ := h
      exact Or.inl ⟨rfl, Or.inr rfl⟩
    · simp only [Except.ok.injEq, Prod.mk.injEq] at h
      obtain ⟨rfl, rfl⟩ := h
      exact Or.inr ⟨by simpa using ho, rfl, rfl⟩

theorem cancelStep_spec {σ q σ' e} (h : cancelStep σ q = .ok (σ', e)) :
    (lookup q σ.calls = none ∧ σ' = σ ∧ e = [.ret 0]) ∨
    (∃ c, lookup q σ.calls = some c ∧ σ'.calls = eraseKey q σ.calls ∧
      σ'.inFlight = σ.inFlight - (if c.unsent then 0 else 1) ∧ (c.unsent = false → 1 ≤ σ.inFlight) ∧
      (e = [.cancelled c.owner c.qid c.unsent] ∨ e = [.cancelled c.owner c.qid c.unsent, .closeConn]) ∧
      (σ'.writeQ = σ.writeQ ∨ σ'.writeQ = σ.writeQ ++ [.cancel q]) ∧ σ'.isOpen = σ.isOpen) := by
  unfold cancelStep at h
  split at h
  · rename_i hl
    simp only [Except.ok.injEq, Prod.mk.injEq] at h
    obtain ⟨rfl, rfl⟩ := h
    exact Or.inl ⟨hl, rfl, rfl⟩
  · rename_i c hl
    refine Or.inr ⟨c, hl, ?_⟩
    by_cases hu : c.unsent = true
    · simp only [hu, if_true, Except.ok.injEq, Prod.mk.injEq] at h
      obtain ⟨rfl, rfl⟩ := h
      simp [hu]
    · simp only [Bool.not_eq_true] at hu
      simp only [hu, Bool.false_eq_true, if_false] at h
      split at h
      · simp at h
      · rename_i hn
        split at h
        · simp only [Except.ok.injEq, Prod.mk.injEq] at h
          obtain ⟨rfl, rfl⟩ := h
          simp [hu]; omega
        · split at h
          · simp only [Except.ok.injEq, Prod.mk.injEq] at h
            obtain ⟨rfl, rfl⟩ := h
            simp [hu]; omega
          · split at h <;>
            · simp only [Except.ok.injEq, Prod.mk.injEq] at h
              obtain ⟨rfl, rfl⟩ := h
              simp [hu]; omega

theorem finishStep_spec {σ q r σ' e} (h : finishStep σ q r = .ok (σ', e)) :
    (lookup q σ.calls = none ∧ σ' = σ ∧ e = []) ∨
    (∃ c, lookup q σ.calls = some c ∧ σ'.calls = eraseKey q σ.calls ∧
      σ'.inFlight = σ.inFlight - 1 ∧ 1 ≤ σ.inFlight ∧
      (e = [.deliver c.owner c.cb c.qid r] ∨ e = [.deliver c.owner c.cb c.qid r, .closeConn]) ∧
      σ'.writeQ = σ.writeQ ∧ σ'.isOpen = σ.isOpen) := by
  unfold finishStep at h
  split at h
  · rename_i hl
    simp only [Except.ok.injEq, Prod.mk.injEq] at h
    obtain ⟨rfl, rfl⟩ := h
    exact Or.inl ⟨hl, rfl, rfl⟩
  · rename_i c hl
    refine Or.inr ⟨c, hl, ?_⟩
    dsimp only at h
    split at h
    · simp at h
    · rename_i hn
      split at h <;>
      · simp only [Except.ok.injEq, Prod.mk.injEq] at h
        obtain ⟨rfl, rfl⟩ := h
        simp; omega

theorem shutdownStep_spec {σ σ' e} (h : shutdownStep σ = .ok (σ', e)) :
    σ'.calls = σ.calls ∧ σ'.writeQ = σ.writeQ ∧ σ'.inFlight = σ.inFlight ∧ σ'.isOpen = σ.isOpen ∧
    (e = [] ∨ e = [.closeConn]) := by
  unfold shutdownStep at h
  split at h
  · simp only [Except.ok.injEq, Prod.mk.injEq] at h
    obtain ⟨rfl, rfl⟩ := h
    simp
  · dsimp only at h
    split at h <;>
    · simp only [Except.ok.injEq, Prod.mk.injEq] at h
      obtain ⟨rfl, rfl⟩ := h
      simp

theorem dropStep_spec {σ σ' e} (h : dropStep σ = .ok (σ', e)) :
    σ'.calls = σ.calls ∧ σ'.writeQ = σ.writeQ ∧ σ'.inFlight = σ.inFlight ∧ σ'.isOpen = σ.isOpen ∧
    (e = [] ∨ e = [.closeConn]) := by
  unfold dropStep at h
  split at h <;>
  · simp only [Except.ok.injEq, Prod.mk.injEq] at h
    obtain ⟨rfl, rfl⟩ := h
    simp

theorem massCancel_spec {σ σ' e} (h : massCancel σ = .ok (σ', e)) :
    ∃ kept n, massLoop σ.isOpen σ.calls σ.inFlight = .ok (kept, n, e) ∧ σ'.calls = kept ∧ σ'.inFlight = n ∧
      σ'.writeQ = requeue kept ∧ σ'.isOpen = σ.isOpen ∧ σ'.waiting = σ.waiting ∧ σ'.hasConn = σ.hasConn := by
  unfold massCancel at h
  split at h
  · simp at h
  · rename_i kept n evs hm
    simp only [Except.ok.injEq, Prod.mk.injEq] at h
    obtain ⟨rfl, rfl⟩ := h
    exact ⟨kept, n, hm, rfl, rfl, rfl, rfl, rfl, rfl⟩

theorem sendStep_spec {σ σ' e} (h : sendStep σ = .ok (σ', e)) :
    (σ'.calls = σ.calls ∧ σ'.writeQ = σ.writeQ ∧ σ'.inFlight = σ.inFlight ∧ σ'.isOpen = σ.isOpen ∧
      (e = [] ∨ e = [.ret 0] ∨ e = [.pkt .fin])) ∨
    (∃ out, σ.hasConn = true ∧ σ.isShutdown = false ∧ moveReqs σ.writeQ σ.calls σ.inFlight = .ok (σ'.calls, σ'.inFlight, out) ∧
      σ'.writeQ = [] ∧ σ'.isOpen = σ.isOpen ∧ (e = out.map Ev.pkt ∨ e = out.map Ev.pkt ++ [.pkt .fin])) := by
  unfold sendStep at h
  split at h
  · simp only [Except.ok.injEq, Prod.mk.injEq] at h
    obtain ⟨rfl, rfl⟩ := h
    simp
  · rename_i hc
    split at h
    · simp only [Except.ok.injEq, Prod.mk.injEq] at h
      obtain ⟨rfl, rfl⟩ := h
      simp
    · dsimp only at h
      split at h
      · simp only [Except.ok.injEq, Prod.mk.injEq] at h
        obtain ⟨rfl, rfl⟩ := h
        left
        by_cases hf : σ.wantsFin = true <;> simp [hf]
      · rename_i hs
        split at h
        · simp at h
        · rename_i calls n out hm
          simp only [Except.ok.injEq, Prod.mk.injEq] at h
          obtain ⟨rfl, rfl⟩ := h
          right
          refine ⟨out, by simpa using hc, by simpa using hs, hm, rfl, rfl, ?_⟩
          by_cases hf : σ.wantsFin = true <;> simp [hf]

theorem nCompl_pkts (o : Nat) (out : List Pkt) : nCompl o (out.map Ev.pkt) = 0 := by
  induction out with
  | nil => rfl
  | cons p t ih => simp only [nCompl, List.map_cons, List.countP_cons, completes] at ih ⊢; simp [ih]

theorem nCompl_append (o : Nat) (a b : List Ev) : nCompl o (a ++ b) = nCompl o a + nCompl o b := by
  simp [nCompl, List.countP_append]

theorem nSetup_append (o : Nat) (a b : List Op) : nSetup o (a ++ b) = nSetup o a + nSetup o b := by
  simp [nSetup, List.countP_append]

/-- effect of one critical section on the registered calls and on completions -/
theorem step_prov {σ op σ' e} (h : step σ op = .ok (σ', e)) :
    (∀ k c', (k, c') ∈ σ'.calls → (∃ c, (k, c) ∈ σ.calls ∧ sameCall c c') ∨
        (op = .setup c'.owner k c'.failNoConn c'.dl c'.cb ∧ c'.qid = k)) ∧
    ((keys σ.calls).Nodup → (keys σ'.calls).Nodup) ∧
    (∀ o, nCompl o e + nOwner o σ'.calls ≤ nOwner o σ.calls + (if isSetupOf o op then 1 else 0)) := by
  have same : σ'.calls = σ.calls → (∀ o, nCompl o e = 0) →
      (∀ k c', (k, c') ∈ σ'.calls → (∃ c, (k, c) ∈ σ.calls ∧ sameCall c c') ∨
        (op = .setup c'.owner k c'.failNoConn c'.dl c'.cb ∧ c'.qid = k)) ∧
      ((keys σ.calls).Nodup → (keys σ'.calls).Nodup) ∧
      (∀ o, nCompl o e + nOwner o σ'.calls ≤ nOwner o σ.calls + (if isSetupOf o op then 1 else 0)) := by
    intro hc he
    rw [hc]
    refine ⟨fun k c' hm => Or.inl ⟨c', hm, sameCall_refl _⟩, id, fun o => ?_⟩
    rw [he o]; omega
  have erase : ∀ q c, lookup q σ.calls = some c → σ'.calls = eraseKey q σ.calls →
      (∀ o, nCompl o e = if c.owner == o then 1 else 0) →
      (∀ k c', (k, c') ∈ σ'.calls → (∃ c, (k, c) ∈ σ.calls ∧ sameCall c c') ∨
        (op = .setup c'.owner k c'.failNoConn c'.dl c'.cb ∧ c'.qid = k)) ∧
      ((keys σ.calls).Nodup → (keys σ'.calls).Nodup) ∧
      (∀ o, nCompl o e + nOwner o σ'.calls ≤ nOwner o σ.calls + (if isSetupOf o op then 1 else 0)) := by
    intro q c hl hc he
    rw [hc]
    refine ⟨fun k c' hm => Or.inl ⟨c', mem_eraseKey hm, sameCall_refl _⟩, nodup_keys_eraseKey, fun o => ?_⟩
    have := nOwner_eraseKey_lookup (o := o) hl
    rw [he o]; omega
  have mass : ∀ σ0 : Conn, σ0.calls = σ.calls → massCancel σ0 = .ok (σ', e) →
      (∀ k c', (k, c') ∈ σ'.calls → (∃ c, (k, c) ∈ σ.calls ∧ sameCall c c') ∨
        (op = .setup c'.owner k c'.failNoConn c'.dl c'.cb ∧ c'.qid = k)) ∧
      ((keys σ.calls).Nodup → (keys σ'.calls).Nodup) ∧
      (∀ o, nCompl o e + nOwner o σ'.calls ≤ nOwner o σ.calls) := by
    intro σ0 h0 hm
    obtain ⟨kept, n, hl, hc, -⟩ := massCancel_spec hm
    obtain ⟨h1, -, -, h4, -, -, -, h8⟩ := massLoop_spec hl
    rw [hc, ← h0]
    refine ⟨fun k c' hm => Or.inl ⟨c', (h1 _ hm).1, sameCall_refl _⟩, fun hn => hn.sublist h8, fun o => ?_⟩
    have := h4 o; omega
  cases op with
  | setup o q fail dl cb =>
    simp only [step] at h
    rcases setupStep_spec h with ⟨rfl, he⟩ | ⟨-, rfl, rfl⟩
    · refine ⟨fun k c' hm => Or.inl ⟨c', hm, sameCall_refl _⟩, id, fun o' => ?_⟩
      have : nCompl o' e = 0 := by rcases he with ⟨rfl, -⟩ | rfl <;> rfl
      omega
    · refine ⟨?_, ?_, ?_⟩
      · intro k c' hm
        simp only [insertKey, List.mem_cons, Prod.mk.injEq] at hm
        rcases hm with ⟨rfl, rfl⟩ | hm
        · exact Or.inr ⟨rfl, rfl⟩
        · exact Or.inl ⟨c', mem_eraseKey hm, sameCall_refl _⟩
      · intro hn
        simp only [insertKey, keys, List.map_cons, List.nodup_cons]
        exact ⟨not_mem_keys_eraseKey hn, nodup_keys_eraseKey hn⟩
      · intro o'
        have := nOwner_eraseKey_le o' q σ.calls
        simp only [insertKey, nOwner, List.countP_cons, isSetupOf, nCompl, completes, List.countP_nil] at this ⊢
        by_cases ho : (o == o') = true <;> simp [ho] <;> omega
  | cancel q =>
    simp only [step] at h
    rcases cancelStep_spec h with ⟨-, rfl, rfl⟩ | ⟨c, hl, hc, -, -, he, -⟩
    · exact same rfl (fun _ => rfl)
    · refine erase q c hl hc (fun o => ?_)
      rcases he with rfl | rfl <;> simp [nCompl, completes, List.countP_cons]
  | resp q p =>
    simp only [step] at h
    rcases finishStep_spec h with ⟨-, rfl, rfl⟩ | ⟨c, hl, hc, -, -, he, -⟩
    · exact same rfl (fun _ => rfl)
    · refine erase q c hl hc (fun o => ?_)
      rcases he with rfl | rfl <;> simp [nCompl, completes, List.countP_cons]
  | rerr q p =>
    simp only [step] at h
    rcases finishStep_spec h with ⟨-, rfl, rfl⟩ | ⟨c, hl, hc, -, -, he, -⟩
    · exact same rfl (fun _ => rfl)
    · refine erase q c hl hc (fun o => ?_)
      rcases he with rfl | rfl <;> simp [nCompl, completes, List.countP_cons]
  | sfin =>
    simp only [step] at h
    obtain ⟨hc, -, -, -, he⟩ := shutdownStep_spec h
    exact same hc (fun o => by rcases he with rfl | rfl <;> rfl)
  | unk =>
    simp only [step, Except.ok.injEq, Prod.mk.injEq] at h
    obtain ⟨rfl, rfl⟩ := h
    exact same rfl (fun _ => rfl)
  | bi =>
    simp only [step, Except.ok.injEq, Prod.mk.injEq] at h
    obtain ⟨rfl, rfl⟩ := h
    exact same rfl (fun _ => rfl)
  | send =>
    simp only [step] at h
    rcases sendStep_spec h with ⟨hc, -, -, -, he⟩ | ⟨out, -, -, hm, -, -, he⟩
    · exact same hc (fun o => by rcases he with rfl | rfl | rfl <;> rfl)
    · obtain ⟨h1, h2, h3, -⟩ := moveReqs_spec hm
      refine ⟨fun k c' hm => Or.inl (h1 k c' hm), fun hn => h2 ▸ hn, fun o => ?_⟩
      have : nCompl o e = 0 := by
        rcases he with rfl | rfl
        · exact nCompl_pkts o out
        · rw [nCompl_append, nCompl_pkts]; rfl
      rw [this, h3 o]; omega
  | connect =>
    simp only [step] at h
    split at h <;>
    · simp only [Except.ok.injEq, Prod.mk.injEq] at h
      obtain ⟨rfl, rfl⟩ := h
      exact same rfl (fun _ => rfl)
  | drop =>
    simp only [step] at h
    obtain ⟨hc, -, -, -, he⟩ := dropStep_spec h
    exact same hc (fun o => by rcases he with rfl | rfl <;> rfl)
  | disc good =>
    simp only [step] at h
    cases hm : massCancel σ with
    | error p => simp [hm] at h
    | ok r =>
      obtain ⟨σ1, evs1⟩ := r
      simp only [hm, Except.ok.injEq, Prod.mk.injEq] at h
      obtain ⟨rfl, rfl⟩ := h
      have hm' : massCancel σ = .ok (σ1, evs1) := hm
      obtain ⟨kept, n, hl, hc, -⟩ := massCancel_spec hm'
      obtain ⟨h1, -, -, h4, -, -, -, h8⟩ := massLoop_spec hl
      have hcalls : (if good = true then σ1 else { σ1 with waiting := true }).calls = kept := by
        split <;> simp [hc]
      rw [hcalls]
      refine ⟨fun k c' hm => Or.inl ⟨c', (h1 _ hm).1, sameCall_refl _⟩, fun hn => hn.sublist h8, fun o => ?_⟩
      have h4o := h4 o
      rw [nCompl_append]
      have hz : nCompl o [Ev.ret (if ((if good = true then σ1 else { σ1 with waiting := true }).isOpen &&
          !(if good = true then σ1 else { σ1 with waiting := true }).calls.isEmpty) = true then 1 else 0)] = 0 := rfl
      simp only [hcalls] at hz
      rw [hz]
      simp only [isSetupOf]
      omega
  | gc =>
    simp only [step] at h
    split at h
    · obtain ⟨a, b, c⟩ := mass σ rfl h
      exact ⟨a, b, fun o => by have := c o; simp only [isSetupOf]; omega⟩
    · simp only [Except.ok.injEq, Prod.mk.injEq] at h
      obtain ⟨rfl, rfl⟩ := h
      exact same rfl (fun _ => rfl)
  | close =>
    simp only [step] at h
    obtain ⟨hc, -, -, -, he⟩ := dropStep_spec h
    exact same hc (fun o => by rcases he with rfl | rfl <;> rfl)

/-- invariant of every reachable state (no protocol assumption at all) -/
structure Inv (ops : List Op) (σ : Conn) (evs : List Ev) : Prop where
  /-- the map key of a call context is its own `queryID` -/
  key : ∀ k c, (k, c) ∈ σ.calls → c.qid = k
  nodup : (keys σ.calls).Nodup
  /-- every registered call context was registered by a `setupCallLocked` of the history, with its own id -/
  hist : ∀ k c, (k, c) ∈ σ.calls → Op.setup c.owner c.qid c.failNoConn c.dl c.cb ∈ ops
  /-- completions so far + still registered ≤ times set up -/
  count : ∀ o, nCompl o evs + nOwner o σ.calls ≤ nSetup o ops

theorem reach_inv_step {ops σ evs op σ' e} (ih : Inv ops σ evs) (hs : step σ op = .ok (σ', e)) :
    Inv (ops ++ [op]) σ' (evs ++ e) := by
  obtain ⟨p1, p2, p3⟩ := step_prov hs
  refine ⟨?_, p2 ih.nodup, ?_, ?_⟩
  · intro k c' hm
    rcases p1 k c' hm with ⟨c, hc, hs⟩ | ⟨-, hq⟩
    · rw [hs.2.1]; exact ih.key k c hc
    · exact hq
  · intro k c' hm
    rcases p1 k c' hm with ⟨c, hc, hs⟩ | ⟨hop, hq⟩
    · have := ih.hist k c hc
      rw [hs.1, hs.2.1, hs.2.2.1, hs.2.2.2.1, hs.2.2.2.2.1]
      exact List.mem_append_left _ this
    · rw [hq, ← hop]; simp
  · intro o
    have := p3 o
    have := ih.count o
    rw [nCompl_append, nSetup_append]
    have : nSetup o [op] = if isSetupOf o op then 1 else 0 := by
      simp only [nSetup, List.countP_cons, List.countP_nil]; omega
    omega

theorem reach_inv {ops σ evs} (h : Reach ops σ evs) : Inv ops σ evs := by
  induction h with
  | init => exact ⟨by simp [Conn.init], by simp [Conn.init, keys], by simp [Conn.init], by simp [Conn.init, nCompl, nOwner]⟩
  | snoc _ hs ih => exact reach_inv_step ih hs

/-- why a result is delivered to the call context `c` registered under key `k` -/
def DeliverWhy (σ : Conn) (op : Op) (k : Nat) (c : Call) (r : Res) : Prop :=
  (∃ p, r = .resp k p ∧ op = .resp k p ∧ lookup k σ.calls = some c) ∨
  (∃ p, r = .rpcErr k p ∧ op = .rerr k p ∧ lookup k σ.calls = some c) ∨
  (((r = .sideEffect ∧ c.unsent = false) ∨
    (r = .noSideEffect ∧ c.unsent = true ∧ (c.failNoConn = true ∨ σ.isOpen = false)) ∨
    (r = .deadline ∧ c.unsent = true ∧ c.dl = .past)) ∧
   ((∃ g, op = .disc g) ∨ (op = .gc ∧ σ.isOpen = false)))

/-- only bookkeeping-neutral events -/
def Ev.neutral : Ev → Prop
  | .closeConn => True
  | .ret _ => True
  | .pkt .fin => True
  | _ => False

/-- where the events of one step come from -/
theorem step_events {σ op σ' e} (h : step σ op = .ok (σ', e)) :
    (∀ o cb q r, Ev.deliver o cb q r ∈ e → ∃ k c, (k, c) ∈ σ.calls ∧ c.owner = o ∧ c.cb = cb ∧ c.qid = q ∧
        DeliverWhy σ op k c r) ∧
    (∀ o q u, Ev.cancelled o q u ∈ e → ∃ k c, op = .cancel k ∧ lookup k σ.calls = some c ∧ c.owner = o ∧
        c.qid = q ∧ c.unsent = u) ∧
    (∀ q, Ev.pkt (.req q) ∈ e → op = .send ∧ q ∈ reqQids σ.writeQ ∧ q ∈ keys σ.calls) := by
  have neutral : (∀ x ∈ e, Ev.neutral x) →
      (∀ o cb q r, Ev.deliver o cb q r ∈ e → ∃ k c, (k, c) ∈ σ.calls ∧ c.owner = o ∧ c.cb = cb ∧ c.qid = q ∧
        DeliverWhy σ op k c r) ∧
      (∀ o q u, Ev.cancelled o q u ∈ e → ∃ k c, op = .cancel k ∧ lookup k σ.calls = some c ∧ c.owner = o ∧
        c.qid = q ∧ c.unsent = u) ∧
      (∀ q, Ev.pkt (.req q) ∈ e → op = .send ∧ q ∈ reqQids σ.writeQ ∧ q ∈ keys σ.calls) := by
    intro hn
    exact ⟨fun o cb q r hm => (hn _ hm).elim, fun o q u hm => (hn _ hm).elim, fun q hm => (hn _ hm).elim⟩
  have mass : ∀ σ0 : Conn, σ0.calls = σ.calls → σ0.isOpen = σ.isOpen → ∀ e0, massCancel σ0 = .ok (σ', e0) →
      ((∃ g, op = .disc g) ∨ (op = .gc ∧ σ.isOpen = false)) →
      (∀ x ∈ e, x ∈ e0 ∨ Ev.neutral x) →
      (∀ o cb q r, Ev.deliver o cb q r ∈ e → ∃ k c, (k, c) ∈ σ.calls ∧ c.owner = o ∧ c.cb = cb ∧ c.qid = q ∧
        DeliverWhy σ op k c r) ∧
      (∀ o q u, Ev.cancelled o q u ∈ e → ∃ k c, op = .cancel k ∧ lookup k σ.calls = some c ∧ c.owner = o ∧
        c.qid = q ∧ c.unsent = u) ∧
      (∀ q, Ev.pkt (.req q) ∈ e → op = .send ∧ q ∈ reqQids σ.writeQ ∧ q ∈ keys σ.calls) := by
    intro σ0 h0 h0' e0 hm hop he
    obtain ⟨kept, n, hl, -⟩ := massCancel_spec hm
    obtain ⟨-, h2, -⟩ := massLoop_spec hl
    rw [h0, h0'] at h2
    refine ⟨?_, ?_, ?_⟩
    · intro o cb q r hmem
      rcases he _ hmem with h | h
      · obtain ⟨k, c, r', hkc, heq, hr⟩ := h2 _ h
        simp only [Ev.deliver.injEq] at heq
        obtain ⟨rfl, rfl, rfl, rfl⟩ := heq
        exact ⟨k, c, hkc, rfl, rfl, rfl, Or.inr (Or.inr ⟨hr, hop⟩)⟩
      · exact h.elim
    · intro o q u hmem
      rcases he _ hmem with h | h
      · obtain ⟨k, c, r', hkc, heq, hr⟩ := h2 _ h
        simp at heq
      · exact h.elim
    · intro q hmem
      rcases he _ hmem with h | h
      · obtain ⟨k, c, r', hkc, heq, hr⟩ := h2 _ h
        simp at heq
      · exact h.elim
  cases op with
  | setup o q fail dl cb =>
    simp only [step] at h
    apply neutral
    rcases setupStep_spec h with ⟨-, ⟨rfl, -⟩ | rfl⟩ | ⟨-, rfl, -⟩ <;> simp [Ev.neutral]
  | cancel q =>
    simp only [step] at h
    rcases cancelStep_spec h with ⟨-, rfl, rfl⟩ | ⟨c, hl, -, -, -, he, -⟩
    · apply neutral; simp [Ev.neutral]
    · refine ⟨?_, ?_, ?_⟩
      · intro o cb q' r hm; rcases he with rfl | rfl <;> simp at hm
      · intro o q' u hm
        refine ⟨q, c, rfl, hl, ?_⟩
        rcases he with rfl | rfl <;> simp at hm <;> simp [hm]
      · intro q' hm; rcases he with rfl | rfl <;> simp at hm
  | resp q p =>
    simp only [step] at h
    rcases finishStep_spec h with ⟨-, rfl, rfl⟩ | ⟨c, hl, -, -, -, he, -⟩
    · apply neutral; simp
    · refine ⟨?_, ?_, ?_⟩
      · intro o cb q' r hm
        refine ⟨q, c, lookup_mem hl, ?_⟩
        rcases he with rfl | rfl <;> simp at hm <;> obtain ⟨rfl, rfl, rfl, rfl⟩ := hm <;>
          exact ⟨rfl, rfl, rfl, Or.inl ⟨p, rfl, rfl, hl⟩⟩
      · intro o q' u hm; rcases he with rfl | rfl <;> simp at hm
      · intro q' hm; rcases he with rfl | rfl <;> simp at hm
  | rerr q p =>
    simp only [step] at h
    rcases finishStep_spec h with ⟨-, rfl, rfl⟩ | ⟨c, hl, -, -, -, he, -⟩
    · apply neutral; simp
    · refine ⟨?_, ?_, ?_⟩
      · intro o cb q' r hm
        refine ⟨q, c, lookup_mem hl, ?_⟩
        rcases he with rfl | rfl <;> simp at hm <;> obtain ⟨rfl, rfl, rfl, rfl⟩ := hm <;>
          exact ⟨rfl, rfl, rfl, Or.inr (Or.inl ⟨p, rfl, rfl, hl⟩)⟩
      · intro o q' u hm; rcases he with rfl | rfl <;> simp at hm
      · intro q' hm; rcases he with rfl | rfl <;> simp at hm
  | sfin =>
    simp only [step] at h
    obtain ⟨-, -, -, -, he⟩ := shutdownStep_spec h
    apply neutral; rcases he with rfl | rfl <;> simp [Ev.neutral]
  | unk =>
    simp only [step, Except.ok.injEq, Prod.mk.injEq] at h
    obtain ⟨rfl, rfl⟩ := h
    apply neutral; simp
  | bi =>
    simp only [step, Except.ok.injEq, Prod.mk.injEq] at h
    obtain ⟨rfl, rfl⟩ := h
    apply neutral; simp
  | send =>
    simp only [step] at h
    rcases sendStep_spec h with ⟨-, -, -, -, he⟩ | ⟨out, -, -, hm, -, -, he⟩
    · apply neutral; rcases he with rfl | rfl | rfl <;> simp [Ev.neutral]
    · obtain ⟨-, -, -, -, h5, -, -⟩ := moveReqs_spec hm
      have hmem : ∀ x ∈ e, x = .pkt .fin ∨ ∃ p ∈ out, x = .pkt p := by
        intro x hx
        rcases he with rfl | rfl
        · simp only [List.mem_map] at hx; obtain ⟨p, hp, rfl⟩ := hx; exact Or.inr ⟨p, hp, rfl⟩
        · simp only [List.mem_append, List.mem_map, List.mem_singleton] at hx
          rcases hx with ⟨p, hp, rfl⟩ | rfl
          · exact Or.inr ⟨p, hp, rfl⟩
          · exact Or.inl rfl
      refine ⟨?_, ?_, ?_⟩
      · intro o cb q r hx; rcases hmem _ hx with h | ⟨p, -, h⟩ <;> simp at h
      · intro o q u hx; rcases hmem _ hx with h | ⟨p, -, h⟩ <;> simp at h
      · intro q hx
        rcases hmem _ hx with h | ⟨p, hp, h⟩
        · simp at h
        · simp only [Ev.pkt.injEq] at h; subst h
          exact ⟨rfl, h5 q hp⟩
  | connect =>
    simp only [step] at h
    apply neutral
    split at h <;>
    · simp only [Except.ok.injEq, Prod.mk.injEq] at h
      obtain ⟨rfl, rfl⟩ := h
      simp [Ev.neutral]
  | drop =>
    simp only [step] at h
    obtain ⟨-, -, -, -, he⟩ := dropStep_spec h
    apply neutral; rcases he with rfl | rfl <;> simp [Ev.neutral]
  | disc good =>
    simp only [step] at h
    cases hm : massCancel σ with
    | error p => simp [hm] at h
    | ok r =>
      obtain ⟨σ1, evs1⟩ := r
      simp only [hm, Except.ok.injEq, Prod.mk.injEq] at h
      obtain ⟨hσ, rfl⟩ := h
      obtain ⟨kept, n, hl, -⟩ := massCancel_spec hm
      obtain ⟨-, h2, -⟩ := massLoop_spec hl
      have he : ∀ x ∈ evs1 ++ [Ev.ret (if ((if good = true then σ1 else { σ1 with waiting := true }).isOpen &&
          !(if good = true then σ1 else { σ1 with waiting := true }).calls.isEmpty) = true then 1 else 0)],
          x ∈ evs1 ∨ Ev.neutral x := by
        intro x hx
        simp only [List.mem_append, List.mem_singleton] at hx
        rcases hx with hx | rfl
        · exact Or.inl hx
        · exact Or.inr trivial
      refine ⟨?_, ?_, ?_⟩
      · intro o cb q r hmem
        rcases he _ hmem with h | h
        · obtain ⟨k, c, r', hkc, heq, hr⟩ := h2 _ h
          simp only [Ev.deliver.injEq] at heq
          obtain ⟨rfl, rfl, rfl, rfl⟩ := heq
          exact ⟨k, c, hkc, rfl, rfl, rfl, Or.inr (Or.inr ⟨hr, Or.inl ⟨good, rfl⟩⟩)⟩
        · exact h.elim
      · intro o q u hmem
        rcases he _ hmem with h | h
        · obtain ⟨k, c, r', hkc, heq, hr⟩ := h2 _ h
          simp at heq
        · exact h.elim
      · intro q hmem
        rcases he _ hmem with h | h
        · obtain ⟨k, c, r', hkc, heq, hr⟩ := h2 _ h
          simp at heq
        · exact h.elim
  | gc =>
    simp only [step] at h
    split at h
    · rename_i ho
      exact mass σ rfl rfl e h (Or.inr ⟨rfl, by simpa using ho⟩) (fun x hx => Or.inl hx)
    · simp only [Except.ok.injEq, Prod.mk.injEq] at h
      obtain ⟨rfl, rfl⟩ := h
      apply neutral; simp
  | close =>
    simp only [step] at h
    obtain ⟨-, -, -, -, he⟩ := dropStep_spec h
    apply neutral; rcases he with rfl | rfl <;> simp [Ev.neutral]

theorem eraseKey_of_lookup_none {k : Nat} {m : List (Nat × Call)} (h : lookup k m = none) : eraseKey k m = m :=
  sentCount_eraseKey_none h

theorem lookup_of_mem_nodup {k : Nat} {c : Call} {m : List (Nat × Call)} (hn : (keys m).Nodup) (h : (k, c) ∈ m) :
    lookup k m = some c := by
  induction m with
  | nil => simp at h
  | cons y t ih =>
    obtain ⟨k0, c0⟩ := y
    simp only [keys, List.map_cons, List.nodup_cons] at hn
    simp only [List.mem_cons, Prod.mk.injEq] at h
    simp only [lookup]
    rcases h with ⟨rfl, rfl⟩ | h
    · simp
    · have : k0 ≠ k := by
        intro e; subst e
        exact hn.1 (by simp only [List.mem_map]; exact ⟨(k0, c), h, rfl⟩)
      simp only [this, if_false]
      exact ih hn.2 h

theorem reqQids_eq_filterMap (wq : List WQ) :
    reqQids wq = wq.filterMap (fun w => match w with | .req _ q => some q | .cancel _ => none) := by
  induction wq with
  | nil => rfl
  | cons w t ih => cases w <;> simp [reqQids, ih]

theorem reqQids_requeue_perm (kept : List (Nat × Call)) :
    (reqQids (requeue kept)).Perm (kept.map (fun kc => kc.2.qid)) := by
  unfold requeue
  rw [reqQids_eq_filterMap]
  have hp := List.mergeSort_perm (kept.map (fun kc => WQ.req kc.2.owner kc.2.qid)) (fun a b => decide (wqQid a ≤ wqQid b))
  refine (hp.filterMap _).trans ?_
  rw [List.filterMap_map]
  have : (fun w => match w with | WQ.req _ q => some q | WQ.cancel _ => none) ∘ (fun kc : Nat × Call => WQ.req kc.2.owner kc.2.qid)
      = fun kc => some kc.2.qid := by funext kc; rfl
  rw [this]
  have e : ∀ l : List (Nat × Call), List.filterMap (fun kc : Nat × Call => some kc.2.qid) l = l.map (fun kc => kc.2.qid) := by
    intro l; induction l with
    | nil => rfl
    | cons y t ih => simp [ih]
  rw [e]

theorem mem_requeue {o q : Nat} {kept : List (Nat × Call)} (h : WQ.req o q ∈ requeue kept) :
    ∃ k c, (k, c) ∈ kept ∧ c.owner = o ∧ c.qid = q := by
  unfold requeue at h
  rw [List.mem_mergeSort] at h
  simp only [List.mem_map, WQ.req.injEq] at h
  obtain ⟨⟨k, c⟩, hm, ho, hq⟩ := h
  exact ⟨k, c, hm, ho, hq⟩

/-- invariant of states reached by histories that respect the protocol guard -/
structure GInv (σ : Conn) : Prop where
  /-- `inFlight` is exactly the number of registered calls whose request was handed to the send loop -/
  inFlight : σ.inFlight = sentCount σ.calls
  wq : wqOK σ.calls σ.writeQ
  wqNodup : (reqQids σ.writeQ).Nodup

theorem ginv_step {ops σ evs op σ' e} (hi : Inv ops σ evs) (hg : GInv σ) (hwb : op.wb σ = true)
    (h : step σ op = .ok (σ', e)) : GInv σ' := by
  have same : σ'.calls = σ.calls → σ'.writeQ = σ.writeQ → σ'.inFlight = σ.inFlight → GInv σ' := by
    intro h1 h2 h3
    exact ⟨by rw [h1, h3]; exact hg.inFlight, by rw [h1, h2]; exact hg.wq, by rw [h2]; exact hg.wqNodup⟩
  have erase : ∀ q c, lookup q σ.calls = some c → σ'.calls = eraseKey q σ.calls →
      σ'.inFlight = σ.inFlight - (if c.unsent then 0 else 1) →
      (σ'.writeQ = σ.writeQ ∨ σ'.writeQ = σ.writeQ ++ [.cancel q]) → GInv σ' := by
    intro q c hl hc hn hw
    have hrq : reqQids σ'.writeQ = reqQids σ.writeQ := by
      rcases hw with hw | hw <;> rw [hw]
      rw [reqQids_append]; simp [reqQids]
    refine ⟨?_, ?_, by rw [hrq]; exact hg.wqNodup⟩
    · have := sentCount_eraseKey_lookup hl
      rw [hn, hc, hg.inFlight]
      split at this <;> simp_all <;> omega
    · intro o q' hm c' hc'
      have hm' : WQ.req o q' ∈ σ.writeQ := by
        rcases hw with hw | hw <;> rw [hw] at hm
        · exact hm
        · simpa using hm
      rw [hc] at hc'
      by_cases hq : q' = q
      · subst hq
        have := not_mem_keys_eraseKey (k := q') hi.nodup
        rw [lookup_none_of_not_mem_keys this] at hc'
        simp at hc'
      · rw [lookup_eraseKey_ne hq] at hc'
        exact hg.wq o q' hm' c' hc'
  have mass : ∀ σ0 : Conn, σ0.calls = σ.calls → σ0.inFlight = σ.inFlight → ∀ σ1 e0, massCancel σ0 = .ok (σ1, e0) →
      σ'.calls = σ1.calls → σ'.writeQ = σ1.writeQ → σ'.inFlight = σ1.inFlight → GInv σ' := by
    intro σ0 h0 h0n σ1 e0 hm h1 h2 h3
    obtain ⟨kept, n, hl, hc, hn, hw, -⟩ := massCancel_spec hm
    rw [h0, h0n] at hl
    obtain ⟨m1, -, -, -, m5, m6, -, m8⟩ := massLoop_spec hl
    have hnd : (keys kept).Nodup := hi.nodup.sublist m8
    have hkey : ∀ k c, (k, c) ∈ kept → c.qid = k := fun k c hm => hi.key k c (m1 _ hm).1
    refine ⟨?_, ?_, ?_⟩
    · rw [h3, h1, hn, hc, m5, m6, hg.inFlight]; simp
    · intro o q hm c' hc'
      rw [h2, hw] at hm
      rw [h1, hc] at hc'
      obtain ⟨k, c, hkc, ho, hq⟩ := mem_requeue hm
      have hk := hkey k c hkc
      rw [hq] at hk; subst hk
      rw [lookup_of_mem_nodup hnd hkc] at hc'
      simp only [Option.some.injEq] at hc'; subst hc'
      exact ⟨ho, (m1 _ hkc).2.1⟩
    · rw [h2, hw]
      refine (reqQids_requeue_perm kept).nodup_iff.mpr ?_
      have : kept.map (fun kc => kc.2.qid) = keys kept := by
        simp only [keys]
        apply List.map_congr_left
        intro kc hkc
        exact hkey kc.1 kc.2 hkc
      rw [this]; exact hnd
  cases op with
  | setup o q fail dl cb =>
    simp only [step] at h
    rcases setupStep_spec h with ⟨rfl, -⟩ | ⟨-, -, rfl⟩
    · exact hg
    · simp only [Op.wb, Bool.and_eq_true, Option.isNone_iff_eq_none, Bool.not_eq_eq_eq_not, Bool.not_true,
        List.contains_eq_mem, decide_eq_false_iff_not] at hwb
      obtain ⟨hl, hq⟩ := hwb
      refine ⟨?_, ?_, ?_⟩
      · simp only [insertKey, eraseKey_of_lookup_none hl, sentCount, List.countP_cons]
        have := hg.inFlight
        simp only [sentCount] at this
        simp [this]
      · intro o' q' hm c' hc'
        simp only [insertKey, eraseKey_of_lookup_none hl, lookup] at hc'
        simp only [List.mem_append, List.mem_singleton, WQ.req.injEq] at hm
        rcases hm with hm | ⟨rfl, rfl⟩
        · have hne : q ≠ q' := fun e => hq (e ▸ mem_reqQids hm)
          simp only [hne, if_false] at hc'
          exact hg.wq o' q' hm c' hc'
        · simp only [if_true, Option.some.injEq] at hc'
          subst hc'; exact ⟨rfl, rfl⟩
      · simp only [reqQids_append, reqQids]
        rw [List.nodup_append]
        refine ⟨hg.wqNodup, by simp, ?_⟩
        intro a ha b hb
        simp only [List.mem_singleton] at hb
        subst hb
        intro e; subst e; exact hq ha
  | cancel q =>
    simp only [step] at h
    rcases cancelStep_spec h with ⟨-, rfl, -⟩ | ⟨c, hl, hc, hn, -, -, hw, -⟩
    · exact hg
    · exact erase q c hl hc hn hw
  | resp q p =>
    simp only [step] at h
    rcases finishStep_spec h with ⟨-, rfl, -⟩ | ⟨c, hl, hc, hn, -, -, hw, -⟩
    · exact hg
    · simp only [Op.wb, hl, Bool.not_eq_eq_eq_not, Bool.not_true] at hwb
      exact erase q c hl hc (by simp [hwb, hn]) (Or.inl hw)
  | rerr q p =>
    simp only [step] at h
    rcases finishStep_spec h with ⟨-, rfl, -⟩ | ⟨c, hl, hc, hn, -, -, hw, -⟩
    · exact hg
    · simp only [Op.wb, hl, Bool.not_eq_eq_eq_not, Bool.not_true] at hwb
      exact erase q c hl hc (by simp [hwb, hn]) (Or.inl hw)
  | sfin =>
    simp only [step] at h
    obtain ⟨h1, h2, h3, -⟩ := shutdownStep_spec h
    exact same h1 h2 h3
  | unk =>
    simp only [step, Except.ok.injEq, Prod.mk.injEq] at h
    obtain ⟨rfl, -⟩ := h
    exact hg
  | bi =>
    simp only [step, Except.ok.injEq, Prod.mk.injEq] at h
    obtain ⟨rfl, -⟩ := h
    exact same rfl rfl rfl
  | send =>
    simp only [step] at h
    rcases sendStep_spec h with ⟨h1, h2, h3, -⟩ | ⟨out, -, -, hm, hw, -⟩
    · exact same h1 h2 h3
    · obtain ⟨-, -, -, h4, -⟩ := moveReqs_spec hm
      refine ⟨?_, ?_, ?_⟩
      · have := hg.inFlight; omega
      · rw [hw]; intro o q hm; simp at hm
      · rw [hw]; simp [reqQids]
  | connect =>
    simp only [step] at h
    split at h <;>
    · simp only [Except.ok.injEq, Prod.mk.injEq] at h
      obtain ⟨rfl, -⟩ := h
      first | exact hg | exact same rfl rfl rfl
  | drop =>
    simp only [step] at h
    obtain ⟨h1, h2, h3, -⟩ := dropStep_spec h
    exact same h1 h2 h3
  | disc good =>
    simp only [step] at h
    cases hm : massCancel σ with
    | error p => simp [hm] at h
    | ok r =>
      obtain ⟨σ1, evs1⟩ := r
      simp only [hm, Except.ok.injEq, Prod.mk.injEq] at h
      obtain ⟨rfl, -⟩ := h
      refine mass σ rfl rfl σ1 evs1 hm ?_ ?_ ?_ <;> split <;> rfl
  | gc =>
    simp only [step] at h
    split at h
    · exact mass σ rfl rfl σ' e h rfl rfl rfl
    · simp only [Except.ok.injEq, Prod.mk.injEq] at h
      obtain ⟨rfl, -⟩ := h
      exact hg
  | close =>
    simp only [step] at h
    obtain ⟨h1, h2, h3, -⟩ := dropStep_spec h
    exact same h1 h2 h3

theorem greach_ginv {ops σ evs} (h : GReach ops σ evs) : GInv σ := by
  induction h with
  | init => exact ⟨rfl, by intro o q hm; simp [Conn.init] at hm, by simp [Conn.init, reqQids]⟩
  | snoc hr hwb hs ih => exact ginv_step (reach_inv hr.reach) ih hwb hs

/-- under the protocol guard no critical section panics -/
theorem gstep_no_panic {σ op} (hg : GInv σ) (hwb : op.wb σ = true) :
    ∃ r, step σ op = .ok r := by
  have sentPos : ∀ q c, lookup q σ.calls = some c → c.unsent = false → (1 : Int) ≤ σ.inFlight := by
    intro q c hl hu
    have := sentCount_eraseKey_lookup hl
    rw [hg.inFlight]; simp [hu] at this; omega
  have mass : ∀ σ0 : Conn, σ0.calls = σ.calls → σ0.inFlight = σ.inFlight → ∃ r, massCancel σ0 = .ok r := by
    intro σ0 h0 h1
    unfold massCancel
    obtain ⟨⟨a, b, c⟩, hr⟩ := massLoop_ok (isOpen := σ0.isOpen) (m := σ0.calls) (n := σ0.inFlight) (by rw [h0, h1, hg.inFlight]; omega)
    rw [hr]; exact ⟨_, rfl⟩
  cases op with
  | setup o q fail dl cb =>
    simp only [step, setupStep]
    split
    · exact ⟨_, rfl⟩
    · split <;> exact ⟨_, rfl⟩
  | cancel q =>
    simp only [step, cancelStep]
    split
    · exact ⟨_, rfl⟩
    · rename_i c hl
      try dsimp only
      by_cases hu : c.unsent = true
      · simp [hu]
      · simp only [Bool.not_eq_true] at hu
        have := sentPos q c hl hu
        have hn : ¬ (σ.inFlight - 1 < 0) := by omega
        simp only [hu, Bool.false_eq_true, if_false, hn]
        split
        · exact ⟨_, rfl⟩
        · split
          · exact ⟨_, rfl⟩
          · split <;> exact ⟨_, rfl⟩
  | resp q p =>
    simp only [step, finishStep]
    split
    · exact ⟨_, rfl⟩
    · rename_i c hl
      simp only [Op.wb, hl, Bool.not_eq_eq_eq_not, Bool.not_true] at hwb
      have := sentPos q c hl hwb
      have hn : ¬ (σ.inFlight - 1 < 0) := by omega
      try dsimp only
      simp only [hn, if_false]
      split <;> exact ⟨_, rfl⟩
  | rerr q p =>
    simp only [step, finishStep]
    split
    · exact ⟨_, rfl⟩
    · rename_i c hl
      simp only [Op.wb, hl, Bool.not_eq_eq_eq_not, Bool.not_true] at hwb
      have := sentPos q c hl hwb
      have hn : ¬ (σ.inFlight - 1 < 0) := by omega
      try dsimp only
      simp only [hn, if_false]
      split <;> exact ⟨_, rfl⟩
  | sfin =>
    simp only [step, shutdownStep]
    split
    · exact ⟨_, rfl⟩
    · (try dsimp only); split <;> exact ⟨_, rfl⟩
  | unk => exact ⟨_, rfl⟩
  | bi => exact ⟨_, rfl⟩
  | send =>
    simp only [step, sendStep]
    split
    · exact ⟨_, rfl⟩
    · split
      · exact ⟨_, rfl⟩
      · try dsimp only
        split
        · exact ⟨_, rfl⟩
        · obtain ⟨⟨a, b, c⟩, hr⟩ := moveReqs_ok (n := σ.inFlight) hg.wq hg.wqNodup
          rw [hr]; exact ⟨_, rfl⟩
  | connect => simp only [step]; split <;> exact ⟨_, rfl⟩
  | drop => simp only [step, dropStep]; split <;> exact ⟨_, rfl⟩
  | disc good =>
    simp only [step]
    obtain ⟨⟨a, b⟩, hr⟩ := mass σ rfl rfl
    rw [hr]; exact ⟨_, rfl⟩
  | gc =>
    simp only [step]
    split
    · exact mass σ rfl rfl
    · exact ⟨_, rfl⟩
  | close => simp only [step, dropStep]; split <;> exact ⟨_, rfl⟩

/-! ### the protocol guard stated on the history itself -/

/-- query ids given to `setupCallLocked` so far -/
def setupQids : List Op → List Nat
  | [] => []
  | .setup _ q _ _ _ :: t => q :: setupQids t
  | _ :: t => setupQids t

theorem setupQids_append (a b : List Op) : setupQids (a ++ b) = setupQids a ++ setupQids b := by
  induction a with
  | nil => rfl
  | cons op t ih => cases op <;> simp [setupQids, ih]

/-- guard of a step, stated on the history and its events only (no model state):
* a call is set up with a query id never used before on this connection;
* a response / error packet for `q` is caused by the request `q` having been written to the connection
  (or `q` is an id this client never used). -/
def Op.twb (ops : List Op) (evs : List Ev) : Op → Prop
  | .setup _ q _ _ _ => q ∉ setupQids ops
  | .resp q _ => Ev.pkt (.req q) ∈ evs ∨ q ∉ setupQids ops
  | .rerr q _ => Ev.pkt (.req q) ∈ evs ∨ q ∉ setupQids ops
  | _ => True

inductive TReach : List Op → Conn → List Ev → Prop
  | init : TReach [] Conn.init []
  | snoc {ops σ evs op σ' e} : TReach ops σ evs → op.twb ops evs → step σ op = .ok (σ', e) →
      TReach (ops ++ [op]) σ' (evs ++ e)

theorem TReach.reach {ops σ evs} (h : TReach ops σ evs) : Reach ops σ evs := by
  induction h with
  | init => exact .init
  | snoc _ _ hs ih => exact .snoc ih hs

/-- once handed to the send loop, a call stays marked through the rest of `moveRequestsToSendLocked` -/
theorem moveReqs_sent_mono {wq : List WQ} {m : List (Nat × Call)} {n : Int} {m' n' out} {q : Nat} {c : Call}
    (h : moveReqs wq m n = .ok (m', n', out)) (hl : lookup q m = some c) (hu : c.unsent = false) :
    ∃ c', lookup q m' = some c' ∧ c'.unsent = false := by
  induction wq generalizing m n m' n' out c with
  | nil =>
    simp only [moveReqs, Except.ok.injEq, Prod.mk.injEq] at h
    obtain ⟨rfl, -, -⟩ := h
    exact ⟨c, hl, hu⟩
  | cons w t ih =>
    cases w with
    | cancel q0 =>
      simp only [moveReqs] at h
      cases hr : moveReqs t m n with
      | error p => simp [hr] at h
      | ok r =>
        obtain ⟨m1, n1, out1⟩ := r
        simp only [hr, Except.ok.injEq, Prod.mk.injEq] at h
        obtain ⟨rfl, -, -⟩ := h
        exact ih hr hl hu
    | req o0 q0 =>
      simp only [moveReqs] at h
      cases hl0 : lookup q0 m with
      | none => simp only [hl0] at h; exact ih h hl hu
      | some c0 =>
        simp only [hl0] at h
        by_cases hu0 : c0.unsent = true
        · simp only [hu0, Bool.not_true, Bool.false_eq_true, if_false] at h
          by_cases ho : (c0.owner != o0) = true
          · simp [ho] at h
          · simp only [ho, Bool.false_eq_true, if_false] at h
            cases hr : moveReqs t (markSent q0 m) (n + 1) with
            | error p => simp [hr] at h
            | ok r =>
              obtain ⟨m1, n1, out1⟩ := r
              simp only [hr, Except.ok.injEq, Prod.mk.injEq] at h
              obtain ⟨rfl, -, -⟩ := h
              have hne : q ≠ q0 := by
                intro e; subst e; rw [hl] at hl0; simp only [Option.some.injEq] at hl0; subst hl0; simp [hu] at hu0
              exact ih hr (by rw [lookup_markSent_ne hne]; exact hl) hu
        · simp only [Bool.not_eq_true] at hu0
          simp [hu0] at h

theorem lookup_markSent_self {q : Nat} {m : List (Nat × Call)} {c : Call} (h : lookup q m = some c) :
    lookup q (markSent q m) = some { c with unsent := false } := by
  induction m with
  | nil => simp [lookup] at h
  | cons y t ih =>
    obtain ⟨k, c0⟩ := y
    simp only [lookup] at h
    simp only [markSent]
    split at h
    · rename_i hk; simp only [Option.some.injEq] at h; subst h; simp [hk, lookup]
    · rename_i hk; simp only [hk, if_false, lookup]; exact ih h

/-- every request written by the send loop belongs to a call that is marked sent afterwards -/
theorem moveReqs_out_sent {wq : List WQ} {m : List (Nat × Call)} {n : Int} {m' n' out} {q : Nat}
    (h : moveReqs wq m n = .ok (m', n', out)) (hq : Pkt.req q ∈ out) :
    ∃ c', lookup q m' = some c' ∧ c'.unsent = false := by
  induction wq generalizing m n m' n' out with
  | nil =>
    simp only [moveReqs, Except.ok.injEq, Prod.mk.injEq] at h
    obtain ⟨-, -, rfl⟩ := h
    simp at hq
  | cons w t ih =>
    cases w with
    | cancel q0 =>
      simp only [moveReqs] at h
      cases hr : moveReqs t m n with
      | error p => simp [hr] at h
      | ok r =>
        obtain ⟨m1, n1, out1⟩ := r
        simp only [hr, Except.ok.injEq, Prod.mk.injEq] at h
        obtain ⟨rfl, -, rfl⟩ := h
        simp only [List.mem_cons, reduceCtorEq, false_or] at hq
        exact ih hr hq
    | req o0 q0 =>
      simp only [moveReqs] at h
      cases hl0 : lookup q0 m with
      | none => simp only [hl0] at h; exact ih h hq
      | some c0 =>
        simp only [hl0] at h
        by_cases hu0 : c0.unsent = true
        · simp only [hu0, Bool.not_true, Bool.false_eq_true, if_false] at h
          by_cases ho : (c0.owner != o0) = true
          · simp [ho] at h
          · simp only [ho, Bool.false_eq_true, if_false] at h
            cases hr : moveReqs t (markSent q0 m) (n + 1) with
            | error p => simp [hr] at h
            | ok r =>
              obtain ⟨m1, n1, out1⟩ := r
              simp only [hr, Except.ok.injEq, Prod.mk.injEq] at h
              obtain ⟨rfl, -, rfl⟩ := h
              simp only [List.mem_cons, Pkt.req.injEq] at hq
              rcases hq with rfl | hq
              · exact moveReqs_sent_mono hr (lookup_markSent_self hl0) rfl
              · exact ih hr hq
        · simp only [Bool.not_eq_true] at hu0
          simp [hu0] at h

/-- where the queued requests of the next state come from -/
theorem step_wq {ops σ evs op σ' e} (hi : Inv ops σ evs) (h : step σ op = .ok (σ', e)) :
    ∀ q, q ∈ reqQids σ'.writeQ → q ∈ reqQids σ.writeQ ∨ q ∈ keys σ.calls ∨ ∃ o f dl cb, op = .setup o q f dl cb := by
  intro q hq
  have same : σ'.writeQ = σ.writeQ → q ∈ reqQids σ.writeQ ∨ q ∈ keys σ.calls ∨ ∃ o f dl cb, op = .setup o q f dl cb := by
    intro hw; rw [hw] at hq; exact Or.inl hq
  have mass : ∀ σ0 : Conn, σ0.calls = σ.calls → ∀ σ1 e0, massCancel σ0 = .ok (σ1, e0) → σ'.writeQ = σ1.writeQ →
      q ∈ reqQids σ.writeQ ∨ q ∈ keys σ.calls ∨ ∃ o f dl cb, op = .setup o q f dl cb := by
    intro σ0 h0 σ1 e0 hm hw
    obtain ⟨kept, n, hl, -, -, hwq, -⟩ := massCancel_spec hm
    rw [h0] at hl
    obtain ⟨m1, -⟩ := massLoop_spec hl
    rw [hw, hwq] at hq
    have hp := (reqQids_requeue_perm kept).mem_iff.mp hq
    simp only [List.mem_map] at hp
    obtain ⟨⟨k, c⟩, hkc, rfl⟩ := hp
    have hmem := (m1 _ hkc).1
    have := hi.key k c hmem
    right; left
    simp only [keys, List.mem_map]
    exact ⟨(k, c), hmem, this.symm⟩
  cases op with
  | setup o q0 fail dl cb =>
    simp only [step] at h
    rcases setupStep_spec h with ⟨rfl, -⟩ | ⟨-, -, rfl⟩
    · exact Or.inl hq
    · simp only [reqQids_append, List.mem_append, reqQids, List.mem_singleton] at hq
      rcases hq with hq | rfl
      · exact Or.inl hq
      · exact Or.inr (Or.inr ⟨o, fail, dl, cb, rfl⟩)
  | cancel q0 =>
    simp only [step] at h
    rcases cancelStep_spec h with ⟨-, rfl, -⟩ | ⟨c, -, -, -, -, -, hw, -⟩
    · exact Or.inl hq
    · rcases hw with hw | hw
      · exact same hw
      · rw [hw, reqQids_append] at hq; simp [reqQids] at hq; exact Or.inl hq
  | resp q0 p =>
    simp only [step] at h
    rcases finishStep_spec h with ⟨-, rfl, -⟩ | ⟨c, -, -, -, -, -, hw, -⟩
    · exact Or.inl hq
    · exact same hw
  | rerr q0 p =>
    simp only [step] at h
    rcases finishStep_spec h with ⟨-, rfl, -⟩ | ⟨c, -, -, -, -, -, hw, -⟩
    · exact Or.inl hq
    · exact same hw
  | sfin => simp only [step] at h; exact same (shutdownStep_spec h).2.1
  | unk => simp only [step, Except.ok.injEq, Prod.mk.injEq] at h; obtain ⟨rfl, -⟩ := h; exact Or.inl hq
  | bi => simp only [step, Except.ok.injEq, Prod.mk.injEq] at h; obtain ⟨rfl, -⟩ := h; exact Or.inl hq
  | send =>
    simp only [step] at h
    rcases sendStep_spec h with ⟨-, hw, -⟩ | ⟨out, -, -, -, hw, -⟩
    · exact same hw
    · rw [hw] at hq; simp [reqQids] at hq
  | connect =>
    simp only [step] at h
    split at h <;>
    · simp only [Except.ok.injEq, Prod.mk.injEq] at h
      obtain ⟨rfl, -⟩ := h
      exact Or.inl hq
  | drop => simp only [step] at h; exact same (dropStep_spec h).2.1
  | disc good =>
    simp only [step] at h
    cases hm : massCancel σ with
    | error p => simp [hm] at h
    | ok r =>
      obtain ⟨σ1, evs1⟩ := r
      simp only [hm, Except.ok.injEq, Prod.mk.injEq] at h
      obtain ⟨rfl, -⟩ := h
      exact mass σ rfl σ1 evs1 hm (by split <;> rfl)
  | gc =>
    simp only [step] at h
    split at h
    · exact mass σ rfl σ' e h rfl
    · simp only [Except.ok.injEq, Prod.mk.injEq] at h
      obtain ⟨rfl, -⟩ := h
      exact Or.inl hq
  | close => simp only [step] at h; exact same (dropStep_spec h).2.1

/-- what the history-level guard maintains -/
structure TInv (ops : List Op) (σ : Conn) (evs : List Ev) : Prop where
  keysSetup : ∀ k, k ∈ keys σ.calls → k ∈ setupQids ops
  wqSetup : ∀ q, q ∈ reqQids σ.writeQ → q ∈ setupQids ops
  unsentNotWritten : ∀ k c, (k, c) ∈ σ.calls → c.unsent = true → Ev.pkt (.req k) ∉ evs
  writtenSetup : ∀ q, Ev.pkt (.req q) ∈ evs → q ∈ setupQids ops

theorem mem_setupQids_snoc {ops : List Op} {op : Op} {q : Nat} :
    q ∈ setupQids (ops ++ [op]) ↔ q ∈ setupQids ops ∨ ∃ o f dl cb, op = .setup o q f dl cb := by
  rw [setupQids_append, List.mem_append]
  cases op <;> simp [setupQids]
  rename_i o q0 f dl cb
  constructor
  · rintro (h | rfl)
    · exact Or.inl h
    · exact Or.inr rfl
  · rintro (h | h)
    · exact Or.inl h
    · exact Or.inr h.symm

theorem tinv_step {ops σ evs op σ' e} (hi : Inv ops σ evs) (ht : TInv ops σ evs) (hwb : op.twb ops evs)
    (h : step σ op = .ok (σ', e)) : TInv (ops ++ [op]) σ' (evs ++ e) := by
  obtain ⟨p1, p2, -⟩ := step_prov h
  obtain ⟨-, -, e3⟩ := step_events h
  have hi' : Inv (ops ++ [op]) σ' (evs ++ e) := reach_inv_step hi h
  refine ⟨?_, ?_, ?_, ?_⟩
  · intro k hk
    simp only [keys, List.mem_map] at hk
    obtain ⟨⟨k', c'⟩, hm, rfl⟩ := hk
    rw [mem_setupQids_snoc]
    rcases p1 k' c' hm with ⟨c, hc, -⟩ | ⟨hop, -⟩
    · left; apply ht.keysSetup; simp only [keys, List.mem_map]; exact ⟨(k', c), hc, rfl⟩
    · right; exact ⟨_, _, _, _, hop⟩
  · intro q hq
    rw [mem_setupQids_snoc]
    rcases step_wq hi h q hq with h1 | h1 | h1
    · exact Or.inl (ht.wqSetup q h1)
    · exact Or.inl (ht.keysSetup q h1)
    · exact Or.inr h1
  · intro k c' hm hu hmem
    simp only [List.mem_append] at hmem
    rcases p1 k c' hm with ⟨c, hc, hs⟩ | ⟨hop, -⟩
    · have hcu : c.unsent = true := hs.2.2.2.2.2 hu
      rcases hmem with hmem | hmem
      · exact ht.unsentNotWritten k c hc hcu hmem
      · -- written in this very step: then the call is marked sent
        obtain ⟨hsend, -, -⟩ := e3 k hmem
        subst hsend
        simp only [step] at h
        rcases sendStep_spec h with ⟨-, -, -, -, he⟩ | ⟨out, -, -, hmv, -, -, he⟩
        · rcases he with rfl | rfl | rfl <;> simp at hmem
        · have hout : Pkt.req k ∈ out := by
            rcases he with rfl | rfl
            · simpa using hmem
            · simp only [List.mem_append, List.mem_map, Ev.pkt.injEq, exists_eq_right, List.mem_singleton,
                reduceCtorEq, or_false] at hmem
              exact hmem
          obtain ⟨c2, hl2, hu2⟩ := moveReqs_out_sent hmv hout
          have := lookup_of_mem_nodup hi'.nodup hm
          rw [this] at hl2
          simp only [Option.some.injEq] at hl2
          subst hl2
          simp [hu] at hu2
    · -- a call set up in this step with a fresh id
      have hfresh : k ∉ setupQids ops := by rw [hop] at hwb; exact hwb
      rcases hmem with hmem | hmem
      · exact hfresh (ht.writtenSetup k hmem)
      · obtain ⟨hsend, -, -⟩ := e3 k hmem
        rw [hop] at hsend; simp at hsend
  · intro q hmem
    rw [mem_setupQids_snoc]
    simp only [List.mem_append] at hmem
    rcases hmem with hmem | hmem
    · exact Or.inl (ht.writtenSetup q hmem)
    · obtain ⟨-, -, hk⟩ := e3 q hmem
      exact Or.inl (ht.keysSetup q hk)

theorem twb_wb {ops σ evs} {op : Op} (ht : TInv ops σ evs) (hwb : op.twb ops evs) : op.wb σ = true := by
  have resp : ∀ q, (Ev.pkt (.req q) ∈ evs ∨ q ∉ setupQids ops) →
      (match lookup q σ.calls with | some c => !c.unsent | none => true) = true := by
    intro q hq
    cases hl : lookup q σ.calls with
    | none => rfl
    | some c =>
      simp only [Bool.not_eq_eq_eq_not, Bool.not_true]
      cases hu : c.unsent with
      | false => rfl
      | true =>
        rcases hq with hq | hq
        · exact absurd hq (ht.unsentNotWritten q c (lookup_mem hl) hu)
        · exact absurd (ht.keysSetup q (mem_keys_of_lookup hl)) hq
  cases op with
  | setup o q f dl cb =>
    simp only [Op.twb] at hwb
    simp only [Op.wb, Bool.and_eq_true, Option.isNone_iff_eq_none, Bool.not_eq_eq_eq_not, Bool.not_true,
      List.contains_eq_mem, decide_eq_false_iff_not]
    refine ⟨lookup_none_of_not_mem_keys (fun hk => hwb (ht.keysSetup q hk)), fun hq => hwb (ht.wqSetup q hq)⟩
  | resp q p => exact resp q hwb
  | rerr q p => exact resp q hwb
  | _ => rfl

theorem treach_inv {ops σ evs} (h : TReach ops σ evs) : TInv ops σ evs := by
  induction h with
  | init => exact ⟨by simp [Conn.init, keys], by simp [Conn.init, reqQids], by simp [Conn.init], by simp⟩
  | snoc hr hwb hs ih => exact tinv_step (reach_inv hr.reach) ih hwb hs

/-- the history-level guard implies the state-level one at every step -/
theorem TReach.greach {ops σ evs} (h : TReach ops σ evs) : GReach ops σ evs := by
  induction h with
  | init => exact .init
  | snoc hr hwb hs ih => exact .snoc ih (twb_wb (treach_inv hr) hwb) hs

/-- a request is written by `moveRequestsToSendLocked` only for a call that was registered and unsent when the
send loop took the queue … -/
theorem moveReqs_out_unsent {wq : List WQ} {m : List (Nat × Call)} {n : Int} {m' n' out} {q : Nat}
    (h : moveReqs wq m n = .ok (m', n', out)) (hq : Pkt.req q ∈ out) :
    ∃ c, lookup q m = some c ∧ c.unsent = true := by
  induction wq generalizing m n m' n' out with
  | nil =>
    simp only [moveReqs, Except.ok.injEq, Prod.mk.injEq] at h
    obtain ⟨-, -, rfl⟩ := h
    simp at hq
  | cons w t ih =>
    cases w with
    | cancel q0 =>
      simp only [moveReqs] at h
      cases hr : moveReqs t m n with
      | error p => simp [hr] at h
      | ok r =>
        obtain ⟨m1, n1, out1⟩ := r
        simp only [hr, Except.ok.injEq, Prod.mk.injEq] at h
        obtain ⟨-, -, rfl⟩ := h
        simp only [List.mem_cons, reduceCtorEq, false_or] at hq
        exact ih hr hq
    | req o0 q0 =>
      simp only [moveReqs] at h
      cases hl0 : lookup q0 m with
      | none => simp only [hl0] at h; exact ih h hq
      | some c0 =>
        simp only [hl0] at h
        by_cases hu0 : c0.unsent = true
        · simp only [hu0, Bool.not_true, Bool.false_eq_true, if_false] at h
          by_cases ho : (c0.owner != o0) = true
          · simp [ho] at h
          · simp only [ho, Bool.false_eq_true, if_false] at h
            cases hr : moveReqs t (markSent q0 m) (n + 1) with
            | error p => simp [hr] at h
            | ok r =>
              obtain ⟨m1, n1, out1⟩ := r
              simp only [hr, Except.ok.injEq, Prod.mk.injEq] at h
              obtain ⟨-, -, rfl⟩ := h
              by_cases hqq : q = q0
              · subst hqq; exact ⟨c0, hl0, hu0⟩
              · simp only [List.mem_cons, Pkt.req.injEq, hqq, false_or] at hq
                obtain ⟨c, hc, hu⟩ := ih hr hq
                rw [lookup_markSent_ne hqq] at hc
                exact ⟨c, hc, hu⟩
        · simp only [Bool.not_eq_true] at hu0
          simp [hu0] at h

/-- … and at most once per run of the send loop -/
theorem moveReqs_out_count {wq : List WQ} {m : List (Nat × Call)} {n : Int} {m' n' out} (q : Nat)
    (h : moveReqs wq m n = .ok (m', n', out)) : out.count (Pkt.req q) ≤ 1 := by
  induction wq generalizing m n m' n' out with
  | nil =>
    simp only [moveReqs, Except.ok.injEq, Prod.mk.injEq] at h
    obtain ⟨-, -, rfl⟩ := h
    simp
  | cons w t ih =>
    cases w with
    | cancel q0 =>
      simp only [moveReqs] at h
      cases hr : moveReqs t m n with
      | error p => simp [hr] at h
      | ok r =>
        obtain ⟨m1, n1, out1⟩ := r
        simp only [hr, Except.ok.injEq, Prod.mk.injEq] at h
        obtain ⟨-, -, rfl⟩ := h
        have := ih hr
        simp only [List.count_cons, beq_iff_eq, reduceCtorEq, if_false]
        omega
    | req o0 q0 =>
      simp only [moveReqs] at h
      cases hl0 : lookup q0 m with
      | none => simp only [hl0] at h; exact ih h
      | some c0 =>
        simp only [hl0] at h
        by_cases hu0 : c0.unsent = true
        · simp only [hu0, Bool.not_true, Bool.false_eq_true, if_false] at h
          by_cases ho : (c0.owner != o0) = true
          · simp [ho] at h
          · simp only [ho, Bool.false_eq_true, if_false] at h
            cases hr : moveReqs t (markSent q0 m) (n + 1) with
            | error p => simp [hr] at h
            | ok r =>
              obtain ⟨m1, n1, out1⟩ := r
              simp only [hr, Except.ok.injEq, Prod.mk.injEq] at h
              obtain ⟨-, -, rfl⟩ := h
              have := ih hr
              simp only [List.count_cons, beq_iff_eq, Pkt.req.injEq]
              by_cases hqq : q0 = q
              · subst hqq
                have hz : out1.count (Pkt.req q0) = 0 := by
                  rw [List.count_eq_zero]
                  intro hmem
                  obtain ⟨c, hc, hu⟩ := moveReqs_out_unsent hr hmem
                  rw [lookup_markSent_self hl0] at hc
                  simp only [Option.some.injEq] at hc
                  subst hc
                  simp at hu
                simp [hz]
              · simp only [hqq, if_false]; omega
        · simp only [Bool.not_eq_true] at hu0
          simp [hu0] at h

theorem count_map_pkt (out : List Pkt) (p : Pkt) : (out.map Ev.pkt).count (Ev.pkt p) = out.count p := by
  induction out with
  | nil => rfl
  | cons x t ih =>
    simp only [List.map_cons, List.count_cons, ih, beq_iff_eq, Ev.pkt.injEq]

/-- under the history-level guard, the request of a query id is written to the connection at most once -/
theorem treach_written_once {ops σ evs} (h : TReach ops σ evs) (q : Nat) : evs.count (Ev.pkt (.req q)) ≤ 1 := by
  induction h with
  | init => simp
  | @snoc ops σ evs op σ' e hr hwb hs ih =>
    rw [List.count_append]
    by_cases hm : Ev.pkt (.req q) ∈ e
    · -- written now: it was registered unsent, hence never written before
      obtain ⟨-, -, e3⟩ := step_events hs
      obtain ⟨hsend, -, -⟩ := e3 q hm
      subst hsend
      simp only [step] at hs
      rcases sendStep_spec hs with ⟨-, -, -, -, he⟩ | ⟨out, -, -, hmv, -, -, he⟩
      · rcases he with rfl | rfl | rfl <;> simp at hm
      · have hout : Pkt.req q ∈ out := by
          rcases he with rfl | rfl
          · simpa using hm
          · simp only [List.mem_append, List.mem_map, Ev.pkt.injEq, exists_eq_right, List.mem_singleton,
              reduceCtorEq, or_false] at hm
            exact hm
        obtain ⟨c, hc, hu⟩ := moveReqs_out_unsent hmv hout
        have hz : evs.count (Ev.pkt (.req q)) = 0 :=
          List.count_eq_zero.mpr ((treach_inv hr).unsentNotWritten q c (lookup_mem hc) hu)
        have hc1 := moveReqs_out_count q hmv
        have : e.count (Ev.pkt (.req q)) = out.count (Pkt.req q) := by
          rcases he with rfl | rfl
          · exact count_map_pkt out _
          · rw [List.count_append, count_map_pkt]; simp
        omega
    · have : e.count (Ev.pkt (.req q)) = 0 := List.count_eq_zero.mpr hm
      omega

end TLVerif.Rpccalls
